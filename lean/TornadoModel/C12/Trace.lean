/-
C12 — the model's own traces pass the executable trace checker `Spec.check` (helper lemmas).

`absS s` is the checker state corresponding to a model state.  `sendLoop_shape` describes the send loop as
"k accepted sends, then a stop for a reason" in exactly the terms `Spec.walk` checks; `handleWrite_walk` and
`sstep_step` lift it to `_handle_write` and to one operation.
-/
import TornadoModel.C12.Lemmas
namespace TornadoModel.C12
open Spec

/-- the checker state that corresponds to a model state -/
def absS (s : St) : SSt := ⟨s.buf.abs, s.didx, s.widx, s.futs, s.nextId, s.maxw, s.closed⟩

theorem absS_init (m : Option Nat) : absS (St.init m) = SSt.init m := rfl

/-! ### `walk` on the three kinds of events -/

theorem walk_sent (ss : SSt) (n : Nat) (sc : List Send) (d : Bytes) (es : List Ev)
    (h1 : d ≠ []) (h2 : d.length ≤ n) (h3 : d <+: ss.q) (h4 : ss.closed = false) :
    walk ss (.acc n :: sc) (.sent d :: es)
      = walk { ss with q := ss.q.drop d.length, sentLen := ss.sentLen + d.length } sc es := by
  have h3' := (isPrefix_iff _ _).mpr h3
  simp [walk, h1, h2, h3', h4]

theorem walk_resolved (ss : SSt) (sc : List Send) (i id : Nat) (ps : List (Nat × Nat)) (es : List Ev)
    (hp : ss.pend = (i, id) :: ps) (hi : i ≤ ss.sentLen) (hc : ss.closed = false) :
    walk ss sc (.resolved id :: es) = walk { ss with pend := ps } sc es := by
  simp [walk, hp, hi, hc]

theorem walk_failed (ss : SSt) (sc : List Send) (i id : Nat) (ps : List (Nat × Nat)) (es : List Ev)
    (hp : ss.pend = (i, id) :: ps) (hc : ss.closed = true) :
    walk ss sc (.failed id :: es) = walk { ss with pend := ps } sc es := by
  simp [walk, hp, hc]

theorem walk_resolved_list : ∀ (pre : List (Nat × Nat)) (ss : SSt) (sc : List Send) (fs : List (Nat × Nat))
    (tl : List Ev), ss.pend = pre ++ fs → (∀ p ∈ pre, p.1 ≤ ss.sentLen) → ss.closed = false →
    walk ss sc (pre.map (fun p => Ev.resolved p.2) ++ tl) = walk { ss with pend := fs } sc tl := by
  intro pre
  induction pre with
  | nil =>
    intro ss sc fs tl hp _ _
    have : ({ ss with pend := fs } : SSt) = ss := by cases ss; simp_all
    simp [this]
  | cons p pre ih =>
    intro ss sc fs tl hp hle hc
    obtain ⟨i, id⟩ := p
    simp only [List.map_cons, List.cons_append]
    rw [walk_resolved ss sc i id (pre ++ fs) _ (by simpa using hp) (hle (i, id) (by simp)) hc]
    exact ih { ss with pend := pre ++ fs } sc fs tl rfl (fun p hp => hle p (by simp [hp])) hc

theorem walk_failed_list : ∀ (fl : List (Nat × Nat)) (ss : SSt), ss.pend = fl → ss.closed = true →
    walk ss [] (fl.map (fun p => Ev.failed p.2)) = some { ss with pend := [] } := by
  intro fl
  induction fl with
  | nil =>
    intro ss hp _
    have : ({ ss with pend := [] } : SSt) = ss := by cases ss; simp_all
    simp [this, walk]
  | cons p fl ih =>
    intro ss hp hc
    obtain ⟨i, id⟩ := p
    simp only [List.map_cons]
    rw [walk_failed ss [] i id fl _ hp hc]
    exact ih { ss with pend := fl } rfl hc

/-! ### event-list bookkeeping -/

theorem sentBytes_sents (ds : List Bytes) : sentBytes (ds.map Ev.sent) = ds.flatten := by
  induction ds with
  | nil => rfl
  | cons d ds ih => simp [sentBytes, ih]

theorem filter_sents (p : Ev → Bool) (hs : ∀ d, p (.sent d) = true) (ds : List Bytes) (l : List Ev)
    (hl : ∀ e ∈ l, p e = false) : ((ds.map Ev.sent ++ l).filter p).length = ds.length := by
  induction ds with
  | nil =>
    simp only [List.map_nil, List.nil_append, List.length_nil]
    rw [List.filter_eq_nil_iff.mpr (fun e he => by simp [hl e he])]
    rfl
  | cons d ds ih =>
    simp only [List.map_cons, List.cons_append]
    rw [List.filter_cons_of_pos (by simp [hs])]
    simp only [List.length_cons, ih]

theorem filter_sents0 (p : Ev → Bool) (hs : ∀ d, p (.sent d) = true) (ds : List Bytes) :
    ((ds.map Ev.sent).filter p).length = ds.length := by
  have := filter_sents p hs ds [] (by simp)
  simpa using this

theorem takeWhile_sents (p : Ev → Bool) (hs : ∀ d, p (.sent d) = true) (hf : ∀ i, p (.failed i) = false)
    (ds : List Bytes) (fl : List (Nat × Nat)) :
    (ds.map Ev.sent ++ fl.map (fun q => Ev.failed q.2)).takeWhile p = ds.map Ev.sent := by
  induction ds with
  | nil => cases fl <;> simp [List.takeWhile, hf]
  | cons d ds ih => simp [List.takeWhile, hs, ih]

theorem dropWhile_sents (p : Ev → Bool) (hs : ∀ d, p (.sent d) = true) (hf : ∀ i, p (.failed i) = false)
    (ds : List Bytes) (fl : List (Nat × Nat)) :
    (ds.map Ev.sent ++ fl.map (fun q => Ev.failed q.2)).dropWhile p = fl.map (fun q => Ev.failed q.2) := by
  induction ds with
  | nil => cases fl <;> simp [List.dropWhile, hf]
  | cons d ds ih => simp [List.dropWhile, hs, ih]

/-! ### the send loop, in the checker's terms -/

theorem sendLoop_shape (sc : List Send) : ∀ (s : St) (r : St × List Ev), WF s.buf → s.closed = false →
    sendLoop s sc = r →
    ∃ (accs : List Nat) (ds : List Bytes) (rem : List Send) (b' : Buf),
      sc = accs.map Send.acc ++ rem ∧ accs.length = ds.length ∧ WF b' ∧
      ds.flatten ++ b'.abs = s.buf.abs ∧
      (∀ (ss : SSt) (r' : List Send) (tl : List Ev), ss.q = s.buf.abs → ss.closed = false →
        walk ss (accs.map Send.acc ++ r') (ds.map Ev.sent ++ tl)
          = walk { ss with q := b'.abs, sentLen := ss.sentLen + ds.flatten.length } r' tl) ∧
      ((r = ({ s with buf := b', didx := s.didx + ds.flatten.length }, ds.map Ev.sent) ∧
          (rem = [] ∨ (∃ t, rem = Send.acc 0 :: t) ∨ b'.abs = []))
       ∨ (∃ t, rem = Send.fail :: t ∧ b'.abs ≠ [] ∧
          r = ({ s with buf := Buf.empty, didx := s.didx + ds.flatten.length, futs := [], closed := true },
               ds.map Ev.sent ++ s.futs.map (fun p => Ev.failed p.2)))) := by
  induction sc with
  | nil =>
    intro s r hwf hc hr
    simp only [sendLoop] at hr
    subst hr
    refine ⟨[], [], [], s.buf, rfl, rfl, hwf, rfl, ?_, Or.inl ⟨rfl, Or.inl rfl⟩⟩
    intro ss r' tl hq _
    simp only [List.map_nil, List.nil_append, List.flatten_nil, List.length_nil, Nat.add_zero]
    rw [← hq]
  | cons step rest ih =>
    intro s r hwf hc hr
    have hsz := size_eq_abs' hwf
    -- the loop stops at once (nothing sent)
    have stop : r = (s, []) → (step :: rest = [] ∨ (∃ t, step :: rest = Send.acc 0 :: t) ∨ s.buf.abs = []) →
        ∃ (accs : List Nat) (ds : List Bytes) (rem : List Send) (b' : Buf),
          step :: rest = accs.map Send.acc ++ rem ∧ accs.length = ds.length ∧ WF b' ∧
          ds.flatten ++ b'.abs = s.buf.abs ∧
          (∀ (ss : SSt) (r' : List Send) (tl : List Ev), ss.q = s.buf.abs → ss.closed = false →
            walk ss (accs.map Send.acc ++ r') (ds.map Ev.sent ++ tl)
              = walk { ss with q := b'.abs, sentLen := ss.sentLen + ds.flatten.length } r' tl) ∧
          ((r = ({ s with buf := b', didx := s.didx + ds.flatten.length }, ds.map Ev.sent) ∧
              (rem = [] ∨ (∃ t, rem = Send.acc 0 :: t) ∨ b'.abs = []))
           ∨ (∃ t, rem = Send.fail :: t ∧ b'.abs ≠ [] ∧
              r = ({ s with buf := Buf.empty, didx := s.didx + ds.flatten.length, futs := [], closed := true },
                   ds.map Ev.sent ++ s.futs.map (fun p => Ev.failed p.2)))) := by
      intro hr why
      refine ⟨[], [], step :: rest, s.buf, rfl, rfl, hwf, rfl, ?_, Or.inl ⟨hr, why⟩⟩
      intro ss r' tl hq _
      simp only [List.map_nil, List.nil_append, List.flatten_nil, List.length_nil, Nat.add_zero]
      rw [← hq]
    unfold sendLoop at hr
    split at hr
    · rename_i h0
      refine stop hr.symm (Or.inr (Or.inr ?_))
      apply List.eq_nil_of_length_eq_zero; omega
    · rename_i h0
      have hne : s.buf.abs ≠ [] := by
        intro h; rw [h] at hsz; simp at hsz; exact h0 hsz
      cases step with
      | fail =>
        simp only [closeSt] at hr
        subst hr
        refine ⟨[], [], Send.fail :: rest, s.buf, rfl, rfl, hwf, rfl, ?_, Or.inr ⟨rest, rfl, hne, rfl⟩⟩
        intro ss r' tl hq _
        simp only [List.map_nil, List.nil_append, List.flatten_nil, List.length_nil, Nat.add_zero]
        rw [← hq]
      | acc n =>
        simp only at hr
        have hpos : 0 < s.buf.size := by omega
        have hpne := peek_nonempty hwf s.buf.size hpos hne
        have hplen : 0 < (s.buf.peek s.buf.size).length := List.length_pos_iff.mpr hpne
        split at hr
        · rename_i hk
          have hn0 : n = 0 := by omega
          subst hn0
          exact stop hr.symm (Or.inr (Or.inl ⟨rest, rfl⟩))
        · rename_i hk
          have hpre := peek_prefix' hwf s.buf.size
          have hkle : min n (s.buf.peek s.buf.size).length ≤ (s.buf.peek s.buf.size).length := Nat.min_le_right _ _
          have hlen : (s.buf.peek s.buf.size).length ≤ s.buf.size := by
            have := hpre.length_le; rw [← hsz] at this; exact this
          obtain ⟨b1, hadv, hwf1, habs1, _⟩ :=
            advance_spec hwf (min n (s.buf.peek s.buf.size).length) (by omega) (by omega)
          rw [hadv] at hr
          simp only at hr
          have htake := take_of_prefix hpre _ hkle
          generalize hk' : min n (s.buf.peek s.buf.size).length = k at *
          have hdlen : ((s.buf.peek s.buf.size).take k).length = k := by
            rw [List.length_take]; omega
          obtain ⟨accs, ds, rem, b', hsc, hl, hwf', hfl, hwalk, hres⟩ :=
            ih { s with buf := b1, didx := s.didx + k } _ hwf1 hc rfl
          have hflat : (((s.buf.peek s.buf.size).take k) :: ds).flatten.length = k + ds.flatten.length := by
            simp only [List.flatten_cons, List.length_append, hdlen]
          refine ⟨n :: accs, ((s.buf.peek s.buf.size).take k) :: ds, rem, b', by simp [hsc], by simp [hl], hwf', ?_, ?_, ?_⟩
          · simp only [List.flatten_cons, List.append_assoc]
            simp only at hfl
            rw [hfl, habs1, htake, List.take_append_drop]
          · intro ss r' tl hq hcl
            simp only [List.map_cons, List.cons_append]
            rw [walk_sent ss n _ _ _ (by intro h; rw [h] at hdlen; simp at hdlen; omega) (by omega)
              (by rw [hq, htake]; exact List.take_prefix _ _) hcl]
            have hw' := hwalk { ss with q := ss.q.drop ((s.buf.peek s.buf.size).take k).length,
                                        sentLen := ss.sentLen + ((s.buf.peek s.buf.size).take k).length } r' tl
              (by simp only [hdlen, hq, habs1]) hcl
            rw [hw']
            rw [hflat]
            simp only [hdlen, Nat.add_assoc]
          · rcases hres with ⟨heq, why⟩ | ⟨t, hrem, hne', heq⟩
            · left
              refine ⟨?_, why⟩
              rw [← hr, heq, hflat]
              simp only [List.map_cons, Nat.add_assoc]
            · right
              refine ⟨t, hrem, hne', ?_⟩
              rw [← hr, heq, hflat]
              simp only [List.map_cons, List.cons_append, Nat.add_assoc]

/-! ### `_handle_write` and one operation against the checker -/

theorem settled_of_inv {s : St} (h : Inv s) : settled (absS s) = true := by
  unfold settled absS
  by_cases hc : s.closed = true
  · simp [hc]
  · have hc' : s.closed = false := by simpa using hc
    by_cases ha : s.buf.abs = []
    · have hsz := size_eq_abs' h.wf
      have hidx := h.idx hc'
      have : s.futs = [] := by
        cases hf : s.futs with
        | nil => rfl
        | cons p ps =>
          have := h.pend p (by simp [hf])
          rw [ha] at hsz; simp at hsz; omega
      simp [hc', ha, this]
    · simp [hc', ha]

theorem handleWrite_walk (s : St) (sc : List Send) (h : PreInv s) :
    sstep.walkClosing (absS s) sc (handleWrite s sc).2 = some (absS (handleWrite s sc).1) := by
  obtain ⟨accs, ds, rem, b', hsc, hl, hwf', hfl, hwalk, hres⟩ :=
    sendLoop_shape sc s _ h.wf h.opn rfl
  have hdrop : sc.drop ds.length = rem := by
    rw [hsc]; exact List.drop_left' (by simp [hl])
  have htakeSc : sc.take ds.length = accs.map Send.acc := by
    rw [hsc]; exact List.take_left' (by simp [hl])
  have hqlen : (absS s).q.length = ds.flatten.length + b'.abs.length := by
    simp only [absS]; rw [← hfl]; simp
  unfold handleWrite
  rcases hres with ⟨heq, why⟩ | ⟨t, hrem, hne', heq⟩
  · -- no send failed
    rw [heq]
    simp only [h.opn, Bool.false_eq_true, if_false]
    obtain ⟨pre, h1, h2, h3, _⟩ := resolveFuts_spec (s.didx + ds.flatten.length) s.futs
    generalize resolveFuts (s.didx + ds.flatten.length) s.futs = q at h1 h2 h3
    obtain ⟨fs, rs⟩ := q
    simp only at h1 h2 h3 ⊢
    subst h2
    have hfn : failsNow (absS s) sc (ds.map Ev.sent ++ pre.map (fun p => Ev.resolved p.2)) = false := by
      unfold failsNow
      simp only [sentBytes_append, sentBytes_sents, sentBytes_resolved, List.append_nil]
      rw [filter_sents _ (fun _ => rfl) ds _ (by intro e he; simp only [List.mem_map] at he; obtain ⟨a, _, rfl⟩ := he; rfl), hdrop]
      rcases why with hr | ⟨t, hr⟩ | hr
      · rw [hr]
      · rw [hr]
      · cases rem with
        | nil => rfl
        | cons x xs =>
          cases x with
          | acc n => rfl
          | fail => simp [hqlen, hr]
    unfold sstep.walkClosing
    rw [hfn]
    simp only [Bool.false_eq_true, if_false]
    have hw := hwalk (absS s) rem (pre.map (fun p => Ev.resolved p.2)) rfl h.opn
    rw [← hsc] at hw
    rw [hw]
    have hw2 := walk_resolved_list pre
      { absS s with q := b'.abs, sentLen := (absS s).sentLen + ds.flatten.length } rem fs [] h1
      (by intro p hp; exact h3 p hp) h.opn
    rw [List.append_nil] at hw2
    rw [hw2]
    have hfin : walk { absS s with q := b'.abs, sentLen := (absS s).sentLen + ds.flatten.length, pend := fs } rem []
        = some { absS s with q := b'.abs, sentLen := (absS s).sentLen + ds.flatten.length, pend := fs } := by
      rcases why with hr | ⟨t, hr⟩ | hr
      · rw [hr]; simp [walk]
      · rw [hr]; simp [walk]
      · cases rem with
        | nil => simp [walk]
        | cons x xs =>
          cases x with
          | acc n => cases n <;> simp [walk, hr]
          | fail => simp [walk, hr]
    rw [hfin]
    simp [absS, h.opn]
  · -- a send failed: the stream closes, every pending future fails
    rw [heq]
    simp only [if_true]
    have hfn : failsNow (absS s) sc (ds.map Ev.sent ++ s.futs.map (fun p => Ev.failed p.2)) = true := by
      unfold failsNow
      simp only [sentBytes_append, sentBytes_sents, sentBytes_failed, List.append_nil]
      rw [filter_sents _ (fun _ => rfl) ds _ (by intro e he; simp only [List.mem_map] at he; obtain ⟨a, _, rfl⟩ := he; rfl), hdrop, hrem]
      have : 0 < b'.abs.length := List.length_pos_iff.mpr hne'
      simp only [hqlen, decide_eq_true_eq]
      omega
    unfold sstep.walkClosing
    rw [hfn]
    simp only [if_true]
    rw [takeWhile_sents _ (fun _ => rfl) (fun _ => rfl) ds s.futs,
      dropWhile_sents _ (fun _ => rfl) (fun _ => rfl) ds s.futs,
      filter_sents0 _ (fun _ => rfl) ds, htakeSc]
    have hw := hwalk (absS s) [] [] rfl h.opn
    simp only [List.append_nil] at hw
    rw [hw]
    simp only [walk]
    rw [walk_failed_list s.futs _ rfl rfl]
    rfl

theorem exceeds_isFull {s : St} (h : Inv s) (d : Bytes) : exceeds (absS s) d = isFull s d := by
  have hsz := size_eq_abs' h.wf
  cases hm : s.maxw <;> simp [exceeds, isFull, absS, hm, hsz]

/-- one operation of the model is accepted by the checker, and the checker lands in the corresponding state -/
theorem sstep_step (s : St) (op : Op) (h : Inv s) :
    sstep (absS s) op ((step s op).2.1, (step s op).2.2) = some (absS (step s op).1) := by
  cases op with
  | writeBad =>
    by_cases hc : s.closed = true
    · simp [step, sstep, hc, absS]
    · have hc' : s.closed = false := by simpa using hc
      simp [step, sstep, hc', absS]
  | writable sc =>
    by_cases hc : s.closed = true
    · simp [step, sstep, hc, absS]
    · have hc' : s.closed = false := by simpa using hc
      have hw := handleWrite_walk s sc (preInv_of_inv h hc')
      have hi := (handleWrite_spec s sc (preInv_of_inv h hc')).inv
      have hcl : (absS s).closed = false := hc'
      simp only [step, hc', Bool.false_eq_true, if_false, sstep, hcl, hw, settled_of_inv hi, if_true]
  | write d sc =>
    by_cases hc : s.closed = true
    · simp [step, sstep, hc, absS]
    · have hc' : s.closed = false := by simpa using hc
      have hcl : (absS s).closed = false := hc'
      by_cases hf : isFull s d = true
      · have he := exceeds_isFull h d
        rw [hf] at he
        simp [step, sstep, hc', hf, hcl, he]
      · have hf' : isFull s d = false := by simpa using hf
        have he := exceeds_isFull h d
        rw [hf'] at he
        have hw := handleWrite_walk (enqueue s d) sc (preInv_enqueue h hc' d)
        have hi := (handleWrite_spec (enqueue s d) sc (preInv_enqueue h hc' d)).inv
        have key : ∀ ss1, ss1 = absS (enqueue s d) →
            (match sstep.walkClosing ss1 sc (handleWrite (enqueue s d) sc).2 with
              | some s2 => if settled s2 = true then some s2 else none
              | none => none) = some (absS (handleWrite (enqueue s d) sc).1) := by
          intro ss1 e1
          rw [e1, hw]
          simp only [settled_of_inv hi, if_true]
        have hnext : (absS s).next = s.nextId := rfl
        simp only [step, hc', hf', Bool.false_eq_true, if_false, sstep, hcl, he, hnext, ne_eq, not_true_eq_false,
          or_self]
        exact key _ (by simp [absS, enqueue, abs_append' h.wf, hc'])

/-- every trace of the model is accepted by `Spec.check` -/
theorem check_run (ops : List Op) : ∀ s, Inv s → check (absS s) ops (run s ops).2 = true := by
  induction ops with
  | nil => intro s _; simp [run, check]
  | cons op ops ih =>
    intro s h
    have hs := sstep_step s op h
    have S := step_spec s op h
    show check (absS s) (op :: ops) (((step s op).2.1, (step s op).2.2) :: (run (step s op).1 ops).2) = true
    simp only [check, hs]
    exact ih _ S.inv

end TornadoModel.C12
