/-
C12 — specification side (core Lean only).

(1) The FIFO byte queue the `_StreamBuffer` must implement: a plain list.
(2) A trace checker for the stream: it reads (operation, result, events) triples — produced by the Lean model
    or observed on the real `BaseIOStream` — and says whether they satisfy the property:
      * every chunk handed to the transport is the next unsent part of the accepted writes (so the bytes sent
        are the concatenation of the written data, in order, each byte once);
      * a write future resolves only when all bytes up to and including its own have been sent, and futures
        resolve in write order;
      * a write is refused iff it would exceed `max_write_buffer_size`, and a refusal has no effect;
      * sending goes on while the transport accepts bytes, and once everything has been sent (and nothing
        failed) no write future is left pending.
-/
import TornadoModel.C12.Model
namespace TornadoModel.C12.Spec
open TornadoModel.C12

/-! ### (1) FIFO queue -/

abbrev Fifo := Bytes

/-- is `p` a prefix of `l` (executable) -/
def isPrefix : Bytes → Bytes → Bool
  | [], _ => true
  | _ :: _, [] => false
  | a :: p, b :: l => a == b && isPrefix p l

/-- what the queue demands of one buffer operation: new queue contents, or `none` if the output is wrong -/
def fstep (q : Fifo) : BOp → BOut → Option Fifo
  | .append d, .len n => if n = q.length + d.length then some (q ++ d) else none
  | .peek n, .view v =>
      if 0 < n ∧ isPrefix v q ∧ v.length ≤ n ∧ (q ≠ [] → v ≠ []) then some q else none
  | .peek n, .err .assertion => if n = 0 then some q else none
  | .advance n, .len m => if 0 < n ∧ n ≤ q.length ∧ m = q.length - n then some (q.drop n) else none
  | .advance n, .err .assertion => if 0 < n ∧ n ≤ q.length then none else some q
  | _, _ => none

def fcheck (q : Fifo) : List BOp → List BOut → Option Fifo
  | [], [] => some q
  | op :: ops, o :: os => match fstep q op o with
    | some q' => fcheck q' ops os
    | none => none
  | _, _ => none

/-! ### (2) trace checker for the stream -/

structure SSt where
  q : Bytes                  -- accepted by `write`, not yet handed to the transport
  sentLen : Nat              -- number of bytes handed to the transport
  total : Nat                -- number of bytes accepted by `write`
  pend : List (Nat × Nat)    -- unresolved futures (bytes that must be sent first, id), oldest first
  next : Nat                 -- id of the next future
  maxw : Option Nat
  closed : Bool
  deriving Repr, BEq, DecidableEq

def SSt.init (maxw : Option Nat) : SSt := ⟨[], 0, 0, [], 0, maxw, false⟩

def exceeds (s : SSt) (d : Bytes) : Bool :=
  match s.maxw with
  | some m => decide (d ≠ []) && decide (m < s.q.length + d.length)
  | none => false

/-- consume the events of one operation against its send script -/
def walk (s : SSt) : List Send → List Ev → Option SSt
  -- a future resolves: it is the oldest pending one and all its bytes are out
  | sc, .resolved id :: es =>
    match s.pend with
    | (i, id') :: ps => if id = id' ∧ i ≤ s.sentLen ∧ ¬ s.closed then walk { s with pend := ps } sc es else none
    | [] => none
  -- a future fails: only after a send error closed the stream
  | sc, .failed id :: es =>
    match s.pend with
    | (_, id') :: ps => if id = id' ∧ s.closed then walk { s with pend := ps } sc es else none
    | [] => none
  -- the transport took `d`: the script allowed it and `d` is the next unsent data
  | .acc n :: sc, .sent d :: es =>
    if d ≠ [] ∧ d.length ≤ n ∧ isPrefix d s.q ∧ ¬ s.closed
    then walk { s with q := s.q.drop d.length, sentLen := s.sentLen + d.length } sc es else none
  | _, .sent _ :: _ => none
  -- no more events: the send loop stopped for a reason
  | [], [] => some s
  | .acc 0 :: _, [] => some s
  | .acc (_ + 1) :: _, [] => if s.q = [] ∨ s.closed then some s else none
  | .fail :: _, [] => if s.q = [] ∨ s.closed then some s else none

/-- a send error is the only thing that closes the stream in these traces: it is the step of the script that
follows the successful sends, provided data was still queued -/
def failsNow (s : SSt) (sc : List Send) (es : List Ev) : Bool :=
  let k := (es.filter (fun e => match e with | .sent _ => true | _ => false)).length
  let sentLen := (sentBytes es).length
  match sc.drop k with
  | .fail :: _ => decide (sentLen < s.q.length)
  | _ => false

def closeIf (s : SSt) (b : Bool) : SSt := if b then { s with closed := true } else s

/-- after the events of an operation: nothing sent and unresolved may remain resolvable-but-pending at
quiescence (`q = []` and open ⇒ no pending future) -/
def settled (s : SSt) : Bool := s.closed || s.q != [] || s.pend.isEmpty

def sstep (s : SSt) : Op → Res × List Ev → Option SSt
  | .write d sc, (.fut id, es) =>
    if s.closed ∨ exceeds s d ∨ id ≠ s.next then none
    else
      let s1 := { s with q := s.q ++ d, total := s.total + d.length,
                         pend := s.pend ++ [(s.total + d.length, id)], next := s.next + 1 }
      -- a failing send closes the stream before its futures fail; the checker learns it from the script
      match walkClosing s1 sc es with
      | some s2 => if settled s2 then some s2 else none
      | none => none
  | .write d _, (.err .full, es) => if ¬ s.closed ∧ exceeds s d ∧ es = [] then some s else none
  | .write _ _, (.err .closed, es) => if s.closed ∧ es = [] then some s else none
  | .writeBad, (.err .typeError, es) => if ¬ s.closed ∧ es = [] then some s else none
  | .writeBad, (.err .closed, es) => if s.closed ∧ es = [] then some s else none
  | .writable sc, (.none, es) =>
    if s.closed then (if es = [] then some s else none)
    else match walkClosing s sc es with
      | some s2 => if settled s2 then some s2 else none
      | none => none
  | _, _ => none
where
  /-- split the events at the point where the stream closes (first `failed` event, if the script says a
  send fails there), check both halves -/
  walkClosing (s : SSt) (sc : List Send) (es : List Ev) : Option SSt :=
    if failsNow s sc es then
      let pre := es.takeWhile (fun e => match e with | .failed _ => false | _ => true)
      let post := es.dropWhile (fun e => match e with | .failed _ => false | _ => true)
      let k := (pre.filter (fun e => match e with | .sent _ => true | _ => false)).length
      match walk s (sc.take k) pre with
      | some s1 =>
        let s2 := { s1 with closed := true, q := [] }
        match walk s2 [] post with
        | some s3 => if s3.pend.isEmpty then some s3 else none
        | none => none
      | none => none
    else walk s sc es

def check (s : SSt) : List Op → List (Res × List Ev) → Bool
  | [], [] => true
  | op :: ops, o :: os => match sstep s op o with
    | some s' => check s' ops os
    | none => false
  | _, _ => false

/-- the data of the writes that were accepted (a future was returned), concatenated in order -/
def accepted : List Op → List (Res × List Ev) → Bytes
  | .write d _ :: ops, (.fut _, _) :: os => d ++ accepted ops os
  | _ :: ops, _ :: os => accepted ops os
  | _, _ => []

end TornadoModel.C12.Spec
