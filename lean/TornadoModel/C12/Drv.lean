/- C12 driver:
   `C12 brun [bop,…]`                 → `ok [[out,pos,[[large,len],…]],…] x<abs>` (model of `_StreamBuffer`)
   `C12 bspec [bop,…] [out,…]`        → `ok x<queue>|F`                         (FIFO queue applied to given outputs)
   `C12 run <maxw|~> [op,…]`          → `ok [[res,[ev,…],widx,didx,size],…]`    (model of the stream)
   `C12 spec <maxw|~> [op,…] [[res,[ev,…]],…]` → `ok T|F`                       (trace checker on given outputs)
   data  ::= x<hex> | [start,len]   (pattern `(start + 7 i + i/256) mod 256`)
   bop   ::= [a,data] | [p,n] | [v,n]
   op    ::= [w,data,[send,…]] | [wb] | [wr,[send,…]]        send ::= n (accept ≤ n) | -1 (OSError)
   out   ::= n | x<hex> | AssertionError
   res   ::= id | Full | Closed | TypeError | ~               ev ::= [s,x<hex>] | [r,id] | [f,id]
-/
import TornadoModel.Base.Wire
import TornadoModel.C12.Spec
namespace TornadoModel.C12.Drv
open TornadoModel TornadoModel.Wire TornadoModel.C12

def pat (s n : Nat) : Bytes := (List.range n).map (fun i => (s + 7 * i + i / 256) % 256)

def decData (v : V) : Option Bytes :=
  match v with
  | .bytes b => some (b.map UInt8.toNat)
  | .list [s, n] => do pure (pat (← s.nat?) (← n.nat?))
  | _ => none

def decSend (v : V) : Option Send :=
  match v with
  | .int i => if i < 0 then some .fail else some (.acc i.toNat)
  | _ => none

def decBOp (v : V) : Option BOp := do
  match (← v.list?) with
  | [.atom "a", d] => pure (.append (← decData d))
  | [.atom "p", n] => pure (.peek (← n.nat?))
  | [.atom "v", n] => pure (.advance (← n.nat?))
  | _ => none

def decOp (v : V) : Option Op := do
  match (← v.list?) with
  | [.atom "w", d, sc] => pure (.write (← decData d) (← (← sc.list?).mapM decSend))
  | [.atom "wb"] => pure .writeBad
  | [.atom "wr", sc] => pure (.writable (← (← sc.list?).mapM decSend))
  | _ => none

def encErr : Err → V
  | .assertion => .atom "AssertionError"
  | .full => .atom "Full"
  | .closed => .atom "Closed"
  | .typeError => .atom "TypeError"

def decErr : String → Option Err
  | "AssertionError" => some .assertion
  | "Full" => some .full
  | "Closed" => some .closed
  | "TypeError" => some .typeError
  | _ => none

def encBOut : BOut → V
  | .len n => .int n
  | .view d => V.ofByteNats d
  | .err e => encErr e

def decBOut (v : V) : Option BOut :=
  match v with
  | .int i => if 0 ≤ i then some (.len i.toNat) else none
  | .bytes b => some (.view (b.map UInt8.toNat))
  | .atom a => (decErr a).map .err
  | _ => none

def encShape (b : Buf) : V := .list (b.chunks.map (fun c => .list [V.ofBool c.large, .int c.data.length]))

def brunOut (b : Buf) : List BOp → List V
  | [] => []
  | op :: ops =>
    let (b1, o) := bstep b op
    .list [encBOut o, .int b1.pos, encShape b1] :: brunOut b1 ops

def encEv : Ev → V
  | .sent d => .list [.atom "s", V.ofByteNats d]
  | .resolved i => .list [.atom "r", .int i]
  | .failed i => .list [.atom "f", .int i]

def decEv (v : V) : Option Ev := do
  match (← v.list?) with
  | [.atom "s", d] => pure (.sent (← d.byteNats?))
  | [.atom "r", i] => pure (.resolved (← i.nat?))
  | [.atom "f", i] => pure (.failed (← i.nat?))
  | _ => none

def encRes : Res → V
  | .fut i => .int i
  | .err e => encErr e
  | .none => .none

def decRes (v : V) : Option Res :=
  match v with
  | .int i => if 0 ≤ i then some (.fut i.toNat) else none
  | .atom a => (decErr a).map .err
  | .none => some .none
  | _ => none

def decOut (v : V) : Option (Res × List Ev) := do
  match (← v.list?) with
  | [r, es] => pure (← decRes r, ← (← es.list?).mapM decEv)
  | _ => none

def runOut (s : St) : List Op → List V
  | [] => []
  | op :: ops =>
    let (s1, r, es) := step s op
    .list [encRes r, .list (es.map encEv), .int s1.widx, .int s1.didx, .int s1.buf.size] :: runOut s1 ops

def decMaxw (v : V) : Option (Option Nat) :=
  match v with
  | .none => some none
  | .int i => if 0 ≤ i then some (some i.toNat) else none
  | _ => none

def handle (toks : List String) : String :=
  match toks.mapM V.parse with
  | none => err "bad-arg"
  | some args =>
    match toks.head?, args.drop 1 with
    | some "brun", [ops] =>
      match ops.list? >>= (·.mapM decBOp) with
      | some ops => ok [.list (brunOut Buf.empty ops), V.ofByteNats (brun Buf.empty ops).1.abs]
      | none => err "bad-op"
    | some "bspec", [ops, outs] =>
      match ops.list? >>= (·.mapM decBOp), outs.list? >>= (·.mapM decBOut) with
      | some ops, some outs =>
        match Spec.fcheck [] ops outs with
        | some q => ok [V.ofByteNats q]
        | none => ok [V.ofBool false]
      | _, _ => err "bad-op"
    | some "run", [m, ops] =>
      match decMaxw m, ops.list? >>= (·.mapM decOp) with
      | some m, some ops => ok [.list (runOut (St.init m) ops)]
      | _, _ => err "bad-op"
    | some "spec", [m, ops, outs] =>
      match decMaxw m, ops.list? >>= (·.mapM decOp), outs.list? >>= (·.mapM decOut) with
      | some m, some ops, some outs => ok [V.ofBool (Spec.check (Spec.SSt.init m) ops outs)]
      | _, _, _ => err "bad-op"
    | _, _ => err "bad-cmd"

end TornadoModel.C12.Drv
