/-
C12 — model of the write side of `tornado.iostream` (core Lean only).

Anchors: `_StreamBuffer.__init__/__len__/append/peek/advance` (`_large_buf_threshold = 2048`),
`BaseIOStream.write`, `BaseIOStream._handle_write`, `_write_futures`,
`_total_write_index/_total_write_done_index`, `max_write_buffer_size`, and the part of
`close/_signal_closed` reached from a failed send.

Bytes are `List Nat`.  The deque `_buffers` is a list of chunks `(is_large, data)`; a large chunk is
a `memoryview` over the caller's object (never copied, consumed by moving `_first_pos`), a small chunk is a
`bytearray` owned by the buffer (extended in place by later small appends, consumed by `del b[:pos]`).
-/
namespace TornadoModel.C12

abbrev Bytes := List Nat

/-- `_StreamBuffer._large_buf_threshold` -/
def threshold : Nat := 2048

structure Chunk where
  large : Bool
  data : Bytes
  deriving Repr, BEq, DecidableEq

/-- `_StreamBuffer`: `_buffers`, `_first_pos`, `_size` -/
structure Buf where
  chunks : List Chunk
  pos : Nat
  size : Nat
  deriving Repr, BEq, DecidableEq

def Buf.empty : Buf := ⟨[], 0, 0⟩

/-- the `elif size > 0` branch of `append`: extend the last bytearray unless the last chunk is a memoryview
or already holds `>= threshold` bytes -/
def appendSmall : List Chunk → Bytes → List Chunk
  | [], d => [⟨false, d⟩]
  | [c], d => if c.large || decide (threshold ≤ c.data.length) then [c, ⟨false, d⟩] else [⟨false, c.data ++ d⟩]
  | c :: c' :: cs, d => c :: appendSmall (c' :: cs) d

/-- `_StreamBuffer.append` -/
def Buf.append (b : Buf) (d : Bytes) : Buf :=
  if threshold < d.length then { b with chunks := b.chunks ++ [⟨true, d⟩], size := b.size + d.length }
  else if 0 < d.length then { b with chunks := appendSmall b.chunks d, size := b.size + d.length }
  else b

/-- `_StreamBuffer.peek(size)` (callers pass `size > 0`) -/
def Buf.peek (b : Buf) (n : Nat) : Bytes :=
  match b.chunks with
  | [] => []
  | c :: _ => (c.data.drop b.pos).take n

/-- the `while buffers and size > 0` loop of `advance`: returns the remaining deque, the new `_first_pos`
and what is left of `size` (the code then asserts that this is 0) -/
def advLoop : List Chunk → Nat → Nat → List Chunk × Nat × Nat
  | [], pos, n => ([], pos, n)
  | c :: cs, pos, n =>
    if n = 0 then (c :: cs, pos, 0)
    else if c.data.length ≤ n + pos then advLoop cs 0 (n - (c.data.length - pos))   -- b_remain <= 0: popleft
    else if c.large then (c :: cs, pos + n, 0)
    else (⟨false, c.data.drop (pos + n)⟩ :: cs, 0, 0)                                -- del b[:pos]

inductive Err where
  | assertion     -- AssertionError (contract of peek/advance violated)
  | full          -- StreamBufferFullError
  | closed        -- StreamClosedError
  | typeError     -- memoryview.cast("B") on a non-contiguous view
  deriving Repr, BEq, DecidableEq

/-- `_StreamBuffer.advance(size)` -/
def Buf.advance (b : Buf) (n : Nat) : Except Err Buf :=
  if 0 < n ∧ n ≤ b.size then
    match advLoop b.chunks b.pos n with
    | (cs, pos, 0) => .ok ⟨cs, pos, b.size - n⟩
    | (_, _, _ + 1) => .error .assertion
  else .error .assertion

/-- abstraction: the bytes still to be sent -/
def flat (cs : List Chunk) : Bytes := (cs.map (·.data)).flatten
def Buf.abs (b : Buf) : Bytes := (flat b.chunks).drop b.pos

/-! ### the buffer as a state machine (direct `_StreamBuffer` stream) -/

inductive BOp where
  | append (d : Bytes)
  | peek (n : Nat)
  | advance (n : Nat)
  deriving Repr

inductive BOut where
  | len (n : Nat)          -- `len(buf)` after the operation
  | view (d : Bytes)       -- result of peek
  | err (e : Err)
  deriving Repr, BEq, DecidableEq

def bstep (b : Buf) : BOp → Buf × BOut
  | .append d => let b' := b.append d; (b', .len b'.size)
  | .peek n => if 0 < n then (b, .view (b.peek n)) else (b, .err .assertion)
  | .advance n =>
    match b.advance n with
    | .ok b' => (b', .len b'.size)
    | .error e => (b, .err e)

def brun (b : Buf) : List BOp → Buf × List BOut
  | [] => (b, [])
  | op :: ops =>
    let (b1, o) := bstep b op
    let (b2, os) := brun b1 ops
    (b2, o :: os)

/-! ### the stream: `write`, `_handle_write`, `_write_futures` -/

/-- one call of `write_to_fd`: the transport accepts at most `n` bytes (`0` = would block / returns 0),
or fails with an `OSError` -/
inductive Send where
  | acc (n : Nat)
  | fail
  deriving Repr, BEq, DecidableEq

inductive Ev where
  | sent (d : Bytes)       -- bytes accepted by the transport, in order
  | resolved (id : Nat)    -- write future `id` completed with `None`
  | failed (id : Nat)      -- write future `id` completed with `StreamClosedError`
  deriving Repr, BEq, DecidableEq

structure St where
  buf : Buf
  widx : Nat                 -- `_total_write_index`
  didx : Nat                 -- `_total_write_done_index`
  futs : List (Nat × Nat)    -- `_write_futures`: (index, future id), oldest first
  nextId : Nat               -- number of futures handed out so far
  maxw : Option Nat          -- `max_write_buffer_size`
  closed : Bool
  deriving Repr, BEq, DecidableEq

def St.init (maxw : Option Nat) : St := ⟨Buf.empty, 0, 0, [], 0, maxw, false⟩

/-- the second loop of `_handle_write`: pop every future whose index has been reached -/
def resolveFuts (didx : Nat) : List (Nat × Nat) → List (Nat × Nat) × List Ev
  | [] => ([], [])
  | (i, id) :: fs =>
    if didx < i then ((i, id) :: fs, [])
    else let (r, es) := resolveFuts didx fs; (r, .resolved id :: es)

/-- `close(exc_info=e)` as reached from a failed send: every pending write future gets
`StreamClosedError`, the write buffer is dropped -/
def closeSt (s : St) : St × List Ev :=
  ({ s with futs := [], buf := Buf.empty, closed := true }, s.futs.map (fun p => Ev.failed p.2))

/-- the first loop of `_handle_write`, one iteration per scripted `write_to_fd` call; an exhausted script
means the transport would block.  Returns the state, the events, and whether the stream was closed by a
send error (in which case `_handle_write` returns before resolving futures). -/
def sendLoop (s : St) : List Send → St × List Ev
  | [] => (s, [])
  | step :: rest =>
    if s.buf.size = 0 then (s, [])
    else match step with
      | .fail => closeSt s
      | .acc n =>
        let offered := s.buf.peek s.buf.size
        let k := min n offered.length
        if k = 0 then (s, [])
        else match s.buf.advance k with
          | .error _ => (s, [])       -- unreachable for well-formed buffers (`sendLoop_advance_ok`)
          | .ok b' =>
            let (s', es) := sendLoop { s with buf := b', didx := s.didx + k } rest
            (s', .sent (offered.take k) :: es)

/-- `_handle_write` -/
def handleWrite (s : St) (script : List Send) : St × List Ev :=
  let (s1, es) := sendLoop s script
  if s1.closed then (s1, es)
  else
    let (fs, rs) := resolveFuts s1.didx s1.futs
    ({ s1 with futs := fs }, es ++ rs)

inductive Op where
  | write (d : Bytes) (script : List Send)   -- `stream.write(d)`; `script` = behaviour of the sends it makes
  | writeBad                                 -- `stream.write(non-contiguous memoryview)`
  | writable (script : List Send)            -- the loop reports the fd writable
  deriving Repr

inductive Res where
  | fut (id : Nat)      -- a future was returned
  | err (e : Err)
  | none                -- (writable) no return value
  deriving Repr, BEq, DecidableEq

/-- the `max_write_buffer_size` test of `write` (made only for non-empty data) -/
def isFull (s : St) (d : Bytes) : Bool :=
  match s.maxw with
  | some m => decide (d ≠ []) && decide (m < s.buf.size + d.length)
  | none => false

/-- `write` up to the point where the future has been queued -/
def enqueue (s : St) (d : Bytes) : St :=
  { s with buf := s.buf.append d, widx := s.widx + d.length,
           futs := s.futs ++ [(s.widx + d.length, s.nextId)], nextId := s.nextId + 1 }

def step (s : St) : Op → St × Res × List Ev
  | .write d script =>
    if s.closed then (s, .err .closed, [])
    else if isFull s d then (s, .err .full, [])
    else
      let r := handleWrite (enqueue s d) script
      (r.1, .fut s.nextId, r.2)
  | .writeBad => if s.closed then (s, .err .closed, []) else (s, .err .typeError, [])
  | .writable script =>
    if s.closed then (s, .none, [])
    else let r := handleWrite s script; (r.1, .none, r.2)

def run (s : St) : List Op → St × List (Res × List Ev)
  | [] => (s, [])
  | op :: ops =>
    let (s1, r, es) := step s op
    let (s2, outs) := run s1 ops
    (s2, (r, es) :: outs)

/-- all events of a run, in order -/
def events (outs : List (Res × List Ev)) : List Ev := (outs.map (·.2)).flatten

def sentBytes : List Ev → Bytes
  | [] => []
  | .sent d :: es => d ++ sentBytes es
  | _ :: es => sentBytes es

def resolvedIds : List Ev → List Nat
  | [] => []
  | .resolved i :: es => i :: resolvedIds es
  | _ :: es => resolvedIds es

end TornadoModel.C12
