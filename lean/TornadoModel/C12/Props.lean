import TornadoModel.C12.Lemmas
namespace TornadoModel.C12
end TornadoModel.C12
