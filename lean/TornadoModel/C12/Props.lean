/-
C12 — IOStream writes deliver every byte once, in order, and resolve in order: property theorems.

All statements are about the executable model in `Model.lean` (tied to `tornado/iostream.py` by the
correspondence check) and are quantified over every operation sequence / send script.
-/
import TornadoModel.C12.Lemmas
import TornadoModel.C12.Trace
namespace TornadoModel.C12

/-! ## the internal FIFO buffer (`_StreamBuffer`) -/

theorem wf_bstep {b : Buf} (h : WF b) (op : BOp) : WF (bstep b op).1 := by
  cases op with
  | append d => exact wf_append h d
  | peek n => simp only [bstep]; split <;> exact h
  | advance n =>
    simp only [bstep]
    by_cases hc : 0 < n ∧ n ≤ b.size
    · obtain ⟨b', he, hw, _, _⟩ := advance_spec h n hc.1 hc.2
      simp [he, hw]
    · simp [advance_err b n hc, h]

/-- every state reachable by any sequence of `append/peek/advance` calls satisfies the representation
invariant (no empty chunk, `_first_pos` inside the first chunk, `_size` consistent) -/
theorem wf_brun (ops : List BOp) : WF (brun Buf.empty ops).1 := by
  suffices H : ∀ b, WF b → WF (brun b ops).1 from H _ wf_empty
  induction ops with
  | nil => intro b h; exact h
  | cons op ops ih =>
    intro b h
    simp only [brun]
    exact ih _ (wf_bstep h op)

/-- `append` appends: the bytes still to be sent become `old ++ data` (any size: empty, coalesced, large) -/
theorem abs_append {b : Buf} (h : WF b) (d : Bytes) : (b.append d).abs = b.abs ++ d := abs_append' h d

/-- `len(buffer)` is the number of bytes still to be sent -/
theorem size_eq_abs {b : Buf} (h : WF b) : b.size = b.abs.length := size_eq_abs' h

/-- `peek(n)` returns a prefix of the unsent bytes, at most `n` long, non-empty when there is anything -/
theorem peek_prefix {b : Buf} (h : WF b) (n : Nat) (hn : 0 < n) :
    b.peek n <+: b.abs ∧ (b.peek n).length ≤ n ∧ (b.abs ≠ [] → b.peek n ≠ []) :=
  ⟨peek_prefix' h n, peek_length_le b n, peek_nonempty h n hn⟩

/-- `advance(n)` within its contract succeeds and drops exactly the first `n` unsent bytes -/
theorem abs_advance {b : Buf} (h : WF b) (n : Nat) (hn : 0 < n) (hle : n ≤ b.size) :
    ∃ b', b.advance n = .ok b' ∧ WF b' ∧ b'.abs = b.abs.drop n ∧ b'.size = b.size - n :=
  advance_spec h n hn hle

example : WF ((Buf.empty.append [1, 2, 3]).append [4]) := wf_append (wf_append wf_empty _) _
example : ((Buf.empty.append [1, 2, 3]).append [4]).abs = [1, 2, 3, 4] := by decide
example : ∃ b', ((Buf.empty.append [1, 2, 3]).append [4]).advance 2 = .ok b' ∧ b'.abs = [3, 4] :=
  ⟨_, rfl, by decide⟩

theorem fstep_bstep {b : Buf} (h : WF b) (op : BOp) :
    Spec.fstep b.abs op (bstep b op).2 = some (bstep b op).1.abs := by
  have hs := size_eq_abs' h
  cases op with
  | append d =>
    simp only [bstep, Spec.fstep, append_size, abs_append' h]
    simp [hs]
  | peek n =>
    simp only [bstep]
    by_cases hn : 0 < n
    · simp only [hn, if_true, Spec.fstep]
      obtain ⟨h1, h2, h3⟩ := peek_prefix h n hn
      have h1' := (isPrefix_iff _ _).mpr h1
      simp [hn, h1', h2]
      exact h3
    · have : n = 0 := by omega
      simp [this, Spec.fstep]
  | advance n =>
    simp only [bstep]
    by_cases hc : 0 < n ∧ n ≤ b.size
    · obtain ⟨b', he, _, ha, hsz⟩ := advance_spec h n hc.1 hc.2
      simp only [he, Spec.fstep]
      have : 0 < n ∧ n ≤ b.abs.length ∧ b'.size = b.abs.length - n := ⟨hc.1, by omega, by omega⟩
      simp [this, ha]
    · simp only [advance_err b n hc, Spec.fstep]
      have : ¬ (0 < n ∧ n ≤ b.abs.length) := by rw [← hs]; exact hc
      simp [this]

/-- **buffer_refines_fifo** — for *every* sequence of `append/peek/advance` calls (in or out of contract) the
outputs of `_StreamBuffer` are those a plain FIFO byte queue allows (lengths, peeks that are non-empty
prefixes, advances that drop, refused contract violations) and the buffer's contents stay equal to the queue -/
theorem buffer_refines_fifo (ops : List BOp) :
    Spec.fcheck [] ops (brun Buf.empty ops).2 = some (brun Buf.empty ops).1.abs := by
  suffices H : ∀ b, WF b → Spec.fcheck b.abs ops (brun b ops).2 = some (brun b ops).1.abs by
    have := H _ wf_empty
    simpa [Buf.abs, Buf.empty, flat] using this
  induction ops with
  | nil => intro b _; simp [brun, Spec.fcheck]
  | cons op ops ih =>
    intro b h
    simp only [brun, Spec.fcheck, fstep_bstep h op]
    exact ih _ (wf_bstep h op)

/-! ## the stream (`write`, `_handle_write`, `_write_futures`) -/

theorem accepted_cons (op : Op) (ops : List Op) (r : Res) (es : List Ev) (outs : List (Res × List Ev)) :
    Spec.accepted (op :: ops) ((r, es) :: outs) = accData op r ++ Spec.accepted ops outs := by
  cases op <;> cases r <;> simp [Spec.accepted, accData]

theorem events_cons (r : Res) (es : List Ev) (outs : List (Res × List Ev)) :
    events ((r, es) :: outs) = es ++ events outs := by simp [events]

theorem run_cons (s : St) (op : Op) (ops : List Op) :
    run s (op :: ops) = ((run (step s op).1 ops).1, ((step s op).2.1, (step s op).2.2) :: (run (step s op).1 ops).2) := rfl

/-- once a send error closed the stream nothing more is sent, resolved or accepted -/
theorem run_closed (s : St) (h : Inv s) (hc : s.closed = true) (ops : List Op) :
    (run s ops).1 = s ∧ events (run s ops).2 = [] ∧ Spec.accepted ops (run s ops).2 = [] := by
  induction ops with
  | nil => simp [run, events, Spec.accepted]
  | cons op ops ih =>
    have S := step_spec s op h
    obtain ⟨h1, h2⟩ := S.stay hc
    have hw := S.widx
    rw [h1] at hw
    have hacc : accData op (step s op).2.1 = [] := by
      apply List.eq_nil_of_length_eq_zero; omega
    rw [run_cons, h1, events_cons, accepted_cons, h2, hacc]
    exact ih

structure RunSpec (s : St) (ops : List Op) (r : St × List (Res × List Ev)) : Prop where
  inv : Inv r.1
  didx : r.1.didx = s.didx + (sentBytes (events r.2)).length
  widx : r.1.widx = s.widx + (Spec.accepted ops r.2).length
  conc : r.1.closed = false → sentBytes (events r.2) ++ r.1.buf.abs = s.buf.abs ++ Spec.accepted ops r.2
  pre : sentBytes (events r.2) <+: s.buf.abs ++ Spec.accepted ops r.2
  res : ∃ k, resolvedIds (events r.2) = List.range' (s.nextId - s.futs.length) k
    ∧ (r.1.closed = false → r.1.nextId - r.1.futs.length = s.nextId - s.futs.length + k)

theorem run_spec (ops : List Op) : ∀ s, Inv s → RunSpec s ops (run s ops) := by
  induction ops with
  | nil =>
    intro s h
    exact ⟨h, by simp [run, events, sentBytes], by simp [run, Spec.accepted],
      by intro _; simp [run, events, sentBytes, Spec.accepted], by simp [run, events, sentBytes],
      ⟨0, by simp [run, events, resolvedIds], by intro _; simp [run]⟩⟩
  | cons op ops ih =>
    intro s h
    have S := step_spec s op h
    rw [run_cons]
    by_cases hc : (step s op).1.closed = true
    · -- the stream closed in (or before) this step: the rest of the run is silent
      obtain ⟨e1, e2, e3⟩ := run_closed _ S.inv hc ops
      obtain ⟨k, hk1, _⟩ := S.res
      refine ⟨?_, ?_, ?_, ?_, ?_, ?_⟩ <;>
        simp only [events_cons, accepted_cons, sentBytes_append, resolvedIds_append, e1, e2, e3, sentBytes,
          resolvedIds, List.append_nil]
      · exact S.inv
      · exact S.didx
      · exact S.widx
      · intro ho; simp [hc] at ho
      · exact S.pre
      · exact ⟨k, hk1, fun ho => by simp [hc] at ho⟩
    · have ho : (step s op).1.closed = false := by simpa using hc
      have R := ih _ S.inv
      have hconc := S.conc ho
      refine ⟨?_, ?_, ?_, ?_, ?_, ?_⟩ <;>
        simp only [events_cons, accepted_cons, sentBytes_append, resolvedIds_append]
      · exact R.inv
      · rw [R.didx, S.didx]; simp [Nat.add_assoc]
      · rw [R.widx, S.widx]; simp [Nat.add_assoc]
      · intro ho2
        have := R.conc ho2
        rw [List.append_assoc, this, ← List.append_assoc, hconc, List.append_assoc]
      · obtain ⟨t, ht⟩ := R.pre
        refine ⟨t, ?_⟩
        rw [List.append_assoc, ht, ← List.append_assoc, hconc, List.append_assoc]
      · obtain ⟨k1, a1, b1⟩ := S.res
        obtain ⟨k2, a2, b2⟩ := R.res
        refine ⟨k1 + k2, ?_, ?_⟩
        · rw [a1, a2, b1 ho, List.range'_append_1]
        · intro ho2; rw [b2 ho2, b1 ho]; omega

/-- **sent_is_concat** — for every sequence of writes / writable events and every partial-send schedule,
while the stream is open: (bytes handed to the transport) ++ (bytes still buffered) = concatenation of the
data of all accepted writes, in order.  Nothing is lost, duplicated or reordered. -/
theorem sent_is_concat (m : Option Nat) (ops : List Op) (h : (run (St.init m) ops).1.closed = false) :
    sentBytes (events (run (St.init m) ops).2) ++ (run (St.init m) ops).1.buf.abs
      = Spec.accepted ops (run (St.init m) ops).2 := by
  have := (run_spec ops _ (inv_init m)).conc h
  simpa [St.init, Buf.abs, Buf.empty, flat] using this

/-- whatever happens (including a send error that closes the stream) the bytes handed to the transport are
a prefix of the concatenation of the accepted writes -/
theorem sent_prefix_of_accepted (m : Option Nat) (ops : List Op) :
    sentBytes (events (run (St.init m) ops).2) <+: Spec.accepted ops (run (St.init m) ops).2 := by
  have := (run_spec ops _ (inv_init m)).pre
  simpa [St.init, Buf.abs, Buf.empty, flat] using this

/-- once the buffer has drained (and no send failed) *all* written bytes have been handed to the transport
and no write future is left pending -/
theorem drained_all_sent (m : Option Nat) (ops : List Op) (h : (run (St.init m) ops).1.closed = false)
    (h0 : (run (St.init m) ops).1.buf.size = 0) :
    sentBytes (events (run (St.init m) ops).2) = Spec.accepted ops (run (St.init m) ops).2
      ∧ (run (St.init m) ops).1.futs = [] := by
  have R := run_spec ops _ (inv_init m)
  have hs := size_eq_abs' R.inv.wf
  have habs : (run (St.init m) ops).1.buf.abs = [] := by
    apply List.eq_nil_of_length_eq_zero; omega
  have hc := sent_is_concat m ops h
  rw [habs, List.append_nil] at hc
  refine ⟨hc, ?_⟩
  have hidx := R.inv.idx h
  cases hf : (run (St.init m) ops).1.futs with
  | nil => rfl
  | cons p ps =>
    have := R.inv.pend p (by simp [hf])
    omega

/-- the counters are what their names say: `_total_write_done_index` = bytes handed to the transport,
`_total_write_index` = bytes accepted by `write` -/
theorem indices_meaning (m : Option Nat) (ops : List Op) :
    (run (St.init m) ops).1.didx = (sentBytes (events (run (St.init m) ops).2)).length
      ∧ (run (St.init m) ops).1.widx = (Spec.accepted ops (run (St.init m) ops).2).length := by
  have R := run_spec ops _ (inv_init m)
  exact ⟨by simpa [St.init] using R.didx, by simpa [St.init] using R.widx⟩

/-- **future_after_bytes** — in any reachable state, an operation resolves write future `id` only if, when it
does, the number of bytes handed to the transport has reached the index recorded for that future, i.e. the total
length of all data written up to and including that write (`enqueue` records `widx + len(data)`); within the
operation the sends precede the resolutions (`handleWrite` emits `sends ++ resolutions`). -/
theorem future_after_bytes (m : Option Nat) (ops : List Op) (op : Op) (id : Nat)
    (hid : id ∈ resolvedIds (step (run (St.init m) ops).1 op).2.2) :
    ∃ i, (i, id) ∈ (match op with
        | .write d _ => (enqueue (run (St.init m) ops).1 d).futs
        | _ => (run (St.init m) ops).1.futs)
      ∧ i ≤ (step (run (St.init m) ops).1 op).1.didx := by
  have hinv : Inv (run (St.init m) ops).1 := (run_spec ops _ (inv_init m)).inv
  generalize (run (St.init m) ops).1 = s at hinv hid ⊢
  cases op with
  | writeBad => simp only [step] at hid; split at hid <;> simp [resolvedIds] at hid
  | writable sc =>
    simp only [step] at hid ⊢
    by_cases hc : s.closed = true
    · simp [hc, resolvedIds] at hid
    · have hc' : s.closed = false := by simpa using hc
      simp only [hc', Bool.false_eq_true, if_false] at hid ⊢
      exact (handleWrite_spec s sc (preInv_of_inv hinv hc')).after id hid
  | write d sc =>
    simp only [step] at hid ⊢
    by_cases hc : s.closed = true
    · simp [hc, resolvedIds] at hid
    · have hc' : s.closed = false := by simpa using hc
      simp only [hc', Bool.false_eq_true, if_false] at hid ⊢
      by_cases hf : isFull s d = true
      · simp [hf, resolvedIds] at hid
      · simp only [hf, Bool.false_eq_true, if_false] at hid ⊢
        exact (handleWrite_spec _ sc (preInv_enqueue hinv hc' d)).after id hid

/-- **futures_in_order** — over any run, the write futures that resolve do so exactly in the order in which the
writes were made: the sequence of resolved future ids is `0, 1, 2, …, k-1` (no gaps, no repeats, no
overtaking) -/
theorem futures_in_order (m : Option Nat) (ops : List Op) :
    ∃ k, resolvedIds (events (run (St.init m) ops).2) = List.range k := by
  obtain ⟨k, hk, _⟩ := (run_spec ops _ (inv_init m)).res
  exact ⟨k, by simpa [St.init, List.range_eq_range'] using hk⟩

/-- **refusal_no_side_effect** — a write refused with `StreamBufferFullError` changes nothing: same state
(buffer, counters, pending futures), no bytes sent, no future resolved -/
theorem refusal_no_side_effect (s : St) (d : Bytes) (sc : List Send)
    (h : (step s (.write d sc)).2.1 = .err .full) :
    (step s (.write d sc)).1 = s ∧ (step s (.write d sc)).2.2 = [] := by
  simp only [step] at h ⊢
  split at h
  · simp at h
  · split at h
    · simp_all
    · simp at h

/-- a write on an open stream is refused exactly when its (non-empty) data would push the unsent bytes over
`max_write_buffer_size` -/
theorem refusal_iff_exceeds (s : St) (hs : Inv s) (hc : s.closed = false) (d : Bytes) (sc : List Send) :
    (step s (.write d sc)).2.1 = .err .full
      ↔ ∃ mx, s.maxw = some mx ∧ d ≠ [] ∧ mx < s.buf.abs.length + d.length := by
  rw [← size_eq_abs' hs.wf]
  simp only [step, hc, Bool.false_eq_true, if_false]
  by_cases hf : isFull s d = true
  · simp only [hf, if_true, true_iff]
    unfold isFull at hf
    split at hf
    · rename_i mx hm; exact ⟨mx, hm, by simpa using hf⟩
    · simp at hf
  · simp only [hf, Bool.false_eq_true, if_false]
    constructor
    · intro h; simp at h
    · rintro ⟨mx, hm, h1, h2⟩
      exfalso; apply hf
      simp [isFull, hm, h1, h2]

example : (step (St.init (some 4)) (.write [1, 2, 3, 4, 5] [])).2.1 = .err .full := by decide
example : (step (St.init (some 4)) (.write [1, 2, 3, 4] [])).2.1 = .fut 0 := by decide

/-- the `.error` branch of the send loop is dead code: on a well-formed buffer the `advance` issued by
`_handle_write` never trips its assertion -/
theorem sendLoop_advance_ok {b : Buf} (h : WF b) (n : Nat) (hk : min n (b.peek b.size).length ≠ 0) :
    ∃ b', b.advance (min n (b.peek b.size).length) = .ok b' := by
  have hpre := peek_prefix' h b.size
  have hlen : (b.peek b.size).length ≤ b.size := by
    have := hpre.length_le; rw [← size_eq_abs' h] at this; exact this
  obtain ⟨b', he, _⟩ := advance_spec h (min n (b.peek b.size).length) (by omega) (by omega)
  exact ⟨b', he⟩

/-! non-vacuity: a run with coalescing, a partial send, an out-of-order-looking schedule and a drain -/
example :
    let r := run (St.init none) [.write [1, 2] [.acc 1], .write [3] [], .writable [.acc 5]]
    r.1.closed = false ∧ r.1.buf.size = 0 ∧ sentBytes (events r.2) = [1, 2, 3]
      ∧ resolvedIds (events r.2) = [0, 1] := by decide

/-! ## the model against the executable oracle -/

/-- **model_trace_ok** — for every limit, every sequence of writes / writable events and every send schedule
(partial sends, would-block, send errors) the trace produced by the model is accepted by the executable trace
checker `Spec.check` that the harness applies to the real `BaseIOStream`.  This ties the theorems above
(`sent_is_concat`, `future_after_bytes`, `futures_in_order`, `refusal_no_side_effect`, `refusal_iff_exceeds`,
`drained_all_sent`) to the oracle: the oracle does not reject the behaviour they describe.  Proof: simulation
`absS` between model and checker states (`Trace.lean`: `sendLoop_shape`, `handleWrite_walk`, `sstep_step`). -/
theorem model_trace_ok :
    ∀ (m : Option Nat) (ops : List Op), Spec.check (Spec.SSt.init m) ops (run (St.init m) ops).2 = true := by
  intro m ops
  rw [← absS_init m]
  exact check_run ops _ (inv_init m)

/-- the checker also tracks the model state exactly: after any operation of any reachable state it is in the
state corresponding (`absS`) to the model's (queue = unsent bytes, counters, pending futures, closed flag) -/
theorem checker_tracks_model (m : Option Nat) (ops : List Op) (op : Op) :
    Spec.sstep (absS (run (St.init m) ops).1) op
        ((step (run (St.init m) ops).1 op).2.1, (step (run (St.init m) ops).1 op).2.2)
      = some (absS (step (run (St.init m) ops).1 op).1) :=
  sstep_step _ op (run_spec ops _ (inv_init m)).inv

/-! non-vacuity: the checker is not trivially `true` — it rejects a trace that resolves a future before its
bytes are out, and one that sends bytes out of order -/
example : Spec.check (Spec.SSt.init none) [.write [1, 2] [.acc 1]] [(.fut 0, [.sent [1], .resolved 0])] = false := by
  decide
example : Spec.check (Spec.SSt.init none) [.write [1, 2] [.acc 1]] [(.fut 0, [.sent [2]])] = false := by decide
example : Spec.check (Spec.SSt.init none) [.write [1, 2] [.acc 1], .writable [.fail]]
    (run (St.init none) [.write [1, 2] [.acc 1], .writable [.fail]]).2 = true := by decide

end TornadoModel.C12
