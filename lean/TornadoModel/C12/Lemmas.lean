import TornadoModel.C12.Spec
namespace TornadoModel.C12
end TornadoModel.C12
