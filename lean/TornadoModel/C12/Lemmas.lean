/- C12 — helper lemmas: well-formedness of `_StreamBuffer` states and the abstraction to a byte queue. -/
import TornadoModel.C12.Spec
namespace TornadoModel.C12

/-- representation invariant of `_StreamBuffer`: no empty chunk, `_first_pos` inside the first chunk (0 when the
deque is empty), `_size` = bytes still to be sent -/
def posOk : List Chunk → Nat → Prop
  | [], pos => pos = 0
  | c :: _, pos => pos < c.data.length

structure WF (b : Buf) : Prop where
  nonempty : ∀ c ∈ b.chunks, c.data ≠ []
  pos_lt : posOk b.chunks b.pos
  size_eq : b.size + b.pos = (flat b.chunks).length

theorem flat_nil : flat [] = [] := rfl
theorem flat_cons (c : Chunk) (cs : List Chunk) : flat (c :: cs) = c.data ++ flat cs := by
  simp [flat]
theorem flat_append (xs ys : List Chunk) : flat (xs ++ ys) = flat xs ++ flat ys := by
  simp [flat]

theorem wf_empty : WF Buf.empty := ⟨by simp [Buf.empty], by simp [Buf.empty, posOk], by simp [Buf.empty, flat]⟩

theorem flat_appendSmall (cs : List Chunk) (d : Bytes) : flat (appendSmall cs d) = flat cs ++ d := by
  fun_induction appendSmall cs d with
  | case1 d => simp [flat]
  | case2 c d h => simp [flat]
  | case3 c d h => simp [flat]
  | case4 c c' cs d ih => simp [flat_cons, ih]

theorem mem_appendSmall (cs : List Chunk) (d : Bytes) (x : Chunk) (hx : x ∈ appendSmall cs d) :
    x ∈ cs ∨ x.data = d ∨ ∃ c ∈ cs, x.data = c.data ++ d := by
  fun_induction appendSmall cs d with
  | case1 d => simp at hx; simp [hx]
  | case2 c d hc =>
    simp at hx
    rcases hx with rfl | rfl
    · simp
    · simp
  | case3 c d hc => simp at hx; subst hx; simp
  | case4 c c' cs d ih =>
    simp only [List.mem_cons] at hx
    rcases hx with rfl | hx
    · simp
    · rcases ih (by simpa using hx) with h | h | ⟨y, hy, h⟩
      · left; simp only [List.mem_cons] at h ⊢; right; exact h
      · right; left; exact h
      · right; right; exact ⟨y, by simp only [List.mem_cons] at hy ⊢; right; exact hy, h⟩

theorem nonempty_appendSmall (cs : List Chunk) (d : Bytes) (hd : d ≠ [])
    (h : ∀ c ∈ cs, c.data ≠ []) : ∀ c ∈ appendSmall cs d, c.data ≠ [] := by
  intro x hx
  rcases mem_appendSmall cs d x hx with h1 | h1 | ⟨y, _, h1⟩
  · exact h x h1
  · rw [h1]; exact hd
  · rw [h1]; simp [hd]

/-- the first chunk keeps its place and can only grow -/
theorem head_appendSmall (c : Chunk) (cs : List Chunk) (d : Bytes) :
    ∃ c' cs', appendSmall (c :: cs) d = c' :: cs' ∧ c.data.length ≤ c'.data.length := by
  cases cs with
  | nil =>
    simp only [appendSmall]
    split
    · exact ⟨c, _, rfl, Nat.le_refl _⟩
    · exact ⟨_, _, rfl, by simp⟩
  | cons c2 cs => exact ⟨c, _, rfl, Nat.le_refl _⟩

theorem wf_append {b : Buf} (h : WF b) (d : Bytes) : WF (b.append d) := by
  unfold Buf.append
  split
  · -- large
    rename_i hl
    refine ⟨?_, ?_, ?_⟩
    · intro c hc
      simp only [List.mem_append, List.mem_singleton] at hc
      rcases hc with hc | rfl
      · exact h.nonempty c hc
      · intro h0; simp at h0; simp [h0, threshold] at hl
    · have := h.pos_lt
      cases hcs : b.chunks with
      | nil => simp [hcs, posOk] at this ⊢; simp [this]; omega
      | cons c cs => simp [hcs, posOk] at this ⊢; exact this
    · have := h.size_eq
      simp only [flat_append, List.length_append, flat_cons, flat_nil, List.append_nil]
      omega
  · split
    · rename_i hs hp
      have hd : d ≠ [] := by intro h0; simp [h0] at hp
      refine ⟨nonempty_appendSmall _ _ hd h.nonempty, ?_, ?_⟩
      · have := h.pos_lt
        cases hcs : b.chunks with
        | nil => simp [hcs, posOk] at this ⊢; simp [appendSmall, posOk, this]; exact hp
        | cons c cs =>
          simp [hcs, posOk] at this ⊢
          obtain ⟨c', cs', he, hle⟩ := head_appendSmall c cs d
          rw [he]; simp [posOk]; omega
      · have := h.size_eq
        simp only [flat_appendSmall, List.length_append]
        omega
    · exact h

theorem pos_le_flat {b : Buf} (h : WF b) : b.pos ≤ (flat b.chunks).length := by
  have := h.size_eq; omega

theorem abs_append' {b : Buf} (h : WF b) (d : Bytes) : (b.append d).abs = b.abs ++ d := by
  have hp := pos_le_flat h
  unfold Buf.append Buf.abs
  split
  · simp only [flat_append, flat_cons, flat_nil, List.append_nil]
    rw [List.drop_append_of_le_length hp]
  · split
    · simp only [flat_appendSmall]
      rw [List.drop_append_of_le_length hp]
    · rename_i h1 h2
      have : d = [] := by
        cases d with
        | nil => rfl
        | cons a t => simp at h2
      simp [this]

theorem size_eq_abs' {b : Buf} (h : WF b) : b.size = b.abs.length := by
  have := h.size_eq
  simp [Buf.abs]; omega

theorem isPrefix_iff (p l : Bytes) : Spec.isPrefix p l = true ↔ p <+: l := by
  induction p generalizing l with
  | nil => simp [Spec.isPrefix]
  | cons a p ih =>
    cases l with
    | nil => simp [Spec.isPrefix]
    | cons b l => simp [Spec.isPrefix, ih, List.cons_prefix_cons]

theorem peek_prefix' {b : Buf} (h : WF b) (n : Nat) : b.peek n <+: b.abs := by
  unfold Buf.peek Buf.abs
  cases hcs : b.chunks with
  | nil => simp
  | cons c cs =>
    have hp := h.pos_lt
    simp [hcs, posOk] at hp
    simp only [flat_cons]
    rw [List.drop_append_of_le_length (Nat.le_of_lt hp)]
    exact List.IsPrefix.trans (List.take_prefix _ _) (List.prefix_append _ _)

theorem peek_nonempty {b : Buf} (h : WF b) (n : Nat) (hn : 0 < n) (hne : b.abs ≠ []) : b.peek n ≠ [] := by
  unfold Buf.peek
  cases hcs : b.chunks with
  | nil => simp [Buf.abs, hcs, flat] at hne
  | cons c cs =>
    have hp := h.pos_lt
    simp [hcs, posOk] at hp
    simp only [ne_eq, List.take_eq_nil_iff, List.drop_eq_nil_iff, not_or]
    omega

theorem peek_length_le (b : Buf) (n : Nat) : (b.peek n).length ≤ n := by
  unfold Buf.peek
  split <;> simp [List.length_take]; omega

/-- what the `advance` loop computes on a well-formed deque -/
theorem advLoop_spec (cs : List Chunk) (pos n : Nat)
    (hne : ∀ c ∈ cs, c.data ≠ [])
    (hpos : posOk cs pos)
    (hn : n + pos ≤ (flat cs).length) :
    ∃ cs' pos', advLoop cs pos n = (cs', pos', 0)
      ∧ (flat cs').drop pos' = (flat cs).drop (pos + n)
      ∧ (∀ c ∈ cs', c.data ≠ [])
      ∧ posOk cs' pos'
      ∧ (flat cs').length - pos' = (flat cs).length - (pos + n) := by
  induction cs generalizing pos n with
  | nil =>
    simp [flat] at hn
    simp [posOk] at hpos
    refine ⟨[], 0, ?_, ?_, ?_, ?_, ?_⟩ <;> simp [advLoop, hn, hpos, flat, posOk]
  | cons c cs ih =>
    simp only [posOk] at hpos
    simp only [advLoop]
    by_cases h0 : n = 0
    · subst h0
      exact ⟨c :: cs, pos, by simp, by simp, hne, hpos, by simp⟩
    · simp only [h0, if_false]
      by_cases hpop : c.data.length ≤ n + pos
      · simp only [hpop, if_true]
        have hne' : ∀ x ∈ cs, x.data ≠ [] := fun x hx => hne x (by simp [hx])
        have hpos' : posOk cs 0 := by
          cases cs with
          | nil => rfl
          | cons c2 cs2 =>
            have := hne c2 (by simp)
            exact List.length_pos_iff.mpr this
        have hn' : (n - (c.data.length - pos)) + 0 ≤ (flat cs).length := by
          simp [flat_cons] at hn; omega
        obtain ⟨cs', pos', he, hd, hne2, hp2, hl⟩ := ih 0 (n - (c.data.length - pos)) hne' hpos' hn'
        refine ⟨cs', pos', he, ?_, hne2, hp2, ?_⟩
        · rw [hd, flat_cons, List.drop_append]
          have : c.data.length ≤ pos + n := by omega
          rw [List.drop_eq_nil_of_le this]
          simp
          congr 1; omega
        · rw [hl]; simp [flat_cons]; omega
      · simp only [hpop, if_false]
        have hlt : pos + n < c.data.length := by omega
        by_cases hl : c.large = true
        · simp only [hl, if_true]
          refine ⟨c :: cs, pos + n, rfl, rfl, hne, ?_, rfl⟩
          simpa [posOk] using hlt
        · simp only [hl]
          refine ⟨⟨false, c.data.drop (pos + n)⟩ :: cs, 0, by simp, ?_, ?_, ?_, ?_⟩
          · simp only [flat_cons, List.drop_zero]
            rw [List.drop_append_of_le_length (Nat.le_of_lt hlt)]
          · intro x hx
            simp only [List.mem_cons] at hx
            rcases hx with rfl | hx
            · simp; omega
            · exact hne x (by simp [hx])
          · simp [posOk]; omega
          · simp [flat_cons]; omega

theorem advance_spec {b : Buf} (h : WF b) (n : Nat) (hn : 0 < n) (hle : n ≤ b.size) :
    ∃ b', b.advance n = .ok b' ∧ WF b' ∧ b'.abs = b.abs.drop n ∧ b'.size = b.size - n := by
  have hs := h.size_eq
  obtain ⟨cs', pos', he, hd, hne, hp, hl⟩ :=
    advLoop_spec b.chunks b.pos n h.nonempty h.pos_lt (by omega)
  refine ⟨⟨cs', pos', b.size - n⟩, ?_, ⟨hne, hp, ?_⟩, ?_, rfl⟩
  · simp [Buf.advance, hn, hle, he]
  · simp only
    have hp' : pos' ≤ (flat cs').length := by
      cases cs' with
      | nil => simp [posOk] at hp; simp [hp]
      | cons c cs2 => simp [posOk] at hp; simp [flat_cons]; omega
    omega
  · simp only [Buf.abs, hd, List.drop_drop]

theorem advance_err (b : Buf) (n : Nat) (hbad : ¬ (0 < n ∧ n ≤ b.size)) : b.advance n = .error .assertion := by
  simp [Buf.advance, hbad]



/-! ### the stream -/

theorem sentBytes_append (a b : List Ev) : sentBytes (a ++ b) = sentBytes a ++ sentBytes b := by
  induction a with
  | nil => rfl
  | cons e a ih => cases e <;> simp [sentBytes, ih]

theorem resolvedIds_append (a b : List Ev) : resolvedIds (a ++ b) = resolvedIds a ++ resolvedIds b := by
  induction a with
  | nil => rfl
  | cons e a ih => cases e <;> simp [resolvedIds, ih]

theorem sentBytes_failed (l : List (Nat × Nat)) : sentBytes (l.map (fun p => Ev.failed p.2)) = [] := by
  induction l with
  | nil => rfl
  | cons p l ih => simp [sentBytes, ih]

theorem resolvedIds_failed (l : List (Nat × Nat)) : resolvedIds (l.map (fun p => Ev.failed p.2)) = [] := by
  induction l with
  | nil => rfl
  | cons p l ih => simp [resolvedIds, ih]

/-- what one run of the send loop does to a well-formed open stream -/
structure SendSpec (s : St) (r : St × List Ev) : Prop where
  wf : WF r.1.buf
  widx : r.1.widx = s.widx
  maxw : r.1.maxw = s.maxw
  nextId : r.1.nextId = s.nextId
  didx : r.1.didx = s.didx + (sentBytes r.2).length
  noRes : resolvedIds r.2 = []
  opened : r.1.closed = false → r.1.futs = s.futs ∧ sentBytes r.2 ++ r.1.buf.abs = s.buf.abs
    ∧ r.1.buf.size + (sentBytes r.2).length = s.buf.size
  closed : r.1.closed = true → r.1.futs = [] ∧ r.1.buf = Buf.empty
  pre : sentBytes r.2 <+: s.buf.abs

theorem take_of_prefix {p l : Bytes} (h : p <+: l) (k : Nat) (hk : k ≤ p.length) : p.take k = l.take k := by
  obtain ⟨t, rfl⟩ := h
  rw [List.take_append_of_le_length hk]

theorem sendLoop_spec (sc : List Send) (s : St) (hwf : WF s.buf) (hc : s.closed = false) :
    SendSpec s (sendLoop s sc) := by
  induction sc generalizing s with
  | nil => exact ⟨hwf, rfl, rfl, rfl, by simp [sendLoop, sentBytes], rfl,
      fun _ => ⟨rfl, by simp [sendLoop, sentBytes], by simp [sendLoop, sentBytes]⟩,
      fun h => by simp [sendLoop, hc] at h, by simp [sendLoop, sentBytes]⟩
  | cons step rest ih =>
    have base : SendSpec s (s, []) := ⟨hwf, rfl, rfl, rfl, by simp [sentBytes], rfl,
      fun _ => ⟨rfl, by simp [sentBytes], by simp [sentBytes]⟩,
      fun h => by simp [hc] at h, by simp [sentBytes]⟩
    unfold sendLoop
    split
    · exact base
    · rename_i hsz
      cases step with
      | fail =>
        simp only [closeSt]
        exact ⟨wf_empty, rfl, rfl, rfl, by simp [sentBytes_failed], by simp [resolvedIds_failed],
          fun h => by simp at h, fun _ => ⟨rfl, rfl⟩, by simp [sentBytes_failed]⟩
      | acc n =>
        simp only
        split
        · exact base
        · rename_i hk
          have hpre := peek_prefix' hwf s.buf.size
          have hkle : min n (s.buf.peek s.buf.size).length ≤ (s.buf.peek s.buf.size).length := Nat.min_le_right _ _
          have hlen : (s.buf.peek s.buf.size).length ≤ s.buf.size := by
            have := hpre.length_le; rw [← size_eq_abs' hwf] at this; exact this
          obtain ⟨b', hadv, hwf', habs', hsize'⟩ :=
            advance_spec hwf (min n (s.buf.peek s.buf.size).length) (by omega) (by omega)
          rw [hadv]
          simp only
          have IH := ih { s with buf := b', didx := s.didx + min n (s.buf.peek s.buf.size).length } hwf' hc
          generalize hr : sendLoop { s with buf := b', didx := s.didx + min n (s.buf.peek s.buf.size).length } rest = r at IH ⊢
          obtain ⟨r1, r2⟩ := r
          have htake := take_of_prefix hpre _ hkle
          have hkabs : min n (s.buf.peek s.buf.size).length ≤ s.buf.abs.length := by
            rw [← size_eq_abs' hwf]; omega
          refine ⟨IH.wf, IH.widx, IH.maxw, IH.nextId, ?_, ?_, ?_, IH.closed, ?_⟩
          · have := IH.didx
            simp only [sentBytes, List.length_append, List.length_take] at this ⊢
            omega
          · simpa [resolvedIds] using IH.noRes
          · intro ho
            obtain ⟨h1, h2, h3⟩ := IH.opened ho
            refine ⟨h1, ?_, ?_⟩
            · simp only [sentBytes, List.append_assoc]
              simp only at h2
              rw [h2, habs', htake, List.take_append_drop]
            · simp only [sentBytes, List.length_append, List.length_take] at h3 ⊢
              omega
          · have := IH.pre
            simp only [sentBytes] at this ⊢
            rw [habs'] at this
            rw [htake]
            obtain ⟨t, ht⟩ := this
            refine ⟨t, ?_⟩
            rw [List.append_assoc, ht, List.take_append_drop]


/-- invariant of the write side of a stream (holds between operations) -/
structure Inv (s : St) : Prop where
  wf : WF s.buf
  idx : s.closed = false → s.widx = s.didx + s.buf.size
  ids : s.futs.map (·.2) = List.range' (s.nextId - s.futs.length) s.futs.length
  idsLe : s.futs.length ≤ s.nextId
  sorted : s.futs.Pairwise (fun a b => a.1 ≤ b.1)
  pend : ∀ p ∈ s.futs, s.didx < p.1 ∧ p.1 ≤ s.widx
  closedE : s.closed = true → s.futs = [] ∧ s.buf = Buf.empty

theorem inv_init (m : Option Nat) : Inv (St.init m) :=
  ⟨wf_empty, by simp [St.init, Buf.empty], by simp [St.init], by simp [St.init], by simp [St.init],
   by simp [St.init], by simp [St.init]⟩

theorem resolveFuts_spec (d : Nat) (fs : List (Nat × Nat)) :
    ∃ pre, fs = pre ++ (resolveFuts d fs).1 ∧ (resolveFuts d fs).2 = pre.map (fun p => Ev.resolved p.2)
      ∧ (∀ p ∈ pre, p.1 ≤ d) ∧ (∀ p, (resolveFuts d fs).1.head? = some p → d < p.1) := by
  induction fs with
  | nil => exact ⟨[], by simp [resolveFuts]⟩
  | cons p fs ih =>
    obtain ⟨i, id⟩ := p
    unfold resolveFuts
    split
    · rename_i h
      exact ⟨[], by simp, by simp, by simp, by intro p hp; simp at hp; subst hp; exact h⟩
    · rename_i h
      obtain ⟨pre, h1, h2, h3, h4⟩ := ih
      refine ⟨(i, id) :: pre, ?_, ?_, ?_, h4⟩
      · simp only [List.cons_append]; rw [← h1]
      · simp [h2]
      · intro p hp
        simp only [List.mem_cons] at hp
        rcases hp with rfl | hp
        · simp only; omega
        · exact h3 p hp

theorem sentBytes_resolved (l : List (Nat × Nat)) : sentBytes (l.map (fun p => Ev.resolved p.2)) = [] := by
  induction l with
  | nil => rfl
  | cons p l ih => simp [sentBytes, ih]

theorem resolvedIds_resolved (l : List (Nat × Nat)) :
    resolvedIds (l.map (fun p => Ev.resolved p.2)) = l.map (·.2) := by
  induction l with
  | nil => rfl
  | cons p l ih => simp [resolvedIds, ih]

/-- preconditions of `_handle_write` (the state right after `write` enqueued its future, or between ops) -/
structure PreInv (s : St) : Prop where
  wf : WF s.buf
  opn : s.closed = false
  idx : s.widx = s.didx + s.buf.size
  ids : s.futs.map (·.2) = List.range' (s.nextId - s.futs.length) s.futs.length
  idsLe : s.futs.length ≤ s.nextId
  sorted : s.futs.Pairwise (fun a b => a.1 ≤ b.1)
  pend : ∀ p ∈ s.futs, p.1 ≤ s.widx

structure HWSpec (s : St) (r : St × List Ev) : Prop where
  inv : Inv r.1
  maxw : r.1.maxw = s.maxw
  widx : r.1.widx = s.widx
  didx : r.1.didx = s.didx + (sentBytes r.2).length
  conc : r.1.closed = false → sentBytes r.2 ++ r.1.buf.abs = s.buf.abs
  pre : sentBytes r.2 <+: s.buf.abs
  res : ∃ k, resolvedIds r.2 = List.range' (s.nextId - s.futs.length) k
    ∧ (r.1.closed = false → r.1.nextId - r.1.futs.length = s.nextId - s.futs.length + k)
  after : ∀ id ∈ resolvedIds r.2, ∃ i, (i, id) ∈ s.futs ∧ i ≤ r.1.didx
  nextId : r.1.nextId = s.nextId

theorem range'_split (a n k : Nat) (hk : k ≤ n) :
    List.range' a n = List.range' a k ++ List.range' (a + k) (n - k) := by
  have : n = k + (n - k) := by omega
  conv => lhs; rw [this]
  rw [List.range'_append_1]

theorem handleWrite_spec (s : St) (sc : List Send) (h : PreInv s) : HWSpec s (handleWrite s sc) := by
  have S := sendLoop_spec sc s h.wf h.opn
  unfold handleWrite
  generalize hr : sendLoop s sc = r at S ⊢
  obtain ⟨s1, es⟩ := r
  simp only
  by_cases hc : s1.closed = true
  · simp only [hc, if_true]
    obtain ⟨hf, hb⟩ := S.closed hc
    simp only at hf hb
    refine ⟨⟨S.wf, by simp [hc], by simp [hf], by simp [hf], by simp [hf], by simp [hf], fun _ => ⟨hf, hb⟩⟩,
      S.maxw, S.widx, S.didx, by simp [hc], S.pre, ⟨0, by simp [S.noRes], by simp [hc]⟩, by simp [S.noRes], S.nextId⟩
  · have hc' : s1.closed = false := by simpa using hc
    simp only [hc', Bool.false_eq_true, if_false]
    obtain ⟨hf, habs, hsz⟩ := S.opened hc'
    simp only at hf habs hsz
    obtain ⟨pre, h1, h2, h3, h4⟩ := resolveFuts_spec s1.didx s1.futs
    generalize hq : resolveFuts s1.didx s1.futs = q at h1 h2 h3 h4 ⊢
    obtain ⟨fs, rs⟩ := q
    simp only at h1 h2 h3 h4 ⊢
    have hsplit : s.futs = pre ++ fs := by rw [← hf]; exact h1
    have hlen : s.futs.length = pre.length + fs.length := by rw [hsplit]; simp
    have hsorted := h.sorted
    rw [hsplit] at hsorted
    have hids := h.ids
    have hidsLe := h.idsLe
    have hS1 := S.didx; have hS2 := S.widx; have hS3 := S.nextId
    simp only at hS1 hS2 hS3
    -- ids of the two halves
    have hmap : pre.map (·.2) ++ fs.map (·.2) =
        List.range' (s.nextId - s.futs.length) pre.length
          ++ List.range' (s.nextId - s.futs.length + pre.length) fs.length := by
      rw [← List.map_append, ← hsplit, hids, range'_split _ _ pre.length (by omega)]
      congr 2; omega
    have hpreIds : pre.map (·.2) = List.range' (s.nextId - s.futs.length) pre.length :=
      (List.append_inj hmap (by simp)).1
    have hfsIds : fs.map (·.2) = List.range' (s.nextId - s.futs.length + pre.length) fs.length :=
      (List.append_inj hmap (by simp)).2
    refine ⟨⟨S.wf, ?_, ?_, ?_, ?_, ?_, ?_⟩, S.maxw, S.widx, ?_, ?_, ?_, ?_, ?_, S.nextId⟩
    · intro _; simp only; have := h.idx; omega
    · simp only; rw [hfsIds, hS3]; congr 1; omega
    · simp only; omega
    · simp only; exact (List.pairwise_append.mp hsorted).2.1
    · intro p hp
      simp only at hp ⊢
      constructor
      · cases hfs : fs with
        | nil => simp [hfs] at hp
        | cons p0 fs' =>
          have h0 := h4 p0 (by simp [hfs])
          rw [hfs] at hp hsorted
          simp only [List.mem_cons] at hp
          rcases hp with rfl | hp
          · exact h0
          · have := (List.pairwise_cons.mp (List.pairwise_append.mp hsorted).2.1).1 p hp
            omega
      · have := h.pend p (by rw [hsplit]; simp [hp]); omega
    · intro hcl; simp [hc'] at hcl
    · simp only [sentBytes_append, h2, sentBytes_resolved, List.append_nil]; exact S.didx
    · intro _; simp only [sentBytes_append, h2, sentBytes_resolved, List.append_nil]; exact habs
    · simp only [sentBytes_append, h2, sentBytes_resolved, List.append_nil]; exact S.pre
    · refine ⟨pre.length, ?_, ?_⟩
      · simp only [resolvedIds_append, S.noRes, h2, resolvedIds_resolved, List.nil_append]; exact hpreIds
      · intro _; simp only; omega
    · intro id hid
      simp only [resolvedIds_append, S.noRes, h2, resolvedIds_resolved, List.nil_append, List.mem_map] at hid
      obtain ⟨p, hp, rfl⟩ := hid
      exact ⟨p.1, by rw [hsplit]; simp [hp], by simp only; exact h3 p hp⟩


/-- the data an operation added to the stream: that of a `write` that returned a future -/
def accData : Op → Res → Bytes
  | .write d _, .fut _ => d
  | _, _ => []

theorem append_size (b : Buf) (d : Bytes) : (b.append d).size = b.size + d.length := by
  unfold Buf.append
  split
  · rfl
  · split
    · rfl
    · rename_i h1 h2; simp at h2; simp [h2]

structure StepSpec (s : St) (op : Op) (r : St × Res × List Ev) : Prop where
  inv : Inv r.1
  maxw : r.1.maxw = s.maxw
  didx : r.1.didx = s.didx + (sentBytes r.2.2).length
  widx : r.1.widx = s.widx + (accData op r.2.1).length
  conc : r.1.closed = false → sentBytes r.2.2 ++ r.1.buf.abs = s.buf.abs ++ accData op r.2.1
  pre : sentBytes r.2.2 <+: s.buf.abs ++ accData op r.2.1
  res : ∃ k, resolvedIds r.2.2 = List.range' (s.nextId - s.futs.length) k
    ∧ (r.1.closed = false → r.1.nextId - r.1.futs.length = s.nextId - s.futs.length + k)
  stay : s.closed = true → r.1 = s ∧ r.2.2 = []
  mono : s.closed = true → r.1.closed = true

theorem stepSpec_noop (s : St) (op : Op) (res : Res) (h : Inv s) (hacc : accData op res = []) :
    StepSpec s op (s, res, []) :=
  ⟨h, rfl, by simp [sentBytes], by simp [hacc], by intro _; simp [sentBytes, hacc], by simp [sentBytes],
   ⟨0, by simp [resolvedIds], by intro _; simp⟩, fun _ => ⟨rfl, rfl⟩, fun hc => hc⟩

theorem preInv_of_inv {s : St} (h : Inv s) (hc : s.closed = false) : PreInv s :=
  ⟨h.wf, hc, h.idx hc, h.ids, h.idsLe, h.sorted, fun p hp => (h.pend p hp).2⟩

theorem preInv_enqueue {s : St} (h : Inv s) (hc' : s.closed = false) (d : Bytes) : PreInv (enqueue s d) := by
  have P := preInv_of_inv h hc'
  unfold enqueue
  refine ⟨wf_append h.wf d, hc', ?_, ?_, ?_, ?_, ?_⟩
  · simp only [append_size]; have := P.idx; omega
  · simp only [List.map_append, List.map_cons, List.map_nil, List.length_append, List.length_cons,
      List.length_nil]
    rw [P.ids]
    have hle := P.idsLe
    have e1 : s.nextId + 1 - (s.futs.length + 0 + 1) = s.nextId - s.futs.length := by omega
    rw [e1, List.range'_concat]
    congr 2
    simp; omega
  · simp only [List.length_append, List.length_cons, List.length_nil]; have := P.idsLe; omega
  · simp only
    rw [List.pairwise_append]
    refine ⟨P.sorted, by simp, ?_⟩
    intro a ha b hb
    simp at hb; subst hb
    have := P.pend a ha; simp only; omega
  · intro p hp
    simp only [List.mem_append, List.mem_singleton] at hp
    rcases hp with hp | rfl
    · have := P.pend p hp; simp only; omega
    · simp

theorem step_spec (s : St) (op : Op) (h : Inv s) : StepSpec s op (step s op) := by
  cases op with
  | writeBad =>
    simp only [step]
    split <;> exact stepSpec_noop s _ _ h rfl
  | writable sc =>
    simp only [step]
    by_cases hc : s.closed = true
    · simp only [hc, if_true]; exact stepSpec_noop s _ _ h rfl
    · have hc' : s.closed = false := by simpa using hc
      simp only [hc', Bool.false_eq_true, if_false]
      have H := handleWrite_spec s sc (preInv_of_inv h hc')
      exact ⟨H.inv, H.maxw, H.didx, by simpa [accData] using H.widx, by simpa [accData] using H.conc,
        by simpa [accData] using H.pre, H.res, fun hcl => by simp [hc'] at hcl, fun hcl => by simp [hc'] at hcl⟩
  | write d sc =>
    simp only [step]
    by_cases hc : s.closed = true
    · simp only [hc, if_true]; exact stepSpec_noop s _ _ h rfl
    · have hc' : s.closed = false := by simpa using hc
      simp only [hc', Bool.false_eq_true, if_false]
      by_cases hf : isFull s d = true
      · simp only [hf, if_true]; exact stepSpec_noop s _ _ h rfl
      · simp only [hf, Bool.false_eq_true, if_false]
        have H := handleWrite_spec _ sc (preInv_enqueue h hc' d)
        have hbase : (enqueue s d).nextId - (enqueue s d).futs.length = s.nextId - s.futs.length := by
          have := h.idsLe; simp [enqueue]
        have hw : (enqueue s d).widx = s.widx + d.length := rfl
        have hd : (enqueue s d).didx = s.didx := rfl
        have hm : (enqueue s d).maxw = s.maxw := rfl
        have ha : (enqueue s d).buf.abs = s.buf.abs ++ d := abs_append' h.wf d
        refine ⟨H.inv, by rw [H.maxw, hm], by rw [H.didx, hd], by simp only [accData]; rw [H.widx, hw], ?_, ?_, ?_,
          fun hcl => by simp [hc'] at hcl, fun hcl => by simp [hc'] at hcl⟩
        · intro ho
          have := H.conc ho
          simp only [accData] at this ⊢
          rw [this, ha]
        · have := H.pre
          simp only [accData] at this ⊢
          rwa [ha] at this
        · obtain ⟨k, hk1, hk2⟩ := H.res
          rw [hbase] at hk1 hk2
          exact ⟨k, hk1, hk2⟩

end TornadoModel.C12
