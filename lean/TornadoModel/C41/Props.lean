/-
C41 — property theorems for the model of `fork_processes` (C41/Model.lean).
All statements quantify over every worker count, budget, supervisor state and scripted OS history.
-/
import TornadoModel.C41.Lemmas
import TornadoModel.C41.Refine
namespace TornadoModel.C41

/-! ### the invariant: live pids distinct, live ids distinct and within `0..n-1` -/
structure Inv (n : Nat) (c : Children) : Prop where
  keysNodup : (keys c).Nodup
  valsNodup : (vals c).Nodup
  valsLt : ∀ i ∈ vals c, i < n

theorem inv_erase {n c} (h : Inv n c) (p : Nat) : Inv n (erase c p) :=
  ⟨(keys_erase_sublist c p).nodup h.keysNodup, (vals_erase_sublist c p).nodup h.valsNodup,
   fun i hi => h.valsLt i ((vals_erase_sublist c p).subset hi)⟩

theorem inv_set {n c} (h : Inv n c) (p i : Nat) (hi : i < n) (hni : i ∉ vals c) : Inv n (set c p i) := by
  have he := inv_erase h p
  refine ⟨?_, ?_, ?_⟩
  · simp only [set, keys, List.map_cons, List.nodup_cons]
    exact ⟨by simpa [keys] using not_mem_keys_erase c p, by simpa [keys] using he.keysNodup⟩
  · simp only [set, vals, List.map_cons, List.nodup_cons]
    refine ⟨fun hm => hni ((vals_erase_sublist c p).subset (by simpa [vals] using hm)), by simpa [vals] using he.valsNodup⟩
  · intro j hj
    simp only [set, vals, List.map_cons, List.mem_cons] at hj
    rcases hj with hj | hj
    · exact hj ▸ hi
    · exact he.valsLt j (by simpa [vals] using hj)

/-! ### the initial loop: ids 0..n-1 are started once each, in order -/

/-- When the first `ids.length` forks all return in the parent (non-zero), the initial loop forks exactly once
per id, in order, and continues with the remaining fork results. -/
theorem initial_trace_gen (ids : List Nat) (s : St)
    (hlen : ids.length ≤ s.forks.length) (hnz : ∀ p ∈ s.forks.take ids.length, p ≠ 0) :
    ∃ s', initial ids s = (List.zipWith Ev.fork ids s.forks, .inr s') ∧
          s'.forks = s.forks.drop ids.length ∧ s'.restarts = s.restarts := by
  induction ids generalizing s with
  | nil => exact ⟨s, by simp [initial]⟩
  | cons i is ih =>
    cases hf : s.forks with
    | nil => simp [hf] at hlen
    | cons p fk =>
      have hp : p ≠ 0 := hnz p (by simp [hf])
      let s1 : St := { s with ch := set s.ch p i, forks := fk }
      have hlen1 : is.length ≤ s1.forks.length := by simp [hf] at hlen; simpa [s1] using hlen
      have hnz1 : ∀ q ∈ s1.forks.take is.length, q ≠ 0 := by
        intro q hq; exact hnz q (by simp [hf]; exact Or.inr (by simpa [s1] using hq))
      obtain ⟨s', h1, h2, h3⟩ := ih s1 hlen1 hnz1
      refine ⟨s', ?_, ?_, ?_⟩
      · simp only [initial, startChild, hf, hp, ↓reduceIte, List.nil_append, List.zipWith_cons_cons]
        rw [h1]; rfl
      · simpa [s1] using h2
      · simpa [s1] using h3

/-- **ids_started_once_initially**: with `n` parent-side fork results, the trace of the initial phase is
`fork 0 p₀, fork 1 p₁, …, fork (n-1) pₙ₋₁` — each task id exactly once. -/
theorem initial_trace (n : Nat) (forks : List Nat)
    (hlen : n ≤ forks.length) (hnz : ∀ p ∈ forks.take n, p ≠ 0) :
    ∃ s', initial (List.range n) { ch := [], restarts := 0, forks := forks }
            = (List.zipWith Ev.fork (List.range n) forks, .inr s') ∧ s'.forks = forks.drop n ∧ s'.restarts = 0 := by
  have := initial_trace_gen (List.range n) { ch := [], restarts := 0, forks := forks }
    (by simpa using hlen) (by simpa using hnz)
  simpa using this

example : (initial (List.range 3) { ch := [], restarts := 0, forks := [7, 8, 9, 10] }).1
    = [.fork 0 7, .fork 1 8, .fork 2 9] := by decide

theorem child_initial_gen (ids : List Nat) (s : St) (pre rest : List Nat) (i : Nat)
    (hf : s.forks = pre ++ 0 :: rest) (hnz : ∀ p ∈ pre, p ≠ 0) (hi : ids[pre.length]? = some i) :
    (initial ids s).2 = .inl (.child i) := by
  induction ids generalizing s pre with
  | nil => simp at hi
  | cons j js ih =>
    cases pre with
    | nil =>
      simp only [List.length_nil, List.getElem?_cons_zero, Option.some.injEq] at hi
      simp only [List.nil_append] at hf
      simp [initial, startChild, hf, hi]
    | cons p pre' =>
      have hp : p ≠ 0 := hnz p (by simp)
      simp only [List.length_cons, List.getElem?_cons_succ] at hi
      simp only [List.cons_append] at hf
      simp only [initial, startChild, hf, hp, ↓reduceIte]
      exact ih { s with ch := set s.ch p j, forks := pre' ++ 0 :: rest } pre' rfl
        (fun q hq => hnz q (by simp [hq])) hi

/-- **child_sees_own_id** (initial phase): the process in which the `k`-th fork returns 0 gets task id `k`. -/
theorem child_sees_own_id_initial (n : Nat) (pre rest : List Nat)
    (hnz : ∀ p ∈ pre, p ≠ 0) (hk : pre.length < n) :
    (initial (List.range n) { ch := [], restarts := 0, forks := pre ++ 0 :: rest }).2 = .inl (.child pre.length) :=
  child_initial_gen _ _ pre rest _ rfl hnz (by simp [hk])

example : (run 3 5 [7, 8, 0] []).2 = .child 2 := by decide

theorem inv_initial_gen (n : Nat) (ids : List Nat) (s s' : St) (evs : List Ev)
    (hinv : Inv n s.ch) (hids : ids.Nodup) (hlt : ∀ i ∈ ids, i < n) (hdisj : ∀ i ∈ ids, i ∉ vals s.ch)
    (h : initial ids s = (evs, .inr s')) : Inv n s'.ch := by
  induction ids generalizing s evs with
  | nil => simp only [initial, Prod.mk.injEq, Sum.inr.injEq] at h; exact h.2 ▸ hinv
  | cons i is ih =>
    simp only [initial, startChild] at h
    cases hf : s.forks with
    | nil => simp [hf] at h
    | cons p fk =>
      simp only [hf] at h
      by_cases hp : p = 0
      · simp [hp] at h
      · simp only [hp, ↓reduceIte, List.nil_append, Prod.mk.injEq] at h
        simp only [List.nodup_cons] at hids
        have hi : i ∉ vals s.ch := hdisj i (by simp)
        refine ih { s with ch := set s.ch p i, forks := fk } _ (inv_set hinv p i (hlt i (by simp)) hi) hids.2
          (fun j hj => hlt j (by simp [hj])) ?_ (Prod.ext rfl h.2)
        intro j hj hm
        simp only [set, vals, List.map_cons, List.mem_cons] at hm
        rcases hm with hm | hm
        · exact hids.1 (hm ▸ hj)
        · exact hdisj j (by simp [hj]) ((vals_erase_sublist s.ch p).subset (by simpa [vals] using hm))

/-- after the initial phase the invariant holds (whatever pids the OS handed out) -/
theorem inv_initial (n : Nat) (forks : List Nat) (evs : List Ev) (s' : St)
    (h : initial (List.range n) { ch := [], restarts := 0, forks := forks } = (evs, .inr s')) : Inv n s'.ch :=
  inv_initial_gen n (List.range n) _ s' evs ⟨by simp [keys], by simp [vals], by simp [vals]⟩
    List.nodup_range (fun i hi => by simpa using hi) (by simp [vals]) h

/-! ### one supervisor iteration -/

/-- **unknown pids are ignored** -/
theorem step_unknown_pid (b : Nat) (s : St) (pid st : Nat) (h : lookup s.ch pid = none) :
    step b s (pid, st) = .cont s [.wait pid st] := by
  simp [step, h]

/-- **normal ⇒ forget**: no fork, the worker's entry is dropped, nothing else changes -/
theorem step_normal_forgets (b : Nat) (s : St) (pid st id : Nat)
    (h : lookup s.ch pid = some id) (hn : abnormal st = false) :
    step b s (pid, st) = .cont { s with ch := erase s.ch pid } [.wait pid st, .log .normal id pid 0] := by
  have hc : classify st = (.normal, 0) := by
    simp only [abnormal, bne_eq_false_iff_eq] at hn
    unfold classify at hn ⊢
    split at hn
    · simp at hn
    · split at hn
      · simp at hn
      · simp_all
  simp [step, h, hc]

/-- **abnormal ⇒ restart with the same id** (budget left, fork returns in the parent) -/
theorem step_abnormal_restarts_same_id (b : Nat) (s : St) (pid st id p : Nat) (fk : List Nat)
    (h : lookup s.ch pid = some id) (ha : abnormal st = true) (hb : s.restarts < b)
    (hf : s.forks = p :: fk) (hp : p ≠ 0) :
    step b s (pid, st) = .cont { ch := set (erase s.ch pid) p id, restarts := s.restarts + 1, forks := fk }
      [.wait pid st, .log (classify st).1 id pid (classify st).2, .fork id p] := by
  have hc : (classify st).1 ≠ .normal := by simpa [abnormal] using ha
  have hb' : ¬ (s.restarts + 1 > b) := by omega
  simp [step, h, hc, hb', startChild, hf, hp]

/-- **child_sees_own_id** (restart): the restarted process gets the id of the worker it replaces -/
theorem child_sees_own_id_restart (b : Nat) (s : St) (pid st id : Nat) (fk : List Nat)
    (h : lookup s.ch pid = some id) (ha : abnormal st = true) (hb : s.restarts < b) (hf : s.forks = 0 :: fk) :
    step b s (pid, st) = .stop (.child id)
      [.wait pid st, .log (classify st).1 id pid (classify st).2, .fork id 0] := by
  have hc : (classify st).1 ≠ .normal := by simpa [abnormal] using ha
  have hb' : ¬ (s.restarts + 1 > b) := by omega
  simp [step, h, hc, hb', startChild, hf]

/-- **budget exceeded ⇒ RuntimeError**, without forking -/
theorem step_budget_exceeded (b : Nat) (s : St) (pid st id : Nat)
    (h : lookup s.ch pid = some id) (ha : abnormal st = true) (hb : b ≤ s.restarts) :
    step b s (pid, st) = .stop .tooMany [.wait pid st, .log (classify st).1 id pid (classify st).2] := by
  have hc : (classify st).1 ≠ .normal := by simpa [abnormal] using ha
  have hb' : s.restarts + 1 > b := by omega
  simp [step, h, hc, hb']

def Step.events : Step → List Ev
  | .cont _ evs => evs
  | .stop _ evs => evs

/-- **restart_iff_abnormal**: while budget is left, an iteration forks iff the reaped pid is a worker that
exited abnormally, and then exactly once, with that worker's id. -/
theorem restart_iff_abnormal (b : Nat) (s : St) (pid st p : Nat) (fk : List Nat)
    (hb : s.restarts < b) (hf : s.forks = p :: fk) :
    forksOf (step b s (pid, st)).events =
      match lookup s.ch pid with
      | some id => if abnormal st then [(id, p)] else []
      | none => [] := by
  cases h : lookup s.ch pid with
  | none => simp [step_unknown_pid b s pid st h, Step.events, forksOf]
  | some id =>
    cases ha : abnormal st with
    | false => simp [step_normal_forgets b s pid st id h ha, Step.events, forksOf]
    | true =>
      by_cases hp : p = 0
      · subst hp
        simp [child_sees_own_id_restart b s pid st id fk h ha hb hf, Step.events, forksOf]
      · simp [step_abnormal_restarts_same_id b s pid st id p fk h ha hb hf hp, Step.events, forksOf]

example : (step 2 { ch := [(7, 0), (8, 1)], restarts := 0, forks := [9] } (8, 9)).events
    = [.wait 8 9, .log .signal 1 8 9, .fork 1 9] := by decide
example : (step 2 { ch := [(7, 0), (8, 1)], restarts := 0, forks := [9] } (8, 0)).events
    = [.wait 8 0, .log .normal 1 8 0] := by decide

/-- the invariant is preserved by every iteration (no assumption on the OS) -/
theorem inv_step (n b : Nat) (s s' : St) (w : Nat × Nat) (evs : List Ev)
    (hinv : Inv n s.ch) (h : step b s w = .cont s' evs) : Inv n s'.ch := by
  unfold step at h
  split at h
  · simp only [Step.cont.injEq] at h; exact h.1 ▸ hinv
  · rename_i id hl
    simp only at h
    split at h
    · simp only [Step.cont.injEq] at h; exact h.1 ▸ inv_erase hinv w.1
    · split at h
      · simp at h
      · unfold startChild at h
        simp only at h
        split at h
        · simp at h
        · rename_i p fk hf
          split at h
          · simp at h
          · simp only [Step.cont.injEq] at h
            rw [← h.1]
            exact inv_set (inv_erase hinv w.1) p id (hinv.valsLt id (lookup_mem_vals hl))
              (lookup_not_mem_vals_erase hinv.valsNodup hl)

theorem inv_loop (n b : Nat) (s : St) (ws : List (Nat × Nat)) (hinv : Inv n s.ch) :
    Inv n (loop b s ws).2.2.ch := by
  induction ws generalizing s with
  | nil => unfold loop; split <;> simpa
  | cons w ws ih =>
    unfold loop
    split
    · simpa
    · simp only
      cases hs : step b s w with
      | stop o evs => simpa
      | cont s' evs => simpa using ih s' (inv_step n b s s' w evs hinv hs)

/-- **live ids are distinct and ⊆ 0..n-1** at every point a supervisor started by `run` can reach -/
theorem live_ids_distinct_in_range (n b : Nat) (forks : List Nat) (ws : List (Nat × Nat)) (evs : List Ev) (s : St)
    (h : initial (List.range n) { ch := [], restarts := 0, forks := forks } = (evs, .inr s)) :
    let c := (loop b s ws).2.2.ch
    (vals c).Nodup ∧ (keys c).Nodup ∧ ∀ i ∈ vals c, i < n :=
  let hi := inv_loop n b s ws (inv_initial n forks evs s h)
  ⟨hi.valsNodup, hi.keysNodup, hi.valsLt⟩

/-! ### the restart budget -/
theorem step_stop_ne_exit0 (b : Nat) (s : St) (w : Nat × Nat) (o : Outcome) (evs : List Ev)
    (h : step b s w = .stop o evs) : o ≠ .exit0 := by
  unfold step at h
  split at h
  · simp at h
  · simp only at h
    split at h
    · simp at h
    · split at h
      · simp only [Step.stop.injEq] at h; simp [← h.1]
      · unfold startChild at h
        simp only at h
        split at h
        · simp only [Step.stop.injEq] at h; simp [← h.1]
        · split at h
          · simp only [Step.stop.injEq] at h; simp [← h.1]
          · simp at h

theorem step_budget_cont (b : Nat) (s s' : St) (w : Nat × Nat) (evs : List Ev) (hb : s.restarts ≤ b)
    (h : step b s w = .cont s' evs) : s'.restarts = s.restarts + abnCount evs ∧ s'.restarts ≤ b := by
  unfold step at h
  split at h
  · simp only [Step.cont.injEq] at h; simp [← h.1, ← h.2, abnCount, hb]
  · simp only at h
    split at h
    · rename_i hc
      simp only [Step.cont.injEq] at h; simp [← h.1, ← h.2, abnCount, hb, hc]
    · rename_i hc
      split at h
      · simp at h
      · rename_i hlt
        unfold startChild at h
        simp only at h
        split at h
        · simp at h
        · split at h
          · simp at h
          · simp only [Step.cont.injEq] at h
            simp only [← h.1, ← h.2, abnCount, List.cons_append, List.nil_append]
            simp [hc]; omega

theorem step_budget_stop (b : Nat) (s : St) (w : Nat × Nat) (o : Outcome) (evs : List Ev) (hb : s.restarts ≤ b)
    (h : step b s w = .stop o evs) :
    s.restarts + abnCount evs ≤ b + 1 ∧ (o = .tooMany ↔ s.restarts + abnCount evs = b + 1) := by
  unfold step at h
  split at h
  · simp at h
  · simp only at h
    split at h
    · simp at h
    · rename_i hc
      split at h
      · rename_i hgt
        simp only [Step.stop.injEq] at h
        simp only [← h.1, ← h.2, abnCount]
        simp [hc]; omega
      · rename_i hlt
        unfold startChild at h
        simp only at h
        split at h
        · simp only [Step.stop.injEq] at h
          simp only [← h.1, ← h.2, abnCount]
          simp [hc]; omega
        · split at h
          · simp only [Step.stop.injEq] at h
            simp only [← h.1, ← h.2, abnCount, List.cons_append, List.nil_append]
            simp [hc]; omega
          · simp at h

/-- the restart counter never exceeds the budget -/
theorem restarts_le_budget (b : Nat) (s : St) (ws : List (Nat × Nat)) (hb : s.restarts ≤ b) :
    (loop b s ws).2.2.restarts ≤ b := by
  induction ws generalizing s with
  | nil => unfold loop; split <;> simpa
  | cons w ws ih =>
    unfold loop
    split
    · simpa
    · simp only
      cases hs : step b s w with
      | stop o evs => simpa
      | cont s' evs => simpa using ih s' (step_budget_cont b s s' w evs hb hs).2

/-- **budget**: the supervisor fails with "Too many child restarts" exactly when the trace holds the
`(budget+1)`-th abnormal exit of a worker (counted from `s.restarts`), and never records more than that. -/
theorem budget (b : Nat) (s : St) (ws : List (Nat × Nat)) (hb : s.restarts ≤ b) :
    s.restarts + abnCount (loop b s ws).1 ≤ b + 1 ∧
    ((loop b s ws).2.1 = .tooMany ↔ s.restarts + abnCount (loop b s ws).1 = b + 1) := by
  induction ws generalizing s with
  | nil => unfold loop; split <;> simp [abnCount] <;> omega
  | cons w ws ih =>
    unfold loop
    split
    · simp [abnCount]; omega
    · simp only
      cases hs : step b s w with
      | stop o evs => simpa using step_budget_stop b s w o evs hb hs
      | cont s' evs =>
        have h1 := step_budget_cont b s s' w evs hb hs
        have h2 := ih s' h1.2
        simp only [abnCount_append]
        rw [h1.1] at h2
        constructor
        · omega
        · rw [h2.2]; omega

example : (run 1 1 [7, 8, 9] [(7, 9), (8, 256)]).2 = .tooMany := by decide
example : (run 1 1 [7, 8, 9] [(7, 9), (8, 0)]).2 = .exit0 := by decide

/-! ### successful exit -/

/-- the supervisor calls `sys.exit(0)` exactly when no worker is left -/
theorem exit0_children_empty (b : Nat) (s : St) (ws : List (Nat × Nat)) :
    (loop b s ws).2.1 = .exit0 ↔ (loop b s ws).2.2.ch = [] := by
  induction ws generalizing s with
  | nil => unfold loop; split <;> simp_all [List.isEmpty_iff]
  | cons w ws ih =>
    unfold loop
    split
    · simp_all [List.isEmpty_iff]
    · rename_i hne
      simp only
      cases hs : step b s w with
      | stop o evs =>
        have := step_stop_ne_exit0 b s w o evs hs
        simp_all [List.isEmpty_iff]
      | cont s' evs => simpa using ih s'

theorem step_starved (b : Nat) (s : St) (pid st id : Nat)
    (h : lookup s.ch pid = some id) (ha : abnormal st = true) (hb : s.restarts < b) (hf : s.forks = []) :
    step b s (pid, st) = .stop .starved [.wait pid st, .log (classify st).1 id pid (classify st).2] := by
  have hc : (classify st).1 ≠ .normal := by simpa [abnormal] using ha
  have hb' : ¬ (s.restarts + 1 > b) := by omega
  simp [step, h, hc, hb', startChild, hf]

/-- every continuing iteration has one of three shapes -/
theorem step_cont_cases (b : Nat) (s s' : St) (w : Nat × Nat) (evs : List Ev) (h : step b s w = .cont s' evs) :
    (lookup s.ch w.1 = none ∧ s' = s ∧ evs = [.wait w.1 w.2]) ∨
    (∃ id, lookup s.ch w.1 = some id ∧ abnormal w.2 = false ∧ s' = { s with ch := erase s.ch w.1 } ∧
        evs = [.wait w.1 w.2, .log .normal id w.1 0]) ∨
    (∃ id p fk, lookup s.ch w.1 = some id ∧ abnormal w.2 = true ∧ s.restarts < b ∧ s.forks = p :: fk ∧ p ≠ 0 ∧
        s' = { ch := set (erase s.ch w.1) p id, restarts := s.restarts + 1, forks := fk } ∧
        evs = [.wait w.1 w.2, .log (classify w.2).1 id w.1 (classify w.2).2, .fork id p]) := by
  obtain ⟨pid, st⟩ := w
  cases hl : lookup s.ch pid with
  | none =>
    rw [step_unknown_pid b s pid st hl] at h
    simp only [Step.cont.injEq] at h
    exact Or.inl ⟨rfl, h.1.symm, h.2.symm⟩
  | some id =>
    cases ha : abnormal st with
    | false =>
      rw [step_normal_forgets b s pid st id hl ha] at h
      simp only [Step.cont.injEq] at h
      exact Or.inr (Or.inl ⟨id, rfl, rfl, h.1.symm, h.2.symm⟩)
    | true =>
      by_cases hb : s.restarts < b
      · cases hf : s.forks with
        | nil => rw [step_starved b s pid st id hl ha hb hf] at h; simp at h
        | cons p fk =>
          by_cases hp : p = 0
          · subst hp
            rw [child_sees_own_id_restart b s pid st id fk hl ha hb hf] at h; simp at h
          · rw [step_abnormal_restarts_same_id b s pid st id p fk hl ha hb hf hp] at h
            simp only [Step.cont.injEq] at h
            exact Or.inr (Or.inr ⟨id, p, fk, rfl, rfl, hb, rfl, hp, h.1.symm, h.2.symm⟩)
      · rw [step_budget_exceeded b s pid st id hl ha (by omega)] at h; simp at h

/-- a stopping iteration is always about a known worker that exited abnormally; it logs only that worker -/
theorem step_stop_cases (b : Nat) (s : St) (w : Nat × Nat) (o : Outcome) (evs : List Ev) (h : step b s w = .stop o evs) :
    ∃ id tl, lookup s.ch w.1 = some id ∧ abnormal w.2 = true ∧
      evs = .wait w.1 w.2 :: .log (classify w.2).1 id w.1 (classify w.2).2 :: tl ∧ (tl = [] ∨ tl = [.fork id 0]) := by
  obtain ⟨pid, st⟩ := w
  cases hl : lookup s.ch pid with
  | none => rw [step_unknown_pid b s pid st hl] at h; simp at h
  | some id =>
    cases ha : abnormal st with
    | false => rw [step_normal_forgets b s pid st id hl ha] at h; simp at h
    | true =>
      by_cases hb : s.restarts < b
      · cases hf : s.forks with
        | nil =>
          rw [step_starved b s pid st id hl ha hb hf] at h
          simp only [Step.stop.injEq] at h
          exact ⟨id, [], rfl, rfl, h.2.symm, Or.inl rfl⟩
        | cons p fk =>
          by_cases hp : p = 0
          · subst hp
            rw [child_sees_own_id_restart b s pid st id fk hl ha hb hf] at h
            simp only [Step.stop.injEq] at h
            exact ⟨id, [.fork id 0], rfl, rfl, h.2.symm, Or.inr rfl⟩
          · rw [step_abnormal_restarts_same_id b s pid st id p fk hl ha hb hf hp] at h; simp at h
      · rw [step_budget_exceeded b s pid st id hl ha (by omega)] at h
        simp only [Step.stop.injEq] at h
        exact ⟨id, [], rfl, rfl, h.2.symm, Or.inl rfl⟩

@[simp] theorem logsOf_nil (i : Nat) : logsOf i [] = [] := rfl
@[simp] theorem logsOf_wait (i p st : Nat) (t : List Ev) : logsOf i (.wait p st :: t) = logsOf i t := by
  simp [logsOf]
@[simp] theorem logsOf_fork (i j p : Nat) (t : List Ev) : logsOf i (.fork j p :: t) = logsOf i t := by
  simp [logsOf]
theorem logsOf_log_ne (i j p v : Nat) (k : Kind) (t : List Ev) (h : j ≠ i) :
    logsOf i (.log k j p v :: t) = logsOf i t := by
  simp [logsOf, h]
theorem logsOf_log_eq (i p v : Nat) (k : Kind) (t : List Ev) :
    logsOf i (.log k i p v :: t) = k :: logsOf i t := by
  simp [logsOf]

/-- only ids that are live at the start are ever logged by the loop -/
theorem loop_logs_live (n b : Nat) (s : St) (ws : List (Nat × Nat)) (hinv : Inv n s.ch) (i : Nat)
    (hi : i ∉ vals s.ch) : logsOf i (loop b s ws).1 = [] := by
  induction ws generalizing s with
  | nil => unfold loop; split <;> simp
  | cons w ws ih =>
    unfold loop
    split
    · simp
    · simp only
      cases hs : step b s w with
      | stop o evs =>
        obtain ⟨id, tl, hl, -, hev, htl⟩ := step_stop_cases b s w o evs hs
        have hid : id ≠ i := fun h => hi (h ▸ lookup_mem_vals hl)
        subst hev
        rcases htl with rfl | rfl <;> simp [logsOf_log_ne _ _ _ _ _ _ hid]
      | cont s' evs =>
        simp only [logsOf_append]
        have hinv' := inv_step n b s s' w evs hinv hs
        rcases step_cont_cases b s s' w evs hs with ⟨-, rfl, rfl⟩ | ⟨id, hl, -, rfl, rfl⟩ | ⟨id, p, fk, hl, -, -, -, -, rfl, rfl⟩
        · simp [ih s' hinv hi]
        · have hid : id ≠ i := fun h => hi (h ▸ lookup_mem_vals hl)
          have hie : i ∉ vals (erase s.ch w.1) := fun h => hi ((vals_erase_sublist _ _).subset h)
          simp [logsOf_log_ne _ _ _ _ _ _ hid, ih _ hinv' hie]
        · have hid : id ≠ i := fun h => hi (h ▸ lookup_mem_vals hl)
          have hie : i ∉ vals (erase s.ch w.1) := fun h => hi ((vals_erase_sublist _ _).subset h)
          have hi' : i ∉ vals (C41.set (erase s.ch w.1) p id) := by
            simp only [C41.set, vals, List.map_cons, List.mem_cons, not_or]
            exact ⟨fun h => hid h.symm, fun h => hie ((vals_erase_sublist _ _).subset (by simpa [vals] using h))⟩
          simp [logsOf_log_ne _ _ _ _ _ _ hid, ih _ hinv' hi']

/-- **success only after every worker exited normally**: if the loop ends in `sys.exit(0)` and the OS never
handed out the pid of a live worker, then for every task id live at the start, the last exit recorded for that id
is a normal one. -/
theorem success_loop (n b : Nat) (s : St) (ws : List (Nat × Nat)) (hinv : Inv n s.ch)
    (hfresh : loopFresh b s ws = true) (hex : (loop b s ws).2.1 = .exit0) :
    ∀ i ∈ vals s.ch, lastExit i (loop b s ws).1 = some .normal := by
  induction ws generalizing s with
  | nil =>
    unfold loop at hex ⊢
    split
    · rename_i he; simp [List.isEmpty_iff.mp he, vals]
    · rename_i he; simp [he] at hex
  | cons w ws ih =>
    unfold loop at hex ⊢
    unfold loopFresh at hfresh
    split
    · rename_i he; simp [List.isEmpty_iff.mp he, vals]
    · rename_i he
      simp only [he, Bool.false_eq_true, ↓reduceIte, Bool.and_eq_true] at hex hfresh
      cases hs : step b s w with
      | stop o evs =>
        simp only [hs] at hex
        exact absurd hex (step_stop_ne_exit0 b s w o evs hs)
      | cont s' evs =>
        simp only [hs] at hex hfresh ⊢
        have hinv' := inv_step n b s s' w evs hinv hs
        have IH := ih s' hinv' hfresh.2 hex
        intro i hi
        rw [lastExit_append]
        have hsf := hfresh.1
        rcases step_cont_cases b s s' w evs hs with ⟨-, rfl, rfl⟩ | ⟨id, hl, -, rfl, rfl⟩ | ⟨id, p, fk, hl, ha, hb, hf, -, rfl, rfl⟩
        · simp [IH i hi]
        · by_cases hid : i = id
          · subst hid
            have hnot : i ∉ vals (erase s.ch w.1) := lookup_not_mem_vals_erase hinv.valsNodup hl
            have hnone := loop_logs_live n b _ ws hinv' i hnot
            simp [lastExit, hnone, logsOf_log_eq]
          · have : i ∈ vals (erase s.ch w.1) := mem_vals_erase_of_ne hinv.keysNodup hl hi hid
            simp [IH i this]
        · have : i ∈ vals (C41.set (erase s.ch w.1) p id) := by
            simp only [C41.set, vals, List.map_cons, List.mem_cons]
            by_cases hid : i = id
            · exact Or.inl hid
            · right
              have hle : s.restarts + 1 ≤ b := by omega
              simp only [stepFresh, hl, ha, hle, decide_true, Bool.and_self, ↓reduceIte, freshFork, hf] at hsf
              have hp : p ∉ keys (erase s.ch w.1) := by simpa using hsf
              have := erase_of_not_mem _ _ hp
              simp only [erase] at this ⊢
              rw [this]
              simpa [vals, erase] using mem_vals_erase_of_ne hinv.keysNodup hl hi hid
          simp [IH i this]

/-- every id is live after a fresh initial phase -/
theorem initial_all_live_gen (ids : List Nat) (s s' : St) (evs : List Ev)
    (hfresh : initialFresh ids s = true) (h : initial ids s = (evs, .inr s')) :
    (∀ i ∈ ids, i ∈ vals s'.ch) ∧ (∀ i ∈ vals s.ch, i ∈ vals s'.ch) := by
  induction ids generalizing s evs with
  | nil => simp only [initial, Prod.mk.injEq, Sum.inr.injEq] at h; simp [← h.2]
  | cons i is ih =>
    simp only [initial, startChild] at h
    simp only [initialFresh, startChild, Bool.and_eq_true] at hfresh
    cases hf : s.forks with
    | nil => simp [hf] at h
    | cons p fk =>
      simp only [hf] at h hfresh
      by_cases hp : p = 0
      · simp [hp] at h
      · simp only [hp, ↓reduceIte, List.nil_append, Prod.mk.injEq] at h hfresh
        have hpk : p ∉ keys s.ch := by simpa [freshFork, hf] using hfresh.1
        have := ih { s with ch := set s.ch p i, forks := fk } _ hfresh.2 (Prod.ext rfl h.2)
        have hset : vals (set s.ch p i) = i :: vals s.ch := by
          simp [set, vals, erase_of_not_mem _ _ hpk]
        simp only [hset, List.mem_cons] at this
        refine ⟨?_, fun j hj => this.2 j (Or.inr hj)⟩
        intro j hj
        simp only [List.mem_cons] at hj
        rcases hj with hj | hj
        · exact this.2 j (Or.inl hj)
        · exact this.1 j hj

/-- **success_iff_all_normal**: a complete run ends in `sys.exit(0)` iff no worker is left, and then every task id
`0..n-1` has been reaped with a *normal* exit as its last recorded exit (OS never reuses a live pid). -/
theorem success_iff_all_normal (n b : Nat) (forks : List Nat) (ws : List (Nat × Nat)) (evs : List Ev) (s : St)
    (hinit : initial (List.range n) { ch := [], restarts := 0, forks := forks } = (evs, .inr s))
    (hf0 : initialFresh (List.range n) { ch := [], restarts := 0, forks := forks } = true)
    (hf1 : loopFresh b s ws = true) :
    ((loop b s ws).2.1 = .exit0 ↔ (loop b s ws).2.2.ch = []) ∧
    ((loop b s ws).2.1 = .exit0 → ∀ i < n, lastExit i (loop b s ws).1 = some .normal) := by
  refine ⟨exit0_children_empty b s ws, fun hex i hi => ?_⟩
  have hlive := (initial_all_live_gen (List.range n) _ s evs hf0 hinit).1 i (by simpa using hi)
  exact success_loop n b s ws (inv_initial n forks evs s hinit) hf1 hex i hlive

example : runFresh 2 3 [7, 8, 9] [(7, 9), (8, 0), (9, 0)] = true ∧
    (run 2 3 [7, 8, 9] [(7, 9), (8, 0), (9, 0)]).2 = .exit0 := by decide

/-! ### status decoding agrees with POSIX on every status `wait()` can return -/
theorem classify_agrees_with_posix (st : Nat) (h : st % 128 ≠ 127) :
    classify st = Spec.logOf st ∧ abnormal st = !Spec.isNormal st := by
  unfold abnormal classify Spec.logOf Spec.isNormal Spec.decode ifSignaled termSig exitStatus
  by_cases h0 : st % 128 = 0
  · by_cases h1 : st / 256 % 256 = 0
    · simp [h0, h1]
    · have h2 : (Spec.Status.exited (st / 256 % 256) == Spec.Status.exited 0) = false := by
        simp [h1]
      simp [h0, h1, h2]
  · have h2 : (Spec.Status.signalled (st % 128) == Spec.Status.exited 0) = false := by simp
    simp [h0, h, h2]

/-! ### refinement: supervisor Model = slot Spec -/

/-- **refines_slot_spec**: for every `n`, restart budget and scripted OS history (`forks` = results of the successive
`os.fork()` calls, `waits` = the `(pid, status)` results of the successive `os.wait()` calls) in which no status is a
"stopped/continued" one (`NoStopped`: low 7 bits ≠ 127 — `os.wait()` without options never returns those), the slot
specification and the model of `fork_processes` agree completely: the Spec is defined (`some`) exactly on the
histories in which `fork()` never returns the pid of a still un-reaped worker (`runFresh`), and there its whole
event trace (forks with task ids, waits, log records) and its outcome are those of the model.
Proof: simulation relation `Rel` between the `children` dict and the slot array (Refine.lean). -/
theorem refines_slot_spec (n budget : Nat) (forks : List Nat) (waits : List (Nat × Nat)) (hw : NoStopped waits) :
    Spec.run n budget forks waits =
      if runFresh n budget forks waits = true then some (run n budget forks waits) else none :=
  sim_run n budget forks waits hw

/-- the form used by the oracle: whenever the Spec gives an answer, the model's trace and outcome are that answer -/
theorem refines_slot_spec_some (n budget : Nat) (forks : List Nat) (waits : List (Nat × Nat)) (hw : NoStopped waits)
    (r : List Ev × Outcome) (h : Spec.run n budget forks waits = some r) : run n budget forks waits = r := by
  rw [refines_slot_spec n budget forks waits hw] at h
  split at h
  · exact Option.some.inj h
  · cases h

/-- the Spec's domain is exactly the environment assumption of the other theorems -/
theorem spec_defined_iff_fresh (n budget : Nat) (forks : List Nat) (waits : List (Nat × Nat)) (hw : NoStopped waits) :
    (Spec.run n budget forks waits).isSome = runFresh n budget forks waits := by
  rw [refines_slot_spec n budget forks waits hw]
  cases runFresh n budget forks waits <;> simp

-- non-vacuity: a history with a signal death, a non-zero exit, an unknown pid and a restart; Spec defined
example : NoStopped [(7, 9), (99, 256), (8, 256), (9, 0), (10, 0)] := by decide
example : runFresh 2 3 [7, 8, 9, 10] [(7, 9), (99, 256), (8, 256), (9, 0), (10, 0)] = true ∧
    (run 2 3 [7, 8, 9, 10] [(7, 9), (99, 256), (8, 256), (9, 0), (10, 0)]).2 = .exit0 := by decide
-- … and one where the scripted OS reuses a live pid: Spec undefined, `runFresh` false
example : Spec.run 2 3 [7, 8, 8] [(7, 9)] = none ∧ runFresh 2 3 [7, 8, 8] [(7, 9)] = false := by decide

/-- the refinement without the side condition on statuses -/
def refines_slot_spec_full : Prop :=
  ∀ (n budget : Nat) (forks : List Nat) (waits : List (Nat × Nat)) (r : List Ev × Outcome),
    Spec.run n budget forks waits = some r → run n budget forks waits = r

/-- … is false: on the "stopped" status 0x007f the code's test (`WIFSIGNALED` false, `WEXITSTATUS` = 0 → "exited
normally") and the Spec's POSIX reading (`other`: not a normal exit → restart) differ.  `os.wait()` without
`WUNTRACED` never returns such a status, so this is a modelling boundary, not a defect of `fork_processes`. -/
theorem refines_slot_spec_refuted : ¬ refines_slot_spec_full := by
  intro h
  have := h 1 1 [7, 8] [(7, 127)] _ rfl
  revert this
  decide

end TornadoModel.C41
