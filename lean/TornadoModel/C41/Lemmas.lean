/- C41 helper lemmas: the `children` association list and event counting. -/
import TornadoModel.C41.Spec
namespace TornadoModel.C41

theorem keys_erase (c : Children) (p : Nat) : keys (erase c p) = (keys c).filter (fun k => k != p) := by
  induction c with
  | nil => rfl
  | cons e c ih =>
    simp only [erase, keys, List.filter_cons, List.map_cons] at *
    by_cases h : e.1 = p <;> simp [h, ih]

theorem not_mem_keys_erase (c : Children) (p : Nat) : p ∉ keys (erase c p) := by
  rw [keys_erase]; simp

theorem vals_erase_sublist (c : Children) (p : Nat) : (vals (erase c p)).Sublist (vals c) := by
  unfold vals erase
  exact List.Sublist.map _ List.filter_sublist

theorem keys_erase_sublist (c : Children) (p : Nat) : (keys (erase c p)).Sublist (keys c) := by
  unfold keys erase
  exact List.Sublist.map _ List.filter_sublist

theorem erase_of_not_mem (c : Children) (p : Nat) (h : p ∉ keys c) : erase c p = c := by
  induction c with
  | nil => rfl
  | cons e c ih =>
    simp only [keys, List.map_cons, List.mem_cons, not_or] at h
    have h1 : e.1 ≠ p := fun x => h.1 x.symm
    simp only [erase, List.filter_cons, bne_iff_ne, ne_eq, h1, not_false_eq_true, ↓reduceIte]
    congr 1
    exact ih h.2

theorem lookup_mem_vals {c : Children} {p i : Nat} (h : lookup c p = some i) : i ∈ vals c := by
  induction c with
  | nil => simp [lookup] at h
  | cons e c ih =>
    simp only [lookup, List.find?_cons] at h
    by_cases he : e.1 == p
    · simp only [he, Option.map_some, Option.some.injEq] at h
      simp [vals, h]
    · simp only [he] at h
      have := ih (by simpa [lookup] using h)
      simp only [vals, List.map_cons, List.mem_cons] at *
      exact Or.inr this

theorem lookup_none_not_mem {c : Children} {p : Nat} (h : lookup c p = none) : p ∉ keys c := by
  induction c with
  | nil => simp [keys]
  | cons e c ih =>
    simp only [lookup, List.find?_cons] at h
    by_cases he : e.1 == p
    · simp [he] at h
    · simp only [he] at h
      have := ih (by simpa [lookup] using h)
      simp only [keys, List.map_cons, List.mem_cons, not_or] at *
      exact ⟨fun x => he (by simp [x]), this⟩

/-- the id of a reaped worker is gone from the dict afterwards (needs only distinct ids) -/
theorem lookup_not_mem_vals_erase {c : Children} {p i : Nat} (hv : (vals c).Nodup) (h : lookup c p = some i) :
    i ∉ vals (erase c p) := by
  induction c with
  | nil => simp [lookup] at h
  | cons e c ih =>
    simp only [vals, List.map_cons, List.nodup_cons] at hv
    simp only [lookup, List.find?_cons] at h
    by_cases he : e.1 == p
    · simp only [he, Option.map_some, Option.some.injEq] at h
      have hne : (e.1 != p) = false := by simp [beq_iff_eq.mp he]
      simp only [erase, List.filter_cons, hne]
      intro hm
      have := (vals_erase_sublist c p).subset hm
      exact hv.1 (by simpa [vals, h] using this)
    · simp only [he] at h
      have hl : lookup c p = some i := by simpa [lookup] using h
      have hne : (e.1 != p) = true := by simpa [bne] using he
      simp only [erase, List.filter_cons, hne, ↓reduceIte, vals, List.map_cons, List.mem_cons, not_or]
      refine ⟨?_, ih hv.2 hl⟩
      intro hie
      have := lookup_mem_vals hl
      exact hv.1 (by simpa [vals, hie] using this)

/-- with distinct pids, reaping `p` removes exactly the entry of `p`: every other id stays -/
theorem mem_vals_erase_of_ne {c : Children} {p i j : Nat} (hk : (keys c).Nodup) (h : lookup c p = some i)
    (hj : j ∈ vals c) (hne : j ≠ i) : j ∈ vals (erase c p) := by
  induction c with
  | nil => simp [vals] at hj
  | cons e c ih =>
    simp only [keys, List.map_cons, List.nodup_cons] at hk
    simp only [lookup, List.find?_cons] at h
    simp only [vals, List.map_cons, List.mem_cons] at hj
    by_cases he : e.1 == p
    · simp only [he, Option.map_some, Option.some.injEq] at h
      have hp : p ∉ keys c := by simpa [keys, beq_iff_eq.mp he] using hk.1
      have hne' : (e.1 != p) = false := by simp [beq_iff_eq.mp he]
      simp only [erase, List.filter_cons, hne']
      have : erase c p = c := erase_of_not_mem c p hp
      simp only [erase] at this
      rw [this]
      rcases hj with hj | hj
      · exact absurd (hj.trans h) hne
      · simpa [vals] using hj
    · simp only [he] at h
      have hl : lookup c p = some i := by simpa [lookup] using h
      have hne' : (e.1 != p) = true := by simpa [bne] using he
      simp only [erase, List.filter_cons, hne', ↓reduceIte, vals, List.map_cons, List.mem_cons]
      rcases hj with hj | hj
      · exact Or.inl hj
      · exact Or.inr (ih hk.2 hl (by simpa [vals] using hj))

/-! ### events -/
def forksOf (evs : List Ev) : List (Nat × Nat) :=
  evs.filterMap fun e => match e with | .fork i p => some (i, p) | _ => none

def logsOf (i : Nat) (evs : List Ev) : List Kind :=
  evs.filterMap fun e => match e with | .log k id _ _ => if id = i then some k else none | _ => none

/-- kind of the last exit the supervisor recorded for task `i` -/
def lastExit (i : Nat) (evs : List Ev) : Option Kind := (logsOf i evs).getLast?

/-- number of abnormal exits of known workers recorded in the trace -/
def abnCount (evs : List Ev) : Nat :=
  (evs.filter fun e => match e with | .log k _ _ _ => k != .normal | _ => false).length

theorem logsOf_append (i : Nat) (a b : List Ev) : logsOf i (a ++ b) = logsOf i a ++ logsOf i b := by
  simp [logsOf, List.filterMap_append]

theorem abnCount_append (a b : List Ev) : abnCount (a ++ b) = abnCount a + abnCount b := by
  simp [abnCount, List.filter_append]

theorem lastExit_append (i : Nat) (a b : List Ev) :
    lastExit i (a ++ b) = (lastExit i b).or (lastExit i a) := by
  simp [lastExit, logsOf_append, List.getLast?_append]

end TornadoModel.C41
