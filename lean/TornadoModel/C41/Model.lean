/-
C41 — model of `tornado.process.fork_processes` (the supervisor side and the child side).

The operating system is an input: `forks` is the list of results of successive `os.fork()` calls
(`0` = "we are the child", otherwise the pid of the new child as seen by the parent), `waits` is the list
of results `(pid, status)` of successive `os.wait()` calls.  When a list runs dry the run ends with
`starved` (the harness stub raises a private exception there).

  children = {}                              -- dict pid -> task id
  for i in range(n): start_child(i)          -- fork; child returns i; parent: children[pid] = i
  while children:
      pid, status = os.wait()
      if pid not in children: continue
      id = children.pop(pid)
      if WIFSIGNALED(status): log warning    elif WEXITSTATUS(status) != 0: log warning
      else: log info; continue
      num_restarts += 1
      if num_restarts > max_restarts: raise RuntimeError
      start_child(id)
  sys.exit(0)
-/
namespace TornadoModel.C41

/-! ### wait-status decoding (Linux `WIFSIGNALED / WTERMSIG / WEXITSTATUS / WIFEXITED`) -/
def termSig (st : Nat) : Nat := st % 128
def ifSignaled (st : Nat) : Bool := termSig st != 0 && termSig st != 127
def exitStatus (st : Nat) : Nat := (st / 256) % 256
def ifExited (st : Nat) : Bool := termSig st == 0

inductive Kind | signal | status | normal
  deriving DecidableEq, Repr

/-- what `fork_processes` does with a status: `(kind, value logged)` -/
def classify (st : Nat) : Kind × Nat :=
  if ifSignaled st then (.signal, termSig st)
  else if exitStatus st != 0 then (.status, exitStatus st)
  else (.normal, 0)

def abnormal (st : Nat) : Bool := (classify st).1 != .normal

/-! ### the `children` dict: association list pid ↦ id (iteration order is never observed) -/
abbrev Children := List (Nat × Nat)

def lookup (c : Children) (pid : Nat) : Option Nat := (c.find? (fun e => e.1 == pid)).map (·.2)
def erase (c : Children) (pid : Nat) : Children := c.filter (fun e => e.1 != pid)
def set (c : Children) (pid id : Nat) : Children := (pid, id) :: erase c pid
def keys (c : Children) : List Nat := c.map (·.1)
def vals (c : Children) : List Nat := c.map (·.2)

/-- observable events.  `fork id pid`: `start_child(id)` called `os.fork()` which returned `pid`;
`wait pid st`: `os.wait()` returned; `log k id pid v`: the log record emitted for a reaped worker. -/
inductive Ev
  | fork (id pid : Nat)
  | wait (pid st : Nat)
  | log (k : Kind) (id pid v : Nat)
  deriving DecidableEq, Repr

inductive Outcome
  | child (id : Nat)      -- returned `id` in a child process (and `task_id()` = id)
  | exit0                 -- `sys.exit(0)` in the parent
  | tooMany               -- RuntimeError("Too many child restarts, giving up")
  | starved               -- the scripted OS ran out of answers
  deriving DecidableEq, Repr

structure St where
  ch : Children
  restarts : Nat
  forks : List Nat
  deriving Repr

inductive Step
  | cont (s : St) (evs : List Ev)
  | stop (o : Outcome) (evs : List Ev)

/-- `start_child(id)` with the dict `ch`: consumes one fork result. -/
def startChild (s : St) (id : Nat) (pre : List Ev) : Step :=
  match s.forks with
  | [] => .stop .starved pre
  | p :: fk =>
    if p = 0 then .stop (.child id) (pre ++ [.fork id 0])
    else .cont { s with ch := set s.ch p id, forks := fk } (pre ++ [.fork id p])

/-- the initial `for i in range(n)` loop, over the list of ids still to start -/
def initial : List Nat → St → List Ev × (Outcome ⊕ St)
  | [], s => ([], .inr s)
  | i :: is, s =>
    match startChild s i [] with
    | .stop o evs => (evs, .inl o)
    | .cont s' evs => let r := initial is s'; (evs ++ r.1, r.2)

/-- one iteration of `while children:` after `os.wait()` returned `(pid, st)` -/
def step (budget : Nat) (s : St) (w : Nat × Nat) : Step :=
  match lookup s.ch w.1 with
  | none => .cont s [.wait w.1 w.2]
  | some id =>
    let s1 := { s with ch := erase s.ch w.1 }
    let c := classify w.2
    let pre := [Ev.wait w.1 w.2, .log c.1 id w.1 c.2]
    if c.1 = .normal then .cont s1 pre
    else if s.restarts + 1 > budget then .stop .tooMany pre
    else startChild { s1 with restarts := s.restarts + 1 } id pre

def loop (budget : Nat) : St → List (Nat × Nat) → List Ev × Outcome × St
  | s, ws =>
    if s.ch.isEmpty then ([], .exit0, s)
    else match ws with
      | [] => ([], .starved, s)
      | w :: ws' =>
        match step budget s w with
        | .stop o evs => (evs, o, s)
        | .cont s' evs => let r := loop budget s' ws'; (evs ++ r.1, r.2)

/-- `num_processes is None or <= 0` → `cpu_count()`; `max_restarts is None` → 100 -/
def effN (num : Option Int) (cpus : Nat) : Nat :=
  match num with
  | none => cpus
  | some k => if k ≤ 0 then cpus else k.toNat

def effBudget (b : Option Nat) : Nat := b.getD 100

def run (n budget : Nat) (forks : List Nat) (waits : List (Nat × Nat)) : List Ev × Outcome :=
  match initial (List.range n) { ch := [], restarts := 0, forks := forks } with
  | (evs, .inl o) => (evs, o)
  | (evs, .inr s) => let r := loop budget s waits; (evs ++ r.1, r.2.1)

/-- Environment assumption used by the theorems: a pid handed out by `fork()` is not the pid of a worker
that is still un-reaped (the kernel never reuses the pid of a live or zombie child). Checked along the run. -/
def freshFork (s : St) : Bool :=
  match s.forks with
  | [] => true
  | p :: _ => !(keys s.ch).contains p

def stepFresh (budget : Nat) (s : St) (w : Nat × Nat) : Bool :=
  match lookup s.ch w.1 with
  | none => true
  | some _ => if abnormal w.2 && s.restarts + 1 ≤ budget then freshFork { s with ch := erase s.ch w.1 } else true

def loopFresh (budget : Nat) : St → List (Nat × Nat) → Bool
  | s, ws =>
    if s.ch.isEmpty then true
    else match ws with
      | [] => true
      | w :: ws' =>
        stepFresh budget s w &&
        match step budget s w with
        | .stop _ _ => true
        | .cont s' _ => loopFresh budget s' ws'

def initialFresh : List Nat → St → Bool
  | [], _ => true
  | i :: is, s =>
    freshFork s &&
    match startChild s i [] with
    | .stop _ _ => true
    | .cont s' _ => initialFresh is s'

def runFresh (n budget : Nat) (forks : List Nat) (waits : List (Nat × Nat)) : Bool :=
  let s0 : St := { ch := [], restarts := 0, forks := forks }
  initialFresh (List.range n) s0 &&
  match initial (List.range n) s0 with
  | (_, .inl _) => true
  | (_, .inr s) => loopFresh budget s waits

end TornadoModel.C41
