/- C41 driver:
   `C41 run  <n> <budget> [fork…] [[pid,st],…]` → `ok [ev,…] outcome fresh`
   `C41 spec <n> <budget> [fork…] [[pid,st],…]` → `ok [ev,…] outcome` | `ok ~`
   `C41 classify <st>` → `ok kind v`      `C41 effn <num|~> <cpus>` → `ok n`   `C41 effb <b|~>` → `ok b` -/
import TornadoModel.Base.Wire
import TornadoModel.C41.Spec
namespace TornadoModel.C41.Drv
open TornadoModel TornadoModel.Wire TornadoModel.C41

def encKind : Kind → V
  | .signal => .atom "signal" | .status => .atom "status" | .normal => .atom "normal"

def encEv : Ev → V
  | .fork i p => .list [.atom "F", .int i, .int p]
  | .wait p s => .list [.atom "W", .int p, .int s]
  | .log k i p v => .list [.atom "L", encKind k, .int i, .int p, .int v]

def encOut : Outcome → V
  | .child i => .list [.atom "child", .int i]
  | .exit0 => .list [.atom "exit", .int 0]
  | .tooMany => .list [.atom "RuntimeError"]
  | .starved => .list [.atom "starved"]

def decPair (v : V) : Option (Nat × Nat) := do
  match ← v.list? with
  | [a, b] => pure (← a.nat?, ← b.nat?)
  | _ => none

def handle (toks : List String) : String :=
  match toks.mapM V.parse with
  | none => err "bad-arg"
  | some args =>
    match args with
    | [.atom "run", n, b, fk, ws] =>
      match n.nat?, b.nat?, fk.list? >>= (·.mapM V.nat?), ws.list? >>= (·.mapM decPair) with
      | some n, some b, some fk, some ws =>
        let r := run n b fk ws
        ok [.list (r.1.map encEv), encOut r.2, V.ofBool (runFresh n b fk ws)]
      | _, _, _, _ => err "bad-arg"
    | [.atom "spec", n, b, fk, ws] =>
      match n.nat?, b.nat?, fk.list? >>= (·.mapM V.nat?), ws.list? >>= (·.mapM decPair) with
      | some n, some b, some fk, some ws =>
        match Spec.run n b fk ws with
        | none => ok [.none]
        | some r => ok [.list (r.1.map encEv), encOut r.2]
      | _, _, _, _ => err "bad-arg"
    | [.atom "classify", st] =>
      match st.nat? with
      | some st => ok [encKind (classify st).1, .int (classify st).2, V.ofBool (Spec.isNormal st)]
      | none => err "bad-arg"
    | [.atom "effn", num, cpus] =>
      match cpus.nat? with
      | some c => if num.isNone then ok [.int (effN none c)] else
        match num.int? with
        | some k => ok [.int (effN (some k) c)]
        | none => err "bad-arg"
      | none => err "bad-arg"
    | [.atom "effb", b] =>
      if b.isNone then ok [.int (effBudget none)] else
      match b.nat? with
      | some k => ok [.int (effBudget (some k))]
      | none => err "bad-arg"
    | _ => err "bad-cmd"

end TornadoModel.C41.Drv
