/-
C41 — specification side: the supervisor the property statement describes, written over *task slots*.

`slots[i]` is the pid of the worker currently running task `i` (or `none` once that worker has exited
normally).  Ids are positions, so "ids are distinct and within 0..n-1" and "restarted with the same id" hold by
construction.  `run` answers `none` when the scripted OS hands out the pid of a still-live worker (the kernel
never does; the property says nothing there).
-/
import TornadoModel.C41.Model
namespace TornadoModel.C41.Spec
open TornadoModel.C41

abbrev Slots := List (Option Nat)

inductive Status | signalled (sig : Nat) | exited (code : Nat) | other
  deriving DecidableEq, Repr

/-- POSIX reading of a 16-bit wait status -/
def decode (st : Nat) : Status :=
  let low := st % 128
  if low = 0 then .exited ((st / 256) % 256)
  else if low = 127 then .other          -- stopped / continued: never returned by wait() without options
  else .signalled low

/-- a worker "exited normally" iff it called exit(0) -/
def isNormal (st : Nat) : Bool := decode st == .exited 0

def slotOf (sl : Slots) (pid : Nat) : Option Nat := sl.findIdx? (fun x => x == some pid)
def live (sl : Slots) (pid : Nat) : Bool := sl.contains (some pid)
def allDone (sl : Slots) : Bool := sl.all (·.isNone)

def logOf (st : Nat) : Kind × Nat :=
  match decode st with
  | .signalled s => (.signal, s)
  | .exited 0 => (.normal, 0)
  | .exited c => (.status, c)
  | .other => (.status, (st / 256) % 256)

/-- start task `i`: one fork -/
def start (sl : Slots) (i : Nat) (forks : List Nat) : Option (Ev × (Outcome ⊕ (Slots × List Nat))) :=
  match forks with
  | [] => none
  | p :: fk =>
    if p = 0 then some (.fork i 0, .inl (.child i))
    else if live sl p then none
    else some (.fork i p, .inr (sl.set i (some p), fk))

/-- result: `none` = OS assumption violated; `some (events, outcome)` -/
def supervise (budget : Nat) : List (Nat × Nat) → Slots → Nat → List Nat → Option (List Ev × Outcome)
  | ws, sl, r, fk =>
    if allDone sl then some ([], .exit0)
    else match ws with
      | [] => some ([], .starved)
      | (pid, st) :: ws' =>
        match slotOf sl pid with
        | none => (supervise budget ws' sl r fk).map fun (t, o) => (.wait pid st :: t, o)
        | some i =>
          let l := logOf st
          let pre := [Ev.wait pid st, .log l.1 i pid l.2]
          if isNormal st then
            (supervise budget ws' (sl.set i none) r fk).map fun (t, o) => (pre ++ t, o)
          else if r ≥ budget then some (pre, .tooMany)
          else match fk with
            | [] => some (pre, .starved)
            | _ :: _ =>
              match start (sl.set i none) i fk with
              | none => none
              | some (e, .inl o) => some (pre ++ [e], o)
              | some (e, .inr (sl', fk')) =>
                (supervise budget ws' sl' (r + 1) fk').map fun (t, o) => (pre ++ e :: t, o)

def spawnAll : List Nat → Slots → List Nat → Option (List Ev × (Outcome ⊕ (Slots × List Nat)))
  | [], sl, fk => some ([], .inr (sl, fk))
  | i :: is, sl, fk =>
    match fk with
    | [] => some ([], .inl .starved)
    | _ :: _ =>
      match start sl i fk with
      | none => none
      | some (e, .inl o) => some ([e], .inl o)
      | some (e, .inr (sl', fk')) => (spawnAll is sl' fk').map fun (t, r) => (e :: t, r)

def run (n budget : Nat) (forks : List Nat) (waits : List (Nat × Nat)) : Option (List Ev × Outcome) :=
  match spawnAll (List.range n) (List.replicate n none) forks with
  | none => none
  | some (t, .inl o) => some (t, o)
  | some (t, .inr (sl, fk)) => (supervise budget waits sl 0 fk).map fun (t', o) => (t ++ t', o)

end TornadoModel.C41.Spec
