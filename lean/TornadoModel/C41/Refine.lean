/- C41 — refinement lemmas: the supervisor Model (association list pid ↦ id) simulates the slot Spec
(`slots[i]` = pid of the worker running task `i`).  The simulation relation is `Rel`. -/
import TornadoModel.C41.Spec
set_option linter.unusedSimpArgs false
namespace TornadoModel.C41
open Spec

/-! ### the dict operations through `lookup` -/
theorem lookup_cons (e : Nat × Nat) (c : Children) (q : Nat) :
    lookup (e :: c) q = if e.1 = q then some e.2 else lookup c q := by
  simp only [lookup, List.find?_cons]
  by_cases h : e.1 = q
  · simp [h]
  · have hb : (e.1 == q) = false := by simp [h]
    simp [h, hb]

theorem erase_cons (e : Nat × Nat) (c : Children) (p : Nat) :
    erase (e :: c) p = if e.1 = p then erase c p else e :: erase c p := by
  simp only [erase, List.filter_cons]
  by_cases h : e.1 = p <;> simp [h]

theorem lookup_erase (c : Children) (p q : Nat) :
    lookup (erase c p) q = if q = p then none else lookup c q := by
  induction c with
  | nil => simp [lookup, erase]
  | cons e c ih =>
    rw [erase_cons, lookup_cons]
    by_cases hep : e.1 = p
    · simp only [hep, ↓reduceIte, ih]
      by_cases hq : q = p
      · simp [hq]
      · have hq' : ¬ p = q := fun x => hq x.symm
        simp [hq, hq']
    · simp only [hep, ↓reduceIte, lookup_cons, ih]
      by_cases heq : e.1 = q
      · have hq : ¬ q = p := fun x => hep (heq.trans x)
        simp [heq, hq]
      · simp [heq]

theorem lookup_set (c : Children) (p i q : Nat) :
    lookup (set c p i) q = if q = p then some i else lookup c q := by
  simp only [set, lookup_cons, lookup_erase]
  by_cases hq : q = p
  · simp [hq]
  · have hq' : ¬ p = q := fun x => hq x.symm
    simp [hq, hq']

theorem contains_keys (c : Children) (p : Nat) : (keys c).contains p = (lookup c p).isSome := by
  induction c with
  | nil => simp [keys, lookup]
  | cons e c ih =>
    have hk : keys (e :: c) = e.1 :: keys c := rfl
    rw [hk, List.contains_cons, ih, lookup_cons]
    by_cases he : e.1 = p
    · simp [he]
    · have he' : ¬ p = e.1 := fun x => he x.symm
      simp [he, he']

theorem isEmpty_iff_lookup (c : Children) : c.isEmpty = true ↔ ∀ p, lookup c p = none := by
  cases c with
  | nil => simp [lookup]
  | cons e c =>
    simp only [List.isEmpty_cons, Bool.false_eq_true, false_iff]
    intro h
    have := h e.1
    simp [lookup_cons] at this
/-! ### the simulation relation -/

/-- `ch` (the model's dict) and `sl` (the spec's slots) describe the same set of live workers:
task `i` is run by pid `p` in one iff it is in the other; pid 0 is never a worker. -/
def Rel (ch : Children) (sl : Slots) : Prop :=
  lookup ch 0 = none ∧ ∀ p i, sl[i]? = some (some p) ↔ lookup ch p = some i

theorem Rel.slotOf {ch : Children} {sl : Slots} (h : Rel ch sl) (p : Nat) : slotOf sl p = lookup ch p := by
  unfold Spec.slotOf
  cases hl : lookup ch p with
  | none =>
    rw [List.findIdx?_eq_none_iff]
    intro x hx
    obtain ⟨i, hi⟩ := List.mem_iff_getElem?.mp hx
    cases x with
    | none => rfl
    | some q =>
      by_cases hq : q = p
      · subst hq
        have := (h.2 q i).mp hi
        rw [hl] at this
        cases this
      · simp [hq]
  | some i =>
    have hi := (h.2 p i).mpr hl
    rw [List.findIdx?_eq_some_iff_getElem]
    have hlt : i < sl.length := by
      rcases Nat.lt_or_ge i sl.length with h1 | h1
      · exact h1
      · rw [List.getElem?_eq_none h1] at hi
        cases hi
    refine ⟨hlt, ?_, ?_⟩
    · rw [List.getElem?_eq_getElem hlt] at hi
      simp only [Option.some.injEq] at hi
      simp [hi]
    · intro j hji hj
      have hjl : j < sl.length := Nat.lt_trans hji hlt
      have hj' : sl[j]? = some (some p) := by
        rw [List.getElem?_eq_getElem hjl]
        simp only [beq_iff_eq] at hj
        rw [hj]
      have := (h.2 p j).mp hj'
      rw [hl] at this
      simp only [Option.some.injEq] at this
      omega

theorem Rel.live {ch : Children} {sl : Slots} (h : Rel ch sl) (p : Nat) : live sl p = (lookup ch p).isSome := by
  unfold Spec.live
  cases hl : lookup ch p with
  | none =>
    simp only [Option.isSome_none]
    cases hc : sl.contains (some p) with
    | false => rfl
    | true =>
      obtain ⟨i, hi⟩ := List.mem_iff_getElem?.mp (List.contains_iff_mem.mp hc)
      have := (h.2 p i).mp hi
      rw [hl] at this
      cases this
  | some i =>
    have hi := (h.2 p i).mpr hl
    simp only [Option.isSome_some]
    exact List.contains_iff_mem.mpr (List.mem_iff_getElem?.mpr ⟨i, hi⟩)

theorem Rel.allDone {ch : Children} {sl : Slots} (h : Rel ch sl) : allDone sl = ch.isEmpty := by
  unfold Spec.allDone
  cases he : ch.isEmpty with
  | true =>
    rw [isEmpty_iff_lookup] at he
    rw [List.all_eq_true]
    intro x hx
    cases x with
    | none => rfl
    | some p =>
      obtain ⟨i, hi⟩ := List.mem_iff_getElem?.mp hx
      have := (h.2 p i).mp hi
      rw [he p] at this
      cases this
  | false =>
    cases ha : sl.all (·.isNone) with
    | false => rfl
    | true =>
      exfalso
      have hne : ¬ (ch.isEmpty = true) := by simp [he]
      apply hne
      rw [isEmpty_iff_lookup]
      intro p
      cases hl : lookup ch p with
      | none => rfl
      | some i =>
        have hi := (h.2 p i).mpr hl
        rw [List.all_eq_true] at ha
        have := ha _ (List.mem_iff_getElem?.mpr ⟨i, hi⟩)
        simp at this

theorem Rel.lt_length {ch : Children} {sl : Slots} (h : Rel ch sl) {p i : Nat} (hl : lookup ch p = some i) :
    i < sl.length := by
  have hi := (h.2 p i).mpr hl
  rcases Nat.lt_or_ge i sl.length with h1 | h1
  · exact h1
  · rw [List.getElem?_eq_none h1] at hi
    cases hi

/-- reaping worker `pid` of task `i`: dict entry dropped ~ slot `i` cleared -/
theorem Rel.erase {ch : Children} {sl : Slots} (h : Rel ch sl) {pid i : Nat} (hl : lookup ch pid = some i) :
    Rel (erase ch pid) (sl.set i none) := by
  refine ⟨?_, ?_⟩
  · rw [lookup_erase]
    split
    · rfl
    · exact h.1
  intro q j
  rw [lookup_erase, List.getElem?_set]
  have hi := (h.2 pid i).mpr hl
  by_cases hij : i = j
  · subst hij
    simp only [↓reduceIte]
    constructor
    · intro hh
      split at hh <;> cases hh
    · intro hh
      split at hh
      · cases hh
      · have := (h.2 q i).mpr hh
        rw [hi] at this
        simp only [Option.some.injEq] at this
        rename_i hne
        exact absurd this.symm hne
  · simp only [hij, ↓reduceIte]
    by_cases hq : q = pid
    · subst hq
      simp only [↓reduceIte, reduceCtorEq, iff_false]
      intro hh
      have := (h.2 q j).mp hh
      rw [hl] at this
      simp only [Option.some.injEq] at this
      exact hij this
    · simp only [hq, ↓reduceIte]
      exact h.2 q j

/-- starting a worker `p ≠ 0` (not live) for the free task `i`: dict entry added ~ slot `i` filled -/
theorem Rel.set {ch : Children} {sl : Slots} (h : Rel ch sl) {p i : Nat} (hp : p ≠ 0)
    (hfree : sl[i]? = some none) (hnl : lookup ch p = none) :
    Rel (set ch p i) (sl.set i (some p)) := by
  have hlt : i < sl.length := by
    rcases Nat.lt_or_ge i sl.length with h1 | h1
    · exact h1
    · rw [List.getElem?_eq_none h1] at hfree
      cases hfree
  have h0p : ¬ (0 = p) := fun x => hp x.symm
  refine ⟨?_, ?_⟩
  · rw [lookup_set]
    simp only [h0p, ↓reduceIte]
    exact h.1
  intro q j
  rw [lookup_set, List.getElem?_set]
  by_cases hij : i = j
  · subst hij
    simp only [↓reduceIte, hlt, Option.some.injEq]
    by_cases hq : q = p
    · simp [hq]
    · have hq' : ¬ p = q := fun x => hq x.symm
      simp only [hq', hq, ↓reduceIte, false_iff]
      intro hh
      have := (h.2 q i).mpr hh
      rw [hfree] at this
      cases this
  · simp only [hij, ↓reduceIte]
    by_cases hq : q = p
    · subst hq
      simp only [↓reduceIte, Option.some.injEq]
      constructor
      · intro hh
        have := (h.2 q j).mp hh
        rw [hnl] at this
        cases this
      · intro hh
        exact absurd hh hij
    · simp only [hq, ↓reduceIte]
      exact h.2 q j

theorem rel_init (n : Nat) : Rel [] (List.replicate n none) := by
  refine ⟨rfl, ?_⟩
  intro p i
  rw [List.getElem?_replicate]
  constructor
  · intro hh
    split at hh <;> cases hh
  · intro hh
    cases hh

/-! ### status decoding (statuses `wait()` can return: never "stopped/continued") -/
theorem classify_eq_logOf (st : Nat) (h : st % 128 ≠ 127) : classify st = logOf st := by
  unfold classify Spec.logOf Spec.decode ifSignaled termSig exitStatus
  by_cases h0 : st % 128 = 0
  · by_cases h1 : st / 256 % 256 = 0
    · simp [h0, h1]
    · simp [h0, h1]
  · simp [h0, h]

theorem normal_iff_isNormal (st : Nat) (h : st % 128 ≠ 127) : ((classify st).1 = .normal) ↔ isNormal st = true := by
  unfold classify Spec.isNormal Spec.decode ifSignaled termSig exitStatus
  by_cases h0 : st % 128 = 0
  · by_cases h1 : st / 256 % 256 = 0
    · simp [h0, h1]
    · simp [h0, h1]
  · simp [h0, h]

/-- the side condition of the refinement: no wait status is a "stopped/continued" one (low 7 bits = 127);
`os.wait()` without options never returns those -/
def NoStopped (ws : List (Nat × Nat)) : Prop := ∀ w ∈ ws, w.2 % 128 ≠ 127

instance (ws : List (Nat × Nat)) : Decidable (NoStopped ws) := by unfold NoStopped; infer_instance

/-! ### the supervisor loop -/
theorem sim_loop (budget : Nat) (ws : List (Nat × Nat)) : ∀ (s : St) (sl : Slots), Rel s.ch sl → NoStopped ws →
    supervise budget ws sl s.restarts s.forks =
      if loopFresh budget s ws = true then some ((loop budget s ws).1, (loop budget s ws).2.1) else none := by
  induction ws with
  | nil =>
    intro s sl hrel _
    rw [supervise, loop, loopFresh, hrel.allDone]
    cases s.ch.isEmpty <;> simp
  | cons w ws ih =>
    intro s sl hrel hw
    obtain ⟨pid, st⟩ := w
    have hst : st % 128 ≠ 127 := hw (pid, st) (List.mem_cons_self ..)
    have hw' : NoStopped ws := fun x hx => hw x (List.mem_cons_of_mem _ hx)
    rw [supervise, loop, loopFresh, hrel.allDone]
    cases he : s.ch.isEmpty with
    | true => simp
    | false =>
      simp only [Bool.false_eq_true, ↓reduceIte, hrel.slotOf, step, stepFresh]
      cases hl : lookup s.ch pid with
      | none =>
        have := ih s sl hrel hw'
        simp only [this, Bool.true_and]
        cases loopFresh budget s ws <;> simp
      | some i =>
        simp only [classify_eq_logOf st hst]
        have hrel1 := hrel.erase hl
        by_cases hn : isNormal st = true
        · have hn' : (logOf st).1 = .normal := by
            rw [← classify_eq_logOf st hst]; exact (normal_iff_isNormal st hst).mpr hn
          have hab : abnormal st = false := by
            simp [abnormal, classify_eq_logOf st hst, hn']
          have := ih { s with ch := erase s.ch pid } (sl.set i none) hrel1 hw'
          simp only at this
          simp only [hn, hn', ↓reduceIte, this, hab, Bool.false_and, Bool.false_eq_true, Bool.true_and]
          cases loopFresh budget { s with ch := erase s.ch pid } ws <;> simp
        · have hn' : ¬ (logOf st).1 = .normal := by
            rw [← classify_eq_logOf st hst]; exact fun x => hn ((normal_iff_isNormal st hst).mp x)
          have hab : abnormal st = true := by
            simp [abnormal, classify_eq_logOf st hst, hn']
          simp only [hn, hn', Bool.false_eq_true, ↓reduceIte, hab, Bool.true_and]
          by_cases hb : s.restarts ≥ budget
          · have hb1 : s.restarts + 1 > budget := by omega
            have hb2 : ¬ s.restarts + 1 ≤ budget := by omega
            simp [hb, hb1, hb2]
          · have hb1 : ¬ s.restarts + 1 > budget := by omega
            have hb2 : s.restarts + 1 ≤ budget := by omega
            simp only [hb, hb1, hb2, ↓reduceIte, decide_true, startChild, freshFork]
            cases hf : s.forks with
            | nil => simp
            | cons p fk =>
              simp only [start]
              by_cases hp : p = 0
              · subst hp
                have h0 : (keys (erase s.ch pid)).contains 0 = false := by
                  rw [contains_keys, hrel1.1]; rfl
                have h0' : 0 ∉ keys (erase s.ch pid) := by simpa using h0
                simp [h0, h0']
              · have hlive := hrel1.live p
                have hck := contains_keys (erase s.ch pid) p
                cases hlp : lookup (erase s.ch pid) p with
                | some j =>
                  rw [hlp] at hlive hck
                  simp only [Option.isSome_some] at hlive hck
                  have hck' : p ∈ keys (erase s.ch pid) := by simpa using hck
                  simp [hp, hlive, hck, hck']
                | none =>
                  rw [hlp] at hlive hck
                  simp only [Option.isSome_none] at hlive hck
                  have hfree : (sl.set i none)[i]? = some none := by
                    rw [List.getElem?_set]; simp [hrel.lt_length hl]
                  have hrel2 := hrel1.set hp hfree hlp
                  rw [List.set_set] at hrel2
                  have := ih { ch := set (erase s.ch pid) p i, restarts := s.restarts + 1, forks := fk }
                    (sl.set i (some p)) hrel2 hw'
                  simp only at this
                  simp only [hp, ↓reduceIte, hlive, Bool.false_eq_true, List.set_set, this, hck, Bool.not_false,
                    Bool.true_and]
                  cases loopFresh budget { ch := set (erase s.ch pid) p i, restarts := s.restarts + 1, forks := fk } ws <;>
                    simp

/-! ### the initial `for i in range(n)` loop -/
theorem sim_initial (is : List Nat) : ∀ (ch : Children) (r : Nat) (fks : List Nat) (sl : Slots), Rel ch sl → is.Nodup →
    (∀ i ∈ is, sl[i]? = some none) →
    if initialFresh is { ch := ch, restarts := r, forks := fks } = true then
      match initial is { ch := ch, restarts := r, forks := fks } with
      | (evs, .inl o) => spawnAll is sl fks = some (evs, .inl o)
      | (evs, .inr s') => ∃ sl', spawnAll is sl fks = some (evs, .inr (sl', s'.forks)) ∧ Rel s'.ch sl' ∧
          s'.restarts = r
    else spawnAll is sl fks = none := by
  induction is with
  | nil =>
    intro ch r fks sl hrel _ _
    simp only [initialFresh, initial, spawnAll, ↓reduceIte]
    exact ⟨sl, rfl, hrel, trivial⟩
  | cons i is ih =>
    intro ch r fks sl hrel hnd hfree
    cases fks with
    | nil => simp [initialFresh, initial, spawnAll, startChild, freshFork]
    | cons p fk =>
      simp only [initialFresh, initial, spawnAll, startChild, freshFork, start]
      by_cases hp : p = 0
      · subst hp
        have h0 : (keys ch).contains 0 = false := by rw [contains_keys, hrel.1]; rfl
        have h0' : 0 ∉ keys ch := by simpa using h0
        simp [h0, h0']
      · have hlive := hrel.live p
        have hck := contains_keys ch p
        cases hlp : lookup ch p with
        | some j =>
          rw [hlp] at hlive hck
          simp only [Option.isSome_some] at hlive hck
          have hck' : p ∈ keys ch := by simpa using hck
          simp [hp, hlive, hck, hck']
        | none =>
          rw [hlp] at hlive hck
          simp only [Option.isSome_none] at hlive hck
          have hi : sl[i]? = some none := hfree i (List.mem_cons_self ..)
          have hrel2 := hrel.set hp hi hlp
          have hnd' := (List.nodup_cons.mp hnd)
          have hfree' : ∀ j ∈ is, (sl.set i (some p))[j]? = some none := by
            intro j hj
            have hij : i ≠ j := fun x => hnd'.1 (x ▸ hj)
            rw [List.getElem?_set]
            simp only [hij, ↓reduceIte]
            exact hfree j (List.mem_cons_of_mem _ hj)
          have := ih (set ch p i) r fk (sl.set i (some p)) hrel2 hnd'.2 hfree'
          simp only [hp, ↓reduceIte, hlive, Bool.false_eq_true, hck, Bool.not_false, Bool.true_and, List.nil_append]
          cases hfr : initialFresh is { ch := set ch p i, restarts := r, forks := fk } with
          | false =>
            simp only [hfr, Bool.false_eq_true, ↓reduceIte] at this ⊢
            simp [this]
          | true =>
            simp only [hfr, ↓reduceIte] at this ⊢
            rcases hini : initial is { ch := set ch p i, restarts := r, forks := fk } with ⟨evs, o | s'⟩
            · rw [hini] at this
              simp only at this ⊢
              simp [this]
            · rw [hini] at this
              simp only at this ⊢
              obtain ⟨sl', h1, h2, h3⟩ := this
              exact ⟨sl', by simp [h1], h2, h3⟩

/-! ### the whole function -/
theorem sim_run (n budget : Nat) (forks : List Nat) (waits : List (Nat × Nat)) (hw : NoStopped waits) :
    Spec.run n budget forks waits =
      if runFresh n budget forks waits = true then some (run n budget forks waits) else none := by
  have hfree : ∀ i ∈ List.range n, (List.replicate n (none : Option Nat))[i]? = some none := by
    intro i hi
    rw [List.getElem?_replicate]
    simp [List.mem_range.mp hi]
  have h := sim_initial (List.range n) [] 0 forks (List.replicate n none) (rel_init n) List.nodup_range hfree
  unfold Spec.run run runFresh
  cases hif : initialFresh (List.range n) { ch := [], restarts := 0, forks := forks } with
  | false =>
    simp only [hif, Bool.false_eq_true, ↓reduceIte] at h
    simp [h, hif]
  | true =>
    simp only [hif, ↓reduceIte] at h
    rcases hini : initial (List.range n) { ch := [], restarts := 0, forks := forks } with ⟨evs, o | s'⟩
    · rw [hini] at h
      simp only at h
      simp [h, hif, hini]
    · rw [hini] at h
      simp only at h
      obtain ⟨sl', h1, h2, h3⟩ := h
      have hl := sim_loop budget waits s' sl' h2 hw
      rw [h3] at hl
      simp only [h1, hl, hif, hini, Bool.true_and]
      cases loopFresh budget s' waits <;> simp

end TornadoModel.C41
