/- C43 — helper lemmas -/
import TornadoModel.C43.Spec
namespace TornadoModel.C43
open TornadoModel.C06 (Str isToken)

theorem special_not_alnum (c : Nat) (h : isSpecial c = true) : isAlnum c = false := by
  simp only [isSpecial, List.contains_cons, List.contains_nil, Bool.or_false, Bool.or_eq_true, beq_iff_eq] at h
  simp only [isAlnum, isDigit]
  rcases h with h | h | h | h | h | h | h | h | h | h | h | h | h | h | h | h | h | h | h | h | h | h | h | h <;>
    subst h <;> decide

theorem reUnescape_reEscape (s : Str) : reUnescape (reEscape s) = .ok s := by
  induction s with
  | nil => rfl
  | cons c cs ih =>
    have hcons : reEscape (c :: cs) = (if isSpecial c then [92, c] else [c]) ++ reEscape cs := by
      simp [reEscape, List.flatMap_cons]
    rw [hcons]
    by_cases hs : isSpecial c = true
    · have hna := special_not_alnum c hs
      simp only [hs, if_true, List.cons_append, List.nil_append]
      rw [reUnescape]
      simp [hna, ih, Except.map]
    · have hs' : isSpecial c = false := by simpa using hs
      have hne : c ≠ 92 := by
        intro h; subst h; revert hs'; decide
      simp only [hs', Bool.false_eq_true, if_false, List.cons_append, List.nil_append]
      cases hcs : reEscape cs with
      | nil =>
        rw [hcs] at ih
        rw [reUnescape.eq_def]
        split
        · simp_all
        · simp_all
        · rename_i c' rest heq
          simp only [List.cons.injEq] at heq
          obtain ⟨rfl, rfl⟩ := heq
          simp [ih, Except.map]
      | cons d ds =>
        rw [hcs] at ih
        rw [reUnescape.eq_def]
        split
        · simp_all
        · rename_i c' rest heq
          simp only [List.cons.injEq] at heq
          exact absurd heq.1.symm (by omega)
        · rename_i c' rest hnot heq
          simp only [List.cons.injEq] at heq
          obtain ⟨rfl, rfl⟩ := heq
          simp [ih, Except.map]

end TornadoModel.C43
