/- C43 — helper lemmas -/
import TornadoModel.C43.Spec
namespace TornadoModel.C43
open TornadoModel.C06 (Str isToken)

theorem special_not_alnum (c : Nat) (h : isSpecial c = true) : isAlnum c = false := by
  simp only [isSpecial, List.contains_cons, List.contains_nil, Bool.or_false, Bool.or_eq_true, beq_iff_eq] at h
  simp only [isAlnum, isDigit]
  rcases h with h | h | h | h | h | h | h | h | h | h | h | h | h | h | h | h | h | h | h | h | h | h | h | h <;>
    subst h <;> decide

theorem reUnescape_reEscape (s : Str) : reUnescape (reEscape s) = .ok s := by
  induction s with
  | nil => rfl
  | cons c cs ih =>
    have hcons : reEscape (c :: cs) = (if isSpecial c then [92, c] else [c]) ++ reEscape cs := by
      simp [reEscape, List.flatMap_cons]
    rw [hcons]
    by_cases hs : isSpecial c = true
    · have hna := special_not_alnum c hs
      simp only [hs, if_true, List.cons_append, List.nil_append]
      rw [reUnescape]
      simp [hna, ih, Except.map]
    · have hs' : isSpecial c = false := by simpa using hs
      have hne : c ≠ 92 := by
        intro h; subst h; revert hs'; decide
      simp only [hs', Bool.false_eq_true, if_false, List.cons_append, List.nil_append]
      cases hcs : reEscape cs with
      | nil =>
        rw [hcs] at ih
        rw [reUnescape.eq_def]
        split
        · simp_all
        · simp_all
        · rename_i c' rest heq
          simp only [List.cons.injEq] at heq
          obtain ⟨rfl, rfl⟩ := heq
          simp [ih, Except.map]
      | cons d ds =>
        rw [hcs] at ih
        rw [reUnescape.eq_def]
        split
        · simp_all
        · rename_i c' rest heq
          simp only [List.cons.injEq] at heq
          exact absurd heq.1.symm (by omega)
        · rename_i c' rest hnot heq
          simp only [List.cons.injEq] at heq
          obtain ⟨rfl, rfl⟩ := heq
          simp [ih, Except.map]

end TornadoModel.C43

namespace TornadoModel.C43
open TornadoModel.C06 (Str isToken isTchar isFieldVchar)

/-! ### `splitFirst` -/

theorem splitFirst_some (sep : Nat) (s a b : Str) (h : splitFirst sep s = some (a, b)) :
    s = a ++ sep :: b ∧ sep ∉ a := by
  induction s generalizing a with
  | nil => simp [splitFirst] at h
  | cons c cs ih =>
    simp only [splitFirst] at h
    split at h
    · rename_i hc
      simp only [Option.some.injEq, Prod.mk.injEq] at h
      obtain ⟨rfl, rfl⟩ := h
      simp [hc]
    · rename_i hc
      cases hs : splitFirst sep cs with
      | none => simp [hs] at h
      | some p =>
        obtain ⟨a', b'⟩ := p
        simp only [hs, Option.map_some, Option.some.injEq, Prod.mk.injEq] at h
        obtain ⟨rfl, rfl⟩ := h
        obtain ⟨h1, h2⟩ := ih a' hs
        refine ⟨by rw [h1]; rfl, ?_⟩
        intro hm
        rcases List.mem_cons.mp hm with h3 | h3
        · exact hc h3.symm
        · exact h2 h3

theorem splitFirst_append (sep : Nat) (a b : Str) (h : sep ∉ a) : splitFirst sep (a ++ sep :: b) = some (a, b) := by
  induction a with
  | nil => simp [splitFirst]
  | cons c cs ih =>
    have hc : c ≠ sep := fun e => h (by simp [e])
    have hcs : sep ∉ cs := fun e => h (List.mem_cons_of_mem _ e)
    simp [splitFirst, hc, ih hcs]

theorem not_mem_of_all {p : Nat → Bool} (s : Str) (c : Nat) (hs : s.all p = true) (hc : p c = false) : c ∉ s := by
  intro hm
  have := List.all_eq_true.mp hs c hm
  rw [hc] at this
  exact Bool.noConfusion this

theorem token_no_space (m : Str) (h : isToken m = true) : 32 ∉ m := by
  simp only [isToken, Bool.and_eq_true] at h
  exact not_mem_of_all m 32 h.2 (by decide)

theorem target_no_space (t : Str) (h : isTarget t = true) : 32 ∉ t := by
  simp only [isTarget, Bool.and_eq_true] at h
  exact not_mem_of_all t 32 h.2 (by decide)

theorem version1_version (v : Str) (h : isVersion1 v = true) : isVersion v = true := by
  unfold isVersion1 at h
  unfold isVersion
  split at h
  · rename_i a b
    simp only [Bool.and_eq_true, decide_eq_true_eq] at h
    obtain ⟨rfl, hb⟩ := h
    simp only [isDigit, Bool.and_eq_true, decide_eq_true_eq] at hb
    simp [isDigit, hb.1, hb.2]
  · exact Bool.noConfusion h

end TornadoModel.C43

namespace TornadoModel.C43
open TornadoModel.C06 (Str)

theorem segs_ne_nil (s : Str) (o b : Bool) : segs s o b ≠ [] := by
  induction s generalizing o b with
  | nil => simp [segs]
  | cons c cs ih =>
    simp only [segs]
    split
    · simp
    · split <;> simp

theorem groupParams_plain (ps : List (Str × Str)) (g : Grouped)
    (h : ∀ p ∈ ps, continuation p.1 = none) : ∃ g', groupParams ps g = .ok g' ∧ g'.ext = g.ext := by
  induction ps generalizing g with
  | nil => exact ⟨g, rfl, rfl⟩
  | cons p ps ih =>
    obtain ⟨name, value⟩ := p
    have h0 : continuation name = none := h (name, value) List.mem_cons_self
    have hrest : ∀ p ∈ ps, continuation p.1 = none := fun p hp => h p (List.mem_cons_of_mem _ hp)
    simp only [groupParams, h0]
    obtain ⟨g', hg, he⟩ := ih { g with plain := g.plain ++ [(name, emailUnquote value)] } hrest
    exact ⟨g', hg, he⟩

end TornadoModel.C43
