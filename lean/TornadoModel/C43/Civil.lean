/- C43 — civil-date arithmetic: `daysFromCivil ∘ civilFromDays = id` and the HTTP-date round trip. -/
import TornadoModel.C43.Model
namespace TornadoModel.C43
open TornadoModel.C06 (Str)

/-! ### year of era -/

/-- days before year-of-era `y` (years start on 1 March) -/
def yearStart (y : Nat) : Nat := 365 * y + y / 4 - y / 100

/-- Hinnant's year-of-era formula -/
def yoeOf (doe : Nat) : Nat := (doe - doe / 1460 + doe / 36524 - doe / 146096) / 365

/-- first century of the era (day-of-era < 36524) -/
theorem yoe_c0 (doe : Nat) (h : doe < 36524) :
    yoeOf doe ≤ 99 ∧ yearStart (yoeOf doe) ≤ doe ∧ doe ≤ yearStart (yoeOf doe) + 365 ∧
      (doe = yearStart (yoeOf doe) + 365 → yoeOf doe % 4 = 3) := by
  have h2 : doe / 36524 = 0 := by omega
  have h3 : doe / 146096 = 0 := by omega
  have h4 : yoeOf doe / 100 = 0 := by unfold yoeOf; rw [h2, h3]; omega
  unfold yearStart
  rw [h4]
  unfold yoeOf
  rw [h2, h3]
  omega

theorem yoe_c1 (doe : Nat) (h1 : 36524 ≤ doe) (h : doe < 73048) :
    100 ≤ yoeOf doe ∧ yoeOf doe ≤ 199 ∧ yearStart (yoeOf doe) ≤ doe ∧ doe ≤ yearStart (yoeOf doe) + 365 ∧
      (doe = yearStart (yoeOf doe) + 365 → yoeOf doe % 4 = 3) := by
  have h2 : doe / 36524 = 1 := by omega
  have h3 : doe / 146096 = 0 := by omega
  have h4 : yoeOf doe / 100 = 1 := by unfold yoeOf; rw [h2, h3]; omega
  unfold yearStart
  rw [h4]
  unfold yoeOf
  rw [h2, h3]
  omega

theorem yoe_c2 (doe : Nat) (h1 : 73048 ≤ doe) (h : doe < 109572) :
    200 ≤ yoeOf doe ∧ yoeOf doe ≤ 299 ∧ yearStart (yoeOf doe) ≤ doe ∧ doe ≤ yearStart (yoeOf doe) + 365 ∧
      (doe = yearStart (yoeOf doe) + 365 → yoeOf doe % 4 = 3) := by
  have h2 : doe / 36524 = 2 := by omega
  have h3 : doe / 146096 = 0 := by omega
  have h4 : yoeOf doe / 100 = 2 := by unfold yoeOf; rw [h2, h3]; omega
  unfold yearStart
  rw [h4]
  unfold yoeOf
  rw [h2, h3]
  omega

theorem yoe_c3 (doe : Nat) (h1 : 109572 ≤ doe) (h : doe < 146096) :
    300 ≤ yoeOf doe ∧ yoeOf doe ≤ 399 ∧ yearStart (yoeOf doe) ≤ doe ∧ doe ≤ yearStart (yoeOf doe) + 365 ∧
      (doe = yearStart (yoeOf doe) + 365 → yoeOf doe % 4 = 3) := by
  have h2 : doe / 36524 = 3 := by omega
  have h3 : doe / 146096 = 0 := by omega
  have h4 : yoeOf doe / 100 = 3 := by unfold yoeOf; rw [h2, h3]; omega
  unfold yearStart
  rw [h4]
  unfold yoeOf
  rw [h2, h3]
  omega

/-- the year-of-era formula finds the year containing day-of-era `doe` -/
theorem yoe_spec (doe : Nat) (h : doe < 146097) :
    yoeOf doe ≤ 399 ∧ yearStart (yoeOf doe) ≤ doe ∧ doe ≤ yearStart (yoeOf doe) + 365 := by
  by_cases a : doe < 36524
  · have := yoe_c0 doe a; omega
  · by_cases b : doe < 73048
    · have := yoe_c1 doe (by omega) b; omega
    · by_cases c : doe < 109572
      · have := yoe_c2 doe (by omega) c; omega
      · by_cases d : doe < 146096
        · have := yoe_c3 doe (by omega) d; omega
        · have e : doe = 146096 := by omega
          subst e
          decide

/-! ### month and day from day-of-year -/

theorem mp_spec (doy : Nat) (h : doy ≤ 365) :
    (5 * doy + 2) / 153 ≤ 11 ∧ (153 * ((5 * doy + 2) / 153) + 2) / 5 ≤ doy ∧
      doy - (153 * ((5 * doy + 2) / 153) + 2) / 5 ≤ 30 := by
  omega

/-- `civilFromDays` in terms of the named pieces -/
theorem civilFromDays_eq (d : Nat) :
    civilFromDays d =
      (let z := d + 719468
       let yoe := yoeOf (z % 146097)
       let doy := z % 146097 - yearStart yoe
       let mp := (5 * doy + 2) / 153
       (yoe + z / 146097 * 400 + (if (if mp < 10 then mp + 3 else mp - 9) ≤ 2 then 1 else 0),
        (if mp < 10 then mp + 3 else mp - 9), doy - (153 * mp + 2) / 5 + 1)) := rfl

/-- the pieces of a civil date computed by `civilFromDays` -/
theorem civil_parts (d : Nat) :
    ∃ era yoe doy mp, d + 719468 = era * 146097 + yearStart yoe + doy ∧ yoe ≤ 399 ∧ doy ≤ 365 ∧ mp ≤ 11 ∧
      mp = (5 * doy + 2) / 153 ∧ (153 * mp + 2) / 5 ≤ doy ∧ doy - (153 * mp + 2) / 5 ≤ 30 ∧
      yearStart yoe + doy < 146097 ∧
      civilFromDays d = (yoe + era * 400 + (if (if mp < 10 then mp + 3 else mp - 9) ≤ 2 then 1 else 0),
        (if mp < 10 then mp + 3 else mp - 9), doy - (153 * mp + 2) / 5 + 1) := by
  have hz : (d + 719468) % 146097 < 146097 := Nat.mod_lt _ (by decide)
  obtain ⟨h1, h2, h3⟩ := yoe_spec _ hz
  have hm := mp_spec ((d + 719468) % 146097 - yearStart (yoeOf ((d + 719468) % 146097))) (by omega)
  refine ⟨(d + 719468) / 146097, yoeOf ((d + 719468) % 146097),
    (d + 719468) % 146097 - yearStart (yoeOf ((d + 719468) % 146097)), _, ?_, h1, by omega, hm.1, rfl, hm.2.1, hm.2.2,
    by omega, civilFromDays_eq d⟩
  have := Nat.div_add_mod (d + 719468) 146097
  omega

theorem daysFromCivil_parts (era yoe doy mp : Nat) (hy : yoe ≤ 399) (hmp : mp ≤ 11)
    (hd : (153 * mp + 2) / 5 ≤ doy) (hz : 719468 ≤ era * 146097 + yearStart yoe + doy) :
    daysFromCivil (yoe + era * 400 + (if (if mp < 10 then mp + 3 else mp - 9) ≤ 2 then 1 else 0))
      (if mp < 10 then mp + 3 else mp - 9) (doy - (153 * mp + 2) / 5 + 1) =
      era * 146097 + yearStart yoe + doy - 719468 := by
  unfold daysFromCivil yearStart
  by_cases hlt : mp < 10
  · have hm : ¬ (mp + 3 ≤ 2) := by omega
    simp only [hlt, if_true, hm, if_false, Nat.add_zero]
    have e1 : (yoe + era * 400) / 400 = era := by omega
    have e2 : (yoe + era * 400) % 400 = yoe := by omega
    have hgt : mp + 3 > 2 := by omega
    simp only [hgt, if_true, e1, e2]
    have e3 : mp + 3 - 3 = mp := by omega
    rw [e3]
    unfold yearStart at hz
    omega
  · have hm : mp - 9 ≤ 2 := by omega
    simp only [hlt, if_false, hm, if_true]
    have e0 : yoe + era * 400 + 1 - 1 = yoe + era * 400 := by omega
    have e1 : (yoe + era * 400) / 400 = era := by omega
    have e2 : (yoe + era * 400) % 400 = yoe := by omega
    have hgt : ¬ (mp - 9 > 2) := by omega
    simp only [hgt, if_false, e0, e1, e2]
    have e3 : mp - 9 + 9 = mp := by omega
    rw [e3]
    unfold yearStart at hz
    omega

/-- days → civil date → days is the identity (for every day count from 1970-01-01 on) -/
theorem civil_roundtrip_all (d : Nat) :
    daysFromCivil (civilFromDays d).1 (civilFromDays d).2.1 (civilFromDays d).2.2 = d := by
  obtain ⟨era, yoe, doy, mp, hz, hy, _, hmp, _, hd, _, _, hc⟩ := civil_parts d
  rw [hc]
  simp only []
  rw [daysFromCivil_parts era yoe doy mp hy hmp hd (by omega)]
  omega

/-! ### the year range of `civilFromDays` for 1970-01-01 … 9999-12-31 -/

theorem civil_range (d : Nat) (h : d < 2932897) :
    1970 ≤ (civilFromDays d).1 ∧ (civilFromDays d).1 ≤ 9999 ∧ 1 ≤ (civilFromDays d).2.1 ∧
      (civilFromDays d).2.1 ≤ 12 ∧ 1 ≤ (civilFromDays d).2.2 ∧ (civilFromDays d).2.2 ≤ 31 := by
  obtain ⟨era, yoe, doy, mp, hz, hy, hdoy, hmp, hmpe, hd, hd30, hlt, hc⟩ := civil_parts d
  rw [hc]
  simp only []
  unfold yearStart at hz hlt
  have hera1 : 4 ≤ era := by
    by_cases he : era ≤ 3
    · have : era * 146097 ≤ 3 * 146097 := Nat.mul_le_mul_right _ he
      omega
    · omega
  have hera2 : era ≤ 24 := by
    by_cases he : 25 ≤ era
    · have : 25 * 146097 ≤ era * 146097 := Nat.mul_le_mul_right _ he
      omega
    · omega
  by_cases hlt10 : mp < 10
  · simp only [hlt10, if_true]
    have hm : ¬ (mp + 3 ≤ 2) := by omega
    simp only [hm, if_false]
    refine ⟨?_, ?_, by omega, by omega, by omega, by omega⟩
    · by_cases he : era = 4
      · subst he; omega
      · omega
    · by_cases he : era = 24
      · subst he; omega
      · omega
  · simp only [hlt10, if_false]
    have hm : mp - 9 ≤ 2 := by omega
    simp only [hm, if_true]
    refine ⟨?_, ?_, by omega, by omega, by omega, by omega⟩
    · by_cases he : era = 4
      · subst he; omega
      · omega
    · by_cases he : era = 24
      · subst he; omega
      · omega

/-! ### the HTTP-date text -/

theorem formatTimestamp_eq (ts : Nat) :
    formatTimestamp ts =
      (dayNames.getD (ts / 86400 % 7) []) ++ [44, 32] ++ pad2 (civilFromDays (ts / 86400)).2.2 ++ [32] ++
        (monthNames.getD ((civilFromDays (ts / 86400)).2.1 - 1) []) ++ [32] ++ pad4 (civilFromDays (ts / 86400)).1 ++ [32]
        ++ pad2 (ts % 86400 / 3600) ++ [58] ++ pad2 (ts % 86400 / 60 % 60) ++ [58] ++ pad2 (ts % 86400 % 60) ++
        [32, 71, 77, 84] := rfl

theorem dayName3 : ∀ i, i < 7 → (dayNames.getD i []).length = 3 := by decide

theorem monthName3 : ∀ i, i < 12 →
    (monthNames.getD i []).length = 3 ∧ indexOf? (monthNames.getD i []) monthNames = some i := by decide

theorem len3 (l : Str) (h : l.length = 3) : ∃ a b c, l = [a, b, c] := by
  match l, h with
  | [a, b, c], _ => exact ⟨a, b, c, rfl⟩

theorem decVal2 (a b : Nat) : decVal [48 + a, 48 + b] = a * 10 + b := by
  simp [decVal]

theorem decVal4 (a b c d : Nat) : decVal [48 + a, 48 + b, 48 + c, 48 + d] = ((a * 10 + b) * 10 + c) * 10 + d := by
  simp [decVal]

theorem parseHttpDate_digits (w1 w2 w3 m1 m2 m3 mi a b y1 y2 y3 y4 h1 h2 n1 n2 s1 s2 : Nat)
    (hlt : a < 10 ∧ b < 10 ∧ y1 < 10 ∧ y2 < 10 ∧ y3 < 10 ∧ y4 < 10 ∧ h1 < 10 ∧ h2 < 10 ∧ n1 < 10 ∧ n2 < 10 ∧
      s1 < 10 ∧ s2 < 10)
    (hm : indexOf? [m1, m2, m3] monthNames = some mi)
    (hy : 1970 ≤ decVal [48 + y1, 48 + y2, 48 + y3, 48 + y4]) :
    parseHttpDate [w1, w2, w3, 44, 32, 48 + a, 48 + b, 32, m1, m2, m3, 32, 48 + y1, 48 + y2, 48 + y3, 48 + y4, 32,
        48 + h1, 48 + h2, 58, 48 + n1, 48 + n2, 58, 48 + s1, 48 + s2, 32, 71, 77, 84] =
      some (daysFromCivil (decVal [48 + y1, 48 + y2, 48 + y3, 48 + y4]) (mi + 1) (decVal [48 + a, 48 + b]) * 86400 +
        decVal [48 + h1, 48 + h2] * 3600 + decVal [48 + n1, 48 + n2] * 60 + decVal [48 + s1, 48 + s2]) := by
  have hall : [48 + a, 48 + b, 48 + y1, 48 + y2, 48 + y3, 48 + y4, 48 + h1, 48 + h2, 48 + n1, 48 + n2, 48 + s1,
      48 + s2].all isDigit = true := by
    simp only [List.all_cons, List.all_nil, isDigit, Bool.and_true, Bool.and_eq_true, decide_eq_true_eq]
    omega
  have hy' : ¬ decVal [48 + y1, 48 + y2, 48 + y3, 48 + y4] < 1970 := by omega
  unfold parseHttpDate
  simp only [hall, if_true, hm, hy', if_false]

/-- whole-second timestamps of the years 1970–9999 survive formatting and parsing -/
theorem timestamp_roundtrip_proof (ts : Nat) (h : ts < 253402300800) :
    parseHttpDate (formatTimestamp ts) = some ts := by
  have hd : ts / 86400 < 2932897 := by omega
  obtain ⟨hy1, hy2, hm1, hm2, hd1, hd2⟩ := civil_range (ts / 86400) hd
  have hrt := civil_roundtrip_all (ts / 86400)
  rw [formatTimestamp_eq]
  rcases hc : civilFromDays (ts / 86400) with ⟨y, m, dd⟩
  rw [hc] at hy1 hy2 hm1 hm2 hd1 hd2 hrt
  simp only [] at hy1 hy2 hm1 hm2 hd1 hd2 hrt ⊢
  obtain ⟨w1, w2, w3, hw⟩ := len3 _ (dayName3 (ts / 86400 % 7) (Nat.mod_lt _ (by decide)))
  obtain ⟨hml, hidx⟩ := monthName3 (m - 1) (by omega)
  obtain ⟨m1, m2, m3, hmn⟩ := len3 _ hml
  rw [hmn] at hidx
  rw [hw, hmn]
  simp only [pad2, pad4, List.cons_append, List.nil_append]
  have e4 : decVal [48 + y / 1000 % 10, 48 + y / 100 % 10, 48 + y / 10 % 10, 48 + y % 10] = y := by
    rw [decVal4]; omega
  rw [parseHttpDate_digits w1 w2 w3 m1 m2 m3 (m - 1) _ _ _ _ _ _ _ _ _ _ _ _
    (by refine ⟨?_, ?_, ?_, ?_, ?_, ?_, ?_, ?_, ?_, ?_, ?_, ?_⟩ <;> omega) hidx (by rw [e4]; exact hy1)]
  rw [e4, decVal2, decVal2, decVal2, decVal2]
  have em : m - 1 + 1 = m := by omega
  have ed : dd / 10 % 10 * 10 + dd % 10 = dd := by omega
  rw [em, ed, hrt]
  refine congrArg some ?_
  omega

/-! ### time tuples and `datetime` objects -/

/-- `calendar.timegm(time.gmtime(loc))` = `loc` -/
theorem timegm_fields (loc : Nat) :
    timegm (civilFromDays (loc / 86400)).1 (civilFromDays (loc / 86400)).2.1 (civilFromDays (loc / 86400)).2.2
      (loc % 86400 / 3600) (loc % 86400 / 60 % 60) (loc % 86400 % 60) = loc := by
  unfold timegm
  rw [civil_roundtrip_all]
  omega

theorem dateTimeAt_timegm (loc : Nat) (off : Option Int) :
    timegm (dateTimeAt loc off).y (dateTimeAt loc off).mo (dateTimeAt loc off).d (dateTimeAt loc off).h
      (dateTimeAt loc off).mi (dateTimeAt loc off).s = loc := timegm_fields loc

theorem dateTimeAt_year (loc : Nat) (off : Option Int) (h : loc < 253402300800) : ¬ (dateTimeAt loc off).y < 1970 := by
  have := (civil_range (loc / 86400) (by omega)).1
  show ¬ (civilFromDays (loc / 86400)).1 < 1970
  omega

/-- a naive `datetime` holding the UTC fields of `ts` formats like the integer `ts` -/
theorem formatTimestampDT_naive_proof (ts : Nat) (h : ts < 253402300800) :
    formatTimestampDT (dateTimeAt ts none) = .ok (formatTimestamp ts) := by
  unfold formatTimestampDT
  have ht : (dateTimeAt ts none).timeNum = (ts : Int) := by
    unfold DateTime.timeNum
    rw [dateTimeAt_timegm]
    rfl
  rw [if_neg (dateTimeAt_year ts none h), ht, if_neg (by omega)]
  rfl

/-- an aware `datetime` showing the instant `ts` on a wall clock `off` seconds ahead of UTC formats like the integer `ts` -/
theorem formatTimestampDT_aware_proof (ts loc : Nat) (off : Int) (hloc : (loc : Int) = ts + off) (h : loc < 253402300800) :
    formatTimestampDT (dateTimeAt loc (some off)) = .ok (formatTimestamp ts) := by
  unfold formatTimestampDT
  have ht : (dateTimeAt loc (some off)).timeNum = (ts : Int) := by
    unfold DateTime.timeNum
    rw [dateTimeAt_timegm]
    show (loc : Int) - off = ts
    omega
  rw [if_neg (dateTimeAt_year loc (some off) h), ht, if_neg (by omega)]
  rfl

end TornadoModel.C43
