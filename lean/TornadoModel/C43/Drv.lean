/- C43 driver: one utility function per op; `s_…` ops evaluate the Spec side. -/
import TornadoModel.Base.Wire
import TornadoModel.C43.SpecExt
namespace TornadoModel.C43.Drv
open TornadoModel TornadoModel.Wire TornadoModel.C43

def encErr : Err → V
  | .httpInput => .atom "HTTPInputError"
  | .uncaught k => .atom ("Uncaught:" ++ k)
  | .unmodelled => .atom "Unmodelled"

def encOptS : Option (List Nat) → V
  | none => .none
  | some s => V.ofCps s

def encPairs (ps : List (List Nat × List Nat)) : V := .list (ps.map (fun (k, v) => .list [V.ofCps k, V.ofCps v]))

def decPairs (v : V) : Option (List (List Nat × List Nat)) := do
  let l ← v.list?
  l.mapM (fun p => do
    match ← p.list? with
    | [a, b] => pure (← a.cps?, ← b.cps?)
    | _ => none)

def decOptPairs (v : V) : Option (List (List Nat × Option (List Nat))) := do
  let l ← v.list?
  l.mapM (fun p => do
    match ← p.list? with
    | [a, b] => if b.isNone then pure (← a.cps?, none) else pure (← a.cps?, some (← b.cps?))
    | _ => none)

def decGai (v : V) : Option Gai :=
  match v with
  | .int i => if 0 ≤ i then some (.addrs i.toNat) else none
  | .atom "noname" => some .noname
  | .atom "other" => some .otherError
  | .atom "unicode" => some .unicodeError
  | _ => none

def encReq : Option (List Nat × List Nat × List Nat) → V
  | some (m, t, v) => .list [V.ofCps m, V.ofCps t, V.ofCps v]
  | none => .atom "HTTPInputError"

def encResp : Option (List Nat × Nat × Option (List Nat)) → V
  | some (v, c, r) => .list [V.ofCps v, .int c, encOptS r]
  | none => .atom "HTTPInputError"

def one (cmd : String) (a : V) : Option String := do
  match cmd with
  | "reqline" =>
    let s ← a.cps?
    match parseRequestLine s with
    | .ok r => pure (ok [encReq (some r)])
    | .error e => pure (ok [encErr e])
  | "s_reqline" => pure (ok [encReq (Spec.requestLine (← a.cps?))])
  | "respline" =>
    let s ← a.cps?
    match parseResponseLine s with
    | .ok r => pure (ok [encResp (some r)])
    | .error e => pure (ok [encErr e])
  | "s_respline" => pure (ok [encResp (Spec.statusLine (← a.cps?))])
  | "parseparam" => pure (ok [.list ((parseparam (← a.cps?)).map V.ofCps)])
  | "parseheader" =>
    match parseHeader (← a.cps?) with
    | .ok (k, d) => pure (ok [.list [V.ofCps k, encPairs d]])
    | .error e => pure (ok [encErr e])
  | "cookie" => pure (ok [encPairs (parseCookie (← a.cps?))])
  | "hostport" =>
    match splitHostPort (← a.cps?) with
    | .ok (h, p) => pure (ok [.list [V.ofCps h, V.ofOpt V.ofNat p]])
    | .error e => pure (ok [encErr e])
  | "hostport_old" =>
    match splitHostPortOld (← a.cps?) with
    | .ok (h, p) => pure (ok [.list [V.ofCps h, V.ofOpt V.ofNat p]])
    | .error e => pure (ok [encErr e])
  | "reescape" => pure (ok [V.ofCps (reEscape (← a.cps?))])
  | "reunescape" =>
    match reUnescape (← a.cps?) with
    | .ok r => pure (ok [V.ofCps r])
    | .error e => pure (ok [encErr e])
  | "fmtts" => pure (ok [V.ofCps (formatTimestamp (← a.nat?))])
  | "fmttuple" =>
    match ← (← a.list?).mapM V.nat? with
    | [y, mo, d, h, mi, s] => pure (ok [V.ofCps (formatTimestampTuple y mo d h mi s)])
    | _ => none
  | "fmtdt" =>
    match ← a.list? with
    | [y, mo, d, h, mi, s, o] =>
      let off ← if o.isNone then pure none else (do pure (some (← o.int?)))
      match formatTimestampDT { y := ← y.nat?, mo := ← mo.nat?, d := ← d.nat?, h := ← h.nat?, mi := ← mi.nat?, s := ← s.nat?, off := off } with
      | .ok r => pure (ok [V.ofCps r])
      | .error e => pure (ok [encErr e])
    | _ => none
  | "parsedate" => pure (ok [V.ofOpt V.ofNat (parseHttpDate (← a.cps?))])
  | "parseqsl" => pure (ok [encPairs (parseQsl (← a.cps?))])
  | "urlencode" => pure (ok [V.ofCps (urlencode (← decPairs a))])
  | "s_plainip" => let s ← a.cps?; pure (ok [V.ofBool (Spec.plainIPv4 s), V.ofBool (Spec.plainIPv6 s), V.ofBool (Spec.hostName s)])
  | "emailunquote" => pure (ok [V.ofCps (emailUnquote (← a.cps?))])
  | "utf8dec" => pure (ok [V.ofCps (utf8Dec (← a.byteNats?))])
  | "tables" =>
    pure (ok [.list (ndStarts.map V.ofNat), .list (((List.range 12300).filter isPySpace).map V.ofNat)])
  | _ => none

def two (cmd : String) (a b : V) : Option String := do
  match cmd with
  | "encodeheader" => pure (ok [V.ofCps (encodeHeader (← a.cps?) (← decOptPairs b))])
  | "validip" =>
    let g ← decGai b
    match isValidIp (fun _ => g) (← a.cps?) with
    | .ok r => pure (ok [V.ofBool r])
    | .error e => pure (ok [encErr e])
  | "urlconcat" =>
    let u ← a.cps?
    if b.isNone then pure (ok [V.ofCps (urlConcat u none)])
    else pure (ok [V.ofCps (urlConcat u (some (← decPairs b)))])
  | _ => none

def handle (toks : List String) : String :=
  match toks with
  | [cmd, x] =>
    match V.parse x with
    | some a => (one cmd a).getD (err "bad-arg")
    | none => err "bad-token"
  | [cmd, x, y] =>
    match V.parse x, V.parse y with
    | some a, some b => (two cmd a b).getD (err "bad-arg")
    | _, _ => err "bad-token"
  | _ => err "bad-line"

end TornadoModel.C43.Drv
