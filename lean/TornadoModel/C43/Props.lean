/- C43 — property theorems (see docs/C43.md for the reading of each clause). -/
import TornadoModel.C43.Lemmas
import TornadoModel.C43.Inv2
import TornadoModel.C43.Civil
import TornadoModel.C43.Url
import TornadoModel.C43.Review
import TornadoModel.C43.Review2
import TornadoModel.Base.Wire
namespace TornadoModel.C43
open TornadoModel.C06 (Str isToken)
open TornadoModel

/-! ### start lines -/

/-- `parse_request_start_line` returns `(m, t, v)` exactly when the line *is* `m SP t SP v` with `m` a token, `t` a
    non-empty run of VCHAR/obs-text and `v` an HTTP/1.x version (RFC 9112 request-line). -/
theorem requestLine_iff (line m t v : Str) :
    parseRequestLine line = .ok (m, t, v) ↔ Spec.RequestLine line m t v := by
  constructor
  · intro h
    unfold parseRequestLine at h
    cases h1 : splitFirst 32 line with
    | none => simp [h1] at h
    | some p1 =>
      obtain ⟨m', rest⟩ := p1
      simp only [h1] at h
      cases h2 : splitFirst 32 rest with
      | none => simp [h2] at h
      | some p2 =>
        obtain ⟨t', v'⟩ := p2
        simp only [h2] at h
        split at h
        · rename_i hc
          split at h
          · rename_i hv
            simp only [Except.ok.injEq, Prod.mk.injEq] at h
            obtain ⟨rfl, rfl, rfl⟩ := h
            simp only [Bool.and_eq_true] at hc
            have e1 := (splitFirst_some 32 line _ _ h1).1
            have e2 := (splitFirst_some 32 rest _ _ h2).1
            refine ⟨?_, hc.1.1, hc.1.2, hv⟩
            rw [e1, e2]; simp
          · simp at h
        · simp at h
  · intro ⟨hl, hm, ht, hv⟩
    unfold parseRequestLine
    have e1 : splitFirst 32 line = some (m, t ++ 32 :: v) := by
      rw [hl]
      have := splitFirst_append 32 m (t ++ 32 :: v) (token_no_space m hm)
      simpa using this
    have e2 : splitFirst 32 (t ++ 32 :: v) = some (t, v) := splitFirst_append 32 t v (target_no_space t ht)
    simp [e1, e2, hm, ht, hv, version1_version v hv]

/-- every refusal is an `HTTPInputError` -/
theorem requestLine_error_kind (line : Str) (e : Err) (h : parseRequestLine line = .error e) : e = .httpInput := by
  unfold parseRequestLine at h
  repeat' split at h
  all_goals first | (injection h with h; exact h.symm) | simp at h

example : Spec.RequestLine (ofAscii "GET /x HTTP/1.1") (ofAscii "GET") (ofAscii "/x") (ofAscii "HTTP/1.1") := by
  refine ⟨by decide, by decide, by decide, by decide⟩

/-- `parse_response_start_line` returns `(v, code, reason)` exactly when the line is
    `HTTP-version SP 3DIGIT SP [reason-phrase]` with an HTTP/1.x version. -/
theorem statusLine_iff (line v : Str) (code : Nat) (reason : Option Str) :
    parseResponseLine line = .ok (v, code, reason) ↔ Spec.StatusLine line v code reason := by
  constructor
  · intro h
    unfold parseResponseLine at h
    split at h
    · rename_i a b d1 d2 d3 rs
      split at h
      · rename_i hc
        split at h
        · rename_i ha
          simp only [Except.ok.injEq, Prod.mk.injEq] at h
          obtain ⟨rfl, rfl, rfl⟩ := h
          simp only [Bool.and_eq_true] at hc
          refine ⟨[d1, d2, d3], rs, by simp, ?_, rfl, ?_, hc.2, rfl, rfl⟩
          · subst ha; simp [isVersion1, hc.1.1.1.1.2]
          · simp [hc.1.1.1.2, hc.1.1.2, hc.1.2]
        · simp at h
      · simp at h
    · simp at h
  · intro ⟨ds, r, hl, hv, hlen, hds, hr, hcode, hreason⟩
    unfold isVersion1 at hv
    split at hv
    · rename_i a b
      simp only [Bool.and_eq_true, decide_eq_true_eq] at hv
      obtain ⟨rfl, hb⟩ := hv
      match ds, hlen with
      | [d1, d2, d3], _ =>
        simp only [List.all_cons, List.all_nil, Bool.and_true, Bool.and_eq_true] at hds
        subst hl hcode hreason
        simp only [isDigit, Bool.and_eq_true, decide_eq_true_eq] at hb hds
        simp [parseResponseLine, isDigit, hr]
        omega
    · exact Bool.noConfusion hv

theorem statusLine_error_kind (line : Str) (e : Err) (h : parseResponseLine line = .error e) : e = .httpInput := by
  unfold parseResponseLine at h
  repeat' split at h
  all_goals first | (injection h with h; exact h.symm) | simp at h

example : Spec.StatusLine (ofAscii "HTTP/1.1 200 OK") (ofAscii "HTTP/1.1") 200 (some (ofAscii "OK")) :=
  ⟨ofAscii "200", ofAscii "OK", by decide, by decide, by decide, by decide, by decide, by decide, by decide⟩

/-- the same over character classes written from the RFC text in `SpecExt.lean` (nothing shared with `Model.lean`; the
    classes coincide: `rfcTchar_eq`, `rfcVersion1_eq`, …).  `relaxedTarget` is Tornado's documented `1*(VCHAR / obs-text)`, a
    superset of the RFC 9112 request-target forms, and only HTTP major version 1 is accepted. -/
theorem requestLine_rfc (line m t v : Str) :
    parseRequestLine line = .ok (m, t, v) ↔ Spec.RfcRequestLine line m t v :=
  (requestLine_iff line m t v).trans (rfcRequestLine_iff line m t v).symm

theorem statusLine_rfc (line v : Str) (code : Nat) (reason : Option Str) :
    parseResponseLine line = .ok (v, code, reason) ↔ Spec.RfcStatusLine line v code reason :=
  (statusLine_iff line v code reason).trans (rfcStatusLine_iff line v code reason).symm

example : Spec.RfcRequestLine (ofAscii "GET /x HTTP/1.1") (ofAscii "GET") (ofAscii "/x") (ofAscii "HTTP/1.1") := by
  refine ⟨by decide, by decide, by decide, by decide⟩

/-- the ORACLE's start-line spec (`Spec.requestLine`, brute force over all cut points, applied by the harness to the
    implementation's answer) is the Prop `Spec.RequestLine` of `requestLine_iff`, i.e. equals the model's parser on
    every line — acceptance with the same three parts, refusal otherwise. -/
theorem requestLine_oracle (line : Str) : Spec.requestLine line = (parseRequestLine line).toOption := by
  cases hp : parseRequestLine line with
  | ok r =>
    obtain ⟨m, t, v⟩ := r
    have hs := requestLine_isSome line m t v ((requestLine_iff line m t v).mp hp)
    cases hr : Spec.requestLine line with
    | none => rw [hr] at hs; exact Bool.noConfusion hs
    | some p =>
      obtain ⟨m', t', v'⟩ := p
      have h2 := (requestLine_iff line m' t' v').mpr (requestLine_sound line m' t' v' hr)
      rw [hp] at h2
      simp only [Except.ok.injEq, Prod.mk.injEq] at h2
      obtain ⟨rfl, rfl, rfl⟩ := h2
      rfl
  | error e =>
    cases hr : Spec.requestLine line with
    | none => rfl
    | some p =>
      obtain ⟨m', t', v'⟩ := p
      have h2 := (requestLine_iff line m' t' v').mpr (requestLine_sound line m' t' v' hr)
      rw [hp] at h2
      cases h2

theorem statusLine_oracle (line : Str) : Spec.statusLine line = (parseResponseLine line).toOption := by
  cases hp : parseResponseLine line with
  | ok r =>
    obtain ⟨v, c, rs⟩ := r
    have hs := statusLine_isSome line v c rs ((statusLine_iff line v c rs).mp hp)
    cases hr : Spec.statusLine line with
    | none => rw [hr] at hs; exact Bool.noConfusion hs
    | some p =>
      obtain ⟨v', c', rs'⟩ := p
      have h2 := (statusLine_iff line v' c' rs').mpr (statusLine_sound line v' c' rs' hr)
      rw [hp] at h2
      simp only [Except.ok.injEq, Prod.mk.injEq] at h2
      obtain ⟨rfl, rfl, rfl⟩ := h2
      rfl
  | error e =>
    cases hr : Spec.statusLine line with
    | none => rfl
    | some p =>
      obtain ⟨v', c', rs'⟩ := p
      have h2 := (statusLine_iff line v' c' rs').mpr (statusLine_sound line v' c' rs' hr)
      rw [hp] at h2
      cases h2

/-! ### `_parse_header` never raises (after the `fix:` commit for the RFC 2231 finding) -/

/-- one RFC 2231 parameter whose continuations `decode_params` can sort decodes without an exception (the charset
    ValueError is caught by the fixed `_parse_header`) -/
theorem catchValueError_not_uncaught (r : Except Err Str) (t : Str) : Spec.isUncaught (catchValueError r t) = false := by
  cases r with
  | ok v => rfl
  | error e => cases e <;> rfl

theorem rfc2231Value_not_uncaught (conts : List Seg)
    (h : (conts.any (fun c => c.1.isNone) && conts.any (fun c => c.1.isSome)) = false) :
    Spec.isUncaught (rfc2231Value conts) = false := by
  unfold rfc2231Value
  simp only [h, Bool.false_eq_true, if_false]
  split
  · split
    · rfl
    · split
      · rfl
      · exact catchValueError_not_uncaught _ _
  · rfl

theorem foldlM_rfc2231_not_uncaught (l : List (Str × List Seg)) (d0 : List (Str × Str))
    (h : ∀ p ∈ l, Spec.isUncaught (rfc2231Value p.2) = false) :
    Spec.isUncaught (l.foldlM (fun d (n, conts) => (rfc2231Value conts).map (fun v => dset n v d)) d0) = false := by
  induction l generalizing d0 with
  | nil => rfl
  | cons p ps ih =>
    obtain ⟨n, conts⟩ := p
    have hp : Spec.isUncaught (rfc2231Value conts) = false := h (n, conts) List.mem_cons_self
    simp only [List.foldlM_cons]
    cases hv : rfc2231Value conts with
    | error e =>
      rw [hv] at hp
      cases e with
      | uncaught k => exact Bool.noConfusion hp
      | httpInput => rfl
      | unmodelled => rfl
    | ok v => exact ih _ (fun q hq => h q (List.mem_cons_of_mem _ hq))

theorem withKey_not_uncaught (key : Str) (r : Except Err (List (Str × Str))) (h : Spec.isUncaught r = false) :
    Spec.isUncaught (match r with
      | .error e => (.error e : Except Err (Str × List (Str × Str)))
      | .ok d => .ok (key, d)) = false := by
  cases r with
  | ok d => rfl
  | error e =>
    cases e with
    | uncaught k => exact Bool.noConfusion h
    | httpInput => rfl
    | unmodelled => rfl

/-- no exception type other than (possibly) `HTTPInputError` escapes — the statement the review found too weak (it also
    holds for a parser that raises HTTPInputError); kept, superseded by `parseHeader_total` below -/
theorem parseHeader_not_uncaught (line : Str) : Spec.isUncaught (parseHeader line) = false := by
  unfold parseHeader
  have hne : parseparam line ≠ [] := by
    simp only [parseparam, ne_eq, List.map_eq_nil_iff]
    exact segs_ne_nil line false false
  cases hp : parseparam line with
  | nil => exact absurd hp hne
  | cons key ps =>
    simp only
    cases hg : groupParams (rawParams ps) {} with
    | error e => rfl
    | ok g =>
      simp only
      cases hm : mixedConts g.ext with
      | true => rfl
      | false =>
        simp only [Bool.false_eq_true, if_false]
        have hall : ∀ p ∈ g.ext, Spec.isUncaught (rfc2231Value p.2) = false := by
          intro p hp'
          apply rfc2231Value_not_uncaught
          unfold mixedConts at hm
          rw [List.any_eq_false] at hm
          exact Bool.of_not_eq_true (hm p hp')
        exact withKey_not_uncaught key _ (foldlM_rfc2231_not_uncaught g.ext _ hall)

/-- `parseHeader_total` (the clause "the header-parameter parser never raises"): for EVERY line the fixed `_parse_header`
    RETURNS — or the value of an RFC 2231 extended parameter is handed to a stdlib codec outside the model (charset other
    than utf-8 / us-ascii / latin-1 / a name with NUL), the one place where the model says `unmodelled` and the claim rests
    on the tie.  In particular no `HTTPInputError` and no other exception on any modelled path. -/
theorem parseHeader_total (line : Str) : (∃ r, parseHeader line = .ok r) ∨ parseHeader line = .error .unmodelled :=
  rou_cases _ (parseHeader_rou line)

theorem parseHeader_error_unmodelled (line : Str) (e : Err) (h : parseHeader line = .error e) : e = .unmodelled := by
  rcases parseHeader_total line with ⟨r, hr⟩ | hr
  · rw [hr] at h; cases h
  · rw [hr] at h; injection h with h; exact h.symm

/-- `parseHeader_plain_returns`: when no parameter name has the RFC 2231 shape `name*`, `name*N`, `name*N*` the parser
    returns a result (not even `unmodelled`) — for every such line. -/
theorem parseHeader_plain_returns (line : Str)
    (h : ∀ p ∈ rawParams (parseparam line).tail, continuation p.1 = none) : ∃ r, parseHeader line = .ok r := by
  unfold parseHeader
  have hne : parseparam line ≠ [] := by
    simp only [parseparam, ne_eq, List.map_eq_nil_iff]
    exact segs_ne_nil line false false
  cases hp : parseparam line with
  | nil => exact absurd hp hne
  | cons key ps =>
    rw [hp] at h
    simp only [List.tail_cons] at h
    obtain ⟨g', hg, he⟩ := groupParams_plain (rawParams ps) {} h
    simp only [hg]
    have : g'.ext = [] := he
    rw [this]
    simp only [mixedConts, List.any_nil, Bool.false_eq_true, if_false]
    exact ⟨_, rfl⟩

example : ∀ p ∈ rawParams (parseparam [102, 59, 32, 110, 61, 34, 120, 34]).tail, continuation p.1 = none := by decide

/-- the four recorded witnesses of the former known finding, evaluated on the fixed model:
    `a; x*1=a; x*=b` (was TypeError) keeps both parameters under their literal names; -/
example : (parseHeader (ofAscii "a; x*1=a; x*=b")).toOption =
    some (ofAscii "a", [(ofAscii "x*1", ofAscii "a"), (ofAscii "x*", ofAscii "b")]) := by decide
/-- `a; x*=a%00b''abc` (was ValueError: NUL in the charset name) gives the undecoded text -/
example : (parseHeader (ofAscii "a; x*=a%00b''abc")).toOption = some (ofAscii "a", [(ofAscii "x", ofAscii "abc")]) := by decide
/-- a well-formed extended parameter is decoded as before: `a; f*=latin-1''%41` -/
example : (parseHeader (ofAscii "a; f*=latin-1''%41")).toOption = some (ofAscii "a", [(ofAscii "f", ofAscii "A")]) := by decide

/-! ### `is_valid_ip` (the resolver `gai` is a parameter) -/

theorem plainIP_nonempty (s : Str) (h : Spec.plainIP s = true) : s ≠ [] := by
  intro hs
  subst hs
  revert h
  decide

/-- `valid_ip_spec`: given the resolver contract "plain address text resolves numerically", every plain IPv4/IPv6
    address is accepted. -/
theorem valid_ip_spec (gai : Str → Gai) (s : Str)
    (hc : ∀ s, Spec.plainIP s = true → ∃ n, gai s = .addrs (n + 1)) (hp : Spec.plainIP s = true) :
    isValidIp gai s = .ok true := by
  have hne := plainIP_nonempty s hp
  obtain ⟨n, hn⟩ := hc s hp
  simp only [Spec.plainIP, Bool.and_eq_true] at hp
  have hall := hp.1
  have h0 : 0 ∉ s := by
    intro hm'
    have := List.all_eq_true.mp hall 0 hm'
    revert this; decide
  have hasc : isAscii s = true := by
    simp only [isAscii, List.all_eq_true, decide_eq_true_eq]
    intro c hcm
    have := List.all_eq_true.mp hall c hcm
    simp only [Spec.isIpChar, isHexDigit, isDigit, Bool.or_eq_true, Bool.and_eq_true, decide_eq_true_eq] at this
    omega
  have he : s.isEmpty = false := by cases s <;> simp_all
  have hz : (zoneId s).contains 58 = false := by
    have h37 : 37 ∉ s := by
      intro hm'
      have := List.all_eq_true.mp hall 37 hm'
      revert this; decide
    simp [zoneId, splitFirst_none_of_not_mem 37 s h37]
  have hz' : 58 ∉ zoneId s := by simpa using hz
  simp [isValidIp, he, h0, hasc, hn, hz']

example : Spec.plainIP (ofAscii "1.2.3.4") = true ∧ Spec.plainIP (ofAscii "2001:db8::ff") = true ∧
    Spec.plainIP (ofAscii "::ffff:1.2.3.4") = true ∧ Spec.plainIP (ofAscii "1.2.3.256") = false ∧
    Spec.plainIP (ofAscii "localhost") = false := by decide

/-- empty strings and strings containing NUL are rejected whatever the resolver says -/
theorem valid_ip_rejects (gai : Str → Gai) (s : Str) (h : s = [] ∨ 0 ∈ s) : isValidIp gai s = .ok false := by
  rcases h with rfl | h
  · simp [isValidIp]
  · simp [isValidIp, h]

/-- host names (anything the resolver reports as EAI_NONAME under AI_NUMERICHOST) are rejected -/
theorem valid_ip_noname (gai : Str → Gai) (s : Str) (h : gai s = .noname) : isValidIp gai s = .ok false := by
  unfold isValidIp
  split
  · rfl
  · split
    · rfl
    · simp [h]

/-- after the `fix:` commit an accepted string is non-empty ASCII text without NUL -/
theorem valid_ip_ascii (gai : Str → Gai) (s : Str) (h : isValidIp gai s = .ok true) :
    s ≠ [] ∧ 0 ∉ s ∧ isAscii s = true := by
  unfold isValidIp at h
  split at h
  · simp at h
  · rename_i hc
    clear h
    simp only [Bool.or_eq_true, Bool.not_eq_true', not_or, Bool.not_eq_true, Bool.not_eq_false] at hc
    refine ⟨?_, ?_, ?_⟩
    · intro e; subst e; simp at hc
    · intro hm
      have : s.contains 0 = true := by simpa using hm
      rw [hc.1.2] at this
      exact Bool.noConfusion this
    · simpa using hc.2

/-- contract-free content of the accept half: on plain address text `is_valid_ip` adds nothing to the resolver — the three
    pre-checks pass and the answer is the resolver's verdict (so `valid_ip_spec` is exactly "the resolver accepts plain
    address text", a contract of `getaddrinfo(AI_NUMERICHOST)` that is assumed, not proved; tie: oracle on every `ip` case) -/
theorem valid_ip_plain_resolver (gai : Str → Gai) (s : Str) (hp : Spec.plainIP s = true) :
    isValidIp gai s = (match gai s with
      | .addrs n => .ok (n != 0) | .noname => .ok false | .otherError => .error (.uncaught "gaierror")
      | .unicodeError => .ok false) := by
  obtain ⟨he, h0, ha⟩ := plainIP_prechecks s hp
  have hc : s.contains 0 = false := by simpa using h0
  simp only [isValidIp, he, hc, ha, plainIP_zone s hp, Bool.not_true, Bool.or_self, Bool.false_eq_true, if_false]
  cases gai s <;> rfl

/-- "rejects host names": given the resolver contract "a host name is not numeric: EAI_NONAME under AI_NUMERICHOST",
    every `Spec.hostName` is rejected.  Like `valid_ip_spec` this is relative to the (assumed) resolver contract. -/
theorem valid_ip_hostname (gai : Str → Gai) (s : Str)
    (hc : ∀ s, Spec.hostName s = true → gai s = .noname) (hn : Spec.hostName s = true) : isValidIp gai s = .ok false :=
  valid_ip_noname gai s (hc s hn)

/-- the two resolver contracts are about disjoint sets of strings (they can hold together) -/
theorem hostName_not_plainIP (s : Str) (h : Spec.hostName s = true) : Spec.plainIP s = false :=
  hostName_not_plainIP_proof s h

example : Spec.hostName (ofAscii "example.com") = true ∧ Spec.hostName (ofAscii "localhost") = true ∧
    Spec.hostName (ofAscii "www.example.org.") = true ∧ Spec.hostName (ofAscii "my-host") = true ∧
    Spec.hostName (ofAscii "0x7f.1") = false ∧ Spec.hostName (ofAscii "dead.beef") = false ∧
    Spec.hostName (ofAscii "1.2.3.4") = false ∧ Spec.hostName (ofAscii "a..b") = false ∧ Spec.hostName [] = false ∧
    Spec.hostName (ofAscii "host name") = false := by decide

/-! ### `split_host_and_port` -/

/-- the unfixed function raised exactly on a syntactically matching port with more digits than `int()` converts -/
theorem splitHostPortOld_raises_iff (s : Str) :
    Spec.isUncaught (splitHostPortOld s) = true ↔ ∃ h ds, netlocMatch s = some (h, ds) ∧ ds.length > intMaxDigits := by
  unfold splitHostPortOld
  cases hm : netlocMatch s with
  | none => simp [Spec.isUncaught]
  | some p =>
    obtain ⟨h, ds⟩ := p
    by_cases hl : ds.length > intMaxDigits
    · simp only [hl, if_true, Spec.isUncaught, true_iff]
      exact ⟨h, ds, rfl, hl⟩
    · simp only [hl, if_false, Spec.isUncaught, Bool.false_eq_true, false_iff]
      rintro ⟨h', ds', heq, hl'⟩
      simp only [Option.some.injEq, Prod.mk.injEq] at heq
      exact hl (heq.2 ▸ hl')

/-- "the host/port splitter never raises": the model HAS an error outcome (`int()` is the one call that can raise —
    `pyInt`: ValueError beyond the digit limit, `unmodelled` on text that is not `\d+`; `except ValueError` catches only
    that type) and for EVERY string the function returns.  Rests on `netlocMatch_digits` (group 2 of `_netloc_re` is a
    non-empty run of `\d`, so `int` cannot meet a non-digit) and `pyInt_digits`. -/
theorem splitHostPort_returns (s : Str) : ∃ r, splitHostPort s = .ok r := splitHostPort_returns_proof s

/-- the fixed function agrees with the old one wherever that returned, and answers `(netloc, None)` where it raised -/
theorem splitHostPort_total (s : Str) :
    splitHostPort s = .ok (match splitHostPortOld s with | .ok r => r | .error _ => (s, none)) :=
  splitHostPort_old_proof s

example : (splitHostPort (ofAscii "h:80")).toOption = some (ofAscii "h", some 80) ∧
    (splitHostPort [104, 58, 1640, 65296]).toOption = some ([104], some 80) ∧
    (splitHostPort (ofAscii "[::1]")).toOption = some (ofAscii "[::1]", none) := by decide

/-! ### `url_concat` -/

/-- `url_concat(url, None)` is the url -/
theorem url_concat_none (url : Str) : urlConcat url none = url := rfl

/-- empty argument list and no query: nothing is appended (no stray `?`) -/
theorem url_concat_nil_noquery (url : Str) (h1 : 35 ∉ url) (h2 : 63 ∉ url) : urlConcat url (some []) = url := by
  have e1 : splitFirst 35 url = none := by
    cases h : splitFirst 35 url with
    | none => rfl
    | some p =>
      obtain ⟨a, b⟩ := p
      have := (splitFirst_some 35 url a b h).1
      exact absurd (by rw [this]; simp) h1
  have e2 : splitFirst 63 url = none := by
    cases h : splitFirst 63 url with
    | none => rfl
    | some p =>
      obtain ⟨a, b⟩ := p
      have := (splitFirst_some 63 url a b h).1
      exact absurd (by rw [this]; simp) h2
  simp [urlConcat, urlSplit, e1, e2, parseQsl, splitAll, urlencode, C06.joinWith]

/-! ### round trips -/

/-- `_parse_header(_encode_header(k, d)) = (k, d)` for a token key, lower-case token names without the RFC 2231 shape
    (listed in sorted order, as `_encode_header` emits them) and token values -/
theorem param_roundtrip (k : Str) (d : List (Str × Str)) (hk : isToken k = true)
    (hd : ∀ p ∈ d, isToken p.1 = true ∧ lowerAscii p.1 = p.1 ∧ continuation p.1 = none ∧ isToken p.2 = true)
    (hs : d.Pairwise (fun a b => strLt a.1 b.1 = true)) :
    parseHeader (encodeHeader k (d.map (fun p => (p.1, some p.2)))) = .ok (k, d) :=
  param_roundtrip_proof k d hk hd hs

example : isToken (ofAscii "form-data") = true ∧
    (∀ p ∈ [(ofAscii "filename", ofAscii "a.txt"), (ofAscii "name", ofAscii "f")],
      isToken p.1 = true ∧ lowerAscii p.1 = p.1 ∧ continuation p.1 = none ∧ isToken p.2 = true) ∧
    [(ofAscii "filename", ofAscii "a.txt"), (ofAscii "name", ofAscii "f")].Pairwise
      (fun a b => strLt a.1 b.1 = true) := by decide

example : encodeHeader (ofAscii "form-data") [(ofAscii "filename", some (ofAscii "a.txt")), (ofAscii "name", some (ofAscii "f"))]
    = ofAscii "form-data; filename=a.txt; name=f" := by decide

/-- days ↔ civil date, years 1970–9999 (the identity in fact holds for every day count, `civil_roundtrip_all`) -/
theorem civil_roundtrip (d : Nat) (_h : d < 2932897) :
    daysFromCivil (civilFromDays d).1 (civilFromDays d).2.1 (civilFromDays d).2.2 = d :=
  civil_roundtrip_all d

example : civilFromDays 2932896 = (9999, 12, 31) ∧ civilFromDays 0 = (1970, 1, 1) ∧
    civilFromDays 11016 = (2000, 2, 29) := by decide

/-- HTTP timestamps (whole seconds, years 1970–9999) round-trip through formatting and parsing -/
theorem timestamp_roundtrip (ts : Nat) (h : ts < 253402300800) : parseHttpDate (formatTimestamp ts) = some ts :=
  timestamp_roundtrip_proof ts h

/-- the bound is sharp: the first second of year 10000 does not fit the four-digit year -/
example : parseHttpDate (formatTimestamp 253402300800) ≠ some 253402300800 := by decide

/-- a time tuple `time.gmtime(ts)` formats like the integer `ts` (`calendar.timegm` inverts `gmtime`) -/
theorem tuple_timestamp (ts : Nat) :
    formatTimestampTuple (civilFromDays (ts / 86400)).1 (civilFromDays (ts / 86400)).2.1 (civilFromDays (ts / 86400)).2.2
      (ts % 86400 / 3600) (ts % 86400 / 60 % 60) (ts % 86400 % 60) = formatTimestamp ts := by
  unfold formatTimestampTuple
  rw [timegm_fields]

/-- a NAIVE `datetime` is read as UTC: holding the UTC wall-clock fields of `ts` it formats like the integer `ts` and so
    round-trips — whatever the process time zone, which is not an input of the model -/
theorem datetime_naive_roundtrip (ts : Nat) (h : ts < 253402300800) :
    formatTimestampDT (dateTimeAt ts none) = .ok (formatTimestamp ts) ∧ parseHttpDate (formatTimestamp ts) = some ts :=
  ⟨formatTimestampDT_naive_proof ts h, timestamp_roundtrip_proof ts h⟩

/-- an AWARE `datetime` showing the instant `ts` on a wall clock `off` seconds ahead of UTC (`loc = ts + off`, wall-clock
    year 1970–9999) formats like the integer `ts` and round-trips -/
theorem datetime_aware_roundtrip (ts loc : Nat) (off : Int) (hloc : (loc : Int) = ts + off) (h : ts < 253402300800)
    (hl : loc < 253402300800) :
    formatTimestampDT (dateTimeAt loc (some off)) = .ok (formatTimestamp ts) ∧ parseHttpDate (formatTimestamp ts) = some ts :=
  ⟨formatTimestampDT_aware_proof ts loc off hloc hl, timestamp_roundtrip_proof ts h⟩

/-- non-vacuity: 2013-01-27 18:43:20 UTC as naive fields, at -05:00 (13:43:20) and at +05:45 (2013-01-28 00:28:20) -/
example : dateTimeAt 1359312200 none = ⟨2013, 1, 27, 18, 43, 20, none⟩ ∧
    dateTimeAt 1359294200 (some (-18000)) = ⟨2013, 1, 27, 13, 43, 20, some (-18000)⟩ ∧
    dateTimeAt 1359332900 (some 20700) = ⟨2013, 1, 28, 0, 28, 20, some 20700⟩ ∧
    ((1359294200 : Nat) : Int) = (1359312200 : Nat) + (-18000) ∧ ((1359332900 : Nat) : Int) = (1359312200 : Nat) + 20700 := by
  decide
example : (formatTimestampDT ⟨2013, 1, 27, 13, 43, 20, some (-18000)⟩).toOption = some (ofAscii "Sun, 27 Jan 2013 18:43:20 GMT") := by decide
example : (formatTimestampDT ⟨2013, 1, 27, 18, 43, 20, none⟩).toOption = some (ofAscii "Sun, 27 Jan 2013 18:43:20 GMT") := by decide

/-- `url_concat` keeps the part before the query and the fragment, keeps the existing pairs and appends the arguments
    in order (text without lone surrogates) -/
theorem url_concat_preserves (url : Str) (args : List (Str × Str)) (hurl : url.all Wire.isScalar = true)
    (hargs : ∀ p ∈ args, p.1.all Wire.isScalar = true ∧ p.2.all Wire.isScalar = true) :
    (urlSplit (urlConcat url (some args))).1 = (urlSplit url).1 ∧
    (urlSplit (urlConcat url (some args))).2.2 = (urlSplit url).2.2 ∧
    parseQsl (urlSplit (urlConcat url (some args))).2.1 = parseQsl (urlSplit url).2.1 ++ args :=
  urlConcat_preserves url args hurl hargs

example : (ofAscii "http://h/p?a=1&b=%C3%A9#frag").all Wire.isScalar = true ∧
    (∀ p ∈ [(ofAscii "c d", [233, 8364, 128512]), (ofAscii "a", ofAscii "&=#?+%")],
      p.1.all Wire.isScalar = true ∧ p.2.all Wire.isScalar = true) := by decide

example : urlConcat (ofAscii "http://h/p?a=1#frag") (some [(ofAscii "c d", [233]), (ofAscii "a", ofAscii "&=#?+%")]) =
    ofAscii "http://h/p?a=1&c+d=%C3%A9&a=%26%3D%23%3F%2B%25#frag" := by decide

example : parseHttpDate (formatTimestamp 1359312200) = some 1359312200 := by decide
example : formatTimestamp 1359312200 = ofAscii "Sun, 27 Jan 2013 18:43:20 GMT" := by decide

/-! ### `re_unescape` -/

/-- `re_unescape` inverts `re.escape` on every string. -/
theorem re_unescape_escape (s : Str) : reUnescape (reEscape s) = .ok s := reUnescape_reEscape s

end TornadoModel.C43
