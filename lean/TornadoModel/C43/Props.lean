/- C43 — property theorems (see docs/C43.md for the reading of each clause). -/
import TornadoModel.C43.Lemmas
namespace TornadoModel.C43
open TornadoModel.C06 (Str isToken)

/-- `re_unescape` inverts `re.escape` on every string. -/
theorem re_unescape_escape (s : Str) : reUnescape (reEscape s) = .ok s := reUnescape_reEscape s

end TornadoModel.C43
