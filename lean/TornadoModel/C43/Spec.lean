/-
C43 — specification side.

* start lines: the RFC 9112 grammar as a *decomposition* (`line = method SP target SP version`), decided by
  brute force over every pair of cut points — no parsing strategy, nothing shared with the model's parser;
* plain IPv4 / IPv6 address text (RFC 4291 §2.2 forms 1–3, dotted-quad with decimal octets);
* "never raises" is the predicate `isUncaught`.
-/
import TornadoModel.C43.Model
namespace TornadoModel.C43.Spec
open TornadoModel.C43
open TornadoModel.C06 (Str isToken)

/-- every way to write `s = a ++ [sep] ++ b` -/
def cuts (sep : Nat) : Str → List (Str × Str)
  | [] => []
  | c :: cs =>
    let rest := (cuts sep cs).map (fun (a, b) => (c :: a, b))
    if c = sep then ([], cs) :: rest else rest

/-- request-line = method SP request-target SP HTTP-version, version HTTP/1.x -/
def RequestLine (line m t v : Str) : Prop :=
  line = m ++ [32] ++ t ++ [32] ++ v ∧ isToken m = true ∧ isTarget t = true ∧ isVersion1 v = true

/-- brute-force decision of `∃ m t v, RequestLine line m t v` with the witnesses -/
def requestLine (line : Str) : Option (Str × Str × Str) :=
  (cuts 32 line).findSome? (fun (m, r) =>
    (cuts 32 r).findSome? (fun (t, v) => if isToken m && isTarget t && isVersion1 v then some (m, t, v) else none))

/-- status-line = HTTP-version SP status-code SP [reason-phrase], version HTTP/1.x -/
def StatusLine (line v : Str) (code : Nat) (reason : Option Str) : Prop :=
  ∃ ds r, line = v ++ [32] ++ ds ++ [32] ++ r ∧ isVersion1 v = true ∧ ds.length = 3 ∧ ds.all isDigit = true ∧
    r.all isReasonChar = true ∧ code = decVal ds ∧ reason = (if r.isEmpty then none else some r)

def statusLine (line : Str) : Option (Str × Nat × Option Str) :=
  (cuts 32 line).findSome? (fun (v, r) =>
    (cuts 32 r).findSome? (fun (ds, rs) =>
      if isVersion1 v && ds.length = 3 && ds.all isDigit && rs.all isReasonChar then
        some (v, decVal ds, if rs.isEmpty then none else some rs) else none))

/-! ### plain IP address text -/

/-- decimal octet 0..255 without a leading zero -/
def isOctet (s : Str) : Bool :=
  !s.isEmpty && s.length ≤ 3 && s.all isDigit && (s.length = 1 || s.head? != some 48) && decVal s ≤ 255

def plainIPv4 (s : Str) : Bool :=
  let ps := splitAll 46 s
  ps.length = 4 && ps.all isOctet

def isHexGroup (s : Str) : Bool := !s.isEmpty && s.length ≤ 4 && s.all isHexDigit

/-- number of 16-bit units in a colon-separated run of groups (the last may be a dotted quad), or `none` -/
def units (s : Str) : Option Nat :=
  if s.isEmpty then some 0
  else
    let gs := splitAll 58 s
    let front := gs.dropLast
    match gs.getLast? with
    | none => none
    | some l =>
      if !front.all isHexGroup then none
      else if isHexGroup l then some gs.length
      else if plainIPv4 l then some (gs.length + 1)
      else none

/-- first occurrence of `::` -/
def splitDoubleColon : Str → Option (Str × Str)
  | [] => none
  | [_] => none
  | c :: d :: rest =>
    if c = 58 ∧ d = 58 then some ([], rest)
    else (splitDoubleColon (d :: rest)).map (fun (a, b) => (c :: a, b))

def plainIPv6 (s : Str) : Bool :=
  match splitDoubleColon s with
  | none => units s = some 8 && !s.isEmpty
  | some (l, r) =>
    -- the right part may not start with another ':' and the left part is a complete run
    (r.head? != some 58) &&
    (match units l, units r with
     | some a, some b => a + b ≤ 7 && !(l.getLast? = some 46 || (l.any (· = 46)))
     | _, _ => false)

/-- the characters a plain address is made of -/
def isIpChar (c : Nat) : Bool := isHexDigit c || c = 46 || c = 58

/-- plain address text: hex digits, dots and colons in one of the shapes above -/
def plainIP (s : Str) : Bool := s.all isIpChar && (plainIPv4 s || plainIPv6 s)

def isUncaught {α} : Except Err α → Bool
  | .error (.uncaught _) => true
  | _ => false

end TornadoModel.C43.Spec
