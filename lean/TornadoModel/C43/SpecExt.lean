/-
C43 — specification side, second part (added after the review):

* the RFC 9110 / 9112 / 5234 character classes written from the RFC text as literal code-point ranges — they share no
  definition with `Model.lean` (`Spec.RequestLine` / `Spec.StatusLine` use the model's `isToken`, `isTarget`, … ; the
  `rfc…_eq` lemmas in `Review.lean` show the two coincide, `requestLine_rfc` / `statusLine_rfc` restate the `_iff`
  theorems over these classes);
* `hostName`: what "is_valid_ip rejects host names" is about;
* `returns`: the outcome "the function returned" (stronger than `¬ isUncaught`, which also holds for HTTPInputError).
-/
import TornadoModel.C43.Spec
namespace TornadoModel.C43.Spec
open TornadoModel.C43
open TornadoModel.C06 (Str)

/-- RFC 5234 ALPHA = %x41-5A / %x61-7A -/
def rfcALPHA (c : Nat) : Bool := (0x41 ≤ c && c ≤ 0x5A) || (0x61 ≤ c && c ≤ 0x7A)
/-- RFC 5234 DIGIT = %x30-39 -/
def rfcDIGIT (c : Nat) : Bool := 0x30 ≤ c && c ≤ 0x39
/-- RFC 9110 §5.6.2 tchar = "!" / "#" / "$" / "%" / "&" / "'" / "*" / "+" / "-" / "." / "^" / "_" / "`" / "|" / "~" / DIGIT / ALPHA -/
def rfcTchar (c : Nat) : Bool :=
  c = 0x21 || c = 0x23 || c = 0x24 || c = 0x25 || c = 0x26 || c = 0x27 || c = 0x2A || c = 0x2B || c = 0x2D || c = 0x2E ||
  c = 0x5E || c = 0x5F || c = 0x60 || c = 0x7C || c = 0x7E || rfcDIGIT c || rfcALPHA c
/-- RFC 5234 VCHAR = %x21-7E -/
def rfcVCHAR (c : Nat) : Bool := 0x21 ≤ c && c ≤ 0x7E
/-- RFC 9110 §5.5 obs-text = %x80-FF -/
def rfcObsText (c : Nat) : Bool := 0x80 ≤ c && c ≤ 0xFF
/-- method = token = 1*tchar -/
def rfcToken (s : Str) : Bool := !s.isEmpty && s.all rfcTchar
/-- RFC 9112 §2.3 HTTP-version = "HTTP" "/" DIGIT "." DIGIT, restricted to major version 1 (the only one Tornado's HTTP/1
    parsers speak: `HTTP/2.0 …` is grammatical but refused with HTTPInputError — a deliberate restriction) -/
def rfcVersion1 (v : Str) : Bool :=
  match v with
  | [0x48, 0x54, 0x54, 0x50, 0x2F, a, 0x2E, b] => a = 0x31 && rfcDIGIT b
  | _ => false
/-- RFC 9112 §4 reason-phrase character: HTAB / SP / VCHAR / obs-text -/
def rfcReasonChar (c : Nat) : Bool := c = 0x09 || c = 0x20 || (rfcVCHAR c || rfcObsText c)
/-- NOT the RFC 9112 request-target (origin / absolute / authority / asterisk form, RFC 3986): Tornado's documented
    relaxation `1*( VCHAR / obs-text )` ("we allow everything but control chars and whitespace", `_ABNF.request_target`),
    a superset of the four RFC forms. -/
def relaxedTarget (t : Str) : Bool := !t.isEmpty && t.all (fun c => rfcVCHAR c || rfcObsText c)

/-- request-line = method SP request-target SP HTTP-version over the RFC classes (request-target relaxed as above) -/
def RfcRequestLine (line m t v : Str) : Prop :=
  line = m ++ [0x20] ++ t ++ [0x20] ++ v ∧ rfcToken m = true ∧ relaxedTarget t = true ∧ rfcVersion1 v = true

/-- status-line = HTTP-version SP status-code SP [ reason-phrase ], status-code = 3DIGIT -/
def RfcStatusLine (line v : Str) (code : Nat) (reason : Option Str) : Prop :=
  ∃ ds r, line = v ++ [0x20] ++ ds ++ [0x20] ++ r ∧ rfcVersion1 v = true ∧ ds.length = 3 ∧ ds.all rfcDIGIT = true ∧
    r.all rfcReasonChar = true ∧ code = decVal ds ∧ reason = (if r.isEmpty then none else some r)

/-! ### host names -/

/-- letter, digit or hyphen -/
def isLDH (c : Nat) : Bool := rfcALPHA c || rfcDIGIT c || c = 0x2D

/-- a letter that is neither a hexadecimal digit nor `x`/`X` (so `0x7f.1`, `dead.beef` and `::ffff` are not "names") -/
def isNameLetter (c : Nat) : Bool := rfcALPHA c && !isHexDigit c && c != 0x78 && c != 0x58

/-- a DNS-style host name: dot-separated non-empty LDH labels (an optional final dot), with at least one letter that
    cannot belong to a numeric address literal -/
def hostName (s : Str) : Bool :=
  let labels := splitAll 0x2E s
  let labels := if labels.getLast? = some [] then labels.dropLast else labels
  !labels.isEmpty && labels.all (fun l => !l.isEmpty && l.all isLDH) && s.any isNameLetter

/-- the function returned (no exception of any type, `HTTPInputError` and unmodelled stdlib behaviour included) -/
def returns {α} : Except Err α → Bool
  | .ok _ => true
  | .error _ => false

/-- the function returned, or it handed an RFC 2231 value to a stdlib codec that the model does not cover (the only
    `unmodelled` outcome of `parseHeader`); false for `HTTPInputError` and for every other exception type -/
def returnsOrUnmodelled {α} : Except Err α → Bool
  | .ok _ => true
  | .error .unmodelled => true
  | .error _ => false

end TornadoModel.C43.Spec
