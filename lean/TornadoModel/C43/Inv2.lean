/- C43 — `_parse_header (_encode_header k d) = (k, d)` for token-valued parameters: helper lemmas. -/
import TornadoModel.C43.Lemmas
namespace TornadoModel.C43
open TornadoModel.C06 (Str isToken isTchar joinWith lowerC)

/-! ### token characters -/

theorem tchar_cases (c : Nat) (h : isTchar c = true) :
    33 ≤ c ∧ c ≤ 126 ∧ c ≠ 34 ∧ c ≠ 59 ∧ c ≠ 60 ∧ c ≠ 61 ∧ c ≠ 92 := by
  simp only [isTchar, C06.isAlnum, List.contains_cons, List.contains_nil, Bool.or_false, Bool.or_eq_true,
    Bool.and_eq_true, decide_eq_true_eq, beq_iff_eq] at h
  omega

theorem tchar_not_space (c : Nat) (h : isTchar c = true) : isPySpace c = false := by
  have hc := tchar_cases c h
  cases hs : isPySpace c with
  | false => rfl
  | true =>
    simp only [isPySpace, Bool.or_eq_true, Bool.and_eq_true, decide_eq_true_eq] at hs
    omega

theorem token_all (s : Str) (h : isToken s = true) : ∀ c ∈ s, isTchar c = true := by
  simp only [isToken, Bool.and_eq_true] at h
  exact List.all_eq_true.mp h.2

theorem token_ne (s : Str) (h : isToken s = true) : s ≠ [] := by
  intro e
  subst e
  simp [isToken] at h

/-- `name=value` -/
def piece (p : Str × Str) : Str := p.1 ++ 61 :: p.2

theorem piece_chars (p : Str × Str) (h1 : isToken p.1 = true) (h2 : isToken p.2 = true) :
    ∀ c ∈ piece p, 33 ≤ c ∧ c ≤ 126 ∧ c ≠ 34 ∧ c ≠ 59 ∧ c ≠ 92 := by
  intro c hc
  simp only [piece, List.mem_append, List.mem_cons] at hc
  rcases hc with hc | hc | hc
  · have := tchar_cases c (token_all _ h1 c hc); omega
  · omega
  · have := tchar_cases c (token_all _ h2 c hc); omega

/-! ### `_parseparam` on text without `;`, `"` and `\` -/

theorem segs_quiet (w rest h : Str) (t : List Str) (hw : ∀ c ∈ w, c ≠ 59 ∧ c ≠ 34 ∧ c ≠ 92)
    (hr : segs rest false false = h :: t) : segs (w ++ rest) false false = (w ++ h) :: t := by
  induction w with
  | nil => simpa using hr
  | cons c cs ih =>
    have hc := hw c List.mem_cons_self
    have ih' := ih (fun c hc => hw c (List.mem_cons_of_mem _ hc))
    simp only [List.cons_append]
    rw [segs]
    simp [hc.1, hc.2.1, hc.2.2, ih']

theorem segs_join (p : Str) (ps : List Str) (hp : ∀ c ∈ p, c ≠ 59 ∧ c ≠ 34 ∧ c ≠ 92)
    (hps : ∀ q ∈ ps, ∀ c ∈ q, c ≠ 59 ∧ c ≠ 34 ∧ c ≠ 92) :
    segs (joinWith [59, 32] (p :: ps)) false false = p :: ps.map (32 :: ·) := by
  induction ps generalizing p with
  | nil =>
    have := segs_quiet p [] [] [] hp (by simp [segs])
    simpa [joinWith] using this
  | cons q qs ih =>
    have e : joinWith [59, 32] (p :: q :: qs) = p ++ (59 :: 32 :: joinWith [59, 32] (q :: qs)) := by
      simp [joinWith]
    rw [e]
    have ih' := ih q (hps q List.mem_cons_self) (fun r hr => hps r (List.mem_cons_of_mem _ hr))
    have h32 : segs (32 :: joinWith [59, 32] (q :: qs)) false false = (32 :: q) :: qs.map (32 :: ·) := by
      have := segs_quiet [32] _ _ _ (by simp) ih'
      simpa using this
    have h59 : segs (59 :: 32 :: joinWith [59, 32] (q :: qs)) false false =
        [] :: (32 :: q) :: qs.map (32 :: ·) := by
      rw [segs]
      simp [h32]
    have := segs_quiet p _ _ _ hp h59
    simpa using this

/-! ### `strip` -/

theorem dropWhile_all_false (p : Nat → Bool) (l : Str) (h : ∀ c ∈ l, p c = false) : l.dropWhile p = l := by
  cases l with
  | nil => rfl
  | cons c cs => simp [h c List.mem_cons_self]

theorem strip_nospace (w : Str) (h : ∀ c ∈ w, isPySpace c = false) : strip w = w := by
  unfold strip rstrip lstrip
  rw [dropWhile_all_false _ w h, dropWhile_all_false _ w.reverse (fun c hc => h c (List.mem_reverse.mp hc)),
    List.reverse_reverse]

theorem strip_sp (w : Str) : strip (32 :: w) = strip w := by
  have : isPySpace 32 = true := by decide
  simp [strip, lstrip, this]

theorem token_strip (s : Str) (h : isToken s = true) : strip s = s :=
  strip_nospace s (fun c hc => tchar_not_space c (token_all s h c hc))

theorem piece_strip (p : Str × Str) (h1 : isToken p.1 = true) (h2 : isToken p.2 = true) : strip (piece p) = piece p := by
  apply strip_nospace
  intro c hc
  have := piece_chars p h1 h2 c hc
  cases hs : isPySpace c with
  | false => rfl
  | true =>
    simp only [isPySpace, Bool.or_eq_true, Bool.and_eq_true, decide_eq_true_eq] at hs
    omega

/-! ### `sorted(items)` of an already sorted list -/

theorem sortKV_sorted (l : List (Str × Option Str)) (h : l.Pairwise (fun a b => strLt a.1 b.1 = true)) :
    sortKV l = l := by
  induction l with
  | nil => rfl
  | cons x xs ih =>
    have hx := List.pairwise_cons.mp h
    have e : sortKV (x :: xs) = insertKV x (sortKV xs) := rfl
    rw [e, ih hx.2]
    cases xs with
    | nil => rfl
    | cons y ys => simp [insertKV, hx.1 y List.mem_cons_self]

theorem strLt_irrefl (s : Str) : strLt s s = false := by
  induction s with
  | nil => rfl
  | cons c cs ih => simp [strLt, ih]

/-! ### the encoder's output, cut into pieces again -/

theorem encodeHeader_eq (k : Str) (d : List (Str × Str)) (hs : d.Pairwise (fun a b => strLt a.1 b.1 = true)) :
    encodeHeader k (d.map (fun p => (p.1, some p.2))) = joinWith [59, 32] (k :: d.map piece) := by
  unfold encodeHeader
  rw [sortKV_sorted _ (List.pairwise_map.mpr hs), List.map_map]
  congr 2
  apply List.map_congr_left
  intro p _
  simp [piece]

theorem parseparam_encode (k : Str) (d : List (Str × Str)) (hk : isToken k = true)
    (hd : ∀ p ∈ d, isToken p.1 = true ∧ isToken p.2 = true) (hs : d.Pairwise (fun a b => strLt a.1 b.1 = true)) :
    parseparam (encodeHeader k (d.map (fun p => (p.1, some p.2)))) = k :: d.map piece := by
  rw [encodeHeader_eq k d hs]
  unfold parseparam
  rw [segs_join k (d.map piece)
    (fun c hc => by have := tchar_cases c (token_all k hk c hc); omega)
    (fun q hq c hc => by
      obtain ⟨p, hp, rfl⟩ := List.mem_map.mp hq
      have := piece_chars p (hd p hp).1 (hd p hp).2 c hc
      omega)]
  simp only [List.map_cons, List.map_map, token_strip k hk]
  congr 1
  apply List.map_congr_left
  intro p hp
  simp only [Function.comp]
  rw [strip_sp, piece_strip p (hd p hp).1 (hd p hp).2]

theorem rawParams_pieces (d : List (Str × Str))
    (hd : ∀ p ∈ d, isToken p.1 = true ∧ lowerAscii p.1 = p.1 ∧ isToken p.2 = true) : rawParams (d.map piece) = d := by
  induction d with
  | nil => rfl
  | cons p ps ih =>
    obtain ⟨h1, h2, h3⟩ := hd p List.mem_cons_self
    have ih' := ih (fun q hq => hd q (List.mem_cons_of_mem _ hq))
    have hne : (61 : Nat) ∉ p.1 := fun hm => by
      have := tchar_cases 61 (token_all _ h1 61 hm); omega
    have hsp : splitFirst 61 (piece p) = some (p.1, p.2) := splitFirst_append 61 p.1 p.2 hne
    unfold rawParams at ih' ⊢
    simp only [List.map_cons, List.filterMap_cons, hsp, Option.map_some, ih', token_strip _ h1, token_strip _ h3, h2]

/-! ### `decode_params` on plain parameters -/

theorem groupParams_plain_eq (ps : List (Str × Str)) (g : Grouped) (h : ∀ p ∈ ps, continuation p.1 = none) :
    groupParams ps g = .ok { g with plain := g.plain ++ ps.map (fun p => (p.1, emailUnquote p.2)) } := by
  induction ps generalizing g with
  | nil => simp [groupParams]
  | cons p ps ih =>
    obtain ⟨name, value⟩ := p
    have h0 : continuation name = none := h (name, value) List.mem_cons_self
    simp only [groupParams, h0]
    rw [ih _ (fun p hp => h p (List.mem_cons_of_mem _ hp))]
    simp [List.append_assoc]

theorem emailUnquote_cons_cons (c d : Nat) (rest : Str) :
    emailUnquote (c :: d :: rest) =
      (if c = 34 ∧ (d :: rest).getLast?.getD 0 = 34 then replace2 92 34 34 (replace2 92 92 92 (dropLast (d :: rest)))
       else if c = 60 ∧ (d :: rest).getLast?.getD 0 = 62 then dropLast (d :: rest) else c :: d :: rest) := rfl

theorem emailUnquote_plain : ∀ (v : Str), (∀ c ∈ v, c ≠ 34 ∧ c ≠ 60) → emailUnquote v = v
  | [], _ => rfl
  | [_], _ => rfl
  | c :: d :: rest, h => by
    have hc := h c List.mem_cons_self
    rw [emailUnquote_cons_cons]
    simp [hc.1, hc.2]

theorem emailQuote_plain (v : Str) (h : ∀ c ∈ v, c ≠ 92 ∧ c ≠ 34) : emailQuote v = v := by
  induction v with
  | nil => rfl
  | cons c cs ih =>
    have hc := h c List.mem_cons_self
    have e : emailQuote (c :: cs) = (if c = 92 ∨ c = 34 then [92, c] else [c]) ++ emailQuote cs := by
      simp [emailQuote, List.flatMap_cons]
    rw [e, ih (fun c hc => h c (List.mem_cons_of_mem _ hc))]
    simp [hc.1, hc.2]

theorem replace2_plain (p q r : Nat) : ∀ (s : Str), p ∉ s → replace2 p q r s = s
  | [], _ => rfl
  | [_], _ => rfl
  | c :: d :: rest, h => by
    have hc : c ≠ p := fun e => h (by simp [e])
    have ih := replace2_plain p q r (d :: rest) (fun hm => h (List.mem_cons_of_mem _ hm))
    have e : replace2 p q r (c :: d :: rest) =
        if c = p ∧ d = q then r :: replace2 p q r rest else c :: replace2 p q r (d :: rest) := rfl
    rw [e, ih]
    simp [hc]

/-- `collapse_rfc2231_value('"%s"' % quote(v)) = v` for text without `"` and `\` -/
theorem emailUnquote_quoted (v : Str) (hv : ∀ c ∈ v, c ≠ 92 ∧ c ≠ 34) :
    emailUnquote ([34] ++ emailQuote v ++ [34]) = v := by
  rw [emailQuote_plain v hv]
  have h92 : 92 ∉ v := fun hm => (hv 92 hm).1 rfl
  cases v with
  | nil => decide
  | cons a as =>
    have e : [34] ++ (a :: as) ++ [34] = 34 :: a :: (as ++ [34]) := by simp
    rw [e, emailUnquote_cons_cons]
    have e2 : a :: (as ++ [34]) = (a :: as) ++ [34] := rfl
    rw [e2]
    have hl : ((a :: as) ++ [34]).getLast?.getD 0 = 34 := by rw [List.getLast?_concat]; rfl
    have hdl : dropLast ((a :: as) ++ [34]) = a :: as := List.dropLast_concat
    rw [hl, hdl, replace2_plain 92 92 92 _ h92, replace2_plain 92 34 34 _ h92]
    simp

/-! ### the dict built from distinct names -/

theorem dset_fresh {β} (k : Str) (v : β) (l : List (Str × β)) (h : ∀ p ∈ l, p.1 ≠ k) : dset k v l = l ++ [(k, v)] := by
  induction l with
  | nil => rfl
  | cons x xs ih =>
    have hx := h x List.mem_cons_self
    simp [dset, hx, ih (fun p hp => h p (List.mem_cons_of_mem _ hp))]

theorem foldl_dset (val : Str → Str) : ∀ (ps acc : List (Str × Str)),
    (acc.map Prod.fst ++ ps.map Prod.fst).Pairwise (· ≠ ·) →
    ps.foldl (fun d (x : Str × Str) => match x with | (n, v) => dset n (val v) d) acc =
      acc ++ ps.map (fun p => (p.1, val p.2))
  | [], acc, _ => by simp
  | (n, v) :: ps, acc, h => by
    have hfresh : ∀ p ∈ acc, p.1 ≠ n := by
      intro p hp
      have := (List.pairwise_append.mp h).2.2 p.1 (List.mem_map_of_mem hp) n (by simp)
      exact this
    have h' : ((acc ++ [(n, val v)]).map Prod.fst ++ ps.map Prod.fst).Pairwise (· ≠ ·) := by
      simpa using h
    have ih := foldl_dset val ps (acc ++ [(n, val v)]) h'
    simp only [List.foldl_cons, dset_fresh n (val v) acc hfresh, ih]
    simp

theorem keys_distinct (d : List (Str × Str)) (hs : d.Pairwise (fun a b => strLt a.1 b.1 = true)) :
    (d.map Prod.fst).Pairwise (· ≠ ·) := by
  refine List.pairwise_map.mpr (hs.imp ?_)
  intro a b hab e
  rw [e, strLt_irrefl] at hab
  exact Bool.noConfusion hab

/-! ### the round trip -/

theorem param_roundtrip_proof (k : Str) (d : List (Str × Str)) (hk : isToken k = true)
    (hd : ∀ p ∈ d, isToken p.1 = true ∧ lowerAscii p.1 = p.1 ∧ continuation p.1 = none ∧ isToken p.2 = true)
    (hs : d.Pairwise (fun a b => strLt a.1 b.1 = true)) :
    parseHeader (encodeHeader k (d.map (fun p => (p.1, some p.2)))) = .ok (k, d) := by
  have hpp := parseparam_encode k d hk (fun p hp => ⟨(hd p hp).1, (hd p hp).2.2.2⟩) hs
  have hraw := rawParams_pieces d (fun p hp => ⟨(hd p hp).1, (hd p hp).2.1, (hd p hp).2.2.2⟩)
  have hmap1 : d.map (fun p => (p.1, emailUnquote p.2)) = d := by
    have : ∀ p ∈ d, (fun p : Str × Str => (p.1, emailUnquote p.2)) p = id p := by
      intro p hp
      have hv : emailUnquote p.2 = p.2 := emailUnquote_plain p.2 (fun c hc => by
        have := tchar_cases c (token_all _ (hd p hp).2.2.2 c hc); omega)
      simp [hv]
    rw [List.map_congr_left this, List.map_id]
  have hgrp : groupParams d {} = .ok { plain := d, ext := [] } := by
    rw [groupParams_plain_eq d {} (fun p hp => (hd p hp).2.2.1), hmap1]
    simp
  have hmap2 : d.map (fun p => (p.1, (fun v => emailUnquote ([34] ++ emailQuote v ++ [34])) p.2)) = d := by
    have : ∀ p ∈ d, (fun p : Str × Str => (p.1, (fun v => emailUnquote ([34] ++ emailQuote v ++ [34])) p.2)) p = id p := by
      intro p hp
      have hv : emailUnquote ([34] ++ emailQuote p.2 ++ [34]) = p.2 := emailUnquote_quoted p.2 (fun c hc => by
        have := tchar_cases c (token_all _ (hd p hp).2.2.2 c hc); omega)
      show (p.1, emailUnquote ([34] ++ emailQuote p.2 ++ [34])) = p
      rw [hv]
    rw [List.map_congr_left this, List.map_id]
  have hfold := foldl_dset (fun v => emailUnquote ([34] ++ emailQuote v ++ [34])) d [] (by simpa using keys_distinct d hs)
  rw [hmap2] at hfold
  simp only [List.nil_append] at hfold
  unfold parseHeader
  simp only [hpp, hraw, hgrp, mixedConts, List.any_nil, Bool.false_eq_true, if_false, List.foldlM_nil]
  rw [hfold]
  rfl

end TornadoModel.C43
