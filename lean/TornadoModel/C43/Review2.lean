/- C43 — the oracle's brute-force deciders `Spec.requestLine` / `Spec.statusLine` decide the Props `Spec.RequestLine` /
   `Spec.StatusLine` used in the `_iff` theorems, and therefore equal the model's parsers. -/
import TornadoModel.C43.Lemmas
namespace TornadoModel.C43
open TornadoModel.C06 (Str isToken)

theorem mem_cuts (sep : Nat) (s a b : Str) : (a, b) ∈ Spec.cuts sep s ↔ s = a ++ sep :: b := by
  induction s generalizing a with
  | nil => simp [Spec.cuts]
  | cons c cs ih =>
    have hrest : (a, b) ∈ (Spec.cuts sep cs).map (fun (p : Str × Str) => (c :: p.1, p.2)) ↔ ∃ a', a = c :: a' ∧ cs = a' ++ sep :: b := by
      simp only [List.mem_map, Prod.mk.injEq, Prod.exists]
      constructor
      · rintro ⟨a', b', hm, rfl, rfl⟩
        exact ⟨a', rfl, (ih a').mp hm⟩
      · rintro ⟨a', rfl, h⟩
        exact ⟨a', b, (ih a').mpr h, rfl, rfl⟩
    simp only [Spec.cuts]
    split
    · rename_i hc
      subst hc
      rw [List.mem_cons, hrest]
      constructor
      · rintro (h | ⟨a', rfl, h⟩)
        · simp only [Prod.mk.injEq] at h
          obtain ⟨rfl, rfl⟩ := h
          rfl
        · rw [h]; rfl
      · intro h
        cases a with
        | nil =>
          left
          simp only [List.nil_append, List.cons.injEq, true_and] at h
          rw [h]
        | cons x a' =>
          right
          simp only [List.cons_append, List.cons.injEq] at h
          exact ⟨a', by rw [h.1], h.2⟩
    · rename_i hc
      rw [hrest]
      constructor
      · rintro ⟨a', rfl, h⟩
        rw [h]; rfl
      · intro h
        cases a with
        | nil =>
          simp only [List.nil_append, List.cons.injEq] at h
          exact absurd h.1 hc
        | cons x a' =>
          simp only [List.cons_append, List.cons.injEq] at h
          exact ⟨a', by rw [h.1], h.2⟩

/-- soundness of the brute-force decider -/
theorem requestLine_sound (line m t v : Str) (h : Spec.requestLine line = some (m, t, v)) : Spec.RequestLine line m t v := by
  unfold Spec.requestLine at h
  obtain ⟨⟨m', r⟩, hm, h2⟩ := List.exists_of_findSome?_eq_some h
  obtain ⟨⟨t', v'⟩, ht, h3⟩ := List.exists_of_findSome?_eq_some h2
  simp only at h3
  split at h3
  · rename_i hc
    simp only [Option.some.injEq, Prod.mk.injEq] at h3
    obtain ⟨rfl, rfl, rfl⟩ := h3
    simp only [Bool.and_eq_true] at hc
    refine ⟨?_, hc.1.1, hc.1.2, hc.2⟩
    rw [(mem_cuts 32 line _ _).mp hm, (mem_cuts 32 r _ _).mp ht]
    simp
  · exact absurd h3 (by simp)

theorem statusLine_sound (line v : Str) (code : Nat) (reason : Option Str) (h : Spec.statusLine line = some (v, code, reason)) :
    Spec.StatusLine line v code reason := by
  unfold Spec.statusLine at h
  obtain ⟨⟨v', r⟩, hm, h2⟩ := List.exists_of_findSome?_eq_some h
  obtain ⟨⟨ds, rs⟩, ht, h3⟩ := List.exists_of_findSome?_eq_some h2
  simp only at h3
  split at h3
  · rename_i hc
    simp only [Option.some.injEq, Prod.mk.injEq] at h3
    obtain ⟨rfl, rfl, rfl⟩ := h3
    simp only [Bool.and_eq_true, decide_eq_true_eq] at hc
    refine ⟨ds, rs, ?_, hc.1.1.1, hc.1.1.2, hc.1.2, hc.2, rfl, rfl⟩
    rw [(mem_cuts 32 line _ _).mp hm, (mem_cuts 32 r _ _).mp ht]
    simp
  · exact absurd h3 (by simp)

/-- some decomposition exists ⇒ the decider finds one -/
theorem requestLine_isSome (line m t v : Str) (h : Spec.RequestLine line m t v) : (Spec.requestLine line).isSome = true := by
  obtain ⟨hl, hm, ht, hv⟩ := h
  unfold Spec.requestLine
  rw [List.findSome?_isSome_iff]
  refine ⟨(m, t ++ 32 :: v), (mem_cuts 32 line _ _).mpr (by rw [hl]; simp), ?_⟩
  simp only
  rw [List.findSome?_isSome_iff]
  refine ⟨(t, v), (mem_cuts 32 _ _ _).mpr rfl, ?_⟩
  simp [hm, ht, hv]

theorem statusLine_isSome (line v : Str) (code : Nat) (reason : Option Str) (h : Spec.StatusLine line v code reason) :
    (Spec.statusLine line).isSome = true := by
  obtain ⟨ds, r, hl, hv, hlen, hds, hr, -, -⟩ := h
  unfold Spec.statusLine
  rw [List.findSome?_isSome_iff]
  refine ⟨(v, ds ++ 32 :: r), (mem_cuts 32 line _ _).mpr (by rw [hl]; simp), ?_⟩
  simp only
  rw [List.findSome?_isSome_iff]
  refine ⟨(ds, r), (mem_cuts 32 _ _ _).mpr rfl, ?_⟩
  simp [hv, hlen, hds, hr]

end TornadoModel.C43
