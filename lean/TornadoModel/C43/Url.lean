/- C43 — `url_concat`: the query string written by `urlencode` reads back as the pairs it was built from. -/
import TornadoModel.C43.Utf8
namespace TornadoModel.C43
open TornadoModel.C06 (Str joinWith)
open TornadoModel

/-! ### characters written by `quote_plus` -/

theorem unres_facts (c : Nat) (h : isUnreserved c = true) :
    c < 128 ∧ c ≠ 37 ∧ c ≠ 43 ∧ c ≠ 61 ∧ c ≠ 38 ∧ c ≠ 35 ∧ c ≠ 63 ∧ c ≠ 32 := by
  simp only [isUnreserved, isAlnum, isDigit, Bool.or_eq_true, Bool.and_eq_true, decide_eq_true_eq] at h
  omega

/-- `quote_plus` of one character -/
def qpC (c : Nat) : Str := if isUnreserved c then [c] else if c = 32 then [43] else (utf8EncC c).flatMap encByte

/-- the same after `+` → space -/
def qsC (c : Nat) : Str := if isUnreserved c || c = 32 then [c] else (utf8EncC c).flatMap encByte

theorem quotePlus_eq (s : Str) : quotePlus s = s.flatMap qpC := rfl

theorem encByte_chars (b : Nat) (h : b < 256) : ∀ x ∈ encByte b, x = 37 ∨ isUnreserved x = true := by
  intro x hx
  simp only [encByte, List.mem_cons, List.not_mem_nil, or_false] at hx
  rcases hx with hx | hx | hx
  · exact Or.inl hx
  · exact Or.inr (hx ▸ (hexUpper_facts (b / 16) (by omega)).2.2)
  · exact Or.inr (hx ▸ (hexUpper_facts (b % 16) (by omega)).2.2)

theorem encBytes_chars (c : Nat) (hc : Wire.isScalar c = true) :
    ∀ x ∈ (utf8EncC c).flatMap encByte, x = 37 ∨ isUnreserved x = true := by
  intro x hx
  obtain ⟨b, hb, hxb⟩ := List.mem_flatMap.mp hx
  exact encByte_chars b (utf8EncC_bytes c hc b hb) x hxb

theorem qpC_chars (c : Nat) (hc : Wire.isScalar c = true) :
    ∀ x ∈ qpC c, x = 37 ∨ x = 43 ∨ isUnreserved x = true := by
  intro x hx
  unfold qpC at hx
  split at hx
  · rename_i hu
    simp only [List.mem_cons, List.not_mem_nil, or_false] at hx
    exact Or.inr (Or.inr (hx ▸ hu))
  · split at hx
    · simp only [List.mem_cons, List.not_mem_nil, or_false] at hx
      exact Or.inr (Or.inl hx)
    · rcases encBytes_chars c hc x hx with h | h
      · exact Or.inl h
      · exact Or.inr (Or.inr h)

theorem quotePlus_chars (s : Str) (hs : ∀ c ∈ s, Wire.isScalar c = true) :
    ∀ x ∈ quotePlus s, x = 37 ∨ x = 43 ∨ isUnreserved x = true := by
  intro x hx
  rw [quotePlus_eq] at hx
  obtain ⟨c, hc, hxc⟩ := List.mem_flatMap.mp hx
  exact qpC_chars c (hs c hc) x hxc

theorem quotePlus_not_mem (s : Str) (hs : ∀ c ∈ s, Wire.isScalar c = true) (y : Nat)
    (hy : y = 61 ∨ y = 38 ∨ y = 35 ∨ y = 63) : y ∉ quotePlus s := by
  intro hm
  rcases quotePlus_chars s hs y hm with h | h | h
  · omega
  · omega
  · have := unres_facts y h; omega

/-! ### `+` → space -/

theorem plusToSpace_id (l : Str) (h : 43 ∉ l) : plusToSpace l = l := by
  unfold plusToSpace
  have : ∀ c ∈ l, (fun c => if c = 43 then 32 else c) c = id c := by
    intro c hc
    have : c ≠ 43 := fun e => h (e ▸ hc)
    simp [this]
  rw [List.map_congr_left this, List.map_id]

theorem plusToSpace_qpC (c : Nat) (hc : Wire.isScalar c = true) : plusToSpace (qpC c) = qsC c := by
  unfold qpC qsC
  by_cases hu : isUnreserved c = true
  · have := unres_facts c hu
    simp only [hu, if_true, Bool.true_or]
    exact plusToSpace_id [c] (by simp; omega)
  · by_cases h32 : c = 32
    · subst h32
      decide
    · simp only [hu, if_false, h32, Bool.false_eq_true, decide_false, Bool.or_false]
      apply plusToSpace_id
      intro hm
      rcases encBytes_chars c hc 43 hm with h | h
      · omega
      · have := unres_facts 43 h; omega

theorem plusToSpace_quotePlus (s : Str) (hs : ∀ c ∈ s, Wire.isScalar c = true) :
    plusToSpace (quotePlus s) = s.flatMap qsC := by
  rw [quotePlus_eq]
  induction s with
  | nil => rfl
  | cons c cs ih =>
    have e : plusToSpace (qpC c ++ cs.flatMap qpC) = plusToSpace (qpC c) ++ plusToSpace (cs.flatMap qpC) := by
      simp [plusToSpace]
    rw [List.flatMap_cons, List.flatMap_cons, e, plusToSpace_qpC c (hs c List.mem_cons_self),
      ih (fun x hx => hs x (List.mem_cons_of_mem _ hx))]

/-! ### what `unquote` sees -/

theorem qsC_ascii (c : Nat) (hc : Wire.isScalar c = true) : ∀ x ∈ qsC c, x < 128 := by
  intro x hx
  unfold qsC at hx
  split at hx
  · rename_i hu
    simp only [List.mem_cons, List.not_mem_nil, or_false] at hx
    subst hx
    simp only [Bool.or_eq_true, decide_eq_true_eq] at hu
    rcases hu with hu | hu
    · exact (unres_facts x hu).1
    · omega
  · rcases encBytes_chars c hc x hx with h | h
    · omega
    · exact (unres_facts x h).1

theorem qsC_pct (c : Nat) (rest : Str) (hc : Wire.isScalar c = true) :
    pctBytes (qsC c ++ rest) = utf8EncC c ++ pctBytes rest := by
  unfold qsC
  split
  · rename_i hu
    simp only [Bool.or_eq_true, decide_eq_true_eq] at hu
    have h : c < 128 ∧ c ≠ 37 := by
      rcases hu with hu | hu
      · have := unres_facts c hu; omega
      · omega
    have e : utf8EncC c = [c] := by simp [utf8EncC, h.1]
    rw [e]
    exact pctBytes_plain c rest h.2
  · exact pctBytes_encBytes (utf8EncC c) rest (utf8EncC_bytes c hc)

theorem qs_pct (s : Str) (hs : ∀ c ∈ s, Wire.isScalar c = true) : pctBytes (s.flatMap qsC) = utf8Enc s := by
  induction s with
  | nil => rfl
  | cons c cs ih =>
    have e : utf8Enc (c :: cs) = utf8EncC c ++ utf8Enc cs := by simp [utf8Enc, List.flatMap_cons]
    rw [List.flatMap_cons, qsC_pct c _ (hs c List.mem_cons_self), ih (fun x hx => hs x (List.mem_cons_of_mem _ hx)), e]

theorem qs_no_pct (s : Str) (h : 37 ∉ s.flatMap qsC) : s.flatMap qsC = s := by
  induction s with
  | nil => rfl
  | cons c cs ih =>
    rw [List.flatMap_cons] at h ⊢
    have h1 : 37 ∉ qsC c := fun hm => h (List.mem_append_left _ hm)
    have h2 : 37 ∉ cs.flatMap qsC := fun hm => h (List.mem_append_right _ hm)
    rw [ih h2]
    have : qsC c = [c] := by
      unfold qsC at h1 ⊢
      split
      · rfl
      · rename_i hu
        simp only [hu] at h1
        exfalso
        cases hb : utf8EncC c with
        | nil => exact utf8EncC_ne_nil c hb
        | cons b bs =>
          rw [hb] at h1
          exact h1 (by simp [encByte])
    rw [this]
    rfl

theorem asciiRuns_ascii (t : Str) (hne : t ≠ []) (h : ∀ x ∈ t, x < 128) : asciiRuns t = [(true, t)] := by
  induction t with
  | nil => exact absurd rfl hne
  | cons c cs ih =>
    have hc : c < 128 := h c List.mem_cons_self
    cases cs with
    | nil => simp [asciiRuns, hc]
    | cons d ds =>
      have ih' := ih (by simp) (fun x hx => h x (List.mem_cons_of_mem _ hx))
      rw [asciiRuns, ih']
      simp [hc]

/-- `unquote(quote_plus(s).replace("+", " ")) = s` for text without lone surrogates -/
theorem unquote_quote (s : Str) (hs : ∀ c ∈ s, Wire.isScalar c = true) :
    unquoteUtf8 (plusToSpace (quotePlus s)) = s := by
  rw [plusToSpace_quotePlus s hs]
  by_cases h37 : 37 ∈ s.flatMap qsC
  · have hc : (s.flatMap qsC).contains 37 = true := by simpa using h37
    have hne : s.flatMap qsC ≠ [] := fun e => by rw [e] at h37; exact absurd h37 (by simp)
    have hasc : ∀ x ∈ s.flatMap qsC, x < 128 := by
      intro x hx
      obtain ⟨c, hc, hxc⟩ := List.mem_flatMap.mp hx
      exact qsC_ascii c (hs c hc) x hxc
    unfold unquoteUtf8
    simp only [hc, Bool.not_true, Bool.false_eq_true, if_false, asciiRuns_ascii _ hne hasc, List.flatMap_cons,
      List.flatMap_nil, List.append_nil, if_true]
    rw [qs_pct s hs]
    exact utf8Dec_enc s (List.all_eq_true.mpr hs)
  · have hc : (s.flatMap qsC).contains 37 = false := by simpa using h37
    unfold unquoteUtf8
    simp only [hc, Bool.not_false, if_true]
    exact qs_no_pct s h37

/-! ### `split` / `join` -/

theorem splitFirst_none (sep : Nat) (s : Str) (h : splitFirst sep s = none) : sep ∉ s := by
  induction s with
  | nil => simp
  | cons c cs ih =>
    simp only [splitFirst] at h
    split at h
    · simp at h
    · rename_i hc
      cases hs : splitFirst sep cs with
      | none =>
        intro hm
        rcases List.mem_cons.mp hm with e | e
        · exact hc e.symm
        · exact ih hs e
      | some p => simp [hs] at h

theorem splitFirst_not_mem (sep : Nat) (s : Str) (h : sep ∉ s) : splitFirst sep s = none := by
  cases hs : splitFirst sep s with
  | none => rfl
  | some p =>
    obtain ⟨a, b⟩ := p
    have := (splitFirst_some sep s a b hs).1
    exact absurd (by rw [this]; simp) h

theorem splitAll_nosep (sep : Nat) (w : Str) (h : sep ∉ w) : splitAll sep w = [w] := by
  induction w with
  | nil => rfl
  | cons c cs ih =>
    have hc : c ≠ sep := fun e => h (by simp [e])
    simp [splitAll, hc, ih (fun hm => h (List.mem_cons_of_mem _ hm))]

theorem splitAll_append (sep : Nat) (w rest : Str) (h : sep ∉ w) :
    splitAll sep (w ++ sep :: rest) = w :: splitAll sep rest := by
  induction w with
  | nil => simp [splitAll]
  | cons c cs ih =>
    have hc : c ≠ sep := fun e => h (by simp [e])
    simp [splitAll, hc, ih (fun hm => h (List.mem_cons_of_mem _ hm))]

theorem splitAll_join (sep : Nat) (w : Str) (ws : List Str) (hw : sep ∉ w) (hws : ∀ v ∈ ws, sep ∉ v) :
    splitAll sep (joinWith [sep] (w :: ws)) = w :: ws := by
  induction ws generalizing w with
  | nil => simpa [joinWith] using splitAll_nosep sep w hw
  | cons v vs ih =>
    have e : joinWith [sep] (w :: v :: vs) = w ++ sep :: joinWith [sep] (v :: vs) := by simp [joinWith]
    rw [e, splitAll_append sep w _ hw, ih v (hws v List.mem_cons_self) (fun u hu => hws u (List.mem_cons_of_mem _ hu))]

theorem splitAll_mem (sep : Nat) (s : Str) : ∀ w ∈ splitAll sep s, ∀ x ∈ w, x ∈ s := by
  induction s with
  | nil =>
    intro w hw x hx
    simp only [splitAll, List.mem_cons, List.not_mem_nil, or_false] at hw
    subst hw
    exact hx
  | cons c cs ih =>
    intro w hw x hx
    simp only [splitAll] at hw
    split at hw
    · rcases List.mem_cons.mp hw with e | e
      · subst e; simp at hx
      · exact List.mem_cons_of_mem _ (ih w e x hx)
    · cases hsp : splitAll sep cs with
      | nil =>
        simp only [hsp, List.mem_cons, List.not_mem_nil, or_false] at hw
        subst hw
        simp only [List.mem_cons, List.not_mem_nil, or_false] at hx
        simp [hx]
      | cons w0 ws =>
        simp only [hsp] at hw ih
        rcases List.mem_cons.mp hw with e | e
        · subst e
          rcases List.mem_cons.mp hx with e' | e'
          · simp [e']
          · exact List.mem_cons_of_mem _ (ih w0 List.mem_cons_self x e')
        · exact List.mem_cons_of_mem _ (ih w (List.mem_cons_of_mem _ e) x hx)

theorem joinWith_mem (sep : Str) (ws : List Str) : ∀ x ∈ joinWith sep ws, x ∈ sep ∨ ∃ w ∈ ws, x ∈ w := by
  induction ws with
  | nil => intro x hx; simp [joinWith] at hx
  | cons w ws ih =>
    intro x hx
    cases ws with
    | nil =>
      simp only [joinWith] at hx
      exact Or.inr ⟨w, List.mem_cons_self, hx⟩
    | cons v vs =>
      have e : joinWith sep (w :: v :: vs) = w ++ sep ++ joinWith sep (v :: vs) := by simp [joinWith]
      rw [e] at hx
      rcases List.mem_append.mp hx with h | h
      · rcases List.mem_append.mp h with h | h
        · exact Or.inr ⟨w, List.mem_cons_self, h⟩
        · exact Or.inl h
      · rcases ih x h with h | ⟨u, hu, hxu⟩
        · exact Or.inl h
        · exact Or.inr ⟨u, List.mem_cons_of_mem _ hu, hxu⟩

/-! ### `parse_qsl ∘ urlencode` -/

def encPair (p : Str × Str) : Str := quotePlus p.1 ++ [61] ++ quotePlus p.2

theorem urlencode_eq (L : List (Str × Str)) : urlencode L = joinWith [38] (L.map encPair) := by
  unfold urlencode
  congr 1

def ScalarPair (p : Str × Str) : Prop :=
  (∀ c ∈ p.1, Wire.isScalar c = true) ∧ (∀ c ∈ p.2, Wire.isScalar c = true)

theorem encPair_chars (p : Str × Str) (hp : ScalarPair p) :
    ∀ x ∈ encPair p, x = 61 ∨ x = 37 ∨ x = 43 ∨ isUnreserved x = true := by
  intro x hx
  simp only [encPair, List.mem_append, List.mem_cons, List.not_mem_nil, or_false] at hx
  rcases hx with (hx | hx) | hx
  · exact Or.inr (quotePlus_chars p.1 hp.1 x hx)
  · exact Or.inl hx
  · exact Or.inr (quotePlus_chars p.2 hp.2 x hx)

theorem encPair_not_mem (p : Str × Str) (hp : ScalarPair p) (y : Nat) (hy : y = 38 ∨ y = 35 ∨ y = 63) :
    y ∉ encPair p := by
  intro hm
  rcases encPair_chars p hp y hm with h | h | h | h
  · omega
  · omega
  · omega
  · have := unres_facts y h; omega

theorem urlencode_not_mem (L : List (Str × Str)) (hL : ∀ p ∈ L, ScalarPair p) (y : Nat) (hy : y = 35 ∨ y = 63) :
    y ∉ urlencode L := by
  intro hm
  rw [urlencode_eq] at hm
  rcases joinWith_mem [38] _ y hm with h | ⟨w, hw, hyw⟩
  · simp only [List.mem_cons, List.not_mem_nil, or_false] at h; omega
  · obtain ⟨p, hp, rfl⟩ := List.mem_map.mp hw
    exact encPair_not_mem p (hL p hp) y (by omega) hyw

/-- one `name=value` piece reads back as the pair -/
theorem qsl_piece (p : Str × Str) (hp : ScalarPair p) :
    (if (encPair p).isEmpty then none
      else match splitFirst 61 (encPair p) with
        | some (n, v) => some (unquoteUtf8 (plusToSpace n), unquoteUtf8 (plusToSpace v))
        | none => some (unquoteUtf8 (plusToSpace (encPair p)), [])) = some p := by
  have hne : (encPair p).isEmpty = false := by simp [encPair]
  have hsp : splitFirst 61 (encPair p) = some (quotePlus p.1, quotePlus p.2) := by
    have := splitFirst_append 61 (quotePlus p.1) (quotePlus p.2) (quotePlus_not_mem p.1 hp.1 61 (by omega))
    simpa [encPair] using this
  simp only [hne, Bool.false_eq_true, if_false, hsp, unquote_quote p.1 hp.1, unquote_quote p.2 hp.2]

theorem filterMap_map_self {α β} (f : β → Option α) (g : α → β) (L : List α) (h : ∀ p ∈ L, f (g p) = some p) :
    (L.map g).filterMap f = L := by
  induction L with
  | nil => rfl
  | cons p ps ih =>
    simp only [List.map_cons, List.filterMap_cons, h p List.mem_cons_self,
      ih (fun q hq => h q (List.mem_cons_of_mem _ hq))]

theorem parseQsl_urlencode (L : List (Str × Str)) (hL : ∀ p ∈ L, ScalarPair p) : parseQsl (urlencode L) = L := by
  rw [urlencode_eq]
  cases L with
  | nil => decide
  | cons p ps =>
    unfold parseQsl
    rw [List.map_cons, splitAll_join 38 (encPair p) (ps.map encPair)
      (encPair_not_mem p (hL p List.mem_cons_self) 38 (by omega))
      (fun v hv => by
        obtain ⟨q, hq, rfl⟩ := List.mem_map.mp hv
        exact encPair_not_mem q (hL q (List.mem_cons_of_mem _ hq)) 38 (by omega))]
    rw [← List.map_cons]
    exact filterMap_map_self _ encPair (p :: ps) (fun q hq => qsl_piece q (hL q hq))

/-! ### `parse_qsl` keeps text free of lone surrogates -/

theorem asciiRuns_mem (s : Str) : ∀ r ∈ asciiRuns s, ∀ x ∈ r.2, x ∈ s := by
  induction s with
  | nil => intro r hr; simp [asciiRuns] at hr
  | cons c cs ih =>
    intro r hr x hx
    rw [asciiRuns] at hr
    cases hruns : asciiRuns cs with
    | nil =>
      simp only [hruns, List.mem_cons, List.not_mem_nil, or_false] at hr
      subst hr
      simp only [List.mem_cons, List.not_mem_nil, or_false] at hx
      simp [hx]
    | cons r0 rs =>
      obtain ⟨a', w⟩ := r0
      simp only [hruns] at hr ih
      split at hr
      · rcases List.mem_cons.mp hr with e | e
        · subst e
          rcases List.mem_cons.mp hx with e' | e'
          · simp [e']
          · exact List.mem_cons_of_mem _ (ih (a', w) List.mem_cons_self x e')
        · exact List.mem_cons_of_mem _ (ih r (List.mem_cons_of_mem _ e) x hx)
      · rcases List.mem_cons.mp hr with e | e
        · subst e
          simp only [List.mem_cons, List.not_mem_nil, or_false] at hx
          simp [hx]
        · exact List.mem_cons_of_mem _ (ih r e x hx)

theorem unquoteUtf8_scalar (s : Str) (hs : ∀ c ∈ s, Wire.isScalar c = true) :
    ∀ c ∈ unquoteUtf8 s, Wire.isScalar c = true := by
  intro c hc
  unfold unquoteUtf8 at hc
  split at hc
  · exact hs c hc
  · obtain ⟨r, hr, hcr⟩ := List.mem_flatMap.mp hc
    obtain ⟨a, w⟩ := r
    simp only at hcr
    split at hcr
    · exact List.all_eq_true.mp (utf8Dec_scalar _) c hcr
    · exact hs c (asciiRuns_mem s (a, w) hr c hcr)

theorem plusToSpace_scalar (s : Str) (hs : ∀ c ∈ s, Wire.isScalar c = true) :
    ∀ c ∈ plusToSpace s, Wire.isScalar c = true := by
  intro c hc
  obtain ⟨x, hx, rfl⟩ := List.mem_map.mp hc
  split
  · decide
  · exact hs x hx

theorem parseQsl_scalar (q : Str) (hq : ∀ c ∈ q, Wire.isScalar c = true) : ∀ p ∈ parseQsl q, ScalarPair p := by
  intro p hp
  unfold parseQsl at hp
  obtain ⟨nv, hnv, hf⟩ := List.mem_filterMap.mp hp
  have hnvs : ∀ c ∈ nv, Wire.isScalar c = true := fun c hc => hq c (splitAll_mem 38 q nv hnv c hc)
  split at hf
  · simp at hf
  · cases hsp : splitFirst 61 nv with
    | none =>
      simp only [hsp, Option.some.injEq] at hf
      subst hf
      exact ⟨unquoteUtf8_scalar _ (plusToSpace_scalar _ hnvs), by simp⟩
    | some nvp =>
      obtain ⟨n, v⟩ := nvp
      simp only [hsp, Option.some.injEq] at hf
      subst hf
      have e := (splitFirst_some 61 nv n v hsp).1
      have hn : ∀ c ∈ n, Wire.isScalar c = true := fun c hc => hnvs c (by rw [e]; simp [hc])
      have hv : ∀ c ∈ v, Wire.isScalar c = true := fun c hc => hnvs c (by rw [e]; simp [hc])
      exact ⟨unquoteUtf8_scalar _ (plusToSpace_scalar _ hn), unquoteUtf8_scalar _ (plusToSpace_scalar _ hv)⟩

/-! ### `urlsplit` -/

theorem urlSplit_parts (url : Str) :
    ∃ base q frag, urlSplit url = (base, q, frag) ∧ 35 ∉ base ∧ 63 ∉ base ∧ ∀ x ∈ q, x ∈ url := by
  unfold urlSplit
  cases h1 : splitFirst 35 url with
  | none =>
    have n35 := splitFirst_none 35 url h1
    cases h2 : splitFirst 63 url with
    | none => exact ⟨url, [], [], by simp [h2], n35, splitFirst_none 63 url h2, by simp⟩
    | some p =>
      obtain ⟨a, b⟩ := p
      obtain ⟨e, n63⟩ := splitFirst_some 63 url a b h2
      refine ⟨a, b, [], by simp [h2], fun hm => n35 (by rw [e]; simp [hm]), n63, fun x hx => by rw [e]; simp [hx]⟩
  | some p1 =>
    obtain ⟨pre, frag⟩ := p1
    obtain ⟨e1, n35⟩ := splitFirst_some 35 url pre frag h1
    cases h2 : splitFirst 63 pre with
    | none => exact ⟨pre, [], frag, by simp [h2], n35, splitFirst_none 63 pre h2, by simp⟩
    | some p =>
      obtain ⟨a, b⟩ := p
      obtain ⟨e, n63⟩ := splitFirst_some 63 pre a b h2
      refine ⟨a, b, frag, by simp [h2], fun hm => n35 (by rw [e]; simp [hm]), n63,
        fun x hx => by rw [e1, e]; simp [hx]⟩

theorem urlSplit_build (base fq frag : Str) (h35 : 35 ∉ base) (h63 : 63 ∉ base) (hfq : 35 ∉ fq) :
    urlSplit (base ++ (if fq.isEmpty then [] else 63 :: fq) ++ (if frag.isEmpty then [] else 35 :: frag)) =
      (base, fq, frag) := by
  have hpre : 35 ∉ base ++ (if fq.isEmpty then [] else 63 :: fq) := by
    intro hm
    rcases List.mem_append.mp hm with h | h
    · exact h35 h
    · split at h
      · simp at h
      · rcases List.mem_cons.mp h with e | e
        · omega
        · exact hfq e
  have hsp63 : splitFirst 63 (base ++ (if fq.isEmpty then [] else 63 :: fq)) =
      (if fq.isEmpty then none else some (base, fq)) := by
    cases fq with
    | nil => simp [splitFirst_not_mem 63 base h63]
    | cons x xs => simp [splitFirst_append 63 base (x :: xs) h63]
  unfold urlSplit
  cases frag with
  | nil =>
    simp only [List.isEmpty_nil, if_true, List.append_nil, splitFirst_not_mem 35 _ hpre, hsp63]
    cases fq <;> simp
  | cons f fs =>
    simp only [List.isEmpty_cons, Bool.false_eq_true, if_false, splitFirst_append 35 _ (f :: fs) hpre, hsp63]
    cases fq <;> simp

/-- `url_concat` keeps the base and the fragment, and its query reads back as the old pairs followed by the new -/
theorem urlConcat_preserves (url : Str) (args : List (Str × Str)) (hurl : url.all Wire.isScalar = true)
    (hargs : ∀ p ∈ args, p.1.all Wire.isScalar = true ∧ p.2.all Wire.isScalar = true) :
    (urlSplit (urlConcat url (some args))).1 = (urlSplit url).1 ∧
    (urlSplit (urlConcat url (some args))).2.2 = (urlSplit url).2.2 ∧
    parseQsl (urlSplit (urlConcat url (some args))).2.1 = parseQsl (urlSplit url).2.1 ++ args := by
  obtain ⟨base, q, frag, hsplit, h35, h63, hq⟩ := urlSplit_parts url
  have hurl' := List.all_eq_true.mp hurl
  have hL : ∀ p ∈ parseQsl q ++ args, ScalarPair p := by
    intro p hp
    rcases List.mem_append.mp hp with h | h
    · exact parseQsl_scalar q (fun c hc => hurl' c (hq c hc)) p h
    · exact ⟨List.all_eq_true.mp (hargs p h).1, List.all_eq_true.mp (hargs p h).2⟩
  have hres : urlConcat url (some args) =
      base ++ (if (urlencode (parseQsl q ++ args)).isEmpty then [] else 63 :: urlencode (parseQsl q ++ args)) ++
        (if frag.isEmpty then [] else 35 :: frag) := by
    simp only [urlConcat, hsplit]
  rw [hres, urlSplit_build base _ frag h35 h63 (urlencode_not_mem _ hL 35 (by omega)), hsplit]
  exact ⟨rfl, rfl, parseQsl_urlencode _ hL⟩

end TornadoModel.C43
