/- C43 — UTF-8 and percent-encoding round trips used by `url_concat`. -/
import TornadoModel.C43.Lemmas
import TornadoModel.Base.Wire
namespace TornadoModel.C43
open TornadoModel.C06 (Str)
open TornadoModel

/-! ### the decoder on well-formed sequences -/

theorem utf8Dec_1 (b0 : Nat) (rest : List Nat) (h : b0 < 128) : utf8Dec (b0 :: rest) = b0 :: utf8Dec rest := by
  conv => lhs; rw [utf8Dec.eq_def]
  simp [h]

theorem utf8Dec_2 (b0 b1 : Nat) (rest : List Nat) (h0 : 194 ≤ b0) (h0' : b0 ≤ 223) (h1 : 128 ≤ b1) (h1' : b1 ≤ 191) :
    utf8Dec (b0 :: b1 :: rest) = ((b0 - 192) * 64 + (b1 - 128)) :: utf8Dec rest := by
  conv => lhs; rw [utf8Dec.eq_def]
  have n0 : ¬ b0 < 128 := by omega
  simp [n0, h0, h0', isCont, h1, h1']

theorem ok3_true (b0 b1 : Nat) (hok : (b0 = 224 → 160 ≤ b1) ∧ (b0 = 237 → b1 ≤ 159) ∧ 128 ≤ b1 ∧ b1 ≤ 191) :
    (if b0 = 224 then decide (160 ≤ b1) && decide (b1 ≤ 191)
      else if b0 = 237 then decide (128 ≤ b1) && decide (b1 ≤ 159) else isCont b1) = true := by
  split
  · rename_i h; simp only [Bool.and_eq_true, decide_eq_true_eq]; exact ⟨hok.1 h, hok.2.2.2⟩
  · split
    · rename_i h; simp only [Bool.and_eq_true, decide_eq_true_eq]; exact ⟨hok.2.2.1, hok.2.1 h⟩
    · simp only [isCont, Bool.and_eq_true, decide_eq_true_eq]; exact hok.2.2

theorem ok4_true (b0 b1 : Nat) (hok : (b0 = 240 → 144 ≤ b1) ∧ (b0 = 244 → b1 ≤ 143) ∧ 128 ≤ b1 ∧ b1 ≤ 191) :
    (if b0 = 240 then decide (144 ≤ b1) && decide (b1 ≤ 191)
      else if b0 = 244 then decide (128 ≤ b1) && decide (b1 ≤ 143) else isCont b1) = true := by
  split
  · rename_i h; simp only [Bool.and_eq_true, decide_eq_true_eq]; exact ⟨hok.1 h, hok.2.2.2⟩
  · split
    · rename_i h; simp only [Bool.and_eq_true, decide_eq_true_eq]; exact ⟨hok.2.2.1, hok.2.1 h⟩
    · simp only [isCont, Bool.and_eq_true, decide_eq_true_eq]; exact hok.2.2

theorem utf8Dec_3 (b0 b1 b2 : Nat) (rest : List Nat) (h0 : 224 ≤ b0) (h0' : b0 ≤ 239)
    (hok : (b0 = 224 → 160 ≤ b1) ∧ (b0 = 237 → b1 ≤ 159) ∧ 128 ≤ b1 ∧ b1 ≤ 191)
    (h2 : 128 ≤ b2) (h2' : b2 ≤ 191) :
    utf8Dec (b0 :: b1 :: b2 :: rest) = ((b0 - 224) * 4096 + (b1 - 128) * 64 + (b2 - 128)) :: utf8Dec rest := by
  conv => lhs; rw [utf8Dec.eq_def]
  have n0 : ¬ b0 < 128 := by omega
  have n1 : ¬ b0 ≤ 223 := by omega
  have c2 : isCont b2 = true := by simp [isCont, h2, h2']
  simp only [n0, if_false, n1, decide_false, Bool.and_false, Bool.false_eq_true, h0, h0', decide_true, Bool.and_self,
    if_true, ok3_true b0 b1 hok, c2]

theorem utf8Dec_4 (b0 b1 b2 b3 : Nat) (rest : List Nat) (h0 : 240 ≤ b0) (h0' : b0 ≤ 244)
    (hok : (b0 = 240 → 144 ≤ b1) ∧ (b0 = 244 → b1 ≤ 143) ∧ 128 ≤ b1 ∧ b1 ≤ 191)
    (h2 : 128 ≤ b2) (h2' : b2 ≤ 191) (h3 : 128 ≤ b3) (h3' : b3 ≤ 191) :
    utf8Dec (b0 :: b1 :: b2 :: b3 :: rest) =
      ((b0 - 240) * 262144 + (b1 - 128) * 4096 + (b2 - 128) * 64 + (b3 - 128)) :: utf8Dec rest := by
  conv => lhs; rw [utf8Dec.eq_def]
  have n0 : ¬ b0 < 128 := by omega
  have n1 : ¬ b0 ≤ 223 := by omega
  have n2 : ¬ b0 ≤ 239 := by omega
  have c2 : isCont b2 = true := by simp [isCont, h2, h2']
  have c3 : isCont b3 = true := by simp [isCont, h3, h3']
  simp only [n0, if_false, n1, n2, decide_false, Bool.and_false, Bool.false_eq_true, h0, h0', decide_true,
    Bool.and_self, if_true, ok4_true b0 b1 hok, c2, c3]

/-! ### decode ∘ encode -/

theorem utf8Dec_encC (c : Nat) (rest : List Nat) (hc : Wire.isScalar c = true) :
    utf8Dec (utf8EncC c ++ rest) = c :: utf8Dec rest := by
  simp only [Wire.isScalar, Bool.or_eq_true, Bool.and_eq_true, decide_eq_true_eq] at hc
  unfold utf8EncC
  by_cases h1 : c < 128
  · simp only [h1, if_true, List.cons_append, List.nil_append]
    exact utf8Dec_1 c rest h1
  · by_cases h2 : c < 2048
    · simp only [h1, if_false, h2, if_true, List.cons_append, List.nil_append]
      have e : (192 + c / 64 - 192) * 64 + (128 + c % 64 - 128) = c := by omega
      rw [utf8Dec_2 (192 + c / 64) (128 + c % 64) rest (by omega) (by omega) (by omega) (by omega), e]
    · by_cases h3 : c < 65536
      · simp only [h1, if_false, h2, h3, if_true, List.cons_append, List.nil_append]
        have e : (224 + c / 4096 - 224) * 4096 + (128 + c / 64 % 64 - 128) * 64 + (128 + c % 64 - 128) = c := by omega
        rw [utf8Dec_3 (224 + c / 4096) (128 + c / 64 % 64) (128 + c % 64) rest (by omega) (by omega)
          ⟨fun _ => by omega, fun _ => by omega, by omega, by omega⟩ (by omega) (by omega), e]
      · simp only [h1, if_false, h2, h3, List.cons_append, List.nil_append]
        have e : (240 + c / 262144 - 240) * 262144 + (128 + c / 4096 % 64 - 128) * 4096 +
            (128 + c / 64 % 64 - 128) * 64 + (128 + c % 64 - 128) = c := by omega
        rw [utf8Dec_4 (240 + c / 262144) (128 + c / 4096 % 64) (128 + c / 64 % 64) (128 + c % 64) rest (by omega) (by omega)
          ⟨fun _ => by omega, fun _ => by omega, by omega, by omega⟩ (by omega) (by omega) (by omega) (by omega), e]

theorem utf8Dec_enc (s : Str) (hs : s.all Wire.isScalar = true) : utf8Dec (utf8Enc s) = s := by
  induction s with
  | nil => rw [utf8Enc, List.flatMap_nil, utf8Dec.eq_def]
  | cons c cs ih =>
    simp only [List.all_cons, Bool.and_eq_true] at hs
    have e : utf8Enc (c :: cs) = utf8EncC c ++ utf8Enc cs := by simp [utf8Enc, List.flatMap_cons]
    rw [e, utf8Dec_encC c _ hs.1, ih hs.2]

theorem utf8EncC_bytes (c : Nat) (hc : Wire.isScalar c = true) : ∀ b ∈ utf8EncC c, b < 256 := by
  simp only [Wire.isScalar, Bool.or_eq_true, Bool.and_eq_true, decide_eq_true_eq] at hc
  intro b hb
  unfold utf8EncC at hb
  split at hb
  · simp only [List.mem_cons, List.not_mem_nil, or_false] at hb; omega
  · split at hb
    · simp only [List.mem_cons, List.not_mem_nil, or_false] at hb; omega
    · split at hb
      · simp only [List.mem_cons, List.not_mem_nil, or_false] at hb; omega
      · simp only [List.mem_cons, List.not_mem_nil, or_false] at hb; omega

theorem utf8EncC_ne_nil (c : Nat) : utf8EncC c ≠ [] := by
  unfold utf8EncC
  repeat' split
  all_goals simp

/-! ### the decoder only produces scalar values -/

theorem utf8Dec_scalar (l : List Nat) : (utf8Dec l).all Wire.isScalar = true := by
  fun_induction utf8Dec l <;>
    simp_all [Wire.isScalar, isCont] <;> try omega
  · rename_i b0 b1 ok1 b2 r1 h4 h3 h2 h1 h0 ih
    have hb1 : (b0 = 224 → 160 ≤ b1) ∧ (b0 = 237 → b1 ≤ 159) ∧ 128 ≤ b1 ∧ b1 ≤ 191 := by
      simp only [ok1] at h1
      split at h1
      · simp only [Bool.and_eq_true, decide_eq_true_eq] at h1; omega
      · split at h1
        · simp only [Bool.and_eq_true, decide_eq_true_eq] at h1; omega
        · simp only [isCont, Bool.and_eq_true, decide_eq_true_eq] at h1; omega
    omega
  · rename_i b0 b1 ok1 b2 b3 r1 h6 h5 h4 h3 h2 h1 h0 ih
    have hb1 : (b0 = 240 → 144 ≤ b1) ∧ (b0 = 244 → b1 ≤ 143) ∧ 128 ≤ b1 ∧ b1 ≤ 191 := by
      simp only [ok1] at h2
      split at h2
      · simp only [Bool.and_eq_true, decide_eq_true_eq] at h2; omega
      · split at h2
        · simp only [Bool.and_eq_true, decide_eq_true_eq] at h2; omega
        · simp only [isCont, Bool.and_eq_true, decide_eq_true_eq] at h2; omega
    omega

/-! ### percent-encoding -/

def encByte (b : Nat) : Str := [37, hexUpper (b / 16), hexUpper (b % 16)]

theorem hexUpper_facts : ∀ n, n < 16 →
    isHexDigit (hexUpper n) = true ∧ hexVal (hexUpper n) = n ∧ isUnreserved (hexUpper n) = true := by decide

theorem pctBytes_plain (c : Nat) (rest : Str) (h : c ≠ 37) : pctBytes (c :: rest) = c :: pctBytes rest := by
  rw [pctBytes]
  intro a b r e
  exact absurd e h

theorem pctBytes_encByte (b : Nat) (rest : Str) (h : b < 256) : pctBytes (encByte b ++ rest) = b :: pctBytes rest := by
  have h1 := hexUpper_facts (b / 16) (by omega)
  have h2 := hexUpper_facts (b % 16) (by omega)
  simp only [encByte, List.cons_append, List.nil_append]
  rw [pctBytes]
  simp only [h1.1, h2.1, Bool.and_self, if_true, h1.2.1, h2.2.1]
  congr 1
  omega

theorem pctBytes_encBytes (bs : List Nat) (rest : Str) (h : ∀ b ∈ bs, b < 256) :
    pctBytes (bs.flatMap encByte ++ rest) = bs ++ pctBytes rest := by
  induction bs with
  | nil => rfl
  | cons b bs ih =>
    simp only [List.flatMap_cons, List.append_assoc]
    rw [pctBytes_encByte b _ (h b List.mem_cons_self), ih (fun x hx => h x (List.mem_cons_of_mem _ hx))]
    rfl

end TornadoModel.C43
