/-
C43 — models of the small HTTP utility parsers/formatters (core Lean only).

Anchors: `httputil.parse_request_start_line`, `parse_response_start_line` (+ `_ABNF`), `_parseparam`,
`_parse_header`, `_encode_header`, `parse_cookie`, `_unquote_cookie`, `split_host_and_port`,
`format_timestamp` (→ `email.utils.formatdate`), `url_concat`, `util.re_unescape` (and `re.escape`),
`netutil.is_valid_ip`.

Text is a list of code points (`List Nat`).  Stdlib pieces the code delegates to are written out here as
they behave in CPython 3.12 (`email.utils.unquote/quote/decode_params/collapse_rfc2231_value`,
`urllib.parse.unquote/quote_plus/parse_qsl/urlencode`, UTF-8 with `errors="replace"`, `str.strip`,
`re` for the five small patterns involved); they are *modelled, not verified* and exercised by the
correspondence stream.  Where the real code can reach behaviour that is not modelled (arbitrary codecs named
by an RFC 2231 charset) the model answers `unmodelled` and the harness keeps such inputs out of the diff.
-/
import TornadoModel.C06.Model
namespace TornadoModel.C43
open TornadoModel.C06 (Str isTchar isToken isFieldVchar lowerC joinWith)

/-! ### Python string primitives -/

/-- `str.isspace` for one code point (Unicode 15, CPython 3.12) -/
def isPySpace (c : Nat) : Bool :=
  (9 ≤ c && c ≤ 13) || (28 ≤ c && c ≤ 32) || c = 133 || c = 160 || c = 5760 ||
  (8192 ≤ c && c ≤ 8202) || c = 8232 || c = 8233 || c = 8239 || c = 8287 || c = 12288

def lstrip (s : Str) : Str := s.dropWhile isPySpace
def rstrip (s : Str) : Str := (s.reverse.dropWhile isPySpace).reverse
/-- `s.strip()` -/
def strip (s : Str) : Str := rstrip (lstrip s)

/-- `s.partition(c)` for a one-character separator: `none` when absent -/
def splitFirst (sep : Nat) : Str → Option (Str × Str)
  | [] => none
  | c :: cs => if c = sep then some ([], cs) else (splitFirst sep cs).map (fun (a, b) => (c :: a, b))

/-- `s.split(c)` -/
def splitAll (sep : Nat) : Str → List Str
  | [] => [[]]
  | c :: cs =>
    if c = sep then [] :: splitAll sep cs
    else match splitAll sep cs with
      | [] => [[c]]
      | w :: ws => (c :: w) :: ws

def isDigit (c : Nat) : Bool := 48 ≤ c && c ≤ 57
def isAlnum (c : Nat) : Bool := isDigit c || (65 ≤ c && c ≤ 90) || (97 ≤ c && c ≤ 122)
def isHexDigit (c : Nat) : Bool := isDigit c || (65 ≤ c && c ≤ 70) || (97 ≤ c && c ≤ 102)
def hexVal (c : Nat) : Nat := if isDigit c then c - 48 else if 97 ≤ c then c - 87 else c - 55
def isAscii (s : Str) : Bool := s.all (· < 128)

/-- decimal value of ASCII digits (`int(s)` for `[0-9]+`) -/
def decVal (s : Str) : Nat := s.foldl (fun acc c => acc * 10 + (c - 48)) 0

/-- `"%d" % n` -/
def toDec (n : Nat) : Str := (Nat.toDigits 10 n).map Char.toNat

/-- the default of `sys.get_int_max_str_digits()`: `int(str)` raises ValueError beyond it -/
def intMaxDigits : Nat := 4300

/-! ### start lines (`_ABNF.request_line`, `_ABNF.status_line`, both with `fullmatch`) -/

inductive Err where
  | httpInput                    -- HTTPInputError
  | uncaught (kind : String)     -- any other exception type escaping the function
  | unmodelled                   -- behaviour delegated to a stdlib codec that is not modelled
  deriving Repr, BEq, DecidableEq

/-- `_ABNF.HTTP_version` : `HTTP/[0-9]\.[0-9]` -/
def isVersion (v : Str) : Bool :=
  match v with
  | [72, 84, 84, 80, 47, a, 46, b] => isDigit a && isDigit b
  | _ => false

/-- `version.startswith("HTTP/1")` on a string that already matched `HTTP_version` -/
def isVersion1 (v : Str) : Bool :=
  match v with
  | [72, 84, 84, 80, 47, a, 46, b] => a = 49 && isDigit b
  | _ => false

/-- `_ABNF.request_target` : `field_vchar+` -/
def isTarget (t : Str) : Bool := !t.isEmpty && t.all isFieldVchar

/-- `parse_request_start_line` -/
def parseRequestLine (line : Str) : Except Err (Str × Str × Str) :=
  match splitFirst 32 line with
  | none => .error .httpInput
  | some (m, rest) =>
    match splitFirst 32 rest with
    | none => .error .httpInput
    | some (t, v) =>
      if isToken m && isTarget t && isVersion v then
        if isVersion1 v then .ok (m, t, v) else .error .httpInput
      else .error .httpInput

/-- `_ABNF.reason_phrase` characters: HTAB, SP, VCHAR, obs-text -/
def isReasonChar (c : Nat) : Bool := c = 9 || c = 32 || isFieldVchar c

/-- `parse_response_start_line`; the reason is `none` when the (optional) group did not take part -/
def parseResponseLine (line : Str) : Except Err (Str × Nat × Option Str) :=
  match line with
  | 72 :: 84 :: 84 :: 80 :: 47 :: a :: 46 :: b :: 32 :: d1 :: d2 :: d3 :: 32 :: reason =>
    if isDigit a && isDigit b && isDigit d1 && isDigit d2 && isDigit d3 && reason.all isReasonChar then
      if a = 49 then
        .ok ([72, 84, 84, 80, 47, a, 46, b], decVal [d1, d2, d3], if reason.isEmpty then none else some reason)
      else .error .httpInput
    else .error .httpInput
  | _ => .error .httpInput

/-! ### `_parseparam` -/

/-- `_parseparam(";" + line)` before the `strip()` of each piece: `line` is cut at every `;` at which the
    number of double quotes not immediately preceded by a backslash, counted from the start of the piece, is
    even.  (The Python loop alternates `end`/`ind` over the semicolons and accumulates
    `count('"') - count('\\"')` over the stretches between them; since `\"` cannot straddle a `;` the sum is
    the count over the whole piece.)  `odd` = parity so far, `bs` = previous character was a backslash. -/
def segs : Str → Bool → Bool → List Str
  | [], _, _ => [[]]
  | c :: cs, odd, bs =>
    if c = 59 && !odd then [] :: segs cs false false
    else
      let odd' := if c = 34 && !bs then !odd else odd
      match segs cs odd' (c = 92 && !bs) with
      | w :: ws => (c :: w) :: ws
      | [] => [[c]]

def parseparam (line : Str) : List Str := (segs line false false).map strip

/-! ### `email.utils` -/

/-- `str.replace(a, b)` for a two-character pattern `[p,q]` replaced by one character `r` -/
def replace2 (p q r : Nat) : Str → Str
  | [] => []
  | [c] => [c]
  | c :: d :: rest => if c = p ∧ d = q then r :: replace2 p q r rest else c :: replace2 p q r (d :: rest)

/-- `email.utils.quote`: backslash-escape `\` and `"` -/
def emailQuote (s : Str) : Str := s.flatMap (fun c => if c = 92 ∨ c = 34 then [92, c] else [c])

def dropLast (s : Str) : Str := s.dropLast

/-- `email.utils.unquote` -/
def emailUnquote (s : Str) : Str :=
  match s with
  | [] => []
  | [c] => [c]
  | c :: rest =>
    let l := rest.getLast?.getD 0
    if c = 34 ∧ l = 34 then replace2 92 34 34 (replace2 92 92 92 (dropLast rest))
    else if c = 60 ∧ l = 62 then dropLast rest
    else s

def isWordC (c : Nat) : Bool := isAlnum c || c = 95

/-- `rfc2231_continuation = ^(?P<name>\w+)\*((?P<num>[0-9]+)\*?)?$` (re.ASCII) on a name that contains no
    newline: `some (base, num?)`.  `\w` excludes `*`, so the base is everything before the first star and the
    remainder must be empty, `digits`, or `digits*`. -/
def continuation (name : Str) : Option (Str × Option Str) :=
  match splitFirst 42 name with
  | none => none
  | some (base, tail) =>
    if base.isEmpty || !base.all isWordC then none
    else if tail.isEmpty then some (base, none)
    else
      let ds := tail.takeWhile isDigit
      let rest := tail.dropWhile isDigit
      if !ds.isEmpty && (rest.isEmpty || rest = [42]) then some (base, some ds) else none

/-- percent-decoding of the ASCII text `s` to bytes (`urllib.parse.unquote_to_bytes`) -/
def pctBytes : Str → List Nat
  | [] => []
  | 37 :: a :: b :: rest =>
    if isHexDigit a && isHexDigit b then (hexVal a * 16 + hexVal b) :: pctBytes rest
    else 37 :: pctBytes (a :: b :: rest)
  | c :: rest => c :: pctBytes rest

/-- UTF-8 decoding with `errors="replace"` (CPython: one U+FFFD per maximal invalid prefix) -/
def isCont (b : Nat) : Bool := 128 ≤ b && b ≤ 191

def utf8Dec : List Nat → Str
  | [] => []
  | b0 :: rest =>
    if b0 < 128 then b0 :: utf8Dec rest
    else if 194 ≤ b0 && b0 ≤ 223 then
      match rest with
      | b1 :: r1 => if isCont b1 then ((b0 - 192) * 64 + (b1 - 128)) :: utf8Dec r1 else 65533 :: utf8Dec (b1 :: r1)
      | [] => [65533]
    else if 224 ≤ b0 && b0 ≤ 239 then
      match rest with
      | b1 :: r1 =>
        let ok1 := if b0 = 224 then 160 ≤ b1 && b1 ≤ 191 else if b0 = 237 then 128 ≤ b1 && b1 ≤ 159 else isCont b1
        if ok1 then
          match r1 with
          | b2 :: r2 =>
            if isCont b2 then ((b0 - 224) * 4096 + (b1 - 128) * 64 + (b2 - 128)) :: utf8Dec r2
            else 65533 :: utf8Dec (b2 :: r2)
          | [] => [65533]
        else 65533 :: utf8Dec (b1 :: r1)
      | [] => [65533]
    else if 240 ≤ b0 && b0 ≤ 244 then
      match rest with
      | b1 :: r1 =>
        let ok1 := if b0 = 240 then 144 ≤ b1 && b1 ≤ 191 else if b0 = 244 then 128 ≤ b1 && b1 ≤ 143 else isCont b1
        if ok1 then
          match r1 with
          | b2 :: r2 =>
            if isCont b2 then
              match r2 with
              | b3 :: r3 =>
                if isCont b3 then
                  ((b0 - 240) * 262144 + (b1 - 128) * 4096 + (b2 - 128) * 64 + (b3 - 128)) :: utf8Dec r3
                else 65533 :: utf8Dec (b3 :: r3)
              | [] => [65533]
            else 65533 :: utf8Dec (b2 :: r2)
          | [] => [65533]
        else 65533 :: utf8Dec (b1 :: r1)
      | [] => [65533]
    else 65533 :: utf8Dec rest
termination_by l => l.length

/-- UTF-8 encoding of one scalar value -/
def utf8EncC (c : Nat) : List Nat :=
  if c < 128 then [c]
  else if c < 2048 then [192 + c / 64, 128 + c % 64]
  else if c < 65536 then [224 + c / 4096, 128 + (c / 64) % 64, 128 + c % 64]
  else [240 + c / 262144, 128 + (c / 4096) % 64, 128 + (c / 64) % 64, 128 + c % 64]

def utf8Enc (s : Str) : List Nat := s.flatMap utf8EncC

/-- split into maximal runs of ASCII / non-ASCII characters -/
def asciiRuns : Str → List (Bool × Str)
  | [] => []
  | c :: cs =>
    let a := decide (c < 128)
    match asciiRuns cs with
    | (a', w) :: rest => if a = a' then (a, c :: w) :: rest else (a, [c]) :: (a', w) :: rest
    | [] => [(a, [c])]

/-- `urllib.parse.unquote(s, encoding="latin-1")` -/
def unquoteLatin1 (s : Str) : Str :=
  (asciiRuns s).flatMap (fun (a, w) => if a then pctBytes w else w)

/-- `urllib.parse.unquote(s)` (utf-8, errors="replace").  Fast path: no `%` → unchanged. -/
def unquoteUtf8 (s : Str) : Str :=
  if !s.contains 37 then s
  else (asciiRuns s).flatMap (fun (a, w) => if a then utf8Dec (pctBytes w) else w)

def toHexLower (n width : Nat) : Str :=
  let ds := (Nat.toDigits 16 n).map Char.toNat
  List.replicate (width - ds.length) 48 ++ ds

/-- `bytes(text, "raw-unicode-escape")` -/
def rawUnicodeEscape (s : Str) : List Nat :=
  s.flatMap (fun c => if c < 256 then [c] else if c < 65536 then [92, 117] ++ toHexLower c 4 else [92, 85] ++ toHexLower c 8)

inductive Charset where | utf8 | ascii | latin1 | nul | other
  deriving Repr, BEq, DecidableEq

def ofAscii (s : String) : Str := s.toList.map Char.toNat

/-- the codec spellings the model knows (compared after ASCII lower-casing) -/
def classifyCharset (cs : Str) : Charset :=
  let l := cs.map lowerC
  if l.contains 0 then .nul
  else if l = ofAscii "utf-8" ∨ l = ofAscii "utf8" then .utf8
  else if l = ofAscii "us-ascii" ∨ l = ofAscii "ascii" then .ascii
  else if l = ofAscii "latin-1" ∨ l = ofAscii "latin1" ∨ l = ofAscii "iso-8859-1" then .latin1
  else .other

/-- `str(rawbytes, charset, "replace")` -/
def decodeCharset (cs : Charset) (bytes : List Nat) : Except Err Str :=
  match cs with
  | .utf8 => .ok (utf8Dec bytes)
  | .ascii => .ok (bytes.map (fun b => if b < 128 then b else 65533))
  | .latin1 => .ok bytes
  | .nul => .error (.uncaught "ValueError")
  | .other => .error .unmodelled

/-! ### insertion-ordered dict (assignment keeps the position of an existing key) -/
def dset {β} (k : Str) (v : β) : List (Str × β) → List (Str × β)
  | [] => [(k, v)]
  | (k', v') :: r => if k' = k then (k', v) :: r else (k', v') :: dset k v r

def dget {β} (k : Str) : List (Str × β) → Option β
  | [] => none
  | (k', v) :: r => if k' = k then some v else dget k r

/-! ### `_parse_header` -/

/-- lexicographic `<` on code point lists (Python `str` comparison) -/
def strLt : Str → Str → Bool
  | [], [] => false
  | [], _ :: _ => true
  | _ :: _, [] => false
  | a :: as, b :: bs => a < b || (a = b && strLt as bs)

/-- one RFC 2231 segment: `(num, value, encoded)` -/
abbrev Seg := Option Nat × Str × Bool

def segLt (a b : Seg) : Bool :=
  let na := a.1.getD 0
  let nb := b.1.getD 0
  na < nb || (na = nb && (strLt a.2.1 b.2.1 || (a.2.1 = b.2.1 && (!a.2.2 && b.2.2))))

def insertSeg (x : Seg) : List Seg → List Seg
  | [] => [x]
  | y :: ys => if segLt x y then x :: y :: ys else y :: insertSeg x ys

def sortSegs (l : List Seg) : List Seg := l.foldr insertSeg []

/-- `str.split("'", 2)` → three parts or `none` -/
def splitTicks (s : Str) : Option (Str × Str × Str) :=
  match splitFirst 39 s with
  | none => none
  | some (a, r) =>
    match splitFirst 39 r with
    | none => none
    | some (b, c) => some (a, b, c)

/-- `try: … collapse_rfc2231_value(v) except ValueError: … unquote(v[2])` of the fixed `_parse_header` -/
def catchValueError (r : Except Err Str) (fallback : Str) : Except Err Str :=
  match r with
  | .error (.uncaught _) => .ok fallback
  | r => r

/-- the value of one RFC 2231 parameter (decode_params + the fixed `_parse_header` loop +
    `collapse_rfc2231_value`).  Since the `fix:` commit for the RFC 2231 finding the call of `collapse_rfc2231_value`
    sits in `try … except ValueError` and the handler answers like `collapse_rfc2231_value` does for an unknown
    codec: `unquote(text)` (the only modelled raising charset is one with a NUL in its name). -/
def rfc2231Value (conts : List Seg) : Except Err Str :=
  let hasNone := conts.any (fun c => c.1.isNone)
  let hasNum := conts.any (fun c => c.1.isSome)
  if hasNone && hasNum then .error (.uncaught "TypeError")       -- `continuations.sort()` compares None with int
  else
    let sorted := sortSegs conts
    let extended := sorted.any (fun c => c.2.2)
    let joined := (sorted.map (fun c => if c.2.2 then unquoteLatin1 c.2.1 else c.2.1)).flatten
    let value := emailQuote joined
    if extended then
      match splitTicks value with
      | none =>
        -- (None, None, '"value"') → unquote → fallback charset us-ascii
        decodeCharset .ascii (rawUnicodeEscape (emailUnquote ([34] ++ value ++ [34])))
      | some (charset, _lang, rest) =>
        let text := emailUnquote ([34] ++ rest ++ [34])
        if charset.any (fun c => 55296 ≤ c && c ≤ 57343) then .error .unmodelled
        else
          catchValueError (decodeCharset (classifyCharset charset) (rawUnicodeEscape text)) (emailUnquote text)
    else .ok (emailUnquote ([34] ++ value ++ [34]))

/-- ASCII `str.lower()`; the harness keeps non-ASCII cased letters out of parameter names -/
def lowerAscii (s : Str) : Str := s.map lowerC

/-- the `(name, value)` pairs `_parse_header` hands to `decode_params` -/
def rawParams (ps : List Str) : List (Str × Str) :=
  ps.filterMap (fun p => (splitFirst 61 p).map (fun (n, v) => (lowerAscii (strip n), strip v)))

structure Grouped where
  plain : List (Str × Str) := []                 -- in order, value already `unquote`d
  ext : List (Str × List Seg) := []              -- rfc2231_params, insertion-ordered
  deriving Repr

/-- the first loop of `decode_params`; `int(num)` raises ValueError beyond `intMaxDigits` -/
def groupParams : List (Str × Str) → Grouped → Except Err Grouped
  | [], g => .ok g
  | (name, value) :: rest, g =>
    let encoded := name.getLast? = some 42
    let v := emailUnquote value
    match continuation name with
    | some (base, num) =>
      match num with
      | some ds =>
        if ds.length > intMaxDigits then .error (.uncaught "ValueError")
        else
          let seg : Seg := (some (decVal ds), v, encoded)
          groupParams rest { g with ext := dset base ((dget base g.ext).getD [] ++ [seg]) g.ext }
      | none =>
        let seg : Seg := (none, v, encoded)
        groupParams rest { g with ext := dset base ((dget base g.ext).getD [] ++ [seg]) g.ext }
    | none => groupParams rest { g with plain := g.plain ++ [(name, v)] }

/-- what the fixed `_parse_header` returns when `email.utils.decode_params` raises (`except (TypeError, ValueError):
    decoded_params = list(params)`): every parameter under the name it was written with (`x*`, `x*0` included), the value
    `unquote`d once by `collapse_rfc2231_value`, no RFC 2231 processing at all -/
def literalParams (raw : List (Str × Str)) : List (Str × Str) :=
  raw.foldl (fun d (n, v) => dset n (emailUnquote v) d) []

/-- `decode_params` raises TypeError: `continuations.sort()` compares `(None, …)` with `(int, …)` when one parameter is given
    both without and with an index (`x*=…; x*0=…`) -/
def mixedConts (ext : List (Str × List Seg)) : Bool :=
  ext.any (fun (_, conts) => conts.any (fun c => c.1.isNone) && conts.any (fun c => c.1.isSome))

/-- `_parse_header` (after the `fix:` commits for D22 and for the RFC 2231 exceptions): key and the parameter dict in
    insertion order.  `decode_params` raising (ValueError from `int()` in its first loop, TypeError from the sort) makes the
    function fall back to `literalParams`. -/
def parseHeader (line : Str) : Except Err (Str × List (Str × Str)) :=
  match parseparam line with
  | [] => .error (.uncaught "StopIteration")     -- unreachable: `segs` never returns [] (`segs_ne_nil`)
  | key :: ps =>
    match groupParams (rawParams ps) {} with
    | .error _ => .ok (key, literalParams (rawParams ps))          -- `except (TypeError, ValueError)`: int() digit limit
    | .ok g =>
      -- plain parameters: '"%s"' % quote(v), then collapse_rfc2231_value = unquote
      let d0 : List (Str × Str) :=
        g.plain.foldl (fun d (n, v) => dset n (emailUnquote ([34] ++ emailQuote v ++ [34])) d) []
      -- decode_params sorts every continuation list (TypeError on a None/int mix) before `_parse_header`
      -- decodes any charset
      if mixedConts g.ext then
        .ok (key, literalParams (rawParams ps))                    -- `except (TypeError, ValueError)`: the sort
      else
        match g.ext.foldlM (fun d (n, conts) => (rfc2231Value conts).map (fun v => dset n v d)) d0 with
        | .error e => .error e
        | .ok d => .ok (key, d)

/-! ### `_encode_header` -/

def insertKV (x : Str × Option Str) : List (Str × Option Str) → List (Str × Option Str)
  | [] => [x]
  | y :: ys => if strLt x.1 y.1 then x :: y :: ys else y :: insertKV x ys

/-- `sorted(pdict.items())` — keys of a dict are distinct, so only keys are compared -/
def sortKV (l : List (Str × Option Str)) : List (Str × Option Str) := l.foldr insertKV []

/-- `_encode_header(key, pdict)` -/
def encodeHeader (key : Str) (pdict : List (Str × Option Str)) : Str :=
  joinWith [59, 32] (key :: (sortKV pdict).map (fun (k, v) => match v with | none => k | some v => k ++ [61] ++ v))

/-! ### cookies -/

def isOct (c : Nat) : Bool := 48 ≤ c && c ≤ 55

/-- `_unquote_sub(_unquote_replace, s)` : `\\(?:([0-3][0-7][0-7])|(.))` -/
def unquoteSub : Str → Str
  | [] => []
  | 92 :: a :: b :: c :: rest =>
    if 48 ≤ a && a ≤ 51 && isOct b && isOct c then ((a - 48) * 64 + (b - 48) * 8 + (c - 48)) :: unquoteSub rest
    else if a ≠ 10 then a :: unquoteSub (b :: c :: rest)
    else 92 :: unquoteSub (a :: b :: c :: rest)
  | 92 :: a :: rest =>
    if a ≠ 10 then a :: unquoteSub rest else 92 :: unquoteSub (a :: rest)
  | c :: rest => c :: unquoteSub rest

/-- `_unquote_cookie` -/
def unquoteCookie (s : Str) : Str :=
  match s with
  | [] => []
  | [c] => [c]
  | c :: rest =>
    if c = 34 ∧ rest.getLast? = some 34 then unquoteSub (dropLast rest) else s

/-- `parse_cookie`: dict in insertion order -/
def parseCookie (cookie : Str) : List (Str × Str) :=
  (splitAll 59 cookie).foldl (fun d chunk =>
    let (k, v) := match splitFirst 61 chunk with
      | some (k, v) => (k, v)
      | none => ([], chunk)
    let k := strip k
    let v := strip v
    if k.isEmpty && v.isEmpty then d else dset k (unquoteCookie v) d) []

/-! ### `split_host_and_port` -/

/-- first code points of the Unicode `Nd` blocks of ten (`\d` for `str` patterns, Unicode 15);
    U+1D7CE..1D7FF is five consecutive blocks -/
def ndStarts : List Nat :=
  [48, 1632, 1776, 1984, 2406, 2534, 2662, 2790, 2918, 3046, 3174, 3302, 3430, 3558, 3664, 3792, 3872, 4160,
   4240, 6112, 6160, 6470, 6608, 6784, 6800, 6992, 7088, 7232, 7248, 42528, 43216, 43264, 43472, 43504, 43600,
   44016, 65296, 66720, 68912, 69734, 69872, 69942, 70096, 70384, 70736, 70864, 71248, 71360, 71472, 71904,
   72016, 72784, 73040, 73120, 73552, 92768, 92864, 93008, 120782, 120792, 120802, 120812, 120822, 123200,
   123632, 124144, 125264, 130032]

/-- digit value of a `\d` character -/
def ndValue (c : Nat) : Option Nat :=
  (ndStarts.find? (fun s => s ≤ c && c < s + 10)).map (fun s => c - s)

def isNd (c : Nat) : Bool := (ndValue c).isSome

/-- `int(s)` for a string of `\d` characters -/
def ndInt (s : Str) : Nat := s.foldl (fun acc c => acc * 10 + (ndValue c).getD 0) 0

/-- split at the last occurrence of `sep` -/
def splitLast (sep : Nat) (s : Str) : Option (Str × Str) :=
  match splitFirst sep s.reverse with
  | none => none
  | some (b, a) => some (a.reverse, b.reverse)

/-- `_netloc_re = ^(.+):(\d+)$` with `match`: `$` also matches before a final newline, `.` excludes newline -/
def netlocMatch (s : Str) : Option (Str × Str) :=
  let s0 := if s.getLast? = some 10 then dropLast s else s
  if s0.contains 10 then none
  else match splitLast 58 s0 with
    | none => none
    | some (h, ds) => if !h.isEmpty && !ds.isEmpty && ds.all isNd then some (h, ds) else none

/-- `int(s)` as `split_host_and_port` calls it.  For text made of `\d` characters only (what group 2 of `_netloc_re` is):
    ValueError beyond `sys.get_int_max_str_digits()` digits, else the decimal value (every `Nd` character has a decimal
    value — compared with `int(chr(c))` for the whole table on every run, case `tables`).  Any other text (sign, blanks,
    underscores, non-digits: `int` would accept some and raise ValueError for others) is outside the model. -/
def pyInt (s : Str) : Except Err Nat :=
  if s.isEmpty || !s.all isNd then .error .unmodelled
  else if s.length > intMaxDigits then .error (.uncaught "ValueError")
  else .ok (ndInt s)

/-- `split_host_and_port` (after the `fix:` commit for D10): `try: port = int(group 2); host = group 1` /
    `except ValueError: pass`.  Only a ValueError of `int` is caught; any other failure of the call escapes. -/
def splitHostPort (s : Str) : Except Err (Str × Option Nat) :=
  match netlocMatch s with
  | some (h, ds) =>
    match pyInt ds with
    | .ok n => .ok (h, some n)
    | .error e => if e = .uncaught "ValueError" then .ok (s, none) else .error e
  | none => .ok (s, none)

/-- `split_host_and_port` as it was before the fix (kept for the refutation of the unfixed code) -/
def splitHostPortOld (s : Str) : Except Err (Str × Option Nat) :=
  match netlocMatch s with
  | some (h, ds) => if ds.length > intMaxDigits then .error (.uncaught "ValueError") else .ok (h, some (ndInt ds))
  | none => .ok (s, none)

/-! ### `re.escape` / `re_unescape` -/

/-- `re._special_chars_map` : ``()[]{}?*+-|^$\.&~# \t\n\r\v\f`` -/
def isSpecial (c : Nat) : Bool :=
  [40, 41, 91, 93, 123, 125, 63, 42, 43, 45, 124, 94, 36, 92, 46, 38, 126, 35, 32, 9, 10, 13, 11, 12].contains c

/-- `re.escape` (str) -/
def reEscape (s : Str) : Str := s.flatMap (fun c => if isSpecial c then [92, c] else [c])

/-- `re_unescape`: `re.sub(r"\\(.)", DOTALL)`, ValueError for an escaped ASCII alphanumeric -/
def reUnescape : Str → Except Err Str
  | [] => .ok []
  | 92 :: c :: rest =>
    if isAlnum c then .error (.uncaught "ValueError")
    else (reUnescape rest).map (c :: ·)
  | c :: rest => (reUnescape rest).map (c :: ·)

/-! ### `is_valid_ip` -/

/-- outcome of `socket.getaddrinfo(ip, 0, AF_UNSPEC, SOCK_STREAM, 0, AI_NUMERICHOST)` -/
inductive Gai where
  | addrs (n : Nat)       -- a list of n results
  | noname                -- gaierror EAI_NONAME
  | otherError            -- any other gaierror (re-raised)
  | unicodeError          -- UnicodeError from the idna codec
  deriving Repr, BEq, DecidableEq

/-- `ip.partition("%")[2]`: the text after the first `%` (empty when there is none) -/
def zoneId (ip : Str) : Str :=
  match splitFirst 37 ip with
  | some (_, z) => z
  | none => []

/-- `is_valid_ip` (after the `fix:` commits rejecting non-ASCII text and a zone id containing ":"); `gai` is the resolver -/
def isValidIp (gai : Str → Gai) (ip : Str) : Except Err Bool :=
  if ip.isEmpty || ip.contains 0 || !isAscii ip then .ok false
  else if (zoneId ip).contains 58 then .ok false
  else match gai ip with
    | .addrs n => .ok (n != 0)
    | .noname => .ok false
    | .otherError => .error (.uncaught "gaierror")
    | .unicodeError => .ok false

/-! ### `format_timestamp` and the way back -/

/-- days since 1970-01-01 → (year, month, day)  (proleptic Gregorian; Hinnant's `civil_from_days`) -/
def civilFromDays (d : Nat) : Nat × Nat × Nat :=
  let z := d + 719468
  let era := z / 146097
  let doe := z % 146097
  let yoe := (doe - doe / 1460 + doe / 36524 - doe / 146096) / 365
  let doy := doe - (365 * yoe + yoe / 4 - yoe / 100)
  let mp := (5 * doy + 2) / 153
  let day := doy - (153 * mp + 2) / 5 + 1
  let m := if mp < 10 then mp + 3 else mp - 9
  let y := yoe + era * 400 + (if m ≤ 2 then 1 else 0)
  (y, m, day)

/-- (year ≥ 1970, month, day) → days since 1970-01-01 (`days_from_civil`) -/
def daysFromCivil (y m d : Nat) : Nat :=
  let y' := if m ≤ 2 then y - 1 else y
  let era := y' / 400
  let yoe := y' % 400
  let mp := if m > 2 then m - 3 else m + 9
  let doy := (153 * mp + 2) / 5 + d - 1
  let doe := yoe * 365 + yoe / 4 - yoe / 100 + doy
  era * 146097 + doe - 719468

def dayNames : List Str := ["Thu", "Fri", "Sat", "Sun", "Mon", "Tue", "Wed"].map ofAscii   -- 1970-01-01 was a Thursday
def monthNames : List Str :=
  ["Jan", "Feb", "Mar", "Apr", "May", "Jun", "Jul", "Aug", "Sep", "Oct", "Nov", "Dec"].map ofAscii

def pad2 (n : Nat) : Str := [48 + n / 10 % 10, 48 + n % 10]
def pad4 (n : Nat) : Str := [48 + n / 1000 % 10, 48 + n / 100 % 10, 48 + n / 10 % 10, 48 + n % 10]

/-- `format_timestamp(ts)` for an integer `ts ≥ 0` : `email.utils.formatdate(ts, usegmt=True)` -/
def formatTimestamp (ts : Nat) : Str :=
  let days := ts / 86400
  let secs := ts % 86400
  let (y, m, d) := civilFromDays days
  (dayNames.getD (days % 7) []) ++ [44, 32] ++ pad2 d ++ [32] ++ (monthNames.getD (m - 1) []) ++ [32] ++ pad4 y ++ [32]
    ++ pad2 (secs / 3600) ++ [58] ++ pad2 (secs / 60 % 60) ++ [58] ++ pad2 (secs % 60) ++ ofAscii " GMT"

/-! #### `format_timestamp` for time-tuple and `datetime.datetime` arguments

The process time zone (`TZ`, `/etc/localtime`) is not an input of any of these functions: a naive `datetime` is read
as UTC (`utctimetuple()` returns its fields unchanged), an aware one has `utcoffset()` subtracted. -/

/-- `calendar.timegm((y, mo, d, h, mi, s, …))` for `y ≥ 1970` -/
def timegm (y mo d h mi s : Nat) : Nat := daysFromCivil y mo d * 86400 + h * 3600 + mi * 60 + s

/-- `format_timestamp(tuple_or_struct_time)` : `formatdate(calendar.timegm(t), usegmt=True)` -/
def formatTimestampTuple (y mo d h mi s : Nat) : Str := formatTimestamp (timegm y mo d h mi s)

/-- what `utctimetuple()` reads of a `datetime.datetime`: civil date, time of day (the microsecond field and `fold` are
    not read) and `utcoffset()` in whole seconds — `none` for a naive object -/
structure DateTime where
  y : Nat
  mo : Nat
  d : Nat
  h : Nat
  mi : Nat
  s : Nat
  off : Option Int
  deriving Repr, DecidableEq

/-- `calendar.timegm(dt.utctimetuple())` (fields from 1970 on) -/
def DateTime.timeNum (t : DateTime) : Int :=
  match t.off with
  | none => (timegm t.y t.mo t.d t.h t.mi t.s : Nat)
  | some o => (timegm t.y t.mo t.d t.h t.mi t.s : Nat) - o

/-- `format_timestamp(dt)`; wall-clock fields before 1970 and instants before the epoch are outside the model -/
def formatTimestampDT (t : DateTime) : Except Err Str :=
  if t.y < 1970 then .error .unmodelled
  else if t.timeNum < 0 then .error .unmodelled
  else .ok (formatTimestamp t.timeNum.toNat)

/-- the `datetime` showing instant `ts` (seconds since the epoch) on a wall clock `off` seconds ahead of UTC
    (`datetime.fromtimestamp(ts, timezone(timedelta(seconds=off)))`; `naive = true` drops the tzinfo of the UTC form).
    `loc` is the wall-clock reading in seconds, `ts + off`, supplied as a natural number. -/
def dateTimeAt (loc : Nat) (off : Option Int) : DateTime :=
  let c := civilFromDays (loc / 86400)
  { y := c.1, mo := c.2.1, d := c.2.2, h := loc % 86400 / 3600, mi := loc % 86400 / 60 % 60, s := loc % 86400 % 60, off := off }

def indexOf? (x : Str) : List Str → Option Nat
  | [] => none
  | y :: ys => if x = y then some 0 else (indexOf? x ys).map (· + 1)

/-- strict reader of the IMF-fixdate form `Www, DD Mon YYYY HH:MM:SS GMT` (what
    `calendar.timegm(email.utils.parsedate(s))` computes on such a string; the weekday is not interpreted) -/
def parseHttpDate (s : Str) : Option Nat :=
  match s with
  | [_, _, _, 44, 32, d1, d2, 32, m1, m2, m3, 32, y1, y2, y3, y4, 32, h1, h2, 58, mi1, mi2, 58, s1, s2, 32, 71, 77, 84] =>
    if [d1, d2, y1, y2, y3, y4, h1, h2, mi1, mi2, s1, s2].all isDigit then
      match indexOf? [m1, m2, m3] monthNames with
      | none => none
      | some mi =>
        let y := decVal [y1, y2, y3, y4]
        if y < 1970 then none
        else some (daysFromCivil y (mi + 1) (decVal [d1, d2]) * 86400 + decVal [h1, h2] * 3600 + decVal [mi1, mi2] * 60 + decVal [s1, s2])
    else none
  | _ => none

/-! ### `url_concat` -/

/-- `urllib.parse.quote_plus(s)` : unreserved `[A-Za-z0-9_.~-]` stay, space → `+`, the rest → `%XX` of UTF-8 -/
def isUnreserved (c : Nat) : Bool := isAlnum c || c = 95 || c = 46 || c = 45 || c = 126

def hexUpper (n : Nat) : Nat := if n < 10 then 48 + n else 55 + n

def quotePlus (s : Str) : Str :=
  s.flatMap (fun c =>
    if isUnreserved c then [c]
    else if c = 32 then [43]
    else (utf8EncC c).flatMap (fun b => [37, hexUpper (b / 16), hexUpper (b % 16)]))

/-- `urlencode(pairs)` for `str` pairs -/
def urlencode (ps : List (Str × Str)) : Str :=
  joinWith [38] (ps.map (fun (k, v) => quotePlus k ++ [61] ++ quotePlus v))

def plusToSpace (s : Str) : Str := s.map (fun c => if c = 43 then 32 else c)

/-- `parse_qsl(qs, keep_blank_values=True)` -/
def parseQsl (qs : Str) : List (Str × Str) :=
  (splitAll 38 qs).filterMap (fun nv =>
    if nv.isEmpty then none
    else match splitFirst 61 nv with
      | some (n, v) => some (unquoteUtf8 (plusToSpace n), unquoteUtf8 (plusToSpace v))
      | none => some (unquoteUtf8 (plusToSpace nv), []))

/-- the simplified `urlsplit`: `(base, query, fragment)`; `base` (scheme, netloc, path, params) is kept verbatim.
    Domain (enforced by the generator): what `urlunparse(urlparse(base))` leaves unchanged. -/
def urlSplit (url : Str) : Str × Str × Str :=
  let (pre, frag) := match splitFirst 35 url with | some (a, b) => (a, b) | none => (url, [])
  let (base, q) := match splitFirst 63 pre with | some (a, b) => (a, b) | none => (pre, [])
  (base, q, frag)

/-- `url_concat(url, args)` for a list of pairs (`none` = `args is None`) -/
def urlConcat (url : Str) (args : Option (List (Str × Str))) : Str :=
  match args with
  | none => url
  | some args =>
    let (base, q, frag) := urlSplit url
    let fq := urlencode (parseQsl q ++ args)
    base ++ (if fq.isEmpty then [] else 63 :: fq) ++ (if frag.isEmpty then [] else 35 :: frag)

end TornadoModel.C43
