/- C43 — lemmas added for the review findings (host/port error outcome, `_parse_header` returns, host names, RFC classes). -/
import TornadoModel.C43.Lemmas
import TornadoModel.C43.SpecExt
namespace TornadoModel.C43
open TornadoModel.C06 (Str isToken isTchar isFieldVchar)

/-! ### `split_host_and_port` -/

/-- group 2 of `_netloc_re` is a non-empty run of `\d` characters: exactly the text `int()` is modelled on -/
theorem netlocMatch_digits (s h ds : Str) (hm : netlocMatch s = some (h, ds)) : ds ≠ [] ∧ ds.all isNd = true := by
  unfold netlocMatch at hm
  simp only at hm
  generalize (if s.getLast? = some 10 then dropLast s else s) = s0 at hm
  split at hm
  · exact absurd hm (by simp)
  · split at hm
    · exact absurd hm (by simp)
    · split at hm
      · rename_i hc
        simp only [Option.some.injEq, Prod.mk.injEq] at hm
        obtain ⟨-, rfl⟩ := hm
        simp only [Bool.and_eq_true, Bool.not_eq_true', List.isEmpty_eq_false_iff] at hc
        exact ⟨hc.1.2, hc.2⟩
      · exact absurd hm (by simp)

/-- on such text `int()` returns or raises ValueError (the digit limit) — nothing else -/
theorem pyInt_digits (ds : Str) (h1 : ds ≠ []) (h2 : ds.all isNd = true) :
    pyInt ds = .ok (ndInt ds) ∨ pyInt ds = .error (.uncaught "ValueError") := by
  unfold pyInt
  have he : ds.isEmpty = false := by cases ds <;> simp_all
  simp only [he, h2, Bool.not_true, Bool.or_self, Bool.false_eq_true, if_false]
  by_cases hl : ds.length > intMaxDigits <;> simp [hl]

theorem splitHostPort_returns_proof (s : Str) : ∃ r, splitHostPort s = .ok r := by
  unfold splitHostPort
  cases hm : netlocMatch s with
  | none => exact ⟨_, rfl⟩
  | some p =>
    obtain ⟨h, ds⟩ := p
    obtain ⟨h1, h2⟩ := netlocMatch_digits s h ds hm
    rcases pyInt_digits ds h1 h2 with e | e <;> simp [e]

theorem splitHostPort_old_proof (s : Str) :
    splitHostPort s = .ok (match splitHostPortOld s with | .ok r => r | .error _ => (s, none)) := by
  unfold splitHostPort splitHostPortOld
  cases hm : netlocMatch s with
  | none => rfl
  | some p =>
    obtain ⟨h, ds⟩ := p
    obtain ⟨h1, h2⟩ := netlocMatch_digits s h ds hm
    have he : ds.isEmpty = false := by cases ds <;> simp_all
    by_cases hl : ds.length > intMaxDigits <;> simp [pyInt, he, h2, hl]

/-! ### `_parse_header` returns -/

theorem catch_decode_rou (cs : Charset) (b : List Nat) (t : Str) :
    Spec.returnsOrUnmodelled (catchValueError (decodeCharset cs b) t) = true := by
  cases cs <;> rfl

theorem rfc2231Value_rou (conts : List Seg)
    (h : (conts.any (fun c => c.1.isNone) && conts.any (fun c => c.1.isSome)) = false) :
    Spec.returnsOrUnmodelled (rfc2231Value conts) = true := by
  unfold rfc2231Value
  simp only [h, Bool.false_eq_true, if_false]
  split
  · split
    · rfl
    · split
      · rfl
      · exact catch_decode_rou _ _ _
  · rfl

theorem foldlM_rfc2231_rou (l : List (Str × List Seg)) (d0 : List (Str × Str))
    (h : ∀ p ∈ l, Spec.returnsOrUnmodelled (rfc2231Value p.2) = true) :
    Spec.returnsOrUnmodelled (l.foldlM (fun d (n, conts) => (rfc2231Value conts).map (fun v => dset n v d)) d0) = true := by
  induction l generalizing d0 with
  | nil => rfl
  | cons p ps ih =>
    obtain ⟨n, conts⟩ := p
    have hp : Spec.returnsOrUnmodelled (rfc2231Value conts) = true := h (n, conts) List.mem_cons_self
    simp only [List.foldlM_cons]
    cases hv : rfc2231Value conts with
    | error e =>
      rw [hv] at hp
      cases e with
      | uncaught k => exact Bool.noConfusion hp
      | httpInput => exact Bool.noConfusion hp
      | unmodelled => rfl
    | ok v => exact ih _ (fun q hq => h q (List.mem_cons_of_mem _ hq))

theorem withKey_rou (key : Str) (r : Except Err (List (Str × Str))) (h : Spec.returnsOrUnmodelled r = true) :
    Spec.returnsOrUnmodelled (match r with
      | .error e => (.error e : Except Err (Str × List (Str × Str)))
      | .ok d => .ok (key, d)) = true := by
  cases r with
  | ok d => rfl
  | error e =>
    cases e with
    | uncaught k => exact Bool.noConfusion h
    | httpInput => exact Bool.noConfusion h
    | unmodelled => rfl

theorem parseHeader_rou (line : Str) : Spec.returnsOrUnmodelled (parseHeader line) = true := by
  unfold parseHeader
  have hne : parseparam line ≠ [] := by
    simp only [parseparam, ne_eq, List.map_eq_nil_iff]
    exact segs_ne_nil line false false
  cases hp : parseparam line with
  | nil => exact absurd hp hne
  | cons key ps =>
    simp only
    cases hg : groupParams (rawParams ps) {} with
    | error e => rfl
    | ok g =>
      simp only
      cases hm : mixedConts g.ext with
      | true => rfl
      | false =>
        simp only [Bool.false_eq_true, if_false]
        have hall : ∀ p ∈ g.ext, Spec.returnsOrUnmodelled (rfc2231Value p.2) = true := by
          intro p hp'
          apply rfc2231Value_rou
          unfold mixedConts at hm
          rw [List.any_eq_false] at hm
          exact Bool.of_not_eq_true (hm p hp')
        exact withKey_rou key _ (foldlM_rfc2231_rou g.ext _ hall)

theorem rou_cases {α} (r : Except Err α) (h : Spec.returnsOrUnmodelled r = true) :
    (∃ v, r = .ok v) ∨ r = .error .unmodelled := by
  cases r with
  | ok v => exact .inl ⟨v, rfl⟩
  | error e =>
    cases e with
    | uncaught k => exact Bool.noConfusion h
    | httpInput => exact Bool.noConfusion h
    | unmodelled => exact .inr rfl

/-! ### host names vs plain addresses -/

theorem nameLetter_not_ipChar (c : Nat) (h : Spec.isNameLetter c = true) : Spec.isIpChar c = false := by
  simp only [Spec.isNameLetter, Spec.rfcALPHA, Bool.and_eq_true, Bool.or_eq_true, decide_eq_true_eq, Bool.not_eq_true',
    bne_iff_ne, ne_eq] at h
  obtain ⟨⟨⟨ha, hh⟩, -⟩, -⟩ := h
  simp only [Spec.isIpChar, hh, Bool.false_or, Bool.or_eq_false_iff, decide_eq_false_iff_not]
  omega

theorem hostName_not_plainIP_proof (s : Str) (h : Spec.hostName s = true) : Spec.plainIP s = false := by
  simp only [Spec.hostName, Bool.and_eq_true, List.any_eq_true] at h
  obtain ⟨-, c, hc, hn⟩ := h
  have hi := nameLetter_not_ipChar c hn
  cases hall : s.all Spec.isIpChar with
  | false => simp [Spec.plainIP, hall]
  | true =>
    have := List.all_eq_true.mp hall c hc
    rw [hi] at this
    exact Bool.noConfusion this

theorem plainIP_prechecks (s : Str) (hp : Spec.plainIP s = true) : s.isEmpty = false ∧ 0 ∉ s ∧ isAscii s = true := by
  have hne : s ≠ [] := by
    intro hs
    subst hs
    revert hp
    decide
  simp only [Spec.plainIP, Bool.and_eq_true] at hp
  have hall := hp.1
  refine ⟨by cases s <;> simp_all, ?_, ?_⟩
  · intro hm'
    have := List.all_eq_true.mp hall 0 hm'
    revert this; decide
  · simp only [isAscii, List.all_eq_true, decide_eq_true_eq]
    intro c hcm
    have := List.all_eq_true.mp hall c hcm
    simp only [Spec.isIpChar, isHexDigit, isDigit, Bool.or_eq_true, Bool.and_eq_true, decide_eq_true_eq] at this
    omega

theorem splitFirst_none_of_not_mem (sep : Nat) (s : Str) (h : sep ∉ s) : splitFirst sep s = none := by
  induction s with
  | nil => rfl
  | cons c cs ih =>
    simp only [List.mem_cons, not_or] at h
    have hc : c ≠ sep := fun e => h.1 e.symm
    simp [splitFirst, hc, ih h.2]

/-- plain address text has no `%`, hence no zone id -/
theorem plainIP_zone (s : Str) (hp : Spec.plainIP s = true) : (zoneId s).contains 58 = false := by
  simp only [Spec.plainIP, Bool.and_eq_true] at hp
  have hall := hp.1
  have h37 : 37 ∉ s := by
    intro hm'
    have := List.all_eq_true.mp hall 37 hm'
    revert this; decide
  simp [zoneId, splitFirst_none_of_not_mem 37 s h37]

/-! ### the RFC classes of `SpecExt.lean` coincide with the model's -/

theorem rfcTchar_eq (c : Nat) : Spec.rfcTchar c = isTchar c := by
  by_cases h : c < 128
  · revert c; decide
  · have l : Spec.rfcTchar c = false := by
      simp [Spec.rfcTchar, Spec.rfcDIGIT, Spec.rfcALPHA]; omega
    have r : isTchar c = false := by
      simp [isTchar, C06.isAlnum]; omega
    rw [l, r]

theorem rfcToken_eq (s : Str) : Spec.rfcToken s = isToken s := by
  have : Spec.rfcTchar = isTchar := funext rfcTchar_eq
  simp [Spec.rfcToken, isToken, this]

theorem relaxedTarget_eq (t : Str) : Spec.relaxedTarget t = isTarget t := rfl

theorem rfcVersion1_eq (v : Str) : Spec.rfcVersion1 v = isVersion1 v := by
  unfold Spec.rfcVersion1 isVersion1
  split
  · rfl
  · rename_i hx
    split
    · exact (hx _ _ rfl).elim
    · rfl

theorem rfcReasonChar_eq : Spec.rfcReasonChar = isReasonChar := rfl
theorem rfcDIGIT_eq : Spec.rfcDIGIT = isDigit := rfl

theorem rfcRequestLine_iff (line m t v : Str) : Spec.RfcRequestLine line m t v ↔ Spec.RequestLine line m t v := by
  simp only [Spec.RfcRequestLine, Spec.RequestLine, rfcToken_eq, relaxedTarget_eq, rfcVersion1_eq]

theorem rfcStatusLine_iff (line v : Str) (code : Nat) (reason : Option Str) :
    Spec.RfcStatusLine line v code reason ↔ Spec.StatusLine line v code reason := by
  simp only [Spec.RfcStatusLine, Spec.StatusLine, rfcVersion1_eq, rfcReasonChar_eq, rfcDIGIT_eq]

end TornadoModel.C43
