/-
C32 — what the property demands, read literally:
* the client address candidate is `X-Real-Ip` if that header is present, else the rightmost
  `X-Forwarded-For` entry that is not a trusted downstream proxy; `remote_ip` is the candidate when there is one
  and it is a numeric IP address, and the socket address otherwise;
* `protocol` is "http" or "https";
* each request sees what it would see on a fresh connection.
Headers are an ordered multimap (C06 Spec); a header's value is its field values joined by ",".
-/
import TornadoModel.C32.Model
namespace TornadoModel.C32.Spec
open TornadoModel.C06 (Str Headers)
open TornadoModel.C43 (strip splitAll)
open TornadoModel.C32

def candidate (trusted : List Str) (xff realIp : Option Str) : Option Str :=
  match realIp with
  | some r => some r
  | none =>
    match xff with
    | none => none
    | some l => (((splitAll 44 l).map strip).reverse).find? (fun e => !trusted.contains e)

def remoteIp (valid : Str → Bool) (sockIp : Str) (trusted : List Str) (xff realIp : Option Str) : Str :=
  match candidate trusted xff realIp with
  | some c => if valid c then c else sockIp
  | none => sockIp

def remoteIpOf (valid : Str → Bool) (sockIp : Str) (trusted : List Str) (h : Headers) : Str :=
  remoteIp valid sockIp trusted (hget h "X-Forwarded-For") (hget h "X-Real-Ip")

def protocolOk (p : Str) : Bool := p = cHttp || p = cHttps

/-- the situation in which the code departs from the literal reading (known finding): no `X-Real-Ip`, and an
    `X-Forwarded-For` list whose every entry is a trusted proxy — the code then takes the leftmost entry -/
def allTrusted (trusted : List Str) (h : Headers) : Bool :=
  (hget h "X-Real-Ip").isNone &&
  match hget h "X-Forwarded-For" with
  | none => false
  | some l => ((splitAll 44 l).map strip).all (fun e => trusted.contains e)

end TornadoModel.C32.Spec
