/-
C32 — what the property demands, read literally:
* the client address candidate is `X-Real-Ip` if that header is present, else the rightmost
  `X-Forwarded-For` entry that is not a trusted downstream proxy; `remote_ip` is the candidate when there is one
  and it is a numeric IP address, and the socket address otherwise;
* `protocol` is "http" or "https";
* each request sees what it would see on a fresh connection.
Headers are an ordered multimap (C06 Spec); a header's value is its field values joined by ",".
-/
import TornadoModel.C32.Model
import TornadoModel.C43.Spec
namespace TornadoModel.C32.Spec
open TornadoModel.C06 (Str Headers)
open TornadoModel.C43 (strip splitAll isDigit isHexDigit hexVal)
open TornadoModel.C32

def candidate (trusted : List Str) (xff realIp : Option Str) : Option Str :=
  match realIp with
  | some r => some r
  | none =>
    match xff with
    | none => none
    | some l => (((splitAll 44 l).map strip).reverse).find? (fun e => !trusted.contains e)

def remoteIp (valid : Str → Bool) (sockIp : Str) (trusted : List Str) (xff realIp : Option Str) : Str :=
  match candidate trusted xff realIp with
  | some c => if valid c then c else sockIp
  | none => sockIp

def remoteIpOf (valid : Str → Bool) (sockIp : Str) (trusted : List Str) (h : Headers) : Str :=
  remoteIp valid sockIp trusted (hget h "X-Forwarded-For") (hget h "X-Real-Ip")

/-! ### "a numeric IP address" — written from inet(3) / RFC 4291 / RFC 4007, sharing nothing with `is_valid_ip`

* IPv4 numbers-and-dots notation as `inet_aton` reads it (inet(3)): `a.b.c.d`, `a.b.c`, `a.b`, `a`; each number in C
  notation — decimal, octal with a leading `0`, hexadecimal with a leading `0x`/`0X`; every number but the last is one
  byte, the last fills the remaining bytes;
* IPv6 text (RFC 4291 §2.2 forms 1–3: `C43.Spec.plainIPv6`), optionally followed by `%` and a zone id (RFC 4007 §11;
  the characters of RFC 6874 `ZoneID` without pct-encoding: ALPHA / DIGIT / "-" / "." / "_" / "~"). -/

def isOctDigit (c : Nat) : Bool := 48 ≤ c && c ≤ 55

/-- value of a digit string in the given base (digits assumed valid) -/
def baseVal (b : Nat) (s : Str) : Nat := s.foldl (fun acc c => acc * b + hexVal c) 0

/-- one number of the numbers-and-dots notation, with its value -/
def atonNumber (s : Str) : Option Nat :=
  match s with
  | [] => none
  | 48 :: x :: rest =>
    if x = 120 ∨ x = 88 then (if !rest.isEmpty && rest.all isHexDigit then some (baseVal 16 rest) else none)
    else if (x :: rest).all isOctDigit then some (baseVal 8 (x :: rest)) else none
  | _ => if s.all isDigit then some (baseVal 10 s) else none

def numbersAndDots (s : Str) : Bool :=
  let ps := splitAll 46 s
  match ps.mapM atonNumber with
  | none => false
  | some vs =>
    1 ≤ vs.length && vs.length ≤ 4 && vs.dropLast.all (· ≤ 255) &&
    (match vs.getLast? with
     | some l => l < 256 ^ (5 - vs.length)
     | none => false)

def isZoneChar (c : Nat) : Bool :=
  C43.isAlnum c || c = 45 || c = 46 || c = 95 || c = 126

def numericIPv6 (s : Str) : Bool :=
  match C43.splitFirst 37 s with
  | none => C43.Spec.plainIPv6 s
  | some (a, z) => C43.Spec.plainIPv6 a && !z.isEmpty && z.all isZoneChar

/-- a numeric IP address -/
def numericIP (s : Str) : Bool := numbersAndDots s || numericIPv6 s

/-- the addresses every resolver must accept (no zone, no `inet_aton` short forms): `C43.Spec.plainIP` -/
def plainIP (s : Str) : Bool := C43.Spec.plainIP s

/-- what the literal reading allows `remote_ip` to be, *without reference to `is_valid_ip`*: the candidate when it is
    a plain address; the socket address when it is not numeric at all; either one for the numeric forms whose
    acceptance is the platform resolver's call (short IPv4 forms, zone ids naming an interface) -/
def allowed (sockIp : Str) (trusted : List Str) (xff realIp : Option Str) : List Str :=
  match candidate trusted xff realIp with
  | none => [sockIp]
  | some c => if plainIP c then [c] else if numericIP c then [c, sockIp] else [sockIp]

def allowedOf (sockIp : Str) (trusted : List Str) (h : Headers) : List Str :=
  allowed sockIp trusted (hget h "X-Forwarded-For") (hget h "X-Real-Ip")

def protocolOk (p : Str) : Bool := p = cHttp || p = cHttps

/-- the situation in which the code departs from the literal reading (known finding): no `X-Real-Ip`, and an
    `X-Forwarded-For` list whose every entry is a trusted proxy — the code then takes the leftmost entry -/
def allTrusted (trusted : List Str) (h : Headers) : Bool :=
  (hget h "X-Real-Ip").isNone &&
  match hget h "X-Forwarded-For" with
  | none => false
  | some l => ((splitAll 44 l).map strip).all (fun e => trusted.contains e)

end TornadoModel.C32.Spec
