/- C32 — property theorems -/
import TornadoModel.C32.Spec
namespace TornadoModel.C32
open TornadoModel.C06 (Str Headers)

/-- `_unapply_xheaders` restores the socket values, whatever was applied. -/
theorem unapply_restores (valid : Str → Bool) (c : Ctx) (h : Headers) :
    (unapplyX (applyX valid c h)).remoteIp = c.origIp ∧ (unapplyX (applyX valid c h)).protocol = c.origProtocol := by
  simp [unapplyX, applyX]

end TornadoModel.C32
