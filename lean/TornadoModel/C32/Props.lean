/- C32 — property theorems.  `valid` (netutil.is_valid_ip) is universally quantified everywhere. -/
import TornadoModel.C32.Spec
namespace TornadoModel.C32
open TornadoModel.C06 (Str Headers)
open TornadoModel.C43 (strip splitAll)

/-! ### where `remote_ip` comes from -/

theorem pick_mem_or_dflt (tr : List Str) (d : Str) (cs : List Str) : pick tr d cs = d ∨ pick tr d cs ∈ cs := by
  induction cs generalizing d with
  | nil => left; rfl
  | cons c cs ih =>
    simp only [pick]
    split
    · rcases ih c with h | h
      · right; rw [h]; exact List.mem_cons_self
      · right; exact List.mem_cons_of_mem _ h
    · right; exact List.mem_cons_self

theorem pick_ne_nil (tr : List Str) (d : Str) (cs : List Str) (h : cs ≠ []) : pick tr d cs ∈ cs := by
  cases cs with
  | nil => exact absurd rfl h
  | cons c cs =>
    simp only [pick]
    split
    · rcases pick_mem_or_dflt tr c cs with h' | h'
      · rw [h']; exact List.mem_cons_self
      · exact List.mem_cons_of_mem _ h'
    · exact List.mem_cons_self

/-- `remote_ip_source`: after `_apply_xheaders` the address is either unchanged (the socket address on a restored
    context) or a string accepted by `is_valid_ip` that is the `X-Real-Ip` value or — only when that header is
    absent — one of the comma-separated, stripped entries of `X-Forwarded-For` (of the current address when
    that header is absent too). -/
theorem remote_ip_source (valid : Str → Bool) (c : Ctx) (h : Headers) :
    (applyX valid c h).remoteIp = c.remoteIp ∨
    (valid (applyX valid c h).remoteIp = true ∧
      (hget h "X-Real-Ip" = some (applyX valid c h).remoteIp ∨
       (hget h "X-Real-Ip" = none ∧
        (applyX valid c h).remoteIp ∈ (splitAll 44 ((hget h "X-Forwarded-For").getD c.remoteIp)).map strip))) := by
  simp only [applyX]
  split
  · rename_i hv
    right
    refine ⟨hv, ?_⟩
    cases hr : hget h "X-Real-Ip" with
    | some r => left; simp
    | none =>
      right
      refine ⟨rfl, ?_⟩
      simp only [Option.getD_none]
      have hne : ((splitAll 44 ((hget h "X-Forwarded-For").getD c.remoteIp)).reverse.map strip) ≠ [] := by
        have : splitAll 44 ((hget h "X-Forwarded-For").getD c.remoteIp) ≠ [] := by
          generalize (hget h "X-Forwarded-For").getD c.remoteIp = s
          cases s with
          | nil => simp [splitAll]
          | cons a as =>
            simp only [splitAll]
            split
            · simp
            · split <;> simp
        simpa using this
      have := pick_ne_nil c.trusted ((hget h "X-Forwarded-For").getD c.remoteIp) _ hne
      simpa using this
  · left; rfl

/-- the address is the previous one or one that `is_valid_ip` accepted -/
theorem remote_ip_valid_or_socket (valid : Str → Bool) (c : Ctx) (h : Headers) :
    (applyX valid c h).remoteIp = c.remoteIp ∨ valid (applyX valid c h).remoteIp = true := by
  rcases remote_ip_source valid c h with h1 | h1
  · left; exact h1
  · right; exact h1.1

/-! ### agreement with the literal reading (`Spec.remoteIpOf`) -/

theorem pick_eq_find (tr : List Str) (d x : Str) (cs : List Str)
    (h : cs.find? (fun e => !tr.contains e) = some x) : pick tr d cs = x := by
  induction cs generalizing d with
  | nil => simp at h
  | cons c cs ih =>
    simp only [List.find?_cons] at h
    simp only [pick]
    cases hc : tr.contains c with
    | true => simp only [hc, Bool.not_true] at h; simp only [if_true]; exact ih c h
    | false => simp only [hc, Bool.not_false] at h; simp at h; simp [h]

/-- the full statement: the model's address is the literal reading's address, for all headers -/
def remote_ip_spec_full : Prop :=
  ∀ (valid : Str → Bool) (s p : Str) (t : List Str) (h : Headers), (splitAll 44 s).map strip = [s] →
    (applyX valid (Ctx.init s p t) h).remoteIp = Spec.remoteIpOf valid s t h

/-- `remote_ip_spec_partial`: outside the all-entries-trusted situation the rewrite computes exactly the literal
    reading: `X-Real-Ip` first, else the rightmost `X-Forwarded-For` entry not in `trusted_downstream`, used only if
    `is_valid_ip` accepts it, else the socket address.  (`hs`: the socket address is one token.) -/
theorem remote_ip_spec_partial (valid : Str → Bool) (s p : Str) (t : List Str) (h : Headers)
    (hs : (splitAll 44 s).map strip = [s]) (hn : Spec.allTrusted t h = false) :
    (applyX valid (Ctx.init s p t) h).remoteIp = Spec.remoteIpOf valid s t h := by
  simp only [applyX, Ctx.init, Spec.remoteIpOf, Spec.remoteIp, Spec.candidate]
  cases hr : hget h "X-Real-Ip" with
  | some r => simp
  | none =>
    cases hx : hget h "X-Forwarded-For" with
    | none =>
      simp only [Option.getD_none, List.map_reverse, hs, List.reverse_cons, List.reverse_nil, List.nil_append]
      simp only [pick]
      split <;> simp
    | some l =>
      simp only [Option.getD_some, Option.getD_none, List.map_reverse]
      simp only [Spec.allTrusted, hr, hx, Option.isNone_none, Bool.true_and] at hn
      have hex : ∃ x, ((splitAll 44 l).map strip).reverse.find? (fun e => !t.contains e) = some x := by
        cases hf : ((splitAll 44 l).map strip).reverse.find? (fun e => !t.contains e) with
        | some x => exact ⟨x, rfl⟩
        | none =>
          exfalso
          rw [List.find?_eq_none] at hf
          have : ((splitAll 44 l).map strip).all (fun e => t.contains e) = true := by
            rw [List.all_eq_true]
            intro e he
            have := hf e (List.mem_reverse.mpr he)
            simpa using this
          rw [this] at hn
          exact Bool.noConfusion hn
      obtain ⟨x, hxf⟩ := hex
      rw [pick_eq_find t l x _ hxf, hxf]

example : Spec.allTrusted [[53]] (C06.setItem C06.empty (C43.ofAscii "X-Forwarded-For") [52, 44, 53]) = false := by decide

/-- `remote_ip_spec_refuted` (known finding `remote_ip/xff-all-trusted`): with every `X-Forwarded-For` entry trusted the
    code takes the leftmost entry where the literal reading takes the socket address. -/
theorem remote_ip_spec_refuted : ¬ remote_ip_spec_full := by
  intro hfull
  have := hfull (fun _ => true) [57] cHttp [[53]] (C06.setItem C06.empty (C43.ofAscii "X-Forwarded-For") [53]) (by decide)
  revert this
  decide

/-! ### protocol -/

/-- `protocol_http_or_https`: the rewrite keeps the protocol inside {http, https}. -/
theorem protocol_http_or_https (valid : Str → Bool) (c : Ctx) (h : Headers)
    (hc : Spec.protocolOk c.protocol = true) : Spec.protocolOk (applyX valid c h).protocol = true := by
  simp only [applyX]
  generalize (if ((hget h "X-Scheme").getD ((hget h "X-Forwarded-Proto").getD c.protocol)).isEmpty = true then
      (hget h "X-Scheme").getD ((hget h "X-Forwarded-Proto").getD c.protocol)
    else strip ((splitAll 44 ((hget h "X-Scheme").getD ((hget h "X-Forwarded-Proto").getD c.protocol))).getLast?.getD [])) = ph
  split
  · rename_i hp
    simp only [Spec.protocolOk, Bool.or_eq_true, decide_eq_true_eq]
    exact hp
  · exact hc

example : Spec.protocolOk (Ctx.init [57] cHttp []).protocol = true := by decide

/-- every request served on a connection whose socket protocol is http/https observes http or https -/
theorem protocol_observed (valid : Str → Bool) (s p : Str) (t : List Str) (lines : List Str)
    (hp : Spec.protocolOk p = true) :
    match observe valid s p t lines with
    | .request _ proto => Spec.protocolOk proto = true
    | _ => True := by
  simp only [observe, step]
  cases parseBlock lines with
  | error e => simp
  | ok h =>
    simp only []
    exact protocol_http_or_https valid (Ctx.init s p t) h hp

/-! ### no leak -/

/-- `_unapply_xheaders` restores the socket values, whatever was applied. -/
theorem unapply_restores (valid : Str → Bool) (c : Ctx) (h : Headers) :
    unapplyX (applyX valid c h) = unapplyX c := by
  simp [unapplyX, applyX]

theorem unapply_init (s p : Str) (t : List Str) : unapplyX (Ctx.init s p t) = Ctx.init s p t := rfl

/-- a context is *restored* when it shows the socket values -/
def Restored (c : Ctx) : Prop := c.remoteIp = c.origIp ∧ c.protocol = c.origProtocol

theorem restored_eq_init (c : Ctx) (h : Restored c) : c = Ctx.init c.origIp c.origProtocol c.trusted := by
  cases c; simp only [Restored] at h; simp [Ctx.init, h.1, h.2]

theorem step_keeps_orig (valid : Str → Bool) (c : Ctx) (e : Ev) :
    (step valid c e).1.origIp = c.origIp ∧ (step valid c e).1.origProtocol = c.origProtocol ∧
    (step valid c e).1.trusted = c.trusted := by
  cases e with
  | headers l => simp only [step]; split <;> simp [applyX]
  | finish => simp [step, unapplyX]
  | close => simp [step, unapplyX]
  | finishRaises => simp [step]

/-- `no_leak` for keep-alive request sequences: every request on a connection observes exactly what it would observe
    as the only request of a fresh connection, and the context ends restored — for every sequence of header blocks. -/
theorem no_leak (valid : Str → Bool) (s p : Str) (t : List Str) (reqs : List (List Str)) :
    serve valid (Ctx.init s p t) reqs =
      (Ctx.init s p t, reqs.flatMap (fun r => [observe valid s p t r, Obs.none])) := by
  induction reqs with
  | nil => rfl
  | cons r rs ih =>
    simp only [serve, List.flatMap_cons, List.cons_append, List.nil_append, run] at ih ⊢
    have hfin : (step valid (step valid (Ctx.init s p t) (.headers r)).1 .finish).1 = Ctx.init s p t := by
      simp only [step]
      split
      · rfl
      · simp only [unapply_restores]; rfl
    have hobs : (step valid (step valid (Ctx.init s p t) (.headers r)).1 .finish).2 = Obs.none := by
      simp [step]
    rw [show (step valid (Ctx.init s p t) (Ev.headers r)) = ((step valid (Ctx.init s p t) (.headers r)).1, observe valid s p t r) from rfl]
    simp only []
    rw [show step valid (step valid (Ctx.init s p t) (Ev.headers r)).1 Ev.finish = (Ctx.init s p t, Obs.none) from
      Prod.ext hfin hobs]
    simp only [ih]

/-- `no_leak` over arbitrary event traces: after any trace that ends with `finish` or `close` the context is
    restored, hence (by `restored_eq_init`) the next request sees a fresh context.  (That a `finish`/`close`
    does separate consecutive requests is C05.) -/
theorem ctx_restored_after_run (valid : Str → Bool) (c : Ctx) (es : List Ev) (e : Ev)
    (he : e = .finish ∨ e = .close) : Restored (run valid c (es ++ [e])).1 := by
  induction es generalizing c with
  | nil =>
    rcases he with rfl | rfl <;> simp [run, step, unapplyX, Restored]
  | cons x xs ih =>
    simp only [List.cons_append, run]
    exact ih _

theorem no_leak_trace (valid : Str → Bool) (c : Ctx) (es : List Ev) (e : Ev) (he : e = .finish ∨ e = .close)
    (lines : List Str) :
    (step valid (run valid c (es ++ [e])).1 (.headers lines)).2 =
      observe valid c.origIp c.origProtocol c.trusted lines := by
  have hr := ctx_restored_after_run valid c es e he
  have hk : ∀ (es : List Ev) (c : Ctx), (run valid c es).1.origIp = c.origIp ∧ (run valid c es).1.origProtocol = c.origProtocol ∧
      (run valid c es).1.trusted = c.trusted := by
    intro es
    induction es with
    | nil => intro c; simp [run]
    | cons x xs ih =>
      intro c
      simp only [run]
      have h1 := step_keeps_orig valid c x
      have h2 := ih (step valid c x).1
      exact ⟨h2.1.trans h1.1, h2.2.1.trans h1.2.1, h2.2.2.trans h1.2.2⟩
  have hk' := hk (es ++ [e]) c
  rw [restored_eq_init _ hr, hk'.1, hk'.2.1, hk'.2.2]
  rfl

/-- without the `finish`/`close` notification the rewrite *would* leak: the reliance on C05 is real. -/
theorem leak_without_finish :
    ∃ (valid : Str → Bool) (c : Ctx) (l1 l2 : List Str),
      (step valid (step valid c (.headers l1)).1 (.headers l2)).2 ≠ (step valid c (.headers l2)).2 := by
  refine ⟨fun _ => true, Ctx.init [57] cHttp [], [C43.ofAscii "X-Real-Ip: 1"], [], ?_⟩
  decide

/-- a delegate that raises in `finish` skips the restore: the context stays rewritten (the real connection is closed
    right after — `_server_request_loop` — so there is no later request; the tie checks that none is served) -/
theorem finish_raises_keeps_rewrite (valid : Str → Bool) (c : Ctx) :
    (step valid c .finishRaises).1 = c := rfl

/-! ### no leak on a whole connection, including the ways a connection ends early -/

theorem run_cons (valid : Str → Bool) (c : Ctx) (e : Ev) (es : List Ev) :
    run valid c (e :: es) =
      ((run valid (step valid c e).1 es).1, (step valid c e).2 :: (run valid (step valid c e).1 es).2) := by
  simp only [run]

theorem isRequest_none : Obs.none.isRequest = false := rfl

theorem step_headers_ok (valid : Str → Bool) (s p : Str) (t : List Str) (r : List Str) (h : Headers)
    (hp : parseBlock r = .ok h) :
    (step valid (Ctx.init s p t) (.headers r)).2 = observe valid s p t r ∧
    (observe valid s p t r).isRequest = true ∧
    unapplyX (step valid (Ctx.init s p t) (.headers r)).1 = Ctx.init s p t := by
  refine ⟨rfl, ?_, ?_⟩
  · simp only [observe, step, hp, Obs.isRequest]
  · simp only [step, hp, unapply_restores]; rfl

/-- `no_leak_conn`: on a connection driven the way `_server_request_loop` drives it — keep-alive requests, then possibly
    one that ends it (not kept alive, delegate raising in `finish` so that the restore is SKIPPED, peer leaving inside
    the body, header block refused with 400) — the request objects built are exactly those of the requests that reach
    the application (`servedReqs`), and each one is what that request observes alone on a fresh connection. -/
theorem no_leak_conn (valid : Str → Bool) (s p : Str) (t : List Str) (reqs : List (List Str × Outcome)) :
    (run valid (Ctx.init s p t) (connEvents reqs)).2.filter Obs.isRequest =
      (servedReqs reqs).map (observe valid s p t) := by
  induction reqs with
  | nil => rfl
  | cons ro rest ih =>
    obtain ⟨r, o⟩ := ro
    cases hp : parseBlock r with
    | error e =>
      simp only [connEvents, servedReqs, hp, run_cons, run, List.map_nil]
      simp [step, hp, Obs.isRequest]
    | ok h =>
      obtain ⟨h1, h2, h3⟩ := step_headers_ok valid s p t r h hp
      cases o with
      | keep =>
        simp only [connEvents, servedReqs, hp, run_cons, List.map_cons, h1]
        have hf : (step valid (step valid (Ctx.init s p t) (.headers r)).1 .finish).1 = Ctx.init s p t := h3
        have hn : (step valid (step valid (Ctx.init s p t) (.headers r)).1 .finish).2 = Obs.none := rfl
        rw [hf, hn]
        simp only [List.filter_cons, h2, if_true, isRequest_none, Bool.false_eq_true, if_false, ih]
      | last =>
        simp only [connEvents, servedReqs, hp, run_cons, run, List.map_cons, List.map_nil, h1]
        simp [List.filter_cons, h2, step, isRequest_none]
      | raises =>
        simp only [connEvents, servedReqs, hp, run_cons, run, List.map_cons, List.map_nil, h1]
        simp [List.filter_cons, h2, step, isRequest_none]
      | abort =>
        simp only [connEvents, servedReqs, hp, run_cons, run, List.map_cons, List.map_nil, h1]
        simp [List.filter_cons, h2, step, isRequest_none]

/-- non-vacuity: a connection with a rewriting request, a raising one and one that is never read -/
example : servedReqs [([C43.ofAscii "X-Real-Ip: 1"], .keep), ([C43.ofAscii "X-Real-Ip: 2"], .raises), ([], .keep)] =
    [[C43.ofAscii "X-Real-Ip: 1"], [C43.ofAscii "X-Real-Ip: 2"]] := by decide

/-! ### "a numeric IP address" (`Spec.numericIP`, written from inet(3)/RFC 4291/RFC 4007 — not from `is_valid_ip`) -/

/-- contract of the platform resolver as seen through `valid`: what it accepts is numeric-host text -/
def ResolverNumeric (valid : Str → Bool) : Prop := ∀ s, valid s = true → Spec.numericIP s = true
/-- … and it accepts every plain IPv4/IPv6 address (C43's `valid_ip_spec` contract) -/
def ResolverPlain (valid : Str → Bool) : Prop := ∀ s, Spec.plainIP s = true → valid s = true

/-- the invariant: the context shows the socket address or a numeric IP address -/
def NumericOrSocket (c : Ctx) : Prop := c.remoteIp = c.origIp ∨ Spec.numericIP c.remoteIp = true

theorem step_numeric (valid : Str → Bool) (hc : ResolverNumeric valid) (c : Ctx) (e : Ev) (hi : NumericOrSocket c) :
    NumericOrSocket (step valid c e).1 ∧
    ∀ ip pr, (step valid c e).2 = .request ip pr → ip = c.origIp ∨ Spec.numericIP ip = true := by
  cases e with
  | headers l =>
    simp only [step]
    cases parseBlock l with
    | error e => exact ⟨hi, by intro ip pr h; cases h⟩
    | ok h =>
      have key : (applyX valid c h).remoteIp = c.origIp ∨ Spec.numericIP (applyX valid c h).remoteIp = true := by
        rcases remote_ip_valid_or_socket valid c h with h1 | h1
        · rw [h1]; exact hi
        · right; exact hc _ h1
      have ho : (applyX valid c h).origIp = c.origIp := by simp [applyX]
      refine ⟨?_, ?_⟩
      · simp only [NumericOrSocket, ho]; exact key
      · intro ip pr hreq
        simp only [Obs.request.injEq] at hreq
        rw [← hreq.1]; exact key
  | finish => exact ⟨Or.inl (by simp [step, unapplyX]), by intro ip pr h; simp [step] at h⟩
  | close => exact ⟨Or.inl (by simp [step, unapplyX]), by intro ip pr h; simp [step] at h⟩
  | finishRaises => exact ⟨hi, by intro ip pr h; simp [step] at h⟩

/-- `remote_ip_numeric_trace`: on EVERY event trace (well-formed or not — no reliance on C05) from a context that shows
    the socket address or a numeric address, every request object's `remote_ip` is the socket address or a numeric IP
    address in the sense of `Spec.numericIP` — given only that the resolver accepts nothing but numeric-host text. -/
theorem remote_ip_numeric_trace (valid : Str → Bool) (hc : ResolverNumeric valid) (c : Ctx) (hi : NumericOrSocket c)
    (es : List Ev) :
    ∀ o ∈ (run valid c es).2, ∀ ip pr, o = .request ip pr → ip = c.origIp ∨ Spec.numericIP ip = true := by
  induction es generalizing c with
  | nil => intro o ho; simp [run] at ho
  | cons e es ih =>
    intro o ho ip pr hreq
    simp only [run, List.mem_cons] at ho
    have hs := step_numeric valid hc c e hi
    rcases ho with ho | ho
    · exact hs.2 ip pr (ho ▸ hreq)
    · have := ih (step valid c e).1 hs.1 o ho ip pr hreq
      rw [(step_keeps_orig valid c e).1] at this
      exact this

/-- `remote_ip_numeric`: every request of every keep-alive sequence on a connection from socket address `s` has
    `remote_ip = s` or a numeric IP address. -/
theorem remote_ip_numeric (valid : Str → Bool) (hc : ResolverNumeric valid) (s p : Str) (t : List Str)
    (reqs : List (List Str)) :
    ∀ o ∈ (serve valid (Ctx.init s p t) reqs).2, ∀ ip pr, o = .request ip pr → ip = s ∨ Spec.numericIP ip = true :=
  remote_ip_numeric_trace valid hc (Ctx.init s p t) (Or.inl rfl) _

/-- non-vacuity: `Spec.numericIP` itself is a resolver satisfying both contracts' shape, and the predicate separates
    addresses from the near misses the generators use -/
example : ResolverNumeric Spec.numericIP := fun _ h => h
example : Spec.numericIP (C43.ofAscii "1.2.3.4") = true ∧ Spec.numericIP (C43.ofAscii "127.1") = true ∧
    Spec.numericIP (C43.ofAscii "0x7f.1") = true ∧ Spec.numericIP (C43.ofAscii "fe80::1%lo") = true ∧
    Spec.numericIP (C43.ofAscii "::ffff:1.2.3.4") = true ∧
    Spec.numericIP (C43.ofAscii "1.2.3.256") = false ∧ Spec.numericIP (C43.ofAscii "1.2.3.4.5") = false ∧
    Spec.numericIP (C43.ofAscii "::::") = false ∧ Spec.numericIP (C43.ofAscii "08.1.1.1") = false ∧
    Spec.numericIP (C43.ofAscii "fe80::1%lo:<script>") = false ∧ Spec.numericIP (C43.ofAscii "4.4.4.4<script>") = false ∧
    Spec.numericIP [] = false := by decide

/-- the model of the fixed `is_valid_ip` meets `ResolverNumeric` as soon as the raw resolver does so on the strings that
    reach it: non-empty ASCII text without NUL whose zone id has no ":" (the contract is FALSE without these guards:
    IDNA maps "1.2.3.4\xad" to an address, Linux reads the interface "lo:<anything>" as "lo" — the two `fix:` commits) -/
theorem isValidIp_numeric (gai : Str → Bool)
    (hg : ∀ s, s ≠ [] → 0 ∉ s → C43.isAscii s = true → 58 ∉ zoneOf s → gai s = true → Spec.numericIP s = true) :
    ResolverNumeric (isValidIp gai) := by
  intro s h
  unfold isValidIp at h
  split at h
  · exact absurd h (by simp)
  · rename_i h1
    split at h
    · exact absurd h (by simp)
    · rename_i h2
      simp only [Bool.or_eq_true, Bool.not_eq_true', not_or, Bool.not_eq_true, Bool.not_eq_false] at h1
      refine hg s ?_ ?_ h1.2 ?_ h
      · intro e; subst e; simp at h1
      · intro hm; have : s.contains 0 = true := by simpa using hm
        rw [h1.1.2] at this; exact Bool.noConfusion this
      · intro hm; exact h2 (by simpa using hm)

/-- the fixed `is_valid_ip` refuses the witness of the finding whatever the resolver says -/
example (gai : Str → Bool) : isValidIp gai (C43.ofAscii "fe80::1%lo:<script>") = false := by
  have h0 : ((C43.ofAscii "fe80::1%lo:<script>").isEmpty || (C43.ofAscii "fe80::1%lo:<script>").contains 0 ||
      !C43.isAscii (C43.ofAscii "fe80::1%lo:<script>")) = false := by decide
  have h1 : (zoneOf (C43.ofAscii "fe80::1%lo:<script>")).contains 58 = true := by decide
  simp only [isValidIp, h0, h1, Bool.false_eq_true, if_false, if_true]

/-- `remote_ip_allowed`: outside the all-trusted situation, `remote_ip` is one of the addresses the literal reading
    allows (`Spec.allowedOf`, which does not mention `is_valid_ip`): the candidate if it is a plain address, the socket
    address if it is not numeric, either for the platform-dependent numeric forms. -/
theorem remote_ip_allowed (valid : Str → Bool) (hn : ResolverNumeric valid) (hp : ResolverPlain valid)
    (s p : Str) (t : List Str) (h : Headers)
    (hs : (splitAll 44 s).map strip = [s]) (ha : Spec.allTrusted t h = false) :
    (applyX valid (Ctx.init s p t) h).remoteIp ∈ Spec.allowedOf s t h := by
  rw [remote_ip_spec_partial valid s p t h hs ha]
  simp only [Spec.remoteIpOf, Spec.remoteIp, Spec.allowedOf, Spec.allowed]
  cases Spec.candidate t (hget h "X-Forwarded-For") (hget h "X-Real-Ip") with
  | none => simp
  | some c =>
    simp only []
    by_cases h1 : Spec.plainIP c = true
    · simp [h1, hp c h1]
    · by_cases h2 : Spec.numericIP c = true
      · simp only [h1, h2, if_true, Bool.false_eq_true, if_false]
        split <;> simp
      · have : valid c = false := by
          cases hv : valid c with
          | false => rfl
          | true => exact absurd (hn c hv) h2
        simp [h1, h2, this]

end TornadoModel.C32
