/-
C32 — model of the proxy-header rewrite in `tornado.httpserver` (core Lean only).

Anchors: `_HTTPRequestContext.__init__/_apply_xheaders/_unapply_xheaders`, `_ProxyAdapter.headers_received/
finish/on_connection_close`, `HTTPServerRequest.__init__` (copies `context.remote_ip/protocol` when the request
object is built, i.e. during `headers_received`), `netutil.is_valid_ip` (a parameter `valid`; C43 covers it).

Header blocks are parsed by the C06 model of `HTTPHeaders` (`parse_line` per line, `get` = comma-joined values).
The connection is an event machine: `headers` (apply + build the request object), `finish`, `close`
(both unapply).  That `finish`/`close` happens exactly once before the next `headers` is C05's property; here
it is the well-formedness of the event trace.
-/
import TornadoModel.C06.Model
import TornadoModel.C43.Model
namespace TornadoModel.C32
open TornadoModel.C06 (Str Headers)
open TornadoModel.C43 (strip splitAll ofAscii)

structure Ctx where
  remoteIp : Str
  protocol : Str
  origIp : Str
  origProtocol : Str
  trusted : List Str
  deriving Repr, BEq, DecidableEq

/-- `_HTTPRequestContext.__init__` for an AF_INET/AF_INET6 stream: `sockIp = address[0]`;
    `proto` = the server's `protocol` argument or "http"/"https" by stream type -/
def Ctx.init (sockIp proto : Str) (trusted : List Str) : Ctx :=
  { remoteIp := sockIp, protocol := proto, origIp := sockIp, origProtocol := proto, trusted := trusted }

/-- `headers.get(name)` : `none` when absent, else the values joined by "," -/
def hget (h : Headers) (name : String) : Option Str :=
  match C06.getItem h (ofAscii name) with
  | .ok (v, _) => some v
  | .error _ => none

/-- the loop `for ip in (cand.strip() for cand in reversed(ip.split(","))): if ip not in trusted: break`:
    the first candidate not in `trusted`, else the last candidate iterated (`dflt` carries it) -/
def pick (trusted : List Str) (dflt : Str) : List Str → Str
  | [] => dflt
  | c :: cs => if trusted.contains c then pick trusted c cs else c

def cHttp : Str := ofAscii "http"
def cHttps : Str := ofAscii "https"

/-- `ip.partition("%")[2]`: the text after the first `%` (empty when there is none) -/
def zoneOf (ip : Str) : Str :=
  match C43.splitFirst 37 ip with
  | some (_, z) => z
  | none => []

/-- `netutil.is_valid_ip` as it is after the `fix:` commits (non-ASCII text and a zone id containing ":" are refused
    before the resolver is asked); `gai ip` = `getaddrinfo(ip, 0, AF_UNSPEC, SOCK_STREAM, 0, AI_NUMERICHOST)` returned
    a non-empty list (`EAI_NONAME` and `UnicodeError` are `false`) -/
def isValidIp (gai : Str → Bool) (ip : Str) : Bool :=
  if ip.isEmpty || ip.contains 0 || !C43.isAscii ip then false
  else if (zoneOf ip).contains 58 then false
  else gai ip

/-- `_apply_xheaders` -/
def applyX (valid : Str → Bool) (c : Ctx) (h : Headers) : Ctx :=
  let ip0 := (hget h "X-Forwarded-For").getD c.remoteIp
  let cands := ((splitAll 44 ip0).reverse).map strip
  let ip1 := pick c.trusted ip0 cands            -- `cands` is never empty, so `ip0` is never the result
  let ip2 := (hget h "X-Real-Ip").getD ip1
  let remote := if valid ip2 then ip2 else c.remoteIp
  let ph := (hget h "X-Scheme").getD ((hget h "X-Forwarded-Proto").getD c.protocol)
  let ph' := if ph.isEmpty then ph else strip ((splitAll 44 ph).getLast?.getD [])
  let proto := if ph' = cHttp ∨ ph' = cHttps then ph' else c.protocol
  { c with remoteIp := remote, protocol := proto }

/-- `_unapply_xheaders` -/
def unapplyX (c : Ctx) : Ctx := { c with remoteIp := c.origIp, protocol := c.origProtocol }

/-- header block (the lines after the request line, without line ends) → `HTTPHeaders` -/
def parseBlock (lines : List Str) : Except C06.Err Headers :=
  lines.foldlM (fun acc l => C06.parseLine acc l) C06.empty

inductive Ev where
  | headers (lines : List Str)    -- `_ProxyAdapter.headers_received`
  | finish                        -- `_ProxyAdapter.finish`
  | close                         -- `_ProxyAdapter.on_connection_close`
  | finishRaises                  -- `_ProxyAdapter.finish` whose `delegate.finish()` raises: `_cleanup()` is skipped (the
                                  -- connection is then closed by `_server_request_loop`: the last event of a real trace)
  deriving Repr, BEq, DecidableEq

inductive Obs where
  | request (remoteIp protocol : Str)   -- what `HTTPServerRequest.__init__` copied
  | badHeaders                          -- the block does not parse (HTTPInputError before the adapter runs)
  | none
  deriving Repr, BEq, DecidableEq

def step (valid : Str → Bool) (c : Ctx) : Ev → Ctx × Obs
  | .headers lines =>
    match parseBlock lines with
    | .error _ => (c, .badHeaders)
    | .ok h => let c' := applyX valid c h; (c', .request c'.remoteIp c'.protocol)
  | .finish => (unapplyX c, .none)
  | .close => (unapplyX c, .none)
  | .finishRaises => (c, .none)

def run (valid : Str → Bool) (c : Ctx) : List Ev → Ctx × List Obs
  | [] => (c, [])
  | e :: es => let (c', o) := step valid c e; let (c'', os) := run valid c' es; (c'', o :: os)

/-- a connection serving the keep-alive requests `reqs` one after the other -/
def serve (valid : Str → Bool) (c : Ctx) (reqs : List (List Str)) : Ctx × List Obs :=
  run valid c (reqs.flatMap (fun r => [.headers r, .finish]))

/-- what a request with header block `lines` observes on a *fresh* connection -/
def observe (valid : Str → Bool) (sockIp proto : Str) (trusted : List Str) (lines : List Str) : Obs :=
  (step valid (Ctx.init sockIp proto trusted) (.headers lines)).2

/-! ### one connection as `HTTP1ServerConnection._server_request_loop` drives the adapter -/

/-- how the application and the peer end a request -/
inductive Outcome where
  | keep      -- `finish()`, and the connection is kept alive
  | last      -- `finish()`, and the connection is not kept alive (HTTP/1.0 without keep-alive, `Connection: close`)
  | raises    -- `delegate.finish()` raises: no restore; `except _QuietException: conn.close(); return`
  | abort     -- the peer goes away inside the body: `on_connection_close`
  deriving Repr, BEq, DecidableEq

/-- the adapter events of one connection: the loop stops reading requests after a header block that does not parse
    (`HTTPInputError` → 400, close; the adapter is not called), after a request that is not kept alive, after a delegate
    that raised, and when the peer has left -/
def connEvents : List (List Str × Outcome) → List Ev
  | [] => []
  | (r, o) :: rest =>
    match parseBlock r with
    | .error _ => [.headers r]
    | .ok _ =>
      match o with
      | .keep => .headers r :: .finish :: connEvents rest
      | .last => [.headers r, .finish]
      | .raises => [.headers r, .finishRaises]
      | .abort => [.headers r, .close]

/-- the requests that reach the application on that connection -/
def servedReqs : List (List Str × Outcome) → List (List Str)
  | [] => []
  | (r, o) :: rest =>
    match parseBlock r with
    | .error _ => []
    | .ok _ =>
      match o with
      | .keep => r :: servedReqs rest
      | _ => [r]

def Obs.isRequest : Obs → Bool
  | .request _ _ => true
  | _ => false

end TornadoModel.C32
