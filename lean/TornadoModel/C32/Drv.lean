/- C32 driver: `C32 serve|trace|conn sockIp proto [trusted] [gai] …` (`conn`: `[[lines, K|L|X|A],…]` → the steps of `connEvents`) (`gai` = the strings the raw resolver accepted; validity is
   the model `isValidIp` on top of it), `C32 valid [cands] [gai]`, `C32 spec sockIp [trusted] [[line,…],…]` (no validity
   input: `Spec.allowedOf`), `C32 numeric [strs]` (`Spec.numericIP`) -/
import TornadoModel.Base.Wire
import TornadoModel.C32.Spec
namespace TornadoModel.C32.Drv
open TornadoModel TornadoModel.Wire TornadoModel.C32

def decStrs (v : V) : Option (List (List Nat)) := do (← v.list?).mapM V.cps?
def decReqs (v : V) : Option (List (List (List Nat))) := do (← v.list?).mapM decStrs

def encObs : Obs → V
  | .request ip p => .list [V.ofCps ip, V.ofCps p]
  | .badHeaders => .atom "BadHeaders"
  | .none => .atom "N"

def decEv (v : V) : Option Ev := do
  match ← v.list? with
  | [.atom "H", ls] => pure (.headers (← decStrs ls))
  | [.atom "F"] => pure .finish
  | [.atom "C"] => pure .close
  | [.atom "X"] => pure .finishRaises
  | _ => none

def decOutcome : V → Option Outcome
  | .atom "K" => some .keep
  | .atom "L" => some .last
  | .atom "X" => some .raises
  | .atom "A" => some .abort
  | _ => none

def decConnReq (v : V) : Option (List (List Nat) × Outcome) := do
  match ← v.list? with
  | [ls, o] => pure (← decStrs ls, ← decOutcome o)
  | _ => none

/-- every step of a trace: `[obs, ctx.remote_ip, ctx.protocol]` after each event -/
def traceAll (valid : List Nat → Bool) (c : Ctx) : List Ev → List V
  | [] => []
  | e :: es =>
    let (c', o) := step valid c e
    .list [encObs o, V.ofCps c'.remoteIp, V.ofCps c'.protocol] :: traceAll valid c' es

def handle (toks : List String) : String :=
  match toks.mapM V.parse with
  | none => err "bad-token"
  | some args =>
    match toks.head?, args with
    | _, [.atom "serve", ip, proto, tr, va, reqs] =>
      match ip.cps?, proto.cps?, decStrs tr, decStrs va, decReqs reqs with
      | some ip, some proto, some tr, some va, some reqs =>
        let valid := isValidIp (fun s => va.contains s)
        let (c, obs) := serve valid (Ctx.init ip proto tr) reqs
        ok [.list ((obs.filter (· != .none)).map encObs), .list [V.ofCps c.remoteIp, V.ofCps c.protocol]]
      | _, _, _, _, _ => err "bad-arg"
    | _, [.atom "trace", ip, proto, tr, va, evs] =>
      match ip.cps?, proto.cps?, decStrs tr, decStrs va, evs.list? >>= (·.mapM decEv) with
      | some ip, some proto, some tr, some va, some evs =>
        ok [.list (traceAll (isValidIp (fun s => va.contains s)) (Ctx.init ip proto tr) evs)]
      | _, _, _, _, _ => err "bad-arg"
    | _, [.atom "conn", ip, proto, tr, va, reqs] =>
      match ip.cps?, proto.cps?, decStrs tr, decStrs va, reqs.list? >>= (·.mapM decConnReq) with
      | some ip, some proto, some tr, some va, some reqs =>
        ok [.list (traceAll (isValidIp (fun s => va.contains s)) (Ctx.init ip proto tr) (connEvents reqs)),
            .list ((servedReqs reqs).map (fun r => .list (r.map V.ofCps)))]
      | _, _, _, _, _ => err "bad-arg"
    | _, [.atom "valid", cs, va] =>
      match decStrs cs, decStrs va with
      | some cs, some va => ok [.list ((cs.filter (isValidIp (fun s => va.contains s))).map V.ofCps)]
      | _, _ => err "bad-arg"
    | _, [.atom "numeric", cs] =>
      match decStrs cs with
      | some cs => ok [.list (cs.map (fun c => V.ofBool (Spec.numericIP c)))]
      | none => err "bad-arg"
    | _, [.atom "spec", ip, tr, reqs] =>
      match ip.cps?, decStrs tr, decReqs reqs with
      | some ip, some tr, some reqs =>
        ok [.list (reqs.map (fun r =>
          match parseBlock r with
          | .ok h => .list [.list ((Spec.allowedOf ip tr h).map V.ofCps), V.ofBool (Spec.allTrusted tr h)]
          | .error _ => .atom "BadHeaders"))]
      | _, _, _ => err "bad-arg"
    | _, _ => err "bad-cmd"

end TornadoModel.C32.Drv
