import TornadoModel.C11.Spec
namespace TornadoModel.C11
variable (R : Nat → Bytes → Option Nat)

def evBytes : List Ev → Bytes
  | [] => []
  | .settle _ (.bytes b) :: r => b ++ evBytes r
  | .settle _ (.into _ b) :: r => b ++ evBytes r
  | _ :: r => evBytes r

theorem evBytes_append (a b : List Ev) : evBytes (a ++ b) = evBytes a ++ evBytes b := by
  induction a with
  | nil => rfl
  | cons e r ih =>
    cases e with
    | cb => simpa [evBytes] using ih
    | settle f o => cases o <;> simp [evBytes, ih]

def acc (s : St) : Bytes := evBytes s.out ++ s.buf ++ s.inc.flatten

def ParamsNone (s : St) : Prop := s.rbytes = none ∧ s.rdelim = none ∧ s.rregex = none ∧ s.user = none

structure Inv (s : St) : Prop where
  idle : s.rfut = none → ParamsNone s
  ruc : s.ruc = true → ParamsNone s
  user : ∀ n, s.user = some n → s.rbytes = some n ∧ s.rdelim = none ∧ s.rregex = none ∧ s.buf.length ≤ n
  rucf : s.ruc = true → s.rfut.isSome = true
  closedRuc : s.closed = true → s.ruc = false

/-- s' differs from s only outside the read side -/
structure RS (s s' : St) : Prop where
  buf : s'.buf = s.buf
  user : s'.user = s.user
  rbytes : s'.rbytes = s.rbytes
  rdelim : s'.rdelim = s.rdelim
  rregex : s'.rregex = s.rregex
  rfut : s'.rfut = s.rfut
  ruc : s'.ruc = s.ruc
  closed : s'.closed = s.closed
  inc : s'.inc = s.inc
  out : evBytes s'.out = evBytes s.out

theorem RS.refl (s : St) : RS s s := ⟨rfl, rfl, rfl, rfl, rfl, rfl, rfl, rfl, rfl, rfl⟩
theorem RS.trans {a b c : St} (h1 : RS a b) (h2 : RS b c) : RS a c :=
  ⟨h2.buf.trans h1.buf, h2.user.trans h1.user, h2.rbytes.trans h1.rbytes, h2.rdelim.trans h1.rdelim,
   h2.rregex.trans h1.rregex, h2.rfut.trans h1.rfut, h2.ruc.trans h1.ruc, h2.closed.trans h1.closed, h2.inc.trans h1.inc, h2.out.trans h1.out⟩

theorem RS.inv {s s' : St} (h : RS s s') (i : Inv s) : Inv s' := by
  obtain ⟨h1, h2, h3, h4, h5, h6, h7, hc, h8, h9⟩ := h
  constructor
  · intro h; have := i.idle (h6 ▸ h); unfold ParamsNone at *; simp_all
  · intro h; have := i.ruc (h7 ▸ h); unfold ParamsNone at *; simp_all
  · intro n h; have := i.user n (h2 ▸ h); simp_all
  · intro h; have := i.rucf (h7 ▸ h); simp_all
  · intro h; have := i.closedRuc (hc ▸ h); simp_all

theorem RS.acc_eq {s s' : St} (h : RS s s') : C11.acc s' = C11.acc s := by
  unfold C11.acc; rw [h.out, h.buf, h.inc]

theorem addIo_rs (s : St) (r w : Bool) : RS s (addIo s r w) := by
  unfold addIo; split
  · exact RS.refl s
  · split <;> exact ⟨rfl, rfl, rfl, rfl, rfl, rfl, rfl, rfl, rfl, rfl⟩

theorem maybeAdd_rs (s : St) : RS s (maybeAddErrorListener s) := by
  unfold maybeAddErrorListener
  split <;> (try split) <;> first | exact RS.refl s | exact addIo_rs s _ _


theorem emit_out (s : St) (e : Ev) : (s.emit e).out = s.out ++ [e] := rfl

/-- `_finish_read` with a pending future: the returned bytes leave the buffer, nothing else moves -/
theorem finishRead_acc (s : St) (size : Nat) (hf : s.rfut.isSome = true)
    (hu : s.user.isSome = true → s.buf.length ≤ size) :
    C11.acc (finishRead s size) = C11.acc s := by
  unfold finishRead
  rw [(maybeAdd_rs _).acc_eq]
  cases hfu : s.rfut with
  | none => simp [hfu] at hf
  | some f =>
    cases huu : s.user with
    | none => simp [C11.acc, St.emit, evBytes_append, evBytes]
    | some n =>
      have := hu (by simp [huu])
      simp [C11.acc, St.emit, evBytes_append, evBytes, List.take_of_length_le this]

theorem finishRead_inv (s : St) (size : Nat)
    (hp : s.rbytes = none ∧ s.rdelim = none ∧ s.rregex = none) (hr : s.ruc = false) :
    Inv (finishRead s size) := by
  unfold finishRead
  apply (maybeAdd_rs _).inv
  obtain ⟨h1, h2, h3⟩ := hp
  cases hfu : s.rfut <;> cases huu : s.user <;>
    constructor <;> simp_all [ParamsNone, St.emit]


theorem find_params_none (s : St) (h : s.rbytes = none ∧ s.rdelim = none ∧ s.rregex = none) :
    findReadPos R s = some none := by
  obtain ⟨h1, h2, h3⟩ := h
  simp [findReadPos, h1, h2, h3]

/-- in `read_into` mode the only position ever chosen is "everything received so far" -/
theorem find_user (s : St) (i : Inv s) (n p : Nat) (hu : s.user = some n)
    (h : findReadPos R s = some (some p)) : s.buf.length ≤ p := by
  obtain ⟨h1, h2, h3, h4⟩ := i.user n hu
  simp only [findReadPos, h1, h2, h3] at h
  split at h
  · rename_i q hq
    split at hq
    · simp at hq h; omega
    · simp at hq
  · simp at h

theorem find_some_pending (s : St) (i : Inv s) (p : Nat) (h : findReadPos R s = some (some p)) :
    s.rfut.isSome = true ∧ s.ruc = false := by
  constructor
  · cases hf : s.rfut with
    | some f => rfl
    | none =>
      have hp := i.idle hf
      rw [find_params_none R s ⟨hp.1, hp.2.1, hp.2.2.1⟩] at h; simp at h
  · cases hr : s.ruc with
    | false => rfl
    | true =>
      have hp := i.ruc hr
      rw [find_params_none R s ⟨hp.1, hp.2.1, hp.2.2.1⟩] at h; simp at h

theorem readFromBuffer_pres (s : St) (i : Inv s) (p : Nat) (h : findReadPos R s = some (some p)) :
    Inv (readFromBuffer s p) ∧ C11.acc (readFromBuffer s p) = C11.acc s := by
  obtain ⟨hf, hr⟩ := find_some_pending R s i p h
  unfold readFromBuffer
  constructor
  · exact finishRead_inv _ _ ⟨rfl, rfl, rfl⟩ hr
  · rw [finishRead_acc { s with rbytes := none, rdelim := none, rregex := none, rpartial := false } p hf]
    · rfl
    · intro hu
      cases huu : s.user with
      | none => simp [huu] at hu
      | some n => exact find_user R s i n p huu h

theorem failAll_rs (k : ErrK) (l : List Nat) : ∀ s : St, RS s (failAll k s l) := by
  induction l with
  | nil => intro s; exact RS.refl s
  | cons f fs ih =>
    intro s
    unfold failAll
    refine RS.trans ?_ (ih _)
    exact ⟨rfl, rfl, rfl, rfl, rfl, rfl, rfl, rfl, rfl, by simp [St.emit, evBytes_append, evBytes]⟩

theorem clearRead_pres (s : St) (i : Inv s) (hr : s.ruc = false) :
    Inv (clearRead s) ∧ (clearRead s).buf = s.buf ∧ (clearRead s).inc = s.inc ∧ (clearRead s).out = s.out
      ∧ (clearRead s).closed = s.closed := by
  unfold clearRead
  cases hf : s.rfut with
  | none => exact ⟨i, rfl, rfl, rfl, rfl⟩
  | some f =>
    refine ⟨?_, rfl, rfl, rfl, rfl⟩
    constructor <;> simp_all [ParamsNone]

theorem signalClosed_pres (s : St) (i : Inv s) (hr : s.ruc = false) :
    Inv (signalClosed s) ∧ C11.acc (signalClosed s) = C11.acc s ∧ (signalClosed s).closed = s.closed := by
  obtain ⟨i1, hb, hi, ho, hc⟩ := clearRead_pres s i hr
  unfold signalClosed
  have h0 : RS (clearRead s) { clearRead s with wfuts := [], cfut := none } :=
    ⟨rfl, rfl, rfl, rfl, rfl, rfl, rfl, rfl, rfl, rfl⟩
  have h4 := RS.trans h0 (failAll_rs ({ clearRead s with wfuts := [], cfut := none } : St).error
    (readFutL s ++ s.wfuts.map (·.2) ++ connFutL s) { clearRead s with wfuts := [], cfut := none })
  simp only []
  generalize failAll ({ clearRead s with wfuts := [], cfut := none } : St).error
    { clearRead s with wfuts := [], cfut := none } (readFutL s ++ s.wfuts.map (·.2) ++ connFutL s) = s4 at h4 ⊢
  have h5 : RS (clearRead s) (if s4.cb = true then ({ s4 with cb := false } : St).emit .cb else s4) := by
    split
    · exact RS.trans h4 ⟨rfl, rfl, rfl, rfl, rfl, rfl, rfl, rfl, rfl, by simp [St.emit, evBytes_append, evBytes]⟩
    · exact h4
  refine ⟨h5.inv i1, ?_, ?_⟩
  · rw [h5.acc_eq]; unfold C11.acc; rw [hb, hi, ho]
  · rw [h5.closed, hc]


/-- `s'` is a good state holding the same bytes as `s` -/
def Pres (s s' : St) : Prop := Inv s' ∧ C11.acc s' = C11.acc s

theorem Pres.refl {s : St} (i : Inv s) : Pres s s := ⟨i, rfl⟩
theorem Pres.trans {a b c : St} (h1 : Pres a b) (h2 : Pres b c) : Pres a c := ⟨h2.1, h2.2.trans h1.2⟩
theorem RS.pres {s s' : St} (h : RS s s') (i : Inv s) : Pres s s' := ⟨h.inv i, h.acc_eq⟩

theorem finishRead_ruc (s : St) (n : Nat) : (finishRead s n).ruc = s.ruc := by
  unfold finishRead
  rw [(maybeAdd_rs _).ruc]
  cases s.rfut <;> cases s.user <;> rfl

theorem setError_rs (s : St) (e : Option ErrK) : RS s (setError s e) := by
  unfold setError
  cases e with
  | none => exact RS.refl s
  | some k => exact ⟨rfl, rfl, rfl, rfl, rfl, rfl, rfl, rfl, rfl, rfl⟩

theorem completeAtClose_pres (s : St) (i : Inv s) :
    Pres s (completeAtClose R s) ∧ (completeAtClose R s).ruc = false := by
  unfold completeAtClose
  split
  · rename_i hr
    have hp := i.ruc hr
    refine ⟨⟨finishRead_inv _ _ ⟨hp.1, hp.2.1, hp.2.2.1⟩ rfl, ?_⟩, ?_⟩
    · rw [finishRead_acc { s with ruc := false } _ (i.rucf hr) (fun _ => Nat.le_refl _)]; rfl
    · rw [finishRead_ruc]
  · rename_i hr
    have hr' : s.ruc = false := by simpa using hr
    split
    · split
      · rename_i p hp
        refine ⟨readFromBuffer_pres R s i p hp, ?_⟩
        unfold readFromBuffer; rw [finishRead_ruc]; exact hr'
      · exact ⟨Pres.refl i, hr'⟩
    · exact ⟨Pres.refl i, hr'⟩

theorem close_pres (s : St) (i : Inv s) (e : Option ErrK) :
    Pres s (close R s e) ∧ (close R s e).closed = true := by
  unfold close
  split
  · rename_i hc
    obtain ⟨a, b, c⟩ := signalClosed_pres s i (i.closedRuc hc)
    exact ⟨⟨a, b⟩, c.trans hc⟩
  · have r1 := setError_rs s e
    obtain ⟨p2, hr2⟩ := completeAtClose_pres R (setError s e) (r1.inv i)
    generalize completeAtClose R (setError s e) = s2 at p2 hr2
    have i3 : Inv { s2 with io := none, closed := true } := by
      obtain ⟨a, b, c, d, _⟩ := p2.1
      exact ⟨a, b, c, d, fun _ => hr2⟩
    obtain ⟨a, b, c⟩ := signalClosed_pres { s2 with io := none, closed := true } i3 hr2
    refine ⟨⟨a, ?_⟩, c⟩
    rw [b, ← r1.acc_eq, ← p2.2]; rfl

theorem pull_pres (s : St) (i : Inv s) (c : Bytes) (rest : List Bytes) (hinc : s.inc = c :: rest) :
    Pres s (pull s c rest (min c.length (cap s))) := by
  constructor
  · obtain ⟨a, b, cc, d, e⟩ := i
    refine ⟨a, b, ?_, d, e⟩
    intro n hn
    obtain ⟨h1, h2, h3, h4⟩ := cc n hn
    refine ⟨h1, h2, h3, ?_⟩
    have hcap : cap s = n - s.buf.length := by
      have hn' : s.user = some n := hn
      simp [cap, hn']
    simp only [pull, List.length_append, List.length_take]
    rw [hcap]; omega
  · simp only [C11.acc, pull, hinc]
    split
    · rename_i hk; simp [hk, List.append_assoc]
    · simp only [List.flatten_cons, List.append_assoc]
      rw [← List.append_assoc (List.take _ c) (List.drop _ c), List.take_append_drop]

theorem readToBuffer_pres (s : St) (i : Inv s) : Pres s (readToBuffer R s).1 := by
  unfold readToBuffer
  split
  · rename_i c rest hinc
    split
    · exact (close_pres R s i none).1
    · have hp := pull_pres s i c rest hinc
      split
      · exact Pres.trans hp (close_pres R _ hp.1 none).1
      · exact hp
  · split
    · have r : RS s { s with rerr := none } := ⟨rfl, rfl, rfl, rfl, rfl, rfl, rfl, rfl, rfl, rfl⟩
      exact Pres.trans (r.pres i) (close_pres R _ (r.inv i) _).1
    · split
      · exact (close_pres R s i none).1
      · exact Pres.refl i

theorem findFinal_fst (s : St) : (findFinal R s).1 = s := by
  unfold findFinal; split <;> rfl

theorem findFinal_pos (s : St) (p : Nat) (h : (findFinal R s).2 = .pos (some p)) :
    findReadPos R s = some (some p) := by
  unfold findFinal at h
  split at h
  · rename_i q hq; simp at h; rw [hq, h]
  · simp at h

/-- the read loop only moves bytes from the transport into the buffer, and a position it reports is the one
    `_find_read_pos` gives for the final buffer -/
theorem loopGo_pres (target : Option Nat) : ∀ (fuel nf : Nat) (s : St), Inv s →
    Pres s (loopGo R target fuel nf s).1 ∧
    ∀ p, (loopGo R target fuel nf s).2 = .pos (some p) →
      findReadPos R (loopGo R target fuel nf s).1 = some (some p) := by
  intro fuel
  induction fuel with
  | zero =>
    intro nf s i
    unfold loopGo
    rw [findFinal_fst]
    exact ⟨Pres.refl i, fun p h => findFinal_pos R s p h⟩
  | succ fuel ih =>
    intro nf s i
    unfold loopGo
    split
    · rw [findFinal_fst]; exact ⟨Pres.refl i, fun p h => findFinal_pos R s p h⟩
    · have hp := readToBuffer_pres R s i
      generalize readToBuffer R s = rt at hp ⊢
      obtain ⟨s1, x⟩ := rt
      cases x
      case zero => dsimp only; rw [findFinal_fst]; exact ⟨hp, fun p h => findFinal_pos R s1 p h⟩
      case raised r => dsimp only; exact ⟨hp, fun p h => by simp at h⟩
      all_goals
        dsimp only
        split
        · rw [findFinal_fst]; exact ⟨hp, fun p h => findFinal_pos R s1 p h⟩
        · split
          · split
            · exact ⟨hp, fun p h => by simp at h⟩
            · rename_i q hq
              refine ⟨hp, fun p h => ?_⟩
              simp at h; rw [hq, h]
            · obtain ⟨a, b⟩ := ih (s1.buf.length * 2) s1 hp.1
              exact ⟨Pres.trans hp a, b⟩
          · obtain ⟨a, b⟩ := ih nf s1 hp.1
            exact ⟨Pres.trans hp a, b⟩

theorem readLoop_pres (s : St) (i : Inv s) :
    Pres s (readLoop R s).1 ∧
    ∀ p, (readLoop R s).2 = .pos (some p) → findReadPos R (readLoop R s).1 = some (some p) := by
  unfold readLoop
  exact loopGo_pres R _ _ _ s i

theorem handleRead_pres (s : St) (i : Inv s) : Pres s (handleRead R s).1 := by
  unfold handleRead
  obtain ⟨hp, hpos⟩ := readLoop_pres R s i
  split
  · rename_i s1 heq; rw [heq] at hp; exact hp
  · rename_i s1 heq; rw [heq] at hp; exact Pres.trans hp (close_pres R _ hp.1 _).1
  · rename_i s1 r heq; rw [heq] at hp; exact Pres.trans hp (close_pres R _ hp.1 _).1
  · rename_i s1 p heq
    rw [heq] at hp hpos
    exact Pres.trans hp (readFromBuffer_pres R s1 hp.1 p (hpos p rfl))
  · rename_i s1 heq; rw [heq] at hp; exact hp


theorem resolveWrites_rs : ∀ (l : List (Nat × Nat)) (s : St), RS s (resolveWrites s l) := by
  intro l
  induction l with
  | nil => intro s; exact ⟨rfl, rfl, rfl, rfl, rfl, rfl, rfl, rfl, rfl, rfl⟩
  | cons x rest ih =>
    intro s
    obtain ⟨idx, f⟩ := x
    unfold resolveWrites
    split
    · exact ⟨rfl, rfl, rfl, rfl, rfl, rfl, rfl, rfl, rfl, rfl⟩
    · refine RS.trans ?_ (ih _)
      exact ⟨rfl, rfl, rfl, rfl, rfl, rfl, rfl, rfl, rfl, by simp [St.emit, evBytes_append, evBytes]⟩

theorem handleWrite_pres (s : St) (i : Inv s) : Pres s (handleWrite R s) := by
  unfold handleWrite
  split
  · exact (resolveWrites_rs _ s).pres i
  · split
    · have r : RS s { s with wdone := s.wdone + s.wpend, wpend := 0 } := ⟨rfl, rfl, rfl, rfl, rfl, rfl, rfl, rfl, rfl, rfl⟩
      exact (RS.trans r (resolveWrites_rs _ _)).pres i
    · exact (resolveWrites_rs _ s).pres i
    · exact (close_pres R s i _).1

theorem handleConnect_pres (s : St) (i : Inv s) : Pres s (handleConnect R s) := by
  unfold handleConnect
  split
  · have r : RS s { s with error := ‹ErrK› } := ⟨rfl, rfl, rfl, rfl, rfl, rfl, rfl, rfl, rfl, rfl⟩
    exact Pres.trans (r.pres i) (close_pres R _ (r.inv i) _).1
  · split
    · have r : RS s { (({ s with cfut := none } : St).emit (.settle ‹Nat› .stream)) with connecting := false } :=
        ⟨rfl, rfl, rfl, rfl, rfl, rfl, rfl, rfl, rfl, by simp [St.emit, evBytes_append, evBytes]⟩
      exact r.pres i
    · have r : RS s { s with connecting := false } := ⟨rfl, rfl, rfl, rfl, rfl, rfl, rfl, rfl, rfl, rfl⟩
      exact r.pres i

theorem evWrite_pres (s : St) (i : Inv s) (w : Bool) : Pres s (evWrite R s w) := by
  have h : Pres s (if w = true then handleWrite R s else s) := by
    split
    · exact handleWrite_pres R s i
    · exact Pres.refl i
  unfold evWrite
  generalize (if w = true then handleWrite R s else s) = s3 at h
  split
  · exact Pres.refl i
  · split
    · exact h
    · have r : RS s3 (evState s3) := ⟨rfl, rfl, rfl, rfl, rfl, rfl, rfl, rfl, rfl, rfl⟩
      exact Pres.trans h (r.pres h.1)

theorem handleEvents_pres (s : St) (i : Inv s) (r w : Bool) : Pres s (handleEvents R s r w) := by
  have hc : Pres s (evConnect R s) := by
    unfold evConnect; split
    · exact handleConnect_pres R s i
    · exact Pres.refl i
  unfold handleEvents
  generalize evConnect R s = s1 at hc
  split
  · exact Pres.refl i
  · split
    · exact hc
    · have hr : Pres s1 (evRead R s1 r).1 := by
        unfold evRead; split
        · exact handleRead_pres R s1 hc.1
        · exact Pres.refl hc.1
      generalize evRead R s1 r = x at hr
      obtain ⟨s2, u⟩ := x
      cases u
      · exact Pres.trans hc (Pres.trans hr (evWrite_pres R s2 hr.1 w))
      · exact Pres.trans hc (Pres.trans hr (close_pres R s2 hr.1 _).1)

theorem dispatch_pres (s : St) (i : Inv s) (r w : Bool) : Pres s (dispatch R s r w) := by
  unfold dispatch
  split
  · split
    · exact handleEvents_pres R s i _ _
    · exact Pres.refl i
  · exact Pres.refl i

theorem tryInlineRead_pres (s : St) (i : Inv s) : Pres s (tryInlineRead R s).1 := by
  unfold tryInlineRead
  split
  · exact Pres.refl i
  · rename_i p hp; exact readFromBuffer_pres R s i p hp
  · split
    · exact Pres.refl i
    · obtain ⟨hp, hpos⟩ := readLoop_pres R s i
      generalize readLoop R s = x at hp hpos
      obtain ⟨s1, res⟩ := x
      cases res with
      | raised r => exact hp
      | pos q =>
        cases q with
        | none => exact Pres.trans hp ((addIo_rs s1 _ _).pres hp.1)
        | some p => exact Pres.trans hp (readFromBuffer_pres R s1 hp.1 p (hpos p rfl))

theorem finishInline_pres (s : St) (i : Inv s) (c : Bool) (f : Nat) : Pres s (finishInline R c s f).1 := by
  unfold finishInline
  have hp := tryInlineRead_pres R s i
  generalize tryInlineRead R s = x at hp
  obtain ⟨s1, res⟩ := x
  cases res with
  | none => exact hp
  | some r =>
    cases r <;> try exact hp
    dsimp only
    split
    · exact Pres.trans hp (close_pres R s1 hp.1 _).1
    · exact hp


theorem startRead_inr (s s1 : St) (f : Nat) (h : startRead s = .inr (s1, f)) :
    s.rfut = none ∧ s1 = { s with rfut := some s.nextId, nextId := s.nextId + 1 } ∧ f = s.nextId := by
  unfold startRead at h
  split at h
  · split at h <;> simp at h
  · rename_i hf
    simp at h
    exact ⟨hf, h.1.symm, h.2.symm⟩

/-- installing the parameters of a new read on an idle stream keeps the invariant -/
theorem start_inv (s : St) (f nid : Nat) (rb : Option Nat) (rp : Bool)
    (rd : Option Bytes) (rr mx : Option Nat) (uc : Bool) (us : Option Nat)
    (h1 : uc = true → rb = none ∧ rd = none ∧ rr = none ∧ us = none)
    (h2 : ∀ n, us = some n → rb = some n ∧ rd = none ∧ rr = none ∧ s.buf.length ≤ n)
    (h3 : s.closed = true → uc = false) :
    Inv { s with rfut := some f, nextId := nid, rbytes := rb, rpartial := rp, rdelim := rd, rregex := rr,
                 rmax := mx, ruc := uc, user := us } := by
  constructor
  · intro h; simp at h
  · intro h; exact h1 h
  · intro n h; exact h2 n h
  · intro _; rfl
  · intro h; exact h3 h

def fed : Op → Bytes
  | .feed b => b
  | _ => []

theorem readInto_pres (s : St) (i : Inv s) (n : Nat) (part : Bool) :
    Pres s (readInto R s n part).1 := by
  unfold readInto
  split
  · exact Pres.refl i
  · rename_i s1 f hs
    obtain ⟨hf, e1, _⟩ := startRead_inr s s1 f hs
    subst e1
    have hp := i.idle hf
    have hruc : s.ruc = false := by
      cases h : s.ruc with
      | false => rfl
      | true => have := i.rucf h; simp [hf] at this
    dsimp only
    split
    · -- completes at once from the buffer
      rename_i hn
      apply (fun (h : Pres s _) => Pres.trans h ((maybeAdd_rs _).pres h.1))
      constructor
      · constructor <;> simp_all [ParamsNone, St.emit]
      · simp [C11.acc, St.emit, evBytes_append, evBytes]
    · rename_i hn
      have i2 : Inv { s with rfut := some s.nextId, nextId := s.nextId + 1, user := some n, rbytes := some n,
                             rpartial := part } := by
        have := start_inv s s.nextId (s.nextId + 1) (some n) part s.rdelim s.rregex s.rmax s.ruc (some n)
          (by intro h; simp [hruc] at h)
          (by intro m hm; simp at hm; subst hm; exact ⟨rfl, hp.2.1, hp.2.2.1, by omega⟩)
          (fun _ => hruc)
        exact this
      exact Pres.trans ⟨i2, rfl⟩ (finishInline_pres R _ i2 false f)


theorem not_ruc_of_idle (s : St) (i : Inv s) (hf : s.rfut = none) : s.ruc = false := by
  cases h : s.ruc with
  | false => rfl
  | true => have := i.rucf h; simp [hf] at this

/-- a read method other than `read_into`: `_start_read`, set the parameters, `_try_inline_read` -/
theorem readStart_pres (s : St) (i : Inv s) (c : Bool) (rb : Option Nat) (rp : Bool) (rd : Option Bytes)
    (rr mx : Option Nat) (uc : Bool) (hc : s.closed = true → uc = false)
    (h1 : uc = true → rb = none ∧ rd = none ∧ rr = none) (s1 : St) (f : Nat) (hs : startRead s = .inr (s1, f)) :
    Pres s (finishInline R c { s1 with rbytes := rb, rpartial := rp, rdelim := rd, rregex := rr, rmax := mx,
                                       ruc := uc } f).1 := by
  obtain ⟨hf, e1, _⟩ := startRead_inr s s1 f hs
  subst e1
  have hp := i.idle hf
  have i2 : Inv { s with rfut := some s.nextId, nextId := s.nextId + 1, rbytes := rb, rpartial := rp, rdelim := rd,
                         rregex := rr, rmax := mx, ruc := uc } := by
    have := start_inv s s.nextId (s.nextId + 1) rb rp rd rr mx uc s.user
      (by intro h; obtain ⟨a, b, c⟩ := h1 h; exact ⟨a, b, c, hp.2.2.2⟩)
      (by intro m hm; rw [hp.2.2.2] at hm; simp at hm)
      hc
    exact this
  exact Pres.trans ⟨i2, rfl⟩ (finishInline_pres R _ i2 c f)

theorem doStep_pres (s : St) (i : Inv s) (op : Op) :
    Inv (doStep R s op).1 ∧ C11.acc (doStep R s op).1 = C11.acc s ++ fed op := by
  cases op with
  | feed b =>
    simp only [doStep, fed]
    have hm : Inv (if b.isEmpty then s else { s with inc := s.inc ++ [b] }) ∧
        C11.acc (if b.isEmpty then s else { s with inc := s.inc ++ [b] }) = C11.acc s ++ b := by
      split
      · rename_i hb; simp at hb; subst hb; exact ⟨i, by simp⟩
      · obtain ⟨a, b', c, d, e⟩ := i
        exact ⟨⟨a, b', c, d, e⟩, by simp [C11.acc]⟩
    have := dispatch_pres R _ hm.1 true false
    exact ⟨this.1, this.2.trans hm.2⟩
  | eof =>
    simp only [doStep, fed, List.append_nil]
    have r : RS s { s with eof := true } := ⟨rfl, rfl, rfl, rfl, rfl, rfl, rfl, rfl, rfl, rfl⟩
    exact Pres.trans (r.pres i) (dispatch_pres R _ (r.inv i) true false)
  | rerr k =>
    simp only [doStep, fed, List.append_nil]
    have r : RS s { s with rerr := some k } := ⟨rfl, rfl, rfl, rfl, rfl, rfl, rfl, rfl, rfl, rfl⟩
    exact Pres.trans (r.pres i) (dispatch_pres R _ (r.inv i) true false)
  | readBytes n part =>
    simp only [doStep, fed, List.append_nil]
    split
    · exact Pres.refl i
    · rename_i s1 f hs
      obtain ⟨hf, e1, _⟩ := startRead_inr s s1 f hs
      have hp := i.idle hf
      have := readStart_pres R s i false (some n) part s.rdelim s.rregex s.rmax s.ruc
        (fun _ => not_ruc_of_idle s i hf) (by intro h; rw [not_ruc_of_idle s i hf] at h; simp at h) s1 f hs
      subst e1
      exact this
  | readInto n part =>
    simp only [doStep, fed, List.append_nil]
    exact readInto_pres R s i n part
  | readUntil d mx =>
    simp only [doStep, fed, List.append_nil]
    split
    · exact Pres.refl i
    · rename_i s1 f hs
      obtain ⟨hf, e1, _⟩ := startRead_inr s s1 f hs
      have hp := i.idle hf
      have := readStart_pres R s i true s.rbytes s.rpartial (some d) s.rregex mx s.ruc
        (fun _ => not_ruc_of_idle s i hf) (by intro h; rw [not_ruc_of_idle s i hf] at h; simp at h) s1 f hs
      subst e1
      exact this
  | readRegex rid mx =>
    simp only [doStep, fed, List.append_nil]
    split
    · exact Pres.refl i
    · rename_i s1 f hs
      obtain ⟨hf, e1, _⟩ := startRead_inr s s1 f hs
      have hp := i.idle hf
      have := readStart_pres R s i true s.rbytes s.rpartial s.rdelim (some rid) mx s.ruc
        (fun _ => not_ruc_of_idle s i hf) (by intro h; rw [not_ruc_of_idle s i hf] at h; simp at h) s1 f hs
      subst e1
      exact this
  | readUntilClose =>
    simp only [doStep, fed, List.append_nil]
    split
    · exact Pres.refl i
    · rename_i s1 f hs
      obtain ⟨hf, e1, _⟩ := startRead_inr s s1 f hs
      have hp := i.idle hf
      have hr := not_ruc_of_idle s i hf
      split
      · rename_i hc
        subst e1
        refine ⟨finishRead_inv _ _ ⟨hp.1, hp.2.1, hp.2.2.1⟩ hr, ?_⟩
        rw [finishRead_acc _ _ rfl (by intro h; simp [hp.2.2.2] at h)]; rfl
      · rename_i hc
        have hc' : s.closed = false := by subst e1; simpa using hc
        have := readStart_pres R s i false s.rbytes s.rpartial s.rdelim s.rregex s.rmax true
          (by intro h; simp [hc'] at h) (fun _ => ⟨hp.1, hp.2.1, hp.2.2.1⟩) s1 f hs
        subst e1
        exact this
  | close exc =>
    simp only [doStep, fed, List.append_nil]
    exact (close_pres R s i _).1
  | setCb =>
    simp only [doStep, fed, List.append_nil]
    have r : RS s { s with cb := true } := ⟨rfl, rfl, rfl, rfl, rfl, rfl, rfl, rfl, rfl, rfl⟩
    exact (RS.trans r (maybeAdd_rs _)).pres i
  | write n =>
    simp only [doStep, fed, List.append_nil]
    split
    · exact Pres.refl i
    · have r : RS s { s with wpend := s.wpend + n, wtotal := s.wtotal + n, nextId := s.nextId + 1,
                             wfuts := s.wfuts ++ [(s.wtotal + n, s.nextId)] } :=
        ⟨rfl, rfl, rfl, rfl, rfl, rfl, rfl, rfl, rfl, rfl⟩
      split
      · exact r.pres i
      · have h2 := Pres.trans (r.pres i) (handleWrite_pres R _ (r.inv i))
        generalize handleWrite R _ = s2 at h2
        have h3 : Pres s (if (decide (0 < s2.wpend) && !s2.closed) = true then addIo s2 false true else s2) := by
          split
          · exact Pres.trans h2 ((addIo_rs s2 _ _).pres h2.1)
          · exact h2
        exact Pres.trans h3 ((maybeAdd_rs _).pres h3.1)
  | wmode m =>
    simp only [doStep, fed, List.append_nil]
    have r : RS s { s with wmode := m } := ⟨rfl, rfl, rfl, rfl, rfl, rfl, rfl, rfl, rfl, rfl⟩
    exact r.pres i
  | writable =>
    simp only [doStep, fed, List.append_nil]
    exact dispatch_pres R s i false true
  | connect =>
    simp only [doStep, fed, List.append_nil]
    split
    · exact Pres.refl i
    · have r : RS s { s with connecting := true, cfut := some s.nextId, nextId := s.nextId + 1 } :=
        ⟨rfl, rfl, rfl, rfl, rfl, rfl, rfl, rfl, rfl, rfl⟩
      exact (RS.trans r (addIo_rs _ _ _)).pres i
  | cerr k =>
    simp only [doStep, fed, List.append_nil]
    have r : RS s { s with cerr := some k } := ⟨rfl, rfl, rfl, rfl, rfl, rfl, rfl, rfl, rfl, rfl⟩
    exact r.pres i

end TornadoModel.C11
