/-
C11 — the `read_until_close` contract (`Spec.untilCloseOk`, SpecClose.lean) over runs: a `read_until_close` future is
handed data only in a step after which the stream is closed, and that step leaves the read buffer empty — the result is
everything the stream had received and not given to an earlier read.  (Which bytes those are: conservation,
`read_conservation_init`: results ++ buffer ++ transport = stream, in order.)

The machine-level facts come from the third pass over the machine (`C13/ClosePass.lean`, `C13/CloseStep.lean`:
`until_close_step`, `until_close_issue`); here they are tied to the table of issued requests of a run.
-/
import TornadoModel.C13.CloseStep
import TornadoModel.C13.Reach
import TornadoModel.C11.SpecClose
namespace TornadoModel.C11
open Spec (Req)
variable (R : Nat → Bytes → Option Nat)

theorem table_append : ∀ (a b : List Op) (s : St),
    table R s (a ++ b) = table R s a ++ table R (run R s a).1 b := by
  intro a
  induction a with
  | nil => intro b s; simp [table, run]
  | cons op ops ih => intro b s; simp only [List.cons_append, table, run, ih, List.append_assoc]

theorem reqOfOp_untilClose (op : Op) (h : reqOfOp op = some .untilClose) : op = .readUntilClose := by
  cases op <;> simp [reqOfOp] at h ⊢

/-- **read_until_close_contract**: in any run from a fresh stream (any arrival pattern, close cause and point, request
    order), whenever a step hands data to a future `g` that was issued by `read_until_close` (its entry in the table of
    the run), the stream is closed after that step and its read buffer is empty: `Spec.untilCloseOk` holds — the read
    did not complete early and left nothing behind. -/
theorem read_until_close_contract (hR : RLocal R) (c m : Nat) (pre : List Op) (op : Op) (g : Nat) (o : Outcome)
    (hev : (g, o) ∈ dataEvs (step R (run R (init c m) pre).1 op).2.evs)
    (hq : (g, Req.untilClose) ∈ table R (init c m) (pre ++ [op])) :
    Spec.untilCloseOk (step R (run R (init c m) pre).1 op).1.closed
      (step R (run R (init c m) pre).1 op).1.buf.length = true := by
  obtain ⟨i, cv⟩ := C13.reach R hR c m pre
  generalize hs : (run R (init c m) pre).1 = s at i cv hev hq ⊢
  have hT : table R (init c m) (pre ++ [op]) = table R (init c m) pre ++ issued s op := by
    rw [table_append, hs]; simp [table]
  rw [hT] at hq
  have i0 : Inv { s with out := [] } := by
    obtain ⟨a, b, c', d, e⟩ := i; exact ⟨a, b, c', d, e⟩
  -- the two facts about the step, for the registered / the freshly issued read_until_close
  have fin : (((step R s op).1.closed = false → dataEvs (step R s op).2.evs = []) ∧
      ((step R s op).1.closed = true → (step R s op).1.buf = [])) →
      Spec.untilCloseOk (step R s op).1.closed (step R s op).1.buf.length = true := by
    intro ⟨h1, h2⟩
    cases hcl : (step R s op).1.closed with
    | false => rw [h1 hcl] at hev; cases hev
    | true => simp [Spec.untilCloseOk, h2 hcl]
  cases hf : s.rfut with
  | some f =>
    obtain ⟨q', hq'T, mt⟩ := cv.pend f hf
    have hiss : issued s op = [] := by simp [issued, hf]
    rw [hiss, List.append_nil] at hq
    obtain ⟨N, ok, _, _⟩ := doStep_ok R hR { s with out := [] } i0 rfl op (some (f, q'))
      (by intro f' hf'
          have : s.rfut = some f' := hf'
          rw [hf] at this; cases this
          exact ⟨q', rfl, by cases q' <;> exact mt⟩)
      (by intro h; have : s.rfut = none := h; rw [hf] at this; cases this)
    obtain ⟨q, hpq, _⟩ := ok.evs g o hev
    simp only [Option.some.injEq, Prod.mk.injEq] at hpq
    obtain ⟨hfg, _⟩ := hpq
    rw [hfg] at hq'T
    have hu : q' = Req.untilClose := cv.uniq g q' Req.untilClose hq'T hq
    rw [hu] at mt
    exact fin (C13.until_close_step R s i mt op)
  | none =>
    obtain ⟨N, ok, _, _⟩ := doStep_ok R hR { s with out := [] } i0 rfl op
      ((reqOfOp op).map (fun q => (s.nextId, q)))
      (by intro f' hf'; have : s.rfut = some f' := hf'; rw [hf] at this; cases this)
      (fun _ => rfl)
    obtain ⟨q, hpq, _⟩ := ok.evs g o hev
    cases hro : reqOfOp op with
    | none => rw [hro] at hpq; simp at hpq
    | some q0 =>
      rw [hro] at hpq
      simp only [Option.map_some, Option.some.injEq, Prod.mk.injEq] at hpq
      obtain ⟨hg, _⟩ := hpq
      have hiss : issued s op = [(s.nextId, q0)] := by simp [issued, hf, hro]
      rw [hiss] at hq
      rcases List.mem_append.1 hq with h | h
      · have := cv.lt _ h
        simp only [] at this
        omega
      · simp only [List.mem_singleton, Prod.mk.injEq] at h
        have : op = .readUntilClose := reqOfOp_untilClose op (by rw [hro, ← h.2])
        subst this
        exact fin (C13.until_close_issue R s i hf)

-- non-vacuity: two arrivals while read_until_close is pending, then EOF — one data event, in the closing step; and a
-- stream that is reset: the read still gets everything received before the reset
example : table stdR (init 4 100) [.readUntilClose, .feed [1, 2], .feed [3], .eof] = [(0, .untilClose)] := by decide
example : dataEvs (step stdR (run stdR (init 4 100) [.readUntilClose, .feed [1, 2], .feed [3]]).1 .eof).2.evs =
    [(0, .bytes [1, 2, 3])] := by decide
example : dataEvs (step stdR (run stdR (init 4 100) [.feed [7], .readUntilClose, .feed [1, 2]]).1 (.rerr .reset)).2.evs =
    [(0, .bytes [7, 1, 2])] := by decide
example : Spec.untilCloseOk false 0 = false ∧ Spec.untilCloseOk true 3 = false := by decide

end TornadoModel.C11
