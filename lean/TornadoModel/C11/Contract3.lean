/-
C11 — contracts at the level of `doStep` / `step` / `run`: every data result of a run belongs to a request in the
table of issued requests and meets that request's `Spec.contractOk`.
-/
import TornadoModel.C11.Contract2
namespace TornadoModel.C11
open Spec (Req contractOk lenOk withinMax)
variable (R : Nat → Bytes → Option Nat)

/-- the request a read op stands for -/
def reqOfOp : Op → Option Req
  | .readBytes n part => some (.bytes n part)
  | .readInto n part => some (.into n part)
  | .readUntil d max => some (.until d max)
  | .readRegex rid max => some (.regex rid max)
  | .readUntilClose => some .untilClose
  | _ => none

/-- the (future id, request) pair registered by `op` in state `s`: `_start_read` succeeds iff no read is pending -/
def issued (s : St) (op : Op) : List (Nat × Req) :=
  match s.rfut, reqOfOp op with
  | none, some q => [(s.nextId, q)]
  | _, _ => []

/-- all requests registered during a run -/
def table : St → List Op → List (Nat × Req)
  | _, [] => []
  | s, op :: ops => issued s op ++ table (step R s op).1 ops

theorem Ok.same {s s' : St} {pq : Option (Nat × Req)} {N N' : Nat} (o : Ok R pq N s) (h1 : s'.out = s.out)
    (h2 : s'.rfut = s.rfut) (h3 : s'.nextId = N') (h4 : s'.ruc = s.ruc) (h5 : s'.user = s.user)
    (h6 : s'.rbytes = s.rbytes) (h7 : s'.rpartial = s.rpartial) (h8 : s'.rdelim = s.rdelim)
    (h9 : s'.rregex = s.rregex) (h10 : s'.rmax = s.rmax) : Ok R pq N' s' := by
  refine ⟨?_, ?_, h3⟩
  · intro g x hx; rw [h1] at hx; exact o.evs g x hx
  · intro f hf
    rw [h2] at hf
    obtain ⟨q, hq, m⟩ := o.pend f hf
    refine ⟨q, hq, ?_⟩
    cases q <;> simp only [Match] at m ⊢ <;> simp_all

theorem startRead_inl (s : St) (r : Raised) (h : startRead s = .inl r) : s.rfut ≠ none := by
  unfold startRead at h
  split at h
  · rename_i f hf; simp [hf]
  · simp at h

/-- a freshly installed request, then `_try_inline_read` -/
theorem start_ok (hR : RLocal R) (s2 : St) (i2 : Inv s2) (f : Nat) (q : Req) (hout : s2.out = [])
    (hf : s2.rfut = some f) (m : Match s2 q) (c : Bool) (f' : Nat) :
    Ok R (some (f, q)) s2.nextId (finishInline R c s2 f').1 := by
  refine finishInline_ok R hR s2 i2 ⟨?_, ?_, rfl⟩ c f'
  · intro g o hgo; simp [hout, dataEvs] at hgo
  · intro f'' hf''
    rw [hf] at hf''
    cases hf''
    exact ⟨q, rfl, m⟩

theorem readInto_ok (hR : RLocal R) (s : St) (i : Inv s) (hout : s.out = []) (n : Nat) (part : Bool)
    (hf : s.rfut = none) :
    Ok R (some (s.nextId, .into n part)) (s.nextId + 1) (readInto R s n part).1 := by
  unfold readInto
  split
  · rename_i r hs; exact absurd hf (startRead_inl s r hs)
  · rename_i s1 f hs
    obtain ⟨_, e1, e2⟩ := startRead_inr s s1 f hs
    subst e1; subst e2
    have hp := i.idle hf
    have hruc := not_ruc_of_idle s i hf
    dsimp only
    split
    · rename_i hn
      refine (maybeAdd_rs2 _).ok R ⟨?_, ?_, rfl⟩
      · intro g o hgo
        simp only [St.emit, hout, List.nil_append, dataEvs, List.mem_singleton, Prod.mk.injEq] at hgo
        obtain ⟨rfl, rfl⟩ := hgo
        refine ⟨_, rfl, ?_⟩
        have hn' : n ≤ s.buf.length := hn
        simp [contractOk, lenOk, List.length_take, Nat.min_eq_left hn']
        cases part <;> simp
        omega
      · intro f' hf'; simp [St.emit] at hf'
    · rename_i hn
      have i2 : Inv { s with rfut := some s.nextId, nextId := s.nextId + 1, user := some n, rbytes := some n,
                             rpartial := part } := by
        have := start_inv s s.nextId (s.nextId + 1) (some n) part s.rdelim s.rregex s.rmax s.ruc (some n)
          (by intro h; simp [hruc] at h)
          (by intro m hm; simp at hm; subst hm; exact ⟨rfl, hp.2.1, hp.2.2.1, by omega⟩)
          (fun _ => hruc)
        exact this
      exact start_ok R hR _ i2 s.nextId (.into n part) hout rfl ⟨hruc, rfl, rfl, rfl, hp.2.1, hp.2.2.1⟩ false _

/-- **one `doStep`**: with `pq` = the pending request (or, on an idle stream, the one `op` issues), every data result
    of the step belongs to `pq` and meets its contract; afterwards a pending read is `pq` again -/
theorem doStep_ok (hR : RLocal R) (s : St) (i : Inv s) (hout : s.out = []) (op : Op) (pq : Option (Nat × Req))
    (hp : ∀ f, s.rfut = some f → ∃ q, pq = some (f, q) ∧ Match s q)
    (hi : s.rfut = none → pq = (reqOfOp op).map (fun q => (s.nextId, q))) :
    ∃ N, Ok R pq N (doStep R s op).1 ∧ s.nextId ≤ N ∧ (s.rfut = none → (reqOfOp op).isSome = true → s.nextId < N) := by
  have o0 : Ok R pq s.nextId s := ⟨by intro g o hgo; simp [hout, dataEvs] at hgo, hp, rfl⟩
  cases op with
  | feed b =>
    refine ⟨s.nextId, ?_, Nat.le_refl _, by simp [reqOfOp]⟩
    simp only [doStep]
    have hm : Inv (if b.isEmpty then s else { s with inc := s.inc ++ [b] }) ∧
        Ok R pq s.nextId (if b.isEmpty then s else { s with inc := s.inc ++ [b] }) := by
      split
      · exact ⟨i, o0⟩
      · obtain ⟨a, b', c, d, e⟩ := i
        exact ⟨⟨a, b', c, d, e⟩, o0.same R rfl rfl rfl rfl rfl rfl rfl rfl rfl rfl⟩
    exact dispatch_ok R hR _ hm.1 hm.2 true false
  | eof =>
    refine ⟨s.nextId, ?_, Nat.le_refl _, by simp [reqOfOp]⟩
    simp only [doStep]
    have r : RS s { s with eof := true } := ⟨rfl, rfl, rfl, rfl, rfl, rfl, rfl, rfl, rfl, rfl⟩
    exact dispatch_ok R hR _ (r.inv i) (o0.same R rfl rfl rfl rfl rfl rfl rfl rfl rfl rfl) true false
  | rerr k =>
    refine ⟨s.nextId, ?_, Nat.le_refl _, by simp [reqOfOp]⟩
    simp only [doStep]
    have r : RS s { s with rerr := some k } := ⟨rfl, rfl, rfl, rfl, rfl, rfl, rfl, rfl, rfl, rfl⟩
    exact dispatch_ok R hR _ (r.inv i) (o0.same R rfl rfl rfl rfl rfl rfl rfl rfl rfl rfl) true false
  | readBytes n part =>
    simp only [doStep]
    split
    · rename_i r hs
      exact ⟨s.nextId, o0, Nat.le_refl _, fun h => absurd h (startRead_inl s r hs)⟩
    · rename_i s1 f hs
      obtain ⟨hf, e1, e2⟩ := startRead_inr s s1 f hs
      subst e1; subst e2
      have hq := i.idle hf
      have hruc := not_ruc_of_idle s i hf
      have hpq : pq = some (s.nextId, .bytes n part) := by simpa [reqOfOp] using hi hf
      subst hpq
      refine ⟨s.nextId + 1, ?_, by omega, fun _ _ => by omega⟩
      have i2 := start_inv s s.nextId (s.nextId + 1) (some n) part s.rdelim s.rregex s.rmax s.ruc s.user
        (by intro h; simp [hruc] at h) (by intro m hm; rw [hq.2.2.2] at hm; simp at hm) (fun _ => hruc)
      exact start_ok R hR _ i2 s.nextId (.bytes n part) hout rfl ⟨hruc, hq.2.2.2, rfl, rfl, hq.2.1, hq.2.2.1⟩ false _
  | readInto n part =>
    simp only [doStep]
    cases hf : s.rfut with
    | some f0 =>
      refine ⟨s.nextId, ?_, Nat.le_refl _, fun h => by simp at h⟩
      have : (readInto R s n part).1 = s := by
        unfold readInto
        split
        · rfl
        · rename_i s1 f hs
          have := (startRead_inr s s1 f hs).1
          rw [hf] at this; cases this
      rw [this]; exact o0
    | none =>
      have hpq : pq = some (s.nextId, .into n part) := by simpa [reqOfOp] using hi hf
      subst hpq
      exact ⟨s.nextId + 1, readInto_ok R hR s i hout n part hf, by omega, fun _ _ => by omega⟩
  | readUntil d mx =>
    simp only [doStep]
    split
    · rename_i r hs
      exact ⟨s.nextId, o0, Nat.le_refl _, fun h => absurd h (startRead_inl s r hs)⟩
    · rename_i s1 f hs
      obtain ⟨hf, e1, e2⟩ := startRead_inr s s1 f hs
      subst e1; subst e2
      have hq := i.idle hf
      have hruc := not_ruc_of_idle s i hf
      have hpq : pq = some (s.nextId, .until d mx) := by simpa [reqOfOp] using hi hf
      subst hpq
      refine ⟨s.nextId + 1, ?_, by omega, fun _ _ => by omega⟩
      have i2 := start_inv s s.nextId (s.nextId + 1) s.rbytes s.rpartial (some d) s.rregex mx s.ruc s.user
        (by intro h; simp [hruc] at h) (by intro m hm; rw [hq.2.2.2] at hm; simp at hm) (fun _ => hruc)
      exact start_ok R hR _ i2 s.nextId (.until d mx) hout rfl ⟨hruc, hq.2.2.2, hq.1, rfl, rfl⟩ true _
  | readRegex rid mx =>
    simp only [doStep]
    split
    · rename_i r hs
      exact ⟨s.nextId, o0, Nat.le_refl _, fun h => absurd h (startRead_inl s r hs)⟩
    · rename_i s1 f hs
      obtain ⟨hf, e1, e2⟩ := startRead_inr s s1 f hs
      subst e1; subst e2
      have hq := i.idle hf
      have hruc := not_ruc_of_idle s i hf
      have hpq : pq = some (s.nextId, .regex rid mx) := by simpa [reqOfOp] using hi hf
      subst hpq
      refine ⟨s.nextId + 1, ?_, by omega, fun _ _ => by omega⟩
      have i2 := start_inv s s.nextId (s.nextId + 1) s.rbytes s.rpartial s.rdelim (some rid) mx s.ruc s.user
        (by intro h; simp [hruc] at h) (by intro m hm; rw [hq.2.2.2] at hm; simp at hm) (fun _ => hruc)
      exact start_ok R hR _ i2 s.nextId (.regex rid mx) hout rfl ⟨hruc, hq.2.2.2, hq.1, hq.2.1, rfl, rfl⟩ true _
  | readUntilClose =>
    simp only [doStep]
    split
    · rename_i r hs
      exact ⟨s.nextId, o0, Nat.le_refl _, fun h => absurd h (startRead_inl s r hs)⟩
    · rename_i s1 f hs
      obtain ⟨hf, e1, e2⟩ := startRead_inr s s1 f hs
      subst e1; subst e2
      have hq := i.idle hf
      have hruc := not_ruc_of_idle s i hf
      have hpq : pq = some (s.nextId, .untilClose) := by simpa [reqOfOp] using hi hf
      subst hpq
      refine ⟨s.nextId + 1, ?_, by omega, fun _ _ => by omega⟩
      split
      · refine (finishRead_ok R { s with rfut := some s.nextId, nextId := s.nextId + 1 } _ _ _ ?_ rfl ?_).1
        · intro g o hgo; simp [hout, dataEvs] at hgo
        · intro f' hf'
          simp at hf'; subst hf'
          exact ⟨_, rfl, by simp [finRes, hq.2.2.2, contractOk]⟩
      · rename_i hc
        have hc' : s.closed = false := by simpa using hc
        have i2 := start_inv s s.nextId (s.nextId + 1) s.rbytes s.rpartial s.rdelim s.rregex s.rmax true s.user
          (fun _ => ⟨hq.1, hq.2.1, hq.2.2.1, hq.2.2.2⟩) (by intro m hm; rw [hq.2.2.2] at hm; simp at hm)
          (by intro h; simp [hc'] at h)
        exact start_ok R hR _ i2 s.nextId .untilClose hout rfl rfl false _
  | close exc =>
    refine ⟨s.nextId, ?_, Nat.le_refl _, by simp [reqOfOp]⟩
    simp only [doStep]
    exact close_ok R hR s i o0 _
  | setCb =>
    refine ⟨s.nextId, ?_, Nat.le_refl _, by simp [reqOfOp]⟩
    simp only [doStep]
    exact (maybeAdd_rs2 _).ok R (o0.same R rfl rfl rfl rfl rfl rfl rfl rfl rfl rfl)
  | write n =>
    simp only [doStep]
    split
    · exact ⟨s.nextId, o0, Nat.le_refl _, by simp [reqOfOp]⟩
    · refine ⟨s.nextId + 1, ?_, by omega, by simp [reqOfOp]⟩
      have r : RS s { s with wpend := s.wpend + n, wtotal := s.wtotal + n, nextId := s.nextId + 1,
                             wfuts := s.wfuts ++ [(s.wtotal + n, s.nextId)] } :=
        ⟨rfl, rfl, rfl, rfl, rfl, rfl, rfl, rfl, rfl, rfl⟩
      have o1 : Ok R pq (s.nextId + 1)
          { s with wpend := s.wpend + n, wtotal := s.wtotal + n, nextId := s.nextId + 1,
                   wfuts := s.wfuts ++ [(s.wtotal + n, s.nextId)] } :=
        o0.same R rfl rfl rfl rfl rfl rfl rfl rfl rfl rfl
      split
      · exact o1
      · have h2 := handleWrite_ok R hR _ (r.inv i) o1
        generalize handleWrite R _ = s2 at h2
        have h3 : Ok R pq (s.nextId + 1) (if (decide (0 < s2.wpend) && !s2.closed) = true then addIo s2 false true else s2) := by
          split
          · exact (addIo_rs2 s2 _ _).ok R h2
          · exact h2
        exact (maybeAdd_rs2 _).ok R h3
  | wmode m =>
    refine ⟨s.nextId, ?_, Nat.le_refl _, by simp [reqOfOp]⟩
    simp only [doStep]
    exact o0.same R rfl rfl rfl rfl rfl rfl rfl rfl rfl rfl
  | writable =>
    refine ⟨s.nextId, ?_, Nat.le_refl _, by simp [reqOfOp]⟩
    simp only [doStep]
    exact dispatch_ok R hR s i o0 false true
  | connect =>
    by_cases hcl : s.closed = true
    · refine ⟨s.nextId, ?_, Nat.le_refl _, by simp [reqOfOp]⟩
      simp only [doStep, hcl, if_true]
      exact o0
    · refine ⟨s.nextId + 1, ?_, by omega, by simp [reqOfOp]⟩
      simp only [doStep, hcl, Bool.false_eq_true, if_false]
      exact (addIo_rs2 _ _ _).ok R (o0.same R rfl rfl rfl rfl rfl rfl rfl rfl rfl rfl)
  | cerr k =>
    refine ⟨s.nextId, ?_, Nat.le_refl _, by simp [reqOfOp]⟩
    simp only [doStep]
    exact o0.same R rfl rfl rfl rfl rfl rfl rfl rfl rfl rfl

theorem finishInline_ret (s : St) (cu : Bool) (f0 f : Nat) (h : (finishInline R cu s f0).2 = .fut f) : f = f0 := by
  unfold finishInline at h
  split at h
  · simp at h; exact h.symm
  · split at h
    · simp at h; exact h.symm
    · simp at h
  · simp at h

/-! ### runs -/

/-- the table `T` of registered requests covers state `s` -/
structure Cover (T : List (Nat × Req)) (s : St) : Prop where
  lt : ∀ x ∈ T, x.1 < s.nextId
  pend : ∀ f, s.rfut = some f → ∃ q, (f, q) ∈ T ∧ Match s q
  uniq : ∀ g q q', (g, q) ∈ T → (g, q') ∈ T → q = q'

theorem step_fst (s : St) (op : Op) : (step R s op).1 = (doStep R { s with out := [] } op).1 := rfl
theorem step_evs (s : St) (op : Op) : (step R s op).2.evs = (doStep R { s with out := [] } op).1.out := rfl

theorem step_ok_aux (hR : RLocal R) (s : St) (i0 : Inv s) (hout : s.out = []) (T : List (Nat × Req)) (c : Cover T s)
    (op : Op) :
    Cover (T ++ issued s op) (doStep R s op).1 ∧
    ∀ g o, (g, o) ∈ dataEvs (doStep R s op).1.out → ∃ q, (g, q) ∈ T ++ issued s op ∧ contractOk R q o = true := by
  cases hf : s.rfut with
  | some f =>
    obtain ⟨q, hqT, m⟩ := c.pend f hf
    have hiss : issued s op = [] := by simp [issued, hf]
    obtain ⟨N, ok, hle, _⟩ := doStep_ok R hR s i0 hout op (some (f, q))
      (by intro f' hf'
          rw [hf] at hf'; cases hf'
          exact ⟨q, rfl, m⟩)
      (by intro h; rw [hf] at h; cases h)
    rw [hiss, List.append_nil]
    refine ⟨⟨?_, ?_, c.uniq⟩, ?_⟩
    · intro x hx; have := c.lt x hx; rw [ok.nid]; exact Nat.lt_of_lt_of_le this hle
    · intro f' hf'
      obtain ⟨q', hq', m'⟩ := ok.pend f' hf'
      cases hq'
      exact ⟨q, hqT, m'⟩
    · intro g o hgo
      obtain ⟨q', hq', hc⟩ := ok.evs g o hgo
      cases hq'
      exact ⟨q, hqT, hc⟩
  | none =>
    obtain ⟨N, ok, hle, hlt⟩ := doStep_ok R hR s i0 hout op
      ((reqOfOp op).map (fun q => (s.nextId, q)))
      (by intro f' hf'; rw [hf] at hf'; cases hf')
      (fun _ => rfl)
    cases hq : reqOfOp op with
    | none =>
      have hiss : issued s op = [] := by simp [issued, hf, hq]
      rw [hiss, List.append_nil]
      rw [hq] at ok
      refine ⟨⟨?_, ?_, c.uniq⟩, ?_⟩
      · intro x hx; have := c.lt x hx; rw [ok.nid]; exact Nat.lt_of_lt_of_le this hle
      · intro f' hf'
        obtain ⟨q', hq', _⟩ := ok.pend f' hf'
        simp at hq'
      · intro g o hgo
        obtain ⟨q', hq', _⟩ := ok.evs g o hgo
        simp at hq'
    | some q =>
      have hiss : issued s op = [(s.nextId, q)] := by simp [issued, hf, hq]
      rw [hiss]
      rw [hq] at ok
      have hlt' : s.nextId < N := hlt hf (by simp [hq])
      refine ⟨⟨?_, ?_, ?_⟩, ?_⟩
      · intro x hx
        rw [ok.nid]
        rcases List.mem_append.1 hx with h | h
        · exact Nat.lt_of_lt_of_le (c.lt x h) hle
        · simp at h; subst h; exact hlt'
      · intro f' hf'
        obtain ⟨q', hq', m'⟩ := ok.pend f' hf'
        simp at hq'
        obtain ⟨rfl, rfl⟩ := hq'
        exact ⟨q, by simp, m'⟩
      · intro g q1 q2 h1 h2
        rcases List.mem_append.1 h1 with a | a <;> rcases List.mem_append.1 h2 with b | b
        · exact c.uniq g q1 q2 a b
        · simp at b; have := c.lt _ a; simp [b.1] at this
        · simp at a; have := c.lt _ b; simp [a.1] at this
        · simp at a b; rw [a.2, b.2]
      · intro g o hgo
        obtain ⟨q', hq', hc⟩ := ok.evs g o hgo
        simp at hq'
        obtain ⟨rfl, rfl⟩ := hq'
        exact ⟨q, by simp, hc⟩

theorem step_ok (hR : RLocal R) (s : St) (i : Inv s) (T : List (Nat × Req)) (c : Cover T s) (op : Op) :
    Cover (T ++ issued s op) (step R s op).1 ∧
    ∀ g o, (g, o) ∈ dataEvs (step R s op).2.evs → ∃ q, (g, q) ∈ T ++ issued s op ∧ contractOk R q o = true := by
  have i0 : Inv { s with out := [] } := by
    obtain ⟨a, b, c, d, e⟩ := i; exact ⟨a, b, c, d, e⟩
  have c0 : Cover T { s with out := [] } :=
    ⟨c.lt, fun f hf => by
      obtain ⟨q, hq, m⟩ := c.pend f hf
      exact ⟨q, hq, by cases q <;> exact m⟩, c.uniq⟩
  exact step_ok_aux R hR { s with out := [] } i0 rfl T c0 op

theorem step_inv (s : St) (i : Inv s) (op : Op) : Inv (step R s op).1 := by
  have i0 : Inv { s with out := [] } := by
    obtain ⟨a, b, c, d, e⟩ := i; exact ⟨a, b, c, d, e⟩
  rw [step_fst]; exact (doStep_pres R _ i0 op).1

/-- **all op sequences**: every data result belongs to a registered request and meets its contract; future ids
    identify requests uniquely -/
theorem run_ok (hR : RLocal R) : ∀ (ops : List Op) (s : St) (T : List (Nat × Req)), Inv s → Cover T s →
    (∀ g o, (g, o) ∈ dataEvs ((((run R s ops).2).map (·.evs)).flatten) →
      ∃ q, (g, q) ∈ T ++ table R s ops ∧ contractOk R q o = true) ∧
    (∀ g q q', (g, q) ∈ T ++ table R s ops → (g, q') ∈ T ++ table R s ops → q = q') := by
  intro ops
  induction ops with
  | nil =>
    intro s T i c
    refine ⟨?_, ?_⟩
    · intro g o hgo; simp [run, dataEvs] at hgo
    · simpa [table] using c.uniq
  | cons op ops ih =>
    intro s T i c
    obtain ⟨c1, hev⟩ := step_ok R hR s i T c op
    have i1 := step_inv R s i op
    obtain ⟨h1, h2⟩ := ih (step R s op).1 (T ++ issued s op) i1 c1
    simp only [run, table, List.map_cons, List.flatten_cons, dataEvs_append, ← List.append_assoc]
    refine ⟨?_, h2⟩
    intro g o hgo
    rcases List.mem_append.1 hgo with h | h
    · obtain ⟨q, hq, hc⟩ := hev g o h
      exact ⟨q, List.mem_append_left _ hq, hc⟩
    · exact h1 g o h

end TornadoModel.C11
