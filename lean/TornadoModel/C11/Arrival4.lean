/-
C11 — arrival independence, part 4: whole runs.  Feeding the byte stream in any segmentation and then issuing a
sequence of stable read requests yields exactly the results of the strict batch reader `batch`.
-/
import TornadoModel.C11.Arrival3
namespace TornadoModel.C11
variable (R : Nat → Bytes → Option Nat)

theorem run_cons_fst (s : St) (op : Op) (ops : List Op) :
    (run R s (op :: ops)).1 = (run R (step R s op).1 ops).1 := rfl
theorem run_cons_snd (s : St) (op : Op) (ops : List Op) :
    (run R s (op :: ops)).2 = (step R s op).2 :: (run R (step R s op).1 ops).2 := rfl

theorem run_append_fst : ∀ (a b : List Op) (s : St), (run R s (a ++ b)).1 = (run R (run R s a).1 b).1 := by
  intro a
  induction a with
  | nil => intro b s; rfl
  | cons op ops ih => intro b s; rw [List.cons_append, run_cons_fst, ih, run_cons_fst]

theorem run_append_snd : ∀ (a b : List Op) (s : St),
    (run R s (a ++ b)).2 = (run R s a).2 ++ (run R (run R s a).1 b).2 := by
  intro a
  induction a with
  | nil => intro b s; rfl
  | cons op ops ih => intro b s; rw [List.cons_append, run_cons_snd, ih, run_cons_snd, run_cons_fst]; rfl

/-- all events of a run -/
def evsOf (outs : List Out) : List Ev := (outs.map (·.evs)).flatten

theorem evsOf_cons (o : Out) (os : List Out) : evsOf (o :: os) = o.evs ++ evsOf os := rfl
theorem evsOf_append (a b : List Out) : evsOf (a ++ b) = evsOf a ++ evsOf b := by
  simp [evsOf]

/-- feeding an idle stream without a registered handler only fills the transport -/
theorem run_feeds (c m : Nat) : ∀ (segs : List Bytes) (s : St) (flat : Bytes), IdleSt c m s flat →
    IdleSt c m (run R s (segs.map .feed)).1 (flat ++ segs.flatten) ∧ evsOf (run R s (segs.map .feed)).2 = [] := by
  intro segs
  induction segs with
  | nil => intro s flat h; simpa [run, evsOf] using h
  | cons b bs ih =>
    intro s flat h
    obtain ⟨h1, e1⟩ := feed_idle R c m s flat h b
    obtain ⟨h2, e2⟩ := ih _ _ h1
    rw [List.map_cons, run_cons_fst, run_cons_snd, evsOf_cons, e1, e2]
    refine ⟨?_, rfl⟩
    simpa [List.append_assoc] using h2

/-- while a read is pending every further stable read is rejected: no events at all -/
theorem run_pending : ∀ (reads : List Op) (s : St), (∀ op ∈ reads, stableRead op = true) → s.rfut.isSome = true →
    evsOf (run R s reads).2 = [] := by
  intro reads
  induction reads with
  | nil => intro s _ _; rfl
  | cons op ops ih =>
    intro s hst hf
    obtain ⟨h1, e1⟩ := step_read_pending R s op (hst op (by simp)) hf
    rw [run_cons_snd, evsOf_cons, e1, ih _ (fun o ho => hst o (by simp [ho])) h1]
    rfl

/-- **the read phase**: stable requests on an idle stream holding `flat` return `batch flat` -/
theorem run_reads (hS : RStable R) (hL : RLocal R) (c m : Nat) (hc : 0 < c) : ∀ (reads : List Op) (s : St) (flat : Bytes)
    (results : List Bytes), IdleSt c m s flat → flat.length ≤ m → (∀ op ∈ reads, stableRead op = true) →
    batch R flat reads = some results →
    (dataEvs (evsOf (run R s reads).2)).map (·.2) = results.map .bytes := by
  intro reads
  induction reads with
  | nil =>
    intro s flat results _ _ _ hb
    simp only [batch, Option.some.injEq] at hb
    subst hb; rfl
  | cons op ops ih =>
    intro s flat results h hm hst hb
    simp only [batch] at hb
    cases hsp : specPos R op flat with
    | none => rw [hsp] at hb; simp at hb
    | some r =>
      rw [hsp] at hb
      have hstep := step_read_idle R hS hL c m hc s flat h hm op (hst op (by simp)) r hsp
      rw [run_cons_snd, evsOf_cons]
      cases r with
      | none =>
        simp only [Option.some.injEq] at hb
        subst hb
        obtain ⟨hf, he⟩ := hstep
        rw [he, run_pending R ops _ (fun o ho => hst o (by simp [ho])) hf]
        rfl
      | some p =>
        simp only [] at hb
        cases hb' : batch R (flat.drop p) ops with
        | none => rw [hb'] at hb; simp at hb
        | some results' =>
          rw [hb'] at hb
          simp only [Option.map_some, Option.some.injEq] at hb
          subst hb
          obtain ⟨hidle, he⟩ := hstep
          have := ih _ (flat.drop p) results' hidle (by rw [List.length_drop]; omega)
            (fun o ho => hst o (by simp [ho])) hb'
          rw [he, dataEvs_append, List.map_append, this]
          rfl

def outBytes : Outcome → Bytes
  | .bytes b => b
  | .into _ b => b
  | _ => []

theorem evBytes_dataEvs : ∀ l : List Ev, evBytes l = (((dataEvs l).map (·.2)).map outBytes).flatten := by
  intro l
  induction l with
  | nil => rfl
  | cons e r ih =>
    cases e with
    | cb => simpa [evBytes, dataEvs] using ih
    | settle f o => cases o <;> simp [evBytes, dataEvs, outBytes, ih]

/-- **machine = batch reader**: from an idle stream holding nothing, feed the stream in ANY segmentation, then issue
    the requests: the results are `batch` of the concatenated stream -/
theorem feeds_reads_batch (hS : RStable R) (hL : RLocal R) (c m : Nat) (hc : 0 < c) (s0 : St) (h0 : IdleSt c m s0 [])
    (segs : List Bytes) (hm : segs.flatten.length ≤ m) (reads : List Op) (hst : ∀ op ∈ reads, stableRead op = true)
    (results : List Bytes) (hb : batch R segs.flatten reads = some results) :
    (dataEvs (evsOf (run R s0 (segs.map .feed ++ reads)).2)).map (·.2) = results.map .bytes := by
  obtain ⟨h1, e1⟩ := run_feeds R c m segs s0 [] h0
  rw [List.nil_append] at h1
  rw [run_append_snd, evsOf_append, e1, List.nil_append]
  exact run_reads R hS hL c m hc reads _ _ results h1 hm hst hb

end TornadoModel.C11
