/- C11 driver:
   `C11 run [chunk,maxBuf] [op,…]`      → ok [[ret,[[fid,outcome],…],cbs,view],…]   (Model, regexes = `stdR`)
   `C11 spec [[req,outcome],…] x<stream> [x<result>,…]` → ok T | ok [contract,i] | ok [conservation]   (Spec)
   `C11 ready [[req,x<buffer>],…]`      → ok T | ok [stalled,i]   (Spec.ready: pending request already satisfied by the buffer)
   `C11 search rid x<bytes>`             → ok end|~   (the hand-written matchers)
-/
import TornadoModel.Base.Wire
import TornadoModel.C11.Spec
import TornadoModel.C11.SpecClose
namespace TornadoModel.C11.Drv
open TornadoModel TornadoModel.Wire TornadoModel.C11

def decErr : V → Option ErrK
  | .atom "none" => some .none
  | .atom "reset" => some .reset
  | .atom "oserr" => some .oserr
  | .atom "unsat" => some .unsat
  | .atom "custom" => some .custom
  | .atom "epipe" => some .epipe
  | .atom "wioerr" => some .wioerr
  | .atom "refused" => some .refused
  | _ => none

def encErr : ErrK → V
  | .none => .atom "none"
  | .reset => .atom "reset"
  | .oserr => .atom "oserr"
  | .unsat => .atom "unsat"
  | .custom => .atom "custom"
  | .epipe => .atom "epipe"
  | .wioerr => .atom "wioerr"
  | .refused => .atom "refused"

def decMax (v : V) : Option (Option Nat) :=
  if v.isNone then some none else v.nat?.map some

def decOp (v : V) : Option Op := do
  let l ← v.list?
  match l with
  | [.atom "feed", b] => pure (.feed (← b.byteNats?))
  | [.atom "eof"] => pure .eof
  | [.atom "rerr", k] => pure (.rerr (← decErr k))
  | [.atom "rb", n, p] => pure (.readBytes (← n.nat?) (← p.bool?))
  | [.atom "ri", n, p] => pure (.readInto (← n.nat?) (← p.bool?))
  | [.atom "ru", d, m] => pure (.readUntil (← d.byteNats?) (← decMax m))
  | [.atom "rr", r, m] => pure (.readRegex (← r.nat?) (← decMax m))
  | [.atom "ruc"] => pure .readUntilClose
  | [.atom "close", e] => pure (.close (← e.bool?))
  | [.atom "setcb"] => pure .setCb
  | [.atom "write", n] => pure (.write (← n.nat?))
  | [.atom "wmode", .atom "accept"] => pure (.wmode .accept)
  | [.atom "wmode", .atom "block"] => pure (.wmode .block)
  | [.atom "wmode", k] => pure (.wmode (.fail (← decErr k)))
  | [.atom "writable"] => pure .writable
  | [.atom "connect"] => pure .connect
  | [.atom "cerr", k] => pure (.cerr (← decErr k))
  | _ => none

def encOutcome : Outcome → V
  | .bytes b => V.ofByteNats b
  | .into k b => .list [.atom "into", .int k, V.ofByteNats b]
  | .unit => .atom "U"
  | .stream => .atom "S"
  | .closedErr k => .list [.atom "closed", encErr k]

def decOutcome : V → Option Outcome
  | .bytes b => some (.bytes (b.map UInt8.toNat))
  | .list [.atom "into", k, b] => do pure (.into (← k.nat?) (← b.byteNats?))
  | .atom "U" => some .unit
  | .atom "S" => some .stream
  | .list [.atom "closed", k] => (decErr k).map .closedErr
  | _ => none

def encRaised : Raised → V
  | .streamClosed k => .list [.atom "raised", .atom "StreamClosedError", encErr k]
  | .unsat => .list [.atom "raised", .atom "UnsatisfiableReadError"]
  | .oserr => .list [.atom "raised", .atom "OSError"]
  | .bufferFull => .list [.atom "raised", .atom "StreamBufferFullError"]
  | .already => .list [.atom "raised", .atom "AssertionError"]

def encRet : Ret → V
  | .fut f => .list [.atom "fut", .int f]
  | .raised r => encRaised r
  | .unit => .atom "U"

def settles : List Ev → List V
  | [] => []
  | .settle f o :: r => .list [.int f, encOutcome o] :: settles r
  | .cb :: r => settles r

def cbs (evs : List Ev) : Nat := (evs.filter (· == .cb)).length

def pending (s : St) : List Nat :=
  (match s.rfut with | some f => [f] | none => []) ++ s.wfuts.map (·.2) ++ (match s.cfut with | some f => [f] | none => [])

/-- buffer contents in a view: whole when ≤ 64 bytes, else [length, first 16, last 16] -/
def shortBuf (b : Bytes) : V :=
  if b.length ≤ 64 then V.ofByteNats b
  else .list [.int b.length, V.ofByteNats (b.take 16), V.ofByteNats (b.drop (b.length - 16))]

def view (s : St) : V :=
  .list [V.ofBool s.closed, encErr s.error, shortBuf s.buf, .int (incBytes s),
         (match s.io with
          | none => .none
          | some (r, w) => .list [V.ofBool r, V.ofBool w]),
         .list ((pending s).map (fun n => V.int (Int.ofNat n)))]

def runV (R : Nat → Bytes → Option Nat) (s : St) : List Op → List V
  | [] => []
  | op :: ops =>
    let (s1, o) := step R s op
    .list [encRet o.ret, .list (settles o.evs), .int (cbs o.evs), view s1] :: runV R s1 ops

def decReq (v : V) : Option Spec.Req := do
  let l ← v.list?
  match l with
  | [.atom "rb", n, p] => pure (.bytes (← n.nat?) (← p.bool?))
  | [.atom "ri", n, p] => pure (.into (← n.nat?) (← p.bool?))
  | [.atom "ru", d, m] => pure (.until (← d.byteNats?) (← decMax m))
  | [.atom "rr", r, m] => pure (.regex (← r.nat?) (← decMax m))
  | [.atom "ruc"] => pure .untilClose
  | _ => none

def decPair (v : V) : Option (Spec.Req × Outcome) := do
  match ← v.list? with
  | [q, o] => pure (← decReq q, ← decOutcome o)
  | _ => none

def decReqBuf (v : V) : Option (Spec.Req × Bytes) := do
  match ← v.list? with
  | [q, b] => pure (← decReq q, ← b.byteNats?)
  | _ => none

def handle (toks : List String) : String :=
  match toks with
  | ["run", cfg, ops] =>
    match V.parse cfg >>= V.list?, V.parse ops >>= V.list? >>= (·.mapM decOp) with
    | some [c, m], some ops =>
      match c.nat?, m.nat? with
      | some c, some m => ok [.list (runV stdR { chunk := c, maxBuf := m } ops)]
      | _, _ => err "bad-cfg"
    | _, _ => err "bad-arg"
  | ["spec", pairs, stream, results] =>
    match V.parse pairs >>= V.list? >>= (·.mapM decPair), V.parse stream >>= V.byteNats?,
          V.parse results >>= V.list? >>= (·.mapM V.byteNats?) with
    | some ps, some st, some rs =>
      match Spec.firstBad stdR ps 0 with
      | some i => ok [.list [.atom "contract", .int i]]
      | none => if Spec.conserved rs st then ok [.atom "T"] else ok [.list [.atom "conservation"]]
    | _, _, _ => err "bad-arg"
  | ["ready", pairs] =>
    match V.parse pairs >>= V.list? >>= (·.mapM decReqBuf) with
    | some ps =>
      match Spec.firstReady stdR ps 0 with
      | some i => ok [.list [.atom "stalled", .int i]]
      | none => ok [.atom "T"]
    | none => err "bad-arg"
  | ["ruc", comps, pends] =>
    -- Spec.untilCloseOk on [[closedAfter, leftBehind],…] and Spec.untilCloseStalled on [closedNow,…]
    let decC : V → Option (Bool × Nat) := fun v => do
      match ← v.list? with
      | [c, n] => pure (← c.bool?, ← n.nat?)
      | _ => none
    match V.parse comps >>= V.list? >>= (·.mapM decC), V.parse pends >>= V.list? >>= (·.mapM V.bool?) with
    | some cs, some ps =>
      match Spec.firstBadClose cs 0 with
      | some i => ok [.list [.atom "early-or-partial", .int i]]
      | none =>
        match Spec.firstStalledClose ps 0 with
        | some i => ok [.list [.atom "stalled", .int i]]
        | none => ok [.atom "T"]
    | _, _ => err "bad-arg"
  | ["search", rid, b] =>
    match V.parse rid >>= V.nat?, V.parse b >>= V.byteNats? with
    | some r, some b => ok [V.ofOpt (fun n => V.int (Int.ofNat n)) (stdR r b)]
    | _, _ => err "bad-arg"
  | _ => err "bad-line"

end TornadoModel.C11.Drv
