/-
C11 — arrival independence, part 2: the read loop on a calm transport (data only: no EOF, no error, no overflow).
-/
import TornadoModel.C11.Arrival
namespace TornadoModel.C11
open Spec (withinMax)
variable (R : Nat → Bytes → Option Nat)

/-- the transport only delivers data and nothing can close the stream -/
structure Calm (s : St) : Prop where
  closed : s.closed = false
  eof : s.eof = false
  rerr : s.rerr = none
  ne : ∀ c ∈ s.inc, c ≠ []
  chunk : 0 < s.chunk
  user : s.user = none
  room : s.buf.length + incBytes s ≤ s.maxBuf

/-- `s1` is `s` after moving some bytes from the transport to the buffer -/
def Pulled (s s1 : St) : Prop :=
  ∃ x i, s1 = { s with buf := s.buf ++ x, inc := i } ∧ x ++ i.flatten = s.inc.flatten

theorem Pulled.refl (s : St) : Pulled s s := ⟨[], s.inc, by simp, by simp⟩

theorem Pulled.trans {a b c : St} (h1 : Pulled a b) (h2 : Pulled b c) : Pulled a c := by
  obtain ⟨x, i, rfl, hx⟩ := h1
  obtain ⟨y, j, rfl, hy⟩ := h2
  refine ⟨x ++ y, j, by simp [List.append_assoc], ?_⟩
  simp only [] at hy
  rw [List.append_assoc, hy, hx]

theorem incBytes_eq (s : St) : incBytes s = s.inc.flatten.length := by
  simp [incBytes, List.length_flatten]

theorem Pulled.calm {s s1 : St} (h : Pulled s s1) (c : Calm s) (hne : ∀ c ∈ s1.inc, c ≠ []) : Calm s1 := by
  obtain ⟨x, i, rfl, hx⟩ := h
  refine ⟨c.closed, c.eof, c.rerr, hne, c.chunk, c.user, ?_⟩
  have := c.room
  rw [incBytes_eq] at this ⊢
  simp only [List.length_append] at this ⊢
  have hl := congrArg List.length hx
  simp only [List.length_append] at hl
  omega

theorem Pulled.flat {s s1 : St} (h : Pulled s s1) : s1.buf ++ s1.inc.flatten = s.buf ++ s.inc.flatten := by
  obtain ⟨x, i, rfl, hx⟩ := h
  simp [List.append_assoc, hx]

/-- one `_read_to_buffer` on a calm transport: nothing there, or a non-empty piece moves into the buffer -/
theorem readToBuffer_calm (s : St) (c : Calm s) :
    (s.inc = [] ∧ readToBuffer R s = (s, .zero)) ∨
    (∃ s1, readToBuffer R s = (s1, .got) ∧ Pulled s s1 ∧ Calm s1 ∧ incBytes s1 < incBytes s ∧ s1.buf ≠ []) := by
  unfold readToBuffer
  split
  · rename_i ch rest hinc
    right
    have hch : ch ≠ [] := c.ne ch (by rw [hinc]; simp)
    have hlen : 0 < ch.length := List.length_pos_iff.2 hch
    have hcap : cap s = s.chunk := by simp [cap, c.user]
    have hk0 : ¬ (min ch.length (cap s) = 0) := by rw [hcap]; have := c.chunk; omega
    have hroom := c.room
    rw [incBytes_eq, hinc] at hroom
    simp only [List.flatten_cons, List.length_append] at hroom
    have hov : ¬ (s.maxBuf < (pull s ch rest (min ch.length (cap s))).buf.length) := by
      simp only [pull, List.length_append, List.length_take]
      omega
    rw [if_neg hk0, if_neg hov]
    have hp : Pulled s (pull s ch rest (min ch.length (cap s))) := by
      refine ⟨ch.take (min ch.length (cap s)), if min ch.length (cap s) = ch.length then rest
        else ch.drop (min ch.length (cap s)) :: rest, rfl, ?_⟩
      rw [hinc]
      split
      · rename_i hk; rw [hk]; simp
      · simp [← List.append_assoc]
    have hne : ∀ c' ∈ (pull s ch rest (min ch.length (cap s))).inc, c' ≠ [] := by
      intro c' hc'
      simp only [pull] at hc'
      split at hc'
      · exact c.ne c' (by rw [hinc]; exact List.mem_cons_of_mem _ hc')
      · rename_i hk
        rcases List.mem_cons.1 hc' with rfl | h
        · intro h0
          have := congrArg List.length h0
          simp only [List.length_drop, List.length_nil] at this
          omega
        · exact c.ne c' (by rw [hinc]; exact List.mem_cons_of_mem _ h)
    refine ⟨_, rfl, hp, hp.calm c hne, ?_, ?_⟩
    · obtain ⟨x, i, he, hx⟩ := hp
      have hxl : x = ch.take (min ch.length (cap s)) := by
        have := congrArg St.buf he
        simp only [pull] at this
        exact (List.append_cancel_left this).symm
      rw [incBytes_eq, incBytes_eq, he]
      have hl := congrArg List.length hx
      simp only [List.length_append] at hl
      have : 0 < x.length := by rw [hxl, List.length_take]; omega
      simp only []
      omega
    · simp only [pull]
      intro h0
      have := congrArg List.length h0
      simp only [List.length_append, List.length_take, List.length_nil] at this
      omega
  · rename_i hinc
    left
    simp [c.rerr, c.eof, hinc]

/-- what `_read_to_buffer_loop` reports, in terms of `_find_read_pos` on the final buffer -/
def LoopPost (target : Option Nat) (s1 : St) : LoopRes → Prop
  | .pos (some p) => findReadPos R s1 = some (some p)
  | .pos none => findReadPos R s1 = some none ∧ (s1.inc = [] ∨ (reached target s1.buf.length = true ∧ s1.buf ≠ []))
  | .raised r => r = .unsat ∧ findReadPos R s1 = none

theorem findFinal_post (target : Option Nat) (s1 : St)
    (hstop : s1.inc = [] ∨ (reached target s1.buf.length = true ∧ s1.buf ≠ [])) :
    ∃ res, findFinal R s1 = (s1, res) ∧ LoopPost R target s1 res := by
  unfold findFinal
  cases h : findReadPos R s1 with
  | none => exact ⟨_, rfl, rfl, h⟩
  | some q =>
    cases q with
    | none => exact ⟨_, rfl, h, hstop⟩
    | some p => exact ⟨_, rfl, h⟩

theorem loopGo_calm (target : Option Nat) : ∀ (fuel nf : Nat) (s : St), Calm s → incBytes s < fuel →
    ∃ s1 res, loopGo R target fuel nf s = (s1, res) ∧ Pulled s s1 ∧ Calm s1 ∧ LoopPost R target s1 res := by
  intro fuel
  induction fuel with
  | zero => intro nf s c h; omega
  | succ fuel ih =>
    intro nf s c hfuel
    unfold loopGo
    simp only [c.closed, Bool.false_eq_true, if_false]
    rcases readToBuffer_calm R s c with ⟨hinc, hz⟩ | ⟨s1, hg, hp, c1, hlt, hne⟩
    · rw [hz]
      obtain ⟨res, he, hpost⟩ := findFinal_post R target s (Or.inl hinc)
      exact ⟨s, res, he, Pulled.refl s, c, hpost⟩
    · rw [hg]
      simp only []
      split
      · rename_i hreach
        obtain ⟨res, he, hpost⟩ := findFinal_post R target s1 (Or.inr ⟨hreach, hne⟩)
        exact ⟨s1, res, he, hp, c1, hpost⟩
      · split
        · cases hfr : findReadPos R s1 with
          | none => exact ⟨s1, _, rfl, hp, c1, rfl, hfr⟩
          | some q =>
            cases q with
            | some p => exact ⟨s1, _, rfl, hp, c1, hfr⟩
            | none =>
              obtain ⟨s2, res, he, hp2, c2, hpost⟩ := ih (s1.buf.length * 2) s1 c1 (by omega)
              exact ⟨s2, res, he, hp.trans hp2, c2, hpost⟩
        · obtain ⟨s2, res, he, hp2, c2, hpost⟩ := ih nf s1 c1 (by omega)
          exact ⟨s2, res, he, hp.trans hp2, c2, hpost⟩

/-- the read parameters of `s` encode the (stable) read op -/
def Enc (s : St) : Op → Prop
  | .readBytes n false => s.rbytes = some n ∧ s.rpartial = false ∧ s.rdelim = none ∧ s.rregex = none
  | .readUntil d max => s.rbytes = none ∧ s.rdelim = some d ∧ s.rmax = max
  | .readRegex rid max => s.rbytes = none ∧ s.rdelim = none ∧ s.rregex = some rid ∧ s.rmax = max
  | _ => False

theorem overMax_eq (s : St) (max : Option Nat) (h : s.rmax = max) (k : Nat) : overMax s k = !withinMax max k := by
  subst h
  cases hm : s.rmax with
  | none => simp [overMax, withinMax, hm]
  | some m => by_cases hk : k ≤ m <;> simp [overMax, withinMax, hm, hk] <;> omega

/-- `_find_read_pos` is `specPos` on the buffer -/
theorem find_enc (s : St) (op : Op) (h : Enc s op) : findReadPos R s = specPos R op s.buf := by
  cases op with
  | readBytes n part =>
    cases part with
    | true => exact absurd h (by simp [Enc])
    | false =>
      obtain ⟨h1, h2, h3, h4⟩ := h
      simp only [findReadPos, specPos, h1, h2, h3, h4, Bool.false_and, Bool.or_false, decide_eq_true_eq]
      by_cases hn : n ≤ s.buf.length
      · simp [hn, Nat.min_eq_left hn]
      · simp [hn]
  | readUntil d max =>
    obtain ⟨h1, h2, h3⟩ := h
    simp only [findReadPos, specPos, h1, h2, overMax_eq s max h3]
    split
    · rfl
    · split
      · rename_i m hq; rw [hq]; cases hw : withinMax max (m + d.length) <;> simp [hw]
      · rename_i hq; rw [hq]; cases hw : withinMax max s.buf.length <;> simp
  | readRegex rid max =>
    obtain ⟨h1, h2, h3, h4⟩ := h
    simp only [findReadPos, specPos, h1, h2, h3, overMax_eq s max h4]
    split
    · rfl
    · split
      · rename_i m hq; rw [hq]; cases hw : withinMax max m <;> simp [hw]
      · rename_i hq; rw [hq]; cases hw : withinMax max s.buf.length <;> simp
  | _ => exact absurd h (by simp [Enc])

theorem readLoop_enc (s : St) (op : Op) (h : Enc s op) (hf : s.rfut.isSome = true) :
    readLoop R s = loopGo R (tgt op) (incBytes s + 3) 0 s := by
  unfold readLoop
  cases op with
  | readBytes n part =>
    cases part with
    | true => exact absurd h (by simp [Enc])
    | false => obtain ⟨h1, _⟩ := h; simp [h1, tgt]
  | readUntil d max =>
    obtain ⟨h1, h2, h3⟩ := h
    cases max with
    | none => simp [h1, h3, tgt, hf]
    | some m => simp [h1, h3, tgt]
  | readRegex rid max =>
    obtain ⟨h1, h2, h3, h4⟩ := h
    cases max with
    | none => simp [h1, h4, tgt, hf]
    | some m => simp [h1, h4, tgt]
  | _ => exact absurd h (by simp [Enc])

end TornadoModel.C11
