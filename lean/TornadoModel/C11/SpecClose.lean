/-
C11 — the `read_until_close` contract.  `Spec.contractOk` judges a result on its own and so cannot say anything about
`read_until_close` (any byte string is "a result"); what the request promises is about WHEN it completes and WHAT is
left: it completes only once the stream has closed, and it is handed everything the stream received and had not given
to an earlier read — nothing stays behind in the read buffer.  Together with conservation (results ++ buffer ++
transport = stream, `Spec.conserved`) that pins the result: the bytes from the end of the previous result up to the
last byte received before the close.
-/
import TornadoModel.C11.Spec
namespace TornadoModel.C11.Spec
open TornadoModel.C11

/-- `closedAfter` / `leftBehind`: the stream's closed flag and the number of bytes in its read buffer right after the
    step in which the `read_until_close` future completed with data -/
def untilCloseOk (closedAfter : Bool) (leftBehind : Nat) : Bool := closedAfter && leftBehind == 0

/-- index of the first `read_until_close` completion that came early or left bytes behind -/
def firstBadClose : List (Bool × Nat) → Nat → Option Nat
  | [], _ => none
  | (c, n) :: rest, i => if untilCloseOk c n then firstBadClose rest (i + 1) else some i

/-- "completes at close": a `read_until_close` that is still pending in a state whose stream is closed is stalled -/
def untilCloseStalled (closedNow : Bool) : Bool := closedNow

def firstStalledClose : List Bool → Nat → Option Nat
  | [], _ => none
  | c :: rest, i => if untilCloseStalled c then some i else firstStalledClose rest (i + 1)

end TornadoModel.C11.Spec
