/-
C11 — the two hand-written matchers of the tie (`stdR`) satisfy the hypotheses the contract / arrival theorems put on
the regex engine: a match is determined by the bytes up to its end (`RLocal`) and survives appending (`RStable`).
-/
import TornadoModel.C11.Contract
namespace TornadoModel.C11

/-- a match found in a buffer is still the first match when more bytes arrive -/
def RStable (R : Nat → Bytes → Option Nat) : Prop :=
  ∀ id b c e, R id b = some e → R id (b ++ c) = some e

/-- an anchored matcher whose verdict `some e` depends only on the first `e` bytes -/
structure MLocal (m : Bytes → Option Nat) : Prop where
  le : ∀ b e, m b = some e → e ≤ b.length
  take : ∀ b e k, m b = some e → e ≤ k → m (b.take k) = some e
  app : ∀ b c e, m b = some e → m (b ++ c) = some e

theorem MLocal.of_take {m : Bytes → Option Nat} (h : MLocal m) (b : Bytes) (k e : Nat) (hm : m (b.take k) = some e) :
    m b = some e := by
  have := h.app (b.take k) (b.drop k) e hm
  rwa [List.take_append_drop] at this

theorem searchWith_le {m : Bytes → Option Nat} (h : MLocal m) : ∀ b e, searchWith m b = some e → e ≤ b.length := by
  intro b
  induction b with
  | nil => intro e he; exact h.le [] e he
  | cons x xs ih =>
    intro e he
    simp only [searchWith] at he
    split at he
    · rename_i e' hm; cases he; exact h.le _ _ hm
    · cases hs : searchWith m xs with
      | none => simp [hs] at he
      | some e' =>
        simp [hs] at he; subst he
        have := ih e' hs
        simp only [List.length_cons]; omega

theorem searchWith_take {m : Bytes → Option Nat} (h : MLocal m) :
    ∀ b e k, searchWith m b = some e → e ≤ k → searchWith m (b.take k) = some e := by
  intro b
  induction b with
  | nil => intro e k he _; simpa using he
  | cons x xs ih =>
    intro e k he hk
    simp only [searchWith] at he
    split at he
    · rename_i e' hm
      cases he
      have ht := h.take _ _ k hm hk
      cases k with
      | zero => simpa [searchWith] using ht
      | succ k' =>
        simp only [List.take_succ_cons] at ht ⊢
        simp [searchWith, ht]
    · rename_i hnone
      cases hs : searchWith m xs with
      | none => simp [hs] at he
      | some e' =>
        simp [hs] at he; subst he
        obtain ⟨k', rfl⟩ : ∃ k', k = k' + 1 := ⟨k - 1, by omega⟩
        have hn : m (x :: xs.take k') = none := by
          cases hq : m (x :: xs.take k') with
          | none => rfl
          | some e2 =>
            exfalso
            have : m ((x :: xs).take (k' + 1)) = some e2 := by simpa using hq
            have h2 := h.of_take _ _ _ this
            rw [hnone] at h2; cases h2
        simp only [List.take_succ_cons]
        simp [searchWith, hn, ih e' k' hs (by omega)]

theorem matchCrlf2_local : MLocal matchCrlf2 := by
  refine ⟨?_, ?_, ?_⟩
  · intro b e h
    unfold matchCrlf2 at h
    split at h <;> simp at h <;> subst h <;> simp
  · intro b e k h hk
    unfold matchCrlf2 at h
    split at h <;> simp at h <;> subst h
    · obtain ⟨k', rfl⟩ : ∃ k', k = k' + 4 := ⟨k - 4, by omega⟩
      simp [matchCrlf2]
    · obtain ⟨k', rfl⟩ : ∃ k', k = k' + 3 := ⟨k - 3, by omega⟩
      rename_i hne
      simp only [List.take_succ_cons]
      unfold matchCrlf2
      split <;> simp_all
    · obtain ⟨k', rfl⟩ : ∃ k', k = k' + 3 := ⟨k - 3, by omega⟩
      simp only [List.take_succ_cons]
      unfold matchCrlf2
      split <;> simp_all
    · obtain ⟨k', rfl⟩ : ∃ k', k = k' + 2 := ⟨k - 2, by omega⟩
      simp only [List.take_succ_cons]
      unfold matchCrlf2
      split <;> simp_all
  · intro b c e h
    unfold matchCrlf2 at h
    split at h <;> simp at h <;> subst h
    · simp [matchCrlf2]
    · simp only [List.cons_append]
      unfold matchCrlf2
      split <;> simp_all
    · simp only [List.cons_append]
      unfold matchCrlf2
      split <;> simp_all
    · simp only [List.cons_append]
      unfold matchCrlf2
      split <;> simp_all

theorem matchDigitsX_le : ∀ (b : Bytes) (seen : Bool) (e : Nat), matchDigitsX seen b = some e → e ≤ b.length := by
  intro b
  induction b with
  | nil => intro seen e h; simp [matchDigitsX] at h
  | cons c cs ih =>
    intro seen e h
    simp only [matchDigitsX] at h
    split at h
    · cases hr : matchDigitsX true cs with
      | none => simp [hr] at h
      | some e' => simp [hr] at h; subst h; have := ih true e' hr; simp only [List.length_cons]; omega
    · split at h
      · simp at h; subst h; simp
      · simp at h

theorem matchDigitsX_take : ∀ (b : Bytes) (seen : Bool) (e k : Nat), matchDigitsX seen b = some e → e ≤ k →
    matchDigitsX seen (b.take k) = some e := by
  intro b
  induction b with
  | nil => intro seen e k h; simp [matchDigitsX] at h
  | cons c cs ih =>
    intro seen e k h hk
    have hpos : 1 ≤ e := by
      simp only [matchDigitsX] at h
      split at h
      · cases hr : matchDigitsX true cs with
        | none => simp [hr] at h
        | some e' => simp [hr] at h; omega
      · split at h
        · simp at h; omega
        · simp at h
    obtain ⟨k', rfl⟩ : ∃ k', k = k' + 1 := ⟨k - 1, by omega⟩
    simp only [List.take_succ_cons]
    simp only [matchDigitsX] at h ⊢
    split at h
    · rename_i hd
      cases hr : matchDigitsX true cs with
      | none => simp [hr] at h
      | some e' =>
        simp [hr] at h; subst h
        simp [hd, ih true e' k' hr (by omega)]
    · rename_i hd
      split at h
      · rename_i hx; simp at h; subst h; simp [hd, hx]
      · simp at h

theorem matchDigitsX_app : ∀ (b c : Bytes) (seen : Bool) (e : Nat), matchDigitsX seen b = some e →
    matchDigitsX seen (b ++ c) = some e := by
  intro b
  induction b with
  | nil => intro c seen e h; simp [matchDigitsX] at h
  | cons x xs ih =>
    intro c seen e h
    simp only [List.cons_append]
    simp only [matchDigitsX] at h ⊢
    split at h
    · rename_i hd
      cases hr : matchDigitsX true xs with
      | none => simp [hr] at h
      | some e' => simp [hr] at h; subst h; simp [hd, ih c true e' hr]
    · rename_i hd
      split at h
      · rename_i hx; simp at h; subst h; simp [hd, hx]
      · simp at h

theorem matchDigitsX_local : MLocal (matchDigitsX false) :=
  ⟨fun b e h => matchDigitsX_le b false e h, fun b e k h hk => matchDigitsX_take b false e k h hk,
   fun b c e h => matchDigitsX_app b c false e h⟩

/-- a start position whose match is still incomplete excludes a complete match at a later start inside the buffer:
    what makes the LEFTMOST match stable when more bytes arrive -/
def NoOverlap (m : Bytes → Option Nat) : Prop :=
  ∀ x xs c e, m (x :: xs) = none → m (x :: (xs ++ c)) = some e → searchWith m xs = none

theorem searchWith_app {m : Bytes → Option Nat} (h : MLocal m) (hn : NoOverlap m) :
    ∀ b c e, searchWith m b = some e → searchWith m (b ++ c) = some e := by
  intro b
  induction b with
  | nil =>
    intro c e he
    have h0 : m [] = some e := he
    have := h.app [] c e h0
    cases c with
    | nil => exact he
    | cons y ys =>
      simp only [List.nil_append] at this ⊢
      simp [searchWith, this]
  | cons x xs ih =>
    intro c e he
    simp only [searchWith] at he
    split at he
    · rename_i e' hm
      cases he
      have := h.app _ c _ hm
      simp only [List.cons_append] at this ⊢
      simp [searchWith, this]
    · rename_i hnone
      cases hs : searchWith m xs with
      | none => simp [hs] at he
      | some e' =>
        simp [hs] at he; subst he
        have hn' : m (x :: (xs ++ c)) = none := by
          cases hq : m (x :: (xs ++ c)) with
          | none => rfl
          | some e2 =>
            have := hn x xs c e2 hnone hq
            rw [hs] at this; cases this
        simp only [List.cons_append]
        simp [searchWith, hn', ih c e' hs]

theorem digits_of_partial : ∀ (l c : Bytes) (seen : Bool) (e : Nat), matchDigitsX seen l = none →
    matchDigitsX seen (l ++ c) = some e → l.all isDigit = true := by
  intro l
  induction l with
  | nil => intro c seen e _ _; rfl
  | cons a as ih =>
    intro c seen e h1 h2
    simp only [List.cons_append] at h2
    simp only [matchDigitsX] at h1 h2
    split at h1
    · rename_i hd
      rw [if_pos hd] at h2
      cases hr : matchDigitsX true as with
      | some e' => simp [hr] at h1
      | none =>
        cases hr2 : matchDigitsX true (as ++ c) with
        | none => simp [hr2] at h2
        | some e2 => simp [List.all_cons, hd, ih c true e2 hr hr2]
    · rename_i hd
      rw [if_neg hd] at h2
      split at h1
      · simp at h1
      · rename_i hx; rw [if_neg hx] at h2; simp at h2

theorem digits_no_match : ∀ (l : Bytes), l.all isDigit = true → ∀ seen, matchDigitsX seen l = none := by
  intro l
  induction l with
  | nil => intro _ seen; rfl
  | cons a as ih =>
    intro h seen
    simp only [List.all_cons, Bool.and_eq_true] at h
    simp [matchDigitsX, h.1, ih h.2 true]

theorem digits_no_search : ∀ (l : Bytes), l.all isDigit = true → searchWith (matchDigitsX false) l = none := by
  intro l
  induction l with
  | nil => intro _; rfl
  | cons a as ih =>
    intro h
    have h' := h
    simp only [List.all_cons, Bool.and_eq_true] at h'
    simp [searchWith, digits_no_match (a :: as) h false, ih h'.2]

theorem matchDigitsX_noOverlap : NoOverlap (matchDigitsX false) := by
  intro x xs c e h1 h2
  have := digits_of_partial (x :: xs) c false e h1 (by simpa using h2)
  simp only [List.all_cons, Bool.and_eq_true] at this
  exact digits_no_search xs this.2

theorem matchCrlf2_one (b : Nat) : matchCrlf2 [b] = none := by
  unfold matchCrlf2; split <;> simp_all

theorem matchCrlf2_two (a b : Nat) (e : Nat) (h : matchCrlf2 [a, b] = some e) : a = 10 ∧ b = 10 := by
  unfold matchCrlf2 at h; split at h <;> simp_all

theorem matchCrlf2_noOverlap : NoOverlap matchCrlf2 := by
  intro x xs c e h1 h2
  have hle : e ≤ 4 := by
    unfold matchCrlf2 at h2; split at h2 <;> simp at h2 <;> omega
  have hgt : (x :: xs).length < e := by
    apply Nat.lt_of_not_le
    intro hge
    have := matchCrlf2_local.take _ _ (x :: xs).length h2 hge
    rw [show (x :: (xs ++ c)).take (x :: xs).length = x :: xs by simp] at this
    rw [h1] at this; cases this
  match xs, h1, h2, hgt with
  | [], _, _, _ => rfl
  | [a], _, _, _ => simp [searchWith, matchCrlf2_one]; rfl
  | [a, b], h1, h2, _ =>
    have hab : matchCrlf2 [a, b] = none := by
      cases hq : matchCrlf2 [a, b] with
      | none => rfl
      | some e' =>
        exfalso
        obtain ⟨rfl, rfl⟩ := matchCrlf2_two a b e' hq
        simp only [List.cons_append, List.nil_append] at h2
        unfold matchCrlf2 at h1 h2
        split at h1 <;> split at h2 <;> simp_all
    simp [searchWith, hab, matchCrlf2_one]; rfl
  | a :: b :: d :: rest, _, _, hgt => simp at hgt; omega

/-- the engine used by the tie is prefix-stable: a first match stays the first match when more bytes arrive -/
theorem stdR_stable : RStable stdR := by
  intro id b c e h
  match id, h with
  | 0, h => exact searchWith_app matchCrlf2_local matchCrlf2_noOverlap b c e h
  | 1, h => exact searchWith_app matchDigitsX_local matchDigitsX_noOverlap b c e h
  | n + 2, h => simp [stdR] at h

/-- the engine used by the tie satisfies the locality hypothesis of the contract theorems -/
theorem stdR_local : RLocal stdR := by
  intro id b e h
  match id, h with
  | 0, h => exact ⟨searchWith_le matchCrlf2_local b e h, fun k hk => searchWith_take matchCrlf2_local b e k h hk⟩
  | 1, h => exact ⟨searchWith_le matchDigitsX_local b e h, fun k hk => searchWith_take matchDigitsX_local b e k h hk⟩
  | n + 2, h => simp [stdR] at h

end TornadoModel.C11
