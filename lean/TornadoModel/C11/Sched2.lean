/-
C11 — arbitrary interleavings of arrivals and stable read requests (part 2: one step).
-/
import TornadoModel.C11.Sched
namespace TornadoModel.C11
open Spec (withinMax)
variable (R : Nat → Bytes → Option Nat)

/-- the pending / just issued request `f` is completed in this step with the bytes `specPos` selects -/
def Done (c m : Nat) (s' : St) (evs : List Ev) (flat : Bytes) (f : Nat) (r : Option Nat) : Prop :=
  ∃ p, r = some p ∧ p ≤ flat.length ∧ OpenSt c m s' (flat.drop p) ∧ s'.rfut = none ∧
    evs = [.settle f (.bytes (flat.take p))]

/-- the request stays pending, nothing is handed out -/
def Wait (c m : Nat) (s' : St) (evs : List Ev) (flat : Bytes) (op : Op) (f : Nat) : Prop :=
  OpenSt c m s' flat ∧ PendSt s' op f ∧ evs = []

theorem evState_open {c m : Nat} {s : St} {flat : Bytes} (o : OpenSt c m s flat) : OpenSt c m (evState s) flat := by
  have r : RS s (evState s) := ⟨rfl, rfl, rfl, rfl, rfl, rfl, rfl, rfl, rfl, rfl⟩
  exact o.same (r.inv o.inv) rfl rfl rfl rfl rfl rfl rfl rfl rfl rfl

theorem addIo_open {c m : Nat} {s : St} {flat : Bytes} (o : OpenSt c m s flat) (r w : Bool) :
    OpenSt c m (addIo s r w) flat := by
  have e : addIo s r w = { s with io := (addIo s r w).io } := by
    unfold addIo; split
    · rfl
    · split <;> rfl
  rw [e]
  have rs : RS s { s with io := (addIo s r w).io } := ⟨rfl, rfl, rfl, rfl, rfl, rfl, rfl, rfl, rfl, rfl⟩
  exact o.same (rs.inv o.inv) rfl rfl rfl rfl rfl rfl rfl rfl rfl rfl

theorem addIo_pend {s : St} {op : Op} {f : Nat} (p : PendSt s op f) (r w : Bool) : PendSt (addIo s r w) op f := by
  have e : addIo s r w = { s with io := (addIo s r w).io } := by
    unfold addIo; split
    · rfl
    · split <;> rfl
  rw [e]
  exact p.same rfl rfl rfl rfl rfl rfl

/-- `_handle_read` with a pending stable read -/
theorem handleRead_pend (hS : RStable R) (hL : RLocal R) (c m : Nat) (hc : 0 < c) (s : St) (flat rest : Bytes) (op : Op)
    (f : Nat) (o : OpenSt c m s flat) (pd : PendSt s op f) (hm : flat.length ≤ m) (r : Option Nat)
    (hr : specPos R op (flat ++ rest) = some r) :
    ∃ s2, handleRead R s = (s2, false) ∧ s2.nextId = s.nextId ∧
      ((∃ p, r = some p ∧ p ≤ flat.length ∧ OpenSt c m s2 (flat.drop p) ∧ s2.rfut = none ∧
          s2.out = s.out ++ [.settle f (.bytes (flat.take p))]) ∨
       (OpenSt c m s2 flat ∧ PendSt s2 op f ∧ s2.out = s.out)) := by
  unfold handleRead
  obtain ⟨s1, res, he, o1, p1, hout, hnid, _, hpost⟩ := loop_resolve R c m hc s flat op f o pd hm
  have hv := verdict R hS hL s1 flat rest op o1.flat p1.enc res hpost r hr
  rw [he]
  cases res with
  | raised r' => exact absurd hv id
  | pos q =>
    cases q with
    | none => exact ⟨s1, rfl, hnid, Or.inr ⟨o1, p1, hout⟩⟩
    | some p =>
      obtain ⟨hrp, hfind⟩ := hv
      obtain ⟨a, b, cc, d, e⟩ := rfb_open R hL c m s1 flat op f p o1 p1 hfind
      refine ⟨_, rfl, d.trans hnid, Or.inl ⟨p, hrp, ?_, a, b, by rw [cc, hout]⟩⟩
      have := congrArg List.length o1.flat
      simp only [List.length_append] at this
      omega

/-- `_handle_read` without a pending read -/
theorem handleRead_idle (c m : Nat) (hc : 0 < c) (s : St) (flat : Bytes) (o : OpenSt c m s flat) (hf : s.rfut = none)
    (hm : flat.length ≤ m) :
    ∃ s2, handleRead R s = (s2, false) ∧ OpenSt c m s2 flat ∧ s2.rfut = none ∧ s2.out = s.out ∧ s2.nextId = s.nextId := by
  unfold handleRead
  obtain ⟨s1, he, o1, hf1, hout, hnid⟩ := loop_idle R c m hc s flat o hf hm
  rw [he]
  exact ⟨s1, rfl, o1, hf1, hout, hnid⟩

/-- a READ event on an open stream: nothing (no handler), or `_handle_read` then re-registration -/
theorem dispatch_open (s : St) (hcl : s.closed = false) (hcn : s.connecting = false) (s2 : St)
    (hr : handleRead R s = (s2, false)) (hcl2 : s2.closed = false) :
    dispatch R s true false = s ∨ dispatch R s true false = evState s2 := by
  unfold dispatch
  cases hio : s.io with
  | none => left; rfl
  | some rw =>
    obtain ⟨r0, w0⟩ := rw
    cases r0 with
    | false => left; simp
    | true =>
      right
      simp [handleEvents, evConnect, evRead, evWrite, hcl, hcn, hr, hcl2]

/-- the transport side of a feed -/
def fedState (s : St) (b : Bytes) : St :=
  if b.isEmpty then { s with out := [] } else { s with out := [], inc := s.inc ++ [b] }

theorem step_feed_eq (s : St) (b : Bytes) :
    (step R s (.feed b)).1 = dispatch R (fedState s b) true false ∧
    (step R s (.feed b)).2.evs = (dispatch R (fedState s b) true false).out := ⟨rfl, rfl⟩

theorem fedState_open {c m : Nat} {s : St} {flat : Bytes} (o : OpenSt c m s flat) (b : Bytes) :
    OpenSt c m (fedState s b) (flat ++ b) ∧ (fedState s b).out = [] ∧ (fedState s b).rfut = s.rfut ∧
    (fedState s b).nextId = s.nextId := by
  unfold fedState
  by_cases hb : b.isEmpty = true
  · have : b = [] := by simpa using hb
    subst this
    simp only [List.isEmpty_nil, if_true, List.append_nil]
    have i0 : Inv { s with out := [] } := by
      obtain ⟨a, b, c, d, e⟩ := o.inv; exact ⟨a, b, c, d, e⟩
    exact ⟨o.same i0 rfl rfl rfl rfl rfl rfl rfl rfl rfl rfl, by first | rfl | trivial, by first | rfl | trivial, by first | rfl | trivial⟩
  · simp only [hb, Bool.false_eq_true, if_false]
    have i1 : Inv { s with out := [], inc := s.inc ++ [b] } := by
      obtain ⟨a, b, c, d, e⟩ := o.inv; exact ⟨a, b, c, d, e⟩
    refine ⟨⟨o.closed, o.eof, o.rerr, ?_, ?_, o.chunk, o.maxBuf, o.cb, o.connecting, o.user, i1⟩, by first | rfl | trivial, by first | rfl | trivial, by first | rfl | trivial⟩
    · simp only [List.flatten_append, List.flatten_cons, List.flatten_nil, List.append_nil]
      rw [← List.append_assoc, o.flat]
    · intro ch hch
      rcases List.mem_append.1 hch with h1 | h1
      · exact o.ne ch h1
      · simp at h1; subst h1; intro h0; subst h0; simp at hb

theorem fedState_pend {s : St} {op : Op} {f : Nat} (p : PendSt s op f) (b : Bytes) : PendSt (fedState s b) op f := by
  unfold fedState
  split <;> exact p.same rfl rfl rfl rfl rfl rfl

/-- **feed on an idle open stream** -/
theorem step_feed_idle2 (c m : Nat) (hc : 0 < c) (s : St) (flat : Bytes) (o : OpenSt c m s flat) (hf : s.rfut = none)
    (b : Bytes) (hm : (flat ++ b).length ≤ m) :
    OpenSt c m (step R s (.feed b)).1 (flat ++ b) ∧ (step R s (.feed b)).1.rfut = none ∧
    (step R s (.feed b)).2.evs = [] ∧ (step R s (.feed b)).1.nextId = s.nextId := by
  obtain ⟨e1, e2⟩ := step_feed_eq R s b
  rw [e1, e2]
  obtain ⟨o1, hout, hf1, hn1⟩ := fedState_open o b
  obtain ⟨s2, hr, o2, hf2, hout2, hn2⟩ := handleRead_idle R c m hc (fedState s b) (flat ++ b) o1 (hf1.trans hf) hm
  rcases dispatch_open R (fedState s b) o1.closed o1.connecting s2 hr o2.closed with h | h
  · rw [h]; exact ⟨o1, hf1.trans hf, hout, hn1⟩
  · rw [h]; exact ⟨evState_open o2, hf2, hout2.trans hout, hn2.trans hn1⟩

/-- **feed while a stable read is pending** -/
theorem step_feed_pend (hS : RStable R) (hL : RLocal R) (c m : Nat) (hc : 0 < c) (s : St) (flat rest : Bytes) (op : Op)
    (f : Nat) (o : OpenSt c m s flat) (pd : PendSt s op f) (b : Bytes) (hm : (flat ++ b).length ≤ m) (r : Option Nat)
    (hr : specPos R op ((flat ++ b) ++ rest) = some r) :
    Done c m (step R s (.feed b)).1 (step R s (.feed b)).2.evs (flat ++ b) f r ∨
    Wait c m (step R s (.feed b)).1 (step R s (.feed b)).2.evs (flat ++ b) op f := by
  obtain ⟨e1, e2⟩ := step_feed_eq R s b
  rw [e1, e2]
  obtain ⟨o1, hout, hf1, hn1⟩ := fedState_open o b
  have p1 := fedState_pend pd b
  obtain ⟨s2, hh, _, hcase⟩ := handleRead_pend R hS hL c m hc (fedState s b) (flat ++ b) rest op f o1 p1 hm r hr
  have hcl2 : s2.closed = false := by
    rcases hcase with ⟨p, _, _, o2, _, _⟩ | ⟨o2, _, _⟩
    · exact o2.closed
    · exact o2.closed
  rcases dispatch_open R (fedState s b) o1.closed o1.connecting s2 hh hcl2 with h | h
  · rw [h]; exact Or.inr ⟨o1, p1, hout⟩
  · rw [h]
    rcases hcase with ⟨p, hrp, hple, o2, hf2, hout2⟩ | ⟨o2, p2, hout2⟩
    · exact Or.inl ⟨p, hrp, hple, evState_open o2, hf2, by rw [show (evState s2).out = s2.out from rfl, hout2, hout]; rfl⟩
    · exact Or.inr ⟨evState_open o2, p2.same rfl rfl rfl rfl rfl rfl, by rw [show (evState s2).out = s2.out from rfl, hout2, hout]⟩

/-- **a stable read while another is pending** is rejected and changes nothing -/
theorem step_read_rej (c m : Nat) (s : St) (flat : Bytes) (op0 : Op) (f : Nat) (o : OpenSt c m s flat)
    (pd : PendSt s op0 f) (op : Op) (hst : stableRead op = true) :
    Wait c m (step R s op).1 (step R s op).2.evs flat op0 f := by
  have hs : ∃ r, startRead { s with out := [] } = .inl r := by
    simp only [startRead, pd.rfut]; split <;> exact ⟨_, rfl⟩
  obtain ⟨r, hr⟩ := hs
  have i0 : Inv { s with out := [] } := by
    obtain ⟨a, b, c, d, e⟩ := o.inv; exact ⟨a, b, c, d, e⟩
  have key : (step R s op).1 = { s with out := [] } ∧ (step R s op).2.evs = [] := by
    cases op with
    | readBytes n part => simp only [step, doStep, hr]; exact ⟨trivial, trivial⟩
    | readUntil d max => simp only [step, doStep, hr]; exact ⟨trivial, trivial⟩
    | readRegex rid max => simp only [step, doStep, hr]; exact ⟨trivial, trivial⟩
    | _ => simp [stableRead] at hst
  rw [key.1, key.2]
  exact ⟨o.same i0 rfl rfl rfl rfl rfl rfl rfl rfl rfl rfl, pd.same rfl rfl rfl rfl rfl rfl, rfl⟩

end TornadoModel.C11
