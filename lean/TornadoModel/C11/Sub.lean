/-
C11 — facts about `isPrefixOf` / `findSub` (bytearray.find): the first occurrence is stable under extending the
haystack and under cutting it anywhere behind the end of the occurrence.
-/
import TornadoModel.C11.Lemmas
namespace TornadoModel.C11

theorem isPrefixOf_nil (l : Bytes) : isPrefixOf [] l = true := by
  cases l <;> rfl

theorem isPrefixOf_iff : ∀ (d l : Bytes), isPrefixOf d l = true ↔ ∃ t, l = d ++ t := by
  intro d
  induction d with
  | nil => intro l; simp [isPrefixOf_nil]
  | cons a as ih =>
    intro l
    cases l with
    | nil => simp [isPrefixOf]
    | cons b bs =>
      simp only [isPrefixOf, Bool.and_eq_true, beq_iff_eq, ih bs, List.cons_append, List.cons.injEq]
      constructor
      · rintro ⟨rfl, t, rfl⟩; exact ⟨t, rfl, rfl⟩
      · rintro ⟨t, rfl, rfl⟩; exact ⟨rfl, t, rfl⟩

theorem isPrefixOf_length {d l : Bytes} (h : isPrefixOf d l = true) : d.length ≤ l.length := by
  obtain ⟨t, rfl⟩ := (isPrefixOf_iff d l).1 h
  simp

theorem isPrefixOf_append {d l : Bytes} (c : Bytes) (h : isPrefixOf d l = true) : isPrefixOf d (l ++ c) = true := by
  obtain ⟨t, rfl⟩ := (isPrefixOf_iff d l).1 h
  exact (isPrefixOf_iff _ _).2 ⟨t ++ c, by simp⟩

theorem isPrefixOf_take {d l : Bytes} (k : Nat) (hk : d.length ≤ k) (h : isPrefixOf d l = true) :
    isPrefixOf d (l.take k) = true := by
  obtain ⟨t, rfl⟩ := (isPrefixOf_iff d l).1 h
  refine (isPrefixOf_iff _ _).2 ⟨t.take (k - d.length), ?_⟩
  rw [List.take_append]
  rw [List.take_of_length_le hk]

theorem isPrefixOf_of_take {d l : Bytes} (k : Nat) (h : isPrefixOf d (l.take k) = true) : isPrefixOf d l = true := by
  obtain ⟨t, ht⟩ := (isPrefixOf_iff d _).1 h
  refine (isPrefixOf_iff _ _).2 ⟨t ++ l.drop k, ?_⟩
  rw [← List.append_assoc, ← ht, List.take_append_drop]

/-- an occurrence at the very front is the first one -/
theorem findSub_zero {d l : Bytes} (h : isPrefixOf d l = true) : findSub d l = some 0 := by
  cases l with
  | nil =>
    cases d with
    | nil => rfl
    | cons a as => simp [isPrefixOf] at h
  | cons b bs => simp [findSub, h]

theorem findSub_bound : ∀ (d l : Bytes) (loc : Nat), findSub d l = some loc → loc + d.length ≤ l.length := by
  intro d l
  induction l with
  | nil =>
    intro loc h
    cases d with
    | nil => simp [findSub] at h; subst h; simp
    | cons a as => simp [findSub] at h
  | cons b bs ih =>
    intro loc h
    simp only [findSub] at h
    split at h
    · rename_i hp
      simp at h; subst h
      have := isPrefixOf_length hp
      simpa using this
    · cases hf : findSub d bs with
      | none => simp [hf] at h
      | some l' =>
        simp [hf] at h; subst h
        have := ih l' hf
        simp only [List.length_cons]; omega

/-- the occurrence found is really there … -/
theorem findSub_occ : ∀ (d l : Bytes) (loc : Nat), findSub d l = some loc → isPrefixOf d (l.drop loc) = true := by
  intro d l
  induction l with
  | nil =>
    intro loc h
    cases d with
    | nil => simp [isPrefixOf_nil]
    | cons a as => simp [findSub] at h
  | cons b bs ih =>
    intro loc h
    simp only [findSub] at h
    split at h
    · rename_i hp; simp at h; subst h; simpa using hp
    · cases hf : findSub d bs with
      | none => simp [hf] at h
      | some l' => simp [hf] at h; subst h; simpa using ih l' hf

/-- … and there is none before it -/
theorem findSub_first : ∀ (d l : Bytes) (loc : Nat), findSub d l = some loc →
    ∀ j, j < loc → isPrefixOf d (l.drop j) = false := by
  intro d l
  induction l with
  | nil =>
    intro loc h j hj
    cases d with
    | nil => simp [findSub] at h; omega
    | cons a as => simp [findSub] at h
  | cons b bs ih =>
    intro loc h j hj
    simp only [findSub] at h
    split at h
    · simp at h; omega
    · rename_i hp
      cases hf : findSub d bs with
      | none => simp [hf] at h
      | some l' =>
        simp [hf] at h; subst h
        cases j with
        | zero => simpa using hp
        | succ j' => simpa using ih l' hf j' (by omega)

/-- extending the haystack keeps the first occurrence (`bytearray.find` on a longer buffer) -/
theorem findSub_append : ∀ (d l c : Bytes) (loc : Nat), findSub d l = some loc → findSub d (l ++ c) = some loc := by
  intro d l
  induction l with
  | nil =>
    intro c loc h
    cases d with
    | nil => simp [findSub] at h; subst h; exact findSub_zero (isPrefixOf_nil _)
    | cons a as => simp [findSub] at h
  | cons b bs ih =>
    intro c loc h
    simp only [findSub] at h
    split at h
    · rename_i hp
      simp at h; subst h
      exact findSub_zero (isPrefixOf_append c hp)
    · rename_i hp
      cases hf : findSub d bs with
      | none => simp [hf] at h
      | some l' =>
        simp [hf] at h; subst h
        have hnp : isPrefixOf d (b :: (bs ++ c)) = false := by
          cases hq : isPrefixOf d (b :: (bs ++ c)) with
          | false => rfl
          | true =>
            exfalso
            -- the occurrence at 0 would lie inside `b :: bs` because a later one already fits
            have hb := findSub_bound d bs l' hf
            have := isPrefixOf_take (l := b :: (bs ++ c)) (bs.length + 1) (by omega) hq
            rw [show (b :: (bs ++ c)).take (bs.length + 1) = b :: bs by simp] at this
            exact hp this
        simp [findSub, hnp, ih c l' hf]

/-- cutting the haystack anywhere behind the end of the first occurrence keeps it -/
theorem findSub_take : ∀ (d l : Bytes) (loc k : Nat), findSub d l = some loc → loc + d.length ≤ k →
    findSub d (l.take k) = some loc := by
  intro d l
  induction l with
  | nil => intro loc k h _; simpa using h
  | cons b bs ih =>
    intro loc k h hk
    simp only [findSub] at h
    split at h
    · rename_i hp
      simp at h; subst h
      exact findSub_zero (isPrefixOf_take k (by omega) hp)
    · rename_i hp
      cases hf : findSub d bs with
      | none => simp [hf] at h
      | some l' =>
        simp [hf] at h; subst h
        obtain ⟨k', rfl⟩ : ∃ k', k = k' + 1 := ⟨k - 1, by omega⟩
        have hnp : isPrefixOf d (b :: bs.take k') = false := by
          cases hq : isPrefixOf d (b :: bs.take k') with
          | false => rfl
          | true =>
            exfalso
            have : isPrefixOf d ((b :: bs).take (k' + 1)) = true := by simpa using hq
            exact hp (isPrefixOf_of_take _ this)
        simp [findSub, hnp, ih l' k' hf (by omega)]

/-- conversely an occurrence found in a cut haystack is the first one of the whole -/
theorem findSub_of_take (d l : Bytes) (loc k : Nat) (h : findSub d (l.take k) = some loc) : findSub d l = some loc := by
  have := findSub_append d (l.take k) (l.drop k) loc h
  rwa [List.take_append_drop] at this

end TornadoModel.C11
