/-
C11 — `Ok` (see `Contract.lean`) is preserved by every function of the stream machine.
-/
import TornadoModel.C11.Contract
namespace TornadoModel.C11
open Spec (Req contractOk lenOk withinMax)
variable (R : Nat → Bytes → Option Nat)

theorem readFromBuffer_ok (hR : RLocal R) (s : St) (i : Inv s) {pq : Option (Nat × Req)} {N : Nat} (o : Ok R pq N s)
    (p : Nat) (h : findReadPos R s = some (some p)) :
    Ok R pq N (readFromBuffer s p) := by
  unfold readFromBuffer
  refine (finishRead_ok R { s with rbytes := none, rdelim := none, rregex := none, rpartial := false } p pq N
    o.evs o.nid ?_).1
  intro f hf
  obtain ⟨q, hq, m⟩ := o.pend f hf
  exact ⟨q, hq, contract_of_find R hR s i q m p h⟩

theorem clearRead_ok (s : St) {pq : Option (Nat × Req)} {N : Nat} (o : Ok R pq N s) : Ok R pq N (clearRead s) := by
  unfold clearRead
  cases hf : s.rfut with
  | none => exact o
  | some f => exact ⟨o.evs, fun f' hf' => by simp at hf', o.nid⟩

theorem signalClosed_rs2 (s : St) : RS2 (clearRead s) (signalClosed s) := by
  unfold signalClosed
  have h0 : RS2 (clearRead s) { clearRead s with wfuts := [], cfut := none } :=
    rs2_of_eq rfl rfl rfl rfl rfl rfl rfl rfl rfl rfl rfl rfl rfl
  have h4 := RS2.trans h0 (failAll_rs2 ({ clearRead s with wfuts := [], cfut := none } : St).error
    (readFutL s ++ s.wfuts.map (·.2) ++ connFutL s) { clearRead s with wfuts := [], cfut := none })
  simp only []
  generalize failAll ({ clearRead s with wfuts := [], cfut := none } : St).error
    { clearRead s with wfuts := [], cfut := none } (readFutL s ++ s.wfuts.map (·.2) ++ connFutL s) = s4 at h4 ⊢
  split
  · refine RS2.trans h4 ⟨⟨rfl, rfl, rfl, rfl, rfl, rfl, rfl, rfl, rfl, by simp [St.emit, evBytes_append, evBytes]⟩,
      rfl, rfl, rfl, by simp [St.emit, dataEvs_append, dataEvs]⟩
  · exact h4

theorem signalClosed_ok (s : St) {pq : Option (Nat × Req)} {N : Nat} (o : Ok R pq N s) : Ok R pq N (signalClosed s) :=
  (signalClosed_rs2 s).ok R (clearRead_ok R s o)

theorem setError_rs2 (s : St) (e : Option ErrK) : RS2 s (setError s e) := by
  unfold setError
  cases e with
  | none => exact RS2.refl s
  | some k => exact rs2_of_eq rfl rfl rfl rfl rfl rfl rfl rfl rfl rfl rfl rfl rfl

theorem completeAtClose_ok (hR : RLocal R) (s : St) (i : Inv s) {pq : Option (Nat × Req)} {N : Nat} (o : Ok R pq N s) :
    Ok R pq N (completeAtClose R s) := by
  unfold completeAtClose
  split
  · rename_i hr
    have hp := i.ruc hr
    refine (finishRead_ok R { s with ruc := false } s.buf.length pq N o.evs o.nid ?_).1
    intro f hf
    obtain ⟨q, hq, m⟩ := o.pend f hf
    refine ⟨q, hq, ?_⟩
    have hu : s.user = none := hp.2.2.2
    cases q <;> simp only [Match] at m <;> simp_all [finRes, contractOk]
  · split
    · split
      · rename_i p hp; exact readFromBuffer_ok R hR s i o p hp
      · exact o
    · exact o

theorem close_ok (hR : RLocal R) (s : St) (i : Inv s) {pq : Option (Nat × Req)} {N : Nat} (o : Ok R pq N s)
    (e : Option ErrK) : Ok R pq N (close R s e) := by
  unfold close
  split
  · exact signalClosed_ok R s o
  · have o2 := completeAtClose_ok R hR (setError s e) ((setError_rs s e).inv i) ((setError_rs2 s e).ok R o)
    generalize completeAtClose R (setError s e) = s2 at o2
    have o3 : Ok R pq N { s2 with io := none, closed := true } :=
      ⟨o2.evs, fun f hf => by
        obtain ⟨q, hq, m⟩ := o2.pend f hf
        exact ⟨q, hq, by cases q <;> exact m⟩, o2.nid⟩
    exact signalClosed_ok R _ o3

theorem pull_ok (s : St) {pq : Option (Nat × Req)} {N : Nat} (o : Ok R pq N s) (c : Bytes) (rest : List Bytes) (k : Nat) :
    Ok R pq N (pull s c rest k) :=
  ⟨o.evs, fun f hf => by
    obtain ⟨q, hq, m⟩ := o.pend f hf
    exact ⟨q, hq, by cases q <;> exact m⟩, o.nid⟩

theorem readToBuffer_ok (hR : RLocal R) (s : St) (i : Inv s) {pq : Option (Nat × Req)} {N : Nat} (o : Ok R pq N s) :
    Ok R pq N (readToBuffer R s).1 := by
  unfold readToBuffer
  split
  · rename_i c rest hinc
    split
    · exact close_ok R hR s i o none
    · have hp := pull_pres s i c rest hinc
      split
      · exact close_ok R hR _ hp.1 (pull_ok R s o c rest _) none
      · exact pull_ok R s o c rest _
  · split
    · have r : RS2 s { s with rerr := none } := rs2_of_eq rfl rfl rfl rfl rfl rfl rfl rfl rfl rfl rfl rfl rfl
      exact close_ok R hR _ (r.rs.inv i) (r.ok R o) _
    · split
      · exact close_ok R hR s i o none
      · exact o

theorem loopGo_ok (hR : RLocal R) (target : Option Nat) {pq : Option (Nat × Req)} {N : Nat} :
    ∀ (fuel nf : Nat) (s : St), Inv s → Ok R pq N s → Ok R pq N (loopGo R target fuel nf s).1 := by
  intro fuel
  induction fuel with
  | zero =>
    intro nf s i o
    unfold loopGo
    rw [findFinal_fst]; exact o
  | succ fuel ih =>
    intro nf s i o
    unfold loopGo
    split
    · rw [findFinal_fst]; exact o
    · have hp := readToBuffer_pres R s i
      have ho := readToBuffer_ok R hR s i o
      generalize readToBuffer R s = rt at hp ho ⊢
      obtain ⟨s1, x⟩ := rt
      cases x
      case zero => dsimp only; rw [findFinal_fst]; exact ho
      case raised r => dsimp only; exact ho
      all_goals
        dsimp only
        split
        · rw [findFinal_fst]; exact ho
        · split
          · split
            · exact ho
            · exact ho
            · exact ih (s1.buf.length * 2) s1 hp.1 ho
          · exact ih nf s1 hp.1 ho

theorem readLoop_ok (hR : RLocal R) (s : St) (i : Inv s) {pq : Option (Nat × Req)} {N : Nat} (o : Ok R pq N s) :
    Ok R pq N (readLoop R s).1 := by
  unfold readLoop
  exact loopGo_ok R hR _ _ _ s i o

theorem handleRead_ok (hR : RLocal R) (s : St) (i : Inv s) {pq : Option (Nat × Req)} {N : Nat} (o : Ok R pq N s) :
    Ok R pq N (handleRead R s).1 := by
  unfold handleRead
  obtain ⟨hp, hpos⟩ := readLoop_pres R s i
  have ho := readLoop_ok R hR s i o
  split
  · rename_i s1 heq; rw [heq] at ho; exact ho
  · rename_i s1 heq; rw [heq] at hp ho; exact close_ok R hR _ hp.1 ho _
  · rename_i s1 r heq; rw [heq] at hp ho; exact close_ok R hR _ hp.1 ho _
  · rename_i s1 p heq
    rw [heq] at hp hpos ho
    exact readFromBuffer_ok R hR s1 hp.1 ho p (hpos p rfl)
  · rename_i s1 heq; rw [heq] at ho; exact ho

theorem handleWrite_ok (hR : RLocal R) (s : St) (i : Inv s) {pq : Option (Nat × Req)} {N : Nat} (o : Ok R pq N s) :
    Ok R pq N (handleWrite R s) := by
  unfold handleWrite
  split
  · exact (resolveWrites_rs2 _ s).ok R o
  · split
    · have r : RS2 s { s with wdone := s.wdone + s.wpend, wpend := 0 } :=
        rs2_of_eq rfl rfl rfl rfl rfl rfl rfl rfl rfl rfl rfl rfl rfl
      exact (RS2.trans r (resolveWrites_rs2 _ _)).ok R o
    · exact (resolveWrites_rs2 _ s).ok R o
    · exact close_ok R hR s i o _

theorem handleConnect_ok (hR : RLocal R) (s : St) (i : Inv s) {pq : Option (Nat × Req)} {N : Nat} (o : Ok R pq N s) :
    Ok R pq N (handleConnect R s) := by
  unfold handleConnect
  split
  · have r : RS2 s { s with error := ‹ErrK› } := rs2_of_eq rfl rfl rfl rfl rfl rfl rfl rfl rfl rfl rfl rfl rfl
    exact close_ok R hR _ (r.rs.inv i) (r.ok R o) _
  · split
    · have r : RS2 s { (({ s with cfut := none } : St).emit (.settle ‹Nat› .stream)) with connecting := false } :=
        ⟨⟨rfl, rfl, rfl, rfl, rfl, rfl, rfl, rfl, rfl, by simp [St.emit, evBytes_append, evBytes]⟩, rfl, rfl, rfl,
          by simp [St.emit, dataEvs_append, dataEvs]⟩
      exact r.ok R o
    · have r : RS2 s { s with connecting := false } := rs2_of_eq rfl rfl rfl rfl rfl rfl rfl rfl rfl rfl rfl rfl rfl
      exact r.ok R o

theorem evWrite_ok (hR : RLocal R) (s : St) (i : Inv s) {pq : Option (Nat × Req)} {N : Nat} (o : Ok R pq N s) (w : Bool) :
    Ok R pq N (evWrite R s w) := by
  have h : Ok R pq N (if w = true then handleWrite R s else s) := by
    split
    · exact handleWrite_ok R hR s i o
    · exact o
  unfold evWrite
  generalize (if w = true then handleWrite R s else s) = s3 at h
  split
  · exact o
  · split
    · exact h
    · have r : RS2 s3 (evState s3) := rs2_of_eq rfl rfl rfl rfl rfl rfl rfl rfl rfl rfl rfl rfl rfl
      exact r.ok R h

theorem handleEvents_ok (hR : RLocal R) (s : St) (i : Inv s) {pq : Option (Nat × Req)} {N : Nat} (o : Ok R pq N s)
    (r w : Bool) : Ok R pq N (handleEvents R s r w) := by
  have hc : Pres s (evConnect R s) ∧ Ok R pq N (evConnect R s) := by
    unfold evConnect; split
    · exact ⟨handleConnect_pres R s i, handleConnect_ok R hR s i o⟩
    · exact ⟨Pres.refl i, o⟩
  unfold handleEvents
  generalize evConnect R s = s1 at hc
  split
  · exact o
  · split
    · exact hc.2
    · have hr : Pres s1 (evRead R s1 r).1 ∧ Ok R pq N (evRead R s1 r).1 := by
        unfold evRead; split
        · exact ⟨handleRead_pres R s1 hc.1.1, handleRead_ok R hR s1 hc.1.1 hc.2⟩
        · exact ⟨Pres.refl hc.1.1, hc.2⟩
      generalize evRead R s1 r = x at hr
      obtain ⟨s2, u⟩ := x
      cases u
      · exact evWrite_ok R hR s2 hr.1.1 hr.2 w
      · exact close_ok R hR s2 hr.1.1 hr.2 _

theorem dispatch_ok (hR : RLocal R) (s : St) (i : Inv s) {pq : Option (Nat × Req)} {N : Nat} (o : Ok R pq N s)
    (r w : Bool) : Ok R pq N (dispatch R s r w) := by
  unfold dispatch
  split
  · split
    · exact handleEvents_ok R hR s i o _ _
    · exact o
  · exact o

theorem tryInlineRead_ok (hR : RLocal R) (s : St) (i : Inv s) {pq : Option (Nat × Req)} {N : Nat} (o : Ok R pq N s) :
    Ok R pq N (tryInlineRead R s).1 := by
  unfold tryInlineRead
  split
  · exact o
  · rename_i p hp; exact readFromBuffer_ok R hR s i o p hp
  · split
    · exact o
    · obtain ⟨hp, hpos⟩ := readLoop_pres R s i
      have ho := readLoop_ok R hR s i o
      generalize readLoop R s = x at hp hpos ho
      obtain ⟨s1, res⟩ := x
      cases res with
      | raised r => exact ho
      | pos q =>
        cases q with
        | none => exact (addIo_rs2 s1 _ _).ok R ho
        | some p => exact readFromBuffer_ok R hR s1 hp.1 ho p (hpos p rfl)

theorem finishInline_ok (hR : RLocal R) (s : St) (i : Inv s) {pq : Option (Nat × Req)} {N : Nat} (o : Ok R pq N s)
    (c : Bool) (f : Nat) : Ok R pq N (finishInline R c s f).1 := by
  unfold finishInline
  have hp := tryInlineRead_pres R s i
  have ho := tryInlineRead_ok R hR s i o
  generalize tryInlineRead R s = x at hp ho
  obtain ⟨s1, res⟩ := x
  cases res with
  | none => exact ho
  | some r =>
    cases r <;> try exact ho
    dsimp only
    split
    · exact close_ok R hR s1 hp.1 ho _
    · exact ho

end TornadoModel.C11
