/-
C11/C13 — executable model of `tornado.iostream.BaseIOStream` (read side, close path, minimal write/connect
futures) running over the scripted transport `harness/core/faketransport.py` (`FakeStream`).

Everything is a total function over `List Nat` (bytes as naturals).  The regular-expression engine is a
parameter `R : Nat → List Nat → Option Nat` (regex id ↦ end of the first match in the buffer).

The model is of the code AS IT IS in the tree under test *after* the `fix:` commit for defect D23
(`_signal_closed` forgets the parameters of the read it fails and gives a `read_into` buffer back).
-/
namespace TornadoModel.C11

abbrev Bytes := List Nat

/-- kinds of `stream.error` / causes -/
inductive ErrK where
  | none      -- `error is None`
  | reset     -- ConnectionResetError(ECONNRESET) raised by the transport read
  | oserr     -- OSError(EIO) raised by the transport read
  | unsat     -- UnsatisfiableReadError
  | custom    -- the exception object given to `close(exc_info=exc)`
  | epipe     -- BrokenPipeError(EPIPE) raised by the transport write
  | wioerr    -- OSError(EIO) raised by the transport write
  | refused   -- connect failure (SO_ERROR = ECONNREFUSED)
  deriving DecidableEq, Repr, Inhabited

/-- what a call raised to its caller -/
inductive Raised where
  | streamClosed (real : ErrK)
  | unsat
  | oserr
  | bufferFull
  | already        -- AssertionError("Already reading")
  deriving DecidableEq, Repr

inductive Outcome where
  | bytes (b : Bytes)             -- read_bytes / read_until / read_until_regex / read_until_close
  | into (k : Nat) (b : Bytes)    -- read_into: the int result and the first k bytes of the caller's buffer
  | unit                          -- write
  | stream                        -- connect
  | closedErr (real : ErrK)       -- StreamClosedError(real_error=…)
  deriving DecidableEq, Repr

inductive Ev where
  | settle (fid : Nat) (o : Outcome)
  | cb                            -- the close callback was handed to the loop (runs once, later in the same drain)
  deriving DecidableEq, Repr

inductive WMode where
  | accept                        -- write_to_fd takes everything
  | block                         -- write_to_fd raises BlockingIOError
  | fail (k : ErrK)               -- write_to_fd raises an OSError
  deriving DecidableEq, Repr

structure St where
  -- configuration
  chunk : Nat := 65536
  maxBuf : Nat := 104857600
  -- read side
  buf : Bytes := []                 -- `_read_buffer[:_read_buffer_size]`
  user : Option Nat := none         -- `_user_read_buffer`: length of the caller's buffer
  rbytes : Option Nat := none
  rpartial : Bool := false
  rdelim : Option Bytes := none
  rregex : Option Nat := none
  rmax : Option Nat := none
  ruc : Bool := false               -- `_read_until_close`
  rfut : Option Nat := none
  -- life cycle
  nextId : Nat := 0
  closed : Bool := false
  error : ErrK := .none
  io : Option (Bool × Bool) := none -- `_state`: registered handler (READ?, WRITE?); ERROR always on
  cb : Bool := false                -- `_close_callback is not None`
  -- write side (sizes only) and connect
  wpend : Nat := 0
  wtotal : Nat := 0
  wdone : Nat := 0
  wfuts : List (Nat × Nat) := []    -- (index, future id)
  connecting : Bool := false
  cfut : Option Nat := none
  -- transport (FakeStream)
  inc : List Bytes := []
  eof : Bool := false
  rerr : Option ErrK := none
  wmode : WMode := .accept
  cerr : Option ErrK := none
  -- events produced by the current step
  out : List Ev := []
  deriving Repr

def St.emit (s : St) (e : Ev) : St := { s with out := s.out ++ [e] }

/-! ### bytes helpers -/

def isPrefixOf : Bytes → Bytes → Bool
  | [], _ => true
  | _ :: _, [] => false
  | a :: as, b :: bs => a == b && isPrefixOf as bs

/-- `bytearray.find(d)`: index of the first occurrence -/
def findSub (d : Bytes) : Bytes → Option Nat
  | [] => if d.isEmpty then some 0 else none
  | b :: bs =>
    if isPrefixOf d (b :: bs) then some 0
    else (findSub d bs).map (· + 1)

/-! ### `_find_read_pos` / `_check_max_bytes` -/

def overMax (s : St) (size : Nat) : Bool :=
  match s.rmax with
  | some m => decide (m < size)
  | none => false

/-- `none` = UnsatisfiableReadError raised -/
def findReadPos (R : Nat → Bytes → Option Nat) (s : St) : Option (Option Nat) :=
  let size := s.buf.length
  let byBytes : Option Nat :=
    match s.rbytes with
    | some n => if n ≤ size || (s.rpartial && 0 < size) then some (min n size) else none
    | none => none
  match byBytes with
  | some p => some (some p)
  | none =>
    match s.rdelim with
    | some d =>
      if s.buf.isEmpty then some none
      else match findSub d s.buf with
        | some loc => if overMax s (loc + d.length) then none else some (some (loc + d.length))
        | none => if overMax s size then none else some none
    | none =>
      match s.rregex with
      | some rid =>
        if s.buf.isEmpty then some none
        else match R rid s.buf with
          | some e => if overMax s e then none else some (some e)
          | none => if overMax s size then none else some none
      | none => some none

/-! ### `_add_io_state`, `_maybe_add_error_listener` -/

def addIo (s : St) (r w : Bool) : St :=
  if s.closed then s
  else match s.io with
    | none => { s with io := some (r, w) }
    | some (r0, w0) => { s with io := some (r0 || r, w0 || w) }

def maybeAddErrorListener (s : St) : St :=
  match s.io with
  | none => if !s.closed && s.buf.isEmpty && s.cb then addIo s true false else s
  | some (false, false) => if !s.closed && s.buf.isEmpty && s.cb then addIo s true false else s
  | _ => s

/-! ### `_finish_read`, `_read_from_buffer` -/

def finishRead (s : St) (size : Nat) : St :=
  let (res, s1) : Outcome × St :=
    match s.user with
    | some _ => (.into size (s.buf.take size), { s with buf := [], user := none })
    | none => (.bytes (s.buf.take size), { s with buf := s.buf.drop size })
  let s2 := match s1.rfut with
    | some f => ({ s1 with rfut := none }).emit (.settle f res)
    | none => s1
  maybeAddErrorListener s2

def readFromBuffer (s : St) (pos : Nat) : St :=
  finishRead { s with rbytes := none, rdelim := none, rregex := none, rpartial := false } pos

/-! ### `_signal_closed`, `close` -/

def failAll (real : ErrK) (s : St) : List Nat → St
  | [] => s
  | f :: fs => failAll real (s.emit (.settle f (.closedErr real))) fs

def readFutL (s : St) : List Nat := match s.rfut with | some f => [f] | none => []
def connFutL (s : St) : List Nat := match s.cfut with | some f => [f] | none => []

/-- the read being failed is forgotten (D23 fix): parameters reset, a `read_into` buffer handed back -/
def clearRead (s : St) : St :=
  match s.rfut with
  | some _ => { s with rfut := none, rbytes := none, rdelim := none, rregex := none, rpartial := false, user := none }
  | none => s

def signalClosed (s : St) : St :=
  let futs := readFutL s ++ s.wfuts.map (·.2) ++ connFutL s
  let s1 := { clearRead s with wfuts := [], cfut := none }
  let s2 := failAll s1.error s1 futs
  if s2.cb then ({ s2 with cb := false }).emit .cb else s2

def setError (s : St) (exc : Option ErrK) : St :=
  match exc with
  | some k => { s with error := k }
  | none => s

/-- first half of `close()`: a pending `read_until_close` gets everything, another pending read is completed
    if the buffered data satisfies it -/
def completeAtClose (R : Nat → Bytes → Option Nat) (s : St) : St :=
  if s.ruc then finishRead { s with ruc := false } s.buf.length
  else if s.rfut.isSome then
    match findReadPos R s with
    | some (some p) => readFromBuffer s p
    | _ => s
  else s

def close (R : Nat → Bytes → Option Nat) (s : St) (exc : Option ErrK) : St :=
  if s.closed then signalClosed s
  else signalClosed { completeAtClose R (setError s exc) with io := none, closed := true }

/-! ### `_read_to_buffer`, `_read_to_buffer_loop` -/

inductive RTB where
  | got          -- > 0 bytes appended
  | zero         -- would block, or EOF (stream closed)
  | resetNone    -- connection reset: closed, returns None
  | raised (r : Raised)
  deriving DecidableEq, Repr

def isReset : ErrK → Bool
  | .reset => true
  | _ => false

/-- room offered to `read_from_fd` -/
def cap (s : St) : Nat :=
  match s.user with
  | some n => n - s.buf.length
  | none => s.chunk

/-- `k` bytes of the first transport chunk `c` move into the buffer -/
def pull (s : St) (c : Bytes) (rest : List Bytes) (k : Nat) : St :=
  { s with buf := s.buf ++ c.take k, inc := if k = c.length then rest else c.drop k :: rest }

def readToBuffer (R : Nat → Bytes → Option Nat) (s : St) : St × RTB :=
  match s.inc with
  | c :: rest =>
    if min c.length (cap s) = 0 then (close R s none, .zero)
    else if s.maxBuf < (pull s c rest (min c.length (cap s))).buf.length then
      (close R (pull s c rest (min c.length (cap s))) none, .raised .bufferFull)
    else (pull s c rest (min c.length (cap s)), .got)
  | [] =>
    match s.rerr with
    | some e => (close R { s with rerr := none } (some e), if isReset e then .resetNone else .raised .oserr)
    | none => if s.eof then (close R s none, .zero) else (s, .zero)

inductive LoopRes where
  | pos (p : Option Nat)
  | raised (r : Raised)
  deriving DecidableEq, Repr

def findFinal (R : Nat → Bytes → Option Nat) (s : St) : St × LoopRes :=
  match findReadPos R s with
  | some p => (s, .pos p)
  | none => (s, .raised .unsat)

/-- `target_bytes is not None and self._read_buffer_size >= target_bytes` -/
def reached (target : Option Nat) (size : Nat) : Bool :=
  match target with
  | some t => decide (t ≤ size)
  | none => false

def loopGo (R : Nat → Bytes → Option Nat) (target : Option Nat) : Nat → Nat → St → St × LoopRes
  | 0, _, s => findFinal R s
  | fuel + 1, nextFind, s =>
    if s.closed then findFinal R s
    else
      match readToBuffer R s with
      | (s1, .zero) => findFinal R s1
      | (s1, .raised r) => (s1, .raised r)
      | (s1, _) =>
        if reached target s1.buf.length then findFinal R s1
        else if nextFind ≤ s1.buf.length then
          match findReadPos R s1 with
          | none => (s1, .raised .unsat)
          | some (some p) => (s1, .pos (some p))
          | some none => loopGo R target fuel (s1.buf.length * 2) s1
        else loopGo R target fuel nextFind s1

def incBytes (s : St) : Nat := (s.inc.map List.length).sum

def readLoop (R : Nat → Bytes → Option Nat) (s : St) : St × LoopRes :=
  let target : Option Nat :=
    match s.rbytes with
    | some n => some n
    | none => match s.rmax with
      | some m => some m
      | none => if s.rfut.isSome then none else some 0
  loopGo R target (incBytes s + 3) 0 s

/-! ### `_handle_read`, `_handle_write`, `_handle_connect`, `_handle_events` -/

/-- `none` in the second component = UnsatisfiableReadError propagates to `_handle_events` -/
def handleRead (R : Nat → Bytes → Option Nat) (s : St) : St × Bool :=
  match readLoop R s with
  | (s1, .raised .unsat) => (s1, true)
  | (s1, .raised .oserr) => (close R s1 (some .oserr), false)
  | (s1, .raised _) => (close R s1 (some .custom), false)
  | (s1, .pos (some p)) => (readFromBuffer s1 p, false)
  | (s1, .pos none) => (s1, false)

def resolveWrites (s : St) : List (Nat × Nat) → St
  | [] => { s with wfuts := [] }
  | (idx, f) :: rest =>
    if s.wdone < idx then { s with wfuts := (idx, f) :: rest }
    else resolveWrites (s.emit (.settle f .unit)) rest

def handleWrite (R : Nat → Bytes → Option Nat) (s : St) : St :=
  if s.wpend = 0 then resolveWrites s s.wfuts
  else match s.wmode with
    | .accept => let s1 := { s with wdone := s.wdone + s.wpend, wpend := 0 }; resolveWrites s1 s1.wfuts
    | .block => resolveWrites s s.wfuts
    | .fail k => close R s (some k)

def handleConnect (R : Nat → Bytes → Option Nat) (s : St) : St :=
  match s.cerr with
  | some k => close R { s with error := k } none
  | none =>
    let s1 := match s.cfut with
      | some f => ({ s with cfut := none }).emit (.settle f .stream)
      | none => s
    { s1 with connecting := false }

def evConnect (R : Nat → Bytes → Option Nat) (s : St) : St :=
  if s.connecting then handleConnect R s else s

def evRead (R : Nat → Bytes → Option Nat) (s : St) (r : Bool) : St × Bool :=
  if r then handleRead R s else (s, false)

/-- the handler re-registers for what the stream now waits for -/
def evState (s : St) : St :=
  { s with io := some (s.rfut.isSome || (!s.rfut.isSome && !decide (0 < s.wpend) && s.buf.isEmpty), decide (0 < s.wpend)) }

def evWrite (R : Nat → Bytes → Option Nat) (s : St) (w : Bool) : St :=
  if s.closed then s
  else if (if w then handleWrite R s else s).closed then (if w then handleWrite R s else s)
  else evState (if w then handleWrite R s else s)

def handleEvents (R : Nat → Bytes → Option Nat) (s : St) (r w : Bool) : St :=
  if s.closed then s
  else if (evConnect R s).closed then evConnect R s
  else match evRead R (evConnect R s) r with
    | (s2, true) => close R s2 (some .unsat)
    | (s2, false) => evWrite R s2 w

/-- FakeStream._dispatch -/
def dispatch (R : Nat → Bytes → Option Nat) (s : St) (r w : Bool) : St :=
  match s.io with
  | some (r0, w0) => if (r && r0) || (w && w0) then handleEvents R s (r && r0) (w && w0) else s
  | none => s

/-! ### `_start_read`, `_try_inline_read`, the read methods -/

inductive Ret where
  | fut (fid : Nat)
  | raised (r : Raised)
  | unit
  deriving DecidableEq, Repr

/-- `inl r` = raises -/
def startRead (s : St) : Raised ⊕ (St × Nat) :=
  match s.rfut with
  | some _ => if s.closed then .inl (.streamClosed s.error) else .inl .already
  | none => .inr ({ s with rfut := some s.nextId, nextId := s.nextId + 1 }, s.nextId)

def tryInlineRead (R : Nat → Bytes → Option Nat) (s : St) : St × Option Raised :=
  match findReadPos R s with
  | none => (s, some .unsat)
  | some (some p) => (readFromBuffer s p, none)
  | some none =>
    if s.closed then (s, some (.streamClosed s.error))
    else match readLoop R s with
      | (s1, .raised r) => (s1, some r)
      | (s1, .pos (some p)) => (readFromBuffer s1 p, none)
      | (s1, .pos none) => (addIo s1 true false, none)

/-- common tail of `read_until`, `read_until_regex` (closeOnUnsat) and `read_bytes`, `read_into`, `read_until_close` -/
def finishInline (R : Nat → Bytes → Option Nat) (closeOnUnsat : Bool) (s : St) (f : Nat) : St × Ret :=
  match tryInlineRead R s with
  | (s1, none) => (s1, .fut f)
  | (s1, some .unsat) => if closeOnUnsat then (close R s1 (some .unsat), .fut f) else (s1, .raised .unsat)
  | (s1, some r) => (s1, .raised r)

inductive Op where
  | feed (b : Bytes)
  | eof
  | rerr (k : ErrK)
  | readBytes (n : Nat) (part : Bool)
  | readInto (n : Nat) (part : Bool)
  | readUntil (d : Bytes) (max : Option Nat)
  | readRegex (rid : Nat) (max : Option Nat)
  | readUntilClose
  | close (exc : Bool)
  | setCb
  | write (n : Nat)
  | wmode (m : WMode)
  | writable
  | connect
  | cerr (k : ErrK)
  deriving DecidableEq, Repr

def readInto (R : Nat → Bytes → Option Nat) (s : St) (n : Nat) (part : Bool) : St × Ret :=
  match startRead s with
  | .inl r => (s, .raised r)
  | .inr (s1, f) =>
    let avail := s1.buf.length
    if n ≤ avail then
      -- the first n bytes go to the caller's buffer, the rest is `_after_user_read_buffer`; completes at once
      let s2 := ({ s1 with rfut := none }).emit (.settle f (.into n (s1.buf.take n)))
      (maybeAddErrorListener { s2 with buf := s1.buf.drop n, rbytes := none, rdelim := none, rregex := none,
                                       rpartial := false }, .fut f)
    else
      finishInline R false { s1 with user := some n, rbytes := some n, rpartial := part } f

def doStep (R : Nat → Bytes → Option Nat) (s : St) : Op → St × Ret
  | .feed b => (dispatch R (if b.isEmpty then s else { s with inc := s.inc ++ [b] }) true false, .unit)
  | .eof => (dispatch R { s with eof := true } true false, .unit)
  | .rerr k => (dispatch R { s with rerr := some k } true false, .unit)
  | .readBytes n part =>
    match startRead s with
    | .inl r => (s, .raised r)
    | .inr (s1, f) => finishInline R false { s1 with rbytes := some n, rpartial := part } f
  | .readInto n part => readInto R s n part
  | .readUntil d max =>
    match startRead s with
    | .inl r => (s, .raised r)
    | .inr (s1, f) => finishInline R true { s1 with rdelim := some d, rmax := max } f
  | .readRegex rid max =>
    match startRead s with
    | .inl r => (s, .raised r)
    | .inr (s1, f) => finishInline R true { s1 with rregex := some rid, rmax := max } f
  | .readUntilClose =>
    match startRead s with
    | .inl r => (s, .raised r)
    | .inr (s1, f) =>
      if s1.closed then (finishRead s1 s1.buf.length, .fut f)
      else finishInline R false { s1 with ruc := true } f
  | .close exc => (close R s (if exc then some .custom else none), .unit)
  | .setCb => (maybeAddErrorListener { s with cb := true }, .unit)
  | .write n =>
    if s.closed then (s, .raised (.streamClosed s.error))
    else
      let f := s.nextId
      let s1 := { s with wpend := s.wpend + n, wtotal := s.wtotal + n, nextId := f + 1,
                         wfuts := s.wfuts ++ [(s.wtotal + n, f)] }
      if s1.connecting then (s1, .fut f)
      else
        let s2 := handleWrite R s1
        let s3 := if 0 < s2.wpend && !s2.closed then addIo s2 false true else s2
        (maybeAddErrorListener s3, .fut f)
  | .wmode m => ({ s with wmode := m }, .unit)
  | .writable => (dispatch R s false true, .unit)
  | .connect =>
    -- `IOStream.connect` starts with `_check_closed()` (fix: connect on a closed stream raises StreamClosedError)
    if s.closed then (s, .raised (.streamClosed s.error))
    else
      let f := s.nextId
      (addIo { s with connecting := true, cfut := some f, nextId := f + 1 } false true, .fut f)
  | .cerr k => ({ s with cerr := some k }, .unit)

structure Out where
  ret : Ret
  evs : List Ev
  deriving DecidableEq, Repr

def step (R : Nat → Bytes → Option Nat) (s : St) (op : Op) : St × Out :=
  let (s1, r) := doStep R { s with out := [] } op
  (s1, { ret := r, evs := s1.out })

def run (R : Nat → Bytes → Option Nat) (s : St) : List Op → St × List Out
  | [] => (s, [])
  | op :: ops =>
    let (s1, o) := step R s op
    let (s2, os) := run R s1 ops
    (s2, o :: os)

/-! ### the two concrete regexes used by the tie -/

def isDigit (c : Nat) : Bool := 48 ≤ c && c ≤ 57

/-- anchored `\r?\n\r?\n` : end offset -/
def matchCrlf2 : Bytes → Option Nat
  | 13 :: 10 :: 13 :: 10 :: _ => some 4
  | 13 :: 10 :: 10 :: _ => some 3
  | 10 :: 13 :: 10 :: _ => some 3
  | 10 :: 10 :: _ => some 2
  | _ => none

/-- anchored `[0-9]+x` (x = 120), `seen` = a digit was consumed -/
def matchDigitsX : Bool → Bytes → Option Nat
  | _, [] => none
  | seen, c :: cs =>
    if isDigit c then (matchDigitsX true cs).map (· + 1)
    else if seen && c == 120 then some 1
    else none

/-- `re.search`: leftmost start -/
def searchWith (m : Bytes → Option Nat) : Bytes → Option Nat
  | [] => m []
  | b :: bs =>
    match m (b :: bs) with
    | some e => some e
    | none => (searchWith m bs).map (· + 1)

def stdR : Nat → Bytes → Option Nat
  | 0, b => searchWith matchCrlf2 b
  | 1, b => searchWith (matchDigitsX false) b
  | _, _ => none

end TornadoModel.C11
