import TornadoModel.C11.Spec
namespace TornadoModel.C11
theorem stub : isPrefixOf [] [] = true := by decide
end TornadoModel.C11
