/-
C11 — IOStream reads return exactly the incoming bytes, in order, per request.
Property theorems over the stream machine of `Model.lean` (all op sequences, every regex engine `R`).
-/
import TornadoModel.C11.Contract3
import TornadoModel.C11.StdR
import TornadoModel.C11.Arrival4
import TornadoModel.C11.Sched3
import TornadoModel.C11.Stall
namespace TornadoModel.C11
variable (R : Nat → Bytes → Option Nat)

/-- bytes fed to the transport by an op list -/
def fedAll (ops : List Op) : Bytes := (ops.map fed).flatten
/-- all events of a run -/
def runEvs (outs : List Out) : List Ev := (outs.map (·.evs)).flatten
/-- a fresh stream -/
def init (chunk maxBuf : Nat) : St := { chunk := chunk, maxBuf := maxBuf }

theorem init_inv (c m : Nat) : Inv (init c m) := by
  constructor <;> simp [init, ParamsNone]

/-- **read_conservation** (one step, any reachable state, any op, any regex engine): the data returned by the
    reads completed in this step, followed by what is still buffered and what is still in the transport, is
    exactly what was buffered / in the transport before plus what this op fed.  Nothing is lost, duplicated
    or reordered; the invariant `Inv` is preserved. -/
theorem read_conservation (s : St) (i : Inv s) (op : Op) :
    Inv (step R s op).1 ∧
    evBytes (step R s op).2.evs ++ (step R s op).1.buf ++ (step R s op).1.inc.flatten
      = s.buf ++ s.inc.flatten ++ fed op := by
  have i0 : Inv { s with out := [] } := by
    obtain ⟨a, b, c, d, e⟩ := i; exact ⟨a, b, c, d, e⟩
  have h := doStep_pres R { s with out := [] } i0 op
  unfold step
  generalize doStep R { s with out := [] } op = x at h
  obtain ⟨s1, r⟩ := x
  refine ⟨h.1, ?_⟩
  have := h.2
  simpa [C11.acc, evBytes] using this

/-- **read_conservation_run**: for ALL op sequences from any good state -/
theorem read_conservation_run : ∀ (ops : List Op) (s : St), Inv s →
    Inv (run R s ops).1 ∧
    evBytes (runEvs (run R s ops).2) ++ (run R s ops).1.buf ++ (run R s ops).1.inc.flatten
      = s.buf ++ s.inc.flatten ++ fedAll ops := by
  intro ops
  induction ops with
  | nil => intro s i; simp [run, runEvs, fedAll, evBytes, i]
  | cons op ops ih =>
    intro s i
    obtain ⟨i1, h1⟩ := read_conservation R s i op
    obtain ⟨i2, h2⟩ := ih (step R s op).1 i1
    simp only [run]
    refine ⟨i2, ?_⟩
    simp only [runEvs, List.map_cons, List.flatten_cons, evBytes_append, fedAll] at h2 ⊢
    simp only [List.append_assoc] at h1 h2 ⊢
    rw [h2]
    have := congrArg (· ++ (ops.map fed).flatten) h1
    simpa [List.append_assoc] using this

/-- from a fresh stream: results ++ buffer ++ transport = everything fed -/
theorem read_conservation_init (c m : Nat) (ops : List Op) :
    evBytes (runEvs (run R (init c m) ops).2) ++ (run R (init c m) ops).1.buf
      ++ (run R (init c m) ops).1.inc.flatten = fedAll ops := by
  have := (read_conservation_run R ops (init c m) (init_inv c m)).2
  simpa [init] using this

/-- **results_prefix_of_stream**: the concatenation of all results is a prefix of the stream -/
theorem results_prefix_of_stream (c m : Nat) (ops : List Op) :
    evBytes (runEvs (run R (init c m) ops).2) <+: fedAll ops := by
  refine ⟨(run R (init c m) ops).1.buf ++ (run R (init c m) ops).1.inc.flatten, ?_⟩
  rw [← List.append_assoc]; exact read_conservation_init R c m ops

-- non-vacuity: a run with a pending read_until completed across two arrivals, a partial read and a read_into
example : (run stdR (init 4 100) [.readUntil [13, 10] none, .feed [97, 13], .feed [10, 98, 99, 100],
            .readBytes 2 true, .readInto 3 false, .feed [101, 102]]).2.map (·.evs) =
    [[], [], [.settle 0 (.bytes [97, 13, 10])], [.settle 1 (.bytes [98, 99])], [], [.settle 2 (.into 3 [100, 101, 102])]] := by
  decide

/-! ### contracts of the position chosen by `_find_read_pos` (every completed read takes `buf.take p`) -/

/-- **read_contracts** (fixed-size / partial / read_into): the result has exactly `n` bytes, or when `partial`
    between 1 and `n` bytes -/
theorem read_contracts (s : St) (n p : Nat) (hb : s.rbytes = some n) (hd : s.rdelim = none) (hr : s.rregex = none)
    (h : findReadPos R s = some (some p)) :
    p ≤ s.buf.length ∧ Spec.lenOk n s.rpartial p = true := by
  simp only [findReadPos, hb, hd, hr] at h
  split at h
  · rename_i q hq
    split at hq
    · rename_i hc
      simp at hq h; subst hq; subst h
      simp only [Spec.lenOk]
      cases hp : s.rpartial <;> simp [hp] at hc ⊢ <;> omega
    · simp at hq
  · simp at h

example : findReadPos stdR { buf := [1, 2, 3], rbytes := some 5, rpartial := true } = some (some 3) := by decide

/-- **read_contracts** (delimiter): the position is just behind the FIRST occurrence of the delimiter, and within
    `max_bytes` -/
theorem read_contracts_delim (s : St) (d : Bytes) (p : Nat) (hb : s.rbytes = none) (hd : s.rdelim = some d)
    (h : findReadPos R s = some (some p)) :
    ∃ loc, findSub d s.buf = some loc ∧ p = loc + d.length ∧ ∀ m, s.rmax = some m → p ≤ m := by
  simp only [findReadPos, hb, hd] at h
  split at h
  · simp at h
  · split at h
    · rename_i loc hl
      split at h
      · simp at h
      · rename_i ho
        simp at h
        refine ⟨loc, hl, h.symm, ?_⟩
        intro m hm
        simp [overMax, hm] at ho; omega
    · split at h <;> simp at h

/-- **read_contracts** (regex): the position is the end of the first match reported by the engine, within
    `max_bytes` -/
theorem read_contracts_regex (s : St) (rid p : Nat) (hb : s.rbytes = none) (hd : s.rdelim = none)
    (hr : s.rregex = some rid) (h : findReadPos R s = some (some p)) :
    R rid s.buf = some p ∧ ∀ m, s.rmax = some m → p ≤ m := by
  simp only [findReadPos, hb, hd, hr] at h
  split at h
  · simp at h
  · split at h
    · rename_i e he
      split at h
      · simp at h
      · rename_i ho
        simp at h
        subst h
        refine ⟨he, ?_⟩
        intro m hm
        simp [overMax, hm] at ho; omega
    · split at h <;> simp at h

example : findReadPos stdR { buf := [97, 49, 50, 120, 98], rregex := some 1, rmax := some 4 } = some (some 4) := by decide

/-- **no_result_over_max**: a delimiter / regex read never returns more than `max_bytes` -/
theorem no_result_over_max (s : St) (p m : Nat) (hb : s.rbytes = none) (hm : s.rmax = some m)
    (h : findReadPos R s = some (some p)) : p ≤ m := by
  cases hd : s.rdelim with
  | some d =>
    obtain ⟨loc, _, _, h3⟩ := read_contracts_delim R s d p hb hd h
    exact h3 m hm
  | none =>
    cases hr : s.rregex with
    | some rid => exact (read_contracts_regex R s rid p hb hd hr h).2 m hm
    | none => rw [find_params_none R s ⟨hb, hd, hr⟩] at h; simp at h

/-- UnsatisfiableReadError is raised only for a read that set `max_bytes` -/
theorem unsat_only_with_max (s : St) (h : findReadPos R s = none) : s.rmax.isSome = true := by
  cases hm : s.rmax with
  | some m => rfl
  | none =>
    exfalso
    have ho : ∀ k, overMax s k = false := by intro k; simp [overMax, hm]
    simp only [findReadPos, ho] at h
    repeat' split at h
    all_goals simp_all

theorem signalClosed_closed (s : St) : (signalClosed s).closed = s.closed := by
  unfold signalClosed
  have h0 : ({ clearRead s with wfuts := [], cfut := none } : St).closed = s.closed := by
    unfold clearRead; cases s.rfut <;> rfl
  have h4 := (failAll_rs ({ clearRead s with wfuts := [], cfut := none } : St).error
    (readFutL s ++ s.wfuts.map (·.2) ++ connFutL s) { clearRead s with wfuts := [], cfut := none }).closed
  simp only []
  generalize failAll ({ clearRead s with wfuts := [], cfut := none } : St).error
    { clearRead s with wfuts := [], cfut := none } (readFutL s ++ s.wfuts.map (·.2) ++ connFutL s) = s4 at h4 ⊢
  split
  · exact h4.trans h0
  · exact h4.trans h0

theorem close_closed (s : St) (e : Option ErrK) : (close R s e).closed = true := by
  unfold close
  split
  · rename_i hc; rw [signalClosed_closed]; exact hc
  · rw [signalClosed_closed]

/-- **unsat_closes**: when the delimiter / regex is not found within `max_bytes` (`_find_read_pos` raises
    UnsatisfiableReadError) the read call closes the stream … -/
theorem unsat_closes (s : St) (f : Nat) (h : (tryInlineRead R s).2 = some .unsat) :
    (finishInline R true s f).1.closed = true ∧ (finishInline R true s f).2 = .fut f := by
  unfold finishInline
  generalize tryInlineRead R s = x at h
  obtain ⟨s1, r⟩ := x
  simp at h; subst h
  simp [close_closed]

/-- … and so does the event handler when the data arrives later -/
theorem unsat_closes_on_event (s : St) (r w : Bool) (hc : s.closed = false)
    (hcc : (evConnect R s).closed = false) (h : (evRead R (evConnect R s) r).2 = true) :
    (handleEvents R s r w).closed = true := by
  unfold handleEvents
  simp only [hc, hcc]
  generalize evRead R (evConnect R s) r = x at h
  obtain ⟨s2, u⟩ := x
  simp at h; subst h
  simp [close_closed]

-- non-vacuity: max_bytes=3, four bytes without the delimiter arrive: the stream closes with the Unsatisfiable error
example : ((run stdR (init 4 100) [.readUntil [10] (some 3), .feed [97, 98, 99, 100]]).1.closed,
           (run stdR (init 4 100) [.readUntil [10] (some 3), .feed [97, 98, 99, 100]]).1.error,
           (run stdR (init 4 100) [.readUntil [10] (some 3), .feed [97, 98, 99, 100]]).1.buf) =
    (true, ErrK.unsat, [97, 98, 99, 100]) := by decide

/-! ### arrival independence -/

/-- the statement first put down for arrival independence (kept verbatim): ANY op list without feeds after the feeds,
    only prefix-stability of the regex engine assumed.  It is FALSE (`arrival_independent_refuted`): a partial read
    returns whatever the first transport read delivered. -/
def arrival_independent_goal : Prop :=
  ∀ (R : Nat → Bytes → Option Nat), (∀ id b c e, R id b = some e → R id (b ++ c) = some e) →
  ∀ (c m : Nat) (segs1 segs2 : List Bytes) (reads : List Op), segs1.flatten = segs2.flatten →
    (∀ op ∈ reads, fed op = []) →
    evBytes (runEvs (run R (init c m) (segs1.map .feed ++ reads)).2) =
    evBytes (runEvs (run R (init c m) (segs2.map .feed ++ reads)).2)

/-- witness: the stream `1 2 3 4` delivered as `[1],[2,3,4]` or as `[1,2,3,4]`, then `read_bytes(4, partial=True)`:
    the first run returns `1`, the second `1 2 3 4`.  Inherent to partial reads (they return what has arrived), not
    a defect of the code. -/
theorem arrival_independent_refuted : ¬ arrival_independent_goal := by
  intro h
  have := h (fun _ _ => none) (by intro id b c e he; simp at he) 100 100 [[1], [2, 3, 4]] [[1, 2, 3, 4]]
    [.readBytes 4 true] rfl (by intro op hop; simp at hop; subst hop; rfl)
  revert this
  decide

/-- **arrival_batch** (machine = strict batch reader).  Scheduling assumption: the whole byte stream is in the
    transport (in ANY segmentation `segs`, including 1-byte deliveries and empty segments) before the first request
    is issued, no handler/close callback is registered, and the requests are issued back to back — each one when the
    previous call has returned (a request issued while another is pending is rejected, as in the code).  Requests:
    `read_bytes(n)` (NOT partial), `read_until`, `read_until_regex`, with or without `max_bytes` (`stableRead`).
    Side conditions: `read_chunk_size > 0`, the stream fits `max_buffer_size`, and `batch ≠ none`: no request runs
    into `max_bytes` (when UnsatisfiableReadError is noticed depends on the arrivals).  Regex engine: any `R` that is
    prefix-stable and local.  Then the list of results is exactly `batch R stream reads` — a function of the byte
    stream and the request sequence alone. -/
theorem arrival_batch (hS : RStable R) (hL : RLocal R) (c m : Nat) (hc : 0 < c) (segs : List Bytes)
    (hm : segs.flatten.length ≤ m) (reads : List Op) (hst : ∀ op ∈ reads, stableRead op = true)
    (results : List Bytes) (hb : batch R segs.flatten reads = some results) :
    (dataEvs (runEvs (run R (init c m) (segs.map .feed ++ reads)).2)).map (·.2) = results.map .bytes :=
  feeds_reads_batch R hS hL c m hc (init c m)
    ⟨rfl, rfl, rfl, rfl, rfl, by simp [init], rfl, rfl, rfl, rfl, init_inv c m⟩ segs hm reads hst results hb

/-- **arrival_independent_partial**: the strongest true version of `arrival_independent_goal` — two segmentations of
    the same byte stream give the same results, result by result (and hence the same concatenation), for stable
    (non-partial) requests under the assumptions of `arrival_batch` -/
theorem arrival_independent_partial :
    ∀ (R : Nat → Bytes → Option Nat), (∀ id b c e, R id b = some e → R id (b ++ c) = some e) → RLocal R →
    ∀ (c m : Nat) (segs1 segs2 : List Bytes) (reads : List Op), segs1.flatten = segs2.flatten →
      0 < c → segs1.flatten.length ≤ m → (∀ op ∈ reads, stableRead op = true) →
      (batch R segs1.flatten reads).isSome = true →
      (dataEvs (runEvs (run R (init c m) (segs1.map .feed ++ reads)).2)).map (·.2) =
        (dataEvs (runEvs (run R (init c m) (segs2.map .feed ++ reads)).2)).map (·.2) ∧
      evBytes (runEvs (run R (init c m) (segs1.map .feed ++ reads)).2) =
        evBytes (runEvs (run R (init c m) (segs2.map .feed ++ reads)).2) := by
  intro R hS hL c m segs1 segs2 reads hseg hc hm hst hb
  cases hres : batch R segs1.flatten reads with
  | none => rw [hres] at hb; simp at hb
  | some results =>
    have h1 := arrival_batch R hS hL c m hc segs1 hm reads hst results hres
    have h2 := arrival_batch R hS hL c m hc segs2 (hseg ▸ hm) reads hst results (hseg ▸ hres)
    refine ⟨h1.trans h2.symm, ?_⟩
    rw [evBytes_dataEvs, evBytes_dataEvs, h1, h2]

/-- **arrival_schedule** (ANY interleaving of arrivals and requests — requests issued up front, re-issued on
    completion, or at any other time).  `ops` is an arbitrary list of `feed`s and stable read requests.  A request is
    *accepted* iff no read is pending when it is issued (`accepted`; the others are rejected with "Already reading" and
    change nothing) — with "issue the next request when the previous one has completed" every request is accepted.
    Then the results handed out during the run are, result by result, the first results of the strict batch reader over
    the WHOLE byte stream (`fedAll ops`, including bytes that arrive after the request was issued or completed) applied
    to the accepted requests: the k-th accepted request returns `batch[k]`, however the stream is cut into arrivals
    and whenever the requests are issued.  (Prefix, not equality: a request whose bytes have not all arrived, or are
    not yet pulled from the transport because no handler is registered, is still pending at the end of `ops`.)
    Side conditions as for `arrival_batch`: chunk > 0, stream ≤ max_buffer_size, `batch ≠ none` (no request runs
    into `max_bytes`), no EOF / error / close / close-callback ops in the schedule. -/
theorem arrival_schedule (hS : RStable R) (hL : RLocal R) (c m : Nat) (hc : 0 < c) (ops : List Op)
    (hops : ∀ op ∈ ops, schedOp op = true) (hm : (fedAll ops).length ≤ m) (results : List Bytes)
    (hb : batch R (fedAll ops) (accepted R (init c m) ops) = some results) :
    (dataEvs (runEvs (run R (init c m) ops).2)).map (·.2) <+: results.map .bytes := by
  have o : OpenSt c m (init c m) [] :=
    ⟨rfl, rfl, rfl, rfl, by simp [init], rfl, rfl, rfl, rfl, rfl, init_inv c m⟩
  have := (sched_prefix R hS hL c m hc ops (init c m) [] o hops (by simpa [fedOf, fedAll] using hm)).1 rfl results
    (by simpa [fedOf, fedAll] using hb)
  exact this

-- non-vacuity: a request issued up front, the next ones re-issued after completion, arrivals in between
example : accepted stdR (init 4 100) [.readUntil [13, 10] none, .feed [97, 13], .feed [10, 98], .readBytes 2 false,
            .feed [99, 49], .readRegex 1 none, .feed [50, 120, 100]] =
    [.readUntil [13, 10] none, .readBytes 2 false, .readRegex 1 none] := by decide
example : (dataEvs (runEvs (run stdR (init 4 100) [.readUntil [13, 10] none, .feed [97, 13], .feed [10, 98],
            .readBytes 2 false, .feed [99, 49], .readRegex 1 none, .feed [50, 120, 100]]).2)).map (·.2) =
    [.bytes [97, 13, 10], .bytes [98, 99], .bytes [49, 50, 120]] := by decide

-- non-vacuity: the engine of the tie meets both hypotheses; a delimiter read with max_bytes, a fixed-size read and a
-- regex read over a stream cut in two ways
example : RStable stdR ∧ RLocal stdR := ⟨stdR_stable, stdR_local⟩
example : batch stdR [97, 13, 10, 98, 99, 49, 50, 120, 100] [.readUntil [13, 10] (some 5), .readBytes 2 false,
            .readRegex 1 none, .readBytes 5 false] = some [[97, 13, 10], [98, 99], [49, 50, 120]] := by decide
example : (dataEvs (runEvs (run stdR (init 2 100) (([[97], [13], [10, 98, 99, 49], [], [50, 120, 100]] : List Bytes).map .feed ++
            [.readUntil [13, 10] (some 5), .readBytes 2 false, .readRegex 1 none, .readBytes 5 false])).2)).map (·.2) =
    [.bytes [97, 13, 10], .bytes [98, 99], .bytes [49, 50, 120]] := by decide

/-! ### the contracts in `Spec.contractOk` form, on the returned bytes themselves -/

/-- **read_contracts_until** (was `read_contracts_goal`): the bytes `buf.take p` a delimiter read returns satisfy
    `Spec.contractOk`: they end with the FIRST occurrence of the delimiter and are not longer than `max_bytes` -/
theorem read_contracts_until :
    ∀ (R : Nat → Bytes → Option Nat) (s : St) (d : Bytes) (p : Nat), s.rbytes = none → s.rdelim = some d →
      findReadPos R s = some (some p) → Spec.contractOk R (.until d s.rmax) (.bytes (s.buf.take p)) = true := by
  intro R s d p hb hd h
  obtain ⟨loc, hl, hp, hmx⟩ := read_contracts_delim R s d p hb hd h
  have hbd := findSub_bound d s.buf loc hl
  have hlen : (s.buf.take p).length = p := by rw [List.length_take]; omega
  have hf := findSub_take d s.buf loc p hl (by omega)
  have hw : Spec.withinMax s.rmax p = true := by
    cases hm : s.rmax with
    | none => rfl
    | some mm => simpa [Spec.withinMax] using hmx mm hm
  have : p - d.length = loc := by omega
  simp only [Spec.contractOk, hlen, hf, hw, this]
  simp; omega

example : Spec.contractOk stdR (.until [13, 10] (some 4)) (.bytes (([97, 13, 10, 98] : Bytes).take 3)) = true := by decide

/-- **read_contracts_result**: in a state satisfying the invariant whose read parameters encode the request `q`
    (`Match`), the outcome `_finish_read` produces for the position `_find_read_pos` selects meets `Spec.contractOk q`:
    exact length (`read_bytes`, `read_into`), 1..n bytes (`partial`), ends right behind the first occurrence of the
    delimiter / at the end of the engine's first match, never more than `max_bytes`.  The only hypothesis on the regex
    engine is `RLocal` (a match is determined by the bytes up to its end; `stdR_local`). -/
theorem read_contracts_result (hR : RLocal R) (s : St) (i : Inv s) (q : Spec.Req) (m : Match s q) (p : Nat)
    (h : findReadPos R s = some (some p)) : Spec.contractOk R q (finRes s p) = true :=
  contract_of_find R hR s i q m p h

example : RLocal stdR := stdR_local
example : Match { buf := [97, 49, 50, 120, 98], rregex := some 1, rmax := some 4, rfut := some 0 } (.regex 1 (some 4)) := by
  simp [Match]

/-- **read_contracts_step**: one step from a good state whose registered requests are `T` (`Cover`: ids below
    `nextId`, the pending read is in `T`): every data result of the step belongs to a request in `T` or to the one
    this op registers, and meets that request's contract -/
theorem read_contracts_step (hR : RLocal R) (s : St) (i : Inv s) (T : List (Nat × Spec.Req)) (c : Cover T s) (op : Op) :
    Cover (T ++ issued s op) (step R s op).1 ∧
    ∀ g o, (g, o) ∈ dataEvs (step R s op).2.evs → ∃ q, (g, q) ∈ T ++ issued s op ∧ Spec.contractOk R q o = true :=
  step_ok R hR s i T c op

/-- **read_contracts_run**: for ALL op sequences from a fresh stream (any arrival pattern, close point, error
    injection, request order): every result handed to a read future (`dataEvs`: future id, outcome) belongs to a
    request registered under that id (`table`) and meets `Spec.contractOk` for it; ids identify requests uniquely -/
theorem read_contracts_run (hR : RLocal R) (c m : Nat) (ops : List Op) :
    (∀ g o, (g, o) ∈ dataEvs (runEvs (run R (init c m) ops).2) →
      ∃ q, (g, q) ∈ table R (init c m) ops ∧ Spec.contractOk R q o = true) ∧
    (∀ g q q', (g, q) ∈ table R (init c m) ops → (g, q') ∈ table R (init c m) ops → q = q') := by
  have c0 : Cover [] (init c m) :=
    ⟨by intro x hx; simp at hx, by intro f hf; simp [init] at hf, by intro g q q' h; simp at h⟩
  have := run_ok R hR ops (init c m) [] (init_inv c m) c0
  simpa [runEvs] using this

/-- **issued_of_ret**: the table entry of a read call is keyed by the very future the call returned -/
theorem issued_of_ret (s : St) (op : Op) (f : Nat) (q : Spec.Req) (hq : reqOfOp op = some q)
    (h : (step R s op).2.ret = .fut f) : issued s op = [(f, q)] := by
  have h' : (doStep R { s with out := [] } op).2 = .fut f := h
  have key : ∀ (s1 : St) (f0 : Nat), startRead { s with out := [] } = .inr (s1, f0) →
      s.rfut = none ∧ f0 = s.nextId := by
    intro s1 f0 hs
    obtain ⟨a, _, b⟩ := startRead_inr _ s1 f0 hs
    exact ⟨a, b⟩
  have fin : s.rfut = none → f = s.nextId → issued s op = [(f, q)] := by
    intro h1 h2; simp [issued, h1, hq, h2]
  cases op with
  | readBytes n part =>
    simp only [doStep] at h'
    split at h'
    · simp at h'
    · rename_i s1 f0 hs
      obtain ⟨a, b⟩ := key s1 f0 hs
      exact fin a ((finishInline_ret R _ _ _ _ h').trans b)
  | readUntil d mx =>
    simp only [doStep] at h'
    split at h'
    · simp at h'
    · rename_i s1 f0 hs
      obtain ⟨a, b⟩ := key s1 f0 hs
      exact fin a ((finishInline_ret R _ _ _ _ h').trans b)
  | readRegex rid mx =>
    simp only [doStep] at h'
    split at h'
    · simp at h'
    · rename_i s1 f0 hs
      obtain ⟨a, b⟩ := key s1 f0 hs
      exact fin a ((finishInline_ret R _ _ _ _ h').trans b)
  | readUntilClose =>
    simp only [doStep] at h'
    split at h'
    · simp at h'
    · rename_i s1 f0 hs
      obtain ⟨a, b⟩ := key s1 f0 hs
      split at h'
      · simp at h'; exact fin a (h'.symm.trans b)
      · exact fin a ((finishInline_ret R _ _ _ _ h').trans b)
  | readInto n part =>
    simp only [doStep, readInto] at h'
    split at h'
    · simp at h'
    · rename_i s1 f0 hs
      obtain ⟨a, b⟩ := key s1 f0 hs
      split at h'
      · simp at h'; exact fin a (h'.symm.trans b)
      · exact fin a ((finishInline_ret R _ _ _ _ h').trans b)
  | _ => simp [reqOfOp] at hq

-- non-vacuity: the run of the example above — three requests registered, three results, each under its own id
example : table stdR (init 4 100) [.readUntil [13, 10] none, .feed [97, 13], .feed [10, 98, 99, 100],
            .readBytes 2 true, .readInto 3 false, .feed [101, 102]] =
    [(0, .until [13, 10] none), (1, .bytes 2 true), (2, .into 3 false)] := by decide
example : dataEvs (runEvs (run stdR (init 4 100) [.readUntil [13, 10] none, .feed [97, 13], .feed [10, 98, 99, 100],
            .readBytes 2 true, .readInto 3 false, .feed [101, 102]]).2) =
    [(0, .bytes [97, 13, 10]), (1, .bytes [98, 99]), (2, .into 3 [100, 101, 102])] := by decide

/-! ### no stalled read (added after the missed seeded change C11-1) -/

/-- **no_stall_on_event**: after the read event handler ran, a read that is still pending on the still open stream
    is not satisfiable from the buffered bytes: `_find_read_pos` on the buffer as it is now (the WHOLE buffer, not a
    suffix of it) says "not found, not over max_bytes". -/
theorem no_stall_on_event (s s1 : St) (h : handleRead R s = (s1, false)) (ho : s1.closed = false)
    (hf : s1.rfut.isSome = true) : findReadPos R s1 = some none := by
  unfold handleRead at h
  have hp := readLoop_pending R s
  generalize readLoop R s = x at h hp
  obtain ⟨s2, res⟩ := x
  cases res with
  | raised r =>
    have hc : ∀ e, (close R s2 e).closed = true := fun e => close_closed R s2 e
    cases r <;> simp only [Prod.mk.injEq, Bool.true_eq_false, and_false, and_true] at h <;>
      (try (subst h; rw [hc] at ho; exact absurd ho (by simp)))
  | pos p =>
    cases p with
    | none => simp at h; subst h; exact hp rfl
    | some p =>
      simp at h; subst h
      rw [readFromBuffer_rfut] at hf; simp at hf

theorem findReadPos_addIo (s : St) (r w : Bool) : findReadPos R (addIo s r w) = findReadPos R s := by
  unfold addIo
  split
  · rfl
  · split <;> rfl

/-- **no_stall_on_call**: the same for the call path (`_try_inline_read`): a read method that returns with its read
    still pending leaves a buffer that does not satisfy the request. -/
theorem no_stall_on_call (s s1 : St) (h : tryInlineRead R s = (s1, none)) (hf : s1.rfut.isSome = true) :
    findReadPos R s1 = some none := by
  unfold tryInlineRead at h
  split at h
  · simp at h
  · simp at h; subst h; rw [readFromBuffer_rfut] at hf; simp at hf
  · split at h
    · simp at h
    · have hp := readLoop_pending R s
      generalize readLoop R s = x at h hp
      obtain ⟨s2, res⟩ := x
      cases res with
      | raised r => simp at h
      | pos p =>
        cases p with
        | none => simp at h; subst h; rw [findReadPos_addIo]; exact hp rfl
        | some p => simp at h; subst h; rw [readFromBuffer_rfut] at hf; simp at hf

/-- **pending_until_not_ready**: in terms of the specification — while a `read_until(d)` is pending after a read event
    on an open stream, the buffer is empty or does not contain `d` anywhere (`Spec.ready` is false). -/
theorem pending_until_not_ready (s s1 : St) (d : Bytes) (h : handleRead R s = (s1, false)) (ho : s1.closed = false)
    (hf : s1.rfut.isSome = true) (hb : s1.rbytes = none) (hd : s1.rdelim = some d) :
    Spec.ready R (.until d s1.rmax) s1.buf = false :=
  not_ready_until R s1 d hb hd (no_stall_on_event R s s1 h ho hf)

-- non-vacuity (the witness of the seeded change): 1 byte, then the delimiter completed: the read is handed over at
-- once with exactly the first record; and a pending read on a buffer without the delimiter
example : dataEvs (runEvs (run stdR (init 65536 104857600)
            [.readUntil [97, 97, 98] none, .feed [97], .feed [97, 98, 48, 97, 97, 98]]).2) = [(0, .bytes [97, 97, 98])] := by decide
example : ((run stdR (init 65536 104857600) [.readUntil [97, 97, 98] none, .feed [97], .feed [97]]).1.rfut,
           Spec.ready stdR (.until [97, 97, 98] none) [97, 97]) = (some 0, false) := by decide

end TornadoModel.C11
