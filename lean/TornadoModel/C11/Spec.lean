/-
C11 — the specification side: what each kind of read request promises about its result (`contractOk`), and
conservation (`conserved`): the results, in completion order, concatenate to a prefix of the byte stream.
-/
import TornadoModel.C11.Model
namespace TornadoModel.C11.Spec
open TornadoModel.C11

inductive Req where
  | bytes (n : Nat) (part : Bool)
  | into (n : Nat) (part : Bool)
  | until (d : Bytes) (max : Option Nat)
  | regex (rid : Nat) (max : Option Nat)
  | untilClose
  deriving DecidableEq, Repr

def lenOk (n : Nat) (part : Bool) (k : Nat) : Bool :=
  if part then (k ≤ n && (0 < k || n == 0)) else k == n

def withinMax (max : Option Nat) (k : Nat) : Bool :=
  match max with
  | some m => decide (k ≤ m)
  | none => true

/-- the result `o` of a completed request meets the request's contract -/
def contractOk (R : Nat → Bytes → Option Nat) : Req → Outcome → Bool
  | .bytes n part, .bytes b => lenOk n part b.length
  | .into n part, .into k b => k == b.length && lenOk n part k
  | .until d max, .bytes b =>
      -- ends with the first occurrence of the delimiter, and is not longer than max_bytes
      findSub d b == some (b.length - d.length) && decide (d.length ≤ b.length) && withinMax max b.length
  | .regex rid max, .bytes b => R rid b == some b.length && withinMax max b.length
  | .untilClose, .bytes _ => true
  | _, _ => false

/-- the buffered bytes `buf` already contain a complete result for the request: a read that is still pending on an
    open stream while `ready` holds is stalled (its data arrived and was not handed over) -/
def ready (R : Nat → Bytes → Option Nat) : Req → Bytes → Bool
  | .bytes n part, buf => decide (n ≤ buf.length) || (part && decide (0 < buf.length))
  | .into n part, buf => decide (n ≤ buf.length) || (part && decide (0 < buf.length))
  | .until d _, buf => !buf.isEmpty && (findSub d buf).isSome
  | .regex rid _, buf => !buf.isEmpty && (R rid buf).isSome
  | .untilClose, _ => false

/-- index of the first (request, buffer) pair that is stalled -/
def firstReady (R : Nat → Bytes → Option Nat) : List (Req × Bytes) → Nat → Option Nat
  | [], _ => none
  | (q, b) :: rest, i => if ready R q b then some i else firstReady R rest (i + 1)

/-- nothing lost, duplicated or reordered: the results concatenate to a prefix of the stream -/
def conserved (results : List Bytes) (stream : Bytes) : Bool := isPrefixOf results.flatten stream

/-- index of the first pair violating its contract -/
def firstBad (R : Nat → Bytes → Option Nat) : List (Req × Outcome) → Nat → Option Nat
  | [], _ => none
  | (q, o) :: rest, i => if contractOk R q o then firstBad R rest (i + 1) else some i

end TornadoModel.C11.Spec
