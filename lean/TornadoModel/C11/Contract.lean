/-
C11 — every result the machine hands out meets `Spec.contractOk` for the request it belongs to.

`Match s q`  : the read parameters of state `s` encode the pending request `q`.
`Ok R pq N s`: every data result emitted so far in this step belongs to the request `pq = some (fid, q)` and meets its
               contract; a pending read is that request; `nextId = N`.
Each function of the machine preserves `Ok` (second pass over the machine, beside `Inv`/`acc` of `Lemmas.lean`).
-/
import TornadoModel.C11.Sub
namespace TornadoModel.C11
open Spec (Req contractOk lenOk withinMax)
variable (R : Nat → Bytes → Option Nat)

/-- the regex engine reports a match by its end offset, which lies inside the buffer, and the match is determined by
    the bytes up to its end (true for `re.search` on patterns without look-ahead / `$`; proved for `stdR`) -/
def RLocal (R : Nat → Bytes → Option Nat) : Prop :=
  ∀ id b e, R id b = some e → e ≤ b.length ∧ ∀ k, e ≤ k → R id (b.take k) = some e

/-- data results (future id, outcome) among the events -/
def dataEvs : List Ev → List (Nat × Outcome)
  | [] => []
  | .settle g (.bytes b) :: r => (g, .bytes b) :: dataEvs r
  | .settle g (.into k b) :: r => (g, .into k b) :: dataEvs r
  | _ :: r => dataEvs r

theorem dataEvs_append (a b : List Ev) : dataEvs (a ++ b) = dataEvs a ++ dataEvs b := by
  induction a with
  | nil => rfl
  | cons e r ih =>
    cases e with
    | cb => simpa [dataEvs] using ih
    | settle f o => cases o <;> simp [dataEvs, ih]

/-- the read parameters of `s` encode request `q` -/
def Match (s : St) : Req → Prop
  | .bytes n part => s.ruc = false ∧ s.user = none ∧ s.rbytes = some n ∧ s.rpartial = part ∧ s.rdelim = none ∧ s.rregex = none
  | .into n part => s.ruc = false ∧ s.user = some n ∧ s.rbytes = some n ∧ s.rpartial = part ∧ s.rdelim = none ∧ s.rregex = none
  | .until d max => s.ruc = false ∧ s.user = none ∧ s.rbytes = none ∧ s.rdelim = some d ∧ s.rmax = max
  | .regex rid max => s.ruc = false ∧ s.user = none ∧ s.rbytes = none ∧ s.rdelim = none ∧ s.rregex = some rid ∧ s.rmax = max
  | .untilClose => s.ruc = true

structure Ok (pq : Option (Nat × Req)) (N : Nat) (s : St) : Prop where
  evs : ∀ g o, (g, o) ∈ dataEvs s.out → ∃ q, pq = some (g, q) ∧ contractOk R q o = true
  pend : ∀ f, s.rfut = some f → ∃ q, pq = some (f, q) ∧ Match s q
  nid : s.nextId = N

/-- `s'` differs from `s` in nothing the contracts look at -/
structure RS2 (s s' : St) : Prop where
  rs : RS s s'
  rpartial : s'.rpartial = s.rpartial
  rmax : s'.rmax = s.rmax
  nid : s'.nextId = s.nextId
  dout : dataEvs s'.out = dataEvs s.out

theorem RS2.refl (s : St) : RS2 s s := ⟨RS.refl s, rfl, rfl, rfl, rfl⟩
theorem RS2.trans {a b c : St} (h1 : RS2 a b) (h2 : RS2 b c) : RS2 a c :=
  ⟨RS.trans h1.rs h2.rs, h2.rpartial.trans h1.rpartial, h2.rmax.trans h1.rmax, h2.nid.trans h1.nid, h2.dout.trans h1.dout⟩

theorem RS2.match_ {s s' : St} (h : RS2 s s') (q : Req) (m : Match s q) : Match s' q := by
  obtain ⟨⟨h1, h2, h3, h4, h5, h6, h7, hc, h8, h9⟩, hp, hm, hn, hd⟩ := h
  cases q <;> simp only [Match] at m ⊢ <;> simp_all

theorem RS2.ok {s s' : St} {pq : Option (Nat × Req)} {N : Nat} (h : RS2 s s') (o : Ok R pq N s) : Ok R pq N s' := by
  refine ⟨?_, ?_, h.nid.trans o.nid⟩
  · intro g x hx; rw [h.dout] at hx; exact o.evs g x hx
  · intro f hf
    rw [h.rs.rfut] at hf
    obtain ⟨q, hq, m⟩ := o.pend f hf
    exact ⟨q, hq, h.match_ q m⟩

theorem addIo_rs2 (s : St) (r w : Bool) : RS2 s (addIo s r w) := by
  refine ⟨addIo_rs s r w, ?_, ?_, ?_, ?_⟩ <;>
  · unfold addIo; split
    · rfl
    · split <;> rfl

theorem maybeAdd_rs2 (s : St) : RS2 s (maybeAddErrorListener s) := by
  unfold maybeAddErrorListener
  split <;> (try split) <;> first | exact RS2.refl s | exact addIo_rs2 s _ _

theorem failAll_rs2 (k : ErrK) (l : List Nat) : ∀ s : St, RS2 s (failAll k s l) := by
  induction l with
  | nil => intro s; exact RS2.refl s
  | cons f fs ih =>
    intro s
    unfold failAll
    refine RS2.trans ?_ (ih _)
    exact ⟨⟨rfl, rfl, rfl, rfl, rfl, rfl, rfl, rfl, rfl, by simp [St.emit, evBytes_append, evBytes]⟩, rfl, rfl, rfl,
      by simp [St.emit, dataEvs_append, dataEvs]⟩

theorem resolveWrites_rs2 : ∀ (l : List (Nat × Nat)) (s : St), RS2 s (resolveWrites s l) := by
  intro l
  induction l with
  | nil => intro s; exact ⟨⟨rfl, rfl, rfl, rfl, rfl, rfl, rfl, rfl, rfl, rfl⟩, rfl, rfl, rfl, rfl⟩
  | cons x rest ih =>
    intro s
    obtain ⟨idx, f⟩ := x
    unfold resolveWrites
    split
    · exact ⟨⟨rfl, rfl, rfl, rfl, rfl, rfl, rfl, rfl, rfl, rfl⟩, rfl, rfl, rfl, rfl⟩
    · refine RS2.trans ?_ (ih _)
      exact ⟨⟨rfl, rfl, rfl, rfl, rfl, rfl, rfl, rfl, rfl, by simp [St.emit, evBytes_append, evBytes]⟩, rfl, rfl, rfl,
        by simp [St.emit, dataEvs_append, dataEvs]⟩

/-- a state update that touches none of the read-side fields -/
theorem rs2_of_eq {s s' : St} (h1 : s'.buf = s.buf) (h2 : s'.user = s.user) (h3 : s'.rbytes = s.rbytes)
    (h4 : s'.rdelim = s.rdelim) (h5 : s'.rregex = s.rregex) (h6 : s'.rfut = s.rfut) (h7 : s'.ruc = s.ruc)
    (h8 : s'.closed = s.closed) (h9 : s'.inc = s.inc) (h10 : s'.out = s.out) (h11 : s'.rpartial = s.rpartial)
    (h12 : s'.rmax = s.rmax) (h13 : s'.nextId = s.nextId) : RS2 s s' :=
  ⟨⟨h1, h2, h3, h4, h5, h6, h7, h8, h9, by rw [h10]⟩, h11, h12, h13, by rw [h10]⟩

/-! ### the position `_find_read_pos` selects (the lemmas behind `read_contracts*` of `Props.lean`) -/

theorem read_contracts_aux (s : St) (n p : Nat) (hb : s.rbytes = some n) (hd : s.rdelim = none) (hr : s.rregex = none)
    (h : findReadPos R s = some (some p)) :
    p ≤ s.buf.length ∧ Spec.lenOk n s.rpartial p = true := by
  simp only [findReadPos, hb, hd, hr] at h
  split at h
  · rename_i q hq
    split at hq
    · rename_i hc
      simp at hq h; subst hq; subst h
      simp only [Spec.lenOk]
      cases hp : s.rpartial <;> simp [hp] at hc ⊢ <;> omega
    · simp at hq
  · simp at h

theorem read_contracts_delim_aux (s : St) (d : Bytes) (p : Nat) (hb : s.rbytes = none) (hd : s.rdelim = some d)
    (h : findReadPos R s = some (some p)) :
    ∃ loc, findSub d s.buf = some loc ∧ p = loc + d.length ∧ ∀ m, s.rmax = some m → p ≤ m := by
  simp only [findReadPos, hb, hd] at h
  split at h
  · simp at h
  · split at h
    · rename_i loc hl
      split at h
      · simp at h
      · rename_i ho
        simp at h
        refine ⟨loc, hl, h.symm, ?_⟩
        intro m hm
        simp [overMax, hm] at ho; omega
    · split at h <;> simp at h

theorem read_contracts_regex_aux (s : St) (rid p : Nat) (hb : s.rbytes = none) (hd : s.rdelim = none)
    (hr : s.rregex = some rid) (h : findReadPos R s = some (some p)) :
    R rid s.buf = some p ∧ ∀ m, s.rmax = some m → p ≤ m := by
  simp only [findReadPos, hb, hd, hr] at h
  split at h
  · simp at h
  · split at h
    · rename_i e he
      split at h
      · simp at h
      · rename_i ho
        simp at h
        subst h
        refine ⟨he, ?_⟩
        intro m hm
        simp [overMax, hm] at ho; omega
    · split at h <;> simp at h

/-! ### the consume step -/

/-- what `_finish_read` hands to the future -/
def finRes (s : St) (size : Nat) : Outcome :=
  match s.user with
  | some _ => .into size (s.buf.take size)
  | none => .bytes (s.buf.take size)

theorem finishRead_ok (s : St) (size : Nat) (pq : Option (Nat × Req)) (N : Nat)
    (hev : ∀ g o, (g, o) ∈ dataEvs s.out → ∃ q, pq = some (g, q) ∧ contractOk R q o = true)
    (hn : s.nextId = N)
    (hc : ∀ f, s.rfut = some f → ∃ q, pq = some (f, q) ∧ contractOk R q (finRes s size) = true) :
    Ok R pq N (finishRead s size) ∧ (finishRead s size).rfut = none := by
  unfold finishRead
  refine ⟨(maybeAdd_rs2 _).ok R ?_, ?_⟩
  · cases hfu : s.rfut with
    | none =>
      cases huu : s.user <;>
      · refine ⟨?_, ?_, ?_⟩
        · simpa using hev
        · intro f hf; simp at hf
        · simpa using hn
    | some f =>
      obtain ⟨q, hq, hcq⟩ := hc f hfu
      cases huu : s.user with
      | none =>
        refine ⟨?_, ?_, ?_⟩
        · intro g o hgo
          simp only [St.emit, dataEvs_append, dataEvs, List.mem_append, List.mem_singleton] at hgo
          rcases hgo with h | h
          · exact hev g o h
          · simp only [Prod.mk.injEq] at h
            obtain ⟨rfl, rfl⟩ := h
            refine ⟨q, hq, ?_⟩
            simpa [finRes, huu] using hcq
        · intro f' hf'; simp [St.emit] at hf'
        · simpa [St.emit] using hn
      | some n =>
        refine ⟨?_, ?_, ?_⟩
        · intro g o hgo
          simp only [St.emit, dataEvs_append, dataEvs, List.mem_append, List.mem_singleton] at hgo
          rcases hgo with h | h
          · exact hev g o h
          · simp only [Prod.mk.injEq] at h
            obtain ⟨rfl, rfl⟩ := h
            refine ⟨q, hq, ?_⟩
            simpa [finRes, huu] using hcq
        · intro f' hf'; simp [St.emit] at hf'
        · simpa [St.emit] using hn
  · rw [(maybeAdd_rs _).rfut]
    cases hfu : s.rfut <;> cases huu : s.user <;> simp [St.emit]

/-- the contract of the pending request `q` holds for the bytes `_find_read_pos` selects -/
theorem contract_of_find (hR : RLocal R) (s : St) (i : Inv s) (q : Req) (m : Match s q) (p : Nat)
    (h : findReadPos R s = some (some p)) :
    contractOk R q (finRes s p) = true := by
  cases q with
  | bytes n part =>
    obtain ⟨_, hu, hb, hp, hd, hr⟩ := m
    obtain ⟨h1, h2⟩ := read_contracts_aux R s n p hb hd hr h
    simp [finRes, hu, contractOk, List.length_take, Nat.min_eq_left h1, ← hp, h2]
  | into n part =>
    obtain ⟨_, hu, hb, hp, hd, hr⟩ := m
    obtain ⟨h1, h2⟩ := read_contracts_aux R s n p hb hd hr h
    simp [finRes, hu, contractOk, List.length_take, Nat.min_eq_left h1, ← hp, h2]
  | «until» d max =>
    obtain ⟨_, hu, hb, hd, hm⟩ := m
    obtain ⟨loc, hl, hp, hmx⟩ := read_contracts_delim_aux R s d p hb hd h
    have hbd := findSub_bound d s.buf loc hl
    have hlen : (s.buf.take p).length = p := by rw [List.length_take]; omega
    have hf := findSub_take d s.buf loc p hl (by omega)
    have hw : withinMax max p = true := by
      cases max with
      | none => rfl
      | some mm => simpa [withinMax] using hmx mm hm
    simp only [finRes, hu, contractOk, hlen, hf, hw]
    have : p - d.length = loc := by omega
    simp [this]; omega
  | regex rid max =>
    obtain ⟨_, hu, hb, hd, hr, hm⟩ := m
    obtain ⟨he, hmx⟩ := read_contracts_regex_aux R s rid p hb hd hr h
    obtain ⟨hle, hk⟩ := hR rid s.buf p he
    have hlen : (s.buf.take p).length = p := by rw [List.length_take]; omega
    have hw : withinMax max p = true := by
      cases max with
      | none => rfl
      | some mm => simpa [withinMax] using hmx mm hm
    simp [finRes, hu, contractOk, hlen, hk p (Nat.le_refl _), hw]
  | untilClose =>
    have hp := i.ruc m
    rw [find_params_none R s ⟨hp.1, hp.2.1, hp.2.2.1⟩] at h; simp at h

end TornadoModel.C11
