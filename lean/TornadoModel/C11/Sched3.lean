/-
C11 — arbitrary interleavings of arrivals and stable read requests (part 3: a read on an idle stream; whole runs).
-/
import TornadoModel.C11.Sched2
namespace TornadoModel.C11
open Spec (withinMax)
variable (R : Nat → Bytes → Option Nat)

/-- `_try_inline_read` for a freshly installed stable request on an open stream -/
theorem tryInline_open (hS : RStable R) (hL : RLocal R) (c m : Nat) (hc : 0 < c) (s2 : St) (flat rest : Bytes) (op : Op)
    (f : Nat) (o : OpenSt c m s2 flat) (pd : PendSt s2 op f) (hout : s2.out = []) (hm : flat.length ≤ m)
    (r : Option Nat) (hr : specPos R op (flat ++ rest) = some r) :
    ∃ s3, tryInlineRead R s2 = (s3, none) ∧ (Done c m s3 s3.out flat f r ∨ Wait c m s3 s3.out flat op f) := by
  unfold tryInlineRead
  have hfe := find_enc R s2 op pd.enc
  have hext : flat ++ rest = s2.buf ++ (s2.inc.flatten ++ rest) := by rw [← o.flat, List.append_assoc]
  have hlen : s2.buf.length ≤ flat.length := by
    have := congrArg List.length o.flat
    simp only [List.length_append] at this
    omega
  cases h0 : specPos R op s2.buf with
  | none =>
    rw [hext, specPos_unsat R hS hL op s2.buf _ h0] at hr; cases hr
  | some q =>
    cases q with
    | some p0 =>
      rw [hext, specPos_found R hS op s2.buf _ p0 h0] at hr
      cases hr
      rw [h0] at hfe
      simp only [hfe]
      obtain ⟨a, b, cc, _, e⟩ := rfb_open R hL c m s2 flat op f p0 o pd hfe
      exact ⟨_, rfl, Or.inl ⟨p0, rfl, by omega, a, b, by rw [cc, hout]; rfl⟩⟩
    | none =>
      rw [h0] at hfe
      simp only [hfe, o.closed, Bool.false_eq_true, if_false]
      obtain ⟨s1, res, he, o1, p1, hout1, _, _, hpost⟩ := loop_resolve R c m hc s2 flat op f o pd hm
      have hv := verdict R hS hL s1 flat rest op o1.flat p1.enc res hpost r hr
      rw [he]
      cases res with
      | raised r' => exact absurd hv id
      | pos q =>
        cases q with
        | none =>
          exact ⟨_, rfl, Or.inr ⟨addIo_open o1 true false, addIo_pend p1 true false, by rw [addIo_out, hout1, hout]⟩⟩
        | some p =>
          obtain ⟨hrp, hfind⟩ := hv
          obtain ⟨a, b, cc, _, e⟩ := rfb_open R hL c m s1 flat op f p o1 p1 hfind
          have hlen1 : s1.buf.length ≤ flat.length := by
            have := congrArg List.length o1.flat
            simp only [List.length_append] at this
            omega
          exact ⟨_, rfl, Or.inl ⟨p, hrp, by omega, a, b, by rw [cc, hout1, hout]; rfl⟩⟩

/-- **a stable read on an idle open stream**: completed from the bytes received so far, or pending -/
theorem step_read_open (hS : RStable R) (hL : RLocal R) (c m : Nat) (hc : 0 < c) (s : St) (flat rest : Bytes)
    (o : OpenSt c m s flat) (hf : s.rfut = none) (hm : flat.length ≤ m) (op : Op) (hst : stableRead op = true)
    (r : Option Nat) (hr : specPos R op (flat ++ rest) = some r) :
    Done c m (step R s op).1 (step R s op).2.evs flat s.nextId r ∨
    Wait c m (step R s op).1 (step R s op).2.evs flat op s.nextId := by
  obtain ⟨e1, e2⟩ := step_stable_idle R s op hst hf
  have hp := o.inv.idle hf
  have hruc := not_ruc_of_idle s o.inv hf
  have henc : Enc (installed s op) op := by
    cases op with
    | readBytes n part =>
      cases part with
      | true => simp [stableRead] at hst
      | false => exact ⟨rfl, rfl, hp.2.1, hp.2.2.1⟩
    | readUntil d max => exact ⟨hp.1, rfl, rfl⟩
    | readRegex rid max => exact ⟨hp.1, hp.2.1, rfl, rfl⟩
    | _ => simp [stableRead] at hst
  have hinv : Inv (installed s op) := by
    cases op with
    | readBytes n part =>
      exact start_inv { s with out := [] } s.nextId (s.nextId + 1) (some n) part s.rdelim s.rregex s.rmax s.ruc s.user
        (by intro h'; simp [hruc] at h') (by intro k hk; rw [hp.2.2.2] at hk; simp at hk) (fun _ => hruc)
    | readUntil d max =>
      exact start_inv { s with out := [] } s.nextId (s.nextId + 1) s.rbytes s.rpartial (some d) s.rregex max s.ruc s.user
        (by intro h'; simp [hruc] at h') (by intro k hk; rw [hp.2.2.2] at hk; simp at hk) (fun _ => hruc)
    | readRegex rid max =>
      exact start_inv { s with out := [] } s.nextId (s.nextId + 1) s.rbytes s.rpartial s.rdelim (some rid) max s.ruc s.user
        (by intro h'; simp [hruc] at h') (by intro k hk; rw [hp.2.2.2] at hk; simp at hk) (fun _ => hruc)
    | _ => simp [stableRead] at hst
  have hfields : (installed s op).rfut = some s.nextId ∧ (installed s op).out = [] ∧
      OpenSt c m (installed s op) flat := by
    cases op with
    | readBytes n part => exact ⟨rfl, rfl, o.same hinv rfl rfl rfl rfl rfl rfl rfl rfl rfl rfl⟩
    | readUntil d max => exact ⟨rfl, rfl, o.same hinv rfl rfl rfl rfl rfl rfl rfl rfl rfl rfl⟩
    | readRegex rid max => exact ⟨rfl, rfl, o.same hinv rfl rfl rfl rfl rfl rfl rfl rfl rfl rfl⟩
    | _ => simp [stableRead] at hst
  obtain ⟨g1, g2, o2⟩ := hfields
  obtain ⟨s3, ht, hres⟩ := tryInline_open R hS hL c m hc (installed s op) flat rest op s.nextId o2 ⟨g1, henc, hst⟩ g2 hm r hr
  have hfin : (finishInline R (closeOnUnsat op) (installed s op) s.nextId).1 = s3 := by
    unfold finishInline; rw [ht]
  rw [hfin] at e1 e2
  rw [e1, e2]
  exact hres

/-! ### whole runs -/

def fedOf (ops : List Op) : Bytes := (ops.map fed).flatten

/-- the ops of a schedule: arrivals and stable read requests -/
def schedOp : Op → Bool
  | .feed _ => true
  | op => stableRead op

/-- the requests the stream accepts (issued while no other read is pending), in order -/
def accepted : St → List Op → List Op
  | _, [] => []
  | s, op :: ops => (if stableRead op && s.rfut.isNone then [op] else []) ++ accepted (step R s op).1 ops

theorem batch_spec (b : Bytes) (op : Op) (ops : List Op) (results : List Bytes)
    (hb : batch R b (op :: ops) = some results) : ∃ r, specPos R op b = some r := by
  simp only [batch] at hb
  cases h : specPos R op b with
  | none => rw [h] at hb; simp at hb
  | some r => exact ⟨r, rfl⟩

theorem batch_done (b : Bytes) (op : Op) (ops : List Op) (results : List Bytes) (p : Nat)
    (hb : batch R b (op :: ops) = some results) (hsp : specPos R op b = some (some p)) :
    ∃ results', batch R (b.drop p) ops = some results' ∧ results = b.take p :: results' := by
  simp only [batch, hsp] at hb
  cases h : batch R (b.drop p) ops with
  | none => rw [h] at hb; simp at hb
  | some results' =>
    rw [h] at hb
    simp only [Option.map_some, Option.some.injEq] at hb
    exact ⟨results', rfl, hb.symm⟩

theorem fed_stable (op : Op) (h : stableRead op = true) : fed op = [] := by
  cases op <;> first | rfl | simp [stableRead] at h

/-- **any interleaving**: the results handed out so far are the first results of the strict batch reader over the
    WHOLE stream (including bytes that arrive later) applied to the accepted requests -/
theorem sched_prefix (hS : RStable R) (hL : RLocal R) (c m : Nat) (hc : 0 < c) : ∀ (ops : List Op) (s : St) (flat : Bytes),
    OpenSt c m s flat → (∀ op ∈ ops, schedOp op = true) → (flat ++ fedOf ops).length ≤ m →
    (s.rfut = none → ∀ results, batch R (flat ++ fedOf ops) (accepted R s ops) = some results →
      (dataEvs (evsOf (run R s ops).2)).map (·.2) <+: results.map .bytes) ∧
    (∀ op0 f, PendSt s op0 f → ∀ results, batch R (flat ++ fedOf ops) (op0 :: accepted R s ops) = some results →
      (dataEvs (evsOf (run R s ops).2)).map (·.2) <+: results.map .bytes) := by
  intro ops
  induction ops with
  | nil =>
    intro s flat _ _ _
    exact ⟨fun _ _ _ => List.nil_prefix, fun _ _ _ _ _ => List.nil_prefix⟩
  | cons op ops ih =>
    intro s flat o hall hm
    have hall' : ∀ o' ∈ ops, schedOp o' = true := fun o' ho' => hall o' (by simp [ho'])
    -- what a completed request contributes
    have done_case : ∀ (flat' : Bytes) (f : Nat) (op1 : Op) (acc : List Op) (results : List Bytes) (r : Option Nat),
        (flat' ++ fedOf ops).length ≤ m →
        batch R (flat' ++ fedOf ops) (op1 :: accepted R (step R s op).1 ops) = some results →
        specPos R op1 (flat' ++ fedOf ops) = some r →
        Done c m (step R s op).1 (step R s op).2.evs flat' f r →
        (dataEvs (evsOf ((step R s op).2 :: (run R (step R s op).1 ops).2))).map (·.2) <+: results.map .bytes := by
      intro flat' f op1 acc results r hm' hb hsp hd
      obtain ⟨p, hrp, hple, o', hf', hev⟩ := hd
      subst hrp
      obtain ⟨results', hb', hres⟩ := batch_done R _ op1 _ results p hb hsp
      rw [List.drop_append_of_le_length hple] at hb'
      rw [List.take_append_of_le_length hple] at hres
      have hm'' : (flat'.drop p ++ fedOf ops).length ≤ m := by
        simp only [List.length_append, List.length_drop] at hm' ⊢; omega
      have := (ih _ _ o' hall' hm'').1 hf' results' hb'
      rw [evsOf_cons, hev, dataEvs_append, List.map_append, hres]
      simp only [dataEvs, List.map_cons, List.map_nil, List.singleton_append]
      exact List.cons_prefix_cons.2 ⟨rfl, this⟩
    have wait_case : ∀ (flat' : Bytes) (f : Nat) (op1 : Op) (results : List Bytes),
        (flat' ++ fedOf ops).length ≤ m →
        batch R (flat' ++ fedOf ops) (op1 :: accepted R (step R s op).1 ops) = some results →
        Wait c m (step R s op).1 (step R s op).2.evs flat' op1 f →
        (dataEvs (evsOf ((step R s op).2 :: (run R (step R s op).1 ops).2))).map (·.2) <+: results.map .bytes := by
      intro flat' f op1 results hm' hb hw
      obtain ⟨o', p', hev⟩ := hw
      have := (ih _ _ o' hall' hm').2 op1 f p' results hb
      rw [evsOf_cons, hev, List.nil_append]
      exact this
    rw [run_cons_snd]
    by_cases hst : stableRead op = true
    · -- a read request
      have hfed : fedOf (op :: ops) = fedOf ops := by
        simp [fedOf, fed_stable op hst]
      rw [hfed] at hm ⊢
      constructor
      · intro hf results hb
        have hacc : accepted R s (op :: ops) = op :: accepted R (step R s op).1 ops := by
          simp [accepted, hst, hf]
        rw [hacc] at hb
        obtain ⟨r, hsp⟩ := batch_spec R _ op _ results hb
        have hflat : flat.length ≤ m := by simp only [List.length_append] at hm; omega
        rcases step_read_open R hS hL c m hc s flat (fedOf ops) o hf hflat op hst r hsp with hd | hw
        · exact done_case flat s.nextId op [] results r hm hb hsp hd
        · exact wait_case flat s.nextId op results hm hb hw
      · intro op0 f pd results hb
        have hacc : accepted R s (op :: ops) = accepted R (step R s op).1 ops := by
          simp [accepted, pd.rfut]
        rw [hacc] at hb
        exact wait_case flat f op0 results hm hb (step_read_rej R c m s flat op0 f o pd op hst)
    · -- an arrival
      cases op with
      | feed b =>
        have hfed : flat ++ fedOf (.feed b :: ops) = (flat ++ b) ++ fedOf ops := by
          simp [fedOf, fed, List.append_assoc]
        have hacc : accepted R s (.feed b :: ops) = accepted R (step R s (.feed b)).1 ops := by
          simp [accepted, stableRead]
        rw [hfed] at hm ⊢
        rw [hacc]
        have hflat : (flat ++ b).length ≤ m := by
          rw [List.length_append] at hm; omega
        constructor
        · intro hf results hb
          obtain ⟨o', hf', hev, _⟩ := step_feed_idle2 R c m hc s flat o hf b hflat
          have := (ih _ _ o' hall' hm).1 hf' results hb
          rw [evsOf_cons, hev, List.nil_append]
          exact this
        · intro op0 f pd results hb
          obtain ⟨r, hsp⟩ := batch_spec R _ op0 _ results hb
          rcases step_feed_pend R hS hL c m hc s flat (fedOf ops) op0 f o pd b hflat r hsp with hd | hw
          · exact done_case (flat ++ b) f op0 [] results r hm hb hsp hd
          · exact wait_case (flat ++ b) f op0 results hm hb hw
      | _ =>
        have := hall _ (List.mem_cons_self)
        simp [schedOp] at this
        exact absurd this hst

end TornadoModel.C11
