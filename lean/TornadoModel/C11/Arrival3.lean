/-
C11 — arrival independence, part 3: a read request issued on an idle stream whose transport holds the (segmented)
rest of the byte stream returns what `specPos` says about the whole rest; runs of requests return `batch`.
-/
import TornadoModel.C11.Arrival2
namespace TornadoModel.C11
open Spec (withinMax)
variable (R : Nat → Bytes → Option Nat)

/-- an open, idle stream (no pending read, no close callback, no handler registered) whose buffer and transport
    together hold exactly `flat` -/
structure IdleSt (c m : Nat) (s : St) (flat : Bytes) : Prop where
  rfut : s.rfut = none
  closed : s.closed = false
  eof : s.eof = false
  rerr : s.rerr = none
  flat : s.buf ++ s.inc.flatten = flat
  ne : ∀ ch ∈ s.inc, ch ≠ []
  chunk : s.chunk = c
  maxBuf : s.maxBuf = m
  io : s.io = none
  cb : s.cb = false
  inv : Inv s

theorem Enc.same {s s' : St} (op : Op) (h : Enc s op) (h1 : s'.rbytes = s.rbytes) (h2 : s'.rpartial = s.rpartial)
    (h3 : s'.rdelim = s.rdelim) (h4 : s'.rregex = s.rregex) (h5 : s'.rmax = s.rmax) : Enc s' op := by
  cases op with
  | readBytes n part => cases part <;> simp only [Enc] at h ⊢ <;> simp_all
  | readUntil d max => simp only [Enc] at h ⊢; simp_all
  | readRegex rid max => simp only [Enc] at h ⊢; simp_all
  | _ => exact h

theorem addIo_out (s : St) (r w : Bool) : (addIo s r w).out = s.out := by
  unfold addIo; split
  · rfl
  · split <;> rfl

/-- `_read_from_buffer` on a calm stream without close callback: the bytes go to the future, the stream is idle again -/
theorem readFromBuffer_idle (hL : RLocal R) (c m : Nat) (s1 : St) (op : Op) (f p : Nat) (cl : Calm s1) (henc : Enc s1 op)
    (hf : s1.rfut = some f) (hio : s1.io = none) (hcb : s1.cb = false) (i : Inv s1) (hout : s1.out = [])
    (hc : s1.chunk = c) (hm : s1.maxBuf = m) (h : findReadPos R s1 = some (some p)) :
    IdleSt c m (readFromBuffer s1 p) ((s1.buf ++ s1.inc.flatten).drop p) ∧
    (readFromBuffer s1 p).out = [.settle f (.bytes ((s1.buf ++ s1.inc.flatten).take p))] ∧
    (readFromBuffer s1 p).nextId = s1.nextId := by
  have hple : p ≤ s1.buf.length := by
    rw [find_enc R s1 op henc] at h
    exact specPos_le R hL op s1.buf p h
  have hi := (readFromBuffer_pres R s1 i p h).1
  have e : readFromBuffer s1 p =
      { s1 with rbytes := none, rdelim := none, rregex := none, rpartial := false, buf := s1.buf.drop p, rfut := none,
                out := [.settle f (.bytes (s1.buf.take p))] } := by
    simp [readFromBuffer, finishRead, cl.user, hf, St.emit, maybeAddErrorListener, hio, hcb, hout]
  rw [e] at hi ⊢
  refine ⟨⟨rfl, cl.closed, cl.eof, cl.rerr, ?_, cl.ne, hc, hm, hio, hcb, hi⟩, ?_, rfl⟩
  · simp only []
    rw [List.drop_append_of_le_length hple]
  · simp only []
    rw [List.take_append_of_le_length hple]

/-- outcome of `_try_inline_read` by what `specPos` says about the whole rest `flat` of the stream -/
def InlinePost (c m f n0 : Nat) (flat : Bytes) (s3 : St) : Option Nat → Prop
  | some p => IdleSt c m s3 (flat.drop p) ∧ s3.out = [.settle f (.bytes (flat.take p))] ∧ s3.nextId = n0
  | none => s3.rfut = some f ∧ s3.out = []

/-- outcome of a whole step -/
def StepPost (c m f : Nat) (flat : Bytes) (so : St × Out) : Option Nat → Prop
  | some p => IdleSt c m so.1 (flat.drop p) ∧ so.2.evs = [.settle f (.bytes (flat.take p))]
  | none => so.1.rfut.isSome = true ∧ so.2.evs = []

/-- `_try_inline_read` for a freshly installed stable request on a calm stream -/
theorem tryInline_calm (hS : RStable R) (hL : RLocal R) (c m : Nat) (s2 : St) (op : Op) (f : Nat) (cl : Calm s2)
    (henc : Enc s2 op) (hf : s2.rfut = some f) (hio : s2.io = none) (hcb : s2.cb = false) (i : Inv s2)
    (hout : s2.out = []) (hc : s2.chunk = c) (hm : s2.maxBuf = m) (r : Option Nat)
    (hr : specPos R op (s2.buf ++ s2.inc.flatten) = some r) :
    ∃ s3, tryInlineRead R s2 = (s3, none) ∧ InlinePost c m f s2.nextId (s2.buf ++ s2.inc.flatten) s3 r := by
  unfold tryInlineRead
  have hfe := find_enc R s2 op henc
  cases h0 : specPos R op s2.buf with
  | none =>
    rw [specPos_unsat R hS hL op s2.buf s2.inc.flatten h0] at hr; cases hr
  | some q =>
    cases q with
    | some p0 =>
      rw [specPos_found R hS op s2.buf s2.inc.flatten p0 h0] at hr
      cases hr
      rw [h0] at hfe
      simp only [hfe]
      exact ⟨_, rfl, readFromBuffer_idle R hL c m s2 op f p0 cl henc hf hio hcb i hout hc hm hfe⟩
    | none =>
      rw [h0] at hfe
      simp only [hfe, cl.closed, Bool.false_eq_true, if_false]
      have hinv := (readLoop_pres R s2 i).1.1
      rw [readLoop_enc R s2 op henc (by simp [hf])] at hinv ⊢
      obtain ⟨s1, res, he, hp, c1, hpost⟩ := loopGo_calm R (tgt op) (incBytes s2 + 3) 0 s2 cl (by omega)
      rw [he] at hinv ⊢
      have hflat := hp.flat
      obtain ⟨x, inc1, hs1, hx⟩ := hp
      have henc1 : Enc s1 op := by subst hs1; exact henc.same op rfl rfl rfl rfl rfl
      have hf1 : s1.rfut = some f := by subst hs1; exact hf
      have hio1 : s1.io = none := by subst hs1; exact hio
      have hcb1 : s1.cb = false := by subst hs1; exact hcb
      have hout1 : s1.out = [] := by subst hs1; exact hout
      have hc1 : s1.chunk = c := by subst hs1; exact hc
      have hm1 : s1.maxBuf = m := by subst hs1; exact hm
      have hn1 : s1.nextId = s2.nextId := by subst hs1; rfl
      have hfe1 := find_enc R s1 op henc1
      rw [← hflat] at hr ⊢
      cases res with
      | raised r' =>
        obtain ⟨_, hnone⟩ := hpost
        rw [hfe1] at hnone
        rw [specPos_unsat R hS hL op s1.buf s1.inc.flatten hnone] at hr; cases hr
      | pos q =>
        cases q with
        | some p =>
          have hfind : findReadPos R s1 = some (some p) := hpost
          have hsp := hfind
          rw [hfe1] at hsp
          rw [specPos_found R hS op s1.buf s1.inc.flatten p hsp] at hr
          cases hr
          simp only []
          have := readFromBuffer_idle R hL c m s1 op f p c1 henc1 hf1 hio1 hcb1 hinv hout1 hc1 hm1 hfind
          exact ⟨_, rfl, this.1, this.2.1, this.2.2.trans hn1⟩
        | none =>
          obtain ⟨hsn, hstop⟩ := hpost
          rw [hfe1] at hsn
          have hrn := specPos_pending R hL op s1.buf s1.inc.flatten hsn
            (by rcases hstop with h | h
                · left; rw [h]; rfl
                · right; exact h) r hr
          subst hrn
          simp only []
          exact ⟨_, rfl, by rw [(addIo_rs s1 true false).rfut]; exact hf1, by rw [addIo_out]; exact hout1⟩

/-- the state a stable read op installs on an idle stream -/
def installed (s : St) : Op → St
  | .readBytes n part => { s with out := [], rfut := some s.nextId, nextId := s.nextId + 1, rbytes := some n, rpartial := part }
  | .readUntil d max => { s with out := [], rfut := some s.nextId, nextId := s.nextId + 1, rdelim := some d, rmax := max }
  | .readRegex rid max => { s with out := [], rfut := some s.nextId, nextId := s.nextId + 1, rregex := some rid, rmax := max }
  | _ => s

def closeOnUnsat : Op → Bool
  | .readUntil _ _ => true
  | .readRegex _ _ => true
  | _ => false

theorem step_stable_idle (s : St) (op : Op) (hst : stableRead op = true) (hf : s.rfut = none) :
    (step R s op).1 = (finishInline R (closeOnUnsat op) (installed s op) s.nextId).1 ∧
    (step R s op).2.evs = (finishInline R (closeOnUnsat op) (installed s op) s.nextId).1.out := by
  have hs : startRead { s with out := [] } =
      .inr ({ s with out := [], rfut := some s.nextId, nextId := s.nextId + 1 }, s.nextId) := by
    simp [startRead, hf]
  cases op with
  | readBytes n part => simp only [step, doStep, hs, installed, closeOnUnsat]; exact ⟨trivial, trivial⟩
  | readUntil d max => simp only [step, doStep, hs, installed, closeOnUnsat]; exact ⟨trivial, trivial⟩
  | readRegex rid max => simp only [step, doStep, hs, installed, closeOnUnsat]; exact ⟨trivial, trivial⟩
  | _ => simp [stableRead] at hst

/-- **one stable read on an idle stream**: satisfied from the whole rest of the stream, or pending -/
theorem step_read_idle (hS : RStable R) (hL : RLocal R) (c m : Nat) (hc : 0 < c) (s : St) (flat : Bytes)
    (h : IdleSt c m s flat) (hm : flat.length ≤ m) (op : Op) (hst : stableRead op = true) (r : Option Nat)
    (hr : specPos R op flat = some r) :
    StepPost c m s.nextId flat (step R s op) r := by
  obtain ⟨e1, e2⟩ := step_stable_idle R s op hst h.rfut
  have hp := h.inv.idle h.rfut
  have hruc := not_ruc_of_idle s h.inv h.rfut
  -- facts about the installed state
  have hcalm : Calm (installed s op) := by
    have room : s.buf.length + incBytes s ≤ s.maxBuf := by
      rw [incBytes_eq, h.maxBuf, ← List.length_append, h.flat]; exact hm
    cases op with
    | readBytes n part => exact ⟨h.closed, h.eof, h.rerr, h.ne, by rw [show (installed s _).chunk = s.chunk from rfl, h.chunk]; exact hc, hp.2.2.2, room⟩
    | readUntil d max => exact ⟨h.closed, h.eof, h.rerr, h.ne, by rw [show (installed s _).chunk = s.chunk from rfl, h.chunk]; exact hc, hp.2.2.2, room⟩
    | readRegex rid max => exact ⟨h.closed, h.eof, h.rerr, h.ne, by rw [show (installed s _).chunk = s.chunk from rfl, h.chunk]; exact hc, hp.2.2.2, room⟩
    | _ => simp [stableRead] at hst
  have henc : Enc (installed s op) op := by
    cases op with
    | readBytes n part =>
      cases part with
      | true => simp [stableRead] at hst
      | false => exact ⟨rfl, rfl, hp.2.1, hp.2.2.1⟩
    | readUntil d max => exact ⟨hp.1, rfl, rfl⟩
    | readRegex rid max => exact ⟨hp.1, hp.2.1, rfl, rfl⟩
    | _ => simp [stableRead] at hst
  have hinv : Inv (installed s op) := by
    cases op with
    | readBytes n part =>
      exact start_inv { s with out := [] } s.nextId (s.nextId + 1) (some n) part s.rdelim s.rregex s.rmax s.ruc s.user
        (by intro h'; simp [hruc] at h') (by intro k hk; rw [hp.2.2.2] at hk; simp at hk) (fun _ => hruc)
    | readUntil d max =>
      exact start_inv { s with out := [] } s.nextId (s.nextId + 1) s.rbytes s.rpartial (some d) s.rregex max s.ruc s.user
        (by intro h'; simp [hruc] at h') (by intro k hk; rw [hp.2.2.2] at hk; simp at hk) (fun _ => hruc)
    | readRegex rid max =>
      exact start_inv { s with out := [] } s.nextId (s.nextId + 1) s.rbytes s.rpartial s.rdelim (some rid) max s.ruc s.user
        (by intro h'; simp [hruc] at h') (by intro k hk; rw [hp.2.2.2] at hk; simp at hk) (fun _ => hruc)
    | _ => simp [stableRead] at hst
  have hfields : (installed s op).rfut = some s.nextId ∧ (installed s op).io = none ∧ (installed s op).cb = false ∧
      (installed s op).out = [] ∧ (installed s op).chunk = c ∧ (installed s op).maxBuf = m ∧
      (installed s op).buf ++ (installed s op).inc.flatten = flat ∧ (installed s op).nextId = s.nextId + 1 := by
    cases op with
    | readBytes n part => exact ⟨rfl, h.io, h.cb, rfl, h.chunk, h.maxBuf, h.flat, rfl⟩
    | readUntil d max => exact ⟨rfl, h.io, h.cb, rfl, h.chunk, h.maxBuf, h.flat, rfl⟩
    | readRegex rid max => exact ⟨rfl, h.io, h.cb, rfl, h.chunk, h.maxBuf, h.flat, rfl⟩
    | _ => simp [stableRead] at hst
  obtain ⟨g1, g2, g3, g4, g5, g6, g7, g8⟩ := hfields
  obtain ⟨s3, ht, hres⟩ := tryInline_calm R hS hL c m (installed s op) op s.nextId hcalm henc g1 g2 g3 hinv g4 g5 g6 r
    (by rw [g7]; exact hr)
  have hfin : (finishInline R (closeOnUnsat op) (installed s op) s.nextId).1 = s3 := by
    unfold finishInline; rw [ht]
  rw [hfin] at e1 e2
  rw [g7, g8] at hres
  cases r with
  | some p => exact ⟨by rw [e1]; exact hres.1, by rw [e2]; exact hres.2.1⟩
  | none => exact ⟨by rw [e1, hres.1]; rfl, by rw [e2]; exact hres.2⟩

/-- a stable read while another read is pending is rejected without any effect -/
theorem step_read_pending (s : St) (op : Op) (hst : stableRead op = true) (hf : s.rfut.isSome = true) :
    (step R s op).1.rfut.isSome = true ∧ (step R s op).2.evs = [] := by
  cases hfu : s.rfut with
  | none => simp [hfu] at hf
  | some f0 =>
    have : ∃ r, startRead { s with out := [] } = .inl r := by
      simp only [startRead, hfu]; split <;> exact ⟨_, rfl⟩
    obtain ⟨r, hr⟩ := this
    cases op with
    | readBytes n part => simp only [step, doStep, hr]; exact ⟨by simp [hfu], trivial⟩
    | readUntil d max => simp only [step, doStep, hr]; exact ⟨by simp [hfu], trivial⟩
    | readRegex rid max => simp only [step, doStep, hr]; exact ⟨by simp [hfu], trivial⟩
    | _ => simp [stableRead] at hst

theorem step_feed_idle (s : St) (b : Bytes) (hio : s.io = none) :
    step R s (.feed b) = (if b.isEmpty then { s with out := [] } else { s with out := [], inc := s.inc ++ [b] },
                          { ret := .unit, evs := [] }) := by
  by_cases hb : b.isEmpty = true <;> simp [step, doStep, dispatch, hio, hb]

theorem feed_idle (c m : Nat) (s : St) (flat : Bytes) (h : IdleSt c m s flat) (b : Bytes) :
    IdleSt c m (step R s (.feed b)).1 (flat ++ b) ∧ (step R s (.feed b)).2.evs = [] := by
  rw [step_feed_idle R s b h.io]
  refine ⟨?_, rfl⟩
  have i0 : Inv { s with out := [] } := by
    obtain ⟨a, b, c, d, e⟩ := h.inv; exact ⟨a, b, c, d, e⟩
  by_cases hb : b.isEmpty = true
  · have : b = [] := by simpa using hb
    subst this
    simp only [List.isEmpty_nil, if_true, List.append_nil]
    exact ⟨h.rfut, h.closed, h.eof, h.rerr, h.flat, h.ne, h.chunk, h.maxBuf, h.io, h.cb, i0⟩
  · simp only [hb, Bool.false_eq_true, if_false]
    have i1 : Inv { s with out := [], inc := s.inc ++ [b] } := by
      obtain ⟨a, b, c, d, e⟩ := h.inv; exact ⟨a, b, c, d, e⟩
    refine ⟨h.rfut, h.closed, h.eof, h.rerr, ?_, ?_, h.chunk, h.maxBuf, h.io, h.cb, i1⟩
    · simp only [List.flatten_append, List.flatten_cons, List.flatten_nil, List.append_nil]
      rw [← List.append_assoc, h.flat]
    · intro ch hch
      rcases List.mem_append.1 hch with h1 | h1
      · exact h.ne ch h1
      · simp at h1; subst h1; intro h0; subst h0; simp at hb

end TornadoModel.C11
