/-
C11 — arrival independence for ARBITRARY interleavings of arrivals and stable read requests (part 1: states).
`OpenSt`: an open stream without close callback, no EOF / error in sight, `buf ++ transport = flat`.
A pending stable read (`PendSt`) is completed by the read loop with the bytes `specPos` selects in ANY extension of
the bytes received so far.
-/
import TornadoModel.C11.Arrival4
namespace TornadoModel.C11
open Spec (withinMax)
variable (R : Nat → Bytes → Option Nat)

theorem maybeAdd_nocb (s : St) (h : s.cb = false) : maybeAddErrorListener s = s := by
  unfold maybeAddErrorListener
  split <;> simp [h]

structure OpenSt (c m : Nat) (s : St) (flat : Bytes) : Prop where
  closed : s.closed = false
  eof : s.eof = false
  rerr : s.rerr = none
  flat : s.buf ++ s.inc.flatten = flat
  ne : ∀ ch ∈ s.inc, ch ≠ []
  chunk : s.chunk = c
  maxBuf : s.maxBuf = m
  cb : s.cb = false
  connecting : s.connecting = false
  user : s.user = none
  inv : Inv s

structure PendSt (s : St) (op : Op) (f : Nat) : Prop where
  rfut : s.rfut = some f
  enc : Enc s op
  st : stableRead op = true

theorem OpenSt.calm {c m : Nat} {s : St} {flat : Bytes} (o : OpenSt c m s flat) (hc : 0 < c) (hm : flat.length ≤ m) :
    Calm s := by
  refine ⟨o.closed, o.eof, o.rerr, o.ne, by rw [o.chunk]; exact hc, o.user, ?_⟩
  rw [incBytes_eq, o.maxBuf, ← List.length_append, o.flat]; exact hm

/-- a state that differs from an open one only in fields the read side does not look at -/
theorem OpenSt.same {c m : Nat} {s s' : St} {flat : Bytes} (o : OpenSt c m s flat) (i' : Inv s')
    (h1 : s'.closed = s.closed) (h2 : s'.eof = s.eof) (h3 : s'.rerr = s.rerr) (h4 : s'.buf = s.buf) (h5 : s'.inc = s.inc)
    (h6 : s'.chunk = s.chunk) (h7 : s'.maxBuf = s.maxBuf) (h8 : s'.cb = s.cb) (h9 : s'.connecting = s.connecting)
    (h10 : s'.user = s.user) : OpenSt c m s' flat :=
  ⟨h1.trans o.closed, h2.trans o.eof, h3.trans o.rerr, by rw [h4, h5]; exact o.flat, by rw [h5]; exact o.ne,
   h6.trans o.chunk, h7.trans o.maxBuf, h8.trans o.cb, h9.trans o.connecting, h10.trans o.user, i'⟩

theorem PendSt.same {s s' : St} {op : Op} {f : Nat} (p : PendSt s op f) (h0 : s'.rfut = s.rfut)
    (h1 : s'.rbytes = s.rbytes) (h2 : s'.rpartial = s.rpartial) (h3 : s'.rdelim = s.rdelim)
    (h4 : s'.rregex = s.rregex) (h5 : s'.rmax = s.rmax) : PendSt s' op f :=
  ⟨h0.trans p.rfut, p.enc.same op h1 h2 h3 h4 h5, p.st⟩

/-- the read loop with a pending stable read on an open stream -/
theorem loop_resolve (c m : Nat) (hc : 0 < c) (s : St) (flat : Bytes) (op : Op) (f : Nat) (o : OpenSt c m s flat)
    (p : PendSt s op f) (hm : flat.length ≤ m) :
    ∃ s1 res, readLoop R s = (s1, res) ∧ OpenSt c m s1 flat ∧ PendSt s1 op f ∧ s1.out = s.out ∧ s1.nextId = s.nextId ∧
      s1.io = s.io ∧ LoopPost R (tgt op) s1 res := by
  have hinv := (readLoop_pres R s o.inv).1.1
  rw [readLoop_enc R s op p.enc (by simp [p.rfut])] at hinv ⊢
  obtain ⟨s1, res, he, hp, c1, hpost⟩ := loopGo_calm R (tgt op) (incBytes s + 3) 0 s (o.calm hc hm) (by omega)
  rw [he] at hinv
  have hflat := hp.flat
  obtain ⟨x, inc1, hs1, hx⟩ := hp
  refine ⟨s1, res, he, ?_, ?_, ?_, ?_, ?_, hpost⟩
  · exact ⟨c1.closed, c1.eof, c1.rerr, hflat.trans o.flat, c1.ne, by subst hs1; exact o.chunk, by subst hs1; exact o.maxBuf,
      by subst hs1; exact o.cb, by subst hs1; exact o.connecting, c1.user, hinv⟩
  · subst hs1; exact p.same rfl rfl rfl rfl rfl rfl
  · subst hs1; rfl
  · subst hs1; rfl
  · subst hs1; rfl

/-- the read loop without a pending read (a READ event on an idle stream): it only moves bytes -/
theorem loop_idle (c m : Nat) (hc : 0 < c) (s : St) (flat : Bytes) (o : OpenSt c m s flat) (hf : s.rfut = none)
    (hm : flat.length ≤ m) :
    ∃ s1, readLoop R s = (s1, .pos none) ∧ OpenSt c m s1 flat ∧ s1.rfut = none ∧ s1.out = s.out ∧ s1.nextId = s.nextId := by
  have hinv := (readLoop_pres R s o.inv).1.1
  have hpn := o.inv.idle hf
  obtain ⟨target, e⟩ : ∃ t, readLoop R s = loopGo R t (incBytes s + 3) 0 s := ⟨_, rfl⟩
  rw [e] at hinv ⊢
  obtain ⟨s1, res, he, hp, c1, hpost⟩ := loopGo_calm R target (incBytes s + 3) 0 s (o.calm hc hm) (by omega)
  rw [he] at hinv ⊢
  have hflat := hp.flat
  obtain ⟨x, inc1, hs1, hx⟩ := hp
  have hfind : findReadPos R s1 = some none := by
    subst hs1
    exact find_params_none R _ ⟨hpn.1, hpn.2.1, hpn.2.2.1⟩
  have hres : res = .pos none := by
    cases res with
    | raised r => obtain ⟨_, h⟩ := hpost; rw [hfind] at h; cases h
    | pos q =>
      cases q with
      | none => rfl
      | some p => have h : findReadPos R s1 = some (some p) := hpost; rw [hfind] at h; cases h
  subst hres
  refine ⟨s1, rfl, ?_, by subst hs1; exact hf, by subst hs1; rfl, by subst hs1; rfl⟩
  exact ⟨c1.closed, c1.eof, c1.rerr, hflat.trans o.flat, c1.ne, by subst hs1; exact o.chunk, by subst hs1; exact o.maxBuf,
    by subst hs1; exact o.cb, by subst hs1; exact o.connecting, c1.user, hinv⟩

/-- `_read_from_buffer` completing a pending stable read on an open stream -/
theorem rfb_open (hL : RLocal R) (c m : Nat) (s1 : St) (flat : Bytes) (op : Op) (f p : Nat) (o : OpenSt c m s1 flat)
    (pd : PendSt s1 op f) (h : findReadPos R s1 = some (some p)) :
    OpenSt c m (readFromBuffer s1 p) (flat.drop p) ∧ (readFromBuffer s1 p).rfut = none ∧
    (readFromBuffer s1 p).out = s1.out ++ [.settle f (.bytes (flat.take p))] ∧
    (readFromBuffer s1 p).nextId = s1.nextId ∧ p ≤ s1.buf.length := by
  have hple : p ≤ s1.buf.length := by
    rw [find_enc R s1 op pd.enc] at h
    exact specPos_le R hL op s1.buf p h
  have hi := (readFromBuffer_pres R s1 o.inv p h).1
  have e : readFromBuffer s1 p =
      { s1 with rbytes := none, rdelim := none, rregex := none, rpartial := false, buf := s1.buf.drop p, rfut := none,
                out := s1.out ++ [.settle f (.bytes (s1.buf.take p))] } := by
    simp [readFromBuffer, finishRead, o.user, pd.rfut, St.emit, maybeAdd_nocb, o.cb]
  rw [e] at hi ⊢
  have hfl := o.flat
  refine ⟨⟨o.closed, o.eof, o.rerr, ?_, o.ne, o.chunk, o.maxBuf, o.cb, o.connecting, o.user, hi⟩, rfl, ?_, rfl, hple⟩
  · simp only []
    rw [← hfl, List.drop_append_of_le_length hple]
  · simp only []
    rw [← hfl, List.take_append_of_le_length hple]

/-- the loop's verdict against what `specPos` says about any extension `flat ++ rest` of the bytes received so far -/
theorem verdict (hS : RStable R) (hL : RLocal R) (s1 : St) (flat rest : Bytes) (op : Op)
    (hflat : s1.buf ++ s1.inc.flatten = flat) (henc : Enc s1 op) (res : LoopRes) (hpost : LoopPost R (tgt op) s1 res)
    (r : Option Nat) (hr : specPos R op (flat ++ rest) = some r) :
    match res with
    | .pos (some p) => r = some p ∧ findReadPos R s1 = some (some p)
    | .pos none => True
    | .raised _ => False := by
  have hfe := find_enc R s1 op henc
  have hext : flat ++ rest = s1.buf ++ (s1.inc.flatten ++ rest) := by rw [← hflat, List.append_assoc]
  rw [hext] at hr
  cases res with
  | raised r' =>
    obtain ⟨_, hnone⟩ := hpost
    rw [hfe] at hnone
    rw [specPos_unsat R hS hL op s1.buf _ hnone] at hr; cases hr
  | pos q =>
    cases q with
    | none => trivial
    | some p =>
      have hfind : findReadPos R s1 = some (some p) := hpost
      have hsp := hfind
      rw [hfe] at hsp
      rw [specPos_found R hS op s1.buf _ p hsp] at hr
      cases hr
      exact ⟨rfl, hfind⟩

end TornadoModel.C11
