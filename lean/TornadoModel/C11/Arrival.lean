/-
C11 — arrival independence.  `batch` is the strict batch reader: what a sequence of (non-partial) read requests
returns when the whole byte stream is known.  `Arrival2.lean` shows that the stream machine, reading the same bytes
from the transport in ANY segmentation, returns exactly `batch`.

This file: the position function `specPos` (= `_find_read_pos` on the whole stream) and its behaviour on a prefix of
the stream (what the machine sees while only part of the data is buffered).
-/
import TornadoModel.C11.StdR
namespace TornadoModel.C11
open Spec (withinMax)
variable (R : Nat → Bytes → Option Nat)

/-- the requests whose result is a function of the byte stream alone: `read_bytes(n)` (not partial),
    `read_until`, `read_until_regex` (with or without `max_bytes`).  Partial reads return whatever has arrived,
    `read_into`/`read_until_close` are not covered. -/
def stableRead : Op → Bool
  | .readBytes _ false => true
  | .readUntil _ _ => true
  | .readRegex _ _ => true
  | _ => false

/-- `_find_read_pos` on the bytes `b`: `some (some p)` = the request is satisfied by `b.take p`; `some none` = not yet;
    `none` = UnsatisfiableReadError -/
def specPos : Op → Bytes → Option (Option Nat)
  | .readBytes n false, b => some (if n ≤ b.length then some n else none)
  | .readUntil d max, b =>
    if b.isEmpty then some none
    else match findSub d b with
      | some loc => if withinMax max (loc + d.length) then some (some (loc + d.length)) else none
      | none => if withinMax max b.length then some none else none
  | .readRegex rid max, b =>
    if b.isEmpty then some none
    else match R rid b with
      | some e => if withinMax max e then some (some e) else none
      | none => if withinMax max b.length then some none else none
  | _, _ => none

/-- the strict batch reader over the whole stream: each satisfied request consumes its bytes; a request that the
    stream cannot satisfy stays pending for ever (all later requests are rejected, "Already reading"); `none` = some
    request runs into `max_bytes` (UnsatisfiableReadError — when that is noticed depends on the arrivals) -/
def batch : Bytes → List Op → Option (List Bytes)
  | _, [] => some []
  | b, op :: ops =>
    match specPos R op b with
    | none => none
    | some none => some []
    | some (some p) => (batch (b.drop p) ops).map (b.take p :: ·)

/-- `target_bytes` of `_read_to_buffer_loop` for the request -/
def tgt : Op → Option Nat
  | .readBytes n _ => some n
  | .readUntil _ max => max
  | .readRegex _ max => max
  | _ => none

theorem withinMax_mono {max : Option Nat} {a b : Nat} (h : withinMax max b = true) (hab : a ≤ b) :
    withinMax max a = true := by
  cases max with
  | none => rfl
  | some m => simp [withinMax] at h ⊢; omega

theorem withinMax_false_mono {max : Option Nat} {a b : Nat} (h : withinMax max a = false) (hab : a ≤ b) :
    withinMax max b = false := by
  cases max with
  | none => simp [withinMax] at h
  | some m => simp [withinMax] at h ⊢; omega

/-- a position found in the buffered prefix is the position in the whole stream -/
theorem specPos_found (hS : RStable R) (op : Op) (b rest : Bytes) (p : Nat) (h : specPos R op b = some (some p)) :
    specPos R op (b ++ rest) = some (some p) := by
  cases op with
  | readBytes n part =>
    cases part with
    | true => simp [specPos] at h
    | false =>
      simp only [specPos, Option.some.injEq] at h ⊢
      split at h
      · rename_i hn; cases h; simp; omega
      · simp at h
  | readUntil d max =>
    simp only [specPos] at h ⊢
    split at h
    · simp at h
    · rename_i hne
      have hne' : (b ++ rest).isEmpty = false := by
        cases b with
        | nil => simp at hne
        | cons x xs => rfl
      simp only [hne', Bool.false_eq_true, if_false]
      split at h
      · rename_i loc hl
        rw [findSub_append d b rest loc hl]
        exact h
      · split at h <;> simp at h
  | readRegex rid max =>
    simp only [specPos] at h ⊢
    split at h
    · simp at h
    · rename_i hne
      have hne' : (b ++ rest).isEmpty = false := by
        cases b with
        | nil => simp at hne
        | cons x xs => rfl
      simp only [hne', Bool.false_eq_true, if_false]
      split at h
      · rename_i e he
        rw [hS rid b rest e he]
        exact h
      · split at h <;> simp at h
  | _ => simp [specPos] at h

/-- an unsatisfiable prefix makes the whole stream unsatisfiable -/
theorem specPos_unsat (hS : RStable R) (hL : RLocal R) (op : Op) (b rest : Bytes) (h : specPos R op b = none) :
    specPos R op (b ++ rest) = none := by
  have take_b : (b ++ rest).take b.length = b := by simp
  cases op with
  | readBytes n part =>
    cases part with
    | true => simp [specPos]
    | false => simp [specPos] at h
  | readUntil d max =>
    simp only [specPos] at h ⊢
    split at h
    · simp at h
    · rename_i hne
      have hne' : (b ++ rest).isEmpty = false := by
        cases b with
        | nil => simp at hne
        | cons x xs => rfl
      simp only [hne', Bool.false_eq_true, if_false]
      split at h
      · rename_i loc hl
        rw [findSub_append d b rest loc hl]
        exact h
      · rename_i hnf
        split at h
        · simp at h
        · rename_i hw
          have hw' : withinMax max b.length = false := by simpa using hw
          cases hf : findSub d (b ++ rest) with
          | none =>
            simp only
            rw [if_neg]
            rw [withinMax_false_mono hw' (by simp)]; simp
          | some loc =>
            simp only
            rw [if_neg]
            by_cases hk : loc + d.length ≤ b.length
            · have := findSub_take d (b ++ rest) loc b.length hf hk
              rw [take_b, hnf] at this; cases this
            · rw [withinMax_false_mono hw' (by omega)]; simp
  | readRegex rid max =>
    simp only [specPos] at h ⊢
    split at h
    · simp at h
    · rename_i hne
      have hne' : (b ++ rest).isEmpty = false := by
        cases b with
        | nil => simp at hne
        | cons x xs => rfl
      simp only [hne', Bool.false_eq_true, if_false]
      split at h
      · rename_i e he
        rw [hS rid b rest e he]
        exact h
      · rename_i hnf
        split at h
        · simp at h
        · rename_i hw
          have hw' : withinMax max b.length = false := by simpa using hw
          cases hf : R rid (b ++ rest) with
          | none =>
            simp only
            rw [if_neg]
            rw [withinMax_false_mono hw' (by simp)]; simp
          | some e =>
            simp only
            rw [if_neg]
            by_cases hk : e ≤ b.length
            · have := (hL rid (b ++ rest) e hf).2 b.length hk
              rw [take_b, hnf] at this; cases this
            · rw [withinMax_false_mono hw' (by omega)]; simp
  | _ => simp [specPos]

/-- "not yet" on the buffered prefix, and either the transport is drained or the loop stopped at `target_bytes`:
    the whole stream does not satisfy the request either (or is unsatisfiable) -/
theorem specPos_pending (hL : RLocal R) (op : Op) (b rest : Bytes) (h : specPos R op b = some none)
    (hstop : rest = [] ∨ (reached (tgt op) b.length = true ∧ b ≠ [])) (r : Option Nat)
    (hr : specPos R op (b ++ rest) = some r) : r = none := by
  rcases hstop with rfl | ⟨hreach, hbne⟩
  · simp only [List.append_nil] at hr; rw [h] at hr; cases hr; rfl
  · have take_b : (b ++ rest).take b.length = b := by simp
    cases op with
    | readBytes n part =>
      cases part with
      | true => simp [specPos] at h
      | false =>
        simp only [specPos, Option.some.injEq] at h
        simp only [tgt, reached, decide_eq_true_eq] at hreach
        rw [if_pos hreach] at h; cases h
    | readUntil d max =>
      have hne : b.isEmpty = false := by
        cases b with
        | nil => exact absurd rfl hbne
        | cons x xs => rfl
      have hne' : (b ++ rest).isEmpty = false := by
        cases b with
        | nil => exact absurd rfl hbne
        | cons x xs => rfl
      simp only [specPos, hne, hne', Bool.false_eq_true, if_false] at h hr
      cases max with
      | none => simp [tgt, reached] at hreach
      | some m =>
        simp only [tgt, reached, decide_eq_true_eq] at hreach
        split at h
        · split at h <;> simp at h
        · rename_i hnf
          split at h
          · rename_i hw
            have hbm : b.length = m := by simp [withinMax] at hw; omega
            split at hr
            · rename_i loc hl
              split at hr
              · rename_i hw2
                exfalso
                have : loc + d.length ≤ b.length := by simp [withinMax] at hw2; omega
                have := findSub_take d (b ++ rest) loc b.length hl this
                rw [take_b, hnf] at this; cases this
              · simp at hr
            · split at hr
              · cases hr; rfl
              · simp at hr
          · simp at h
    | readRegex rid max =>
      have hne : b.isEmpty = false := by
        cases b with
        | nil => exact absurd rfl hbne
        | cons x xs => rfl
      have hne' : (b ++ rest).isEmpty = false := by
        cases b with
        | nil => exact absurd rfl hbne
        | cons x xs => rfl
      simp only [specPos, hne, hne', Bool.false_eq_true, if_false] at h hr
      cases max with
      | none => simp [tgt, reached] at hreach
      | some m =>
        simp only [tgt, reached, decide_eq_true_eq] at hreach
        split at h
        · split at h <;> simp at h
        · rename_i hnf
          split at h
          · rename_i hw
            have hbm : b.length = m := by simp [withinMax] at hw; omega
            split at hr
            · rename_i e he
              split at hr
              · rename_i hw2
                exfalso
                have : e ≤ b.length := by simp [withinMax] at hw2; omega
                have := (hL rid (b ++ rest) e he).2 b.length this
                rw [take_b, hnf] at this; cases this
              · simp at hr
            · split at hr
              · cases hr; rfl
              · simp at hr
          · simp at h
    | _ => simp [specPos] at h

/-- a satisfied request takes its bytes from inside the stream -/
theorem specPos_le (hL : RLocal R) (op : Op) (b : Bytes) (p : Nat) (h : specPos R op b = some (some p)) :
    p ≤ b.length := by
  cases op with
  | readBytes n part =>
    cases part with
    | true => simp [specPos] at h
    | false =>
      simp only [specPos, Option.some.injEq] at h
      split at h
      · cases h; assumption
      · simp at h
  | readUntil d max =>
    simp only [specPos] at h
    split at h
    · simp at h
    · split at h
      · rename_i loc hl
        split at h
        · simp at h; subst h; exact findSub_bound d b loc hl
        · simp at h
      · split at h <;> simp at h
  | readRegex rid max =>
    simp only [specPos] at h
    split at h
    · simp at h
    · split at h
      · rename_i e he
        split at h
        · simp at h; subst h; exact (hL rid b e he).1
        · simp at h
      · split at h <;> simp at h
  | _ => simp [specPos] at h

end TornadoModel.C11
