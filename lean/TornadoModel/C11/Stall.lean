/-
C11 — no stalled read: whenever the read loop / the read event handler leaves a read pending on an open stream,
`_find_read_pos` says "not there yet" for the bytes buffered at that moment — in particular a pending `read_until`
never sits on a buffer that contains its delimiter (`Spec.ready` is false).  This is the clause the harness applies
as the `stalled` oracle; it was added after the missed seeded change C11-1 (a delimiter search that resumes from a
remembered offset and skips a delimiter that lies before it).
-/
import TornadoModel.C11.Lemmas
import TornadoModel.C11.Spec
namespace TornadoModel.C11
variable (R : Nat → Bytes → Option Nat)

theorem findFinal_none (s : St) (h : (findFinal R s).2 = .pos none) : findReadPos R s = some none := by
  unfold findFinal at h
  split at h
  · rename_i q hq; simp at h; rw [hq, h]
  · simp at h

/-- a "still pending" verdict of the read loop is `_find_read_pos` of the final buffer -/
theorem loopGo_pending (target : Option Nat) : ∀ (fuel nf : Nat) (s : St),
    (loopGo R target fuel nf s).2 = .pos none →
      findReadPos R (loopGo R target fuel nf s).1 = some none := by
  intro fuel
  induction fuel with
  | zero =>
    intro nf s
    unfold loopGo
    rw [findFinal_fst]
    exact findFinal_none R s
  | succ fuel ih =>
    intro nf s
    unfold loopGo
    split
    · rw [findFinal_fst]; exact findFinal_none R s
    · generalize readToBuffer R s = rt
      obtain ⟨s1, x⟩ := rt
      cases x
      case zero => dsimp only; rw [findFinal_fst]; exact findFinal_none R s1
      case raised r => dsimp only; intro h; simp at h
      all_goals
        dsimp only
        split
        · rw [findFinal_fst]; exact findFinal_none R s1
        · split
          · split
            · intro h; simp at h
            · intro h; simp at h
            · exact ih (s1.buf.length * 2) s1
          · exact ih nf s1

theorem readLoop_pending (s : St) (h : (readLoop R s).2 = .pos none) :
    findReadPos R (readLoop R s).1 = some none := by
  unfold readLoop at h ⊢
  exact loopGo_pending R _ _ _ s h

theorem readFromBuffer_rfut (s : St) (p : Nat) : (readFromBuffer s p).rfut = none := by
  unfold readFromBuffer finishRead maybeAddErrorListener addIo St.emit
  cases hu : s.user <;> cases hf : s.rfut <;> simp <;> (repeat' split) <;> simp_all

/-- `_find_read_pos` = "not there yet" for a delimiter read means exactly that the specification's `ready` is false:
    the buffer is empty or does not contain the delimiter -/
theorem not_ready_until (s : St) (d : Bytes) (hb : s.rbytes = none) (hd : s.rdelim = some d)
    (h : findReadPos R s = some none) : Spec.ready R (.until d s.rmax) s.buf = false := by
  unfold findReadPos at h
  simp only [hb, hd] at h
  unfold Spec.ready
  split at h
  · rename_i he; simp [he]
  · split at h
    · split at h <;> simp at h
    · rename_i hn; simp [hn]

theorem not_ready_regex (s : St) (rid : Nat) (hb : s.rbytes = none) (hd : s.rdelim = none) (hr : s.rregex = some rid)
    (h : findReadPos R s = some none) : Spec.ready R (.regex rid s.rmax) s.buf = false := by
  unfold findReadPos at h
  simp only [hb, hd, hr] at h
  unfold Spec.ready
  split at h
  · rename_i he; simp [he]
  · split at h
    · split at h <;> simp at h
    · rename_i hn; simp [hn]

theorem not_ready_bytes (s : St) (n : Nat) (hb : s.rbytes = some n)
    (h : findReadPos R s = some none) : Spec.ready R (.bytes n s.rpartial) s.buf = false := by
  unfold findReadPos at h
  simp only [hb] at h
  unfold Spec.ready
  split at h
  · simp at h
  · rename_i hn
    split at hn
    · simp at hn
    · rename_i hc; simpa using hc

end TornadoModel.C11
