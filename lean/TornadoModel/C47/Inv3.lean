/- C47 — helper lemmas for the `HTTP_*` entries of the environ: what a fold of dictionary assignments leaves
   under a key, which keys it can create, and the header list that is left after the two `pop`s. -/
import TornadoModel.C47.Inv2
namespace TornadoModel.C47
open TornadoModel.C06 (Str joinWith dget dset upperC)

def ctName : Str := str "Content-Type"
def clName : Str := str "Content-Length"

/-- the headers left once Content-Type and Content-Length have been popped -/
def rest (hs : List (Str × Str)) : List (Str × Str) :=
  (hs.filter (fun p => p.1 ≠ ctName)).filter (fun p => p.1 ≠ clName)

theorem filter_ne_of_not_hasName (n : Str) (hs : List (Str × Str)) (h : hasName n hs = false) :
    hs.filter (fun p => p.1 ≠ n) = hs := by
  apply List.filter_eq_self.mpr
  intro p hp
  have hno : ¬ (hasName n hs = true) := by simp [h]
  simp only [decide_eq_true_eq]
  intro e
  exact hno (List.any_eq_true.mpr ⟨p, hp, by simp [e]⟩)

theorem hasName_iff (n : Str) (hs : List (Str × Str)) : hasName n hs = true ↔ n ∈ hs.map (·.1) := by
  simp only [hasName, List.any_eq_true, decide_eq_true_eq, List.mem_map]

theorem filterMap_filter_irrel {α β} (f : α → Option β) (q : α → Bool) : ∀ (l : List α),
    (∀ x ∈ l, q x = false → f x = none) → (l.filter q).filterMap f = l.filterMap f
  | [], _ => rfl
  | x :: l, h => by
    have ih := filterMap_filter_irrel f q l (fun y hy => h y (by simp [hy]))
    by_cases hq : q x = true
    · rw [List.filter_cons_of_pos hq, List.filterMap_cons, List.filterMap_cons, ih]
    · have hq' : q x = false := by simpa using hq
      rw [List.filter_cons_of_neg hq, List.filterMap_cons_none (h x (by simp) hq'), ih]

theorem mem_names_rest (m : Str) (hs : List (Str × Str)) :
    m ∈ (rest hs).map (·.1) ↔ m ∈ hs.map (·.1) ∧ m ≠ ctName ∧ m ≠ clName := by
  simp only [rest, List.mem_map, List.mem_filter, decide_eq_true_eq]
  constructor
  · rintro ⟨p, ⟨⟨hp, h1⟩, h2⟩, e⟩; subst e; exact ⟨⟨p, hp, rfl⟩, h1, h2⟩
  · rintro ⟨⟨p, hp, e⟩, h1, h2⟩; subst e; exact ⟨p, ⟨⟨hp, h1⟩, h2⟩, rfl⟩

theorem valuesOf_filter_ne (n k : Str) (hne : n ≠ k) (hs : List (Str × Str)) :
    valuesOf n (hs.filter (fun p => p.1 ≠ k)) = valuesOf n hs := by
  unfold valuesOf
  apply filterMap_filter_irrel
  intro p _ hq
  have hk : p.1 = k := by simpa using hq
  exact if_neg (fun e => hne (e.symm.trans hk))

theorem valuesOf_rest (n : Str) (h1 : n ≠ ctName) (h2 : n ≠ clName) (hs : List (Str × Str)) :
    valuesOf n (rest hs) = valuesOf n hs := by
  rw [rest, valuesOf_filter_ne n clName h2, valuesOf_filter_ne n ctName h1]

/-- after a fold of assignments: if some entry assigns to `k` and every entry that does carries `v`
    (or nothing assigns to `k` and `v` was there before), `v` is what is found under `k` -/
theorem dget_foldl_dset_hit (k : Str) (f : Str × Str → Str) (v : Str) :
    ∀ (l : List (Str × Str)) (init : List (Str × Str)),
      (∀ kv ∈ l, f kv = k → kv.2 = v) → ((∃ kv ∈ l, f kv = k) ∨ dget k init = some v) →
      dget k (l.foldl (fun acc kv => dset (f kv) kv.2 acc) init) = some v
  | [], init, _, h => by
    rcases h with ⟨kv, hm, _⟩ | h
    · simp at hm
    · exact h
  | kv :: l, init, hall, h => by
    simp only [List.foldl_cons]
    apply dget_foldl_dset_hit k f v l _ (fun x hx => hall x (by simp [hx]))
    by_cases hk : f kv = k
    · right
      rw [hk, hall kv (by simp) hk]
      exact dget_dset_same k v init
    · rcases h with ⟨x, hx, hfx⟩ | h
      · simp only [List.mem_cons] at hx
        rcases hx with hx | hx
        · subst hx; exact absurd hfx hk
        · exact Or.inl ⟨x, hx, hfx⟩
      · right
        rw [dget_dset_ne k (f kv) kv.2 hk init]
        exact h

theorem mem_keys_dset {β} (x k : Str) (v : β) : ∀ (l : List (Str × β)), x ∈ keys (dset k v l) → x ∈ keys l ∨ x = k
  | [], h => by simpa [keys, dset] using h
  | (k', v') :: r, h => by
    by_cases hk : k' = k
    · simp only [dset, hk, if_true] at h
      left; simpa [keys, hk] using h
    · simp only [dset, hk, if_false, keys, List.map_cons, List.mem_cons] at h
      rcases h with h | h
      · left; simp [keys, h]
      · rcases mem_keys_dset x k v r (by simpa [keys] using h) with h' | h'
        · left; simp only [keys] at h'; simp [keys, h']
        · right; exact h'

theorem mem_keys_foldl_dset (x : Str) (f : Str × Str → Str) : ∀ (l init : List (Str × Str)),
    x ∈ keys (l.foldl (fun acc kv => dset (f kv) kv.2 acc) init) → x ∈ keys init ∨ ∃ kv ∈ l, x = f kv
  | [], _, h => Or.inl h
  | kv :: l, init, h => by
    simp only [List.foldl_cons] at h
    rcases mem_keys_foldl_dset x f l _ h with h' | ⟨y, hy, e⟩
    · rcases mem_keys_dset x (f kv) kv.2 init h' with h'' | h''
      · exact Or.inl h''
      · exact Or.inr ⟨kv, by simp, h''⟩
    · exact Or.inr ⟨y, by simp [hy], e⟩

theorem mem_items (kv : Str × Str) (hs : List (Str × Str)) :
    kv ∈ items hs ↔ kv.1 ∈ hs.map (·.1) ∧ kv.2 = joinWith [cComma] (valuesOf kv.1 hs) := by
  simp only [items, List.mem_map, List.mem_eraseDups]
  constructor
  · rintro ⟨m, ⟨p, hp, e⟩, rfl⟩
    exact ⟨⟨p, hp, e⟩, rfl⟩
  · rintro ⟨⟨p, hp, e⟩, h2⟩
    refine ⟨kv.1, ⟨p, hp, e⟩, ?_⟩
    cases kv with
    | mk a b => simp only at h2 ⊢; rw [h2]

/-- a list with exactly one element has only that element -/
theorem eq_of_mem_length_one {α} (l : List α) (h : l.length = 1) (a b : α) (ha : a ∈ l) (hb : b ∈ l) : a = b := by
  match l, h with
  | [x], _ =>
    simp only [List.mem_singleton] at ha hb
    rw [ha, hb]

/-- the character map of `key.replace("-", "_").upper()` -/
def cgiChar (c : Nat) : Nat := if c = 45 then 95 else if 97 ≤ c ∧ c ≤ 122 then c - 32 else c

theorem upperC_dash (c : Nat) : upperC (if c = 45 then 95 else c) = cgiChar c := by
  unfold upperC cgiChar
  by_cases h : c = 45
  · subst h; decide
  · simp only [h, if_false]

/-- the header step in terms of `rest`: the `HTTP_*` fold runs over the items of the remaining headers, starting
    from the base variables plus at most CONTENT_TYPE and CONTENT_LENGTH -/
theorem addHeaders_rest (base hs : List (Str × Str)) :
    ∃ vars0, addHeaders base hs =
        .ok ((items (rest hs)).foldl (fun acc kv => dset (cgiName kv.1) kv.2 acc) vars0) ∧
      ∀ x ∈ keys vars0, x ∈ keys base ∨ x = str "CONTENT_TYPE" ∨ x = str "CONTENT_LENGTH" := by
  rw [addHeaders_eq]
  by_cases h1 : hasName (str "Content-Type") hs = true
  · by_cases h2 : hasName (str "Content-Length") (hs.filter (fun p => p.1 ≠ str "Content-Type")) = true
    · simp only [h1, h2, if_true]
      refine ⟨_, rfl, ?_⟩
      intro x hx
      rcases mem_keys_dset _ _ _ _ hx with hx | hx
      · rcases mem_keys_dset _ _ _ _ hx with hx | hx
        · exact Or.inl hx
        · exact Or.inr (Or.inl hx)
      · exact Or.inr (Or.inr hx)
    · have h2' : hasName (str "Content-Length") (hs.filter (fun p => p.1 ≠ str "Content-Type")) = false := by
        simpa using h2
      have e : rest hs = hs.filter (fun p => p.1 ≠ str "Content-Type") :=
        filter_ne_of_not_hasName _ _ h2'
      simp only [h1, h2', if_true, Bool.false_eq_true, if_false]
      refine ⟨_, by rw [e], ?_⟩
      intro x hx
      rcases mem_keys_dset _ _ _ _ hx with hx | hx
      · exact Or.inl hx
      · exact Or.inr (Or.inl hx)
  · have h1' : hasName (str "Content-Type") hs = false := by simpa using h1
    have e1 : hs.filter (fun p => p.1 ≠ str "Content-Type") = hs := filter_ne_of_not_hasName _ _ h1'
    by_cases h2 : hasName (str "Content-Length") hs = true
    · have e : rest hs = hs.filter (fun p => p.1 ≠ str "Content-Length") := by
        rw [rest, show ctName = str "Content-Type" from rfl, e1]; rfl
      simp only [h1', h2, if_true, Bool.false_eq_true, if_false]
      refine ⟨_, by rw [e], ?_⟩
      intro x hx
      rcases mem_keys_dset _ _ _ _ hx with hx | hx
      · exact Or.inl hx
      · exact Or.inr (Or.inr hx)
    · have h2' : hasName (str "Content-Length") hs = false := by simpa using h2
      have e : rest hs = hs := by
        rw [rest, show ctName = str "Content-Type" from rfl, e1]
        exact filter_ne_of_not_hasName _ _ h2'
      simp only [h1', h2', Bool.false_eq_true, if_false]
      exact ⟨_, by rw [e], fun x hx => Or.inl hx⟩

end TornadoModel.C47
