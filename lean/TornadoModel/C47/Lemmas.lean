/- C47 — helper lemmas. -/
import TornadoModel.C47.Spec
namespace TornadoModel.C47
open TornadoModel.C06 (Str joinWith dget dset)

theorem rsplitColon_none : ∀ (s : Str), cColon ∉ s → rsplitColon s = none
  | [], _ => rfl
  | c :: cs, h => by
    have hc : c ≠ cColon := fun e => h (by simp [e])
    simp [rsplitColon, rsplitColon_none cs (fun e => h (by simp [e])), hc]

theorem rsplitColon_last (suf : Str) (h : cColon ∉ suf) : ∀ (pre : Str),
    rsplitColon (pre ++ cColon :: suf) = some (pre, suf)
  | [] => by simp [rsplitColon, rsplitColon_none suf h]
  | c :: pre => by simp [rsplitColon, rsplitColon_last suf h pre]

theorem digits_no_colon (ds : Str) (h : ds.all isDigit = true) : cColon ∉ ds := by
  intro hm
  have := List.all_eq_true.mp h cColon hm
  revert this; decide

theorem dget_dset_same {β} (k : Str) (v : β) : ∀ (l : List (Str × β)), dget k (dset k v l) = some v
  | [] => by simp [dset, dget]
  | (k', v') :: r => by
    by_cases h : k' = k
    · simp [dset, dget, h]
    · simp [dset, dget, h, dget_dset_same k v r]

theorem dget_dset_ne {β} (k k2 : Str) (v : β) (hne : k2 ≠ k) : ∀ (l : List (Str × β)), dget k (dset k2 v l) = dget k l
  | [] => by simp [dset, dget, hne]
  | (k', v') :: r => by
    by_cases h : k' = k2
    · subst h; simp [dset, dget, hne]
    · by_cases h2 : k' = k
      · subst h2; simp [dset, dget, h]
      · simp [dset, dget, h, h2, dget_dset_ne k k2 v hne r]

theorem dget_foldl_dset_ne (k : Str) (f : Str × Str → Str) : ∀ (l : List (Str × Str)) (init : List (Str × Str)),
    (∀ kv ∈ l, f kv ≠ k) → dget k (l.foldl (fun acc kv => dset (f kv) kv.2 acc) init) = dget k init
  | [], _, _ => rfl
  | kv :: l, init, h => by
    simp only [List.foldl_cons]
    rw [dget_foldl_dset_ne k f l _ (fun x hx => h x (by simp [hx]))]
    exact dget_dset_ne k (f kv) kv.2 (h kv (by simp)) init

theorem str_http : str "HTTP_" = [72, 84, 84, 80, 95] := by decide

/-- a CGI header variable never collides with a name that does not start with `H` -/
theorem cgiName_ne (n k : Str) (hk : k.head? ≠ some 72) : cgiName n ≠ k := by
  intro h
  apply hk
  rw [← h, cgiName, str_http]
  rfl

theorem popName_ok (n : Str) (hs : List (Str × Str)) (h : hasName n hs = true) :
    popName n hs = .ok (joinWith [cComma] (valuesOf n hs), hs.filter (fun p => p.1 ≠ n)) := by
  simp [popName, h]


/-- the guarded `pop` never fails -/
theorem popInto_ok (n key : Str) (st : List (Str × Str) × List (Str × Str)) :
    popInto n key st = .ok (if hasName n st.2 then
      (dset key (joinWith [cComma] (valuesOf n st.2)) st.1, st.2.filter (fun p => p.1 ≠ n)) else st) := by
  unfold popInto
  by_cases h : hasName n st.2 = true
  · simp only [h, if_true, popName_ok n st.2 h]; rfl
  · simp only [h]; rfl

/-- closed form of the header step: both guarded `pop`s succeed -/
theorem addHeaders_eq (vars hs : List (Str × Str)) :
    addHeaders vars hs = .ok (
      let st1 := if hasName (str "Content-Type") hs then
        (dset (str "CONTENT_TYPE") (joinWith [cComma] (valuesOf (str "Content-Type") hs)) vars,
          hs.filter (fun p => p.1 ≠ str "Content-Type")) else (vars, hs)
      let st2 := if hasName (str "Content-Length") st1.2 then
        (dset (str "CONTENT_LENGTH") (joinWith [cComma] (valuesOf (str "Content-Length") st1.2)) st1.1,
          st1.2.filter (fun p => p.1 ≠ str "Content-Length")) else st1
      (items st2.2).foldl (fun acc kv => dset (cgiName kv.1) kv.2 acc) st2.1) := by
  unfold addHeaders
  rw [popInto_ok]
  simp only [bind, Except.bind]
  rw [popInto_ok]
  rfl

end TornadoModel.C47
