/-
C47 — model of `tornado.wsgi.WSGIContainer` (core Lean only).

Anchors: `WSGIContainer.environ` (host/port split, PATH_INFO through `unquote_to_bytes` + latin-1,
CONTENT_TYPE/CONTENT_LENGTH extraction with `headers.pop`, `HTTP_*` naming) and
`WSGIContainer.handle_request` (status split, default Content-Length / Content-Type / Server, HEAD/304 body,
`HTTPHeaders.add` per header, `write_headers` + `finish` of `HTTP1Connection` for a response with
Content-Length).

The model follows the code AFTER the two `fix:` commits (D19: empty port / IPv6 literal hosts;
HEAD and 304 responses drop the body instead of failing in `write_headers`).  `environOld` keeps the
former host/port rule for the record.

Request headers are the pair list `request.headers.get_all()` (normalised names, one pair per field line):
`in`, `pop`, `items()` of `HTTPHeaders` are modelled on that list as the ordered multimap C06 proves them to be.
-/
import TornadoModel.C06.Model
import TornadoModel.C31.Model
namespace TornadoModel.C47
open TornadoModel.C06 (Str normalize lowerC upperC joinWith dget dset)

abbrev Bytes := List Nat

def str (s : String) : Str := s.toList.map Char.toNat

def cColon : Nat := 58
def cQ : Nat := 63
def cComma : Nat := 44
def isDigit (c : Nat) : Bool := 48 ≤ c && c ≤ 57

inductive Err where
  | keyError
  | valueError
  deriving Repr, BEq, DecidableEq

/-! ### the request as the container sees it -/

structure ReqW where
  method : Str
  uri : Str
  version : Str
  host : Str          -- request.host
  https : Bool        -- request.protocol == "https"
  remoteIp : Str
  headers : List (Str × Str)
  body : Bytes
  deriving Repr, BEq, DecidableEq

/-- `uri.partition("?")` → (path, query) -/
def partitionQ : Str → Str × Str
  | [] => ([], [])
  | c :: cs => if c = cQ then ([], cs) else let (a, b) := partitionQ cs; (c :: a, b)

/-- `host.rpartition(":")`: `none` when there is no colon -/
def rsplitColon : Str → Option (Str × Str)
  | [] => none
  | c :: cs =>
    match rsplitColon cs with
    | some (a, b) => some (c :: a, b)
    | none => if c = cColon then some ([], cs) else none

/-- host and port text: the part after the last colon is the port iff it is a (possibly empty) digit run -/
def splitHostPort (host : Str) : Str × Str :=
  match rsplitColon host with
  | some (h, p) => if p.all isDigit then (h, p) else (host, [])
  | none => (host, [])

/-- `port.lstrip("0") or "0"` for a non-empty port, the scheme default for an empty one -/
def portText (https : Bool) (p : Str) : Str :=
  if p.isEmpty then (if https then str "443" else str "80")
  else
    let z := p.dropWhile (· = 48)
    if z.isEmpty then [48] else z

/-! ### headers as an ordered multimap -/

def valuesOf (n : Str) (hs : List (Str × Str)) : List Str :=
  hs.filterMap (fun p => if p.1 = n then some p.2 else none)

def hasName (n : Str) (hs : List (Str × Str)) : Bool := hs.any (fun p => p.1 = n)

/-- `headers.pop(name)`: the values joined by commas; the name disappears -/
def popName (n : Str) (hs : List (Str × Str)) : Except Err (Str × List (Str × Str)) :=
  if hasName n hs then .ok (joinWith [cComma] (valuesOf n hs), hs.filter (fun p => p.1 ≠ n))
  else .error .keyError

/-- `headers.items()`: names in first-insertion order, values joined by commas -/
def items (hs : List (Str × Str)) : List (Str × Str) :=
  (hs.map (·.1)).eraseDups.map (fun n => (n, joinWith [cComma] (valuesOf n hs)))

/-- `"HTTP_" + key.replace("-", "_").upper()` -/
def cgiName (n : Str) : Str := str "HTTP_" ++ n.map (fun c => upperC (if c = 45 then 95 else c))

structure EnvD where
  vars : List (Str × Str)     -- the str-valued entries in insertion order (dict semantics: unique keys)
  input : Bytes               -- wsgi.input
  deriving Repr, BEq, DecidableEq

def baseVars (r : ReqW) (name port : Str) : List (Str × Str) :=
  let (path, query) := partitionQ r.uri
  [ (str "REQUEST_METHOD", r.method), (str "SCRIPT_NAME", []),
    (str "PATH_INFO", TornadoModel.C31.unquote path), (str "QUERY_STRING", query),
    (str "REMOTE_ADDR", r.remoteIp), (str "SERVER_NAME", name), (str "SERVER_PORT", port),
    (str "SERVER_PROTOCOL", r.version), (str "wsgi.url_scheme", if r.https then str "https" else str "http") ]

/-- `if name in headers: environ[key] = headers.pop(name)` on the pair (environ entries, headers) -/
def popInto (n key : Str) (st : List (Str × Str) × List (Str × Str)) :
    Except Err (List (Str × Str) × List (Str × Str)) :=
  if hasName n st.2 then do
    let (v, hs') ← popName n st.2
    pure (dset key v st.1, hs')
  else pure st

def addHeaders (vars : List (Str × Str)) (hs : List (Str × Str)) : Except Err (List (Str × Str)) := do
  let st ← popInto (str "Content-Type") (str "CONTENT_TYPE") (vars, hs)
  let st ← popInto (str "Content-Length") (str "CONTENT_LENGTH") st
  pure ((items st.2).foldl (fun acc kv => dset (cgiName kv.1) kv.2 acc) st.1)

/-- `WSGIContainer.environ` -/
def environ (r : ReqW) : Except Err EnvD := do
  let (h, p) := splitHostPort r.host
  let vars ← addHeaders (baseVars r h (portText r.https p)) r.headers
  pure { vars := vars, input := r.body }

/-! the rule before the fix: `hostport = host.split(":"); if len(hostport) == 2: port = int(hostport[1])` -/

/-- `int(s)` on host text (ASCII): optional sign, digits, single underscores between digits -/
def pyIntOk : Str → Bool
  | [] => false
  | c :: cs =>
    let ds := if c = 43 || c = 45 then cs else c :: cs
    let groups := TornadoModel.C06.splitOnC 95 ds
    groups.all (fun g => !g.isEmpty && g.all isDigit)

def environOldHost (r : ReqW) : Except Err (Str × Str) :=
  match TornadoModel.C06.splitOnC cColon r.host with
  | [h, p] => if pyIntOk p then .ok (h, p) else .error .valueError
  | _ => .ok (r.host, [])

/-! ### the response -/

structure AppOut where
  status : Str                    -- e.g. "200 OK"
  headers : List (Str × Str)
  body : Bytes                    -- everything passed to write() followed by the iterable's chunks
  deriving Repr, BEq, DecidableEq

structure Resp where
  code : Nat
  reason : Str
  headers : List (Str × Str)      -- in the order handed to `HTTPHeaders.add`
  body : Bytes
  deriving Repr, BEq, DecidableEq

/-- `response: list[bytes]` receives every `write()` argument and every chunk of the iterable, in the order they
    are produced (`response.append`); `body = b"".join(response)` -/
def joinResponse (response : List Bytes) : Bytes := response.flatten

/-- `status.split(" ", 1)` with exactly two parts -/
def splitSpace : Str → Option (Str × Str)
  | [] => none
  | c :: cs => if c = 32 then some ([], cs) else (splitSpace cs).map (fun (a, b) => (c :: a, b))

def decVal (s : Str) : Nat := s.foldl (fun acc c => acc * 10 + (c - 48)) 0

/-- `int(status_code_str)` for a plain digit string (other spellings are outside the domain) -/
def parseCode (s : Str) : Option Nat := if !s.isEmpty && s.all isDigit then some (decVal s) else none

def toDec (n : Nat) : Str := (Nat.repr n).toList.map Char.toNat

def lowerName (n : Str) : Str := n.map lowerC
def hasLower (n : Str) (hs : List (Str × Str)) : Bool := hs.any (fun p => lowerName p.1 = n)

def isHead (m : Str) : Bool := m = str "HEAD"

/-- statuses whose responses never carry a body (the container drops the application's body for them) -/
def noBodyStatus (code : Nat) : Bool := code = 204 || code = 304 || (100 ≤ code && code < 200)

/-- the defaults `handle_request` appends -/
def defaults (code : Nat) (hs : List (Str × Str)) (bodyLen : Nat) (version : Str) : List (Str × Str) :=
  (if code ≠ 304 ∧ !hasLower (str "content-length") hs then [(str "Content-Length", toDec bodyLen)] else []) ++
  (if code ≠ 304 ∧ !hasLower (str "content-type") hs then [(str "Content-Type", str "text/html; charset=UTF-8")] else []) ++
  (if !hasLower (str "server") hs then [(str "Server", str "TornadoServer/" ++ version)] else [])

/-- `handle_request` up to the call of `write_headers` (`tver` = `tornado.version`) -/
def respond (method : Str) (tver : Str) (a : AppOut) : Except Err Resp :=
  match splitSpace a.status with
  | none => .error .valueError
  | some (cs, reason) =>
    match parseCode cs with
    | none => .error .valueError
    | some code =>
      .ok { code := code, reason := reason,
            headers := a.headers ++ defaults code a.headers a.body.length tver,
            body := if isHead method || noBodyStatus code then [] else a.body }

/-- `HTTPHeaders.add` for every pair, then `get_all()`: grouped by normalised name in first-insertion order -/
def addPair (acc : List (Str × List Str)) (kv : Str × Str) : List (Str × List Str) :=
  let n := normalize kv.1
  match dget n acc with
  | some vs => dset n (vs ++ [kv.2]) acc
  | none => dset n [kv.2] acc

def grouped (hs : List (Str × Str)) : List (Str × List Str) := hs.foldl addPair []

def getAll (g : List (Str × List Str)) : List (Str × Str) := g.flatMap (fun (k, vs) => vs.map (fun v => (k, v)))

def crlf : Bytes := [13, 10]

/-- the bytes `write_headers(start_line, headers, chunk=body)` + `finish()` put on the wire for a response
    that carries a Content-Length (or is bodiless): never chunked.  `close` = HTTP/1.1 request with
    `Connection: close` (the connection adds `Connection: close`). -/
def wire (close : Bool) (r : Resp) : Bytes :=
  let hs := getAll (grouped r.headers) ++ (if close then [(str "Connection", str "close")] else [])
  str "HTTP/1.1 " ++ toDec r.code ++ [32] ++ r.reason ++
    hs.flatMap (fun (k, v) => crlf ++ k ++ [cColon, 32] ++ v) ++ crlf ++ crlf ++ r.body

end TornadoModel.C47
