/- C47 — helper lemmas for the statements about the FINAL environ (`environ_eq_expected`): what the header step
   leaves under a key it never assigns, the CONTENT_LENGTH twin of `environ_content_headers`, dictionary facts
   (`keys` stay pairwise distinct, membership ↔ lookup). -/
import TornadoModel.C47.Inv3
namespace TornadoModel.C47
open TornadoModel.C06 (Str joinWith dget dset)
open Spec

/-- the nine variables `environ` sets before it looks at the headers, as the specification lists them -/
def base9 (s : SReq) : List (Str × Str) :=
  [ (str "REQUEST_METHOD", s.method), (str "SCRIPT_NAME", []),
    (str "PATH_INFO", TornadoModel.C31.unquote s.path), (str "QUERY_STRING", s.query.getD []),
    (str "REMOTE_ADDR", s.remoteIp), (str "SERVER_NAME", s.name), (str "SERVER_PORT", portOf s.https s.port),
    (str "SERVER_PROTOCOL", s.version), (str "wsgi.url_scheme", if s.https then str "https" else str "http") ]

def baseKeys : List Str :=
  [ str "REQUEST_METHOD", str "SCRIPT_NAME", str "PATH_INFO", str "QUERY_STRING", str "REMOTE_ADDR", str "SERVER_NAME",
    str "SERVER_PORT", str "SERVER_PROTOCOL", str "wsgi.url_scheme" ]

theorem keys_base9 (s : SReq) : keys (base9 s) = baseKeys := rfl

theorem expected_no_headers (s : SReq) : Spec.expected { s with headers := [] } = base9 s := by
  simp [Spec.expected, base9, hasName]

theorem expected_split (s : SReq) :
    Spec.expected s = base9 s ++
      (if hasName (str "Content-Type") s.headers
        then [(str "CONTENT_TYPE", joinWith [cComma] (valuesOf (str "Content-Type") s.headers))] else []) ++
      (if hasName (str "Content-Length") s.headers
        then [(str "CONTENT_LENGTH", joinWith [cComma] (valuesOf (str "Content-Length") s.headers))] else []) ++
      ((s.headers.map (·.1)).eraseDups.filter (fun n => !contentNames.contains n && uniqueCgi s.headers n)).map
        (fun n => (cgiName n, joinWith [cComma] (valuesOf n s.headers))) := rfl

/-- none of the nine is CONTENT_TYPE / CONTENT_LENGTH or starts with `H` (so no `HTTP_*` name can hit it) -/
theorem baseKeys_plain : ∀ k ∈ baseKeys, k ≠ str "CONTENT_TYPE" ∧ k ≠ str "CONTENT_LENGTH" ∧ k.head? ≠ some 72 := by
  decide

theorem baseKeys_nodup : baseKeys.Nodup := by
  decide

theorem dget_of_mem_nodup {β} (kv : Str × β) : ∀ (l : List (Str × β)), (keys l).Nodup → kv ∈ l → dget kv.1 l = some kv.2
  | [], _, h => by simp at h
  | (k', v') :: r, hnd, h => by
    simp only [keys, List.map_cons, List.nodup_cons] at hnd
    simp only [List.mem_cons] at h
    rcases h with h | h
    · subst h; simp [dget]
    · have hne : k' ≠ kv.1 := by
        intro e
        apply hnd.1
        rw [e]
        exact List.mem_map.mpr ⟨kv, h, rfl⟩
      simp only [dget, hne, if_false]
      exact dget_of_mem_nodup kv r (by simpa [keys] using hnd.2) h

theorem dget_ne_none_of_mem_keys {β} (k : Str) (l : List (Str × β)) (h : k ∈ keys l) : dget k l ≠ none :=
  fun hn => dget_none_notin k l hn h

theorem dget_none_of_notin_keys {β} (k : Str) : ∀ (l : List (Str × β)), k ∉ keys l → dget k l = none
  | [], _ => rfl
  | (k', v') :: r, h => by
    simp only [keys, List.map_cons, List.mem_cons, not_or] at h
    have hk : k' ≠ k := fun e => h.1 e.symm
    simp only [dget, hk, if_false]
    exact dget_none_of_notin_keys k r (by simpa [keys] using h.2)

theorem keys_dset_nodup {β} (k : Str) (v : β) (l : List (Str × β)) (h : (keys l).Nodup) : (keys (dset k v l)).Nodup := by
  by_cases hk : k ∈ keys l
  · rw [keys_dset_present k v l hk]; exact h
  · rw [keys_dset_absent k v l hk]
    exact List.nodup_append.mpr ⟨h, by simp, by
      intro a ha b hb
      simp only [List.mem_singleton] at hb
      subst hb
      exact fun e => hk (e ▸ ha)⟩

theorem keys_foldl_dset_nodup (f : Str × Str → Str) : ∀ (l init : List (Str × Str)), (keys init).Nodup →
    (keys (l.foldl (fun acc kv => dset (f kv) kv.2 acc) init)).Nodup
  | [], _, h => h
  | kv :: l, init, h => by
    simp only [List.foldl_cons]
    exact keys_foldl_dset_nodup f l _ (keys_dset_nodup _ _ _ h)

/-- the environ is a dictionary: the header step keeps the variable names pairwise distinct -/
theorem addHeaders_keys_nodup (base hs vars : List (Str × Str)) (h : addHeaders base hs = .ok vars)
    (hb : (keys base).Nodup) : (keys vars).Nodup := by
  rw [addHeaders_eq] at h
  simp only [Except.ok.injEq] at h
  rw [← h]
  apply keys_foldl_dset_nodup
  split <;> split <;> simp only [] <;> first | exact hb | (apply keys_dset_nodup; first | exact hb | (apply keys_dset_nodup; exact hb))

/-- a variable that is neither CONTENT_TYPE nor CONTENT_LENGTH and does not start with `H` goes through the
    header step untouched: no request header can overwrite it -/
theorem addHeaders_dget_plain (base hs vars : List (Str × Str)) (h : addHeaders base hs = .ok vars) (k : Str)
    (h1 : k ≠ str "CONTENT_TYPE") (h2 : k ≠ str "CONTENT_LENGTH") (h3 : k.head? ≠ some 72) :
    dget k vars = dget k base := by
  rw [addHeaders_eq] at h
  simp only [Except.ok.injEq] at h
  rw [← h, dget_foldl_dset_ne _ _ _ _ (fun kv _ => cgiName_ne kv.1 _ h3)]
  have e1 : ∀ (v : Str) (l : List (Str × Str)), dget k (dset (str "CONTENT_TYPE") v l) = dget k l :=
    fun v l => dget_dset_ne k _ v (fun e => h1 e.symm) l
  have e2 : ∀ (v : Str) (l : List (Str × Str)), dget k (dset (str "CONTENT_LENGTH") v l) = dget k l :=
    fun v l => dget_dset_ne k _ v (fun e => h2 e.symm) l
  split <;> split <;> simp only [e1, e2]

theorem clVar_head : (str "CONTENT_LENGTH").head? ≠ some 72 := by decide

theorem hasName_filter_ne (n k : Str) (hne : n ≠ k) (hs : List (Str × Str)) :
    hasName n (hs.filter (fun p => p.1 ≠ k)) = hasName n hs := by
  rw [Bool.eq_iff_iff, hasName_iff, hasName_iff]
  simp only [List.mem_map, List.mem_filter, decide_eq_true_eq]
  constructor
  · rintro ⟨p, ⟨hp, _⟩, e⟩; exact ⟨p, hp, e⟩
  · rintro ⟨p, hp, e⟩; exact ⟨p, ⟨hp, fun e' => hne (e.symm.trans e')⟩, e⟩

/-- CONTENT_LENGTH is the comma-joined Content-Length values when the request has the header and is untouched
    otherwise (the twin of `environ_content_headers`; the earlier `pop` of Content-Type does not disturb it) -/
theorem addHeaders_content_length (base hs vars : List (Str × Str)) (h : addHeaders base hs = .ok vars) :
    dget (str "CONTENT_LENGTH") vars =
      (if hasName (str "Content-Length") hs then some (joinWith [cComma] (valuesOf (str "Content-Length") hs))
       else dget (str "CONTENT_LENGTH") base) := by
  have hne : str "CONTENT_TYPE" ≠ str "CONTENT_LENGTH" := by decide
  have hn : str "Content-Length" ≠ str "Content-Type" := by decide
  rw [addHeaders_eq] at h
  simp only [Except.ok.injEq] at h
  rw [← h, dget_foldl_dset_ne _ _ _ _ (fun kv _ => cgiName_ne kv.1 _ clVar_head)]
  by_cases h1 : hasName (str "Content-Type") hs = true
  · simp only [if_pos h1]
    simp only [hasName_filter_ne _ _ hn, valuesOf_filter_ne _ _ hn]
    by_cases h2 : hasName (str "Content-Length") hs = true
    · simp only [if_pos h2]; exact dget_dset_same _ _ _
    · simp only [if_neg h2]; exact dget_dset_ne _ _ _ hne _
  · simp only [if_neg h1]
    by_cases h2 : hasName (str "Content-Length") hs = true
    · simp only [if_pos h2]; exact dget_dset_same _ _ _
    · simp only [if_neg h2]

end TornadoModel.C47
