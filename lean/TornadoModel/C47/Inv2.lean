/- C47 — the grouping invariant behind `group_values`: `HTTPHeaders.add` keeps the keys of the grouped
   dictionary pairwise distinct, and appends each value at the end of its own name's list. -/
import TornadoModel.C47.Lemmas
namespace TornadoModel.C47
open TornadoModel.C06 (Str joinWith dget dset normalize)

/-- the values listed under name `n` by `get_all()` of a grouped dictionary -/
def gvals (n : Str) (g : List (Str × List Str)) : List Str :=
  (getAll g).filterMap (fun p => if p.1 = n then some p.2 else none)

theorem gvals_nil (n : Str) : gvals n [] = [] := rfl

theorem filterMap_const_key (k n : Str) (vs : List Str) :
    (vs.map (fun v => (k, v))).filterMap (fun p => if p.1 = n then some p.2 else none) =
      if k = n then vs else [] := by
  induction vs with
  | nil => simp
  | cons v vs ih =>
    by_cases h : k = n
    · simp only [h, if_true] at ih ⊢
      simp [ih]
    · simp only [h, if_false] at ih ⊢
      simp [h, ih]

theorem gvals_cons (n k : Str) (vs : List Str) (r : List (Str × List Str)) :
    gvals n ((k, vs) :: r) = (if k = n then vs else []) ++ gvals n r := by
  simp only [gvals, getAll, List.flatMap_cons, List.filterMap_append]
  rw [filterMap_const_key]

/-- the keys of a dictionary -/
def keys {β} (g : List (Str × β)) : List Str := g.map (·.1)

theorem gvals_absent (n : Str) : ∀ (g : List (Str × List Str)), n ∉ keys g → gvals n g = []
  | [], _ => rfl
  | (k, vs) :: r, h => by
    have hk : k ≠ n := fun e => h (by simp [keys, e])
    rw [gvals_cons, if_neg hk, gvals_absent n r (fun e => h (by simp [keys] at e ⊢; exact Or.inr e))]
    rfl

theorem dget_none_notin {β} (m : Str) : ∀ (g : List (Str × β)), dget m g = none → m ∉ keys g
  | [], _ => by simp [keys]
  | (k, v) :: r, h => by
    by_cases hk : k = m
    · simp [dget, hk] at h
    · simp only [dget, hk, if_false] at h
      have := dget_none_notin m r h
      simp only [keys, List.map_cons, List.mem_cons, not_or] at this ⊢
      exact ⟨fun e => hk e.symm, this⟩

theorem keys_dset_present {β} (m : Str) (v : β) : ∀ (g : List (Str × β)), m ∈ keys g → keys (dset m v g) = keys g
  | [], h => by simp [keys] at h
  | (k, v') :: r, h => by
    by_cases hk : k = m
    · simp [dset, hk, keys]
    · have hr : m ∈ keys r := by
        simp only [keys, List.map_cons, List.mem_cons] at h
        rcases h with h | h
        · exact absurd h.symm hk
        · exact h
      have := keys_dset_present m v r hr
      simp only [keys] at this
      simp [dset, hk, keys, this]

theorem keys_dset_absent {β} (m : Str) (v : β) : ∀ (g : List (Str × β)), m ∉ keys g → keys (dset m v g) = keys g ++ [m]
  | [], _ => by simp [keys, dset]
  | (k, v') :: r, h => by
    simp only [keys, List.map_cons, List.mem_cons, not_or] at h
    have hk : k ≠ m := fun e => h.1 e.symm
    have := keys_dset_absent m v r (by simpa [keys] using h.2)
    simp only [keys] at this
    simp [dset, hk, keys, this]

theorem dget_some_mem {β} (m : Str) (v : β) : ∀ (g : List (Str × β)), dget m g = some v → m ∈ keys g
  | [], h => by simp [dget] at h
  | (k, v') :: r, h => by
    by_cases hk : k = m
    · simp [keys, hk]
    · simp only [dget, hk, if_false] at h
      have := dget_some_mem m v r h
      simp only [keys] at this
      simp [keys, this]

/-- appending a value to a present name: the new value goes to the end of that name's list -/
theorem gvals_dset_present (n m : Str) (v : Str) : ∀ (g : List (Str × List Str)) (vs : List Str),
    (keys g).Nodup → dget m g = some vs →
    gvals n (dset m (vs ++ [v]) g) = gvals n g ++ (if m = n then [v] else [])
  | [], _, _, h => by simp [dget] at h
  | (k, vs') :: r, vs, hnd, h => by
    simp only [keys, List.map_cons, List.nodup_cons] at hnd
    by_cases hk : k = m
    · subst hk
      simp only [dget, if_true, Option.some.injEq] at h
      subst h
      simp only [dset, if_true]
      rw [gvals_cons, gvals_cons]
      by_cases hn : k = n
      · subst hn
        have := gvals_absent k r (by simpa [keys] using hnd.1)
        simp [this]
      · simp [hn]
    · simp only [dget, hk, if_false] at h
      simp only [dset, hk, if_false]
      rw [gvals_cons, gvals_cons, gvals_dset_present n m v r vs (by simpa [keys] using hnd.2) h,
        List.append_assoc]

/-- a new name: its singleton list is appended at the end -/
theorem gvals_dset_absent (n m : Str) (v : Str) : ∀ (g : List (Str × List Str)),
    m ∉ keys g → gvals n (dset m [v] g) = gvals n g ++ (if m = n then [v] else [])
  | [], _ => by
    rw [show dset m [v] ([] : List (Str × List Str)) = [(m, [v])] from rfl, gvals_cons]
    simp [gvals_nil]
  | (k, vs') :: r, h => by
    simp only [keys, List.map_cons, List.mem_cons, not_or] at h
    have hk : k ≠ m := fun e => h.1 e.symm
    simp only [dset, hk, if_false]
    rw [gvals_cons, gvals_cons, gvals_dset_absent n m v r (by simpa [keys] using h.2), List.append_assoc]

theorem addPair_none (g : List (Str × List Str)) (kv : Str × Str) (h : dget (normalize kv.1) g = none) :
    addPair g kv = dset (normalize kv.1) [kv.2] g := by
  simp only [addPair, h]

theorem addPair_some (g : List (Str × List Str)) (kv : Str × Str) (vs : List Str)
    (h : dget (normalize kv.1) g = some vs) :
    addPair g kv = dset (normalize kv.1) (vs ++ [kv.2]) g := by
  simp only [addPair, h]

theorem addPair_keys_nodup (g : List (Str × List Str)) (kv : Str × Str) (h : (keys g).Nodup) :
    (keys (addPair g kv)).Nodup := by
  cases hd : dget (normalize kv.1) g with
  | none =>
    have hn := dget_none_notin _ g hd
    rw [addPair_none g kv hd, keys_dset_absent _ _ g hn]
    exact List.nodup_append.mpr ⟨h, by simp, by
      intro a ha b hb
      simp only [List.mem_singleton] at hb
      subst hb
      exact fun e => hn (e ▸ ha)⟩
  | some vs =>
    rw [addPair_some g kv vs hd, keys_dset_present _ _ g (dget_some_mem _ vs g hd)]
    exact h

theorem gvals_addPair (n : Str) (g : List (Str × List Str)) (kv : Str × Str) (h : (keys g).Nodup) :
    gvals n (addPair g kv) = gvals n g ++ (if normalize kv.1 = n then [kv.2] else []) := by
  cases hd : dget (normalize kv.1) g with
  | none => rw [addPair_none g kv hd]; exact gvals_dset_absent n _ kv.2 g (dget_none_notin _ g hd)
  | some vs => rw [addPair_some g kv vs hd]; exact gvals_dset_present n _ kv.2 g vs h hd

theorem gvals_foldl (n : Str) : ∀ (hs : List (Str × Str)) (g : List (Str × List Str)), (keys g).Nodup →
    gvals n (hs.foldl addPair g) =
      gvals n g ++ hs.filterMap (fun p => if normalize p.1 = n then some p.2 else none)
  | [], g, _ => by simp
  | kv :: hs, g, h => by
    simp only [List.foldl_cons]
    rw [gvals_foldl n hs _ (addPair_keys_nodup g kv h), gvals_addPair n g kv h, List.append_assoc]
    congr 1
    by_cases hk : normalize kv.1 = n <;> simp [hk]

theorem grouped_keys_nodup (hs : List (Str × Str)) : (keys (grouped hs)).Nodup := by
  unfold grouped
  suffices ∀ (hs : List (Str × Str)) (g : List (Str × List Str)), (keys g).Nodup → (keys (hs.foldl addPair g)).Nodup from
    this hs [] (by simp [keys])
  intro hs
  induction hs with
  | nil => intro g h; exact h
  | cons kv hs ih => intro g h; exact ih _ (addPair_keys_nodup g kv h)

end TornadoModel.C47
