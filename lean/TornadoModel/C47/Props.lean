/- C47 — property theorems (see docs/C47.md).  Model: C47/Model.lean, specification: C47/Spec.lean. -/
import TornadoModel.C47.Inv4
namespace TornadoModel.C47
open TornadoModel.C06 (Str joinWith dget dset)
open Spec

/-! ## the environ is always built -/

theorem addHeaders_total (vars hs : List (Str × Str)) : ∃ v, addHeaders vars hs = .ok v :=
  ⟨_, addHeaders_eq vars hs⟩

/-- **environ_total**: for every request the container can receive — any host text, any header list —
    building the environ succeeds (the only raising operations left are the two `pop`s, each guarded by `in`) -/
theorem environ_total (r : ReqW) : ∃ e, environ r = .ok e := by
  unfold environ
  obtain ⟨v, hv⟩ := addHeaders_total (baseVars r (splitHostPort r.host).1 (portText r.https (splitHostPort r.host).2)) r.headers
  exact ⟨{ vars := v, input := r.body }, by simp [hv, bind, Except.bind, pure, Except.pure]⟩

/-- the host rule before the fix (D19): `Host: a:` makes `int("")` raise, so no environ and no response -/
theorem old_environ_raises :
    (match environOldHost { method := [], uri := [], version := [], host := [97, 58], https := false,
                            remoteIp := [], headers := [], body := [] } with
      | .error .valueError => true
      | _ => false) = true := by decide

/-! ## host name and port -/

/-- `name:digits` → (name, digits), whatever `name` contains (IPv6 literals included) -/
theorem host_port_explicit (name ds : Str) (h : ds.all isDigit = true) :
    splitHostPort (name ++ cColon :: ds) = (name, ds) := by
  simp [splitHostPort, rsplitColon_last ds (digits_no_colon ds h) name, h]

/-- no colon → the whole text is the host, no port -/
theorem host_port_absent (host : Str) (h : cColon ∉ host) : splitHostPort host = (host, []) := by
  simp [splitHostPort, rsplitColon_none host h]

/-- a colon that is not followed by a digit run to the end (`[::1]`, `[2001:db8::1]`) is part of the host -/
theorem host_port_ipv6_literal (pre suf : Str) (h1 : cColon ∉ suf) (h2 : suf.all isDigit = false) :
    splitHostPort (pre ++ cColon :: suf) = (pre ++ cColon :: suf, []) := by
  simp [splitHostPort, rsplitColon_last suf h1 pre, h2]

example : splitHostPort (str "[::1]:8080") = (str "[::1]", str "8080") := by decide
example : splitHostPort (str "[::1]") = (str "[::1]", []) := by decide
example : splitHostPort (str "example.com:") = (str "example.com", []) := by decide
example : portText false (str "0080") = str "80" ∧ portText true [] = str "443" ∧ portText false (str "000") = str "0" := by decide

theorem partitionQ_path (path : Str) (h : cQ ∉ path) (q : Option Str) :
    partitionQ (path ++ querySuffix q) = (path, q.getD []) := by
  induction path with
  | nil => cases q <;> simp [partitionQ, querySuffix]
  | cons c cs ih =>
    have hc : c ≠ cQ := fun e => h (by simp [e])
    have := ih (fun e => h (by simp [e]))
    simp [partitionQ, hc, this]

/-- **environ_fields**: for a request with target `path[?query]` and Host `name[:port]`, the variables the
    header step starts from are exactly the nine the specification lists: method, script name, the
    percent-decoded path, the query string, peer address, SERVER_NAME = name, SERVER_PORT = the port number
    (scheme default when absent or empty), protocol version and scheme; and `wsgi.input` is the body. -/
theorem environ_fields (s : SReq) (hpath : cQ ∉ s.path)
    (hport : ∀ p, s.port = some p → p.all isDigit = true)
    (hname : s.port = none → splitHostPort s.name = (s.name, [])) :
    ∃ vars, addHeaders ((Spec.expected { s with headers := [] })) s.headers = .ok vars ∧
      environ (assemble s) = .ok { vars := vars, input := s.body } := by
  have hsplit : splitHostPort (assemble s).host = (s.name, s.port.getD []) := by
    cases hp : s.port with
    | none => simpa [assemble, hp, portSuffix] using hname hp
    | some p => simpa [assemble, hp, portSuffix] using host_port_explicit s.name p (hport p hp)
  have hport' : portText s.https (s.port.getD []) = portOf s.https s.port := by
    cases s.port <;> rfl
  have hq := partitionQ_path s.path hpath s.query
  have hbase : baseVars (assemble s) (splitHostPort (assemble s).host).1
      (portText (assemble s).https (splitHostPort (assemble s).host).2) = Spec.expected { s with headers := [] } := by
    rw [hsplit]
    have e1 : (assemble s).https = s.https := rfl
    simp only [e1, hport']
    simp [baseVars, Spec.expected, assemble, hq, hasName]
    by_cases hh : s.https = true <;> simp [hh]
  obtain ⟨v, hv⟩ := addHeaders_total (Spec.expected { s with headers := [] }) s.headers
  refine ⟨v, hv, ?_⟩
  have e2 : (assemble s).headers = s.headers := rfl
  have e3 : (assemble s).body = s.body := rfl
  unfold environ
  simp [hbase, e2, e3, hv, bind, Except.bind, pure, Except.pure]

/-! ## content headers -/

theorem str_ct_head : (str "CONTENT_TYPE").head? ≠ some 72 := by decide
theorem str_cl_head : (str "CONTENT_LENGTH").head? ≠ some 72 := by decide

/-- **environ_content_headers**: CONTENT_TYPE is the comma-joined Content-Type values when the request has
    the header and is untouched otherwise; no `HTTP_*` variable overwrites it.  (Same for CONTENT_LENGTH.) -/
theorem environ_content_headers (base hs vars : List (Str × Str)) (h : addHeaders base hs = .ok vars) :
    dget (str "CONTENT_TYPE") vars =
      (if hasName (str "Content-Type") hs then some (joinWith [cComma] (valuesOf (str "Content-Type") hs))
       else dget (str "CONTENT_TYPE") base) := by
  have hne : str "CONTENT_LENGTH" ≠ str "CONTENT_TYPE" := by decide
  rw [addHeaders_eq] at h
  simp only [Except.ok.injEq] at h
  rw [← h, dget_foldl_dset_ne _ _ _ _ (fun kv _ => cgiName_ne kv.1 _ str_ct_head)]
  by_cases h1 : hasName (str "Content-Type") hs = true
  · simp only [h1, if_true]
    by_cases h2 : hasName (str "Content-Length") (hs.filter (fun p => p.1 ≠ str "Content-Type")) = true
    · rw [if_pos h2]; dsimp only; rw [dget_dset_ne _ _ _ hne, dget_dset_same]
    · rw [if_neg h2]; dsimp only; rw [dget_dset_same]
  · have h1' : hasName (str "Content-Type") hs = false := by simpa using h1
    simp only [h1', Bool.false_eq_true, if_false]
    by_cases h2 : hasName (str "Content-Length") hs = true
    · rw [if_pos h2]; dsimp only; rw [dget_dset_ne _ _ _ hne]
    · rw [if_neg h2]

/-! ## the `HTTP_*` entries -/

/-- **http_var_name**: the variable name of a header is `HTTP_` followed by the header name with every `-`
    replaced by `_` and every ASCII lower-case letter upper-cased, all other characters unchanged -/
theorem http_var_name (n : Str) : cgiName n = str "HTTP_" ++ n.map cgiChar := by
  unfold cgiName
  congr 1
  apply List.map_congr_left
  intro c _
  exact upperC_dash c

example : cgiName (str "X-Real-Ip") = str "HTTP_X_REAL_IP" := by decide

/-- **environ_http_vars**: a request header other than Content-Type / Content-Length whose variable name is
    not shared with a differently spelled header (`X-a_b` / `X-A-B`) appears in the environ under
    `http_var_name`, with all its values joined by commas in order — whatever the base variables were. -/
theorem environ_http_vars (base hs vars : List (Str × Str)) (h : addHeaders base hs = .ok vars) (n : Str)
    (hn : hasName n hs = true) (hc : contentNames.contains n = false) (hu : uniqueCgi hs n = true) :
    dget (cgiName n) vars = some (joinWith [cComma] (valuesOf n hs)) := by
  obtain ⟨vars0, h0, _⟩ := addHeaders_rest base hs
  rw [h0] at h
  simp only [Except.ok.injEq] at h
  subst h
  have hct : n ≠ ctName := by
    intro e; rw [e] at hc; exact absurd hc (by decide)
  have hcl : n ≠ clName := by
    intro e; rw [e] at hc; exact absurd hc (by decide)
  have hnm : n ∈ hs.map (·.1) := (hasName_iff n hs).mp hn
  have hmem : n ∈ (rest hs).map (·.1) := (mem_names_rest n hs).mpr ⟨hnm, hct, hcl⟩
  have hlen : (((hs.map (·.1)).eraseDups.filter (fun m => cgiName m = cgiName n)).length = 1) := by
    simpa [uniqueCgi] using hu
  apply dget_foldl_dset_hit (cgiName n) (fun kv => cgiName kv.1)
  · intro kv hkv hk
    rw [mem_items] at hkv
    have hm := (mem_names_rest kv.1 hs).mp hkv.1
    have e : kv.1 = n :=
      eq_of_mem_length_one _ hlen kv.1 n
        (List.mem_filter.mpr ⟨List.mem_eraseDups.mpr hm.1, by simpa using hk⟩)
        (List.mem_filter.mpr ⟨List.mem_eraseDups.mpr hnm, by simp⟩)
    rw [hkv.2, e, valuesOf_rest n hct hcl]
  · left
    exact ⟨(n, joinWith [cComma] (valuesOf n (rest hs))), (mem_items _ _).mpr ⟨hmem, rfl⟩, rfl⟩

example : (match addHeaders [] [(str "X-Foo", str "1"), (str "Content-Type", str "t"), (str "X-Foo", str "2")] with
    | .ok vars => dget (str "HTTP_X_FOO") vars == some (str "1,2") && dget (str "HTTP_CONTENT_TYPE") vars == none
    | .error _ => false) = true := by decide
example : hasName (str "X-Foo") [(str "X-Foo", str "1"), (str "X-Foo", str "2")] = true ∧
    contentNames.contains (str "X-Foo") = false ∧
    uniqueCgi [(str "X-Foo", str "1"), (str "X-Foo", str "2")] (str "X-Foo") = true := by decide

/-- **environ_http_names**: every variable of the environ is a base variable, CONTENT_TYPE, CONTENT_LENGTH, or the
    `http_var_name` of a request header that is neither Content-Type nor Content-Length — nothing else is created. -/
theorem environ_http_names (base hs vars : List (Str × Str)) (h : addHeaders base hs = .ok vars) (k : Str)
    (hk : k ∈ keys vars) :
    k ∈ keys base ∨ k = str "CONTENT_TYPE" ∨ k = str "CONTENT_LENGTH" ∨
      ∃ n, hasName n hs = true ∧ contentNames.contains n = false ∧ k = cgiName n := by
  obtain ⟨vars0, h0, hv0⟩ := addHeaders_rest base hs
  rw [h0] at h
  simp only [Except.ok.injEq] at h
  subst h
  rcases mem_keys_foldl_dset k (fun kv => cgiName kv.1) _ _ hk with h' | ⟨kv, hkv, e⟩
  · rcases hv0 k h' with a | a | a
    · exact Or.inl a
    · exact Or.inr (Or.inl a)
    · exact Or.inr (Or.inr (Or.inl a))
  · right; right; right
    rw [mem_items] at hkv
    have hm := (mem_names_rest kv.1 hs).mp hkv.1
    refine ⟨kv.1, (hasName_iff _ _).mpr hm.1, ?_, e⟩
    have e2 : contentNames = [ctName, clName] := rfl
    rw [e2]
    simp [hm.2.1, hm.2.2]

/-- **content_headers_not_http**: Content-Type and Content-Length themselves (`c`) never appear as `HTTP_CONTENT_TYPE` /
    `HTTP_CONTENT_LENGTH`: the variable `http_var_name c` can only come from the base variables or from a header other
    than those two that has this variable name (`Content_Type`) -/
theorem content_headers_not_http (base hs vars : List (Str × Str)) (h : addHeaders base hs = .ok vars) (c : Str)
    (hb : cgiName c ∉ keys base)
    (hno : ∀ n, hasName n hs = true → contentNames.contains n = false → cgiName n ≠ cgiName c) :
    cgiName c ∉ keys vars := by
  intro hk
  rcases environ_http_names base hs vars h _ hk with a | a | a | ⟨n, h1, h2, e⟩
  · exact hb a
  · exact cgiName_ne c _ str_ct_head a
  · exact cgiName_ne c _ str_cl_head a
  · exact hno n h1 h2 e.symm

example : cgiName (str "Content-Type") ∉ keys ([] : List (Str × Str)) ∧
    (∀ n, hasName n [(str "Content-Type", str "t")] = true → contentNames.contains n = false →
      cgiName n ≠ cgiName (str "Content-Type")) := by
  refine ⟨by simp [keys], ?_⟩
  intro n h1 h2
  have : str "Content-Type" = n := by simpa [hasName] using h1
  rw [← this] at h2
  exact absurd h2 (by decide)

/-! ## the final environ against the specification the oracle applies -/

/-- **environ_eq_expected**: for a request with target `path[?query]` and Host `name[:port]` the environ handed to the
    application is built (`wsgi.input` = the body), it is a dictionary (variable names pairwise distinct), it
    CONTAINS every entry of `Spec.expected s` with exactly that value — method, SCRIPT_NAME, percent-decoded path,
    query string, peer address, SERVER_NAME = name, SERVER_PORT = port number (scheme default when absent or
    empty), protocol, scheme, CONTENT_TYPE / CONTENT_LENGTH when the request has them, and `HTTP_*` for every other
    header whose variable name is unambiguous — and it contains NO variable outside `Spec.allowedKey s`.
    These are the two predicates the oracle applies to the environ the real application captured. -/
theorem environ_eq_expected (s : SReq) (hpath : cQ ∉ s.path)
    (hport : ∀ p, s.port = some p → p.all isDigit = true)
    (hname : s.port = none → splitHostPort s.name = (s.name, [])) :
    ∃ vars, environ (assemble s) = .ok { vars := vars, input := s.body } ∧
      (keys vars).Nodup ∧
      (∀ kv ∈ Spec.expected s, dget kv.1 vars = some kv.2) ∧
      (∀ k ∈ keys vars, Spec.allowedKey s k = true) := by
  obtain ⟨vars, hadd, henv⟩ := environ_fields s hpath hport hname
  rw [expected_no_headers] at hadd
  have hnd9 : (keys (base9 s)).Nodup := by rw [keys_base9]; exact baseKeys_nodup
  have hctb : dget (str "CONTENT_TYPE") (base9 s) = none :=
    dget_none_of_notin_keys _ _ (by rw [keys_base9]; decide)
  have hclb : dget (str "CONTENT_LENGTH") (base9 s) = none :=
    dget_none_of_notin_keys _ _ (by rw [keys_base9]; decide)
  have hct := environ_content_headers _ _ _ hadd
  have hcl := addHeaders_content_length _ _ _ hadd
  rw [hctb] at hct
  rw [hclb] at hcl
  refine ⟨vars, henv, addHeaders_keys_nodup _ _ _ hadd hnd9, ?_, ?_⟩
  · intro kv hkv
    rw [expected_split] at hkv
    simp only [List.mem_append] at hkv
    rcases hkv with ((hkv | hkv) | hkv) | hkv
    · have hk : kv.1 ∈ baseKeys := by
        rw [← keys_base9 s]; exact List.mem_map.mpr ⟨kv, hkv, rfl⟩
      obtain ⟨h1, h2, h3⟩ := baseKeys_plain kv.1 hk
      rw [addHeaders_dget_plain _ _ _ hadd kv.1 h1 h2 h3]
      exact dget_of_mem_nodup kv _ hnd9 hkv
    · by_cases hh : hasName (str "Content-Type") s.headers = true
      · rw [if_pos hh, List.mem_singleton] at hkv
        subst hkv
        rw [hct, if_pos hh]
      · rw [if_neg hh] at hkv; simp at hkv
    · by_cases hh : hasName (str "Content-Length") s.headers = true
      · rw [if_pos hh, List.mem_singleton] at hkv
        subst hkv
        rw [hcl, if_pos hh]
      · rw [if_neg hh] at hkv; simp at hkv
    · obtain ⟨n, hn, rfl⟩ := List.mem_map.mp hkv
      obtain ⟨hn1, hn2⟩ := List.mem_filter.mp hn
      simp only [Bool.and_eq_true, Bool.not_eq_true'] at hn2
      exact environ_http_vars _ _ _ hadd n
        ((hasName_iff n s.headers).mpr (List.mem_eraseDups.mp hn1)) hn2.1 hn2.2
  · intro k hk
    unfold Spec.allowedKey
    rw [Bool.or_eq_true, List.any_eq_true, List.any_eq_true]
    rcases environ_http_names _ _ _ hadd k hk with h | h | h | ⟨n, h1, h2, e⟩
    · left
      obtain ⟨kv, hkv, e⟩ := List.mem_map.mp h
      refine ⟨kv, ?_, by simpa using e⟩
      rw [expected_split]
      simp only [List.mem_append]
      exact Or.inl (Or.inl (Or.inl hkv))
    · left
      subst h
      have hh : hasName (str "Content-Type") s.headers = true := by
        by_cases hno : hasName (str "Content-Type") s.headers = true
        · exact hno
        · rw [if_neg hno] at hct
          exact absurd hct (dget_ne_none_of_mem_keys _ _ hk)
      refine ⟨(str "CONTENT_TYPE", joinWith [cComma] (valuesOf (str "Content-Type") s.headers)), ?_, by simp⟩
      rw [expected_split]
      simp only [List.mem_append]
      exact Or.inl (Or.inl (Or.inr (by rw [if_pos hh]; simp)))
    · left
      subst h
      have hh : hasName (str "Content-Length") s.headers = true := by
        by_cases hno : hasName (str "Content-Length") s.headers = true
        · exact hno
        · rw [if_neg hno] at hcl
          exact absurd hcl (dget_ne_none_of_mem_keys _ _ hk)
      refine ⟨(str "CONTENT_LENGTH", joinWith [cComma] (valuesOf (str "Content-Length") s.headers)), ?_, by simp⟩
      rw [expected_split]
      simp only [List.mem_append]
      exact Or.inl (Or.inr (by rw [if_pos hh]; simp))
    · right
      refine ⟨n, (hasName_iff n s.headers).mp h1, ?_⟩
      rw [h2, e]; simp

def exReq : SReq :=
  { method := str "GET", path := str "/a%20b", query := some (str "x=1"), name := str "[::1]",
    port := some (str "0080"), https := false, remoteIp := str "1.2.3.4", version := str "HTTP/1.1",
    headers := [(str "Content-Type", str "t"), (str "X-Foo", str "1"), (str "Request-Method", str "evil")], body := [1] }

example : cQ ∉ exReq.path ∧ (∀ p, exReq.port = some p → p.all isDigit = true) ∧
      (exReq.port = none → splitHostPort exReq.name = (exReq.name, [])) := by
  refine ⟨by decide, ?_, by simp [exReq]⟩
  intro p hp
  have : p = str "0080" := by simpa [exReq] using hp.symm
  subst this
  decide
example : (match environ (assemble exReq) with
    | .ok e => dget (str "REQUEST_METHOD") e.vars == some (str "GET") && dget (str "HTTP_REQUEST_METHOD") e.vars == some (str "evil")
        && dget (str "SERVER_NAME") e.vars == some (str "[::1]") && dget (str "SERVER_PORT") e.vars == some (str "80")
    | .error _ => false) = true := by decide

/-- **environ_final_fields** (the per-variable reading of `environ_eq_expected`): in the environ the application
    receives, REQUEST_METHOD is the method, PATH_INFO the percent-decoded path, QUERY_STRING the query (empty when
    there is none), SERVER_NAME the host name without the port and SERVER_PORT the port number — no request header
    can overwrite any of them (a header named `Request-Method` becomes `HTTP_REQUEST_METHOD`). -/
theorem environ_final_fields (s : SReq) (hpath : cQ ∉ s.path)
    (hport : ∀ p, s.port = some p → p.all isDigit = true)
    (hname : s.port = none → splitHostPort s.name = (s.name, [])) :
    ∃ vars, environ (assemble s) = .ok { vars := vars, input := s.body } ∧
      dget (str "REQUEST_METHOD") vars = some s.method ∧
      dget (str "PATH_INFO") vars = some (TornadoModel.C31.unquote s.path) ∧
      dget (str "QUERY_STRING") vars = some (s.query.getD []) ∧
      dget (str "SERVER_NAME") vars = some s.name ∧
      dget (str "SERVER_PORT") vars = some (portOf s.https s.port) ∧
      dget (str "SERVER_PROTOCOL") vars = some s.version ∧
      dget (str "REMOTE_ADDR") vars = some s.remoteIp := by
  obtain ⟨vars, henv, _, hexp, _⟩ := environ_eq_expected s hpath hport hname
  have hm : ∀ kv ∈ base9 s, dget kv.1 vars = some kv.2 := by
    intro kv hkv
    apply hexp
    rw [expected_split]
    simp only [List.mem_append]
    exact Or.inl (Or.inl (Or.inl hkv))
  have m0 : (str "REQUEST_METHOD", s.method) ∈ base9 s := .head _
  have m2 : (str "PATH_INFO", TornadoModel.C31.unquote s.path) ∈ base9 s := .tail _ (.tail _ (.head _))
  have m3 : (str "QUERY_STRING", s.query.getD []) ∈ base9 s := .tail _ (.tail _ (.tail _ (.head _)))
  have m4 : (str "REMOTE_ADDR", s.remoteIp) ∈ base9 s := .tail _ (.tail _ (.tail _ (.tail _ (.head _))))
  have m5 : (str "SERVER_NAME", s.name) ∈ base9 s := .tail _ (.tail _ (.tail _ (.tail _ (.tail _ (.head _)))))
  have m6 : (str "SERVER_PORT", portOf s.https s.port) ∈ base9 s :=
    .tail _ (.tail _ (.tail _ (.tail _ (.tail _ (.tail _ (.head _))))))
  have m7 : (str "SERVER_PROTOCOL", s.version) ∈ base9 s :=
    .tail _ (.tail _ (.tail _ (.tail _ (.tail _ (.tail _ (.tail _ (.head _)))))))
  exact ⟨vars, henv, hm _ m0, hm _ m2, hm _ m3, hm _ m5, hm _ m6, hm _ m7, hm _ m4⟩

/-! ## the response -/

/-- **response_faithful** (what is handed to the connection): the status code and reason are the two halves
    of the application's status; the application's headers come first and unchanged, in order; anything
    appended is one of the three defaults and only for a name the application did not set; the body is the
    application's body, or empty for HEAD requests and 304 responses. -/
theorem response_faithful (method tver : Str) (a : AppOut) (r : Resp) (h : respond method tver a = .ok r) :
    (∃ cs, splitSpace a.status = some (cs, r.reason) ∧ parseCode cs = some r.code) ∧
    (∃ extra, r.headers = a.headers ++ extra ∧
      ∀ p ∈ extra, isDefaultName (lowerName p.1) = true ∧ hasLower (lowerName p.1) a.headers = false) ∧
    r.body = (if isHead method || noBodyStatus r.code then [] else a.body) := by
  unfold respond at h
  split at h
  · simp at h
  · rename_i cs reason hs
    split at h
    · simp at h
    · rename_i code hc
      simp only [Except.ok.injEq] at h
      subst h
      refine ⟨⟨cs, hs, hc⟩, ⟨_, rfl, ?_⟩, rfl⟩
      intro p hp
      have e1 : lowerName (str "Content-Length") = str "content-length" := by decide
      have e2 : lowerName (str "Content-Type") = str "content-type" := by decide
      have e3 : lowerName (str "Server") = str "server" := by decide
      simp only [defaults, List.mem_append] at hp
      rcases hp with (hp | hp) | hp
      · split at hp
        · rename_i hc
          simp only [List.mem_singleton] at hp
          subst hp
          simp only [e1]
          exact ⟨by decide, by simpa using hc.2⟩
        · simp at hp
      · split at hp
        · rename_i hc
          simp only [List.mem_singleton] at hp
          subst hp
          simp only [e2]
          exact ⟨by decide, by simpa using hc.2⟩
        · simp at hp
      · split at hp
        · rename_i hc
          simp only [List.mem_singleton] at hp
          subst hp
          simp only [e3]
          exact ⟨by decide, by simpa using hc⟩
        · simp at hp

/-- the wire: status line, header lines, blank line, then the body verbatim (never chunked, nothing after) -/
theorem wire_shape (close : Bool) (r : Resp) :
    ∃ headerBytes, wire close r =
      str "HTTP/1.1 " ++ toDec r.code ++ [32] ++ r.reason ++ headerBytes ++ crlf ++ crlf ++ r.body :=
  ⟨_, rfl⟩

/-- **body_join**: for a request other than HEAD and a status that carries a body, the body handed to the connection —
    and the bytes that follow the blank line on the wire — are the application's `write()` arguments followed by the
    chunks of its iterable, concatenated in order, with nothing added, dropped or re-framed. -/
theorem body_join (method tver status : Str) (hs : List (Str × Str)) (writes chunks : List Bytes) (close : Bool) (r : Resp)
    (h : respond method tver { status := status, headers := hs, body := joinResponse (writes ++ chunks) } = .ok r)
    (hm : isHead method = false) (hb : noBodyStatus r.code = false) :
    r.body = writes.flatten ++ chunks.flatten ∧
    ∃ headerBytes, wire close r =
      str "HTTP/1.1 " ++ toDec r.code ++ [32] ++ r.reason ++ headerBytes ++ crlf ++ crlf ++
        (writes.flatten ++ chunks.flatten) := by
  obtain ⟨_, _, hbody⟩ := response_faithful method tver _ r h
  have hbody' : r.body = writes.flatten ++ chunks.flatten := by
    rw [hbody, hm, hb]
    simp [joinResponse]
  refine ⟨hbody', ?_⟩
  obtain ⟨hbytes, e⟩ := wire_shape close r
  exact ⟨hbytes, by rw [e, hbody']⟩

/-- **body_dropped**: for HEAD requests and for 1xx / 204 / 304 statuses nothing follows the blank line -/
theorem body_dropped (method tver : Str) (a : AppOut) (close : Bool) (r : Resp) (h : respond method tver a = .ok r)
    (hd : isHead method = true ∨ noBodyStatus r.code = true) :
    ∃ headerBytes, wire close r =
      str "HTTP/1.1 " ++ toDec r.code ++ [32] ++ r.reason ++ headerBytes ++ crlf ++ crlf := by
  obtain ⟨_, _, hbody⟩ := response_faithful method tver a r h
  have hbody' : r.body = [] := by
    rw [hbody]
    rcases hd with hd | hd <;> simp [hd]
  obtain ⟨hbytes, e⟩ := wire_shape close r
  exact ⟨hbytes, by rw [e, hbody', List.append_nil]⟩

example : (match respond (str "GET") (str "6.5")
      (AppOut.mk (str "200 OK") [] (joinResponse ([[104], [105, 33]] ++ [[], [13, 10], [48]]))) with
    | .ok r => isHead (str "GET") == false && noBodyStatus r.code == false && r.body == [104, 105, 33, 13, 10, 48]
    | .error _ => false) = true := by decide
example : (match respond (str "GET") (str "6.5") { status := str "204 No Content", headers := [], body := [104] } with
    | .ok r => noBodyStatus r.code && r.body == []
    | .error _ => false) = true := by decide

/-- **group_values**: `HTTPHeaders.add` for every pair followed by `get_all()` (grouping by normalised name)
    keeps, for every name, exactly the values the application gave under the spellings of that name, in their
    order (invariant: the keys of the grouped dictionary stay pairwise distinct, `grouped_keys_nodup`). -/
theorem group_values :
  ∀ (hs : List (Str × Str)) (n : Str),
    (getAll (grouped hs)).filterMap (fun p => if p.1 = n then some p.2 else none) =
      hs.filterMap (fun p => if TornadoModel.C06.normalize p.1 = n then some p.2 else none) := by
  intro hs n
  have h := gvals_foldl n hs [] List.nodup_nil
  rw [gvals_nil, List.nil_append] at h
  exact h

example : getAll (grouped [(str "set-cookie", str "a"), (str "X-App", str "1"), (str "Set-Cookie", str "b")]) =
    [(str "Set-Cookie", str "a"), (str "Set-Cookie", str "b"), (str "X-App", str "1")] := by decide

/-! ## non-vacuity -/
example : (match respond (str "HEAD") (str "6.5") { status := str "200 OK", headers := [(str "X-A", str "1")], body := [104, 105] } with
    | .ok r => r.code == 200 && r.body == [] && r.headers.length == 4
    | .error _ => false) = true := by decide

end TornadoModel.C47
