/- C47 — property theorems (see docs/C47.md).  Model: C47/Model.lean, specification: C47/Spec.lean. -/
import TornadoModel.C47.Lemmas
namespace TornadoModel.C47
open TornadoModel.C06 (Str joinWith dget dset)
open Spec

/-! ## the environ is always built -/

/-- closed form of the header step: both guarded `pop`s succeed -/
theorem addHeaders_eq (vars hs : List (Str × Str)) :
    addHeaders vars hs = .ok (
      let st1 := if hasName (str "Content-Type") hs then
        (dset (str "CONTENT_TYPE") (joinWith [cComma] (valuesOf (str "Content-Type") hs)) vars,
          hs.filter (fun p => p.1 ≠ str "Content-Type")) else (vars, hs)
      let st2 := if hasName (str "Content-Length") st1.2 then
        (dset (str "CONTENT_LENGTH") (joinWith [cComma] (valuesOf (str "Content-Length") st1.2)) st1.1,
          st1.2.filter (fun p => p.1 ≠ str "Content-Length")) else st1
      (items st2.2).foldl (fun acc kv => dset (cgiName kv.1) kv.2 acc) st2.1) := by
  unfold addHeaders
  rw [popInto_ok]
  simp only [bind, Except.bind]
  rw [popInto_ok]
  rfl

theorem addHeaders_total (vars hs : List (Str × Str)) : ∃ v, addHeaders vars hs = .ok v :=
  ⟨_, addHeaders_eq vars hs⟩

/-- **environ_total**: for every request the container can receive — any host text, any header list —
    building the environ succeeds (the only raising operations left are the two `pop`s, each guarded by `in`) -/
theorem environ_total (r : ReqW) : ∃ e, environ r = .ok e := by
  unfold environ
  obtain ⟨v, hv⟩ := addHeaders_total (baseVars r (splitHostPort r.host).1 (portText r.https (splitHostPort r.host).2)) r.headers
  exact ⟨{ vars := v, input := r.body }, by simp [hv, bind, Except.bind, pure, Except.pure]⟩

/-- the host rule before the fix (D19): `Host: a:` makes `int("")` raise, so no environ and no response -/
theorem old_environ_raises :
    (match environOldHost { method := [], uri := [], version := [], host := [97, 58], https := false,
                            remoteIp := [], headers := [], body := [] } with
      | .error .valueError => true
      | _ => false) = true := by decide

/-! ## host name and port -/

/-- `name:digits` → (name, digits), whatever `name` contains (IPv6 literals included) -/
theorem host_port_explicit (name ds : Str) (h : ds.all isDigit = true) :
    splitHostPort (name ++ cColon :: ds) = (name, ds) := by
  simp [splitHostPort, rsplitColon_last ds (digits_no_colon ds h) name, h]

/-- no colon → the whole text is the host, no port -/
theorem host_port_absent (host : Str) (h : cColon ∉ host) : splitHostPort host = (host, []) := by
  simp [splitHostPort, rsplitColon_none host h]

/-- a colon that is not followed by a digit run to the end (`[::1]`, `[2001:db8::1]`) is part of the host -/
theorem host_port_ipv6_literal (pre suf : Str) (h1 : cColon ∉ suf) (h2 : suf.all isDigit = false) :
    splitHostPort (pre ++ cColon :: suf) = (pre ++ cColon :: suf, []) := by
  simp [splitHostPort, rsplitColon_last suf h1 pre, h2]

example : splitHostPort (str "[::1]:8080") = (str "[::1]", str "8080") := by decide
example : splitHostPort (str "[::1]") = (str "[::1]", []) := by decide
example : splitHostPort (str "example.com:") = (str "example.com", []) := by decide
example : portText false (str "0080") = str "80" ∧ portText true [] = str "443" ∧ portText false (str "000") = str "0" := by decide

theorem partitionQ_path (path : Str) (h : cQ ∉ path) (q : Option Str) :
    partitionQ (path ++ querySuffix q) = (path, q.getD []) := by
  induction path with
  | nil => cases q <;> simp [partitionQ, querySuffix]
  | cons c cs ih =>
    have hc : c ≠ cQ := fun e => h (by simp [e])
    have := ih (fun e => h (by simp [e]))
    simp [partitionQ, hc, this]

/-- **environ_fields**: for a request with target `path[?query]` and Host `name[:port]`, the variables the
    header step starts from are exactly the nine the specification lists: method, script name, the
    percent-decoded path, the query string, peer address, SERVER_NAME = name, SERVER_PORT = the port number
    (scheme default when absent or empty), protocol version and scheme; and `wsgi.input` is the body. -/
theorem environ_fields (s : SReq) (hpath : cQ ∉ s.path)
    (hport : ∀ p, s.port = some p → p.all isDigit = true)
    (hname : s.port = none → splitHostPort s.name = (s.name, [])) :
    ∃ vars, addHeaders ((Spec.expected { s with headers := [] })) s.headers = .ok vars ∧
      environ (assemble s) = .ok { vars := vars, input := s.body } := by
  have hsplit : splitHostPort (assemble s).host = (s.name, s.port.getD []) := by
    cases hp : s.port with
    | none => simpa [assemble, hp, portSuffix] using hname hp
    | some p => simpa [assemble, hp, portSuffix] using host_port_explicit s.name p (hport p hp)
  have hport' : portText s.https (s.port.getD []) = portOf s.https s.port := by
    cases s.port <;> rfl
  have hq := partitionQ_path s.path hpath s.query
  have hbase : baseVars (assemble s) (splitHostPort (assemble s).host).1
      (portText (assemble s).https (splitHostPort (assemble s).host).2) = Spec.expected { s with headers := [] } := by
    rw [hsplit]
    have e1 : (assemble s).https = s.https := rfl
    simp only [e1, hport']
    simp [baseVars, Spec.expected, assemble, hq, hasName]
    by_cases hh : s.https = true <;> simp [hh]
  obtain ⟨v, hv⟩ := addHeaders_total (Spec.expected { s with headers := [] }) s.headers
  refine ⟨v, hv, ?_⟩
  have e2 : (assemble s).headers = s.headers := rfl
  have e3 : (assemble s).body = s.body := rfl
  unfold environ
  simp [hbase, e2, e3, hv, bind, Except.bind, pure, Except.pure]

/-! ## content headers -/

theorem str_ct_head : (str "CONTENT_TYPE").head? ≠ some 72 := by decide
theorem str_cl_head : (str "CONTENT_LENGTH").head? ≠ some 72 := by decide

/-- **environ_content_headers**: CONTENT_TYPE is the comma-joined Content-Type values when the request has
    the header and is untouched otherwise; no `HTTP_*` variable overwrites it.  (Same for CONTENT_LENGTH.) -/
theorem environ_content_headers (base hs vars : List (Str × Str)) (h : addHeaders base hs = .ok vars) :
    dget (str "CONTENT_TYPE") vars =
      (if hasName (str "Content-Type") hs then some (joinWith [cComma] (valuesOf (str "Content-Type") hs))
       else dget (str "CONTENT_TYPE") base) := by
  have hne : str "CONTENT_LENGTH" ≠ str "CONTENT_TYPE" := by decide
  rw [addHeaders_eq] at h
  simp only [Except.ok.injEq] at h
  rw [← h, dget_foldl_dset_ne _ _ _ _ (fun kv _ => cgiName_ne kv.1 _ str_ct_head)]
  by_cases h1 : hasName (str "Content-Type") hs = true
  · simp only [h1, if_true]
    by_cases h2 : hasName (str "Content-Length") (hs.filter (fun p => p.1 ≠ str "Content-Type")) = true
    · rw [if_pos h2]; dsimp only; rw [dget_dset_ne _ _ _ hne, dget_dset_same]
    · rw [if_neg h2]; dsimp only; rw [dget_dset_same]
  · have h1' : hasName (str "Content-Type") hs = false := by simpa using h1
    simp only [h1', Bool.false_eq_true, if_false]
    by_cases h2 : hasName (str "Content-Length") hs = true
    · rw [if_pos h2]; dsimp only; rw [dget_dset_ne _ _ _ hne]
    · rw [if_neg h2]

/-! ## the response -/

/-- **response_faithful** (what is handed to the connection): the status code and reason are the two halves
    of the application's status; the application's headers come first and unchanged, in order; anything
    appended is one of the three defaults and only for a name the application did not set; the body is the
    application's body, or empty for HEAD requests and 304 responses. -/
theorem response_faithful (method tver : Str) (a : AppOut) (r : Resp) (h : respond method tver a = .ok r) :
    (∃ cs, splitSpace a.status = some (cs, r.reason) ∧ parseCode cs = some r.code) ∧
    (∃ extra, r.headers = a.headers ++ extra ∧
      ∀ p ∈ extra, isDefaultName (lowerName p.1) = true ∧ hasLower (lowerName p.1) a.headers = false) ∧
    r.body = (if isHead method || noBodyStatus r.code then [] else a.body) := by
  unfold respond at h
  split at h
  · simp at h
  · rename_i cs reason hs
    split at h
    · simp at h
    · rename_i code hc
      simp only [Except.ok.injEq] at h
      subst h
      refine ⟨⟨cs, hs, hc⟩, ⟨_, rfl, ?_⟩, rfl⟩
      intro p hp
      have e1 : lowerName (str "Content-Length") = str "content-length" := by decide
      have e2 : lowerName (str "Content-Type") = str "content-type" := by decide
      have e3 : lowerName (str "Server") = str "server" := by decide
      simp only [defaults, List.mem_append] at hp
      rcases hp with (hp | hp) | hp
      · split at hp
        · rename_i hc
          simp only [List.mem_singleton] at hp
          subst hp
          simp only [e1]
          exact ⟨by decide, by simpa using hc.2⟩
        · simp at hp
      · split at hp
        · rename_i hc
          simp only [List.mem_singleton] at hp
          subst hp
          simp only [e2]
          exact ⟨by decide, by simpa using hc.2⟩
        · simp at hp
      · split at hp
        · rename_i hc
          simp only [List.mem_singleton] at hp
          subst hp
          simp only [e3]
          exact ⟨by decide, by simpa using hc⟩
        · simp at hp

/-- the wire: status line, header lines, blank line, then the body verbatim (never chunked, nothing after) -/
theorem wire_shape (close : Bool) (r : Resp) :
    ∃ headerBytes, wire close r =
      str "HTTP/1.1 " ++ toDec r.code ++ [32] ++ r.reason ++ headerBytes ++ crlf ++ crlf ++ r.body :=
  ⟨_, rfl⟩

/-- stretch, tie-only: `HTTPHeaders.add` + `get_all` (grouping by normalised name) keeps, for every name, the
    values the application gave in their order.  Checked on every case by the oracle `Spec.faithful`. -/
def group_values_goal : Prop :=
  ∀ (hs : List (Str × Str)) (n : Str),
    (getAll (grouped hs)).filterMap (fun p => if p.1 = n then some p.2 else none) =
      hs.filterMap (fun p => if TornadoModel.C06.normalize p.1 = n then some p.2 else none)

/-! ## non-vacuity -/
example : (match respond (str "HEAD") (str "6.5") { status := str "200 OK", headers := [(str "X-A", str "1")], body := [104, 105] } with
    | .ok r => r.code == 200 && r.body == [] && r.headers.length == 4
    | .error _ => false) = true := by decide

end TornadoModel.C47
