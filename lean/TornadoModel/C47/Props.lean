import TornadoModel.C47.Spec
namespace TornadoModel.C47
theorem stub : (1 : Nat) = 1 := rfl
end TornadoModel.C47
