/- C47 driver.
  req  := [method,uri,version,host,T|F,remoteIp,[[name,value],…],xbody]
  sreq := [method,path,query|~,name,port|~,T|F,remoteIp,version,[[name,value],…],xbody]
-/
import TornadoModel.Base.Wire
import TornadoModel.C47.Spec
namespace TornadoModel.C47.Drv
open TornadoModel TornadoModel.Wire TornadoModel.C47
open TornadoModel.C06 (Str)

def decPairs (v : V) : Option (List (Str × Str)) := do
  (← v.list?).mapM (fun e => do
    match ← e.list? with
    | [k, x] => pure (← k.cps?, ← x.cps?)
    | _ => none)

def decOptStr (v : V) : Option (Option Str) := if v.isNone then some none else v.cps?.map some

def decReq (v : V) : Option ReqW := do
  match ← v.list? with
  | [m, u, ver, h, https, ip, hs, b] =>
    pure { method := ← m.cps?, uri := ← u.cps?, version := ← ver.cps?, host := ← h.cps?, https := ← https.bool?,
           remoteIp := ← ip.cps?, headers := ← decPairs hs, body := ← b.byteNats? }
  | _ => none

def decSReq (v : V) : Option Spec.SReq := do
  match ← v.list? with
  | [m, p, q, n, port, https, ip, ver, hs, b] =>
    pure { method := ← m.cps?, path := ← p.cps?, query := ← decOptStr q, name := ← n.cps?, port := ← decOptStr port,
           https := ← https.bool?, remoteIp := ← ip.cps?, version := ← ver.cps?, headers := ← decPairs hs,
           body := ← b.byteNats? }
  | _ => none

def encPairs (ps : List (Str × Str)) : V := .list (ps.map (fun (k, v) => .list [V.ofCps k, V.ofCps v]))

def encErr : Err → V
  | .keyError => .atom "KeyError"
  | .valueError => .atom "ValueError"

def handle (toks : List String) : String :=
  match toks with
  | cmd :: rest =>
    match parseArgs rest with
    | none => err "bad-arg"
    | some args =>
      match cmd, args with
      | "environ", [r] =>
        match decReq r with
        | some r =>
          match environ r with
          | .ok e => ok [.atom "ok", encPairs e.vars, V.ofByteNats e.input]
          | .error e => ok [.atom "err", encErr e]
        | none => err "bad-arg"
      | "specenv", [s] =>
        match decSReq s with
        | some s => ok [encPairs (Spec.expected s), V.ofBool ((environ (Spec.assemble s)) matches .ok _)]
        | none => err "bad-arg"
      | "allowed", [s, ks] =>
        match decSReq s, ks.list? >>= (·.mapM V.cps?) with
        | some s, some ks => ok [.list (ks.map (fun k => V.ofBool (Spec.allowedKey s k)))]
        | _, _ => err "bad-arg"
      | "oldhost", [h] =>
        match h.cps? with
        | some h =>
          match environOldHost { method := [], uri := [], version := [], host := h, https := false, remoteIp := [],
                                 headers := [], body := [] } with
          | .ok (a, b) => ok [.atom "ok", V.ofCps a, V.ofCps b]
          | .error e => ok [.atom "err", encErr e]
        | none => err "bad-arg"
      | "respond", [m, tver, st, hs, b, close] =>
        match m.cps?, tver.cps?, st.cps?, decPairs hs, b.byteNats?, close.bool? with
        | some m, some tver, some st, some hs, some b, some close =>
          match respond m tver { status := st, headers := hs, body := b } with
          | .ok r => ok [.atom "ok", .int r.code, V.ofCps r.reason, encPairs r.headers, V.ofByteNats r.body,
                         V.ofByteNats (wire close r)]
          | .error e => ok [.atom "err", encErr e]
        | _, _, _, _, _, _ => err "bad-arg"
      | "respondj", [m, tver, st, hs, pieces, close] =>
        -- as "respond", but the model joins the pieces appended to `response` (write() calls, then chunks) itself
        match m.cps?, tver.cps?, st.cps?, decPairs hs, pieces.list? >>= (·.mapM V.byteNats?), close.bool? with
        | some m, some tver, some st, some hs, some ps, some close =>
          match respond m tver { status := st, headers := hs, body := joinResponse ps } with
          | .ok r => ok [.atom "ok", .int r.code, V.ofCps r.reason, encPairs r.headers, V.ofByteNats r.body,
                         V.ofByteNats (wire close r)]
          | .error e => ok [.atom "err", encErr e]
        | _, _, _, _, _, _ => err "bad-arg"
      | "faithful", [m, st, hs, b, code, reason, whs, wb] =>
        match m.cps?, st.cps?, decPairs hs, b.byteNats?, code.nat?, reason.cps?, decPairs whs, wb.byteNats? with
        | some m, some st, some hs, some b, some code, some reason, some whs, some wb =>
          ok [V.ofBool (Spec.faithful m { status := st, headers := hs, body := b } code reason whs wb)]
        | _, _, _, _, _, _, _, _ => err "bad-arg"
      | _, _ => err "bad-cmd"
  | _ => err "bad-line"

end TornadoModel.C47.Drv
