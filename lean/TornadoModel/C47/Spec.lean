/-
C47 — the specification side: what CGI/WSGI (RFC 3875, PEP 3333) ask of the environ, stated on the
*structured* request (method, path, query, host name, port, headers), and what "reaches the client
unchanged apart from the three defaults" means for a response.
-/
import TornadoModel.C47.Model
namespace TornadoModel.C47.Spec
open TornadoModel.C47
open TornadoModel.C06 (Str joinWith lowerC)

structure SReq where
  method : Str
  path : Str
  query : Option Str        -- none: no "?" in the request target
  name : Str                -- host name / IPv4 / bracketed IPv6 literal, without the port
  port : Option Str         -- the digits after "name:" (possibly empty), none: no port part
  https : Bool
  remoteIp : Str
  version : Str
  headers : List (Str × Str)
  body : Bytes
  deriving Repr, BEq, DecidableEq

def querySuffix : Option Str → Str
  | some q => cQ :: q
  | none => []

def portSuffix : Option Str → Str
  | some p => cColon :: p
  | none => []

/-- the request as it arrives -/
def assemble (s : SReq) : ReqW :=
  { method := s.method, uri := s.path ++ querySuffix s.query, version := s.version,
    host := s.name ++ portSuffix s.port,
    https := s.https, remoteIp := s.remoteIp, headers := s.headers, body := s.body }

/-- SERVER_PORT: the explicit port as a decimal number, the scheme default when absent or empty -/
def portOf (https : Bool) : Option Str → Str
  | some p => portText https p
  | none => portText https []

def contentNames : List Str := [str "Content-Type", str "Content-Length"]

/-- header names whose CGI variable name is not shared with another header of the request -/
def uniqueCgi (hs : List (Str × Str)) (n : Str) : Bool :=
  ((hs.map (·.1)).eraseDups.filter (fun m => cgiName m = cgiName n)).length = 1

/-- the entries the environ must contain -/
def expected (s : SReq) : List (Str × Str) :=
  [ (str "REQUEST_METHOD", s.method), (str "SCRIPT_NAME", []),
    (str "PATH_INFO", TornadoModel.C31.unquote s.path), (str "QUERY_STRING", s.query.getD []),
    (str "REMOTE_ADDR", s.remoteIp), (str "SERVER_NAME", s.name), (str "SERVER_PORT", portOf s.https s.port),
    (str "SERVER_PROTOCOL", s.version), (str "wsgi.url_scheme", if s.https then str "https" else str "http") ] ++
  (if hasName (str "Content-Type") s.headers
    then [(str "CONTENT_TYPE", joinWith [cComma] (valuesOf (str "Content-Type") s.headers))] else []) ++
  (if hasName (str "Content-Length") s.headers
    then [(str "CONTENT_LENGTH", joinWith [cComma] (valuesOf (str "Content-Length") s.headers))] else []) ++
  ((s.headers.map (·.1)).eraseDups.filter (fun n => !contentNames.contains n && uniqueCgi s.headers n)).map
    (fun n => (cgiName n, joinWith [cComma] (valuesOf n s.headers)))

/-- variable names that may appear at all -/
def allowedKey (s : SReq) (k : Str) : Bool :=
  (expected s).any (fun kv => kv.1 = k) ||
  ((s.headers.map (·.1)).any (fun n => !contentNames.contains n && cgiName n = k))

/-- values of a header in a response header list, by lower-cased name -/
def vals (n : Str) (hs : List (Str × Str)) : List Str :=
  hs.filterMap (fun p => if lowerName p.1 = n then some p.2 else none)

def isDefaultName (n : Str) : Bool := n = str "content-length" || n = str "content-type" || n = str "server"

/-- "status, headers and body reach the client unchanged, apart from the default Content-Length,
    Content-Type and Server headers added when they are absent" (`Connection` belongs to the server) -/
def faithful (method : Str) (a : AppOut) (code : Nat) (reason : Str) (wireHdrs : List (Str × Str)) (body : Bytes) : Bool :=
  (match splitSpace a.status with
    | some (cs, r) => parseCode cs = some code && r = reason
    | none => false) &&
  ((a.headers ++ wireHdrs).all (fun p =>
    let n := lowerName p.1
    if n = str "connection" then true
    else if isDefaultName n && (vals n a.headers).isEmpty then true
    else vals n wireHdrs = vals n a.headers)) &&
  (body = if isHead method || noBodyStatus code then [] else a.body)

end TornadoModel.C47.Spec
