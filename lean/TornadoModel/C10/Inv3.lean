/-
C10 — the accounting invariant, part 2: every primitive of the connector preserves `Inv`
(`closeStream(s)`, `try_connect` with its continuation, `on_timeout`).
-/
import TornadoModel.C10.Inv2
namespace TornadoModel.C10

theorem countP_modifyNth_le {α} (p : α → Bool) (f : α → α) (l : List α) (n : Nat)
    (h : ∀ x, p (f x) = true → p x = true) : (modifyNth f l n).countP p ≤ l.countP p := by
  induction l generalizing n with
  | nil => simp [modifyNth]
  | cons x xs ih =>
    cases n with
    | zero =>
      simp only [modifyNth, List.countP_cons]
      have := h x
      cases hp : p x <;> cases hq : p (f x) <;> simp_all
    | succ n =>
      simp only [modifyNth, List.countP_cons]
      have := ih n
      omega

/-! ### `close()` -/

theorem closeStream_core {addrs st} (h : Core addrs st) (s : Nat) : Core addrs (closeStream st s) := by
  rw [closeStream_eq]
  obtain ⟨p, a, il, c, d, e, f, g, i, j⟩ := h
  constructor
  · have : (modifyNth gClose st.streams s).map (·.addr) = st.streams.map (·.addr) :=
      map_modifyNth _ _ _ _ (fun _ => rfl)
    simpa [attempted, queued, this] using p
  · simp only [queued] at a ⊢
    cases hx : st.streams[s]? with
    | none =>
      rw [modifyNth_of_none _ _ _ hx]
      simp only [Int.sub_zero]
      exact a
    | some x =>
      have hc := countP_modifyNth undelP gClose st.streams s x hx
      have hmem := List.mem_of_getElem? hx
      by_cases hp : x.fut = .pending
      · have hd := e x hmem hp
        have h1 : undelP x = true := by simp [undelP, hd]
        have h2 : undelP (gClose x) = false := by simp [undelP, gClose, hp]
        simp only [h1, h2, if_true, Bool.false_eq_true, if_false] at hc
        simp only [hp, beq_self_eq_true, if_true]
        omega
      · have h2 : undelP (gClose x) = undelP x := by simp [undelP, gClose, hp]
        simp only [h2] at hc
        have hb : (x.fut == Fut.pending) = false := by simpa using hp
        simp only [hb, Bool.false_eq_true, if_false, Int.sub_zero]
        omega
  · exact il
  · exact forall_modifyNth _ _ _ _ c (fun x _ hx => hx)
  · intro it
    exact Nat.le_trans (countP_modifyNth_le _ _ _ _ (by
      intro x hx
      simp only [undelOn, gClose, Bool.and_eq_true, Bool.not_eq_true', Bool.or_eq_false_iff] at hx ⊢
      exact ⟨hx.1.1, hx.2⟩)) (d it)
  · refine forall_modifyNth _ _ _ _ e (fun x _ _ hq => ?_)
    cases hf : x.fut <;> simp_all [gClose]
  · exact forall_modifyNth _ _ _ _ f (fun x _ _ _ => rfl)
  · exact g
  · exact i
  · exact forall_modifyNth _ _ _ _ j (fun x _ hx => hx)

theorem foldl_closeStream_core {addrs} (L : List Nat) : ∀ {st : St}, Core addrs st → Core addrs (L.foldl closeStream st) := by
  induction L with
  | nil => intro st h; exact h
  | cons s L ih => intro st h; exact ih (closeStream_core h s)

theorem foldl_closeStream_fields (L : List Nat) : ∀ (st : St),
    (L.foldl closeStream st).inSet = st.inSet ∧ (L.foldl closeStream st).streams.length = st.streams.length := by
  induction L with
  | nil => intro st; exact ⟨rfl, rfl⟩
  | cons s L ih =>
    intro st
    obtain ⟨h1, h2⟩ := ih (closeStream st s)
    simp only [List.foldl]
    rw [h1, h2, closeStream_eq]
    exact ⟨rfl, length_modifyNth _ _ _⟩

theorem foldl_closeStream_evo (L : List Nat) : ∀ (st : St) (i : Nat) (y : Stream), st.streams[i]? = some y →
    ∃ y', (L.foldl closeStream st).streams[i]? = some y' ∧ Evo y y' ∧ (i ∈ L → y'.closed = true)
      ∧ (i ∉ L → y' = y) := by
  induction L with
  | nil => intro st i y h; exact ⟨y, h, Evo.refl y, by simp, fun _ => rfl⟩
  | cons s L ih =>
    intro st i y h
    simp only [List.foldl]
    have hs : (closeStream st s).streams = modifyNth gClose st.streams s := by rw [closeStream_eq]
    by_cases e : i = s
    · subst e
      have h1 : (closeStream st i).streams[i]? = some (gClose y) := by
        rw [hs, getElem?_modifyNth, h]; rfl
      obtain ⟨y', h2, h3, _, _⟩ := ih _ i _ h1
      exact ⟨y', h2, (evo_gClose y).trans h3, fun _ => h3.2.2.1 rfl, fun hn => absurd List.mem_cons_self hn⟩
    · have h1 : (closeStream st s).streams[i]? = some y := by
        rw [hs, getElem?_modifyNth_ne _ _ _ _ e, h]
      obtain ⟨y', h2, h3, h4, h5⟩ := ih _ i _ h1
      refine ⟨y', h2, h3, fun hm => ?_, fun hn => ?_⟩
      · rcases List.mem_cons.mp hm with hm | hm
        · exact absurd hm e
        · exact h4 hm
      · exact h5 (fun hm => hn (List.mem_cons_of_mem _ hm))

/-! ### `try_connect` -/

/-- the state after `try_connect` took entry `a` from iterator `it` and opened a stream for it (for a
synchronous failure: including `remaining -= 1` and `last_error = …` of `on_connect_done`) -/
def opened (st : St) (it : Nat) (a : Addr) (rest : List Addr) : St :=
  { st with iters := modifyNth (fun _ => rest) st.iters it,
            streams := st.streams ++ [⟨a, it, if a.sync then .err else .pending, a.sync, a.sync, 0⟩],
            inSet := addIn a st.inSet st.streams.length,
            remaining := if a.sync then st.remaining - 1 else st.remaining,
            lastError := if a.sync then some st.streams.length else st.lastError }

theorem tryConnect_cons (k : St → St) (it : Nat) (a : Addr) (rest : List Addr) (st : St) (h : st.settles = []) :
    tryConnect k it (a :: rest) st =
      if a.sync then k (tryConnect k it rest (opened st it a rest)) else opened st it a rest := by
  cases hs : a.sync <;> simp [tryConnect, opened, setIter, St.done, h, hs]

theorem opened_core {addrs st} (h : Core addrs st) (it : Nat) (a : Addr) (rest : List Addr)
    (hit : st.iters[it]? = some (a :: rest)) (hfree : st.streams.countP (undelOn it) = 0) :
    Core addrs (opened st it a rest) := by
  obtain ⟨p, ac, il, c, d, e, f, g, i, j⟩ := h
  have hF := flatten_modifyNth_perm a rest st.iters it hit
  have hlen : (modifyNth (fun _ => rest) st.iters it).length = st.iters.length := length_modifyNth _ _ _
  constructor
  · simp only [attempted, queued, opened, hlen, List.map_append, List.map_cons, List.map_nil] at p ⊢
    refine List.Perm.trans ?_ p
    rw [List.append_assoc]
    apply List.Perm.append_left
    exact hF.append_right _
  · have hq := (hF.append_right (if st.iters.length = 1 then st.sec else [])).length_eq
    simp only [List.cons_append, List.length_cons, List.length_append] at hq
    simp only [queued, opened, hlen, List.countP_append, List.countP_cons, List.countP_nil,
      List.length_append] at ac ⊢
    generalize (modifyNth (fun _ => rest) st.iters it).flatten.length = n1 at hq ⊢
    generalize st.iters.flatten.length = n2 at hq ac ⊢
    cases hs : a.sync <;> simp [undelP] <;> omega
  · exact hlen ▸ il
  · intro x hx
    simp only [opened, List.mem_append, List.mem_singleton] at hx
    show x.it < (modifyNth (fun _ => rest) st.iters it).length
    rw [hlen]
    rcases hx with hx | rfl
    · exact c x hx
    · exact lt_length_of_getElem? hit
  · intro it'
    simp only [opened, List.countP_append, List.countP_cons, List.countP_nil]
    by_cases e' : it = it'
    · subst e'
      rw [hfree]
      generalize undelOn it _ = b
      cases b <;> simp
    · have hn : undelOn it' ⟨a, it, if a.sync then .err else .pending, a.sync, a.sync, 0⟩ = false := by
        simp [undelOn, e']
      rw [hn]
      simpa using d it'
  · intro x hx hp
    simp only [opened, List.mem_append, List.mem_singleton] at hx
    rcases hx with hx | rfl
    · exact e x hx hp
    · cases hs : a.sync <;> simp_all
  · intro x hx hp
    simp only [opened, List.mem_append, List.mem_singleton] at hx
    rcases hx with hx | rfl
    · exact f x hx hp
    · cases hs : a.sync <;> simp_all
  · intro j' l hj b hb
    simp only [opened] at hj
    by_cases ej : j' = it
    · subst ej
      rw [getElem?_modifyNth, hit] at hj
      simp only [Option.map_some, Option.some.injEq] at hj
      subst hj
      exact g j' (a :: rest) hit b (List.mem_cons_of_mem _ hb)
    · rw [getElem?_modifyNth_ne _ _ _ _ ej] at hj
      exact g j' l hj b hb
  · exact i
  · intro x hx
    simp only [opened, List.mem_append, List.mem_singleton] at hx
    rcases hx with hx | rfl
    · exact j x hx
    · exact g it (a :: rest) hit a List.mem_cons_self

theorem opened_sett {addrs st} (h : Sett addrs st) (hs : st.settles = []) (it : Nat) (a : Addr) (rest : List Addr) :
    Sett addrs (opened st it a rest) := by
  obtain ⟨h0, h1⟩ := h.s0 hs
  have hs' : (opened st it a rest).settles = [] := hs
  constructor
  · intro _
    refine ⟨?_, ?_⟩
    · obtain ⟨c1, c2, c3⟩ := h0
      refine ⟨?_, ?_, ?_⟩
      · intro i x hi
        show i ∈ addIn a st.inSet st.streams.length ∨ x.closed = true
        have hi' : (st.streams ++ [⟨a, it, if a.sync then .err else .pending, a.sync, a.sync, 0⟩])[i]? = some x := hi
        by_cases hlt : i < st.streams.length
        · rw [List.getElem?_append_left hlt] at hi'
          rcases c1 i x hi' with hm | hc
          · left; unfold addIn; split
            · exact hm
            · exact List.mem_append_left _ hm
          · exact Or.inr hc
        · have hlen := lt_length_of_getElem? hi'
          simp only [List.length_append, List.length_cons, List.length_nil] at hlen
          have he : i = st.streams.length := by omega
          subst he
          rw [List.getElem?_append_right (Nat.le_refl _)] at hi'
          simp only [Nat.sub_self, List.getElem?_cons_zero, Option.some.injEq] at hi'
          subst hi'
          cases hp : a.phantom
          · left; simp [addIn, hp]
          · right
            simp only [Addr.phantom, Bool.and_eq_true] at hp
            exact hp.1
      · show (addIn a st.inSet st.streams.length).Nodup
        unfold addIn; split
        · exact c2
        · refine List.nodup_append.mpr ⟨c2, by simp, ?_⟩
          intro x hx y hy
          simp only [List.mem_singleton] at hy
          subst hy
          exact Nat.ne_of_lt (c3 x hx)
      · intro i hi
        show i < (st.streams ++ [_]).length
        simp only [List.length_append, List.length_cons, List.length_nil]
        have hi' : i ∈ addIn a st.inSet st.streams.length := hi
        unfold addIn at hi'; split at hi'
        · exact Nat.lt_succ_of_lt (c3 i hi')
        · rcases List.mem_append.mp hi' with hm | hm
          · exact Nat.lt_succ_of_lt (c3 i hm)
          · simp only [List.mem_singleton] at hm; omega
    · intro x hx
      simp only [opened, List.mem_append, List.mem_singleton] at hx
      rcases hx with hx | rfl
      · exact h1 x hx
      · cases a.sync <;> simp
  · intro a' w hw; rw [hs'] at hw; cases hw
  · intro hw; rw [hs'] at hw; cases hw
  · intro o hw; rw [hs'] at hw; cases hw

theorem opened_iters (st : St) (it : Nat) (a : Addr) (rest : List Addr) (hit : st.iters[it]? = some (a :: rest)) :
    (opened st it a rest).iters[it]? = some rest := by
  simp only [opened]
  rw [getElem?_modifyNth, hit]; rfl

theorem opened_free (st : St) (it : Nat) (a : Addr) (rest : List Addr) (hs : a.sync = true)
    (hfree : st.streams.countP (undelOn it) = 0) : (opened st it a rest).streams.countP (undelOn it) = 0 := by
  simp [opened, List.countP_append, hfree, undelOn, hs]

theorem tryConnect_inv {addrs} (k : St → St) (hk : ∀ st, Inv addrs st → Inv addrs (k st)) (it : Nat) :
    ∀ (as : List Addr) (st : St), Inv addrs st → st.settles = [] → st.iters[it]? = some as →
      st.streams.countP (undelOn it) = 0 → Inv addrs (tryConnect k it as st) := by
  intro as
  induction as with
  | nil =>
    intro st hinv hs hit hfree
    have hself : setIter st it [] = st := by
      simp only [setIter]; rw [modifyNth_self _ _ _ _ hit rfl]
    simp only [tryConnect, hself]
    split
    · rename_i hc
      simp only [Bool.and_eq_true, beq_iff_eq] at hc
      refine ⟨hinv.core.of_eq rfl rfl rfl rfl hinv.core.itl, ?_⟩
      constructor
      · intro h0; simp [hs] at h0
      · intro a w h0; cases hl : st.lastError <;> simp [hs, hl] at h0
      · intro h0; cases hl : st.lastError <;> simp [hs, hl] at h0
      · intro o _ _
        have hacct := hinv.core.acct
        have hperm := hinv.core.perm.length_eq
        simp only [List.length_append, attempted, List.length_map] at hperm
        have hc0 : st.streams.countP undelP = 0 := by omega
        refine ⟨by show st.streams.length = _; omega, ?_⟩
        intro x hx
        have hx' : x ∈ st.streams := hx
        have := List.countP_eq_zero.mp hc0 x hx'
        have hd : x.delivered = true := by simpa [undelP] using this
        exact ((hinv.sett.s0 hs).2 x hx').1 hd
    · exact hinv
  | cons a rest ih =>
    intro st hinv hs hit hfree
    rw [tryConnect_cons k it a rest st hs]
    have hinv' : Inv addrs (opened st it a rest) :=
      ⟨opened_core hinv.core it a rest hit hfree, opened_sett hinv.sett hs it a rest⟩
    cases hsy : a.sync with
    | false => simpa using hinv'
    | true =>
      simp only [if_true]
      exact hk _ (ih _ hinv' hs (opened_iters st it a rest hit) (opened_free st it a rest hsy hfree))

/-! ### `on_timeout`, and the tail of the failure branch -/

/-- the state `on_timeout` hands to `try_connect`: the secondary list becomes the second iterator -/
def secStart (st : St) : St := { st with timer := .none, iters := st.iters ++ [st.sec] }

theorem onTimeout_eq (st : St) : onTimeout st =
    if st.done then { st with timer := .none } else tryConnect id st.iters.length st.sec (secStart st) := rfl

theorem length_one_of_timer {addrs st} (h : Inv addrs st) (ht : st.timer ≠ .none) : st.iters.length = 1 := by
  rcases h.core.itl with h1 | ⟨_, h2⟩
  · exact h1
  · exact absurd h2 ht

theorem secStart_inv {addrs st} (h : Inv addrs st) (hl1 : st.iters.length = 1) :
    Inv addrs (secStart st) ∧ (secStart st).iters[st.iters.length]? = some st.sec
      ∧ (secStart st).streams.countP (undelOn st.iters.length) = 0 := by
  obtain ⟨p, hp⟩ : ∃ p, st.iters = [p] := List.length_eq_one_iff.mp hl1
  refine ⟨⟨?_, h.sett.of_eq rfl rfl rfl⟩, by simp [secStart], ?_⟩
  · obtain ⟨pm, ac, _, c, d, e, f, g, i, j⟩ := h.core
    constructor
    · simpa [secStart, attempted, queued, hp] using pm
    · simpa [secStart, queued, hp] using ac
    · right; exact ⟨by simp [secStart, hp], rfl⟩
    · intro x hx
      have := c x hx
      show x.it < (st.iters ++ [st.sec]).length
      simp only [List.length_append, List.length_singleton]
      omega
    · exact d
    · exact e
    · exact f
    · intro it l hl a ha
      simp only [secStart, hp] at hl
      simp only [hp] at g
      match it with
      | 0 => exact g 0 l (by simpa using hl) a ha
      | 1 =>
        simp at hl; subst hl
        simp only [Nat.succ_ne_zero, iff_false]
        exact i a ha
      | n + 2 => simp at hl
    · exact i
    · exact j
  · apply List.countP_eq_zero.mpr
    intro x hx
    have := h.core.itlt x hx
    simp only [undelOn, Bool.and_eq_true, beq_iff_eq, not_and]
    intro _
    show x.it ≠ st.iters.length
    omega

theorem onTimeout_inv {addrs st} (h : Inv addrs st) (ht : st.timer ≠ .none) : Inv addrs (onTimeout st) := by
  have hl1 := length_one_of_timer h ht
  rw [onTimeout_eq]
  split
  · exact ⟨h.core.of_eq rfl rfl rfl rfl (Or.inl hl1), h.sett.of_eq rfl rfl rfl⟩
  · rename_i hd
    have hs : st.settles = [] := by simpa [St.done] using hd
    obtain ⟨h1, h2, h3⟩ := secStart_inv h hl1
    exact tryConnect_inv id (fun _ h => h) _ _ _ h1 hs h2 h3

theorem afterFail_inv {addrs} (st : St) (h : Inv addrs st) : Inv addrs (afterFail st) := by
  simp only [afterFail]
  split
  · exact h
  · rename_i ht
    exact onTimeout_inv h (by simpa using ht)

end TornadoModel.C10
