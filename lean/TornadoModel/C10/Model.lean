/-
C10 — model of `tornado.tcpclient._Connector` (core Lean only).

Anchors: `_Connector.__init__/split/start/try_connect/on_connect_done/set_timeout/on_timeout/
set_connect_timeout/on_connect_timeout/clear_timeouts/close_streams`.

The `connect` callable handed to the connector is the environment: for every address it returns a fresh stream
and a connect future that is either pending (to be completed later by an event) or already failed
(`Addr.sync`: `IOStream.connect` failed synchronously, the stream is already closed).  Streams behave like
`IOStream`: a failed connect closes the stream; `close()` on a stream whose connect is pending fails the
connect future with `StreamClosedError`.

The loop is the virtual one: an *event* is everything that happens until the loop is quiescent again —
a batch of connect completions that became ready in the same iteration (their futures are all completed
before the first callback runs), or one timer firing.
-/
namespace TornadoModel.C10

structure Addr where
  idx : Nat       -- position in `addrinfo` (the identity of the list ENTRY)
  fam : Nat       -- address family
  sync : Bool     -- connecting to it fails synchronously
  name : Nat      -- the socket address: two entries denote the same address iff `fam` and `name` agree.
                  -- The connector never compares addresses (`split` keeps every entry, `remaining =
                  -- len(addrinfo)`), so nothing in this file reads `name`: a repeated address is attempted
                  -- once per entry.  Only the specification (`Spec.lean`) looks at it.
  raises : Bool := false
                  -- only read when `sync`: the `connect` callable RAISES for this entry instead of returning a
                  -- stream with an already-failed future (`TCPClient._create_stream` re-raising a failed `bind()`
                  -- after closing the socket it made).  `try_connect` catches the exception and treats the attempt
                  -- as failed; no stream reaches `self.streams`.
  deriving Repr, BEq, DecidableEq

/-- the `connect` call for this entry raises -/
def Addr.phantom (a : Addr) : Bool := a.sync && a.raises

/-- state of a stream's connect future -/
inductive Fut where
  | pending | ok | err
  deriving Repr, BEq, DecidableEq

structure Stream where
  addr : Addr
  it : Nat              -- the iterator (`addrs` argument of `try_connect`) it was taken from
  fut : Fut
  delivered : Bool      -- `on_connect_done` has run for it
  closed : Bool
  closes : Nat          -- number of `close()` calls made by the connector
  deriving Repr, BEq, DecidableEq

inductive Outcome where
  | ok (addr : Nat) (stream : Nat)     -- `(af, addr, stream)`
  | timeout                            -- `TimeoutError()`
  | lastError (stream : Nat)           -- the exception of that stream's failed connect
  | connFailed                         -- `IOError("connection failed")`
  deriving Repr, BEq, DecidableEq

/-- `self.timeout`: `None`, a live handle, or a handle that was removed from the loop -/
inductive Timer where
  | none | live | cancelled
  deriving Repr, BEq, DecidableEq

/-- `self.connect_timeout` (never reset to `None`) -/
inductive CTimer where
  | none | live | cancelled | fired
  deriving Repr, BEq, DecidableEq

structure St where
  iters : List (List Addr)     -- iterator objects (what is left of each); 0 is `iter(self.primary_addrs)`
  sec : List Addr              -- `self.secondary_addrs`
  streams : List Stream        -- every stream ever created; id = position
  inSet : List Nat             -- `self.streams`
  remaining : Int
  lastError : Option Nat
  timer : Timer
  ctimer : CTimer
  settles : List Outcome       -- every `set_result/set_exception` made on `self.future`, oldest first
  deriving Repr, BEq, DecidableEq

def St.done (st : St) : Bool := !st.settles.isEmpty

/-- `_Connector.split` (for a non-empty list) -/
def split (addrs : List Addr) : List Addr × List Addr :=
  match addrs with
  | [] => ([], [])
  | a :: _ => (addrs.filter (fun x => x.fam == a.fam), addrs.filter (fun x => x.fam != a.fam))

def modifyNth {α} (f : α → α) : List α → Nat → List α
  | [], _ => []
  | x :: xs, 0 => f x :: xs
  | x :: xs, n + 1 => x :: modifyNth f xs n

def setIter (st : St) (it : Nat) (l : List Addr) : St := { st with iters := modifyNth (fun _ => l) st.iters it }
def updStream (st : St) (s : Nat) (f : Stream → Stream) : St := { st with streams := modifyNth f st.streams s }

/-- `stream.close()` called by the connector.  Closing a stream whose connect is still pending fails its
connect future; the callback (`on_connect_done`) then runs later in the same loop pass and, because the
connector only closes streams after `self.future` is done, does nothing but `self.remaining -= 1`. -/
def closeStream (st : St) (s : Nat) : St :=
  match st.streams[s]? with
  | none => st
  | some x =>
    let st1 := updStream st s (fun x => { x with closed := true, closes := x.closes + 1,
                                                 fut := if x.fut == .pending then .err else x.fut,
                                                 delivered := x.delivered || x.fut == .pending })
    if x.fut == .pending then { st1 with remaining := st1.remaining - 1 } else st1

/-- `close_streams` -/
def closeStreams (st : St) : St := st.inSet.foldl closeStream st

/-- `clear_timeouts` -/
def clearTimeouts (st : St) : St :=
  { st with timer := if st.timer == .none then .none else .cancelled,
            ctimer := match st.ctimer with | .live => .cancelled | c => c }

/-- `self.streams.add(stream)` — skipped (the `else:` of the `try`) when the `connect` call raised -/
def addIn (a : Addr) (l : List Nat) (s : Nat) : List Nat := if a.phantom then l else l ++ [s]

/-- `try_connect(addrs)` where `as` is what is left of iterator `it`; `k` is the tail of `on_connect_done`'s
failure branch (`if self.timeout is not None: …`), run after each synchronous failure that is not a late arrival -/
def tryConnect (k : St → St) (it : Nat) : List Addr → St → St
  | [], st =>
    let st := setIter st it []
    if st.remaining == 0 && !st.done then
      { st with settles := st.settles ++ [match st.lastError with | some s => .lastError s | none => .connFailed] }
    else st
  | a :: rest, st =>
    let s := st.streams.length
    let st := setIter st it rest
    -- `streams` records every `connect` CALL.  A call that raised has no stream object: its record is the socket
    -- the callable made and closed itself (failed, closed, never in `self.streams`, never `close()`d by the connector)
    let st := { st with streams := st.streams ++ [⟨a, it, if a.sync then .err else .pending, a.sync, a.sync, 0⟩],
                        inSet := addIn a st.inSet s }
    if a.sync then
      -- future already failed (returned failed, or made from the caught exception): `on_connect_done` runs
      -- inside `future_add_done_callback`
      let st := { st with remaining := st.remaining - 1 }
      if st.done then st
      else k (tryConnect k it rest { st with lastError := some s })
    else st

/-- `on_timeout` -/
def onTimeout (st : St) : St :=
  let st := { st with timer := .none }
  if st.done then st
  else tryConnect id st.iters.length st.sec { st with iters := st.iters ++ [st.sec] }

/-- `if self.timeout is not None: remove_timeout; on_timeout()` -/
def afterFail (st : St) : St :=
  if st.timer == .none then st else onTimeout st

/-- `on_connect_done` for a stream whose connect future holds a result -/
def deliverOk (st : St) (s : Nat) : St :=
  match st.streams[s]? with
  | none => st
  | some x =>
    let st := updStream { st with remaining := st.remaining - 1 } s (fun x => { x with delivered := true })
    let st := clearTimeouts st
    if st.done then closeStream st s
    else closeStreams { st with inSet := st.inSet.erase s, settles := st.settles ++ [.ok x.addr.idx s] }

/-- `on_connect_done` for a stream whose connect future holds an exception -/
def deliverErr (st : St) (s : Nat) : St :=
  match st.streams[s]? with
  | none => st
  | some x =>
    let st := updStream { st with remaining := st.remaining - 1 } s (fun x => { x with delivered := true })
    if st.done then st
    else
      let st := { st with lastError := some s }
      afterFail (tryConnect afterFail x.it (st.iters.getD x.it []) st)

/-- `on_connect_timeout` -/
def onConnectTimeout (st : St) : St :=
  let st := if st.done then st else { st with settles := st.settles ++ [.timeout] }
  closeStreams st

/-- one connect completion reported by the environment -/
inductive Compl where
  | succ (s : Nat)
  | fail (s : Nat)
  deriving Repr, BEq, DecidableEq

def Compl.stream : Compl → Nat
  | .succ s => s
  | .fail s => s

inductive Event where
  | batch (cs : List Compl)    -- these connects complete in the same loop iteration, callbacks run in this order
  | tick                       -- the 0.3 s "try the other family" timer is due
  | ctick                      -- the overall connect timeout is due
  deriving Repr, BEq, DecidableEq

def inflight (x : Stream) : Bool := x.fut == .pending

/-- phase 1 of a batch: the environment completes the connect future (a failed connect closes the stream).
Completions naming a stream that is not in flight are ignored. -/
def complete (st : St) (c : Compl) : St :=
  match st.streams[c.stream]? with
  | some x =>
    if inflight x then
      match c with
      | .succ s => updStream st s (fun x => { x with fut := .ok })
      | .fail s => updStream st s (fun x => { x with fut := .err, closed := true })
    else st
  | none => st

/-- phase 2: the done-callback of each completed future runs (once) -/
def deliver (st : St) (c : Compl) : St :=
  match st.streams[c.stream]? with
  | some x =>
    if x.delivered then st
    else match c, x.fut with
      | .succ s, .ok => deliverOk st s
      | .fail s, .err => deliverErr st s
      | _, _ => st
  | none => st

def step (st : St) : Event → St
  | .batch cs => cs.foldl deliver (cs.foldl complete st)
  | .tick => if st.timer == .live then onTimeout st else st
  | .ctick => if st.ctimer == .live then onConnectTimeout { st with ctimer := .fired } else st

/-- `_Connector(addrinfo, connect).start(timeout, connect_timeout)`; `ct` = a connect timeout was given -/
def start (addrs : List Addr) (ct : Bool) : St :=
  let (p, s) := split addrs
  let st0 : St := { iters := [p], sec := s, streams := [], inSet := [], remaining := addrs.length,
                    lastError := none, timer := .none, ctimer := .none, settles := [] }
  let st1 := tryConnect afterFail 0 p st0
  { st1 with timer := .live, ctimer := if ct then .live else .none }

def run (st : St) : List Event → St
  | [] => st
  | e :: es => run (step st e) es

/-- the states after each event -/
def trace (st : St) : List Event → List St
  | [] => []
  | e :: es => step st e :: trace (step st e) es

/-- number the addresses of an `addrinfo` list given as (family, sync) pairs; pairwise different addresses -/
def mkAddrs (l : List (Nat × Bool)) : List Addr :=
  (List.range l.length).zip l |>.map (fun (i, (f, s)) => ⟨i, f, s, i, false⟩)

/-- an `addrinfo` list given as (family, address, sync) triples: entries may repeat an address -/
def mkNamed (l : List (Nat × Nat × Bool)) : List Addr :=
  (List.range l.length).zip l |>.map (fun (i, (f, n, s)) => ⟨i, f, s, n, false⟩)

/-- the same with a per-entry outcome of the `connect` CALL: 0 = returns a pending future, 1 = returns an
already-failed future, 2 = raises -/
def mkNamedR (l : List (Nat × Nat × Nat)) : List Addr :=
  (List.range l.length).zip l |>.map (fun (i, (f, n, s)) => ⟨i, f, s != 0, n, s == 2⟩)

end TornadoModel.C10
