/-
C10 — the accounting invariant, part 3: `on_connect_done` (both branches), `on_connect_timeout`, the
environment's completions, `step`, `start`, `run`.  Result: `inv_run` — the invariant holds after `start()`
and after every sequence of events, for address lists that may repeat addresses.
-/
import TornadoModel.C10.Inv3
namespace TornadoModel.C10

theorem evo_modifyNth' (f : Stream → Stream) (l : List Stream) (s : Nat)
    (hf : ∀ y, l[s]? = some y → Evo y (f y)) (i : Nat) (y : Stream)
    (h : l[i]? = some y) : ∃ y', (modifyNth f l s)[i]? = some y' ∧ Evo y y' := by
  by_cases e : i = s
  · subst e
    exact ⟨f y, by rw [getElem?_modifyNth, h]; rfl, hf y h⟩
  · exact ⟨y, by rw [getElem?_modifyNth_ne _ _ _ _ e, h], Evo.refl y⟩

/-- the winner has been delivered, so an undelivered stream is not the winner -/
theorem Sett.winner_ne {addrs st} (h : Sett addrs st) {s : Nat} {x : Stream} (hx : st.streams[s]? = some x)
    (hd : x.delivered = false) {a w : Nat} (hw : st.settles = [.ok a w]) : w ≠ s := by
  intro e
  subst e
  obtain ⟨x', hx', _, _, hd', _⟩ := h.sok a w hw
  rw [hx] at hx'
  cases hx'
  rw [hd] at hd'
  cases hd'

/-! ### `on_connect_done`: the common prefix (`remaining -= 1`, the callback has run) -/

def marked (st : St) (s : Nat) : St := updStream { st with remaining := st.remaining - 1 } s gDeliv

theorem marked_core {addrs st} (h : Core addrs st) (s : Nat) (x : Stream) (hx : st.streams[s]? = some x)
    (hd : x.delivered = false) (hf : x.fut ≠ .pending) : Core addrs (marked st s) := by
  obtain ⟨p, a, il, c, d, e, f, g, i, j⟩ := h
  constructor
  · have : (modifyNth gDeliv st.streams s).map (·.addr) = st.streams.map (·.addr) :=
      map_modifyNth _ _ _ _ (fun _ => rfl)
    show ((modifyNth gDeliv st.streams s).map (·.addr) ++ queued st).Perm addrs
    rw [this]; exact p
  · have hc := countP_modifyNth undelP gDeliv st.streams s x hx
    have h1 : undelP x = true := by simp [undelP, hd]
    have h2 : undelP (gDeliv x) = false := by simp [undelP, gDeliv]
    simp only [h1, h2, if_true, Bool.false_eq_true, if_false] at hc
    show st.remaining - 1 = ((queued st).length : Int) + (((modifyNth gDeliv st.streams s).countP undelP : Nat) : Int)
    omega
  · exact il
  · exact forall_modifyNth _ _ _ _ c (fun x _ hx => hx)
  · intro it
    exact Nat.le_trans (countP_modifyNth_le _ _ _ _ (by
      intro y hy; simp [undelOn, gDeliv] at hy)) (d it)
  · refine forall_modifyNth _ _ _ _ e (fun y hy _ hq => ?_)
    rw [hx] at hy
    cases hy
    exact absurd hq hf
  · exact forall_modifyNth _ _ _ _ f (fun y _ hy => hy)
  · exact g
  · exact i
  · exact forall_modifyNth _ _ _ _ j (fun y _ hy => hy)

theorem marked_free {addrs st} (h : Core addrs st) (s : Nat) (x : Stream) (hx : st.streams[s]? = some x)
    (hd : x.delivered = false) : (marked st s).streams.countP (undelOn x.it) = 0 := by
  have hc := countP_modifyNth (undelOn x.it) gDeliv st.streams s x hx
  have h1 : undelOn x.it x = true := by simp [undelOn, hd]
  have h2 : undelOn x.it (gDeliv x) = false := by simp [undelOn, gDeliv]
  simp only [h1, h2, if_true, Bool.false_eq_true, if_false] at hc
  have := h.one x.it
  show (modifyNth gDeliv st.streams s).countP (undelOn x.it) = 0
  omega

/-- done already: the stream only evolves, the winner is another stream -/
theorem marked_sett_done {addrs st} (h : Sett addrs st) (hne : st.settles ≠ []) (s : Nat) (x : Stream)
    (hx : st.streams[s]? = some x) (hd : x.delivered = false) : Sett addrs (marked st s) := by
  refine h.evolve hne rfl rfl ?_ (length_modifyNth _ _ _) ?_
  · intro i y hy
    exact evo_modifyNth' gDeliv st.streams s (fun y _ => evo_gDeliv y) i y hy
  · intro a w hw
    exact getElem?_modifyNth_ne _ _ _ _ (h.winner_ne hx hd hw)

/-- not done, a failed connect is delivered -/
theorem marked_sett_err {addrs st} (h : Sett addrs st) (hs : st.settles = []) (s : Nat) (x : Stream)
    (hx : st.streams[s]? = some x) (hf : x.fut = .err) : Sett addrs (marked st s) := by
  obtain ⟨h0, h1⟩ := h.s0 hs
  have hs' : (marked st s).settles = [] := hs
  constructor
  · intro _
    refine ⟨?_, ?_⟩
    · exact h0.upd gDeliv s (fun y hy => hy) rfl rfl
    · refine forall_modifyNth _ _ _ _ h1 (fun y hy hP => ?_)
      rw [hx] at hy
      cases hy
      exact ⟨fun _ => hf, fun _ => hf⟩
  · intro a' w hw; rw [hs'] at hw; cases hw
  · intro hw; rw [hs'] at hw; cases hw
  · intro o hw; rw [hs'] at hw; cases hw

/-! ### `on_connect_done`, failure branch -/

theorem deliverErr_eq (st : St) (s : Nat) (x : Stream) (hx : st.streams[s]? = some x) :
    deliverErr st s = if (marked st s).done then marked st s else
      afterFail (tryConnect afterFail x.it ((marked st s).iters.getD x.it [])
        { marked st s with lastError := some s }) := by
  simp only [deliverErr, hx]; rfl

theorem deliverErr_inv {addrs st} (h : Inv addrs st) (s : Nat) (x : Stream) (hx : st.streams[s]? = some x)
    (hd : x.delivered = false) (hf : x.fut = .err) : Inv addrs (deliverErr st s) := by
  have hE := deliverErr_eq st s x hx
  rw [hE]
  have hcore := marked_core h.core s x hx hd (by rw [hf]; decide)
  split
  · rename_i hdone
    have hne : st.settles ≠ [] := by
      have : (marked st s).settles = st.settles := rfl
      simpa [St.done, this] using hdone
    exact ⟨hcore, marked_sett_done h.sett hne s x hx hd⟩
  · rename_i hdone
    have hs : st.settles = [] := by
      have : (marked st s).settles = st.settles := rfl
      simpa [St.done, this] using hdone
    apply afterFail_inv
    apply tryConnect_inv afterFail afterFail_inv
    · exact ⟨hcore.of_eq rfl rfl rfl rfl hcore.itl, (marked_sett_err h.sett hs s x hx hf).of_eq rfl rfl rfl⟩
    · exact hs
    · have hlt : x.it < st.iters.length := h.core.itlt x (List.mem_of_getElem? hx)
      show st.iters[x.it]? = some (st.iters.getD x.it [])
      rw [List.getD_eq_getElem?_getD, List.getElem?_eq_getElem hlt]; rfl
    · exact marked_free h.core s x hx hd

/-! ### `on_connect_done`, success branch -/

/-- `set_result((af, addr, stream))` after `self.streams.discard(stream)` -/
def won (st : St) (s a : Nat) : St :=
  { clearTimeouts (marked st s) with
    inSet := (clearTimeouts (marked st s)).inSet.erase s,
    settles := (clearTimeouts (marked st s)).settles ++ [.ok a s] }

theorem deliverOk_eq (st : St) (s : Nat) (x : Stream) (hx : st.streams[s]? = some x) :
    deliverOk st s = if (clearTimeouts (marked st s)).done then closeStream (clearTimeouts (marked st s)) s
      else closeStreams (won st s x.addr.idx) := by
  simp only [deliverOk, hx]; rfl

theorem deliverOk_inv {addrs st} (h : Inv addrs st) (s : Nat) (x : Stream) (hx : st.streams[s]? = some x)
    (hd : x.delivered = false) (hf : x.fut = .ok) : Inv addrs (deliverOk st s) := by
  have hE := deliverOk_eq st s x hx
  rw [hE]
  have hcore1 := marked_core h.core s x hx hd (by rw [hf]; decide)
  have hcore : Core addrs (clearTimeouts (marked st s)) := by
    refine hcore1.of_eq rfl rfl rfl rfl ?_
    rcases hcore1.itl with h1 | ⟨h1, h2⟩
    · exact Or.inl h1
    · right
      refine ⟨h1, ?_⟩
      show (if (marked st s).timer == .none then Timer.none else Timer.cancelled) = Timer.none
      rw [h2]; rfl
  have hset : (clearTimeouts (marked st s)).settles = st.settles := rfl
  have hset' : (marked st s).settles = st.settles := rfl
  have hstr : (clearTimeouts (marked st s)).streams = modifyNth gDeliv st.streams s := rfl
  have hins : (clearTimeouts (marked st s)).inSet = st.inSet := rfl
  split
  · rename_i hdone
    have hne : st.settles ≠ [] := by simpa [St.done, hset'] using hdone
    refine ⟨closeStream_core hcore s, ?_⟩
    have hstr' : (closeStream (clearTimeouts (marked st s)) s).streams
        = modifyNth gClose (modifyNth gDeliv st.streams s) s := by rw [closeStream_eq]; rfl
    refine h.sett.evolve hne ((closeStream_settles _ _).trans hset) (by rw [closeStream_eq]; rfl) ?_
      (by rw [hstr', length_modifyNth, length_modifyNth]) ?_
    · intro i y hy
      obtain ⟨y1, e1, v1⟩ := evo_modifyNth' gDeliv st.streams s (fun y _ => evo_gDeliv y) i y hy
      obtain ⟨y2, e2, v2⟩ := evo_modifyNth' gClose _ s (fun y _ => evo_gClose y) i y1 e1
      exact ⟨y2, by rw [hstr']; exact e2, v1.trans v2⟩
    · intro a w hw
      have hne' := h.sett.winner_ne hx hd hw
      rw [hstr', getElem?_modifyNth_ne _ _ _ _ hne', getElem?_modifyNth_ne _ _ _ _ hne']
  · rename_i hdone
    have hs : st.settles = [] := by simpa [St.done, hset'] using hdone
    obtain ⟨h0, h1⟩ := h.sett.s0 hs
    have hn : (modifyNth gDeliv st.streams s).length = st.streams.length := length_modifyNth _ _ _
    refine ⟨foldl_closeStream_core _ (hcore.of_eq rfl rfl rfl rfl hcore.itl), ?_⟩
    have hL : ∀ (i : Nat) (y : Stream), (modifyNth gDeliv st.streams s)[i]? = some y → ∃ y',
        (closeStreams (won st s x.addr.idx)).streams[i]? = some y'
          ∧ Evo y y' ∧ (i ∈ st.inSet.erase s → y'.closed = true)
          ∧ (i ∉ st.inSet.erase s → y' = y) :=
      fun i y hy => foldl_closeStream_evo (st.inSet.erase s) (won st s x.addr.idx) i y hy
    have h0' := (h0.upd (st' := marked st s) gDeliv s (fun y hy => hy) rfl rfl).1
    have hnd : st.inSet.Nodup := h0.2.1
    have hF := foldl_closeStream_fields (st.inSet.erase s) (won st s x.addr.idx)
    have hS : (closeStreams (won st s x.addr.idx)).settles
          = [.ok x.addr.idx s] := by
      rw [closeStreams_settles]
      show st.settles ++ _ = _
      rw [hs]; rfl
    have hlen : (closeStreams (won st s x.addr.idx)).streams.length
          = st.streams.length := hF.2.trans hn
    have hxs : (modifyNth gDeliv st.streams s)[s]? = some (gDeliv x) := by
      rw [getElem?_modifyNth, hx]; rfl
    have hxc : x.closed = false := by
      cases hc : x.closed with
      | false => rfl
      | true =>
        have := (h1 x (List.mem_of_getElem? hx)).2 hc
        rw [hf] at this
        cases this
    constructor
    · intro h0'; rw [hS] at h0'; cases h0'
    · intro a w hw
      rw [hS] at hw
      cases hw
      obtain ⟨y', e1, _, _, e4⟩ := hL s (gDeliv x) hxs
      have : y' = gDeliv x := e4 hnd.not_mem_erase
      subst this
      refine ⟨gDeliv x, e1, rfl, hxc, rfl, ?_, ?_⟩
      · show s ∉ (List.foldl closeStream (won st s x.addr.idx) (st.inSet.erase s)).inSet
        rw [hF.1]
        exact hnd.not_mem_erase
      · intro s' y hne hy
        have hlt : s' < st.streams.length := hlen ▸ lt_length_of_getElem? hy
        obtain ⟨y'', e1', e2', e3', _⟩ := hL s' _ (List.getElem?_eq_getElem (hn ▸ hlt))
        rw [hy] at e1'
        cases e1'
        rcases h0' s' _ (List.getElem?_eq_getElem (hn ▸ hlt)) with hm | hc
        · exact e3' ((List.mem_erase_of_ne hne).mpr hm)
        · exact e2'.2.2.1 hc
    · intro hw; rw [hS] at hw; cases hw
    · intro o hw hk
      rw [hS] at hw
      cases hw
      cases hk

/-! ### `on_connect_timeout` -/

theorem onConnectTimeout_inv {addrs st} (h : Inv addrs st) : Inv addrs (onConnectTimeout st) := by
  simp only [onConnectTimeout]
  split
  · rename_i hdone
    have hne : st.settles ≠ [] := by simpa [St.done] using hdone
    refine ⟨foldl_closeStream_core _ h.core, ?_⟩
    refine h.sett.evolve hne (closeStreams_settles st) (foldl_closeStream_fields _ _).1 ?_
      (foldl_closeStream_fields _ _).2 ?_
    · intro i y hy
      obtain ⟨y', e1, e2, _, _⟩ := foldl_closeStream_evo st.inSet st i y hy
      exact ⟨y', e1, e2⟩
    · intro a w hw
      obtain ⟨x, hx, _, _, _, hin, _⟩ := h.sett.sok a w hw
      obtain ⟨y', e1, _, _, e4⟩ := foldl_closeStream_evo st.inSet st w x hx
      have : y' = x := e4 hin
      subst this
      show (st.inSet.foldl closeStream st).streams[w]? = _
      rw [e1, hx]
  · rename_i hdone
    have hs : st.settles = [] := by simpa [St.done] using hdone
    obtain ⟨h0, _⟩ := h.sett.s0 hs
    refine ⟨foldl_closeStream_core _ (h.core.of_eq rfl rfl rfl rfl h.core.itl), ?_⟩
    have hS : (closeStreams { st with settles := st.settles ++ [.timeout] }).settles = [.timeout] := by
      rw [closeStreams_settles]
      show st.settles ++ _ = _
      rw [hs]; rfl
    have hF := foldl_closeStream_fields st.inSet { st with settles := st.settles ++ [.timeout] }
    constructor
    · intro h0'; rw [hS] at h0'; cases h0'
    · intro a w hw; rw [hS] at hw; cases hw
    · intro _ y' hy'
      obtain ⟨i, hi⟩ := List.mem_iff_getElem?.mp hy'
      have hlt : i < st.streams.length := hF.2 ▸ lt_length_of_getElem? hi
      obtain ⟨y'', e1, e2, e3, _⟩ := foldl_closeStream_evo st.inSet
        { st with settles := st.settles ++ [.timeout] } i _ (List.getElem?_eq_getElem hlt)
      have hi' : (st.inSet.foldl closeStream { st with settles := st.settles ++ [.timeout] }).streams[i]?
          = some y' := hi
      rw [hi'] at e1
      cases e1
      rcases h0.1 i _ (List.getElem?_eq_getElem hlt) with hm | hc
      · exact e3 hm
      · exact e2.2.2.1 hc
    · intro o hw hk
      rw [hS] at hw
      cases hw
      cases hk

/-! ### the environment completes connect futures -/

def gOk (x : Stream) : Stream := { x with fut := .ok }
def gErr (x : Stream) : Stream := { x with fut := .err, closed := true }

theorem complete_cases (st : St) (c : Compl) : complete st c = st ∨
    ∃ x f, st.streams[c.stream]? = some x ∧ x.fut = .pending ∧ (f = gOk ∨ f = gErr)
      ∧ complete st c = updStream st c.stream f := by
  unfold complete
  cases hx : st.streams[c.stream]? with
  | none => exact Or.inl rfl
  | some x =>
    simp only []
    by_cases hp : x.fut = .pending
    · right
      cases c with
      | succ s => exact ⟨x, gOk, rfl, hp, Or.inl rfl, by simp [inflight, hp, Compl.stream]; rfl⟩
      | fail s => exact ⟨x, gErr, rfl, hp, Or.inr rfl, by simp [inflight, hp, Compl.stream]; rfl⟩
    · left
      simp [inflight, hp]

theorem upd_inv {addrs st} (h : Inv addrs st) (s : Nat) (x : Stream) (f : Stream → Stream)
    (hx : st.streams[s]? = some x) (hp : x.fut = .pending) (hf : f = gOk ∨ f = gErr) :
    Inv addrs (updStream st s f) := by
  have hund : ∀ y, (f y).delivered = y.delivered := by rcases hf with rfl | rfl <;> intro y <;> rfl
  have hit : ∀ y, (f y).it = y.it := by rcases hf with rfl | rfl <;> intro y <;> rfl
  have hadr : ∀ y, (f y).addr = y.addr := by rcases hf with rfl | rfl <;> intro y <;> rfl
  have hnp : ∀ y, (f y).fut ≠ .pending := by rcases hf with rfl | rfl <;> intro y <;> simp [gOk, gErr]
  have hcl : ∀ y, y.closed = true → (f y).closed = true := by
    rcases hf with rfl | rfl <;> intro y hy <;> simp [gOk, gErr, hy]
  have hec : ∀ y, (f y).fut = .err → (f y).closed = true := by
    rcases hf with rfl | rfl <;> intro y <;> simp [gOk, gErr]
  have hxd : x.delivered = false := h.core.pend x (List.mem_of_getElem? hx) hp
  have hevo : Evo x (f x) :=
    ⟨hadr x, hit x, hcl x, fun hne => absurd hp hne, fun hd => by rw [hxd] at hd; cases hd⟩
  obtain ⟨p, a, il, c, d, e, f', g, i, j⟩ := h.core
  refine ⟨?_, ?_⟩
  · constructor
    · have : (modifyNth f st.streams s).map (·.addr) = st.streams.map (·.addr) :=
        map_modifyNth _ _ _ _ hadr
      show ((modifyNth f st.streams s).map (·.addr) ++ queued st).Perm addrs
      rw [this]; exact p
    · have : (modifyNth f st.streams s).countP undelP = st.streams.countP undelP :=
        countP_modifyNth_same _ _ _ _ (fun y => by simp [undelP, hund])
      show st.remaining = ((queued st).length : Int) + (((modifyNth f st.streams s).countP undelP : Nat) : Int)
      rw [this]; exact a
    · exact il
    · exact forall_modifyNth _ _ _ _ c (fun y _ hy => by rw [hit]; exact hy)
    · intro it
      have : (modifyNth f st.streams s).countP (undelOn it) = st.streams.countP (undelOn it) :=
        countP_modifyNth_same _ _ _ _ (fun y => by simp [undelOn, hund, hit])
      show (modifyNth f st.streams s).countP (undelOn it) ≤ 1
      rw [this]; exact d it
    · exact forall_modifyNth _ _ _ _ e (fun y _ _ hq => absurd hq (hnp y))
    · exact forall_modifyNth _ _ _ _ f' (fun y _ _ => hec y)
    · exact g
    · exact i
    · exact forall_modifyNth _ _ _ _ j (fun y _ hy => by rw [hadr, hit]; exact hy)
  · by_cases hs : st.settles = []
    · obtain ⟨h0, h1⟩ := h.sett.s0 hs
      have hs' : (updStream st s f).settles = [] := hs
      constructor
      · intro _
        refine ⟨?_, ?_⟩
        · exact h0.upd f s hcl rfl rfl
        · refine forall_modifyNth _ _ _ _ h1 (fun y hy hP => ?_)
          rw [hx] at hy
          cases hy
          refine ⟨fun hd => ?_, fun hc => ?_⟩
          · rw [hund, hxd] at hd; cases hd
          · rcases hf with rfl | rfl
            · have hc' : x.closed = true := hc
              have := hP.2 hc'
              rw [hp] at this
              cases this
            · rfl
      · intro a' w hw; rw [hs'] at hw; cases hw
      · intro hw; rw [hs'] at hw; cases hw
      · intro o hw; rw [hs'] at hw; cases hw
    · refine h.sett.evolve hs rfl rfl ?_ (length_modifyNth _ _ _) ?_
      · intro i' y hy
        refine evo_modifyNth' f st.streams s (fun y hy' => ?_) i' y hy
        rw [hx] at hy'
        cases hy'
        exact hevo
      · intro a' w hw
        exact getElem?_modifyNth_ne _ _ _ _ (h.sett.winner_ne hx hxd hw)

theorem complete_inv {addrs st} (h : Inv addrs st) (c : Compl) : Inv addrs (complete st c) := by
  rcases complete_cases st c with e | ⟨x, f, hx, hp, hf, e⟩
  · rw [e]; exact h
  · rw [e]; exact upd_inv h _ x f hx hp hf

theorem deliver_inv {addrs st} (h : Inv addrs st) (c : Compl) : Inv addrs (deliver st c) := by
  unfold deliver
  cases hx : st.streams[c.stream]? with
  | none => exact h
  | some x =>
    simp only []
    cases hd : x.delivered with
    | true => simpa using h
    | false =>
      simp only [Bool.false_eq_true, if_false]
      cases c with
      | succ s =>
        cases hf : x.fut with
        | ok => exact deliverOk_inv h s x hx hd hf
        | pending => exact h
        | err => exact h
      | fail s =>
        cases hf : x.fut with
        | err => exact deliverErr_inv h s x hx hd hf
        | pending => exact h
        | ok => exact h

theorem foldl_complete_inv {addrs} (cs : List Compl) : ∀ {st : St}, Inv addrs st → Inv addrs (cs.foldl complete st) := by
  induction cs with
  | nil => intro st h; exact h
  | cons c cs ih => intro st h; exact ih (complete_inv h c)

theorem foldl_deliver_inv {addrs} (cs : List Compl) : ∀ {st : St}, Inv addrs st → Inv addrs (cs.foldl deliver st) := by
  induction cs with
  | nil => intro st h; exact h
  | cons c cs ih => intro st h; exact ih (deliver_inv h c)

theorem step_inv {addrs st} (h : Inv addrs st) (e : Event) : Inv addrs (step st e) := by
  cases e with
  | batch cs => exact foldl_deliver_inv cs (foldl_complete_inv cs h)
  | tick =>
    simp only [step]
    split
    · rename_i ht
      exact onTimeout_inv h (by rw [eq_of_beq ht]; decide)
    · exact h
  | ctick =>
    simp only [step]
    split
    · exact onConnectTimeout_inv ⟨h.core.of_eq rfl rfl rfl rfl h.core.itl, h.sett.of_eq rfl rfl rfl⟩
    · exact h

/-! ### `start()` -/

theorem afterFail_of_timer_none (st : St) (h : st.timer = .none) : afterFail st = st := by
  simp [afterFail, h]

/-- during `start()` the fallback timer is not set yet, so the failure branch never starts the second queue -/
theorem tryConnect_afterFail_timer_none (it : Nat) : ∀ (as : List Addr) (st : St), st.timer = .none →
    (tryConnect afterFail it as st).timer = .none
      ∧ (tryConnect afterFail it as st).iters.length = st.iters.length := by
  intro as
  induction as with
  | nil =>
    intro st h
    simp only [tryConnect]
    split <;> simp [setIter, h, length_modifyNth]
  | cons a rest ih =>
    intro st h
    have hS : ∀ S : St, S.timer = .none → S.iters.length = st.iters.length →
        (afterFail (tryConnect afterFail it rest S)).timer = .none
          ∧ (afterFail (tryConnect afterFail it rest S)).iters.length = st.iters.length := by
      intro S hS1 hS2
      obtain ⟨h1, h2⟩ := ih S hS1
      rw [afterFail_of_timer_none _ h1]
      exact ⟨h1, h2.trans hS2⟩
    simp only [tryConnect]
    split
    · split
      · simp [setIter, h, length_modifyNth]
      · exact hS _ (by simp [setIter, h]) (by simp [setIter, length_modifyNth])
    · simp [setIter, h, length_modifyNth]

theorem split_eq (addrs : List Addr) : split addrs =
    (addrs.filter (fun x => x.fam == fam0 addrs), addrs.filter (fun x => !(x.fam == fam0 addrs))) := by
  cases addrs <;> rfl

def st0 (addrs : List Addr) : St :=
  { iters := [(split addrs).1], sec := (split addrs).2, streams := [], inSet := [], remaining := addrs.length,
    lastError := none, timer := .none, ctimer := .none, settles := [] }

theorem start_eq (addrs : List Addr) (ct : Bool) : start addrs ct =
    { tryConnect afterFail 0 (split addrs).1 (st0 addrs) with
      timer := .live, ctimer := if ct then .live else .none } := rfl

theorem st0_inv (addrs : List Addr) : Inv addrs (st0 addrs) := by
  have hperm : ((split addrs).1 ++ (split addrs).2).Perm addrs := by
    rw [split_eq]; exact List.filter_append_perm _ _
  refine ⟨?_, ?_⟩
  · constructor
    · simpa [st0, attempted, queued] using hperm
    · have := hperm.length_eq
      simp only [List.length_append] at this
      simp [st0, queued]
      omega
    · exact Or.inl rfl
    · intro x hx; cases hx
    · intro it; simp [st0]
    · intro x hx; cases hx
    · intro x hx; cases hx
    · intro it l hl a ha
      match it with
      | 0 =>
        simp only [st0, List.getElem?_cons_zero, Option.some.injEq] at hl
        subst hl
        rw [split_eq] at ha
        simp only [List.mem_filter, beq_iff_eq] at ha
        simp [ha.2]
      | n + 1 => simp [st0] at hl
    · intro a ha
      simp only [st0] at ha
      rw [split_eq] at ha
      simp only [List.mem_filter, Bool.not_eq_true', beq_eq_false_iff_ne] at ha
      exact ha.2
    · intro x hx; cases hx
  · constructor
    · intro _; exact ⟨⟨fun i x hi => by simp [st0] at hi, List.nodup_nil, fun i hi => by simp [st0] at hi⟩, fun x hx => by cases hx⟩
    · intro a w hw; cases hw
    · intro hw; cases hw
    · intro o hw; cases hw

theorem start_inv (addrs : List Addr) (ct : Bool) : Inv addrs (start addrs ct) := by
  rw [start_eq]
  have h1 : Inv addrs (tryConnect afterFail 0 (split addrs).1 (st0 addrs)) :=
    tryConnect_inv afterFail afterFail_inv 0 _ _ (st0_inv addrs) rfl rfl rfl
  have h2 := tryConnect_afterFail_timer_none 0 (split addrs).1 (st0 addrs) rfl
  exact ⟨h1.core.of_eq rfl rfl rfl rfl (Or.inl h2.2), h1.sett.of_eq rfl rfl rfl⟩

theorem run_inv {addrs} (evs : List Event) : ∀ {st : St}, Inv addrs st → Inv addrs (run st evs) := by
  induction evs with
  | nil => intro st h; exact h
  | cons e es ih => intro st h; exact ih (step_inv h e)

/-- the invariant holds in every reachable state: after `start()` and any sequence of events -/
theorem inv_run (addrs : List Addr) (ct : Bool) (evs : List Event) : Inv addrs (run (start addrs ct) evs) :=
  run_inv evs (start_inv addrs ct)

end TornadoModel.C10
