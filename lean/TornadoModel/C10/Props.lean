import TornadoModel.C10.Lemmas
namespace TornadoModel.C10
end TornadoModel.C10
