/-
C10 — TCP connection racing resolves exactly once and leaks no sockets: property theorems.

Statements are about the executable model of `_Connector` in `Model.lean` (tied to `tornado/tcpclient.py` by
the correspondence check) and quantify over every address list, every synchronous-failure pattern and every
sequence of events (batches of connect completions, timer firings).
-/
import TornadoModel.C10.Check
namespace TornadoModel.C10

/-- once the connector's future has been completed no event changes it any more -/
theorem outcome_stable (st : St) (evs : List Event) (h : st.settles ≠ []) : (run st evs).settles = st.settles := by
  induction evs generalizing st with
  | nil => rfl
  | cons e es ih =>
    simp only [run]
    have hs : (step st e).settles = st.settles := by
      rcases step_ext st e with h1 | ⟨h1, _⟩
      · exact h1
      · exact absurd h1 h
    rw [ih _ (by rw [hs]; exact h), hs]

theorem run_settles_le (st : St) (evs : List Event) (h : st.settles.length ≤ 1) :
    (run st evs).settles.length ≤ 1 := by
  induction evs generalizing st with
  | nil => exact h
  | cons e es ih =>
    simp only [run]
    apply ih
    rcases step_ext st e with h1 | ⟨_, o, h2, _⟩
    · rw [h1]; exact h
    · rw [h2]; simp

/-- **resolved_once** — for every address list, every pattern of synchronous failures and every schedule of
completions and timer firings, `set_result/set_exception` is executed on the connector's future at most once
(so it never raises `InvalidStateError` and the outcome never changes: `outcome_stable`) -/
theorem resolved_once (addrs : List Addr) (ct : Bool) (evs : List Event) :
    (run (start addrs ct) evs).settles.length ≤ 1 := by
  apply run_settles_le
  rcases start_settles addrs ct with h | ⟨o, h, _⟩ <;> simp [h]

/-- **winner_is_first_success** — if the future is still pending and the connect of an in-flight stream `s`
succeeds, the future completes with exactly that stream and its address … -/
theorem winner_step (st : St) (s : Nat) (x : Stream) (hs : st.streams[s]? = some x)
    (hp : x.fut = .pending) (hd : x.delivered = false) (h0 : st.settles = []) :
    (step st (.batch [.succ s])).settles = [.ok x.addr.idx s] := by
  have hc : complete st (.succ s) = updStream st s (fun x => { x with fut := .ok }) := by
    simp [complete, Compl.stream, hs, inflight, hp]
  simp only [step, List.foldl, hc]
  have hs' : (updStream st s (fun x => { x with fut := .ok })).streams[s]? = some { x with fut := .ok } := by
    simp [updStream, getElem?_modifyNth, hs]
  simp only [deliver, Compl.stream, hs', hd, Bool.false_eq_true, if_false, deliverOk]
  simp [St.done, h0]

/-- … and keeps that outcome whatever happens afterwards (later successes, failures, timers) -/
theorem winner_is_first_success (st : St) (s : Nat) (x : Stream) (hs : st.streams[s]? = some x)
    (hp : x.fut = .pending) (hd : x.delivered = false) (h0 : st.settles = []) (evs : List Event) :
    (run st (.batch [.succ s] :: evs)).settles = [.ok x.addr.idx s] := by
  simp only [run]
  have h := winner_step st s x hs hp hd h0
  rw [outcome_stable _ evs (by rw [h]; simp), h]

/-- non-vacuity: two addresses of different families, the timer starts the second attempt, which then wins;
the first stream is closed -/
example :
    let st := run (start (mkAddrs [(0, false), (1, false)]) true) [.tick, .batch [.succ 1]]
    st.settles = [.ok 1 1] ∧ (st.streams.map (·.closed)) = [true, false] := by decide

/-- **ok_only_from_success** — the future receives a result only through the success of that very stream,
reported in that event -/
theorem ok_only_from_success (st : St) (e : Event) (a s : Nat) (h0 : st.settles = [])
    (h : (step st e).settles = [.ok a s]) : ∃ cs, e = .batch cs ∧ .succ s ∈ cs := by
  rcases step_ext st e with h1 | ⟨_, o, h2, h3⟩
  · rw [h1, h0] at h; simp at h
  · rw [h2] at h
    simp only [List.cons.injEq, and_true] at h
    subst h
    cases e with
    | batch cs =>
      obtain ⟨c, hc, hf⟩ := h3
      rcases hf with hf | ⟨a', s', rfl, ho⟩
      · simp [isFail, kindOf] at hf
      · simp only [Outcome.ok.injEq] at ho
        exact ⟨cs, rfl, by rw [ho.2]; exact hc⟩
    | tick => simp [isFail, kindOf] at h3
    | ctick => simp [isTimeout, kindOf] at h3

/-- **timeout_only_from_ctick** — `TimeoutError` is raised only by the overall connect timer firing while the
future is pending -/
theorem timeout_only_from_ctick (st : St) (e : Event) (h0 : st.settles = [])
    (h : (step st e).settles = [.timeout]) : e = .ctick ∧ st.ctimer = .live := by
  rcases step_ext st e with h1 | ⟨_, o, h2, h3⟩
  · rw [h1, h0] at h; simp at h
  · rw [h2] at h
    simp only [List.cons.injEq, and_true] at h
    subst h
    cases e with
    | batch cs =>
      obtain ⟨c, _, hf⟩ := h3
      rcases hf with hf | ⟨a', s', _, ho⟩
      · simp [isFail, kindOf] at hf
      · simp at ho
    | tick => simp [isFail, kindOf] at h3
    | ctick =>
      refine ⟨rfl, ?_⟩
      simp only [step] at h2
      split at h2
      · rename_i hl
        revert hl
        cases st.ctimer <;> decide
      · rw [h0] at h2; simp at h2

/-- an error other than the timeout (`last_error` / "connection failed") is raised only by `try_connect`
reaching the end of a queue with `remaining == 0`, i.e. from a failure completion or the fallback timer -/
theorem fail_only_from_failure_or_tick (st : St) (e : Event) (o : Outcome) (h0 : st.settles = [])
    (h : (step st e).settles = [o]) (hk : kindOf o = .fail) : e ≠ .ctick := by
  intro he
  subst he
  rcases step_ext st .ctick with h1 | ⟨_, o', h2, h3⟩
  · rw [h1, h0] at h; simp at h
  · rw [h2] at h
    simp only [List.cons.injEq, and_true] at h
    subst h
    simp [isTimeout, hk] at h3

/-! ### no stream is opened once the future is done -/

theorem closeStream_length (st : St) (s : Nat) : (closeStream st s).streams.length = st.streams.length := by
  unfold closeStream
  split
  · rfl
  · simp only; split <;> simp [updStream, length_modifyNth]

theorem closeStreams_length (st : St) : (closeStreams st).streams.length = st.streams.length := by
  unfold closeStreams
  generalize st.inSet = l
  induction l generalizing st with
  | nil => rfl
  | cons x xs ih => simp only [List.foldl]; rw [ih, closeStream_length]

theorem complete_length (st : St) (c : Compl) : (complete st c).streams.length = st.streams.length := by
  unfold complete
  split
  · split
    · cases c <;> simp [updStream, length_modifyNth]
    · rfl
  · rfl

theorem deliverOk_length_done (st : St) (s : Nat) (h : st.settles ≠ []) :
    (deliverOk st s).streams.length = st.streams.length := by
  unfold deliverOk
  split
  · rfl
  · have hd : ∀ f, (clearTimeouts (updStream { st with remaining := st.remaining - 1 } s f)).done = true := by
      intro f; simpa [St.done, clearTimeouts, updStream] using h
    simp only [hd, if_true, closeStream_length]
    simp [clearTimeouts, updStream, length_modifyNth]

theorem deliverErr_length_done (st : St) (s : Nat) (h : st.settles ≠ []) :
    (deliverErr st s).streams.length = st.streams.length := by
  unfold deliverErr
  split
  · rfl
  · have hd : ∀ f, (updStream { st with remaining := st.remaining - 1 } s f).done = true := by
      intro f; simpa [St.done, updStream] using h
    simp only [hd, if_true]
    simp [updStream, length_modifyNth]

theorem deliver_length_done (st : St) (c : Compl) (h : st.settles ≠ []) :
    (deliver st c).streams.length = st.streams.length := by
  unfold deliver
  split
  · split
    · rfl
    · split
      · exact deliverOk_length_done st _ h
      · exact deliverErr_length_done st _ h
      · rfl
  · rfl

/-- **no_new_streams_after_done** — once the future is done (result, error or timeout) no event makes the
connector open another socket -/
theorem no_new_streams_after_done (st : St) (e : Event) (h : st.settles ≠ []) :
    (step st e).streams.length = st.streams.length := by
  have hd : st.done = true := (done_iff st).mpr h
  cases e with
  | batch cs =>
    simp only [step]
    have h1 : ∀ (cs : List Compl) (st : St), (cs.foldl complete st).streams.length = st.streams.length := by
      intro cs
      induction cs with
      | nil => intro st; rfl
      | cons c cs ih => intro st; simp only [List.foldl]; rw [ih, complete_length]
    have h2 : ∀ (cs : List Compl) (st : St), st.settles ≠ [] →
        (cs.foldl deliver st).streams.length = st.streams.length := by
      intro cs
      induction cs with
      | nil => intro st _; rfl
      | cons c cs ih =>
        intro st hs
        simp only [List.foldl]
        have hs' : (deliver st c).settles ≠ [] := by
          rcases deliver_ext st c with e1 | ⟨e1, _⟩
          · rw [e1]; exact hs
          · exact absurd e1 hs
        rw [ih _ hs', deliver_length_done st c hs]
    rw [h2 _ _ (by rw [foldl_complete_settles]; exact h), h1]
  | tick =>
    simp only [step]
    split
    · simp [onTimeout, St.done] at hd ⊢; simp [hd]
    · rfl
  | ctick =>
    simp only [step]
    split
    · simp only [onConnectTimeout, closeStreams_length]
      split <;> rfl
    · rfl

/-! ### a resolved list that repeats an address: every ENTRY is a separate attempt -/

theorem length_filter_add (p : Addr → Bool) (l : List Addr) :
    (l.filter p).length + (l.filter (fun x => !p x)).length = l.length := by
  induction l with
  | nil => rfl
  | cons x xs ih =>
    cases h : p x <;> simp [List.filter, h] <;> omega

/-- **split_keeps_every_entry** — `split` distributes the entries over the two queues without dropping any
(addresses are never compared, so a repeated address stays queued once per occurrence): the number of queued
attempts equals `len(addrinfo)`, the value `remaining` starts from -/
theorem split_keeps_every_entry (addrs : List Addr) :
    (split addrs).1.length + (split addrs).2.length = addrs.length := by
  cases addrs with
  | nil => rfl
  | cons a l =>
    have h := length_filter_add (fun x => x.fam == a.fam) (a :: l)
    simpa [split, bne] using h

/-- non-vacuity / duplicates: the same address listed twice is attempted twice, one after the other; the error
is delivered when the second attempt has failed too, not before -/
example :
    let addrs := mkNamed [(0, 7, false), (0, 7, false)]
    let st1 := run (start addrs false) [.batch [.fail 0]]
    let st2 := run (start addrs false) [.batch [.fail 0], .batch [.fail 1]]
    st1.settles = [] ∧ st1.remaining = 1 ∧ st1.streams.map (·.fut) = [.err, .pending]
      ∧ st2.settles = [.lastError 1] ∧ st2.remaining = 0
      ∧ Spec.check addrs [.batch [.fail 0], .batch [.fail 1]]
          ((start addrs false :: trace (start addrs false) [.batch [.fail 0], .batch [.fail 1]]).map Spec.snapOf) = 0 := by
  decide

/-- duplicates, non-adjacent and across families (`a c a` with `c` of the other family; and the same `name`
in two families is two addresses): three attempts, error after the third failure -/
example :
    let addrs := mkNamed [(0, 7, false), (1, 7, false), (0, 7, false)]
    let evs := [.batch [.fail 0], .batch [.fail 1], .batch [.fail 2]]
    (run (start addrs false) evs).settles = [.lastError 2]
      ∧ ((trace (start addrs false) evs).map (·.settles.length)) = [0, 0, 1]
      ∧ Spec.check addrs evs ((start addrs false :: trace (start addrs false) evs).map Spec.snapOf) = 0 := by
  decide

/-- the oracle flags a run in which the only address (listed twice) has failed, nothing is in flight and the
future is still pending — with the connect timer live (clause 8) and without (clause 6) -/
example :
    let addrs := mkNamed [(0, 7, false), (0, 7, false)]
    let s0 : Spec.Snap := ⟨[], [⟨0, .pending, false⟩], true, true⟩
    let s1 : Spec.Snap := ⟨[], [⟨0, .err, true⟩], false, true⟩
    let s1' : Spec.Snap := ⟨[], [⟨0, .err, true⟩], false, false⟩
    Spec.check addrs [.batch [.fail 0]] [s0, s1] = 8 ∧ Spec.check addrs [.batch [.fail 0]] [s0, s1'] = 6 := by
  decide

/-! ### a `connect` callable that RAISES (review finding S1-1)

`TCPClient._create_stream` re-raises when `bind()` fails.  `try_connect` (as repaired) catches the exception and treats
the call as a failed attempt: `remaining -= 1`, `last_error`, next address / other family.  The call is recorded as a
failed, closed stream that never enters `self.streams` and is never `close()`d by the connector. -/

/-- the reviewer's witness: v4 address pending, v6 `connect` raises inside `on_timeout`; when the v4 attempt fails
too the future completes with the last error, `remaining = 0`, and the whole checker accepts the run -/
example :
    let addrs := mkNamedR [(0, 7, 0), (1, 8, 2)]
    let evs := [.tick, .batch [.fail 0]]
    let st1 := run (start addrs false) [.tick]
    let st2 := run (start addrs false) evs
    st1.settles = [] ∧ st1.remaining = 1 ∧ st1.inSet = [0] ∧ st1.streams.map (fun x => (x.fut, x.closed, x.closes)) =
        [(.pending, false, 0), (.err, true, 0)]
      ∧ st2.settles = [.lastError 0] ∧ st2.remaining = 0
      ∧ Spec.check addrs evs ((start addrs false :: trace (start addrs false) evs).map Spec.snapOf) = 0 := by
  decide

/-- a raise inside `on_connect_done` (next address of the same family), inside `start()` (first address), and a
raising call next to one that returns an already-failed future: the other addresses are still tried (inside `start()`
the fallback timer is not yet set, so — exactly as for an already-failed future — the other family waits for the timer),
the error comes once every entry has failed, a later success still wins -/
example :
    (run (start (mkNamedR [(0, 7, 0), (0, 8, 2), (0, 9, 0)]) false) [.batch [.fail 0]]).streams.map (·.fut)
        = [.err, .err, .pending]
    ∧ (run (start (mkNamedR [(0, 7, 0), (0, 8, 2), (0, 9, 0)]) false) [.batch [.fail 0], .batch [.succ 2]]).settles
        = [.ok 2 2]
    ∧ (start (mkNamedR [(0, 7, 2), (1, 8, 0)]) false).streams.map (·.fut) = [.err]
    ∧ (run (start (mkNamedR [(0, 7, 2), (1, 8, 0)]) false) [.tick]).streams.map (·.fut) = [.err, .pending]
    ∧ (start (mkNamedR [(0, 7, 2), (1, 8, 1), (0, 9, 2)]) true).settles = []
    ∧ (run (start (mkNamedR [(0, 7, 2), (1, 8, 1), (0, 9, 2)]) true) [.tick]).settles = [.lastError 2]
    ∧ (run (start (mkNamedR [(0, 7, 2), (1, 8, 1), (0, 9, 2)]) true) [.tick]).inSet = [2] := by
  decide

/-- the oracle rejects what the unrepaired code did on the reviewer's witness (the exception escaped into the loop,
`remaining` stayed 1): every address has a failed attempt, nothing is in flight, the future is pending — clause 6
without a connect timer, clause 8 with one -/
example :
    let addrs := mkNamedR [(0, 7, 0), (1, 8, 2)]
    let evs := [.tick, .batch [.fail 0]]
    let s0 (ct : Bool) : Spec.Snap := ⟨[], [⟨0, .pending, false⟩], true, ct⟩
    let s1 (ct : Bool) : Spec.Snap := ⟨[], [⟨0, .pending, false⟩, ⟨1, .err, true⟩], false, ct⟩
    let s2 (ct : Bool) : Spec.Snap := ⟨[], [⟨0, .err, true⟩, ⟨1, .err, true⟩], false, ct⟩
    Spec.check addrs evs [s0 false, s1 false, s2 false] = 6 ∧ Spec.check addrs evs [s0 true, s1 true, s2 true] = 8 := by
  decide

/-! ## consequences of the accounting invariant (`Inv`, files Inv2–Inv4, `inv_run`)

`remaining = |entries still queued in either iterator / the secondary list| + #{streams whose on_connect_done has
not run}`; attempted ++ queued entries are a permutation of `addrinfo` (one attempt per ENTRY, repeated addresses
included); every opened stream is the winner, closed, or still in flight; at most one undelivered stream per
iterator, at most two iterators.  Proved as a step invariant over all event sequences. -/

/-- **inv_reachable** — the invariant holds after `start()` and after every sequence of events -/
theorem inv_reachable (addrs : List Addr) (ct : Bool) (evs : List Event) :
    Inv addrs (run (start addrs ct) evs) := inv_run addrs ct evs

/-- the accounting identity itself, for every reachable state (address lists may repeat addresses) -/
theorem remaining_accounting (addrs : List Addr) (ct : Bool) (evs : List Event) :
    (run (start addrs ct) evs).remaining
      = ((queued (run (start addrs ct) evs)).length : Int)
        + (((run (start addrs ct) evs).streams.countP (fun x => !x.delivered) : Nat) : Int) :=
  (inv_run addrs ct evs).core.acct

/-- in every reachable state a stream whose connect future is pending has not been delivered — this discharges
the hypothesis `delivered = false` of `winner_step` / `winner_is_first_success` -/
theorem inflight_undelivered (addrs : List Addr) (ct : Bool) (evs : List Event) (s : Nat) (x : Stream)
    (hs : (run (start addrs ct) evs).streams[s]? = some x) (hp : x.fut = .pending) : x.delivered = false :=
  (inv_run addrs ct evs).core.pend x (List.mem_of_getElem? hs) hp

/-- **winner_step_reachable** — `winner_step` for reachable states, without the `delivered = false` hypothesis -/
theorem winner_step_reachable (addrs : List Addr) (ct : Bool) (evs0 : List Event) (s : Nat) (x : Stream)
    (hs : (run (start addrs ct) evs0).streams[s]? = some x) (hp : x.fut = .pending)
    (h0 : (run (start addrs ct) evs0).settles = []) :
    (step (run (start addrs ct) evs0) (.batch [.succ s])).settles = [.ok x.addr.idx s] :=
  winner_step _ s x hs hp (inflight_undelivered addrs ct evs0 s x hs hp) h0

/-- **winner_is_first_success_reachable** — after any history `evs0` that leaves the future pending, the success
of an in-flight stream `s` completes the future with exactly `(addr s, s)`, whatever happens afterwards -/
theorem winner_is_first_success_reachable (addrs : List Addr) (ct : Bool) (evs0 : List Event) (s : Nat)
    (x : Stream) (hs : (run (start addrs ct) evs0).streams[s]? = some x) (hp : x.fut = .pending)
    (h0 : (run (start addrs ct) evs0).settles = []) (evs : List Event) :
    (run (run (start addrs ct) evs0) (.batch [.succ s] :: evs)).settles = [.ok x.addr.idx s] :=
  winner_is_first_success _ s x hs hp (inflight_undelivered addrs ct evs0 s x hs hp) h0 evs

/-- non-vacuity: after the fallback timer two attempts are in flight and the future is pending -/
example :
    let st := run (start (mkNamed [(0, 7, false), (1, 7, false)]) true) [.tick]
    st.settles = [] ∧ st.streams.map (·.fut) = [.pending, .pending] := by decide

/-- **losers_closed** (clause 4) — at quiescence, once the future is done every stream other than the winner is
closed and the winner is open; after an error / timeout every stream is closed.  No socket leaks on any schedule. -/
theorem losers_closed : ∀ (l : List (Nat × Nat × Nat)) (ct : Bool) (evs : List Event),
    Spec.clause4 (Spec.snapOf (run (start (mkNamedR l) ct) evs)) = true :=
  fun l ct evs => clause4_of_inv (inv_run (mkNamedR l) ct evs) (resolved_once _ ct evs)

/-- clause 5 for address lists over any number of families: at most one in-flight attempt per family -/
theorem one_inflight_per_family_general (l : List (Nat × Nat × Nat)) (ct : Bool) (evs : List Event) :
    Spec.clause5 (mkNamedR l) (Spec.snapOf (run (start (mkNamedR l) ct) evs)) = true :=
  clause5_of_core (inv_run (mkNamedR l) ct evs).core (mkNamedR_nodup l)

/-- **one_inflight_per_family** (clause 5) — at most one attempt per family in flight (address lists over two families) -/
theorem one_inflight_per_family : ∀ (l : List (Nat × Nat × Nat)) (ct : Bool) (evs : List Event),
    (∀ p ∈ l, p.1 ≤ 1) →
      Spec.clause5 (mkNamedR l) (Spec.snapOf (run (start (mkNamedR l) ct) evs)) = true :=
  fun l ct evs _ => one_inflight_per_family_general l ct evs

/-- non-vacuity: two families, both attempts in flight after the timer — one per family -/
example : (∀ p ∈ [(0, 7, false), (1, 7, false), (0, 8, false)], p.1 ≤ 1)
    ∧ ((run (start (mkNamed [(0, 7, false), (1, 7, false), (0, 8, false)]) true) [.tick]).streams.map
        (fun x => (x.addr.fam, x.fut))) = [(0, .pending), (1, .pending)] := by decide

/-- **error_iff_all_failed** — an error outcome other than the timeout means every entry (repeated addresses
included) was tried and failed -/
theorem error_iff_all_failed : ∀ (l : List (Nat × Nat × Nat)) (ct : Bool) (evs : List Event) (o : Outcome),
    (run (start (mkNamedR l) ct) evs).settles = [o] → kindOf o = .fail →
      (run (start (mkNamedR l) ct) evs).streams.length = l.length
        ∧ ∀ x ∈ (run (start (mkNamedR l) ct) evs).streams, x.fut = .err := by
  intro l ct evs o h hk
  have := (inv_run (mkNamedR l) ct evs).sett.sfl o h hk
  rw [mkNamedR_length] at this
  exact this

/-- non-vacuity: the same address listed twice, both attempts fail → `last_error` -/
example :
    (run (start (mkNamed [(0, 7, false), (0, 7, false)]) false) [.batch [.fail 0], .batch [.fail 1]]).settles
      = [.lastError 1] ∧ kindOf (.lastError 1) = .fail := by decide

/-- **quiescent_inflight** — after `start()` and after every event, a stream whose `on_connect_done` has not run is
still in flight (every completion of a batch is delivered within the batch) -/
theorem quiescent_inflight (addrs : List Addr) (ct : Bool) (evs : List Event) :
    ∀ x ∈ (run (start addrs ct) evs).streams, x.delivered = false → x.fut = .pending :=
  q1_run addrs ct evs

/-- **completes_when_idle** (clause 6, liveness) — at quiescence, when no attempt is in flight and neither timer
is live, the future has completed: the connect never hangs -/
theorem completes_when_idle (l : List (Nat × Nat × Nat)) (ct : Bool) (evs : List Event) :
    Spec.clause6 (Spec.snapOf (run (start (mkNamedR l) ct) evs)) = true :=
  clause6_of (inv_run (mkNamedR l) ct evs) (q1_run _ ct evs) (post_run _ ct evs)

/-- **all_failed_completes** (clause 8) — when every address of the list (repeated addresses included) has a failed
attempt and nothing is in flight, the future has completed — also while the connect timer is still pending -/
theorem all_failed_completes (l : List (Nat × Nat × Nat)) (ct : Bool) (evs : List Event) :
    Spec.clause8 (mkNamedR l) (Spec.snapOf (run (start (mkNamedR l) ct) evs)) = true :=
  clause8_of (inv_run (mkNamedR l) ct evs) (mkNamedR_nodup l) (q1_run _ ct evs) (post_run _ ct evs)

/-! ## the whole checker on the model's own runs -/

/-- the whole observed-run checker (clauses 1–8) holds of the model's own runs, for lists that may repeat addresses -/
def model_run_ok_goal : Prop :=
  ∀ (l : List (Nat × Nat × Nat)) (ct : Bool) (evs : List Event), l ≠ [] → (∀ p ∈ l, p.1 ≤ 1) →
    Spec.check (mkNamedR l) evs
      ((start (mkNamedR l) ct :: trace (start (mkNamedR l) ct) evs).map Spec.snapOf) = 0

/-- as stated the goal is false: a batch in which the environment first FAILS the connect of stream 0 and then
reports a success of the same stream (a connect future completing twice — excluded by the harness's assumption
"a connect future completes at most once").  The model ignores the second completion, the oracle's `firstSuccess`
does not look at earlier completions of the same batch and demands an `ok` outcome (clause 2).  An artefact of the
oracle on ill-formed schedules, not a defect of `_Connector`. -/
theorem model_run_ok_refuted : ¬ model_run_ok_goal := by
  intro h
  have := h [(0, 7, 0)] false [.batch [.fail 0, .succ 0]] (by decide) (by decide)
  revert this
  decide

/-- **model_run_ok_partial** — the whole observed-run checker (clauses 1–8: completed at most once; the FIRST delivered
success wins; errors only after the connect timer or when every address has failed; losers closed; one attempt per
family; liveness; one stream per list entry) accepts every run of the model, for address lists that may repeat
addresses, on every schedule in which no batch reports a stream failed and later in the same batch succeeded
(decidable side condition `wfEvents`; a connect future completes once) -/
theorem model_run_ok_partial : ∀ (l : List (Nat × Nat × Nat)) (ct : Bool) (evs : List Event), l ≠ [] →
    (∀ p ∈ l, p.1 ≤ 1) → wfEvents evs = true →
    Spec.check (mkNamedR l) evs
      ((start (mkNamedR l) ct :: trace (start (mkNamedR l) ct) evs).map Spec.snapOf) = 0 := by
  intro l ct evs hne _ hwf
  have hne' : mkNamedR l ≠ [] := by
    intro h
    have := mkNamedR_length l
    rw [h] at this
    exact hne (List.eq_nil_of_length_eq_zero this.symm)
  exact check_of hne' (mkNamedR_nodup l) ct evs hwf

/-- non-vacuity: a well-formed schedule with a two-completion batch, a late arrival and both timers; the refuting
schedule of `model_run_ok_refuted` is exactly what `wfEvents` excludes -/
example : wfEvents [.tick, .batch [.fail 0, .succ 1], .batch [.succ 2], .ctick] = true
    ∧ wfEvents [.batch [.fail 0, .succ 0]] = false
    ∧ (run (start (mkNamed [(0, 7, false), (1, 7, false), (0, 7, false)]) true)
        [.tick, .batch [.fail 0, .succ 1], .batch [.succ 2], .ctick]).settles = [.ok 1 1] := by decide

/-- **first_success_wins** (clause 2) — in every reachable pending state, a batch of completions (no stream failed and
then succeeded within it) completes the future with the first success that names an in-flight stream, and with no
result if there is none -/
theorem first_success_wins (addrs : List Addr) (ct : Bool) (evs0 : List Event) (cs : List Compl)
    (h0 : (run (start addrs ct) evs0).settles = []) (hwf : noFailThenSucc cs = true) :
    Spec.clause2 (Spec.snapOf (run (start addrs ct) evs0)) (.batch cs)
      (Spec.snapOf (step (run (start addrs ct) evs0) (.batch cs))) = true :=
  clause2_batch (inv_run addrs ct evs0) (q1_run addrs ct evs0) h0 cs hwf

/-- non-vacuity: a pending state and a batch whose first completion is a failure, the second the winning success -/
example : (run (start (mkNamed [(0, 7, false), (1, 7, false)]) true) [.tick]).settles = []
    ∧ noFailThenSucc [.fail 0, .succ 5, .succ 1, .succ 0] = false ∧ noFailThenSucc [.fail 0, .succ 5, .succ 1] = true
    ∧ (step (run (start (mkNamed [(0, 7, false), (1, 7, false)]) true) [.tick])
        (.batch [.fail 0, .succ 5, .succ 1])).settles = [.ok 1 1] := by decide

/-- **one_stream_per_entry** (clause 7) — streams are opened only for entries of the list, at most one per entry -/
theorem one_stream_per_entry (l : List (Nat × Nat × Nat)) (ct : Bool) (evs : List Event) :
    Spec.clause7 (mkNamedR l) (Spec.snapOf (run (start (mkNamedR l) ct) evs)) = true :=
  clause7_of (inv_run (mkNamedR l) ct evs).core (mkNamedR_nodup l)

end TornadoModel.C10
