/-
C10 — specification side (core Lean only): what the property demands of an observed run of the connector.

An observation (`Snap`) is taken when the loop is quiescent: after `start()` and after every event.
`check addrs events snaps` returns 0 when the run satisfies every clause, else the number of the first
violated clause (1-7):
  1  the connect future is completed at most once and never changes afterwards
  2  it completes with the *first* connection that succeeded (first success delivered while it was pending)
  3  it completes with an error only when the overall timeout fired while pending, or every attempt has failed
     and every address of the list has a failed attempt
  4  once it has completed, every stream the connector opened other than the winner is closed (the winner is not)
  5  at most one connection attempt per address family is in flight
  6  when nothing is in flight and no timer is live, it has completed
  7  streams are opened only for entries of the list, at most one per entry
  8  when every address of the list has a failed attempt and nothing is in flight, it has completed
     ("with an error once every address has failed" — also while a timer is still pending)

Address identity.  A stream is reported with the position (`Addr.idx`) of the list entry it was opened for; two
entries denote the same *address* iff family and `name` agree (`sameAddr`).  A resolved list may repeat an
address.  "Every address has failed" (clauses 3, 8) is judged per address, not per entry, so it neither demands
nor forbids a second attempt at a repeated address; clause 8 only speaks once nothing is in flight.
-/
import TornadoModel.C10.Model
namespace TornadoModel.C10.Spec
open TornadoModel.C10

structure SStream where
  addr : Nat
  fut : Fut
  closed : Bool
  deriving Repr, BEq, DecidableEq

structure Snap where
  outcome : List Outcome
  streams : List SStream
  timerLive : Bool
  ctimerLive : Bool
  deriving Repr, BEq, DecidableEq

def famOf (addrs : List Addr) (i : Nat) : Option Nat := (addrs.find? (fun a => a.idx == i)).map (·.fam)

def sameAddr (a b : Addr) : Bool := a.fam == b.fam && a.name == b.name

/-- the stream was opened for (an entry denoting) the address of `a` -/
def streamFor (addrs : List Addr) (a : Addr) (x : SStream) : Bool :=
  match addrs.find? (fun b => b.idx == x.addr) with
  | some b => sameAddr a b
  | none => false

/-- every address of the list has a stream whose connect failed -/
def allAddrsFailed (addrs : List Addr) (c : Snap) : Bool :=
  addrs.all (fun a => c.streams.any (fun x => x.fut == .err && streamFor addrs a x))

def inflightIn (p : Snap) (s : Nat) : Bool :=
  match p.streams[s]? with
  | some x => x.fut == .pending
  | none => false

/-- the first success of the event that is delivered: the first `succ s` of a batch whose stream is in flight -/
def firstSuccess (p : Snap) : Event → Option Nat
  | .batch cs => (cs.find? (fun c => match c with | .succ s => inflightIn p s | .fail _ => false)).map Compl.stream
  | _ => none

def distinct : List Nat → Bool
  | [] => true
  | x :: xs => !xs.contains x && distinct xs

def clause1 (p c : Snap) : Bool := c.outcome.length ≤ 1 && (p.outcome.isEmpty || c.outcome == p.outcome)

def clause2 (p : Snap) (e : Event) (c : Snap) : Bool :=
  if p.outcome.isEmpty then
    match firstSuccess p e with
    | some s => (match c.streams[s]? with
        | some x => c.outcome == [.ok x.addr s]
        | none => false)
    | none => c.outcome.all (fun o => match o with | .ok _ _ => false | _ => true)
  else true

def clause3 (addrs : List Addr) (p : Snap) (e : Event) (c : Snap) : Bool :=
  if p.outcome.isEmpty then
    c.outcome.all (fun o => match o with
      | .ok _ _ => true
      | .timeout => e == .ctick && p.ctimerLive
      | _ => c.streams.all (fun x => x.fut == .err) && allAddrsFailed addrs c)
  else true

def clause4 (c : Snap) : Bool :=
  match c.outcome with
  | [] => true
  | .ok _ w :: _ => (List.range c.streams.length).all (fun i =>
      match c.streams[i]? with
      | some x => if i == w then !x.closed else x.closed
      | none => true)
  | _ => c.streams.all (·.closed)

def clause5 (addrs : List Addr) (c : Snap) : Bool :=
  let fl := (c.streams.filter (fun x => x.fut == .pending)).map (fun x => famOf addrs x.addr)
  fl.all (fun f => (fl.filter (· == f)).length ≤ 1)

def clause6 (c : Snap) : Bool :=
  c.streams.any (fun x => x.fut == .pending) || c.timerLive || c.ctimerLive || !c.outcome.isEmpty

def clause7 (addrs : List Addr) (c : Snap) : Bool :=
  distinct (c.streams.map (·.addr)) && c.streams.all (fun x => addrs.any (fun a => a.idx == x.addr))

def clause8 (addrs : List Addr) (c : Snap) : Bool :=
  !(allAddrsFailed addrs c && !c.streams.any (fun x => x.fut == .pending)) || !c.outcome.isEmpty

def static (addrs : List Addr) (c : Snap) : Nat :=
  if !clause4 c then 4 else if !clause5 addrs c then 5 else if !clause6 c then 6 else if !clause7 addrs c then 7
  else if !clause8 addrs c then 8 else 0

def stepCheck (addrs : List Addr) (p : Snap) (e : Event) (c : Snap) : Nat :=
  if !clause1 p c then 1 else if !clause2 p e c then 2 else if !clause3 addrs p e c then 3 else static addrs c

def checkFrom (addrs : List Addr) (p : Snap) : List Event → List Snap → Nat
  | [], [] => 0
  | e :: es, c :: cs => match stepCheck addrs p e c with
    | 0 => checkFrom addrs c es cs
    | n => n
  | _, _ => 99

/-- `snaps` = observation after `start()` followed by one observation per event -/
def check (addrs : List Addr) (events : List Event) : List Snap → Nat
  | [] => 99
  | s0 :: rest =>
    -- `start()` may already complete the future (every address failed synchronously)
    let first := if s0.outcome.length > 1 then 1
      else if !(s0.outcome.all (fun o => match o with
        | .lastError _ => s0.streams.all (fun x => x.fut == .err) && allAddrsFailed addrs s0
        | _ => false)) then 3
      else static addrs s0
    match first with
    | 0 => checkFrom addrs s0 events rest
    | n => n

/-- the observation of a model state -/
def snapOf (st : St) : Snap :=
  { outcome := st.settles,
    streams := st.streams.map (fun x => ⟨x.addr.idx, x.fut, x.closed⟩),
    timerLive := st.timer == .live,
    ctimerLive := st.ctimer == .live }

end TornadoModel.C10.Spec
