/-
C10 — the accounting invariant of `_Connector`, part 1: list lemmas about `modifyNth`, the definitions
(`queued`, `attempted`, `Core`, `Sett`, `Inv`) and the transport lemmas.

`Core` is independent of the settle log and is preserved by every primitive of the model:
  * `perm`  : attempted entries ++ queued entries is a permutation of `addrinfo` (entries, not addresses: a
              repeated address occurs once per entry)
  * `acct`  : `remaining = |queued| + #{streams whose on_connect_done has not run}`  — across both queues
  * at most two iterators, at most one undelivered stream per iterator, family of each queue
`Sett` says what the settle log means for the streams (winner open / everything else closed, …).
-/
import TornadoModel.C10.Lemmas
namespace TornadoModel.C10

instance : LawfulBEq Fut where
  eq_of_beq {a b} h := by cases a <;> cases b <;> first | rfl | exact absurd h (by decide)
  rfl {a} := by cases a <;> decide

instance : LawfulBEq Timer where
  eq_of_beq {a b} h := by cases a <;> cases b <;> first | rfl | exact absurd h (by decide)
  rfl {a} := by cases a <;> decide

/-! ### `modifyNth` -/

theorem length_modifyNth {α} (f : α → α) (l : List α) (n : Nat) : (modifyNth f l n).length = l.length := by
  induction l generalizing n with
  | nil => rfl
  | cons x xs ih => cases n <;> simp [modifyNth, ih]

theorem getElem?_modifyNth {α} (f : α → α) (l : List α) (n : Nat) :
    (modifyNth f l n)[n]? = (l[n]?).map f := by
  induction l generalizing n with
  | nil => simp [modifyNth]
  | cons x xs ih =>
    cases n with
    | zero => simp [modifyNth]
    | succ n => simp [modifyNth, ih]

theorem getElem?_modifyNth_ne {α} (f : α → α) (l : List α) (n m : Nat) (h : m ≠ n) :
    (modifyNth f l n)[m]? = l[m]? := by
  induction l generalizing n m with
  | nil => simp [modifyNth]
  | cons x xs ih =>
    cases n with
    | zero =>
      cases m with
      | zero => exact absurd rfl h
      | succ m => simp [modifyNth]
    | succ n =>
      cases m with
      | zero => simp [modifyNth]
      | succ m =>
        simp only [modifyNth, List.getElem?_cons_succ]
        exact ih n m (by omega)

theorem modifyNth_of_none {α} (f : α → α) (l : List α) (n : Nat) (h : l[n]? = none) : modifyNth f l n = l := by
  induction l generalizing n with
  | nil => rfl
  | cons x xs ih =>
    cases n with
    | zero => simp at h
    | succ n =>
      simp only [List.getElem?_cons_succ] at h
      simp [modifyNth, ih n h]

theorem modifyNth_self {α} (f : α → α) (l : List α) (n : Nat) (x : α) (h : l[n]? = some x) (hf : f x = x) :
    modifyNth f l n = l := by
  induction l generalizing n with
  | nil => rfl
  | cons y ys ih =>
    cases n with
    | zero =>
      simp only [List.getElem?_cons_zero, Option.some.injEq] at h
      subst h
      simp [modifyNth, hf]
    | succ n =>
      simp only [List.getElem?_cons_succ] at h
      simp [modifyNth, ih n h]

theorem mem_modifyNth {α} (f : α → α) (l : List α) (n : Nat) (y : α) (h : y ∈ modifyNth f l n) :
    y ∈ l ∨ ∃ x, l[n]? = some x ∧ y = f x := by
  induction l generalizing n with
  | nil => simp [modifyNth] at h
  | cons x xs ih =>
    cases n with
    | zero =>
      simp only [modifyNth, List.mem_cons] at h
      rcases h with h | h
      · right; exact ⟨x, by simp, h⟩
      · left; simp [h]
    | succ n =>
      simp only [modifyNth, List.mem_cons] at h
      rcases h with h | h
      · left; simp [h]
      · rcases ih n h with h' | ⟨z, hz, e⟩
        · left; simp [h']
        · right; exact ⟨z, by simpa using hz, e⟩

theorem forall_modifyNth {α} (P : α → Prop) (f : α → α) (l : List α) (n : Nat)
    (h : ∀ x ∈ l, P x) (hf : ∀ x, l[n]? = some x → P x → P (f x)) : ∀ y ∈ modifyNth f l n, P y := by
  intro y hy
  rcases mem_modifyNth f l n y hy with h1 | ⟨x, hx, rfl⟩
  · exact h y h1
  · exact hf x hx (h x (List.mem_of_getElem? hx))

theorem map_modifyNth {α β} (g : α → β) (f : α → α) (l : List α) (n : Nat) (h : ∀ x, g (f x) = g x) :
    (modifyNth f l n).map g = l.map g := by
  induction l generalizing n with
  | nil => rfl
  | cons x xs ih => cases n <;> simp [modifyNth, h, ih]

theorem countP_modifyNth {α} (p : α → Bool) (f : α → α) (l : List α) (n : Nat) (x : α) (h : l[n]? = some x) :
    (modifyNth f l n).countP p + (if p x then 1 else 0) = l.countP p + (if p (f x) then 1 else 0) := by
  induction l generalizing n with
  | nil => simp at h
  | cons y ys ih =>
    cases n with
    | zero =>
      simp only [List.getElem?_cons_zero, Option.some.injEq] at h
      subst h
      simp only [modifyNth, List.countP_cons]
      omega
    | succ n =>
      simp only [List.getElem?_cons_succ] at h
      have := ih n h
      simp only [modifyNth, List.countP_cons]
      omega

theorem countP_modifyNth_same {α} (p : α → Bool) (f : α → α) (l : List α) (n : Nat) (h : ∀ x, p (f x) = p x) :
    (modifyNth f l n).countP p = l.countP p := by
  induction l generalizing n with
  | nil => rfl
  | cons x xs ih => cases n <;> simp [modifyNth, List.countP_cons, h, ih]

theorem lt_length_of_getElem? {α} {l : List α} {n : Nat} {x : α} (h : l[n]? = some x) : n < l.length :=
  (List.getElem?_eq_some_iff.mp h).1

/-- taking the head of the `it`-th queue -/
theorem flatten_modifyNth_perm (a : Addr) (rest : List Addr) (L : List (List Addr)) (it : Nat)
    (h : L[it]? = some (a :: rest)) : (a :: (modifyNth (fun _ => rest) L it).flatten).Perm L.flatten := by
  induction L generalizing it with
  | nil => simp at h
  | cons y ys ih =>
    cases it with
    | zero =>
      simp only [List.getElem?_cons_zero, Option.some.injEq] at h
      subst h
      simp [modifyNth]
    | succ it =>
      simp only [List.getElem?_cons_succ] at h
      simp only [modifyNth, List.flatten_cons]
      exact (List.perm_middle.symm).trans ((ih it h).append_left y)

/-! ### stream updates -/

/-- what `stream.close()` does to a stream -/
def gClose (x : Stream) : Stream :=
  { x with closed := true, closes := x.closes + 1,
           fut := if x.fut == .pending then .err else x.fut,
           delivered := x.delivered || x.fut == .pending }

/-- `on_connect_done` has run -/
def gDeliv (x : Stream) : Stream := { x with delivered := true }

theorem closeStream_eq (st : St) (s : Nat) : closeStream st s =
    { st with streams := modifyNth gClose st.streams s,
              remaining := st.remaining - (match st.streams[s]? with
                | some x => if x.fut == .pending then 1 else 0
                | none => 0) } := by
  unfold closeStream
  cases h : st.streams[s]? with
  | none => simp [modifyNth_of_none _ _ _ h]
  | some x =>
    have hg : gClose = fun x => { x with closed := true, closes := x.closes + 1, fut := if x.fut == .pending then .err else x.fut, delivered := x.delivered || x.fut == .pending } := rfl
    rw [hg]
    simp only []
    split <;> simp_all [updStream]

/-- monotone evolution of one stream -/
def Evo (x y : Stream) : Prop :=
  y.addr = x.addr ∧ y.it = x.it ∧ (x.closed = true → y.closed = true) ∧ (x.fut ≠ .pending → y.fut = x.fut)
    ∧ (x.delivered = true → y.delivered = true)

theorem Evo.refl (x : Stream) : Evo x x := ⟨rfl, rfl, id, fun _ => rfl, id⟩

theorem Evo.trans {x y z : Stream} (h1 : Evo x y) (h2 : Evo y z) : Evo x z := by
  obtain ⟨a1, b1, c1, d1, e1⟩ := h1
  obtain ⟨a2, b2, c2, d2, e2⟩ := h2
  refine ⟨a2.trans a1, b2.trans b1, fun h => c2 (c1 h), fun h => ?_, fun h => e2 (e1 h)⟩
  have := d1 h
  rw [d2 (by rw [this]; exact h), this]

theorem evo_gClose (x : Stream) : Evo x (gClose x) := by
  refine ⟨rfl, rfl, fun _ => rfl, fun h => ?_, fun h => ?_⟩
  · cases hf : x.fut <;> simp_all [gClose]
  · simp [gClose, h]

theorem evo_gDeliv (x : Stream) : Evo x (gDeliv x) := ⟨rfl, rfl, id, fun _ => rfl, fun _ => rfl⟩

theorem evo_modifyNth (f : Stream → Stream) (hf : ∀ y, Evo y (f y)) (l : List Stream) (s i : Nat) (y : Stream)
    (h : l[i]? = some y) : ∃ y', (modifyNth f l s)[i]? = some y' ∧ Evo y y' := by
  by_cases e : i = s
  · subst e
    exact ⟨f y, by rw [getElem?_modifyNth, h]; rfl, hf y⟩
  · exact ⟨y, by rw [getElem?_modifyNth_ne _ _ _ _ e, h], Evo.refl y⟩

/-! ### the invariant -/

def undelP (x : Stream) : Bool := !x.delivered
def undelOn (it : Nat) (x : Stream) : Bool := !x.delivered && x.it == it

/-- entries not yet attempted: what is left of every iterator, plus the secondary list while the fallback
timer has not started it -/
def queued (st : St) : List Addr := st.iters.flatten ++ (if st.iters.length = 1 then st.sec else [])

/-- entries for which a stream was opened -/
def attempted (st : St) : List Addr := st.streams.map (·.addr)

/-- the primary family -/
def fam0 : List Addr → Nat
  | [] => 0
  | a :: _ => a.fam

structure Core (addrs : List Addr) (st : St) : Prop where
  perm : (attempted st ++ queued st).Perm addrs
  acct : st.remaining = ((queued st).length : Int) + ((st.streams.countP undelP : Nat) : Int)
  itl : st.iters.length = 1 ∨ (st.iters.length = 2 ∧ st.timer = .none)
  itlt : ∀ x ∈ st.streams, x.it < st.iters.length
  one : ∀ it, st.streams.countP (undelOn it) ≤ 1
  pend : ∀ x ∈ st.streams, x.fut = .pending → x.delivered = false
  errc : ∀ x ∈ st.streams, x.fut = .err → x.closed = true
  famq : ∀ it l, st.iters[it]? = some l → ∀ a ∈ l, (a.fam = fam0 addrs ↔ it = 0)
  fams : ∀ a ∈ st.sec, a.fam ≠ fam0 addrs
  famx : ∀ x ∈ st.streams, (x.addr.fam = fam0 addrs ↔ x.it = 0)

/-- `self.streams` (`inSet`) while the future is pending: every `connect` call record is in it or already closed
(the records of calls that raised are never in it: they are closed from the start), without repetitions, and only
holds streams that exist -/
def Cover (st : St) : Prop :=
  (∀ i x, st.streams[i]? = some x → i ∈ st.inSet ∨ x.closed = true) ∧ st.inSet.Nodup
    ∧ ∀ i ∈ st.inSet, i < st.streams.length

theorem Cover.upd {st st' : St} (h : Cover st) (f : Stream → Stream) (s : Nat)
    (hf : ∀ y, y.closed = true → (f y).closed = true)
    (hs : st'.streams = modifyNth f st.streams s) (hi : st'.inSet = st.inSet) : Cover st' := by
  obtain ⟨h1, h2, h3⟩ := h
  refine ⟨?_, hi ▸ h2, ?_⟩
  · intro i x hx
    rw [hs] at hx
    rw [hi]
    by_cases e : i = s
    · subst e
      rw [getElem?_modifyNth] at hx
      cases hl : st.streams[i]? with
      | none => rw [hl] at hx; cases hx
      | some y =>
        rw [hl] at hx
        simp only [Option.map_some, Option.some.injEq] at hx
        subst hx
        rcases h1 i y hl with hm | hc
        · exact Or.inl hm
        · exact Or.inr (hf y hc)
    · rw [getElem?_modifyNth_ne _ _ _ _ e] at hx
      exact h1 i x hx
  · intro i hm
    rw [hs, length_modifyNth]
    exact h3 i (hi ▸ hm)

structure Sett (addrs : List Addr) (st : St) : Prop where
  s0 : st.settles = [] → Cover st
        ∧ ∀ x ∈ st.streams, (x.delivered = true → x.fut = .err) ∧ (x.closed = true → x.fut = .err)
  sok : ∀ a w, st.settles = [.ok a w] → ∃ x, st.streams[w]? = some x ∧ a = x.addr.idx ∧ x.closed = false
        ∧ x.delivered = true ∧ w ∉ st.inSet
        ∧ ∀ s y, s ≠ w → st.streams[s]? = some y → y.closed = true
  sto : st.settles = [.timeout] → ∀ x ∈ st.streams, x.closed = true
  sfl : ∀ o, st.settles = [o] → kindOf o = .fail →
        st.streams.length = addrs.length ∧ ∀ x ∈ st.streams, x.fut = .err

structure Inv (addrs : List Addr) (st : St) : Prop where
  core : Core addrs st
  sett : Sett addrs st

theorem Core.of_eq {addrs} {st st' : St} (h : Core addrs st) (h1 : st'.iters = st.iters) (h2 : st'.sec = st.sec)
    (h3 : st'.streams = st.streams) (h4 : st'.remaining = st.remaining)
    (h5 : st'.iters.length = 1 ∨ (st'.iters.length = 2 ∧ st'.timer = .none)) : Core addrs st' := by
  obtain ⟨p, a, _, c, d, e, f, g, i, j⟩ := h
  constructor
  · simpa [attempted, queued, h1, h2, h3] using p
  · simpa [queued, h1, h2, h3, h4] using a
  · exact h5
  · rw [h1, h3]; exact c
  · rw [h3]; exact d
  · rw [h3]; exact e
  · rw [h3]; exact f
  · rw [h1]; exact g
  · rw [h2]; exact i
  · rw [h3]; exact j

theorem Sett.of_eq {addrs} {st st' : St} (h : Sett addrs st) (h1 : st'.settles = st.settles)
    (h2 : st'.streams = st.streams) (h3 : st'.inSet = st.inSet) : Sett addrs st' := by
  obtain ⟨a, b, c, d⟩ := h
  constructor
  · rw [h1, h2]
    intro h0
    refine ⟨?_, (a h0).2⟩
    unfold Cover
    rw [h2, h3]
    exact (a h0).1
  · rw [h1, h2, h3]; exact b
  · rw [h1, h2]; exact c
  · rw [h1, h2]; exact d

/-- once the future is done: streams only evolve monotonically and the winner is left alone -/
theorem Sett.evolve {addrs} {st st' : St} (h : Sett addrs st) (hne : st.settles ≠ [])
    (hs : st'.settles = st.settles) (hi : st'.inSet = st.inSet)
    (he : ∀ (i : Nat) (y : Stream), st.streams[i]? = some y → ∃ y', st'.streams[i]? = some y' ∧ Evo y y')
    (hl : st'.streams.length = st.streams.length)
    (hw : ∀ (a w : Nat), st.settles = [.ok a w] → st'.streams[w]? = st.streams[w]?) : Sett addrs st' := by
  have back : ∀ y' ∈ st'.streams, ∃ y ∈ st.streams, Evo y y' := by
    intro y' hy'
    obtain ⟨i, hi'⟩ := List.mem_iff_getElem?.mp hy'
    have hlt : i < st.streams.length := hl ▸ lt_length_of_getElem? hi'
    obtain ⟨y'', h1, h2⟩ := he i _ (List.getElem?_eq_getElem hlt)
    rw [hi'] at h1
    cases h1
    exact ⟨_, List.getElem_mem hlt, h2⟩
  constructor
  · intro h0; rw [hs] at h0; exact absurd h0 hne
  · intro a w h0
    rw [hs] at h0
    obtain ⟨x, hx, ha, hc, hd, hin, hoth⟩ := h.sok a w h0
    refine ⟨x, by rw [hw a w h0]; exact hx, ha, hc, hd, by rw [hi]; exact hin, ?_⟩
    intro s y' hsw hy'
    have hlt : s < st.streams.length := hl ▸ lt_length_of_getElem? hy'
    obtain ⟨y'', h1, h2⟩ := he s _ (List.getElem?_eq_getElem hlt)
    rw [hy'] at h1
    cases h1
    exact h2.2.2.1 (hoth s _ hsw (List.getElem?_eq_getElem hlt))
  · intro h0 y' hy'
    rw [hs] at h0
    obtain ⟨y, hy, e⟩ := back y' hy'
    exact e.2.2.1 (h.sto h0 y hy)
  · intro o h0 hk
    rw [hs] at h0
    obtain ⟨h1, h2⟩ := h.sfl o h0 hk
    refine ⟨hl.trans h1, ?_⟩
    intro y' hy'
    obtain ⟨y, hy, e⟩ := back y' hy'
    have := h2 y hy
    rw [e.2.2.2.1 (by rw [this]; decide), this]

end TornadoModel.C10
