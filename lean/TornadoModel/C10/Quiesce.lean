/-
C10 — quiescence.  `Frame`: the connector itself never produces a "completed but undelivered" stream (only the
environment's completions do) and never un-delivers one; `B`: during a batch every completed-undelivered stream
still has its completion ahead in the batch; hence `Q1`: after `start()` and after every event, a stream whose
`on_connect_done` has not run is still in flight.
-/
import TornadoModel.C10.Goals
namespace TornadoModel.C10

/-! ### frame -/

def FrameL (l l' : List Stream) : Prop :=
  (∀ (u : Nat) (y : Stream), l'[u]? = some y → y.delivered = false → y.fut ≠ .pending →
      ∃ x, l[u]? = some x ∧ x.delivered = false ∧ x.fut = y.fut)
  ∧ (∀ (u : Nat) (x : Stream), l[u]? = some x → x.delivered = true → ∃ y, l'[u]? = some y ∧ y.delivered = true)

theorem FrameL.refl (l : List Stream) : FrameL l l :=
  ⟨fun _ y h hd _ => ⟨y, h, hd, rfl⟩, fun _ x h hd => ⟨x, h, hd⟩⟩

theorem FrameL.trans {a b c : List Stream} (h1 : FrameL a b) (h2 : FrameL b c) : FrameL a c := by
  refine ⟨?_, ?_⟩
  · intro u z hz hd hp
    obtain ⟨y, hy, hyd, hyf⟩ := h2.1 u z hz hd hp
    obtain ⟨x, hx, hxd, hxf⟩ := h1.1 u y hy hyd (by rw [hyf]; exact hp)
    exact ⟨x, hx, hxd, hxf.trans hyf⟩
  · intro u x hx hd
    obtain ⟨y, hy, hyd⟩ := h1.2 u x hx hd
    exact h2.2 u y hy hyd

theorem frameL_modifyNth (f : Stream → Stream)
    (hf : ∀ y, (f y).delivered = false → (f y).fut ≠ .pending → y.delivered = false ∧ y.fut = (f y).fut)
    (hf2 : ∀ y, y.delivered = true → (f y).delivered = true)
    (l : List Stream) (s : Nat) : FrameL l (modifyNth f l s) := by
  refine ⟨?_, ?_⟩
  · intro u y hy hd hp
    by_cases e : u = s
    · subst e
      rw [getElem?_modifyNth] at hy
      cases hx : l[u]? with
      | none => rw [hx] at hy; cases hy
      | some x =>
        rw [hx] at hy
        simp only [Option.map_some, Option.some.injEq] at hy
        subst hy
        obtain ⟨h1, h2⟩ := hf x hd hp
        exact ⟨x, rfl, h1, h2⟩
    · rw [getElem?_modifyNth_ne _ _ _ _ e] at hy
      exact ⟨y, hy, hd, rfl⟩
  · intro u x hx hd
    by_cases e : u = s
    · subst e
      exact ⟨f x, by rw [getElem?_modifyNth, hx]; rfl, hf2 x hd⟩
    · exact ⟨x, by rw [getElem?_modifyNth_ne _ _ _ _ e]; exact hx, hd⟩

theorem frameL_append (l : List Stream) (n : Stream) (hn : n.delivered = false → n.fut = .pending) :
    FrameL l (l ++ [n]) := by
  refine ⟨?_, ?_⟩
  · intro u y hy hd hp
    by_cases hlt : u < l.length
    · rw [List.getElem?_append_left hlt] at hy
      exact ⟨y, hy, hd, rfl⟩
    · have hcase : u = l.length ∨ l.length < u := by omega
      rcases hcase with rfl | h
      · simp at hy
        subst hy
        exact absurd (hn hd) hp
      · rw [List.getElem?_eq_none (by simp; omega)] at hy
        cases hy
  · intro u x hx hd
    exact ⟨x, by rw [List.getElem?_append_left (lt_length_of_getElem? hx)]; exact hx, hd⟩

@[reducible] def Frame (st st' : St) : Prop := FrameL st.streams st'.streams

theorem hf_gClose (y : Stream) (h : (gClose y).delivered = false) (_ : (gClose y).fut ≠ .pending) :
    y.delivered = false ∧ y.fut = (gClose y).fut := by
  simp only [gClose, Bool.or_eq_false_iff, beq_eq_false_iff_ne] at h
  exact ⟨h.1, by simp [gClose, h.2]⟩

theorem hf2_gClose (y : Stream) (h : y.delivered = true) : (gClose y).delivered = true := by
  simp [gClose, h]

theorem closeStream_frame (st : St) (s : Nat) : Frame st (closeStream st s) := by
  rw [closeStream_eq]
  exact frameL_modifyNth gClose hf_gClose hf2_gClose _ _

theorem foldl_closeStream_frame (L : List Nat) : ∀ st : St, Frame st (L.foldl closeStream st) := by
  induction L with
  | nil => intro st; exact FrameL.refl _
  | cons s L ih => intro st; exact FrameL.trans (closeStream_frame st s) (ih _)

theorem marked_frame (st : St) (s : Nat) : Frame st (marked st s) :=
  frameL_modifyNth gDeliv (fun _ h => by cases h) (fun _ _ => rfl) _ _

theorem tryConnect_frame (k : St → St) (hk : ∀ st, Frame st (k st)) (it : Nat) :
    ∀ (as : List Addr) (st : St), Frame st (tryConnect k it as st) := by
  intro as
  induction as with
  | nil =>
    intro st
    simp only [tryConnect]
    split <;> exact FrameL.refl _
  | cons a rest ih =>
    intro st
    have hap : ∀ f : Fut, (a.sync = false → f = .pending) →
        FrameL st.streams (st.streams ++ [⟨a, it, f, a.sync, a.sync, 0⟩]) :=
      fun f hf => frameL_append _ _ (by intro h; exact hf h)
    simp only [tryConnect]
    split
    · split
      · exact hap _ (by intro h; simp_all)
      · refine FrameL.trans ?_ (hk _)
        refine FrameL.trans ?_ (ih _)
        exact hap _ (by intro h; simp_all)
    · exact hap _ (by intro h; rfl)

theorem onTimeout_frame (st : St) : Frame st (onTimeout st) := by
  rw [onTimeout_eq]
  split
  · exact FrameL.refl _
  · exact tryConnect_frame id (fun _ => FrameL.refl _) _ _ (secStart st)

theorem afterFail_frame (st : St) : Frame st (afterFail st) := by
  simp only [afterFail]
  split
  · exact FrameL.refl _
  · exact onTimeout_frame st

/-- everything `on_connect_done(failure)` does after marking the stream delivered -/
theorem deliverErr_frame_marked (st : St) (s : Nat) (x : Stream) (hx : st.streams[s]? = some x) :
    Frame (marked st s) (deliverErr st s) := by
  rw [deliverErr_eq st s x hx]
  split
  · exact FrameL.refl _
  · exact FrameL.trans
      (tryConnect_frame afterFail afterFail_frame _ _ { marked st s with lastError := some s })
      (afterFail_frame _)

theorem deliverOk_frame_marked (st : St) (s : Nat) (x : Stream) (hx : st.streams[s]? = some x) :
    Frame (marked st s) (deliverOk st s) := by
  rw [deliverOk_eq st s x hx]
  split
  · exact closeStream_frame (clearTimeouts (marked st s)) s
  · exact foldl_closeStream_frame _ (won st s x.addr.idx)

theorem deliver_frame (st : St) (c : Compl) : Frame st (deliver st c) := by
  unfold deliver
  cases hx : st.streams[c.stream]? with
  | none => exact FrameL.refl _
  | some x =>
    simp only []
    cases hd : x.delivered with
    | true => rw [if_pos rfl]; exact FrameL.refl _
    | false =>
      simp only [Bool.false_eq_true, if_false]
      cases c with
      | succ s =>
        cases hf : x.fut with
        | ok => exact FrameL.trans (marked_frame st s) (deliverOk_frame_marked st s x hx)
        | pending => exact FrameL.refl _
        | err => exact FrameL.refl _
      | fail s =>
        cases hf : x.fut with
        | err => exact FrameL.trans (marked_frame st s) (deliverErr_frame_marked st s x hx)
        | pending => exact FrameL.refl _
        | ok => exact FrameL.refl _

theorem onConnectTimeout_frame (st : St) : Frame st (onConnectTimeout st) := by
  simp only [onConnectTimeout]
  split
  · exact foldl_closeStream_frame _ st
  · exact foldl_closeStream_frame st.inSet { st with settles := st.settles ++ [.timeout] }

/-! ### quiescence -/

/-- a stream whose `on_connect_done` has not run is in flight -/
def Q1 (st : St) : Prop := ∀ x ∈ st.streams, x.delivered = false → x.fut = .pending

theorem Q1.frame {st st' : St} (h : Q1 st) (hf : Frame st st') : Q1 st' := by
  intro y hy hd
  obtain ⟨u, hu⟩ := List.mem_iff_getElem?.mp hy
  cases hp : y.fut with
  | pending => rfl
  | ok =>
    obtain ⟨x, hx, hxd, hxf⟩ := hf.1 u y hu hd (by rw [hp]; decide)
    have := h x (List.mem_of_getElem? hx) hxd
    rw [hxf, hp] at this
    cases this
  | err =>
    obtain ⟨x, hx, hxd, hxf⟩ := hf.1 u y hu hd (by rw [hp]; decide)
    have := h x (List.mem_of_getElem? hx) hxd
    rw [hxf, hp] at this
    cases this

def Matches (c : Compl) (u : Nat) (f : Fut) : Prop := (c = .succ u ∧ f = .ok) ∨ (c = .fail u ∧ f = .err)

/-- every completed-undelivered stream has a matching completion in `M` -/
def B (M : Compl → Prop) (st : St) : Prop :=
  ∀ (u : Nat) (y : Stream), st.streams[u]? = some y → y.delivered = false → y.fut ≠ .pending →
    ∃ c, M c ∧ Matches c u y.fut

theorem B.mono {M M' : Compl → Prop} {st : St} (h : B M st) (hm : ∀ c, M c → M' c) : B M' st := by
  intro u y hy hd hp
  obtain ⟨c, hc, hm'⟩ := h u y hy hd hp
  exact ⟨c, hm c hc, hm'⟩

theorem complete_B {M : Compl → Prop} {st : St} (h : B M st) (c : Compl) :
    B (fun c' => c' = c ∨ M c') (complete st c) := by
  unfold complete
  cases hx : st.streams[c.stream]? with
  | none => exact h.mono (fun _ h => Or.inr h)
  | some x =>
    simp only []
    split
    · intro u y hy hd hp
      cases c with
      | succ s =>
        simp only [updStream] at hy
        by_cases e : u = s
        · subst e
          have hx' : st.streams[u]? = some x := hx
          rw [getElem?_modifyNth, hx'] at hy
          simp only [Option.map_some, Option.some.injEq] at hy
          subst hy
          exact ⟨.succ u, Or.inl rfl, Or.inl ⟨rfl, rfl⟩⟩
        · rw [getElem?_modifyNth_ne _ _ _ _ e] at hy
          obtain ⟨c', hc', hm⟩ := h u y hy hd hp
          exact ⟨c', Or.inr hc', hm⟩
      | fail s =>
        simp only [updStream] at hy
        by_cases e : u = s
        · subst e
          have hx' : st.streams[u]? = some x := hx
          rw [getElem?_modifyNth, hx'] at hy
          simp only [Option.map_some, Option.some.injEq] at hy
          subst hy
          exact ⟨.fail u, Or.inl rfl, Or.inr ⟨rfl, rfl⟩⟩
        · rw [getElem?_modifyNth_ne _ _ _ _ e] at hy
          obtain ⟨c', hc', hm⟩ := h u y hy hd hp
          exact ⟨c', Or.inr hc', hm⟩
    · exact h.mono (fun _ h => Or.inr h)

theorem foldl_complete_B (cs : List Compl) : ∀ (M : Compl → Prop) (st : St), B M st →
    B (fun c => c ∈ cs ∨ M c) (cs.foldl complete st) := by
  induction cs with
  | nil => intro M st h; exact h.mono (fun _ h => Or.inr h)
  | cons c cs ih =>
    intro M st h
    simp only [List.foldl]
    refine (ih _ _ (complete_B h c)).mono ?_
    intro c' hc'
    rcases hc' with h1 | h1 | h1
    · exact Or.inl (List.mem_cons_of_mem _ h1)
    · exact Or.inl (h1 ▸ List.mem_cons_self)
    · exact Or.inr h1

/-- delivering `c` takes it off the list -/
theorem deliver_B {cs : List Compl} {st : St} (c : Compl) (h : B (fun c' => c' ∈ c :: cs) st) :
    B (fun c' => c' ∈ cs) (deliver st c) := by
  intro u y hy hd hp
  obtain ⟨x, hx, hxd, hxf⟩ := (deliver_frame st c).1 u y hy hd hp
  obtain ⟨c', hc', hm⟩ := h u x hx hxd (by rw [hxf]; exact hp)
  rcases List.mem_cons.mp hc' with e | e
  · -- `c` itself matches stream `u`: then `deliver` delivered it
    exfalso
    subst e
    have hdel : ∃ y', (deliver st c').streams[u]? = some y' ∧ y'.delivered = true := by
      have hmk : ∃ z, (marked st u).streams[u]? = some z ∧ z.delivered = true :=
        ⟨gDeliv x, by show (modifyNth gDeliv st.streams u)[u]? = _; rw [getElem?_modifyNth, hx]; rfl, rfl⟩
      obtain ⟨z, hz, hzd⟩ := hmk
      rcases hm with ⟨rfl, hf⟩ | ⟨rfl, hf⟩
      · have : deliver st (.succ u) = deliverOk st u := by
          simp [deliver, Compl.stream, hx, hxd, hf]
        rw [this]
        exact (deliverOk_frame_marked st u x hx).2 u z hz hzd
      · have : deliver st (.fail u) = deliverErr st u := by
          simp [deliver, Compl.stream, hx, hxd, hf]
        rw [this]
        exact (deliverErr_frame_marked st u x hx).2 u z hz hzd
    obtain ⟨y', hy', hyd'⟩ := hdel
    rw [hy] at hy'
    cases hy'
    rw [hd] at hyd'
    cases hyd'
  · exact ⟨c', e, hxf ▸ hm⟩

theorem foldl_deliver_B (cs : List Compl) : ∀ (st : St), B (fun c => c ∈ cs) st → B (fun _ => False) (cs.foldl deliver st) := by
  induction cs with
  | nil => intro st h; exact h.mono (fun c hc => by cases hc)
  | cons c cs ih => intro st h; exact ih _ (deliver_B c h)

theorem Q1.toB {st : St} (h : Q1 st) : B (fun _ => False) st := by
  intro u y hy hd hp
  exact absurd (h y (List.mem_of_getElem? hy) hd) hp

theorem B.toQ1 {st : St} (h : B (fun _ => False) st) : Q1 st := by
  intro y hy hd
  obtain ⟨u, hu⟩ := List.mem_iff_getElem?.mp hy
  cases hp : y.fut with
  | pending => rfl
  | ok => obtain ⟨_, hc, _⟩ := h u y hu hd (by rw [hp]; decide); exact hc.elim
  | err => obtain ⟨_, hc, _⟩ := h u y hu hd (by rw [hp]; decide); exact hc.elim

theorem step_Q1 {st : St} (h : Q1 st) (e : Event) : Q1 (step st e) := by
  cases e with
  | batch cs =>
    simp only [step]
    apply B.toQ1
    apply foldl_deliver_B
    exact (foldl_complete_B cs _ st h.toB).mono (fun c hc => hc.elim id False.elim)
  | tick =>
    simp only [step]
    split
    · exact h.frame (onTimeout_frame st)
    · exact h
  | ctick =>
    simp only [step]
    split
    · exact Q1.frame (st := { st with ctimer := .fired }) h (onConnectTimeout_frame _)
    · exact h

theorem start_Q1 (addrs : List Addr) (ct : Bool) : Q1 (start addrs ct) := by
  rw [start_eq]
  have h0 : Q1 (st0 addrs) := by intro x hx; cases hx
  exact h0.frame (tryConnect_frame afterFail afterFail_frame 0 _ (st0 addrs))

theorem run_Q1 (evs : List Event) : ∀ {st : St}, Q1 st → Q1 (run st evs) := by
  induction evs with
  | nil => intro st h; exact h
  | cons e es ih => intro st h; exact ih (step_Q1 h e)

/-- at quiescence (after `start()` and after every event) an undelivered stream is in flight -/
theorem q1_run (addrs : List Addr) (ct : Bool) (evs : List Event) : Q1 (run (start addrs ct) evs) :=
  run_Q1 evs (start_Q1 addrs ct)

end TornadoModel.C10
