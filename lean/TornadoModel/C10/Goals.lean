/-
C10 — from the invariant (`Inv`, Inv2–Inv4) to the clauses of the specification's checker.
-/
import TornadoModel.C10.Inv4
namespace TornadoModel.C10

/-! ### entries of `mkNamed` are identified by their position -/

theorem mkNamed_idx (l : List (Nat × Nat × Bool)) : (mkNamed l).map (·.idx) = List.range l.length := by
  have h : (mkNamed l).map (·.idx) = ((List.range l.length).zip l).map Prod.fst := by
    simp only [mkNamed, List.map_map]
    apply List.map_congr_left
    intro p _
    rfl
  rw [h, List.map_fst_zip]
  simp

theorem mkNamed_nodup (l : List (Nat × Nat × Bool)) : ((mkNamed l).map (·.idx)).Nodup := by
  rw [mkNamed_idx]; exact List.nodup_range

theorem mkNamed_length (l : List (Nat × Nat × Bool)) : (mkNamed l).length = l.length := by
  have := congrArg List.length (mkNamed_idx l)
  simpa using this

/-! the same for `mkNamedR` (per entry the outcome of the `connect` call: pending / failed future / raises) -/

theorem mkNamedR_idx (l : List (Nat × Nat × Nat)) : (mkNamedR l).map (·.idx) = List.range l.length := by
  have h : (mkNamedR l).map (·.idx) = ((List.range l.length).zip l).map Prod.fst := by
    simp only [mkNamedR, List.map_map]
    apply List.map_congr_left
    intro p _
    rfl
  rw [h, List.map_fst_zip]
  simp

theorem mkNamedR_nodup (l : List (Nat × Nat × Nat)) : ((mkNamedR l).map (·.idx)).Nodup := by
  rw [mkNamedR_idx]; exact List.nodup_range

theorem mkNamedR_length (l : List (Nat × Nat × Nat)) : (mkNamedR l).length = l.length := by
  have := congrArg List.length (mkNamedR_idx l)
  simpa using this

/-- `mkNamed` is the raise-free special case -/
theorem mkNamed_eq_mkNamedR (l : List (Nat × Nat × Bool)) :
    mkNamed l = mkNamedR (l.map (fun p => (p.1, p.2.1, if p.2.2 then 1 else 0))) := by
  simp only [mkNamed, mkNamedR, List.length_map]
  rw [List.zip_map_right, List.map_map]
  apply List.map_congr_left
  intro p _
  obtain ⟨i, f, n, b⟩ := p
  cases b <;> rfl

theorem find_idx (addrs : List Addr) (hnd : (addrs.map (·.idx)).Nodup) (a : Addr) (ha : a ∈ addrs) :
    addrs.find? (fun b => b.idx == a.idx) = some a := by
  induction addrs with
  | nil => cases ha
  | cons b bs ih =>
    simp only [List.map_cons, List.nodup_cons] at hnd
    by_cases e : b.idx = a.idx
    · have hab : a = b := by
        rcases List.mem_cons.mp ha with h | h
        · exact h
        · exact absurd (e ▸ List.mem_map_of_mem (f := (·.idx)) h) hnd.1
      subst hab
      simp
    · have hne : a ≠ b := fun h => e (h ▸ rfl)
      have ha' : a ∈ bs := by
        rcases List.mem_cons.mp ha with h | h
        · exact absurd h hne
        · exact h
      rw [List.find?_cons_of_neg (by simpa using e)]
      exact ih hnd.2 ha'

theorem famOf_eq (addrs : List Addr) (hnd : (addrs.map (·.idx)).Nodup) (a : Addr) (ha : a ∈ addrs) :
    Spec.famOf addrs a.idx = some a.fam := by
  simp [Spec.famOf, find_idx addrs hnd a ha]

theorem Core.stream_mem {addrs st} (h : Core addrs st) {x : Stream} (hx : x ∈ st.streams) : x.addr ∈ addrs := by
  apply h.perm.mem_iff.mp
  apply List.mem_append_left
  exact List.mem_map_of_mem (f := (·.addr)) hx

/-! ### clause 4: once done, every stream but the winner is closed -/

theorem clause4_of_inv {addrs st} (h : Inv addrs st) (hle : st.settles.length ≤ 1) :
    Spec.clause4 (Spec.snapOf st) = true := by
  have hall : (∀ x ∈ st.streams, x.closed = true) → (Spec.snapOf st).streams.all (·.closed) = true := by
    intro hc
    simp only [Spec.snapOf, List.all_map, List.all_eq_true]
    intro x hx
    exact hc x hx
  cases hs : st.settles with
  | nil => simp [Spec.clause4, Spec.snapOf, hs]
  | cons o rest =>
    have hr : rest = [] := by
      rw [hs] at hle
      simp only [List.length_cons] at hle
      exact List.eq_nil_of_length_eq_zero (by omega)
    subst hr
    cases o with
    | ok a w =>
      obtain ⟨x, hx, _, hxc, _, _, hoth⟩ := h.sett.sok a w hs
      simp only [Spec.clause4, Spec.snapOf, hs, List.all_eq_true, List.mem_range, List.length_map,
        List.getElem?_map]
      intro i _
      cases hy : st.streams[i]? with
      | none => simp
      | some y =>
        simp only [Option.map_some]
        by_cases e : i = w
        · subst e; rw [hx] at hy; cases hy; simp [hxc]
        · simp [e, hoth i y e hy]
    | timeout =>
      simp only [Spec.clause4, show (Spec.snapOf st).outcome = [Outcome.timeout] from hs]
      exact hall (h.sett.sto hs)
    | lastError e =>
      simp only [Spec.clause4, show (Spec.snapOf st).outcome = [Outcome.lastError e] from hs]
      exact hall (fun x hx => h.core.errc x hx ((h.sett.sfl _ hs rfl).2 x hx))
    | connFailed =>
      simp only [Spec.clause4, show (Spec.snapOf st).outcome = [Outcome.connFailed] from hs]
      exact hall (fun x hx => h.core.errc x hx ((h.sett.sfl _ hs rfl).2 x hx))

/-! ### clause 5: at most one attempt in flight per family -/

/-- two in-flight streams of the same family come from the same iterator -/
theorem Core.same_it {addrs st} (h : Core addrs st) {x y : Stream} (hx : x ∈ st.streams) (hy : y ∈ st.streams)
    (hf : y.addr.fam = x.addr.fam) : y.it = x.it := by
  have h1 := h.famx x hx
  have h2 := h.famx y hy
  have l1 := h.itlt x hx
  have l2 := h.itlt y hy
  have hl : st.iters.length ≤ 2 := by rcases h.itl with h | ⟨h, _⟩ <;> omega
  by_cases e : x.it = 0
  · have : y.it = 0 := h2.mp (hf ▸ h1.mpr e)
    omega
  · have : y.it ≠ 0 := fun e' => e (h1.mp (hf ▸ h2.mpr e'))
    omega

theorem clause5_of_core {addrs st} (h : Core addrs st) (hnd : (addrs.map (·.idx)).Nodup) :
    Spec.clause5 addrs (Spec.snapOf st) = true := by
  have hfl : ((Spec.snapOf st).streams.filter (fun x => x.fut == .pending)).map
        (fun x => Spec.famOf addrs x.addr)
      = (st.streams.filter (fun x => x.fut == .pending)).map (fun x => some x.addr.fam) := by
    simp only [Spec.snapOf, List.filter_map, List.map_map]
    apply List.map_congr_left
    intro x hx
    have hx' : x ∈ st.streams := (List.mem_filter.mp hx).1
    simp only [Function.comp]
    exact famOf_eq addrs hnd x.addr (h.stream_mem hx')
  unfold Spec.clause5
  simp only []
  rw [hfl, List.all_eq_true]
  intro f hf
  obtain ⟨x, hx, rfl⟩ := List.mem_map.mp hf
  have hxm : x ∈ st.streams := (List.mem_filter.mp hx).1
  simp only [decide_eq_true_eq]
  rw [← List.countP_eq_length_filter, List.countP_map, List.countP_filter]
  refine Nat.le_trans (List.countP_mono_left ?_) (h.one x.it)
  intro y hy hp
  simp only [Function.comp, Bool.and_eq_true, beq_iff_eq, Option.some.injEq] at hp
  have hd := h.pend y hy hp.2
  have hi := h.same_it hxm hy hp.1
  simp [undelOn, hd, hi]

end TornadoModel.C10
