import TornadoModel.C10.Spec
namespace TornadoModel.C10
end TornadoModel.C10
