/- C10 — helper lemmas: how each piece of the connector may change the settle log of `self.future`. -/
import TornadoModel.C10.Spec
namespace TornadoModel.C10

/-- kinds of completion -/
inductive Kind where
  | fail      -- `last_error` / "connection failed": raised by `try_connect` when every attempt has completed
  | timeout   -- raised by `on_connect_timeout`
  | ok        -- `set_result` by `on_connect_done`
  deriving DecidableEq

def kindOf : Outcome → Kind
  | .ok _ _ => .ok
  | .timeout => .timeout
  | .lastError _ => .fail
  | .connFailed => .fail

/-- `b` extends `a`: the settle log is unchanged, or it was empty and received exactly one entry satisfying `p` -/
def Ext (p : Outcome → Prop) (a b : St) : Prop :=
  b.settles = a.settles ∨ (a.settles = [] ∧ ∃ o, b.settles = [o] ∧ p o)

theorem Ext.refl (p) (a : St) : Ext p a a := Or.inl rfl

theorem Ext.trans {p} {a b c : St} (h1 : Ext p a b) (h2 : Ext p b c) : Ext p a c := by
  rcases h1 with h1 | ⟨ha, o, hb, hp⟩
  · rcases h2 with h2 | ⟨hb, o, hc, hp⟩
    · exact Or.inl (h2.trans h1)
    · exact Or.inr ⟨by rw [← h1]; exact hb, o, hc, hp⟩
  · rcases h2 with h2 | ⟨hb', _⟩
    · exact Or.inr ⟨ha, o, by rw [h2]; exact hb, hp⟩
    · rw [hb] at hb'; simp at hb'

theorem Ext.mono {p q : Outcome → Prop} (h : ∀ o, p o → q o) {a b : St} (e : Ext p a b) : Ext q a b := by
  rcases e with e | ⟨ha, o, hb, hp⟩
  · exact Or.inl e
  · exact Or.inr ⟨ha, o, hb, h o hp⟩

theorem Ext.of_settles_eq {p} {a b : St} (h : b.settles = a.settles) : Ext p a b := Or.inl h

@[simp] theorem setIter_settles (st : St) (it l) : (setIter st it l).settles = st.settles := rfl
@[simp] theorem updStream_settles (st : St) (s f) : (updStream st s f).settles = st.settles := rfl
@[simp] theorem clearTimeouts_settles (st : St) : (clearTimeouts st).settles = st.settles := rfl

@[simp] theorem closeStream_settles (st : St) (s : Nat) : (closeStream st s).settles = st.settles := by
  unfold closeStream
  split
  · rfl
  · simp only; split <;> rfl

theorem foldl_closeStream_settles (l : List Nat) (st : St) : (l.foldl closeStream st).settles = st.settles := by
  induction l generalizing st with
  | nil => rfl
  | cons x xs ih => simp [List.foldl, ih]

@[simp] theorem closeStreams_settles (st : St) : (closeStreams st).settles = st.settles :=
  foldl_closeStream_settles _ _

def isFail (o : Outcome) : Prop := kindOf o = .fail
def isOk (o : Outcome) : Prop := kindOf o = .ok
def isTimeout (o : Outcome) : Prop := kindOf o = .timeout

theorem done_iff (st : St) : st.done = true ↔ st.settles ≠ [] := by
  simp [St.done]

theorem tryConnect_ext (k : St → St) (hk : ∀ st, Ext isFail st (k st)) (it : Nat) (as : List Addr) (st : St) :
    Ext isFail st (tryConnect k it as st) := by
  induction as generalizing st with
  | nil =>
    simp only [tryConnect]
    split
    · rename_i h
      simp only [Bool.and_eq_true, Bool.not_eq_true', beq_iff_eq] at h
      have hd : st.settles = [] := by
        have := h.2; simpa [St.done, setIter] using this
      cases hl : (setIter st it []).lastError with
      | none => exact Or.inr ⟨hd, .connFailed, by simp [hd], rfl⟩
      | some s => exact Or.inr ⟨hd, .lastError s, by simp [hd], rfl⟩
    · exact Or.inl rfl
  | cons a rest ih =>
    simp only [tryConnect]
    split
    · split
      · exact Or.inl rfl
      · refine Ext.trans ?_ (hk _)
        refine Ext.trans ?_ (ih _)
        exact Or.inl rfl
    · exact Or.inl rfl

theorem onTimeout_ext (st : St) : Ext isFail st (onTimeout st) := by
  simp only [onTimeout]
  split
  · exact Or.inl rfl
  · refine Ext.trans ?_ (tryConnect_ext id (fun s => Ext.refl _ s) _ _ _)
    exact Or.inl rfl

theorem afterFail_ext (st : St) : Ext isFail st (afterFail st) := by
  simp only [afterFail]
  split
  · exact Ext.refl _ _
  · exact onTimeout_ext st

theorem deliverErr_ext (st : St) (s : Nat) : Ext isFail st (deliverErr st s) := by
  simp only [deliverErr]
  split
  · exact Ext.refl _ _
  · split
    · exact Or.inl rfl
    · refine Ext.trans ?_ (afterFail_ext _)
      refine Ext.trans ?_ (tryConnect_ext afterFail afterFail_ext _ _ _)
      exact Or.inl rfl

theorem deliverOk_ext (st : St) (s : Nat) :
    Ext (fun o => ∃ a, o = .ok a s) st (deliverOk st s) := by
  simp only [deliverOk]
  split
  · exact Ext.refl _ _
  · rename_i x hx
    split
    · exact Or.inl (by simp)
    · rename_i hd
      have hd' : st.settles = [] := by simpa [St.done] using hd
      exact Or.inr ⟨hd', .ok x.addr.idx s, by simp [hd'], ⟨_, rfl⟩⟩

theorem onConnectTimeout_ext (st : St) : Ext isTimeout st (onConnectTimeout st) := by
  simp only [onConnectTimeout]
  by_cases hd : st.done = true
  · simp [hd]; exact Or.inl (by simp)
  · have hd' : st.settles = [] := by simpa [St.done] using hd
    simp only [hd, Bool.false_eq_true, if_false]
    exact Or.inr ⟨hd', .timeout, by simp [hd'], rfl⟩

@[simp] theorem complete_settles (st : St) (c : Compl) : (complete st c).settles = st.settles := by
  unfold complete
  split
  · split
    · cases c <;> rfl
    · rfl
  · rfl

theorem foldl_complete_settles (cs : List Compl) (st : St) : (cs.foldl complete st).settles = st.settles := by
  induction cs generalizing st with
  | nil => rfl
  | cons c cs ih => simp [List.foldl, ih]

/-- any outcome a delivery can produce: a failure, or the success of that very completion -/
def fromCompl (c : Compl) (o : Outcome) : Prop := isFail o ∨ ∃ a s, c = .succ s ∧ o = .ok a s

theorem deliver_ext (st : St) (c : Compl) : Ext (fromCompl c) st (deliver st c) := by
  unfold deliver
  split
  · split
    · exact Ext.refl _ _
    · split
      · exact Ext.mono (fun o ⟨a, h⟩ => Or.inr ⟨a, _, rfl, h⟩) (deliverOk_ext st _)
      · exact Ext.mono (fun o h => Or.inl h) (deliverErr_ext st _)
      · exact Ext.refl _ _
  · exact Ext.refl _ _

theorem foldl_deliver_ext (cs : List Compl) (st : St) :
    Ext (fun o => ∃ c ∈ cs, fromCompl c o) st (cs.foldl deliver st) := by
  induction cs generalizing st with
  | nil => exact Ext.refl _ _
  | cons c cs ih =>
    simp only [List.foldl]
    refine Ext.trans (Ext.mono ?_ (deliver_ext st c)) (Ext.mono ?_ (ih _))
    · intro o h; exact ⟨c, by simp, h⟩
    · intro o ⟨c', hc', h⟩; exact ⟨c', by simp [hc'], h⟩

/-- every event extends the settle log by at most one entry, and only if it was empty -/
theorem step_ext (st : St) (e : Event) :
    Ext (fun o => match e with
      | .batch cs => ∃ c ∈ cs, fromCompl c o
      | .tick => isFail o
      | .ctick => isTimeout o) st (step st e) := by
  cases e with
  | batch cs =>
    simp only [step]
    have h := foldl_deliver_ext cs (cs.foldl complete st)
    rcases h with h | ⟨h1, o, h2, h3⟩
    · exact Or.inl (by rw [h, foldl_complete_settles])
    · exact Or.inr ⟨by rw [← foldl_complete_settles cs st]; exact h1, o, h2, h3⟩
  | tick =>
    simp only [step]
    split
    · exact onTimeout_ext st
    · exact Ext.refl _ _
  | ctick =>
    simp only [step]
    split
    · refine Ext.trans ?_ (onConnectTimeout_ext _)
      exact Or.inl rfl
    · exact Ext.refl _ _

theorem start_settles (addrs : List Addr) (ct : Bool) :
    (start addrs ct).settles = [] ∨ ∃ o, (start addrs ct).settles = [o] ∧ isFail o := by
  simp only [start]
  have h := tryConnect_ext afterFail afterFail_ext 0 (split addrs).1
    { iters := [(split addrs).1], sec := (split addrs).2, streams := [], inSet := [], remaining := addrs.length,
      lastError := none, timer := .none, ctimer := .none, settles := [] }
  rcases h with h | ⟨_, o, h2, h3⟩
  · left; simpa using h
  · right; exact ⟨o, by simpa using h2, h3⟩

end TornadoModel.C10
