/-
C10 — liveness at quiescence.  `Post`: while the future is pending, `remaining > 0`, every iterator is exhausted
or has an undelivered stream, and the fallback timer is live or has started the second queue.  Together with
`Q1` (Quiesce.lean) and the accounting invariant this gives clauses 6 and 8 of the checker: when nothing is in
flight and no timer is live the future has completed; when every address has failed it has completed.
-/
import TornadoModel.C10.Quiesce
namespace TornadoModel.C10

structure Post (b : Bool) (st : St) : Prop where
  lv : ∀ (it : Nat) (l : List Addr), st.iters[it]? = some l → l = [] ∨ 0 < st.streams.countP (undelOn it)
  mv : 0 < st.remaining
  tm : b = true → st.timer = .live ∨ (st.timer = .none ∧ st.iters.length = 2)

def PostQ (b : Bool) (st : St) : Prop := st.settles = [] → Post b st

structure Pre (b : Bool) (it0 : Nat) (st : St) : Prop where
  lv : ∀ (it : Nat) (l : List Addr), st.iters[it]? = some l → it ≠ it0 →
    l = [] ∨ 0 < st.streams.countP (undelOn it)
  tm : b = true → st.timer = .live ∨ (st.timer = .none ∧ st.iters.length = 2)

theorem opened_pre {b it st} (a : Addr) (rest : List Addr) (h : Pre b it st) : Pre b it (opened st it a rest) := by
  constructor
  · intro it' l hl hne
    simp only [opened] at hl
    rw [getElem?_modifyNth_ne _ _ _ _ hne] at hl
    rcases h.lv it' l hl hne with h1 | h1
    · exact Or.inl h1
    · right
      simp only [opened, List.countP_append]
      omega
  · intro hb
    have := h.tm hb
    simpa [opened, length_modifyNth] using this

theorem opened_post_async {addrs b it st} (a : Addr) (rest : List Addr) (hs : a.sync = false)
    (hinv : Inv addrs (opened st it a rest)) (h : Pre b it st) : Post b (opened st it a rest) := by
  have hp := opened_pre a rest h
  have hnew : undelOn it ⟨a, it, if a.sync then .err else .pending, a.sync, a.sync, 0⟩ = true := by
    simp [undelOn, hs]
  have hnew' : undelP ⟨a, it, if a.sync then .err else .pending, a.sync, a.sync, 0⟩ = true := by
    simp [undelP, hs]
  constructor
  · intro it' l hl
    by_cases e : it' = it
    · subst e
      right
      simp only [opened, List.countP_append, List.countP_cons, List.countP_nil, hnew, if_true]
      omega
    · exact hp.lv it' l hl e
  · have := hinv.core.acct
    simp only [opened, List.countP_append, List.countP_cons, List.countP_nil, hnew', if_true] at this
    have h2 : (opened st it a rest).remaining = if a.sync then st.remaining - 1 else st.remaining := rfl
    rw [h2]
    omega
  · exact hp.tm

theorem tryConnect_post {addrs b} (k : St → St) (hkI : ∀ st, Inv addrs st → Inv addrs (k st))
    (hk : ∀ st, Inv addrs st → PostQ b st → PostQ b (k st)) (it : Nat) :
    ∀ (as : List Addr) (st : St), Inv addrs st → st.settles = [] → st.iters[it]? = some as →
      st.streams.countP (undelOn it) = 0 → Pre b it st → PostQ b (tryConnect k it as st) := by
  intro as
  induction as with
  | nil =>
    intro st hinv hs hit hfree hpre
    have hself : setIter st it [] = st := by
      simp only [setIter]; rw [modifyNth_self _ _ _ _ hit rfl]
    simp only [tryConnect, hself]
    split
    · intro h0
      simp at h0
    · rename_i hc
      intro _
      constructor
      · intro it' l hl
        by_cases e : it' = it
        · subst e
          rw [hit] at hl
          cases hl
          exact Or.inl rfl
        · exact hpre.lv it' l hl e
      · have hne : st.remaining ≠ 0 := by simpa [St.done, hs] using hc
        have := hinv.core.acct
        omega
      · exact hpre.tm
  | cons a rest ih =>
    intro st hinv hs hit hfree hpre
    rw [tryConnect_cons k it a rest st hs]
    have hinv' : Inv addrs (opened st it a rest) :=
      ⟨opened_core hinv.core it a rest hit hfree, opened_sett hinv.sett hs it a rest⟩
    cases hsy : a.sync with
    | false =>
      simp only [Bool.false_eq_true, if_false]
      intro _
      exact opened_post_async a rest hsy hinv' hpre
    | true =>
      simp only [if_true]
      have hit' := opened_iters st it a rest hit
      have hfree' := opened_free st it a rest hsy hfree
      exact hk _ (tryConnect_inv k hkI it rest _ hinv' hs hit' hfree')
        (ih _ hinv' hs hit' hfree' (opened_pre a rest hpre))

theorem onTimeout_post {addrs b st} (h : Inv addrs st) (ht : st.timer ≠ .none) (hq : PostQ b st) :
    PostQ b (onTimeout st) := by
  have hl1 := length_one_of_timer h ht
  rw [onTimeout_eq]
  split
  · rename_i hd
    intro h0
    have : st.settles ≠ [] := by simpa [St.done] using hd
    exact absurd h0 this
  · rename_i hd
    have hs : st.settles = [] := by simpa [St.done] using hd
    have P := hq hs
    obtain ⟨h1, h2, h3⟩ := secStart_inv h hl1
    obtain ⟨p, hp⟩ : ∃ p, st.iters = [p] := List.length_eq_one_iff.mp hl1
    refine tryConnect_post id (fun _ h => h) (fun _ _ h => h) _ _ _ h1 hs h2 h3 ⟨?_, ?_⟩
    · intro it' l hl hne
      simp only [secStart, hp] at hl
      match it' with
      | 0 => exact P.lv 0 l (by simpa [hp] using hl)
      | 1 => exact absurd (by rw [hl1]) hne
      | n + 2 => simp at hl
    · intro _
      exact Or.inr ⟨rfl, by simp [secStart, hl1]⟩

theorem afterFail_post {addrs b} (st : St) (h : Inv addrs st) (hq : PostQ b st) : PostQ b (afterFail st) := by
  simp only [afterFail]
  split
  · exact hq
  · rename_i ht
    exact onTimeout_post h (by simpa using ht) hq

theorem deliverErr_post {addrs b st} (h : Inv addrs st) (s : Nat) (x : Stream) (hx : st.streams[s]? = some x)
    (hd : x.delivered = false) (hf : x.fut = .err) (hq : PostQ b st) : PostQ b (deliverErr st s) := by
  rw [deliverErr_eq st s x hx]
  have hcore := marked_core h.core s x hx hd (by rw [hf]; decide)
  have hset : (marked st s).settles = st.settles := rfl
  split
  · rename_i hdone
    intro h0
    have : st.settles ≠ [] := by simpa [St.done, hset] using hdone
    exact absurd (hset ▸ h0) this
  · rename_i hdone
    have hs : st.settles = [] := by simpa [St.done, hset] using hdone
    have P := hq hs
    have hinv2 : Inv addrs { marked st s with lastError := some s } :=
      ⟨hcore.of_eq rfl rfl rfl rfl hcore.itl, (marked_sett_err h.sett hs s x hx hf).of_eq rfl rfl rfl⟩
    have hit : ({ marked st s with lastError := some s } : St).iters[x.it]?
        = some ((marked st s).iters.getD x.it []) := by
      have hlt : x.it < st.iters.length := h.core.itlt x (List.mem_of_getElem? hx)
      show st.iters[x.it]? = some (st.iters.getD x.it [])
      rw [List.getD_eq_getElem?_getD, List.getElem?_eq_getElem hlt]; rfl
    have hfree := marked_free h.core s x hx hd
    have hpre : Pre b x.it { marked st s with lastError := some s } := by
      constructor
      · intro it' l hl hne
        rcases P.lv it' l hl with h1 | h1
        · exact Or.inl h1
        · right
          have hc := countP_modifyNth (undelOn it') gDeliv st.streams s x hx
          have e1 : undelOn it' x = false := by
            simp only [undelOn, Bool.and_eq_false_iff, beq_eq_false_iff_ne]
            exact Or.inr (fun e => hne e.symm)
          have e2 : undelOn it' (gDeliv x) = false := by simp [undelOn, gDeliv]
          simp only [e1, e2, Bool.false_eq_true, if_false] at hc
          show 0 < (modifyNth gDeliv st.streams s).countP (undelOn it')
          omega
      · exact P.tm
    apply afterFail_post _ (tryConnect_inv afterFail afterFail_inv _ _ _ hinv2 hs hit hfree)
    exact tryConnect_post afterFail afterFail_inv (fun st h hq => afterFail_post st h hq) _ _ _
      hinv2 hs hit hfree hpre

theorem deliverOk_settled (st : St) (s : Nat) (x : Stream) (hx : st.streams[s]? = some x) :
    (deliverOk st s).settles ≠ [] := by
  rw [deliverOk_eq st s x hx]
  split
  · rename_i hdone
    rw [closeStream_settles]
    simpa [St.done] using hdone
  · rw [closeStreams_settles]
    simp [won]

theorem onConnectTimeout_settled (st : St) : (onConnectTimeout st).settles ≠ [] := by
  simp only [onConnectTimeout]
  rw [closeStreams_settles]
  split
  · rename_i hd; simpa [St.done] using hd
  · simp

theorem complete_post {b st} (hq : PostQ b st) (c : Compl) : PostQ b (complete st c) := by
  rcases complete_cases st c with e | ⟨x, f, _, _, hf, e⟩
  · rw [e]; exact hq
  · rw [e]
    intro h0
    have P := hq h0
    have hund : ∀ y, (f y).delivered = y.delivered := by rcases hf with rfl | rfl <;> intro y <;> rfl
    have hit : ∀ y, (f y).it = y.it := by rcases hf with rfl | rfl <;> intro y <;> rfl
    constructor
    · intro it l hl
      have : (modifyNth f st.streams c.stream).countP (undelOn it) = st.streams.countP (undelOn it) :=
        countP_modifyNth_same _ _ _ _ (fun y => by simp [undelOn, hund, hit])
      show l = [] ∨ 0 < (modifyNth f st.streams c.stream).countP (undelOn it)
      rw [this]
      exact P.lv it l hl
    · exact P.mv
    · exact P.tm

theorem deliver_post {addrs b st} (h : Inv addrs st) (hq : PostQ b st) (c : Compl) : PostQ b (deliver st c) := by
  unfold deliver
  cases hx : st.streams[c.stream]? with
  | none => exact hq
  | some x =>
    simp only []
    cases hd : x.delivered with
    | true => rw [if_pos rfl]; exact hq
    | false =>
      simp only [Bool.false_eq_true, if_false]
      cases c with
      | succ s =>
        cases hf : x.fut with
        | ok => intro h0; exact absurd h0 (deliverOk_settled st s x hx)
        | pending => exact hq
        | err => exact hq
      | fail s =>
        cases hf : x.fut with
        | err => exact deliverErr_post h s x hx hd hf hq
        | pending => exact hq
        | ok => exact hq

theorem foldl_complete_post {b} (cs : List Compl) : ∀ {st : St}, PostQ b st → PostQ b (cs.foldl complete st) := by
  induction cs with
  | nil => intro st h; exact h
  | cons c cs ih => intro st h; exact ih (complete_post h c)

theorem foldl_deliver_post {addrs b} (cs : List Compl) : ∀ {st : St}, Inv addrs st → PostQ b st →
    PostQ b (cs.foldl deliver st) := by
  induction cs with
  | nil => intro st _ h; exact h
  | cons c cs ih => intro st hi h; exact ih (deliver_inv hi c) (deliver_post hi h c)

theorem step_post {addrs b st} (h : Inv addrs st) (hq : PostQ b st) (e : Event) : PostQ b (step st e) := by
  cases e with
  | batch cs => exact foldl_deliver_post cs (foldl_complete_inv cs h) (foldl_complete_post cs hq)
  | tick =>
    simp only [step]
    split
    · rename_i ht
      exact onTimeout_post h (by rw [eq_of_beq ht]; decide) hq
    · exact hq
  | ctick =>
    simp only [step]
    split
    · intro h0; exact absurd h0 (onConnectTimeout_settled _)
    · exact hq

theorem start_post (addrs : List Addr) (ct : Bool) : PostQ true (start addrs ct) := by
  rw [start_eq]
  have h1 : PostQ false (tryConnect afterFail 0 (split addrs).1 (st0 addrs)) := by
    refine tryConnect_post afterFail afterFail_inv (fun st h hq => afterFail_post st h hq) 0 _ _
      (st0_inv addrs) rfl rfl rfl ⟨?_, ?_⟩
    · intro it l hl hne
      match it with
      | 0 => exact absurd rfl hne
      | n + 1 => simp [st0] at hl
    · intro hb; cases hb
  intro h0
  have P := h1 h0
  exact ⟨P.lv, P.mv, fun _ => Or.inl rfl⟩

theorem run_post {addrs} (evs : List Event) : ∀ {st : St}, Inv addrs st → PostQ true st → PostQ true (run st evs) := by
  induction evs with
  | nil => intro st _ h; exact h
  | cons e es ih => intro st hi h; exact ih (step_inv hi e) (step_post hi h e)

theorem post_run (addrs : List Addr) (ct : Bool) (evs : List Event) : PostQ true (run (start addrs ct) evs) :=
  run_post evs (start_inv addrs ct) (start_post addrs ct)

/-! ### clauses 6 and 8 -/

/-- pending future, nothing in flight (at quiescence): every queue that was started is exhausted -/
theorem idle_facts {addrs st} (h : Inv addrs st) (hq : Q1 st) (P : Post true st)
    (hnp : ∀ x ∈ st.streams, x.fut ≠ .pending) :
    st.timer = .live ∧ st.iters.length = 1 ∧ st.sec ≠ [] := by
  have hdel : ∀ x ∈ st.streams, x.delivered = true := by
    intro x hx
    cases hd : x.delivered with
    | true => rfl
    | false => exact absurd (hq x hx hd) (hnp x hx)
  have hc0 : st.streams.countP undelP = 0 := by
    apply List.countP_eq_zero.mpr
    intro x hx
    simp [undelP, hdel x hx]
  have hcit : ∀ it, st.streams.countP (undelOn it) = 0 := by
    intro it
    apply List.countP_eq_zero.mpr
    intro x hx
    simp [undelOn, hdel x hx]
  have hfl : st.iters.flatten = [] := by
    apply List.flatten_eq_nil_iff.mpr
    intro l hl
    obtain ⟨it, hit⟩ := List.mem_iff_getElem?.mp hl
    rcases P.lv it l hit with h1 | h1
    · exact h1
    · rw [hcit it] at h1; exact absurd h1 (by omega)
  have hacct := h.core.acct
  have hmv := P.mv
  simp only [queued, hfl, List.nil_append, hc0] at hacct
  rcases P.tm rfl with ht | ⟨_, hl2⟩
  · have hl1 := length_one_of_timer h (by rw [ht]; decide)
    refine ⟨ht, hl1, ?_⟩
    intro hsec
    simp [hl1, hsec] at hacct
    omega
  · simp [hl2] at hacct
    omega

/-- clause 6 — when nothing is in flight and no timer is live, the future has completed -/
theorem clause6_of {addrs st} (h : Inv addrs st) (hq : Q1 st) (hp : PostQ true st) :
    Spec.clause6 (Spec.snapOf st) = true := by
  by_cases hs : st.settles = []
  · by_cases hex : ∃ x ∈ st.streams, x.fut = .pending
    case neg =>
      have hnp : ∀ x ∈ st.streams, x.fut ≠ .pending := fun x hx hp => hex ⟨x, hx, hp⟩
      obtain ⟨ht, _, _⟩ := idle_facts h hq (hp hs) hnp
      simp [Spec.clause6, Spec.snapOf, ht]
    case pos =>
      obtain ⟨x, hx, hxp⟩ := hex
      have : (Spec.snapOf st).streams.any (fun x => x.fut == .pending) = true := by
        simp only [Spec.snapOf, List.any_map, List.any_eq_true]
        exact ⟨x, hx, by simp [hxp]⟩
      simp [Spec.clause6, this]
  · have : (Spec.snapOf st).outcome.isEmpty = false := by
      simp only [Spec.snapOf]
      cases hst : st.settles with
      | nil => exact absurd hst hs
      | cons _ _ => rfl
    simp [Spec.clause6, this]

/-- clause 8 — when every address of the list has a failed attempt and nothing is in flight, the future has
completed (also while the connect timer is still pending) -/
theorem clause8_of {addrs st} (h : Inv addrs st) (hnd : (addrs.map (·.idx)).Nodup) (hq : Q1 st)
    (hp : PostQ true st) : Spec.clause8 addrs (Spec.snapOf st) = true := by
  by_cases hs : st.settles = []
  · by_cases hex : ∃ x ∈ st.streams, x.fut = .pending
    case neg =>
      have hnp : ∀ x ∈ st.streams, x.fut ≠ .pending := fun x hx hp => hex ⟨x, hx, hp⟩
      obtain ⟨_, hl1, hsec⟩ := idle_facts h hq (hp hs) hnp
      -- an entry of the secondary list has no stream of its family
      obtain ⟨a, rest, hsa⟩ : ∃ a rest, st.sec = a :: rest := by
        cases hh : st.sec with
        | nil => exact absurd hh hsec
        | cons a rest => exact ⟨a, rest, rfl⟩
      have ha_sec : a ∈ st.sec := by rw [hsa]; exact List.mem_cons_self
      have ha : a ∈ addrs := by
        apply h.core.perm.mem_iff.mp
        apply List.mem_append_right
        simp only [queued, hl1, if_true]
        exact List.mem_append_right _ ha_sec
      have hfa := h.core.fams a ha_sec
      have hnone : (Spec.snapOf st).streams.any (fun x => x.fut == .err && Spec.streamFor addrs a x) = false := by
        simp only [Spec.snapOf, List.any_map, List.any_eq_false]
        intro y hy
        simp only [Function.comp, Bool.and_eq_true, not_and]
        intro _
        have hym := h.core.stream_mem hy
        have hfind := find_idx addrs hnd y.addr hym
        simp only [Spec.streamFor, hfind, Spec.sameAddr, Bool.and_eq_true, beq_iff_eq, not_and]
        intro hfam
        exfalso
        have hit0 : y.it = 0 := by have := h.core.itlt y hy; omega
        exact hfa (hfam.trans ((h.core.famx y hy).mpr hit0))
      have hall : Spec.allAddrsFailed addrs (Spec.snapOf st) = false := by
        simp only [Spec.allAddrsFailed, List.all_eq_false]
        exact ⟨a, ha, by simp [hnone]⟩
      simp [Spec.clause8, hall]
    case pos =>
      obtain ⟨x, hx, hxp⟩ := hex
      have : (Spec.snapOf st).streams.any (fun x => x.fut == .pending) = true := by
        simp only [Spec.snapOf, List.any_map, List.any_eq_true]
        exact ⟨x, hx, by simp [hxp]⟩
      simp [Spec.clause8, this]
  · have : (Spec.snapOf st).outcome.isEmpty = false := by
      simp only [Spec.snapOf]
      cases hst : st.settles with
      | nil => exact absurd hst hs
      | cons _ _ => rfl
    simp [Spec.clause8, this]

end TornadoModel.C10
