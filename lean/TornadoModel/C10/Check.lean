/-
C10 — the specification's whole checker (`Spec.check`, clauses 1–8) on the model's own runs.
Part 1: clauses 1, 3, 7, the initial check;  part 2: clause 2 (the first delivered success wins).
-/
import TornadoModel.C10.Live
namespace TornadoModel.C10
open Spec

deriving instance ReflBEq, LawfulBEq for Outcome
deriving instance ReflBEq, LawfulBEq for Compl
deriving instance ReflBEq, LawfulBEq for Event

/-! ### clause 7 -/

theorem distinct_of_nodup : ∀ l : List Nat, l.Nodup → Spec.distinct l = true := by
  intro l
  induction l with
  | nil => intro _; rfl
  | cons x xs ih =>
    intro h
    rw [List.nodup_cons] at h
    simp [Spec.distinct, h.1, ih h.2]

theorem clause7_of {addrs st} (h : Core addrs st) (hnd : (addrs.map (·.idx)).Nodup) :
    Spec.clause7 addrs (Spec.snapOf st) = true := by
  have hmap : (Spec.snapOf st).streams.map (·.addr) = (attempted st).map (·.idx) := by
    simp [Spec.snapOf, attempted, List.map_map, Function.comp_def]
  have hnd' : ((attempted st).map (·.idx)).Nodup := by
    have hp := h.perm.map (·.idx)
    have := hp.nodup_iff.mpr hnd
    rw [List.map_append] at this
    exact (List.nodup_append.mp this).1
  have h2 : (Spec.snapOf st).streams.all (fun x => addrs.any (fun a => a.idx == x.addr)) = true := by
    simp only [Spec.snapOf, List.all_map, List.all_eq_true, Function.comp, List.any_eq_true]
    intro x hx
    exact ⟨x.addr, h.stream_mem hx, by simp⟩
  simp only [Spec.clause7, hmap, distinct_of_nodup _ hnd', h2, Bool.and_self]

/-! ### "every stream failed and every address has a failed stream" -/

theorem allFailed_of_sfl {addrs st} (h : Inv addrs st) (hnd : (addrs.map (·.idx)).Nodup) (o : Outcome)
    (hs : st.settles = [o]) (hk : kindOf o = .fail) :
    ((Spec.snapOf st).streams.all (fun x => x.fut == .err)
      && Spec.allAddrsFailed addrs (Spec.snapOf st)) = true := by
  obtain ⟨hlen, herr⟩ := h.sett.sfl o hs hk
  have h1 : (Spec.snapOf st).streams.all (fun x => x.fut == .err) = true := by
    simp only [Spec.snapOf, List.all_map, List.all_eq_true, Function.comp]
    intro x hx
    simp [herr x hx]
  have hq : queued st = [] := by
    have := h.core.perm.length_eq
    simp only [List.length_append, attempted, List.length_map] at this
    exact List.eq_nil_of_length_eq_zero (by omega)
  have hperm : (attempted st).Perm addrs := by
    have := h.core.perm
    rwa [hq, List.append_nil] at this
  have h2 : Spec.allAddrsFailed addrs (Spec.snapOf st) = true := by
    simp only [Spec.allAddrsFailed, List.all_eq_true]
    intro a ha
    have : a ∈ attempted st := hperm.mem_iff.mpr ha
    obtain ⟨y, hy, hya⟩ := List.mem_map.mp this
    simp only [Spec.snapOf, List.any_map, List.any_eq_true, Function.comp]
    refine ⟨y, hy, ?_⟩
    subst hya
    have hfind := find_idx addrs hnd y.addr (h.core.stream_mem hy)
    simp [herr y hy, Spec.streamFor, hfind, Spec.sameAddr]
  simp [h1, h2]

/-! ### clauses 1 and 3 -/

theorem timeout_from_ctick (st : St) (e : Event) (h0 : st.settles = [])
    (h : (step st e).settles = [.timeout]) : e = .ctick ∧ st.ctimer = .live := by
  rcases step_ext st e with h1 | ⟨_, o, h2, h3⟩
  · rw [h1, h0] at h; simp at h
  · rw [h2] at h
    simp only [List.cons.injEq, and_true] at h
    subst h
    cases e with
    | batch cs =>
      obtain ⟨c, _, hf⟩ := h3
      rcases hf with hf | ⟨a', s', _, ho⟩
      · simp [isFail, kindOf] at hf
      · simp at ho
    | tick => simp [isFail, kindOf] at h3
    | ctick =>
      refine ⟨rfl, ?_⟩
      simp only [step] at h2
      split at h2
      · rename_i hl
        revert hl
        cases st.ctimer <;> decide
      · rw [h0] at h2; simp at h2

theorem clause1_of (st : St) (e : Event) (hle : st.settles.length ≤ 1) :
    Spec.clause1 (Spec.snapOf st) (Spec.snapOf (step st e)) = true := by
  rcases step_ext st e with h | ⟨h0, o, h1, _⟩
  · simp [Spec.clause1, Spec.snapOf, h, hle]
  · simp [Spec.clause1, Spec.snapOf, h0, h1]

theorem clause3_of {addrs st} (e : Event) (h' : Inv addrs (step st e)) (hnd : (addrs.map (·.idx)).Nodup) :
    Spec.clause3 addrs (Spec.snapOf st) e (Spec.snapOf (step st e)) = true := by
  by_cases hs : st.settles = []
  · have hemp : (Spec.snapOf st).outcome.isEmpty = true := by simp [Spec.snapOf, hs]
    simp only [Spec.clause3, hemp, if_true]
    rcases step_ext st e with h | ⟨_, o, h1, _⟩
    · simp [Spec.snapOf, h, hs]
    · have hout : (Spec.snapOf (step st e)).outcome = [o] := h1
      rw [hout]
      simp only [List.all_cons, List.all_nil, Bool.and_true]
      cases o with
      | ok a w => rfl
      | timeout =>
        obtain ⟨he, hc⟩ := timeout_from_ctick st e hs h1
        rw [he]
        simp only [Spec.snapOf, hc]
        decide
      | lastError s => exact allFailed_of_sfl h' hnd _ h1 rfl
      | connFailed => exact allFailed_of_sfl h' hnd _ h1 rfl
  · have hemp : (Spec.snapOf st).outcome.isEmpty = false := by
      simp only [Spec.snapOf]
      cases hst : st.settles with
      | nil => exact absurd hst hs
      | cons _ _ => rfl
    simp [Spec.clause3, hemp]

/-! ### `start()` never raises "connection failed" for a non-empty list -/

def NC (st : St) : Prop := Outcome.connFailed ∉ st.settles ∧ st.lastError ≠ none

theorem tryConnect_NC (k : St → St) (hk : ∀ st, NC st → NC (k st)) (it : Nat) :
    ∀ (as : List Addr) (st : St), NC st → NC (tryConnect k it as st) := by
  intro as
  induction as with
  | nil =>
    intro st h
    simp only [tryConnect]
    split
    · obtain ⟨s, hs⟩ := Option.ne_none_iff_exists'.mp h.2
      refine ⟨?_, h.2⟩
      have hs' : (setIter st it []).lastError = some s := hs
      simp only [hs', List.mem_append, List.mem_singleton, not_or]
      exact ⟨h.1, by simp⟩
    · exact h
  | cons a rest ih =>
    intro st h
    simp only [tryConnect]
    split
    · split
      · exact ⟨h.1, h.2⟩
      · exact hk _ (ih _ ⟨h.1, by simp⟩)
    · exact ⟨h.1, h.2⟩

theorem onTimeout_NC (st : St) (h : NC st) : NC (onTimeout st) := by
  rw [onTimeout_eq]
  split
  · exact h
  · exact tryConnect_NC id (fun _ h => h) _ _ _ h

theorem afterFail_NC (st : St) (h : NC st) : NC (afterFail st) := by
  simp only [afterFail]
  split
  · exact h
  · exact onTimeout_NC st h

theorem start_no_connFailed (addrs : List Addr) (hne : addrs ≠ []) (ct : Bool) :
    Outcome.connFailed ∉ (start addrs ct).settles := by
  rw [start_eq]
  show Outcome.connFailed ∉ (tryConnect afterFail 0 (split addrs).1 (st0 addrs)).settles
  cases addrs with
  | nil => exact absurd rfl hne
  | cons a l =>
    have hp : (split (a :: l)).1 = a :: l.filter (fun x => x.fam == a.fam) := by
      simp [split, List.filter]
    rw [hp, tryConnect_cons _ _ _ _ _ (show (st0 (a :: l)).settles = [] from rfl)]
    cases hsy : a.sync with
    | false => simp [opened, st0]
    | true =>
      simp only [if_true]
      refine (afterFail_NC _ (tryConnect_NC afterFail afterFail_NC _ _ _ ⟨?_, ?_⟩)).1
      · simp [opened, st0]
      · simp [opened, hsy]

/-! ### clause 2: the first delivered success wins -/

/-- forward frame: a completed connect future keeps its value, and an undelivered completed stream stays
undelivered — under everything the connector does except marking that very stream delivered -/
def FwdL (l l' : List Stream) : Prop :=
  ∀ (u : Nat) (x : Stream), l[u]? = some x → x.fut ≠ .pending →
    ∃ y, l'[u]? = some y ∧ y.fut = x.fut ∧ (x.delivered = false → y.delivered = false)

theorem FwdL.refl (l : List Stream) : FwdL l l := fun _ x h _ => ⟨x, h, rfl, id⟩

theorem FwdL.trans {a b c : List Stream} (h1 : FwdL a b) (h2 : FwdL b c) : FwdL a c := by
  intro u x hx hp
  obtain ⟨y, hy, hyf, hyd⟩ := h1 u x hx hp
  obtain ⟨z, hz, hzf, hzd⟩ := h2 u y hy (by rw [hyf]; exact hp)
  exact ⟨z, hz, hzf.trans hyf, fun h => hzd (hyd h)⟩

theorem fwdL_modifyNth (f : Stream → Stream)
    (hf : ∀ y, y.fut ≠ .pending → (f y).fut = y.fut ∧ (y.delivered = false → (f y).delivered = false))
    (l : List Stream) (s : Nat) : FwdL l (modifyNth f l s) := by
  intro u x hx hp
  by_cases e : u = s
  · subst e
    exact ⟨f x, by rw [getElem?_modifyNth, hx]; rfl, (hf x hp).1, (hf x hp).2⟩
  · exact ⟨x, by rw [getElem?_modifyNth_ne _ _ _ _ e]; exact hx, rfl, id⟩

theorem fwdL_append (l : List Stream) (n : Stream) : FwdL l (l ++ [n]) := by
  intro u x hx _
  exact ⟨x, by rw [List.getElem?_append_left (lt_length_of_getElem? hx)]; exact hx, rfl, id⟩

@[reducible] def Fwd (st st' : St) : Prop := FwdL st.streams st'.streams

theorem closeStream_fwd (st : St) (s : Nat) : Fwd st (closeStream st s) := by
  rw [closeStream_eq]
  refine fwdL_modifyNth gClose (fun y hp => ?_) _ _
  have hb : (y.fut == Fut.pending) = false := by simpa using hp
  simp [gClose, hb]

theorem foldl_closeStream_fwd (L : List Nat) : ∀ st : St, Fwd st (L.foldl closeStream st) := by
  induction L with
  | nil => intro st; exact FwdL.refl _
  | cons s L ih => intro st; exact FwdL.trans (closeStream_fwd st s) (ih _)

theorem tryConnect_fwd (k : St → St) (hk : ∀ st, Fwd st (k st)) (it : Nat) :
    ∀ (as : List Addr) (st : St), Fwd st (tryConnect k it as st) := by
  intro as
  induction as with
  | nil =>
    intro st
    simp only [tryConnect]
    split <;> exact FwdL.refl _
  | cons a rest ih =>
    intro st
    have hap : ∀ f : Fut, FwdL st.streams (st.streams ++ [⟨a, it, f, a.sync, a.sync, 0⟩]) :=
      fun f => fwdL_append _ _
    simp only [tryConnect]
    split
    · split
      · exact hap _
      · refine FwdL.trans ?_ (hk _)
        refine FwdL.trans ?_ (ih _)
        exact hap _
    · exact hap _

theorem onTimeout_fwd (st : St) : Fwd st (onTimeout st) := by
  rw [onTimeout_eq]
  split
  · exact FwdL.refl _
  · exact tryConnect_fwd id (fun _ => FwdL.refl _) _ _ (secStart st)

theorem afterFail_fwd (st : St) : Fwd st (afterFail st) := by
  simp only [afterFail]
  split
  · exact FwdL.refl _
  · exact onTimeout_fwd st

theorem deliverErr_fwd_marked (st : St) (s : Nat) (x : Stream) (hx : st.streams[s]? = some x) :
    Fwd (marked st s) (deliverErr st s) := by
  rw [deliverErr_eq st s x hx]
  split
  · exact FwdL.refl _
  · exact FwdL.trans
      (tryConnect_fwd afterFail afterFail_fwd _ _ { marked st s with lastError := some s })
      (afterFail_fwd _)

theorem deliverOk_fwd_marked (st : St) (s : Nat) (x : Stream) (hx : st.streams[s]? = some x) :
    Fwd (marked st s) (deliverOk st s) := by
  rw [deliverOk_eq st s x hx]
  split
  · exact closeStream_fwd (clearTimeouts (marked st s)) s
  · exact foldl_closeStream_fwd _ (won st s x.addr.idx)

/-- delivering another stream's completion leaves a completed stream `u` as it is -/
theorem deliver_fwd (st : St) (c : Compl) (u : Nat) (xu : Stream) (hne : c.stream ≠ u)
    (hu : st.streams[u]? = some xu) (hp : xu.fut ≠ .pending) :
    ∃ y, (deliver st c).streams[u]? = some y ∧ y.fut = xu.fut ∧ (xu.delivered = false → y.delivered = false) := by
  have hmk : ∀ s, s ≠ u → (marked st s).streams[u]? = some xu := by
    intro s hs
    show (modifyNth gDeliv st.streams s)[u]? = _
    rw [getElem?_modifyNth_ne _ _ _ _ (fun e => hs e.symm)]; exact hu
  unfold deliver
  cases hx : st.streams[c.stream]? with
  | none => exact ⟨xu, hu, rfl, id⟩
  | some x =>
    simp only []
    cases hd : x.delivered with
    | true => rw [if_pos rfl]; exact ⟨xu, hu, rfl, id⟩
    | false =>
      simp only [Bool.false_eq_true, if_false]
      cases c with
      | succ s =>
        cases hf : x.fut with
        | ok => exact deliverOk_fwd_marked st s x hx u xu (hmk s hne) hp
        | pending => exact ⟨xu, hu, rfl, id⟩
        | err => exact ⟨xu, hu, rfl, id⟩
      | fail s =>
        cases hf : x.fut with
        | err => exact deliverErr_fwd_marked st s x hx u xu (hmk s hne) hp
        | pending => exact ⟨xu, hu, rfl, id⟩
        | ok => exact ⟨xu, hu, rfl, id⟩

/-! #### the completion phase -/

theorem complete_at_ne (st : St) (c : Compl) (u : Nat) (hne : c.stream ≠ u) :
    (complete st c).streams[u]? = st.streams[u]? := by
  rcases complete_cases st c with e | ⟨x, f, _, _, _, e⟩
  · rw [e]
  · rw [e]
    exact getElem?_modifyNth_ne _ _ _ _ (fun h => hne h.symm)

theorem complete_nonpending (st : St) (c : Compl) (u : Nat) (x : Stream) (hx : st.streams[u]? = some x)
    (hp : x.fut ≠ .pending) : (complete st c).streams[u]? = some x := by
  by_cases e : c.stream = u
  · rcases complete_cases st c with e' | ⟨x', f, hx', hp', _, _⟩
    · rw [e']; exact hx
    · rw [e, hx] at hx'
      cases hx'
      exact absurd hp' hp
  · rw [complete_at_ne st c u e]; exact hx

theorem foldl_complete_at_ne (cs : List Compl) (u : Nat) : ∀ (st : St), (∀ c ∈ cs, c.stream ≠ u) →
    (cs.foldl complete st).streams[u]? = st.streams[u]? := by
  induction cs with
  | nil => intro st _; rfl
  | cons c cs ih =>
    intro st h
    simp only [List.foldl]
    rw [ih _ (fun c' hc' => h c' (List.mem_cons_of_mem _ hc')), complete_at_ne st c u (h c List.mem_cons_self)]

theorem foldl_complete_nonpending (cs : List Compl) (u : Nat) (x : Stream) : ∀ (st : St),
    st.streams[u]? = some x → x.fut ≠ .pending → (cs.foldl complete st).streams[u]? = some x := by
  induction cs with
  | nil => intro st h _; exact h
  | cons c cs ih => intro st h hp; exact ih _ (complete_nonpending st c u x h hp) hp

theorem complete_succ (st : St) (s : Nat) (x : Stream) (hx : st.streams[s]? = some x) (hp : x.fut = .pending) :
    (complete st (.succ s)).streams[s]? = some { x with fut := .ok } := by
  have : complete st (.succ s) = updStream st s (fun x => { x with fut := .ok }) := by
    simp [complete, Compl.stream, hx, inflight, hp]
  rw [this]
  show (modifyNth _ st.streams s)[s]? = _
  rw [getElem?_modifyNth, hx]; rfl

theorem complete_back (st : St) (c : Compl) (u : Nat) (y : Stream) (hy : (complete st c).streams[u]? = some y) :
    ∃ x, st.streams[u]? = some x ∧ x.delivered = y.delivered ∧ (x.fut = y.fut ∨ x.fut = .pending) := by
  rcases complete_cases st c with e | ⟨x, f, hx, hp, hf, e⟩
  · rw [e] at hy; exact ⟨y, hy, rfl, Or.inl rfl⟩
  · rw [e] at hy
    by_cases eu : u = c.stream
    · subst eu
      have hy' : (modifyNth f st.streams c.stream)[c.stream]? = some y := hy
      rw [getElem?_modifyNth, hx] at hy'
      simp only [Option.map_some, Option.some.injEq] at hy'
      subst hy'
      refine ⟨x, hx, ?_, Or.inr hp⟩
      rcases hf with rfl | rfl <;> rfl
    · have hy' : (modifyNth f st.streams c.stream)[u]? = some y := hy
      rw [getElem?_modifyNth_ne _ _ _ _ eu] at hy'
      exact ⟨y, hy', rfl, Or.inl rfl⟩

theorem foldl_complete_back (cs : List Compl) (u : Nat) : ∀ (st : St) (y : Stream),
    (cs.foldl complete st).streams[u]? = some y →
    ∃ x, st.streams[u]? = some x ∧ x.delivered = y.delivered ∧ (x.fut = y.fut ∨ x.fut = .pending) := by
  induction cs with
  | nil => intro st y hy; exact ⟨y, hy, rfl, Or.inl rfl⟩
  | cons c cs ih =>
    intro st y hy
    obtain ⟨x1, h1, hd1, hf1⟩ := ih _ y hy
    obtain ⟨x0, h0, hd0, hf0⟩ := complete_back st c u x1 h1
    refine ⟨x0, h0, hd0.trans hd1, ?_⟩
    rcases hf0 with hf0 | hf0
    · rcases hf1 with hf1 | hf1
      · exact Or.inl (hf0.trans hf1)
      · exact Or.inr (hf0.trans hf1)
    · exact Or.inr hf0

/-- the oracle's "delivered success": a `succ s` whose stream is in flight before the event -/
def good (p : Snap) (c : Compl) : Bool :=
  match c with
  | .succ s => inflightIn p s
  | .fail _ => false

theorem firstSuccess_batch (p : Snap) (cs : List Compl) :
    Spec.firstSuccess p (.batch cs) = (cs.find? (good p)).map Compl.stream := rfl

theorem inflightIn_snap (st : St) (s : Nat) :
    Spec.inflightIn (Spec.snapOf st) s = true ↔ ∃ x, st.streams[s]? = some x ∧ x.fut = .pending := by
  simp only [Spec.inflightIn, Spec.snapOf, List.getElem?_map]
  cases h : st.streams[s]? with
  | none => simp
  | some x => simp

/-- a stream that is completed-with-success and undelivered during the delivery phase was in flight before the
event (so its `succ` is a delivered success in the oracle's sense) -/
theorem okundel_inflight {st : St} (hq : Q1 st) (cs : List Compl) {σ : St}
    (hb : FrameL (cs.foldl complete st).streams σ.streams) (u : Nat) (y : Stream)
    (hy : σ.streams[u]? = some y) (hd : y.delivered = false) (hf : y.fut = .ok) :
    Spec.inflightIn (Spec.snapOf st) u = true := by
  obtain ⟨x1, h1, hd1, hf1⟩ := hb.1 u y hy hd (by rw [hf]; decide)
  obtain ⟨x0, h0, hd0, hf0⟩ := foldl_complete_back cs u st x1 h1
  have hund : x0.delivered = false := hd0.trans hd1
  have := hq x0 (List.mem_of_getElem? h0) hund
  exact (inflightIn_snap st u).mpr ⟨x0, h0, this⟩

def NoOk (st : St) : Prop := ∀ a w, Outcome.ok a w ∉ st.settles

theorem ext_noOk {st st' : St} (h : Ext isFail st st') (hn : NoOk st) : NoOk st' := by
  rcases h with h | ⟨_, o, h1, h2⟩
  · intro a w; rw [h]; exact hn a w
  · intro a w hm
    rw [h1] at hm
    simp only [List.mem_singleton] at hm
    subst hm
    cases h2

/-- delivering a completion that is not a delivered success never produces a result -/
theorem deliver_noOk {st : St} (hq : Q1 st) (cs : List Compl) {σ : St}
    (hb : FrameL (cs.foldl complete st).streams σ.streams) (c : Compl)
    (hg : good (Spec.snapOf st) c = false) (hn : NoOk σ) : NoOk (deliver σ c) := by
  unfold deliver
  cases hx : σ.streams[c.stream]? with
  | none => exact hn
  | some x =>
    simp only []
    cases hd : x.delivered with
    | true => rw [if_pos rfl]; exact hn
    | false =>
      simp only [Bool.false_eq_true, if_false]
      cases c with
      | succ s =>
        cases hf : x.fut with
        | ok =>
          have := okundel_inflight hq cs hb s x hx hd hf
          simp only [good] at hg
          rw [this] at hg
          cases hg
        | pending => exact hn
        | err => exact hn
      | fail s =>
        cases hf : x.fut with
        | err => exact ext_noOk (deliverErr_ext σ s) hn
        | pending => exact hn
        | ok => exact hn

theorem foldl_deliver_noOk {st : St} (hq : Q1 st) (cs : List Compl) : ∀ (ds : List Compl) (σ : St),
    FrameL (cs.foldl complete st).streams σ.streams → (∀ c ∈ ds, good (Spec.snapOf st) c = false) →
    NoOk σ → NoOk (ds.foldl deliver σ) := by
  intro ds
  induction ds with
  | nil => intro σ _ _ h; exact h
  | cons c ds ih =>
    intro σ hb hg hn
    simp only [List.foldl]
    exact ih _ (FrameL.trans hb (deliver_frame σ c)) (fun c' hc' => hg c' (List.mem_cons_of_mem _ hc'))
      (deliver_noOk hq cs hb c (hg c List.mem_cons_self) hn)

/-- while the first delivered success `s` waits for its callback, earlier completions of the batch neither
complete the future nor touch `s` -/
structure Mid (addrs : List Addr) (st1 : St) (s : Nat) (σ : St) : Prop where
  inv : Inv addrs σ
  frame : FrameL st1.streams σ.streams
  pend : σ.settles = []
  strm : ∃ xs, σ.streams[s]? = some xs ∧ xs.fut = .ok ∧ xs.delivered = false

theorem deliver_mid {addrs} {st : St} (hq : Q1 st) (cs : List Compl) (s : Nat) {σ : St}
    (hm : Mid addrs (cs.foldl complete st) s σ) (c : Compl) (hg : good (Spec.snapOf st) c = false)
    (hne : c.stream ≠ s) : Mid addrs (cs.foldl complete st) s (deliver σ c) := by
  obtain ⟨xs, hxs, hxf, hxd⟩ := hm.strm
  obtain ⟨y, hy, hyf, hyd⟩ := deliver_fwd σ c s xs hne hxs (by rw [hxf]; decide)
  have hinv' := deliver_inv hm.inv c
  refine ⟨hinv', FrameL.trans hm.frame (deliver_frame σ c), ?_, ⟨y, hy, hyf.trans hxf, hyd hxd⟩⟩
  -- the settle log stays empty
  have hext : Ext (fromCompl c) σ (deliver σ c) := deliver_ext σ c
  rcases hext with h | ⟨_, o, h1, h2⟩
  · rw [h]; exact hm.pend
  · exfalso
    rcases h2 with h2 | ⟨a, s', _, ho⟩
    · -- a failure outcome would mean every stream failed, but `s` succeeded
      have := (hinv'.sett.sfl o h1 h2).2 y (List.mem_of_getElem? hy)
      rw [hyf.trans hxf] at this
      cases this
    · -- a result would mean `c` is a delivered success
      have hno : NoOk σ := by intro a w hmem; rw [hm.pend] at hmem; cases hmem
      have := deliver_noOk hq cs hm.frame c hg hno a s'
      rw [h1, ho] at this
      exact this List.mem_cons_self

theorem foldl_deliver_mid {addrs} {st : St} (hq : Q1 st) (cs : List Compl) (s : Nat) :
    ∀ (pre : List Compl) (σ : St), Mid addrs (cs.foldl complete st) s σ →
      (∀ c ∈ pre, good (Spec.snapOf st) c = false) → (∀ c ∈ pre, c.stream ≠ s) →
      Mid addrs (cs.foldl complete st) s (pre.foldl deliver σ) := by
  intro pre
  induction pre with
  | nil => intro σ h _ _; exact h
  | cons c pre ih =>
    intro σ h hg hne
    simp only [List.foldl]
    exact ih _ (deliver_mid hq cs s h c (hg c List.mem_cons_self) (hne c List.mem_cons_self))
      (fun c' hc' => hg c' (List.mem_cons_of_mem _ hc')) (fun c' hc' => hne c' (List.mem_cons_of_mem _ hc'))

/-- side condition on a batch: no stream is reported failed and, later in the same batch, succeeded
(a connect future completes once) -/
def noFailThenSucc : List Compl → Bool
  | [] => true
  | .fail s :: cs => !cs.contains (.succ s) && noFailThenSucc cs
  | .succ _ :: cs => noFailThenSucc cs

theorem noFailThenSucc_pre (s : Nat) (post : List Compl) : ∀ pre : List Compl,
    noFailThenSucc (pre ++ .succ s :: post) = true → Compl.fail s ∉ pre := by
  intro pre
  induction pre with
  | nil => intro _ h; cases h
  | cons c pre ih =>
    intro h hm
    cases c with
    | succ s' =>
      simp only [List.cons_append, noFailThenSucc] at h
      rcases List.mem_cons.mp hm with e | e
      · cases e
      · exact ih h e
    | fail s' =>
      simp only [List.cons_append, noFailThenSucc, Bool.and_eq_true, Bool.not_eq_true',
        List.contains_eq_mem, decide_eq_false_iff_not] at h
      rcases List.mem_cons.mp hm with e | e
      · cases e
        exact h.1 (by simp)
      · exact ih h.2 e

theorem settles_of_done_foldl_deliver (ds : List Compl) (σ : St) (h : σ.settles ≠ []) :
    (ds.foldl deliver σ).settles = σ.settles := by
  rcases foldl_deliver_ext ds σ with h1 | ⟨h1, _⟩
  · exact h1
  · exact absurd h1 h

theorem deliverOk_wins (σ : St) (s : Nat) (x : Stream) (hx : σ.streams[s]? = some x) (h0 : σ.settles = []) :
    (deliverOk σ s).settles = [.ok x.addr.idx s] := by
  rw [deliverOk_eq σ s x hx]
  have hset : (marked σ s).settles = σ.settles := rfl
  split
  · rename_i hdone
    have : σ.settles ≠ [] := by simpa [St.done, hset] using hdone
    exact absurd h0 this
  · rw [closeStreams_settles]
    show σ.settles ++ _ = _
    rw [h0]; rfl

/-- **clause 2 for a batch** -/
theorem clause2_batch {addrs st} (h : Inv addrs st) (hq : Q1 st) (hs : st.settles = []) (cs : List Compl)
    (hwf : noFailThenSucc cs = true) :
    Spec.clause2 (Spec.snapOf st) (.batch cs) (Spec.snapOf (step st (.batch cs))) = true := by
  have hemp : (Spec.snapOf st).outcome.isEmpty = true := by simp [Spec.snapOf, hs]
  have hst1inv : Inv addrs (cs.foldl complete st) := foldl_complete_inv cs h
  have hst1s : (cs.foldl complete st).settles = [] := by rw [foldl_complete_settles]; exact hs
  simp only [Spec.clause2, hemp, if_true, firstSuccess_batch]
  cases hfind : cs.find? (good (Spec.snapOf st)) with
  | none =>
    simp only [Option.map_none]
    have hall : ∀ c ∈ cs, good (Spec.snapOf st) c = false := by
      intro c hc
      have := List.find?_eq_none.mp hfind c hc
      simpa using this
    have hno : NoOk (cs.foldl complete st) := by intro a w hm; rw [hst1s] at hm; cases hm
    have := foldl_deliver_noOk hq cs cs _ (FrameL.refl _) hall hno
    simp only [List.all_eq_true]
    intro o ho
    have ho' : o ∈ (step st (.batch cs)).settles := ho
    cases o with
    | ok a w => exact absurd ho' (this a w)
    | timeout => rfl
    | lastError _ => rfl
    | connFailed => rfl
  | some c0 =>
    obtain ⟨hg0, pre, post, hcs, hpre⟩ := List.find?_eq_some_iff_append.mp hfind
    cases c0 with
    | fail s => simp [good] at hg0
    | succ s =>
      simp only [Option.map_some, Compl.stream]
      have hinfl : Spec.inflightIn (Spec.snapOf st) s = true := by simpa [good] using hg0
      obtain ⟨x, hx, hxp⟩ := (inflightIn_snap st s).mp hinfl
      have hxd : x.delivered = false := h.core.pend x (List.mem_of_getElem? hx) hxp
      have hpre_g : ∀ c ∈ pre, good (Spec.snapOf st) c = false := by
        intro c hc; simpa using hpre c hc
      have hpre_ne : ∀ c ∈ pre, c.stream ≠ s := by
        intro c hc e
        cases c with
        | succ s' =>
          simp only [Compl.stream] at e
          subst e
          have := hpre_g _ hc
          simp only [good] at this
          rw [hinfl] at this
          cases this
        | fail s' =>
          simp only [Compl.stream] at e
          subst e
          exact noFailThenSucc_pre s' post pre (hcs ▸ hwf) hc
      -- after the completion phase `s` holds a result and is undelivered
      have hs1 : (cs.foldl complete st).streams[s]? = some { x with fut := .ok } := by
        rw [hcs, List.foldl_append, List.foldl_cons]
        apply foldl_complete_nonpending
        · apply complete_succ
          · rw [foldl_complete_at_ne pre s st hpre_ne]; exact hx
          · exact hxp
        · simp
      have hmid0 : Mid addrs (cs.foldl complete st) s (cs.foldl complete st) :=
        ⟨hst1inv, FrameL.refl _, hst1s, ⟨_, hs1, rfl, hxd⟩⟩
      have hmid := foldl_deliver_mid hq cs s pre _ hmid0 hpre_g hpre_ne
      obtain ⟨xs, hxs, hxf, hxd'⟩ := hmid.strm
      have hstep : (step st (.batch cs)).settles = [.ok xs.addr.idx s] := by
        show (cs.foldl deliver (cs.foldl complete st)).settles = _
        conv => lhs; rw [hcs, List.foldl_append, List.foldl_cons]
        have hdel : deliver (pre.foldl deliver (cs.foldl complete st)) (.succ s)
            = deliverOk (pre.foldl deliver (cs.foldl complete st)) s := by
          simp [deliver, Compl.stream, hxs, hxd', hxf]
        have hwin := deliverOk_wins _ s xs hxs hmid.pend
        rw [← hcs, hdel, settles_of_done_foldl_deliver _ _ (by rw [hwin]; simp), hwin]
      obtain ⟨x', hx', ha, _⟩ := (step_inv h (.batch cs)).sett.sok _ _ hstep
      have hsnap : (Spec.snapOf (step st (.batch cs))).streams[s]?
          = some ⟨x'.addr.idx, x'.fut, x'.closed⟩ := by
        simp [Spec.snapOf, List.getElem?_map, hx']
      rw [hsnap]
      simp only []
      have hout : (Spec.snapOf (step st (.batch cs))).outcome = [.ok xs.addr.idx s] := hstep
      rw [hout, ha]
      simp

/-! ### assembling the checker -/

/-- well-formed schedule: no batch reports a stream failed and later, in the same batch, succeeded -/
def wfEvent : Event → Bool
  | .batch cs => noFailThenSucc cs
  | _ => true

def wfEvents (evs : List Event) : Bool := evs.all wfEvent

/-- everything known about a state at quiescence -/
structure Reach (addrs : List Addr) (st : St) : Prop where
  inv : Inv addrs st
  q1 : Q1 st
  post : PostQ true st
  le1 : st.settles.length ≤ 1

theorem Reach.step {addrs st} (h : Reach addrs st) (e : Event) : Reach addrs (step st e) :=
  ⟨step_inv h.inv e, step_Q1 h.q1 e, step_post h.inv h.post e, by
    rcases step_ext st e with h1 | ⟨_, o, h2, _⟩
    · rw [h1]; exact h.le1
    · rw [h2]; simp⟩

theorem Reach.start (addrs : List Addr) (ct : Bool) : Reach addrs (start addrs ct) :=
  ⟨start_inv addrs ct, start_Q1 addrs ct, start_post addrs ct, by
    rcases start_settles addrs ct with h | ⟨o, h, _⟩ <;> simp [h]⟩

theorem static_of {addrs st} (h : Reach addrs st) (hnd : (addrs.map (·.idx)).Nodup) :
    Spec.static addrs (Spec.snapOf st) = 0 := by
  simp [Spec.static, clause4_of_inv h.inv h.le1, clause5_of_core h.inv.core hnd,
    clause6_of h.inv h.q1 h.post, clause7_of h.inv.core hnd, clause8_of h.inv hnd h.q1 h.post]

theorem clause2_of {addrs st} (h : Reach addrs st) (e : Event) (hwf : wfEvent e = true) :
    Spec.clause2 (Spec.snapOf st) e (Spec.snapOf (step st e)) = true := by
  by_cases hs : st.settles = []
  · have hemp : (Spec.snapOf st).outcome.isEmpty = true := by simp [Spec.snapOf, hs]
    have hnook : ∀ e', (e' = Event.tick ∨ e' = Event.ctick) →
        (Spec.snapOf (step st e')).outcome.all (fun o => match o with | .ok _ _ => false | _ => true) = true := by
      intro e' he'
      simp only [List.all_eq_true]
      intro o ho
      have ho' : o ∈ (step st e').settles := ho
      rcases step_ext st e' with h1 | ⟨_, o', h2, h3⟩
      · rw [h1, hs] at ho'; cases ho'
      · rw [h2] at ho'
        simp only [List.mem_singleton] at ho'
        subst ho'
        rcases he' with rfl | rfl
        · cases o <;> first | rfl | (simp [isFail, kindOf] at h3)
        · cases o <;> first | rfl | (simp [isTimeout, kindOf] at h3)
    cases e with
    | batch cs => exact clause2_batch h.inv h.q1 hs cs hwf
    | tick =>
      simp only [Spec.clause2, hemp, if_true, Spec.firstSuccess]
      exact hnook _ (Or.inl rfl)
    | ctick =>
      simp only [Spec.clause2, hemp, if_true, Spec.firstSuccess]
      exact hnook _ (Or.inr rfl)
  · have hemp : (Spec.snapOf st).outcome.isEmpty = false := by
      simp only [Spec.snapOf]
      cases hst : st.settles with
      | nil => exact absurd hst hs
      | cons _ _ => rfl
    simp [Spec.clause2, hemp]

theorem stepCheck_of {addrs st} (h : Reach addrs st) (hnd : (addrs.map (·.idx)).Nodup) (e : Event)
    (hwf : wfEvent e = true) :
    Spec.stepCheck addrs (Spec.snapOf st) e (Spec.snapOf (step st e)) = 0 := by
  simp [Spec.stepCheck, clause1_of st e h.le1, clause2_of h e hwf, clause3_of e (h.step e).inv hnd,
    static_of (h.step e) hnd]

theorem checkFrom_of {addrs} (hnd : (addrs.map (·.idx)).Nodup) : ∀ (evs : List Event) (st : St),
    Reach addrs st → wfEvents evs = true →
    Spec.checkFrom addrs (Spec.snapOf st) evs ((trace st evs).map Spec.snapOf) = 0 := by
  intro evs
  induction evs with
  | nil => intro st _ _; rfl
  | cons e es ih =>
    intro st h hwf
    simp only [wfEvents, List.all_cons, Bool.and_eq_true] at hwf
    simp only [trace, List.map_cons, Spec.checkFrom, stepCheck_of h hnd e hwf.1]
    exact ih _ (h.step e) hwf.2

theorem first_ok {addrs} (hne : addrs ≠ []) (hnd : (addrs.map (·.idx)).Nodup) (ct : Bool) :
    ∀ o ∈ (Spec.snapOf (start addrs ct)).outcome, ∃ s, o = .lastError s ∧
      ((Spec.snapOf (start addrs ct)).streams.all (fun x => x.fut == .err)
        && Spec.allAddrsFailed addrs (Spec.snapOf (start addrs ct))) = true := by
  intro o ho
  have ho' : o ∈ (start addrs ct).settles := ho
  rcases start_settles addrs ct with h | ⟨o', h, hk⟩
  · rw [h] at ho'; cases ho'
  · rw [h] at ho'
    simp only [List.mem_singleton] at ho'
    subst ho'
    cases o with
    | ok a w => cases hk
    | timeout => cases hk
    | lastError s => exact ⟨s, rfl, allFailed_of_sfl (start_inv addrs ct) hnd _ h rfl⟩
    | connFailed =>
      exfalso
      exact start_no_connFailed addrs hne ct (by rw [h]; exact List.mem_cons_self)

theorem check_eq (addrs : List Addr) (events : List Event) (s0 : Snap) (rest : List Snap)
    (h1 : ¬ s0.outcome.length > 1)
    (hall : ∀ o ∈ s0.outcome, ∃ s, o = .lastError s ∧
      (s0.streams.all (fun x => x.fut == .err) && Spec.allAddrsFailed addrs s0) = true)
    (hst : Spec.static addrs s0 = 0) :
    Spec.check addrs events (s0 :: rest) = Spec.checkFrom addrs s0 events rest := by
  simp only [Spec.check, h1, if_false]
  rw [if_neg]
  · rw [hst]; rfl
  · simp only [Bool.not_eq_true', Bool.not_eq_false, List.all_eq_true]
    intro o ho
    obtain ⟨s, rfl, hc⟩ := hall o ho
    exact hc

/-- the whole checker accepts every run of the model on a well-formed schedule -/
theorem check_of {addrs} (hne : addrs ≠ []) (hnd : (addrs.map (·.idx)).Nodup) (ct : Bool) (evs : List Event)
    (hwf : wfEvents evs = true) :
    Spec.check addrs evs ((start addrs ct :: trace (start addrs ct) evs).map Spec.snapOf) = 0 := by
  have hr := Reach.start addrs ct
  have hle : ¬ (Spec.snapOf (start addrs ct)).outcome.length > 1 := by
    have := hr.le1
    show ¬ (start addrs ct).settles.length > 1
    omega
  rw [List.map_cons, check_eq addrs evs _ _ hle (first_ok hne hnd ct) (static_of hr hnd)]
  exact checkFrom_of hnd evs _ hr hwf

end TornadoModel.C10
