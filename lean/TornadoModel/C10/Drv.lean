/- C10 driver:
   `C10 run [[fam,sync,name],…] <ct:T|F> [event,…]` → `ok [snap,…]`   (state after start() and after each event)
   `C10 spec [[fam,sync,name],…] [event,…] [obs,…]` → `ok <n>`         (0 = the observed run satisfies the property)
   sync ::= F (connect returns a pending future) | T (an already-failed future) | R (the connect call raises)
   (fam,name) = the socket address of the entry: entries may repeat an address; `addr` below = entry position
   event ::= [b,[[s,id],[f,id],…]] | [t] | [c]
   snap  ::= [[outcome,…],remaining,timerNone,timerLive,ctimerLive,[[addr,fut,closed,closes],…],[inSet…]]
             (one [addr,fut,closed,closes] per connect CALL, a call that raised included: E, closed, 0 closes)
   obs   ::= [[outcome,…],timerLive,ctimerLive,[[addr,fut,closed],…]]
   outcome ::= [ok,addr,stream] | [timeout] | [last,stream] | [connfailed]      fut ::= P | K | E
-/
import TornadoModel.Base.Wire
import TornadoModel.C10.Spec
namespace TornadoModel.C10.Drv
open TornadoModel TornadoModel.Wire TornadoModel.C10

def decAddrs (v : V) : Option (List Addr) := do
  let l ← v.list?
  let ps ← l.mapM (fun x => do
    match (← x.list?) with
    | [f, .atom "R", n] => pure ((← f.nat?), (← n.nat?), 2)
    | [f, s, n] => pure ((← f.nat?), (← n.nat?), if (← s.bool?) then 1 else 0)
    | _ => none)
  pure (mkNamedR ps)

def decCompl (v : V) : Option Compl := do
  match (← v.list?) with
  | [.atom "s", i] => pure (.succ (← i.nat?))
  | [.atom "f", i] => pure (.fail (← i.nat?))
  | _ => none

def decEvent (v : V) : Option Event := do
  match (← v.list?) with
  | [.atom "b", cs] => pure (.batch (← (← cs.list?).mapM decCompl))
  | [.atom "t"] => pure .tick
  | [.atom "c"] => pure .ctick
  | _ => none

def encFut : Fut → V
  | .pending => .atom "P"
  | .ok => .atom "K"
  | .err => .atom "E"

def decFut (v : V) : Option Fut :=
  match v with
  | .atom "P" => some .pending
  | .atom "K" => some .ok
  | .atom "E" => some .err
  | _ => none

def encOutcome : Outcome → V
  | .ok a s => .list [.atom "ok", .int a, .int s]
  | .timeout => .list [.atom "timeout"]
  | .lastError s => .list [.atom "last", .int s]
  | .connFailed => .list [.atom "connfailed"]

def decOutcome (v : V) : Option Outcome := do
  match (← v.list?) with
  | [.atom "ok", a, s] => pure (.ok (← a.nat?) (← s.nat?))
  | [.atom "timeout"] => pure .timeout
  | [.atom "last", s] => pure (.lastError (← s.nat?))
  | [.atom "connfailed"] => pure .connFailed
  | _ => none

def insertSorted (x : Nat) : List Nat → List Nat
  | [] => [x]
  | y :: ys => if x ≤ y then x :: y :: ys else y :: insertSorted x ys
def sortNat (l : List Nat) : List Nat := l.foldr insertSorted []

def encSnap (st : St) : V :=
  .list [.list (st.settles.map encOutcome), .int st.remaining, V.ofBool (st.timer == .none),
         V.ofBool (st.timer == .live), V.ofBool (st.ctimer == .live),
         .list (st.streams.map (fun x => .list [.int x.addr.idx, encFut x.fut, V.ofBool x.closed, .int x.closes])),
         .list ((sortNat st.inSet).map (fun i => V.int (Int.ofNat i)))]

def decObs (v : V) : Option Spec.Snap := do
  match (← v.list?) with
  | [os, tl, cl, ss] =>
    let outs ← (← os.list?).mapM decOutcome
    let streams ← (← ss.list?).mapM (fun x => do
      match (← x.list?) with
      | [a, f, c] => pure (⟨← a.nat?, ← decFut f, ← c.bool?⟩ : Spec.SStream)
      | _ => none)
    pure ⟨outs, streams, ← tl.bool?, ← cl.bool?⟩
  | _ => none

def handle (toks : List String) : String :=
  match toks.mapM V.parse with
  | none => err "bad-arg"
  | some args =>
    match toks.head?, args.drop 1 with
    | some "run", [a, ct, evs] =>
      match decAddrs a, ct.bool?, evs.list? >>= (·.mapM decEvent) with
      | some addrs, some ct, some evs =>
        let st0 := start addrs ct
        ok [.list ((st0 :: trace st0 evs).map encSnap)]
      | _, _, _ => err "bad-op"
    | some "spec", [a, evs, obs] =>
      match decAddrs a, evs.list? >>= (·.mapM decEvent), obs.list? >>= (·.mapM decObs) with
      | some addrs, some evs, some obs => ok [.int (Spec.check addrs evs obs)]
      | _, _, _ => err "bad-op"
    | _, _ => err "bad-cmd"

end TornadoModel.C10.Drv
