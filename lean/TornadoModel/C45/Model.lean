/-
C45 — model of `tornado.log.LogFormatter.format` with the default format string (core Lean only).

Anchors: tornado/log.py `LogFormatter.format`, `_safe_unicode`, `LogFormatter.__init__` (colour table,
hard-coded ANSI branch), `DEFAULT_FORMAT`.

Text is a list of code points.  Everything the formatter delegates to the stdlib or to user objects is
an input of the model, and the calls that run user code MAY RAISE: the outcome of `record.getMessage()`
(a `str`, a non-`str`, or an exception), of `repr(e)` for that exception and of `repr(record.__dict__)`
(each a `str` or an exception — an argument's `__repr__` is user code).  `formatTime`, `formatException`
are total stdlib inputs.  Exceptions carry their class name and whether the class derives from
`Exception` (`except Exception` does not catch `KeyboardInterrupt`/`SystemExit`/other `BaseException`s).

`format` models the code AFTER the two `fix:` commits of known_findings/C45.json (`_safe_repr` in the
"Bad message" fallback; a bytes `exc_text` is split on `b"\n"`); `formatUnfixed` models the code before
them (the fallback's `repr`s unprotected, `bytes.split("\n")` → `TypeError`).
-/
namespace TornadoModel.C45

abbrev Str := List Nat

def cLf : Nat := 10
def cSp : Nat := 32

/-- decimal digits of a natural number (`"%d"`). -/
def natDigits (n : Nat) : Str :=
  if n < 10 then [48 + n] else natDigits (n / 10) ++ [48 + n % 10]
termination_by n
decreasing_by omega

def intStr : Int → Str
  | .ofNat n => natDigits n
  | .negSucc n => 45 :: natDigits (n + 1)

/-- `str.isspace()` for one code point (CPython's `_PyUnicode_IsWhitespace` table). -/
def isPySpace (c : Nat) : Bool :=
  (9 ≤ c && c ≤ 13) || (28 ≤ c && c ≤ 32) || c == 0x85 || c == 0xA0 || c == 0x1680
    || (0x2000 ≤ c && c ≤ 0x200A) || c == 0x2028 || c == 0x2029 || c == 0x202F || c == 0x205F || c == 0x3000

/-- `s.rstrip()` -/
def rstrip (s : Str) : Str := (s.reverse.dropWhile isPySpace).reverse

/-- `s.split("\n")` -/
def splitNl : Str → List Str
  | [] => [[]]
  | c :: cs =>
    if c = cLf then [] :: splitNl cs
    else match splitNl cs with
      | [] => [[c]]          -- unreachable
      | w :: ws => (c :: w) :: ws

/-- `"\n".join(lines)` -/
def joinNl : List Str → Str
  | [] => []
  | [w] => w
  | w :: ws => w ++ cLf :: joinNl ws

/-- `s.replace("\n", "\n    ")` -/
def replaceNl : Str → Str
  | [] => []
  | c :: cs => if c = cLf then cLf :: cSp :: cSp :: cSp :: cSp :: replaceNl cs else c :: replaceNl cs

/-- a raised exception: class name, and whether the class derives from `Exception` -/
structure Exc where
  name : Str
  isExc : Bool
  deriving Repr, DecidableEq

/-- outcome of a call into user code that returns text (`repr(x)`): a `str`, or an exception -/
inductive Outcome where
  | ok (s : Str)
  | raised (e : Exc)
  deriving Repr

/-- outcome of `record.getMessage()` -/
inductive Msg where
  | ok (s : Str)                          -- a `str`
  | notStr                                -- a non-`str` (e.g. `bytes`): the `assert` raises `AssertionError()`
  | raised (e : Exc) (excRepr : Outcome)  -- raised `e`; `repr(e)` (evaluated only by the fallback) is given
  deriving Repr

/-- `record.exc_text` before the call (`None` is `.str []`: both are falsy) -/
inductive ExcText where
  | str (s : Str)
  | bytes (b : List Nat)
  deriving Repr

def ExcText.truthy : ExcText → Bool
  | .str s => !s.isEmpty
  | .bytes b => !b.isEmpty

structure Record where
  levelname : Str
  levelno : Int
  asctime : Str            -- `self.formatTime(record, self.datefmt)` (stdlib)
  module : Str
  lineno : Int
  msg : Msg
  dictRepr : Outcome       -- `repr(record.__dict__)` at the time of the call (runs the `__repr__` of msg/args)
  excInfo : Option Str     -- `self.formatException(record.exc_info)` when `record.exc_info` is truthy (stdlib)
  excText : ExcText
  deriving Repr

def lit (s : String) : Str := s.toList.map Char.toNat

def assertionError : Exc := ⟨lit "AssertionError", true⟩
def typeError : Exc := ⟨lit "TypeError", true⟩

/-- `try: body  except Exception as e: handler(e)` — anything that is not an `Exception` passes through -/
def tryExcept {α} (body : Except Exc α) (handler : Exc → Except Exc α) : Except Exc α :=
  match body with
  | .ok a => .ok a
  | .error e => if e.isExc then handler e else .error e

/-- a call into user code, as a computation that may raise -/
def Outcome.call : Outcome → Except Exc Str
  | .ok s => .ok s
  | .raised e => .error e

/-- `DEFAULT_COLORS` -/
def colorCode (levelno : Int) : Option Nat :=
  if levelno = 10 then some 4 else if levelno = 20 then some 2 else if levelno = 30 then some 3
  else if levelno = 40 then some 1 else if levelno = 50 then some 5 else none

/-- `record.color`, `record.end_color` for a formatter built with (`colorOn`) or without colour support
    (the hard-coded ANSI branch: `"\033[2;3%dm" % code`, `"\033[0m"`). -/
def colors (colorOn : Bool) (levelno : Int) : Str × Str :=
  match colorOn, colorCode levelno with
  | true, some code => ([27, 91, 50, 59, 51, 48 + code, 109], [27, 91, 48, 109])
  | _, _ => ([], [])

/-- `"%1.1s" % levelname` -/
def level1 (levelname : Str) : Str :=
  match levelname with
  | [] => [cSp]
  | c :: _ => [c]

/-- the body of the `try`: `message = record.getMessage(); assert isinstance(message, str)`;
    `_safe_unicode` is the identity on `str` -/
def getMessageChecked (r : Record) : Except Exc Str :=
  match r.msg with
  | .ok s => .ok s
  | .notStr => .error assertionError
  | .raised e _ => .error e

/-- `repr(e)` for the exception the `try` body raised -/
def excRepr (r : Record) : Outcome :=
  match r.msg with
  | .raised _ o => o
  | _ => .ok (lit "AssertionError()")

/-- `_safe_repr(obj)` (fix): `try: return repr(obj)  except Exception: return "<unprintable %s object>" % type(obj).__name__` -/
def safeRepr (o : Outcome) (typeName : Str) : Except Exc Str :=
  tryExcept o.call (fun _ => .ok (lit "<unprintable " ++ typeName ++ lit " object>"))

def badMessage (e d : Str) : Str := lit "Bad message (" ++ e ++ lit "): " ++ d

/-- `record.message` — the `try … except Exception as e` around `getMessage`, with the FIXED fallback
    `"Bad message (%s): %s" % (_safe_repr(e), _safe_repr(record.__dict__))` -/
def message (r : Record) : Except Exc Str :=
  tryExcept (getMessageChecked r) (fun e => do
    let a ← safeRepr (excRepr r) e.name
    let b ← safeRepr r.dictRepr (lit "dict")
    pure (badMessage a b))

/-- the same before the fix: `f"Bad message ({e!r}): {record.__dict__!r}"` evaluated unprotected in the handler -/
def messageUnfixed (r : Record) : Except Exc Str :=
  tryExcept (getMessageChecked r) (fun _ => do
    let a ← (excRepr r).call
    let b ← r.dictRepr.call
    pure (badMessage a b))

/-- `self._fmt % record.__dict__` for `DEFAULT_FORMAT`, up to the message -/
def header (colorOn : Bool) (r : Record) : Str :=
  let (color, endColor) := colors colorOn r.levelno
  color ++ [91] ++ level1 r.levelname ++ [cSp] ++ r.asctime ++ [cSp] ++ r.module ++ [58] ++ intStr r.lineno
    ++ [93] ++ endColor ++ [cSp]

/-- `record.exc_text` after `if record.exc_info: if not record.exc_text: record.exc_text = formatException(...)` -/
def effExcText (r : Record) : ExcText :=
  match r.excInfo with
  | some t => if r.excText.truthy then r.excText else .str t
  | none => r.excText

/-- strict UTF-8 decoding (`bytes.decode("utf-8")`) -/
def utf8Decode (b : List Nat) : Option Str :=
  if b.all (· < 256) then
    (String.fromUTF8? (ByteArray.mk (b.map UInt8.ofNat).toArray)).map (fun s => s.toList.map Char.toNat)
  else none

def hexDigit (n : Nat) : Nat := if n < 10 then 48 + n else 87 + n

/-- `repr(b)` of a `bytes` object (CPython `PyBytes_Repr`) -/
def bytesRepr (b : List Nat) : Str :=
  let q : Nat := if b.contains 39 && !b.contains 34 then 34 else 39
  [98, q] ++ b.flatMap (fun c =>
    if c = q ∨ c = 92 then [92, c] else if c = 9 then [92, 116] else if c = 10 then [92, 110]
    else if c = 13 then [92, 114] else if c < 32 ∨ 127 ≤ c then [92, 120, hexDigit (c / 16), hexDigit (c % 16)]
    else [c]) ++ [q]

/-- `_safe_unicode(ln)` for a `bytes` line: UTF-8, or `repr` on `UnicodeDecodeError` -/
def safeUnicodeBytes (b : List Nat) : Str :=
  match utf8Decode b with
  | some s => s
  | none => bytesRepr b

/-- `[_safe_unicode(ln) for ln in record.exc_text.split(sep)]` with the FIXED separator
    (`b"\n"` for bytes, `"\n"` otherwise); `_safe_unicode` is the identity on `str` -/
def excLines : ExcText → List Str
  | .str s => splitNl s
  | .bytes b => (splitNl b).map safeUnicodeBytes

/-- before the fix: `record.exc_text.split("\n")` on a `bytes` object raises `TypeError` -/
def excLinesUnfixed : ExcText → Except Exc (List Str)
  | .str s => .ok (splitNl s)
  | .bytes _ => .error typeError

/-- the string before the final `replace`, given `record.message` and the exception lines -/
def assembleWith (colorOn : Bool) (r : Record) (m : Str) (lines : Option (List Str)) : Str :=
  let formatted := header colorOn r ++ m
  match lines with
  | none => formatted
  | some ls => joinNl (rstrip formatted :: ls)

/-- the string before the final `replace` (fixed code), given `record.message` -/
def assembled (colorOn : Bool) (r : Record) (m : Str) : Str :=
  let exc := effExcText r
  assembleWith colorOn r m (if exc.truthy then some (excLines exc) else none)

/-- `LogFormatter.format(record)` after the fixes: every statement of the method, in order.  The calls that
    can raise are `getMessage()`/`assert` (inside the `try`) and the two `repr`s of the fallback (inside
    `_safe_repr`); only a non-`Exception` (`KeyboardInterrupt`, …) raised by user code gets out. -/
def format (colorOn : Bool) (r : Record) : Except Exc Str := do
  let m ← message r
  pure (replaceNl (assembled colorOn r m))

/-- `LogFormatter.format(record)` BEFORE the fixes (what /repo does). -/
def formatUnfixed (colorOn : Bool) (r : Record) : Except Exc Str := do
  let m ← messageUnfixed r
  let exc := effExcText r
  if exc.truthy then
    let ls ← excLinesUnfixed exc
    pure (replaceNl (assembleWith colorOn r m (some ls)))
  else
    pure (replaceNl (assembleWith colorOn r m none))

end TornadoModel.C45
