/-
C45 — model of `tornado.log.LogFormatter.format` with the default format string (core Lean only).

Anchors: tornado/log.py `LogFormatter.format`, `_safe_unicode`, `LogFormatter.__init__` (colour table,
hard-coded ANSI branch), `DEFAULT_FORMAT`.

Text is a list of code points.  Everything the formatter delegates to the stdlib is an input of
the model: the outcome of `record.getMessage()` (a `str`, or an exception whose `repr` is given),
`repr(record.__dict__)`, `formatTime`, `formatException`.  Under Python 3 `getMessage()` returns a
`str` or raises (a `bytes` result trips the `assert` → `AssertionError`, which is caught like any
other exception), so `_safe_unicode` is only ever applied to `str` and is the identity there.
-/
namespace TornadoModel.C45

abbrev Str := List Nat

def cLf : Nat := 10
def cSp : Nat := 32

/-- decimal digits of a natural number (`"%d"`). -/
def natDigits (n : Nat) : Str :=
  if n < 10 then [48 + n] else natDigits (n / 10) ++ [48 + n % 10]
termination_by n
decreasing_by omega

def intStr : Int → Str
  | .ofNat n => natDigits n
  | .negSucc n => 45 :: natDigits (n + 1)

/-- `str.isspace()` for one code point (CPython's `_PyUnicode_IsWhitespace` table). -/
def isPySpace (c : Nat) : Bool :=
  (9 ≤ c && c ≤ 13) || (28 ≤ c && c ≤ 32) || c == 0x85 || c == 0xA0 || c == 0x1680
    || (0x2000 ≤ c && c ≤ 0x200A) || c == 0x2028 || c == 0x2029 || c == 0x202F || c == 0x205F || c == 0x3000

/-- `s.rstrip()` -/
def rstrip (s : Str) : Str := (s.reverse.dropWhile isPySpace).reverse

/-- `s.split("\n")` -/
def splitNl : Str → List Str
  | [] => [[]]
  | c :: cs =>
    if c = cLf then [] :: splitNl cs
    else match splitNl cs with
      | [] => [[c]]          -- unreachable
      | w :: ws => (c :: w) :: ws

/-- `"\n".join(lines)` -/
def joinNl : List Str → Str
  | [] => []
  | [w] => w
  | w :: ws => w ++ cLf :: joinNl ws

/-- `s.replace("\n", "\n    ")` -/
def replaceNl : Str → Str
  | [] => []
  | c :: cs => if c = cLf then cLf :: cSp :: cSp :: cSp :: cSp :: replaceNl cs else c :: replaceNl cs

/-- outcome of `record.getMessage()` followed by the `assert isinstance(message, str)` -/
inductive Msg where
  | ok (s : Str)                    -- a `str`
  | raised (excRepr : Str)          -- any `Exception`; `repr(e)` is given
  deriving Repr

structure Record where
  levelname : Str
  levelno : Int
  asctime : Str            -- `self.formatTime(record, self.datefmt)` (stdlib)
  module : Str
  lineno : Int
  msg : Msg
  dictRepr : Str           -- `repr(record.__dict__)` at the time of the call (stdlib)
  excInfo : Option Str     -- `self.formatException(record.exc_info)` when `record.exc_info` is truthy (stdlib)
  excText : Str            -- `record.exc_text` before the call (`None` and `""` are both falsy: `[]`)
  deriving Repr

def lit (s : String) : Str := s.toList.map Char.toNat

/-- `DEFAULT_COLORS` -/
def colorCode (levelno : Int) : Option Nat :=
  if levelno = 10 then some 4 else if levelno = 20 then some 2 else if levelno = 30 then some 3
  else if levelno = 40 then some 1 else if levelno = 50 then some 5 else none

/-- `record.color`, `record.end_color` for a formatter built with (`colorOn`) or without colour support
    (the hard-coded ANSI branch: `"\033[2;3%dm" % code`, `"\033[0m"`). -/
def colors (colorOn : Bool) (levelno : Int) : Str × Str :=
  match colorOn, colorCode levelno with
  | true, some code => ([27, 91, 50, 59, 51, 48 + code, 109], [27, 91, 48, 109])
  | _, _ => ([], [])

/-- `"%1.1s" % levelname` -/
def level1 (levelname : Str) : Str :=
  match levelname with
  | [] => [cSp]
  | c :: _ => [c]

/-- the `try … except Exception` around `getMessage`: `record.message` -/
def message (r : Record) : Str :=
  match r.msg with
  | .ok s => s                       -- `_safe_unicode` is the identity on `str`
  | .raised e => lit "Bad message (" ++ e ++ lit "): " ++ r.dictRepr

/-- `self._fmt % record.__dict__` for `DEFAULT_FORMAT` -/
def header (colorOn : Bool) (r : Record) : Str :=
  let (color, endColor) := colors colorOn r.levelno
  color ++ [91] ++ level1 r.levelname ++ [cSp] ++ r.asctime ++ [cSp] ++ r.module ++ [58] ++ intStr r.lineno
    ++ [93] ++ endColor ++ [cSp]

/-- `record.exc_text` after `if record.exc_info: if not record.exc_text: record.exc_text = formatException(...)` -/
def effExcText (r : Record) : Str :=
  match r.excInfo with
  | some t => if r.excText.isEmpty then t else r.excText
  | none => r.excText

/-- the string before the final `replace` -/
def assembled (colorOn : Bool) (r : Record) : Str :=
  let formatted := header colorOn r ++ message r
  let exc := effExcText r
  if exc.isEmpty then formatted
  else joinNl (rstrip formatted :: splitNl exc)

/-- `LogFormatter.format(record)`: every statement of the method is covered; the only operation that can
    raise for the records of this model (`getMessage`) is inside the `try`, so the result is always a string. -/
def format (colorOn : Bool) (r : Record) : Except Str Str :=
  .ok (replaceNl (assembled colorOn r))

end TornadoModel.C45
