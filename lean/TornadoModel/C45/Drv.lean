/- C45 driver:
   `C45 format|format0 <colorOn> [levelname,levelno,asctime,module,lineno,MSG,OUTCOME(dictRepr),excInfo|~,[s,text]|[b,bytes]]`
     MSG = [ok,msg] | [notstr] | [raised,excName,isExc,OUTCOME(repr e)]   OUTCOME = [ok,text] | [raised,excName,isExc]
     (`format` = the fixed code, `format0` = the code before the fixes)
   `C45 bytesrepr <bytes>` · `C45 safeunicode <bytes>`
   `C45 indented <text>` · `C45 isspace [cp,…]` · `C45 rstrip <text>` -/
import TornadoModel.Base.Wire
import TornadoModel.C45.Spec
namespace TornadoModel.C45.Drv
open TornadoModel TornadoModel.Wire TornadoModel.C45

def decExc (n b : V) : Option Exc := do pure ⟨← n.cps?, ← b.bool?⟩

def decOutcome (v : V) : Option Outcome := do
  match ← v.list? with
  | [.atom "ok", s] => pure (.ok (← s.cps?))
  | [.atom "raised", n, b] => pure (.raised (← decExc n b))
  | _ => none

def decMsg (v : V) : Option Msg := do
  match ← v.list? with
  | [.atom "ok", s] => pure (.ok (← s.cps?))
  | [.atom "notstr"] => pure .notStr
  | [.atom "raised", n, b, o] => pure (.raised (← decExc n b) (← decOutcome o))
  | _ => none

def decExcText (v : V) : Option ExcText := do
  match ← v.list? with
  | [.atom "s", s] => pure (.str (← s.cps?))
  | [.atom "b", b] => pure (.bytes (← b.byteNats?))
  | _ => none

def decRecord (v : V) : Option Record := do
  match ← v.list? with
  | [ln, lno, asc, md, line, msg, dr, ei, et] =>
    pure { levelname := ← ln.cps?, levelno := ← lno.int?, asctime := ← asc.cps?, module := ← md.cps?,
           lineno := ← line.int?, msg := ← decMsg msg, dictRepr := ← decOutcome dr,
           excInfo := ← (if ei.isNone then pure none else do pure (some (← ei.cps?))),
           excText := ← decExcText et }
  | _ => none

def outV : Except Exc Str → String
  | .ok s => ok [V.ofCps s]
  | .error e => ok [.atom "Uncaught", V.ofCps e.name]

def go (toks : List String) : Option String := do
  let args ← parseArgs toks.tail
  match toks.head?, args with
  | some "format", [c, r] =>
    pure (outV (format (← c.bool?) (← decRecord r)))
  | some "format0", [c, r] =>
    pure (outV (formatUnfixed (← c.bool?) (← decRecord r)))
  | some "bytesrepr", [b] => pure (ok [V.ofCps (bytesRepr (← b.byteNats?))])
  | some "safeunicode", [b] => pure (ok [V.ofCps (safeUnicodeBytes (← b.byteNats?))])
  | some "indented", [s] =>
    let t ← s.cps?
    pure (ok [V.ofBool (Spec.indented t), V.ofBool (Spec.linesIndented t)])
  | some "isspace", [l] => pure (ok [.list ((← (← l.list?).mapM V.nat?).map (fun c => V.ofBool (isPySpace c)))])
  | some "rstrip", [s] => pure (ok [V.ofCps (rstrip (← s.cps?))])
  | some "unindent", [s] => pure (ok [V.ofCps (Spec.unindent (← s.cps?))])
  | _, _ => none

def handle (toks : List String) : String := (go toks).getD (err "bad-request")

end TornadoModel.C45.Drv
