/- C45 driver:
   `C45 format <colorOn> [levelname,levelno,asctime,module,lineno,[ok,msg]|[raised,repr],dictRepr,excInfo|~,excText]`
   `C45 indented <text>` · `C45 isspace [cp,…]` · `C45 rstrip <text>` -/
import TornadoModel.Base.Wire
import TornadoModel.C45.Spec
namespace TornadoModel.C45.Drv
open TornadoModel TornadoModel.Wire TornadoModel.C45

def decMsg (v : V) : Option Msg := do
  match ← v.list? with
  | [.atom "ok", s] => pure (.ok (← s.cps?))
  | [.atom "raised", e] => pure (.raised (← e.cps?))
  | _ => none

def decRecord (v : V) : Option Record := do
  match ← v.list? with
  | [ln, lno, asc, md, line, msg, dr, ei, et] =>
    pure { levelname := ← ln.cps?, levelno := ← lno.int?, asctime := ← asc.cps?, module := ← md.cps?,
           lineno := ← line.int?, msg := ← decMsg msg, dictRepr := ← dr.cps?,
           excInfo := ← (if ei.isNone then pure none else do pure (some (← ei.cps?))),
           excText := ← et.cps? }
  | _ => none

def go (toks : List String) : Option String := do
  let args ← parseArgs toks.tail
  match toks.head?, args with
  | some "format", [c, r] =>
    match format (← c.bool?) (← decRecord r) with
    | .ok s => pure (ok [V.ofCps s])
    | .error e => pure (ok [.atom "Uncaught", V.ofCps e])
  | some "indented", [s] =>
    let t ← s.cps?
    pure (ok [V.ofBool (Spec.indented t), V.ofBool (Spec.linesIndented t)])
  | some "isspace", [l] => pure (ok [.list ((← (← l.list?).mapM V.nat?).map (fun c => V.ofBool (isPySpace c)))])
  | some "rstrip", [s] => pure (ok [V.ofCps (rstrip (← s.cps?))])
  | some "unindent", [s] => pure (ok [V.ofCps (Spec.unindent (← s.cps?))])
  | _, _ => none

def handle (toks : List String) : String := (go toks).getD (err "bad-request")

end TornadoModel.C45.Drv
