/-
C45 — specification side: "every newline character in the string is followed by indentation,
so message content cannot start a new log entry".
-/
import TornadoModel.C45.Model
namespace TornadoModel.C45.Spec
open TornadoModel.C45

/-- executable form: after each `\n` come four spaces -/
def indented : Str → Bool
  | [] => true
  | c :: cs => (if c = cLf then cs.take 4 == [cSp, cSp, cSp, cSp] else true) && indented cs

/-- positional form of the same statement -/
def Indented (s : Str) : Prop :=
  ∀ i, s[i]? = some cLf → ∀ k, k < 4 → s[i + 1 + k]? = some cSp

/-- line form: splitting at `\n`, every line after the first starts with four spaces (column 0 is never
    reached by message content) -/
def linesIndented (s : Str) : Bool :=
  (splitNl s).tail.all (fun l => l.take 4 == [cSp, cSp, cSp, cSp])

/-- inverse of the indentation: drop four characters after each newline -/
def unindent : Str → Str
  | [] => []
  | c :: cs => if c = cLf then cLf :: unindent (cs.drop 4) else c :: unindent cs
termination_by s => s.length
decreasing_by all_goals (simp; try omega)

end TornadoModel.C45.Spec
