/- C45 helper lemmas -/
import TornadoModel.C45.Spec
namespace TornadoModel.C45
open Spec

theorem natDigits_no_lf (n : Nat) : cLf ∉ natDigits n := by
  fun_induction natDigits n with
  | case1 n h => simp [cLf]; omega
  | case2 n h ih => simp [cLf] at ih ⊢; exact ⟨ih, by omega⟩

theorem intStr_no_lf (i : Int) : cLf ∉ intStr i := by
  cases i with
  | ofNat n => exact natDigits_no_lf n
  | negSucc n =>
    have := natDigits_no_lf (n + 1)
    simp [intStr, cLf] at this ⊢; exact this

/-- `replace` leaves a newline-free prefix alone -/
theorem replaceNl_append_of_no_lf (a b : Str) (h : cLf ∉ a) : replaceNl (a ++ b) = a ++ replaceNl b := by
  induction a with
  | nil => rfl
  | cons c cs ih =>
    have hc : c ≠ cLf := fun e => h (by simp [e])
    have hcs : cLf ∉ cs := fun e => h (by simp [e])
    simp [replaceNl, hc, ih hcs]

theorem dropWhile_append_stop {α} (p : α → Bool) (l : List α) (x : α) (m : List α) (hx : p x = false) :
    (l ++ x :: m).dropWhile p = l.dropWhile p ++ x :: m := by
  induction l with
  | nil => simp [List.dropWhile, hx]
  | cons y l' ih =>
    simp only [List.cons_append, List.dropWhile_cons]
    split
    · exact ih
    · rfl

/-- `rstrip` never eats past a non-space character -/
theorem rstrip_append_stop (a : Str) (x : Nat) (b : Str) (hx : isPySpace x = false) :
    rstrip (a ++ x :: b) = a ++ x :: rstrip b := by
  unfold rstrip
  have : (a ++ x :: b).reverse = b.reverse ++ x :: a.reverse := by simp
  rw [this, dropWhile_append_stop isPySpace _ x _ hx]
  simp

end TornadoModel.C45
