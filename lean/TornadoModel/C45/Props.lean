/- C45 — property theorems. -/
import TornadoModel.C45.Lemmas
namespace TornadoModel.C45
open Spec

/-- **Total**: for every record of the model — whatever `getMessage()` did, including raising — `format`
    returns a string (no branch of the method lets an exception out). -/
theorem format_total (colorOn : Bool) (r : Record) : ∃ s, format colorOn r = .ok s := ⟨_, rfl⟩

/-- when `getMessage()` raises, the entry carries the "Bad message" text instead of failing -/
theorem format_bad_message_caught (colorOn : Bool) (r : Record) (e : Str) (h : r.msg = .raised e) :
    message r = lit "Bad message (" ++ e ++ lit "): " ++ r.dictRepr
      ∧ ∃ s, format colorOn r = .ok s := by
  refine ⟨by simp [message, h], ⟨_, rfl⟩⟩

/-- **Indentation**, for ALL strings: after `replace("\n", "\n    ")` every newline is followed by four spaces. -/
theorem newline_indented (s : Str) : indented (replaceNl s) = true := by
  induction s with
  | nil => rfl
  | cons c cs ih =>
    by_cases hc : c = cLf
    · simp [replaceNl, hc, indented, ih, cLf, cSp]
    · simp [replaceNl, hc, indented, ih]

/-- the executable check implies the positional statement -/
theorem indented_sound (s : Str) (h : indented s = true) : Indented s := by
  induction s with
  | nil => intro i hi; simp at hi
  | cons c cs ih =>
    simp only [indented, Bool.and_eq_true] at h
    intro i hi k hk
    cases i with
    | zero =>
      simp only [List.getElem?_cons_zero, Option.some.injEq] at hi
      have ht : cs.take 4 = [cSp, cSp, cSp, cSp] := by simpa [hi] using h.1
      have : (cs.take 4)[k]? = some cSp := by
        rw [ht]
        match k, hk with
        | 0, _ => rfl
        | 1, _ => rfl
        | 2, _ => rfl
        | 3, _ => rfl
      rw [List.getElem?_take] at this
      simp only [hk, if_true] at this
      simpa [Nat.add_comm] using this
    | succ j =>
      have hj : cs[j]? = some cLf := by simpa using hi
      have := ih h.2 j hj k hk
      have e : j + 1 + 1 + k = (j + 1 + k) + 1 := by omega
      rw [e, List.getElem?_cons_succ]
      exact this

/-- positional form for all strings -/
theorem newline_indented_pos (s : Str) : Indented (replaceNl s) :=
  indented_sound _ (newline_indented s)

theorem format_indented (colorOn : Bool) (r : Record) (s : Str) (h : format colorOn r = .ok s) :
    indented s = true := by
  simp only [format, Except.ok.injEq] at h
  subst h
  exact newline_indented _

/-- in every formatted entry, each `\n` is followed by four spaces — wherever it came from (message text,
    `%`-arguments, the "Bad message" dump, exception text, even the logger/module name) -/
theorem format_indented_pos (colorOn : Bool) (r : Record) (s : Str) (h : format colorOn r = .ok s) :
    Indented s := indented_sound _ (format_indented colorOn r s h)

/-- line form: if every newline is followed by four spaces then every line after the first starts with them -/
theorem lines_indented (s : Str) (h : indented s = true) : linesIndented s = true := by
  unfold linesIndented
  induction s with
  | nil => rfl
  | cons c cs ih =>
    simp only [indented, Bool.and_eq_true] at h
    have ih' := ih h.2
    by_cases hc : c = cLf
    · simp only [splitNl, hc, if_true, List.tail_cons]
      have hsp : splitNl cs = (splitNl cs).head! :: (splitNl cs).tail := by
        cases cs with
        | nil => rfl
        | cons d ds =>
          simp only [splitNl]
          split
          · rfl
          · split <;> rfl
      have hhead : ((splitNl cs).head!).take 4 = [cSp, cSp, cSp, cSp] := by
        have ht : cs.take 4 = [cSp, cSp, cSp, cSp] := by simpa [hc] using h.1
        match cs, ht with
        | a :: b :: c' :: d :: rest, ht =>
          simp only [List.take, List.cons.injEq, and_true] at ht
          obtain ⟨rfl, rfl, rfl, rfl⟩ := ht
          simp only [splitNl, cSp, cLf]
          simp only [show (32 : Nat) ≠ 10 by decide, if_false]
          cases splitNl rest <;> rfl
      rw [hsp]
      simp only [List.all_cons, Bool.and_eq_true]
      exact ⟨by simp [hhead], ih'⟩
    · simp only [splitNl, hc, if_false]
      cases hs : splitNl cs with
      | nil => rfl
      | cons w ws =>
        rw [hs] at ih'
        simpa using ih'

/-- **No forged entries**: splitting a formatted entry at newlines, every line after the first starts with
    four spaces, so no content can begin at column 0. -/
theorem format_lines_indented (colorOn : Bool) (r : Record) (s : Str) (h : format colorOn r = .ok s) :
    linesIndented s = true := lines_indented s (format_indented colorOn r s h)

/-- the indentation is lossless: dropping the four inserted characters after each newline gives the input back -/
theorem unindent_replaceNl (s : Str) : unindent (replaceNl s) = s := by
  induction s with
  | nil => simp [replaceNl, unindent]
  | cons c cs ih =>
    by_cases hc : c = cLf
    · simp only [replaceNl, hc, if_true]
      rw [unindent]
      simp [ih]
    · simp only [replaceNl, hc, if_false]
      rw [unindent]
      simp [hc, ih]

theorem format_lossless (colorOn : Bool) (r : Record) (s : Str) (h : format colorOn r = .ok s) :
    unindent s = assembled colorOn r := by
  simp only [format, Except.ok.injEq] at h
  subst h
  exact unindent_replaceNl _

/-- the header contains no newline when the level name, the time stamp and the module name contain none -/
theorem header_has_no_newline (colorOn : Bool) (r : Record)
    (h1 : cLf ∉ level1 r.levelname) (h2 : cLf ∉ r.asctime) (h3 : cLf ∉ r.module) :
    cLf ∉ header colorOn r := by
  have h4 := intStr_no_lf r.lineno
  have hc : cLf ∉ (colors colorOn r.levelno).1 ∧ cLf ∉ (colors colorOn r.levelno).2 := by
    unfold colors
    split
    · rename_i code hcode
      have : code ≤ 5 := by
        unfold colorCode at hcode
        repeat' split at hcode
        all_goals (first | (cases hcode; omega) | cases hcode)
      simp [cLf]; omega
    · simp
  simp only [header, List.mem_append, List.mem_singleton, not_or]
  simp [cLf, cSp] at *
  simp [h1, h2, h3, h4, hc]

/-- the header without its final space -/
def headerCore (colorOn : Bool) (r : Record) : Str :=
  (colors colorOn r.levelno).1 ++ [91] ++ level1 r.levelname ++ [cSp] ++ r.asctime ++ [cSp] ++ r.module ++ [58]
    ++ intStr r.lineno ++ [93] ++ (colors colorOn r.levelno).2

theorem header_eq_core (colorOn : Bool) (r : Record) : header colorOn r = headerCore colorOn r ++ [cSp] := by
  simp [header, headerCore]

theorem headerCore_ends_nonspace (colorOn : Bool) (r : Record) :
    ∃ pre z, headerCore colorOn r = pre ++ [z] ∧ isPySpace z = false := by
  unfold headerCore colors
  split
  · rename_i code _
    refine ⟨[27, 91, 50, 59, 51, 48 + code, 109] ++ [91] ++ level1 r.levelname ++ [cSp] ++ r.asctime ++ [cSp]
      ++ r.module ++ [58] ++ intStr r.lineno ++ [93] ++ [27, 91, 48], 109, ?_, by decide⟩
    simp
  · refine ⟨[91] ++ level1 r.levelname ++ [cSp] ++ r.asctime ++ [cSp] ++ r.module ++ [58] ++ intStr r.lineno,
      93, ?_, by decide⟩
    simp

theorem joinNl_cons_prefix (x : Str) (rest : List Str) : ∃ t, joinNl (x :: rest) = x ++ t := by
  cases rest with
  | nil => exact ⟨[], by simp [joinNl]⟩
  | cons y ys => exact ⟨cLf :: joinNl (y :: ys), by simp [joinNl]⟩

/-- under the same side conditions the entry starts with the header (minus its final space, which `rstrip`
    may remove when an exception text follows an empty message): the first line is the formatter's own. -/
theorem first_line_is_header (colorOn : Bool) (r : Record) (s : Str)
    (h1 : cLf ∉ level1 r.levelname) (h2 : cLf ∉ r.asctime) (h3 : cLf ∉ r.module)
    (h : format colorOn r = .ok s) : (header colorOn r).dropLast <+: s := by
  simp only [format, Except.ok.injEq] at h
  subst h
  have hnl := header_has_no_newline colorOn r h1 h2 h3
  rw [header_eq_core] at hnl ⊢
  have hcore : cLf ∉ headerCore colorOn r := fun hm => hnl (by simp [hm])
  rw [List.dropLast_concat]
  -- the assembled string is the core followed by something
  have : ∃ t, assembled colorOn r = headerCore colorOn r ++ t := by
    unfold assembled
    simp only [header_eq_core]
    split
    · exact ⟨[cSp] ++ message r, by simp⟩
    · obtain ⟨pre, z, hz, hsp⟩ := headerCore_ends_nonspace colorOn r
      have e : headerCore colorOn r ++ [cSp] ++ message r = pre ++ z :: (cSp :: message r) := by
        rw [hz]; simp
      rw [e, rstrip_append_stop pre z _ hsp]
      obtain ⟨t, ht⟩ := joinNl_cons_prefix (pre ++ z :: rstrip (cSp :: message r)) (splitNl (effExcText r))
      exact ⟨rstrip (cSp :: message r) ++ t, by rw [ht, hz]; simp⟩
  obtain ⟨t, ht⟩ := this
  rw [ht, replaceNl_append_of_no_lf _ _ hcore]
  exact List.prefix_append _ _

-- non-vacuity: a record whose message tries to forge an entry
example :
    (format false ⟨[73], 20, [49], [109], 7, .ok [97, 10, 91, 69], [], none, []⟩).toOption
      = some [91, 73, 32, 49, 32, 109, 58, 55, 93, 32, 97, 10, 32, 32, 32, 32, 91, 69] := by decide +kernel

end TornadoModel.C45
