/- C45 — property theorems. -/
import TornadoModel.C45.Lemmas
namespace TornadoModel.C45
open Spec

/-! ### totality: which calls may raise, and what `format` does about it -/

/-- the exception (if any) is an `Exception`, i.e. something `except Exception` is meant to catch -/
def Outcome.benign : Outcome → Bool
  | .ok _ => true
  | .raised e => e.isExc

/-- every exception raised by the user code behind this record (`__str__`/`__repr__`/`__mod__` of the message and
    its arguments, `__repr__` of the raised exception) is an `Exception` — no `KeyboardInterrupt`, `SystemExit`
    or other bare `BaseException`, which `except Exception` lets through by design -/
def Record.benign (r : Record) : Bool :=
  (match r.msg with
   | .raised e o => e.isExc && o.benign
   | _ => true) && r.dictRepr.benign

/-- what `_safe_repr` returns (when it returns) -/
def safeReprText (o : Outcome) (typeName : Str) : Str :=
  match o with
  | .ok s => s
  | .raised _ => lit "<unprintable " ++ typeName ++ lit " object>"

@[simp] theorem safeRepr_ok (s t : Str) : safeRepr (.ok s) t = .ok s := rfl

theorem safeRepr_benign (o : Outcome) (t : Str) (h : o.benign = true) : safeRepr o t = .ok (safeReprText o t) := by
  cases o with
  | ok s => rfl
  | raised e =>
    have he : e.isExc = true := h
    simp [safeRepr, tryExcept, Outcome.call, safeReprText, he]

/-- `_safe_repr` lets out only what is not an `Exception` -/
theorem safeRepr_error (o : Outcome) (t : Str) (e : Exc) (h : safeRepr o t = .error e) :
    o = .raised e ∧ e.isExc = false := by
  cases o with
  | ok s => simp [safeRepr, tryExcept, Outcome.call] at h
  | raised e' =>
    cases hb : e'.isExc <;> simp [safeRepr, tryExcept, Outcome.call, hb] at h
    subst h; exact ⟨rfl, hb⟩

/-- the value of `record.message` for a benign record, branch by branch -/
theorem message_benign (r : Record) (h : r.benign = true) :
    message r = .ok (match r.msg with
      | .ok s => s
      | .notStr => badMessage (lit "AssertionError()") (safeReprText r.dictRepr (lit "dict"))
      | .raised e o => badMessage (safeReprText o e.name) (safeReprText r.dictRepr (lit "dict"))) := by
  simp only [Record.benign, Bool.and_eq_true] at h
  obtain ⟨hm, hd⟩ := h
  cases hmsg : r.msg with
  | ok s => simp [message, getMessageChecked, hmsg, tryExcept]
  | notStr =>
    simp [message, getMessageChecked, hmsg, tryExcept, assertionError, excRepr, safeRepr_benign _ _ hd,
      bind, Except.bind, pure, Except.pure]
  | raised e o =>
    rw [hmsg] at hm
    simp only [Bool.and_eq_true] at hm
    simp [message, getMessageChecked, hmsg, tryExcept, hm.1, excRepr, safeRepr_benign _ _ hd,
      safeRepr_benign _ _ hm.2, bind, Except.bind, pure, Except.pure]

theorem format_ok_iff (colorOn : Bool) (r : Record) (s : Str) :
    format colorOn r = .ok s ↔ ∃ m, message r = .ok m ∧ s = replaceNl (assembled colorOn r m) := by
  unfold format
  cases hm : message r with
  | error e => simp [bind, Except.bind]
  | ok m => simp [bind, Except.bind, pure, Except.pure, eq_comm]

/-- **Total**: for every record whose user code raises only `Exception`s — whatever `getMessage()` did (returned a
    `str`, returned `bytes`, raised), and whatever the `repr` of the raised exception and of `record.__dict__` did
    (returned, or raised because an argument's `__repr__` raises) — `format` returns a string.  The proof goes
    through each raising call of the method: the `try` catches the first, `_safe_repr` the other two. -/
theorem format_total (colorOn : Bool) (r : Record) (h : r.benign = true) : ∃ s, format colorOn r = .ok s := by
  refine ⟨_, (format_ok_iff colorOn r _).2 ⟨_, message_benign r h, rfl⟩⟩

/-- unconditionally: the only thing `format` lets out is a non-`Exception` raised by user code (one of the three
    raising inputs), so the hypothesis of `format_total` is exactly what is needed -/
theorem format_escapes_only_non_exception (colorOn : Bool) (r : Record) (e : Exc)
    (h : format colorOn r = .error e) :
    e.isExc = false ∧ ((∃ o, r.msg = .raised e o) ∨ (∃ e', r.msg = .raised e' (.raised e)) ∨ r.dictRepr = .raised e) := by
  unfold format at h
  cases hm : message r with
  | ok m => simp [hm, bind, Except.bind, pure, Except.pure] at h
  | error e0 =>
    have he : e0 = e := by simpa [hm, bind, Except.bind] using h
    subst he
    unfold message tryExcept at hm
    cases hg : getMessageChecked r with
    | ok a => simp [hg] at hm
    | error eg =>
      simp only [hg] at hm
      cases hb : eg.isExc with
      | false =>
        simp [hb] at hm
        subst hm
        refine ⟨hb, Or.inl ?_⟩
        cases hmsg : r.msg with
        | ok s => simp [getMessageChecked, hmsg] at hg
        | notStr =>
          simp [getMessageChecked, hmsg] at hg
          subst hg; simp [assertionError] at hb
        | raised e1 o =>
          simp [getMessageChecked, hmsg] at hg
          subst hg; exact ⟨o, rfl⟩
      | true =>
        simp only [hb, if_true] at hm
        cases ha : safeRepr (excRepr r) eg.name with
        | error ea =>
          have : ea = e0 := by simpa [ha, bind, Except.bind] using hm
          subst this
          obtain ⟨h1, h2⟩ := safeRepr_error _ _ _ ha
          refine ⟨h2, Or.inr (Or.inl ?_)⟩
          cases hmsg : r.msg with
          | ok s => simp [excRepr, hmsg] at h1
          | notStr => simp [excRepr, hmsg] at h1
          | raised e1 o =>
            simp [excRepr, hmsg] at h1
            exact ⟨e1, by rw [h1]⟩
        | ok a =>
          cases hd : safeRepr r.dictRepr (lit "dict") with
          | error ed =>
            have : ed = e0 := by simpa [ha, hd, bind, Except.bind] using hm
            subst this
            obtain ⟨h1, h2⟩ := safeRepr_error _ _ _ hd
            exact ⟨h2, Or.inr (Or.inr h1)⟩
          | ok b => simp [ha, hd, bind, Except.bind, pure, Except.pure] at hm

/-- when `getMessage()` raises an `Exception`, the entry carries the "Bad message" text instead of failing — also
    when `repr(e)` or `repr(record.__dict__)` raise in turn (the placeholders of `_safe_repr` are used) -/
theorem format_bad_message_caught (colorOn : Bool) (r : Record) (e : Exc) (o : Outcome)
    (h : r.msg = .raised e o) (hb : r.benign = true) :
    message r = .ok (badMessage (safeReprText o e.name) (safeReprText r.dictRepr (lit "dict")))
      ∧ ∃ s, format colorOn r = .ok s := by
  refine ⟨?_, format_total colorOn r hb⟩
  rw [message_benign r hb, h]

/-- **The defect that was fixed** (`formatUnfixed` = /repo before the fix): the fallback itself raises when an
    argument's `__repr__` raises, although every exception involved is an ordinary `Exception`. -/
theorem formatUnfixed_raises_on_bad_repr (colorOn : Bool) (r : Record) (e e' : Exc) (a : Str)
    (h : r.msg = .raised e (.ok a)) (he : e.isExc = true) (hd : r.dictRepr = .raised e') :
    formatUnfixed colorOn r = .error e' := by
  simp [formatUnfixed, messageUnfixed, getMessageChecked, h, tryExcept, he, excRepr, Outcome.call, hd,
    bind, Except.bind]

/-- … and a preset `bytes` `exc_text` raised `TypeError` at `.split("\n")` -/
theorem formatUnfixed_raises_on_bytes_exc_text (colorOn : Bool) (r : Record) (m : Str) (b : List Nat)
    (h : r.msg = .ok m) (hx : r.excText = .bytes b) (hb : b ≠ []) :
    formatUnfixed colorOn r = .error typeError := by
  have ht : (effExcText r).truthy = true ∧ effExcText r = .bytes b := by
    unfold effExcText
    cases r.excInfo <;> simp [hx, ExcText.truthy, hb]
  simp only [formatUnfixed, messageUnfixed, getMessageChecked, h, tryExcept, ht.1, bind, Except.bind, if_true]
  rw [ht.2]
  rfl

/-- so the totality statement was FALSE for the unfixed code -/
theorem formatUnfixed_not_total :
    ¬ ∀ (colorOn : Bool) (r : Record), r.benign = true → ∃ s, formatUnfixed colorOn r = .ok s := by
  intro hall
  let ve : Exc := ⟨lit "ValueError", true⟩
  let r : Record := ⟨[73], 20, [49], [109], 7, .raised ⟨lit "TypeError", true⟩ (.ok (lit "TypeError()")),
    .raised ve, none, .str []⟩
  obtain ⟨s, hs⟩ := hall false r (by decide)
  rw [formatUnfixed_raises_on_bad_repr false r _ ve _ rfl rfl rfl] at hs
  cases hs

/-- a `KeyboardInterrupt` raised by an argument's `__str__` propagates (by design of `except Exception`) -/
theorem format_propagates_non_exception (colorOn : Bool) (r : Record) (e : Exc) (o : Outcome)
    (h : r.msg = .raised e o) (he : e.isExc = false) : format colorOn r = .error e := by
  simp [format, message, getMessageChecked, h, tryExcept, he, bind, Except.bind]

-- non-vacuity of `format_total` / `format_bad_message_caught`: `"%d %s" % ("x", R())` where `R.__repr__` raises
example :
    (Record.benign ⟨[73], 20, [49], [109], 7, .raised ⟨lit "TypeError", true⟩ (.ok (lit "TypeError('x')")),
      .raised ⟨lit "ValueError", true⟩, none, .str []⟩) = true
    ∧ (format false ⟨[73], 20, [49], [109], 7, .raised ⟨lit "TypeError", true⟩ (.ok (lit "TypeError('x')")),
      .raised ⟨lit "ValueError", true⟩, none, .str []⟩).toOption
      = some (lit "[I 1 m:7] Bad message (TypeError('x')): <unprintable dict object>") := by
  decide +kernel

/-- **Indentation**, for ALL strings: after `replace("\n", "\n    ")` every newline is followed by four spaces. -/
theorem newline_indented (s : Str) : indented (replaceNl s) = true := by
  induction s with
  | nil => rfl
  | cons c cs ih =>
    by_cases hc : c = cLf
    · simp [replaceNl, hc, indented, ih, cLf, cSp]
    · simp [replaceNl, hc, indented, ih]

/-- the executable check implies the positional statement -/
theorem indented_sound (s : Str) (h : indented s = true) : Indented s := by
  induction s with
  | nil => intro i hi; simp at hi
  | cons c cs ih =>
    simp only [indented, Bool.and_eq_true] at h
    intro i hi k hk
    cases i with
    | zero =>
      simp only [List.getElem?_cons_zero, Option.some.injEq] at hi
      have ht : cs.take 4 = [cSp, cSp, cSp, cSp] := by simpa [hi] using h.1
      have : (cs.take 4)[k]? = some cSp := by
        rw [ht]
        match k, hk with
        | 0, _ => rfl
        | 1, _ => rfl
        | 2, _ => rfl
        | 3, _ => rfl
      rw [List.getElem?_take] at this
      simp only [hk, if_true] at this
      simpa [Nat.add_comm] using this
    | succ j =>
      have hj : cs[j]? = some cLf := by simpa using hi
      have := ih h.2 j hj k hk
      have e : j + 1 + 1 + k = (j + 1 + k) + 1 := by omega
      rw [e, List.getElem?_cons_succ]
      exact this

/-- positional form for all strings -/
theorem newline_indented_pos (s : Str) : Indented (replaceNl s) :=
  indented_sound _ (newline_indented s)

theorem format_indented (colorOn : Bool) (r : Record) (s : Str) (h : format colorOn r = .ok s) :
    indented s = true := by
  obtain ⟨m, _, rfl⟩ := (format_ok_iff colorOn r s).1 h
  exact newline_indented _

/-- in every formatted entry, each `\n` is followed by four spaces — wherever it came from (message text,
    `%`-arguments, the "Bad message" dump, exception text, even the logger/module name) -/
theorem format_indented_pos (colorOn : Bool) (r : Record) (s : Str) (h : format colorOn r = .ok s) :
    Indented s := indented_sound _ (format_indented colorOn r s h)

/-- line form: if every newline is followed by four spaces then every line after the first starts with them -/
theorem lines_indented (s : Str) (h : indented s = true) : linesIndented s = true := by
  unfold linesIndented
  induction s with
  | nil => rfl
  | cons c cs ih =>
    simp only [indented, Bool.and_eq_true] at h
    have ih' := ih h.2
    by_cases hc : c = cLf
    · simp only [splitNl, hc, if_true, List.tail_cons]
      have hsp : splitNl cs = (splitNl cs).head! :: (splitNl cs).tail := by
        cases cs with
        | nil => rfl
        | cons d ds =>
          simp only [splitNl]
          split
          · rfl
          · split <;> rfl
      have hhead : ((splitNl cs).head!).take 4 = [cSp, cSp, cSp, cSp] := by
        have ht : cs.take 4 = [cSp, cSp, cSp, cSp] := by simpa [hc] using h.1
        match cs, ht with
        | a :: b :: c' :: d :: rest, ht =>
          simp only [List.take, List.cons.injEq, and_true] at ht
          obtain ⟨rfl, rfl, rfl, rfl⟩ := ht
          simp only [splitNl, cSp, cLf]
          simp only [show (32 : Nat) ≠ 10 by decide, if_false]
          cases splitNl rest <;> rfl
      rw [hsp]
      simp only [List.all_cons, Bool.and_eq_true]
      exact ⟨by simp [hhead], ih'⟩
    · simp only [splitNl, hc, if_false]
      cases hs : splitNl cs with
      | nil => rfl
      | cons w ws =>
        rw [hs] at ih'
        simpa using ih'

/-- **No forged entries**: splitting a formatted entry at newlines, every line after the first starts with
    four spaces, so no content can begin at column 0. -/
theorem format_lines_indented (colorOn : Bool) (r : Record) (s : Str) (h : format colorOn r = .ok s) :
    linesIndented s = true := lines_indented s (format_indented colorOn r s h)

/-- the indentation is lossless: dropping the four inserted characters after each newline gives the input back -/
theorem unindent_replaceNl (s : Str) : unindent (replaceNl s) = s := by
  induction s with
  | nil => simp [replaceNl, unindent]
  | cons c cs ih =>
    by_cases hc : c = cLf
    · simp only [replaceNl, hc, if_true]
      rw [unindent]
      simp [ih]
    · simp only [replaceNl, hc, if_false]
      rw [unindent]
      simp [hc, ih]

theorem format_lossless (colorOn : Bool) (r : Record) (s : Str) (h : format colorOn r = .ok s) :
    ∃ m, message r = .ok m ∧ unindent s = assembled colorOn r m := by
  obtain ⟨m, hm, rfl⟩ := (format_ok_iff colorOn r s).1 h
  exact ⟨m, hm, unindent_replaceNl _⟩

/-- the header contains no newline when the level name, the time stamp and the module name contain none -/
theorem header_has_no_newline (colorOn : Bool) (r : Record)
    (h1 : cLf ∉ level1 r.levelname) (h2 : cLf ∉ r.asctime) (h3 : cLf ∉ r.module) :
    cLf ∉ header colorOn r := by
  have h4 := intStr_no_lf r.lineno
  have hc : cLf ∉ (colors colorOn r.levelno).1 ∧ cLf ∉ (colors colorOn r.levelno).2 := by
    unfold colors
    split
    · rename_i code hcode
      have : code ≤ 5 := by
        unfold colorCode at hcode
        repeat' split at hcode
        all_goals (first | (cases hcode; omega) | cases hcode)
      simp [cLf]; omega
    · simp
  simp only [header, List.mem_append, List.mem_singleton, not_or]
  simp [cLf, cSp] at *
  simp [h1, h2, h3, h4, hc]

/-- the header without its final space -/
def headerCore (colorOn : Bool) (r : Record) : Str :=
  (colors colorOn r.levelno).1 ++ [91] ++ level1 r.levelname ++ [cSp] ++ r.asctime ++ [cSp] ++ r.module ++ [58]
    ++ intStr r.lineno ++ [93] ++ (colors colorOn r.levelno).2

theorem header_eq_core (colorOn : Bool) (r : Record) : header colorOn r = headerCore colorOn r ++ [cSp] := by
  simp [header, headerCore]

theorem headerCore_ends_nonspace (colorOn : Bool) (r : Record) :
    ∃ pre z, headerCore colorOn r = pre ++ [z] ∧ isPySpace z = false := by
  unfold headerCore colors
  split
  · rename_i code _
    refine ⟨[27, 91, 50, 59, 51, 48 + code, 109] ++ [91] ++ level1 r.levelname ++ [cSp] ++ r.asctime ++ [cSp]
      ++ r.module ++ [58] ++ intStr r.lineno ++ [93] ++ [27, 91, 48], 109, ?_, by decide⟩
    simp
  · refine ⟨[91] ++ level1 r.levelname ++ [cSp] ++ r.asctime ++ [cSp] ++ r.module ++ [58] ++ intStr r.lineno,
      93, ?_, by decide⟩
    simp

theorem joinNl_cons_prefix (x : Str) (rest : List Str) : ∃ t, joinNl (x :: rest) = x ++ t := by
  cases rest with
  | nil => exact ⟨[], by simp [joinNl]⟩
  | cons y ys => exact ⟨cLf :: joinNl (y :: ys), by simp [joinNl]⟩

/-- under the same side conditions the entry starts with the header (minus its final space, which `rstrip`
    may remove when an exception text follows an empty message): the first line is the formatter's own. -/
theorem first_line_is_header (colorOn : Bool) (r : Record) (s : Str)
    (h1 : cLf ∉ level1 r.levelname) (h2 : cLf ∉ r.asctime) (h3 : cLf ∉ r.module)
    (h : format colorOn r = .ok s) : (header colorOn r).dropLast <+: s := by
  obtain ⟨m, _, rfl⟩ := (format_ok_iff colorOn r s).1 h
  have hnl := header_has_no_newline colorOn r h1 h2 h3
  rw [header_eq_core] at hnl ⊢
  have hcore : cLf ∉ headerCore colorOn r := fun hm => hnl (by simp [hm])
  rw [List.dropLast_concat]
  -- the assembled string is the core followed by something
  have : ∃ t, assembled colorOn r m = headerCore colorOn r ++ t := by
    unfold assembled assembleWith
    simp only [header_eq_core]
    split
    · rename_i heq
      split at heq
      · cases heq
      · exact ⟨[cSp] ++ m, by simp⟩
    · rename_i ls heq
      obtain ⟨pre, z, hz, hsp⟩ := headerCore_ends_nonspace colorOn r
      have e : headerCore colorOn r ++ [cSp] ++ m = pre ++ z :: (cSp :: m) := by
        rw [hz]; simp
      rw [e, rstrip_append_stop pre z _ hsp]
      obtain ⟨t, ht⟩ := joinNl_cons_prefix (pre ++ z :: rstrip (cSp :: m)) ls
      exact ⟨rstrip (cSp :: m) ++ t, by rw [ht, hz]; simp⟩
  obtain ⟨t, ht⟩ := this
  rw [ht, replaceNl_append_of_no_lf _ _ hcore]
  exact List.prefix_append _ _

-- non-vacuity: a record whose message tries to forge an entry
example :
    (format false ⟨[73], 20, [49], [109], 7, .ok [97, 10, 91, 69], .ok [], none, .str []⟩).toOption
      = some [91, 73, 32, 49, 32, 109, 58, 55, 93, 32, 97, 10, 32, 32, 32, 32, 91, 69] := by decide +kernel

end TornadoModel.C45
