/-
C15 — the specification: a strict batch reader of RFC 6455 (+ RFC 7692) frame sequences.

`frameViolation` lists, in the RFC's own terms, what makes a frame illegal given only whether a fragmented
message is open (and how many bytes of it are buffered); `strict` reads a whole frame list, delivering each
completed message, and stops at the first violation (illegal frame, invalid UTF-8 in a completed text message,
message too large after decompression).  It keeps no `_frame_compressed`, no opcode of the last frame, no
status: only the open fragmented message (opcode, compressed?, bytes so far) and the decompressor history.
-/
import TornadoModel.C15.Model
namespace TornadoModel.C15.Spec
open TornadoModel.C14

inductive Kind where
  | rsv             -- reserved bit set without an extension giving it a meaning
  | ctlFragmented   -- control frame without FIN
  | ctlTooLong      -- control frame with an extended length form (payload > 125)
  | contNoStart     -- continuation frame with no fragmented message open
  | dataInFrag      -- new data frame while a fragmented message is open
  | unknownOpcode   -- opcode other than 0,1,2,8,9,10
  | tooBig          -- message (so far) above max_message_size on the wire
  | badUtf8         -- completed text message is not UTF-8
  | tooBigAfter     -- message above max_message_size after decompression
  | corrupt         -- (outside the property's list) the compressed payload is not a deflate stream
  deriving Repr, BEq, DecidableEq

/-- is the frame illegal, given the number of bytes buffered of an open fragmented message (`none` = no
message open)?  RSV1 (value 4) is legal only on the first frame of a data message when permessage-deflate was
negotiated. -/
def frameViolation (cfg : Cfg) (open? : Option Nat) (f : Frame) : Option Kind :=
  if isCtl f.opcode then
    if f.rsv ≠ 0 then some .rsv
    else if 1 ≤ f.ext then some .ctlTooLong
    else if cfg.maxSize < f.payload.length then some .tooBig
    else if f.fin = false then some .ctlFragmented
    else if f.opcode ≠ 8 ∧ f.opcode ≠ 9 ∧ f.opcode ≠ 10 then some .unknownOpcode
    else none
  else if f.opcode = 0 then
    if f.rsv ≠ 0 then some .rsv
    else match open? with
      | none => if cfg.maxSize < f.payload.length then some .tooBig else some .contNoStart
      | some n => if cfg.maxSize < f.payload.length + n then some .tooBig else none
  else
    if (if cfg.deflate then f.rsv % 4 else f.rsv) ≠ 0 then some .rsv
    else match open? with
      | some n => if cfg.maxSize < f.payload.length + n then some .tooBig else some .dataInFrag
      | none =>
        if cfg.maxSize < f.payload.length then some .tooBig
        else if f.opcode ≠ 1 ∧ f.opcode ≠ 2 then some .unknownOpcode
        else none

/-- the open fragmented message: opcode, compressed?, bytes so far -/
structure Ctx where
  part : Option (Nat × Bool × Bytes) := none
  hist : List Bytes := []
  deriving Repr, BEq, DecidableEq

structure Result where
  delivered : List (Bool × Bytes)
  violation : Option (Nat × Kind)      -- index of the violating frame
  deriving Repr, BEq, DecidableEq

/-- a completed message: decompress if it was sent compressed, check UTF-8 for text -/
def complete (cfg : Cfg) (hist : List Bytes) (opcode : Nat) (z : Bool) (wire : Bytes) :
    Except Kind ((Bool × Bytes) × List Bytes) :=
  let plain : Except Kind (Bytes × List Bytes) :=
    if z then
      match cfg.decomp hist wire with
      | .ok d => .ok (d, hist ++ [wire])
      | .tooLarge => .error .tooBigAfter
      | .error => .error .corrupt
    else .ok (wire, hist)
  match plain with
  | .error k => .error k
  | .ok (d, hist') =>
    if opcode = 1 then (if validUtf8 d then .ok ((true, d), hist') else .error .badUtf8)
    else .ok ((false, d), hist')

/-- the message (opcode, compressed?, wire payload) a legal frame completes, given the open message -/
def completes (cfg : Cfg) (part : Option (Nat × Bool × Bytes)) (f : Frame) : Option (Nat × Bool × Bytes) :=
  if isCtl f.opcode || !f.fin then none
  else match part with
    | some p => some (p.1, p.2.1, p.2.2 ++ f.payload)
    | none => some (f.opcode, cfg.deflate && f.rsv / 4 % 2 == 1, f.payload)

/-- the open fragmented message of a receive state, in the reader's terms -/
def partOf (st : State) : Option (Nat × Bool × Bytes) := st.fragBuf.map (fun b => (st.fragOp, st.compressed, b))

/-- A frame is a protocol violation in state `st` when it is illegal by itself, or completes a text message
that is not UTF-8, or completes a message too large after decompression. -/
def Violating (cfg : Cfg) (st : State) (f : Frame) : Prop :=
  (∃ k, frameViolation cfg (st.fragBuf.map (·.length)) f = some k)
  ∨ (frameViolation cfg (st.fragBuf.map (·.length)) f = none
     ∧ ∃ op z w, completes cfg (partOf st) f = some (op, z, w)
        ∧ (complete cfg st.dhist op z w = .error .badUtf8 ∨ complete cfg st.dhist op z w = .error .tooBigAfter))

def strict (cfg : Cfg) : Nat → Ctx → List Frame → Result
  | _, _, [] => ⟨[], none⟩
  | i, ctx, f :: fs =>
    match frameViolation cfg (ctx.part.map (fun p => p.2.2.length)) f with
    | some k => ⟨[], some (i, k)⟩
    | none =>
      if isCtl f.opcode then
        if f.opcode = 8 then ⟨[], none⟩            -- close: nothing after it is read
        else strict cfg (i + 1) ctx fs
      else
        let op := match ctx.part with | some p => p.1 | none => f.opcode
        let z := match ctx.part with | some p => p.2.1 | none => cfg.deflate && f.rsv / 4 % 2 == 1
        let buf := match ctx.part with | some p => p.2.2 ++ f.payload | none => f.payload
        if f.fin then
          match complete cfg ctx.hist op z buf with
          | .error k => ⟨[], some (i, k)⟩
          | .ok (m, hist') =>
            let r := strict cfg (i + 1) { part := none, hist := hist' } fs
            ⟨m :: r.delivered, r.violation⟩
        else strict cfg (i + 1) { ctx with part := some (op, z, buf) } fs

/-- THE SPECIFICATION of C15 for an incoming frame list: what may be delivered, and whether the peer must be
cut off -/
def spec (cfg : Cfg) (fs : List Frame) : Result := strict cfg 0 {} fs

end TornadoModel.C15.Spec
