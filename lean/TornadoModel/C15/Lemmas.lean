/- C15 — helper lemmas: every illegal frame aborts, aborted is absorbing, runs compose. -/
import TornadoModel.C15.Spec
import TornadoModel.C14.Intact
namespace TornadoModel.C15
open TornadoModel.C14 Spec

theorem abortWith_status (st : State) (w : Abort) : (abortWith st w).1.status = .aborted := rfl
theorem abortWith_msgs (st : State) (w : Abort) : messagesOf (abortWith st w).2 = [] := rfl

/-- the outcome "cut off, nothing delivered" of one step -/
def CutOff (r : State × List Event) : Prop := r.1.status = .aborted ∧ messagesOf r.2 = []

theorem cutOff_abortWith (st : State) (w : Abort) : CutOff (abortWith st w) := ⟨rfl, rfl⟩

/-- unknown opcodes never deliver -/
theorem deliver_unknown (st : State) (op : Nat) (d : Bytes)
    (h : op ≠ 1 ∧ op ≠ 2 ∧ op ≠ 8 ∧ op ≠ 9 ∧ op ≠ 10) : CutOff (deliver st op d) := by
  obtain ⟨h1, h2, h8, h9, h10⟩ := h
  simp [deliver, h1, h2, h8, h9, h10, cutOff_abortWith]

theorem header_violation_aborts (cfg : Cfg) (st : State) (f : Frame) (k : Kind)
    (h : frameViolation cfg (st.fragBuf.map (·.length)) f = some k) : CutOff (stepFrame cfg st f) := by
  unfold frameViolation at h
  by_cases hc : isCtl f.opcode = true
  · -- control frames
    simp only [hc, if_true] at h
    by_cases hr : f.rsv = 0
    · have hrsv : rsvCheck cfg st f.rsv f.opcode = some st.compressed := by simp [rsvCheck, hc, hr]
      simp only [stepFrame, hrsv, hc, Bool.true_and]
      by_cases he : 1 ≤ f.ext
      · simp [he, cutOff_abortWith]
      · have hbig : tooBig cfg { st with compressed := st.compressed } f.opcode f.payload.length
            = decide (cfg.maxSize < f.payload.length) := by
          unfold tooBig; cases st.fragBuf <;> simp [hc]
        simp only [he, decide_false, Bool.false_eq_true, if_false, hbig]
        by_cases hb : cfg.maxSize < f.payload.length
        · simp [hb, cutOff_abortWith]
        · simp only [hb, decide_false, Bool.false_eq_true, if_false, dispatch, hc, if_true]
          cases hf : f.fin with
          | false => simp [cutOff_abortWith]
          | true =>
            simp only [hr, ne_eq, not_true_eq_false, if_false, he, hb, hf, Bool.true_eq_false] at h
            split at h
            · rename_i hop
              simp only [Bool.not_true, Bool.false_eq_true, if_false, handle, hc, Bool.and_false]
              have h1 : f.opcode ≠ 1 := by intro e; rw [e] at hc; exact absurd hc (by decide)
              have h2 : f.opcode ≠ 2 := by intro e; rw [e] at hc; exact absurd hc (by decide)
              exact deliver_unknown _ _ _ ⟨h1, h2, hop.1, hop.2.1, hop.2.2⟩
            · contradiction
    · have hrsv : rsvCheck cfg st f.rsv f.opcode = none := by simp [rsvCheck, hc, hr]
      simp [stepFrame, hrsv, cutOff_abortWith]
  · simp only [hc, Bool.false_eq_true, if_false] at h
    have hc' : isCtl f.opcode = false := by simpa using hc
    by_cases h0 : f.opcode = 0
    · -- continuation frames
      simp only [h0, if_true] at h
      by_cases hr : f.rsv = 0
      · have hrsv : rsvCheck cfg st f.rsv f.opcode = some st.compressed := by simp [rsvCheck, h0, hr]
        simp only [stepFrame, hrsv, hc', Bool.false_and, Bool.false_eq_true, if_false]
        cases hfb : st.fragBuf with
        | none =>
          by_cases hb : cfg.maxSize < f.payload.length
          · simp [tooBig, hfb, hb, cutOff_abortWith]
          · simp [tooBig, hfb, hb, dispatch, h0, isCtl, cutOff_abortWith]
        | some buf =>
          simp only [hr, ne_eq, not_true_eq_false, if_false, hfb, Option.map_some] at h
          split at h
          · rename_i hb
            simp [tooBig, hfb, hc', hb, cutOff_abortWith]
          · contradiction
      · have hrsv : rsvCheck cfg st f.rsv f.opcode = none := by simp [rsvCheck, h0, hr]
        simp [stepFrame, hrsv, cutOff_abortWith]
    · -- first frames of data messages
      simp only [h0, if_false] at h
      cases hrc : rsvCheck cfg st f.rsv f.opcode with
      | none => simp [stepFrame, hrc, cutOff_abortWith]
      | some c =>
        have hrz : (if cfg.deflate then f.rsv % 4 else f.rsv) = 0 := by
          unfold rsvCheck at hrc
          cases hd : cfg.deflate <;> simp [hd, hc', h0] at hrc ⊢
          · exact hrc.1
          · exact hrc.1
        simp only [hrz, ne_eq, not_true_eq_false, if_false] at h
        simp only [stepFrame, hrc, hc', Bool.false_and, Bool.false_eq_true, if_false]
        cases hfb : st.fragBuf with
        | some buf =>
          by_cases hb : cfg.maxSize < f.payload.length + buf.length
          · simp [tooBig, hfb, hc', hb, cutOff_abortWith]
          · simp [tooBig, hfb, hc', hb, dispatch, h0, cutOff_abortWith]
        | none =>
          simp only [hfb, Option.map_none] at h
          by_cases hb : cfg.maxSize < f.payload.length
          · simp [tooBig, hfb, hb, cutOff_abortWith]
          · simp only [hb, if_false] at h
            split at h
            · rename_i hop
              simp [tooBig, hfb, hb, dispatch, hc', h0, hop.1, hop.2, cutOff_abortWith]
            · contradiction

/-- reachable states: without the extension nothing is ever flagged compressed, and the opcode of an open
fragmented message is text or binary -/
def Inv (cfg : Cfg) (st : State) : Prop :=
  (cfg.deflate = false → st.compressed = false) ∧ (st.fragBuf ≠ none → st.fragOp = 1 ∨ st.fragOp = 2)

theorem inv_init (cfg : Cfg) : Inv cfg init := ⟨fun _ => rfl, fun h => absurd rfl h⟩

theorem deliver_fields (st : State) (op : Nat) (d : Bytes) :
    (deliver st op d).1.compressed = st.compressed ∧ (deliver st op d).1.fragBuf = st.fragBuf
    ∧ (deliver st op d).1.fragOp = st.fragOp := by
  unfold deliver abortWith
  by_cases h1 : op = 1
  · simp only [h1, if_true]; split <;> simp
  by_cases h2 : op = 2
  · simp [h1, h2]
  by_cases h8 : op = 8
  · simp only [h1, h2, h8, if_true, if_false]
    cases validUtf8 (List.drop 2 d) <;> simp
  by_cases h9 : op = 9
  · simp [h1, h2, h8, h9]
  by_cases h10 : op = 10
  · simp [h1, h2, h8, h9, h10]
  simp [h1, h2, h8, h9, h10]

theorem handle_fields (cfg : Cfg) (st : State) (op : Nat) (d : Bytes) :
    (handle cfg st op d).1.compressed = st.compressed ∧ (handle cfg st op d).1.fragBuf = st.fragBuf
    ∧ (handle cfg st op d).1.fragOp = st.fragOp := by
  unfold handle
  split
  · split
    · exact deliver_fields _ _ _
    · simp [abortWith]
    · simp
  · exact deliver_fields _ _ _

theorem inv_of_fields (cfg : Cfg) (st st' : State) (h : Inv cfg st) (hc : st'.compressed = st.compressed)
    (hb : st'.fragBuf = st.fragBuf) (ho : st'.fragOp = st.fragOp) : Inv cfg st' :=
  ⟨fun hd => by rw [hc]; exact h.1 hd, fun hn => by rw [ho]; exact h.2 (by rw [← hb]; exact hn)⟩

theorem rsvCheck_nodeflate (cfg : Cfg) (st : State) (rsv op : Nat) (c : Bool) (hd : cfg.deflate = false)
    (h : rsvCheck cfg st rsv op = some c) : c = st.compressed := by
  unfold rsvCheck at h
  simp only [hd, Bool.false_and, Bool.false_eq_true, if_false] at h
  split at h
  · contradiction
  · simp only [Option.some.injEq] at h; exact h.symm

theorem inv_step (cfg : Cfg) (st : State) (f : Frame) (hinv : Inv cfg st) : Inv cfg (stepFrame cfg st f).1 := by
  unfold stepFrame
  split
  · exact inv_of_fields cfg st _ hinv rfl rfl rfl
  · rename_i c hc
    have hinv1 : Inv cfg { st with compressed := c } :=
      ⟨fun hd => by simp only; rw [rsvCheck_nodeflate cfg st _ _ c hd hc]; exact hinv.1 hd, hinv.2⟩
    dsimp only
    split
    · exact inv_of_fields cfg _ _ hinv1 rfl rfl rfl
    · split
      · exact inv_of_fields cfg _ _ hinv1 rfl rfl rfl
      · unfold dispatch
        split
        · split
          · exact inv_of_fields cfg _ _ hinv1 rfl rfl rfl
          · obtain ⟨a, b, c'⟩ := handle_fields cfg { st with compressed := c } f.opcode f.payload
            exact inv_of_fields cfg _ _ hinv1 a b c'
        · split
          · split
            · exact inv_of_fields cfg _ _ hinv1 rfl rfl rfl
            · rename_i buf hb
              split
              · obtain ⟨a, b, c'⟩ := handle_fields cfg { st with compressed := c, fragBuf := none } st.fragOp (buf ++ f.payload)
                refine ⟨fun hd => by rw [a]; exact hinv1.1 hd, fun hn => ?_⟩
                rw [b] at hn; exact absurd rfl hn
              · exact ⟨hinv1.1, fun _ => hinv.2 (by simp only at hb; rw [hb]; simp)⟩
          · split
            · exact inv_of_fields cfg _ _ hinv1 rfl rfl rfl
            · split
              · exact inv_of_fields cfg _ _ hinv1 rfl rfl rfl
              · rename_i hop
                split
                · refine ⟨hinv1.1, fun _ => ?_⟩
                  simp only [bne_iff_ne, ne_eq, Bool.and_eq_true, not_and, Decidable.not_not] at hop
                  simp only
                  by_cases h1 : f.opcode = 1
                  · left; exact h1
                  · right; exact hop h1
                · obtain ⟨a, b, c'⟩ := handle_fields cfg { st with compressed := c } f.opcode f.payload
                  exact inv_of_fields cfg _ _ hinv1 a b c'

theorem inv_run (cfg : Cfg) (fs : List Frame) : ∀ st, Inv cfg st → Inv cfg (runFrames cfg st fs).1 := by
  induction fs with
  | nil => intro st h; exact h
  | cons f fs ih =>
    intro st h
    simp only [runFrames]
    split
    · exact h
    · exact ih _ (inv_step cfg st f h)

theorem handle_complete_error (cfg : Cfg) (st : State) (op : Nat) (w : Bytes) (hop : isCtl op = false)
    (h : complete cfg st.dhist op st.compressed w = .error .badUtf8
         ∨ complete cfg st.dhist op st.compressed w = .error .tooBigAfter) : CutOff (handle cfg st op w) := by
  unfold complete at h
  unfold handle
  cases hz : st.compressed with
  | true =>
    simp only [hz, if_true, hop, Bool.not_false, Bool.and_self] at h ⊢
    cases hd : cfg.decomp st.dhist w with
    | ok d =>
      simp only [hd] at h ⊢
      by_cases h1 : op = 1
      · by_cases hv : validUtf8 d = true
        · simp [h1, hv] at h
        · simp [deliver, h1, hv, cutOff_abortWith]
      · simp [h1] at h
    | tooLarge => exact cutOff_abortWith _ _
    | error => simp [hd] at h
  | false =>
    simp only [hz, Bool.false_eq_true, if_false, Bool.false_and] at h ⊢
    by_cases h1 : op = 1
    · by_cases hv : validUtf8 w = true
      · simp [h1, hv] at h
      · simp [deliver, h1, hv, cutOff_abortWith]
    · simp [h1] at h

theorem content_violation_aborts (cfg : Cfg) (st : State) (hinv : Inv cfg st) (f : Frame)
    (hv : frameViolation cfg (st.fragBuf.map (·.length)) f = none) (op : Nat) (z : Bool) (w : Bytes)
    (hcomp : completes cfg (partOf st) f = some (op, z, w))
    (herr : complete cfg st.dhist op z w = .error .badUtf8 ∨ complete cfg st.dhist op z w = .error .tooBigAfter) :
    CutOff (stepFrame cfg st f) := by
  unfold completes at hcomp
  by_cases hcf : (isCtl f.opcode || !f.fin) = true
  · simp [hcf] at hcomp
  · simp only [hcf, Bool.false_eq_true, if_false] at hcomp
    have hc : isCtl f.opcode = false := by
      cases h : isCtl f.opcode <;> simp [h] at hcf ⊢
    have hfin : f.fin = true := by
      cases h : f.fin <;> simp [h, hc] at hcf ⊢
    unfold frameViolation at hv
    simp only [hc, Bool.false_eq_true, if_false] at hv
    cases hfb : st.fragBuf with
    | some buf =>
      simp only [partOf, hfb, Option.map_some, Option.some.injEq, Prod.mk.injEq] at hcomp
      obtain ⟨rfl, rfl, rfl⟩ := hcomp
      by_cases h0 : f.opcode = 0
      · simp only [h0, if_true, hfb, Option.map_some] at hv
        by_cases hr : f.rsv = 0
        · simp only [hr, ne_eq, not_true_eq_false, if_false] at hv
          have hsz : f.payload.length + buf.length ≤ cfg.maxSize := by
            by_cases hb : cfg.maxSize < f.payload.length + buf.length
            · simp [hb] at hv
            · omega
          have hf : f = { fin := true, rsv := 0, opcode := 0, ext := f.ext, mask := f.mask, payload := f.payload } := by
            cases f; simp_all
          rw [hf, cont_step cfg st buf f.payload true f.mask f.ext hfb hsz]
          simp only [if_true]
          have hop : isCtl st.fragOp = false := by
            rcases hinv.2 (by rw [hfb]; simp) with h | h <;> rw [h] <;> rfl
          exact handle_complete_error cfg { st with fragBuf := none } st.fragOp (buf ++ f.payload) hop herr
        · simp [hr] at hv
      · simp only [h0, if_false, hfb, Option.map_some] at hv
        by_cases hrz : (if cfg.deflate then f.rsv % 4 else f.rsv) = 0
        · simp only [hrz, ne_eq, not_true_eq_false, if_false] at hv
          split at hv <;> contradiction
        · simp [hrz] at hv
    | none =>
      simp only [partOf, hfb, Option.map_none, Option.some.injEq, Prod.mk.injEq] at hcomp
      obtain ⟨rfl, rfl, rfl⟩ := hcomp
      by_cases h0 : f.opcode = 0
      · simp only [h0, if_true, hfb, Option.map_none] at hv
        split at hv
        · contradiction
        · split at hv <;> contradiction
      · simp only [h0, if_false, hfb, Option.map_none] at hv
        by_cases hrz : (if cfg.deflate then f.rsv % 4 else f.rsv) = 0
        · simp only [hrz, ne_eq, not_true_eq_false, if_false] at hv
          by_cases hb : cfg.maxSize < f.payload.length
          · simp [hb] at hv
          · simp only [hb, if_false] at hv
            by_cases hop : f.opcode ≠ 1 ∧ f.opcode ≠ 2
            · simp [hop] at hv
            · have hrc : rsvCheck cfg st f.rsv f.opcode = some (cfg.deflate && f.rsv / 4 % 2 == 1) := by
                unfold rsvCheck
                cases hd : cfg.deflate with
                | true => simp [hd, hc, h0] at hrz ⊢; exact hrz
                | false => simp [hd] at hrz ⊢; exact ⟨hrz, hinv.1 hd⟩
              have hop' : (f.opcode != 1 && f.opcode != 2) = false := by
                by_cases h1 : f.opcode = 1
                · simp [h1]
                · have : f.opcode = 2 := by
                    by_cases h2 : f.opcode = 2
                    · exact h2
                    · exact absurd ⟨h1, h2⟩ hop
                  simp [this]
              simp only [stepFrame, hrc, hc, Bool.false_and, Bool.false_eq_true, if_false, tooBig, hfb,
                decide_eq_true_eq, hb, dispatch, h0, hop', hfin, Bool.not_true]
              exact handle_complete_error cfg
                { st with compressed := (cfg.deflate && f.rsv / 4 % 2 == 1), fragBuf := none } f.opcode f.payload hc herr
        · simp [hrz] at hv

theorem runFrames_append (cfg : Cfg) (a b : List Frame) : ∀ st,
    runFrames cfg st (a ++ b)
      = ((runFrames cfg (runFrames cfg st a).1 b).1, (runFrames cfg st a).2 ++ (runFrames cfg (runFrames cfg st a).1 b).2) := by
  induction a with
  | nil => intro st; simp [runFrames]
  | cons f fs ih =>
    intro st
    by_cases ho : (st.status != .open) = true
    · simp [runFrames, ho, runFrames_not_open cfg st b ho]
    · simp [runFrames, ho, ih, List.append_assoc]

end TornadoModel.C15
