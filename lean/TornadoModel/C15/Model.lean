/-
C15 — protocol violations cut the peer off without bad data.
The receive machine is the one of C14 (`TornadoModel.C14`: `stepFrame`, `runFrames`, `stepBytes`, `runBytes`,
with `Status.aborted` absorbing and the two size limits).  This file only adds the observations C15 talks
about: what was delivered, whether the connection was cut, which close code went out.
-/
import TornadoModel.C14.Model
namespace TornadoModel.C15
open TornadoModel.C14

/-- the close code written before the socket was shut (1009 for the two size limits), if any -/
def closeCodeOf : List Event → Option Nat
  | [] => none
  | .abort .big :: _ => some 1009
  | .abort .bigAfter :: _ => some 1009
  | _ :: es => closeCodeOf es

/-- what the application and the peer can observe of a run -/
structure Obs where
  delivered : List (Bool × Bytes)
  cut : Bool                       -- `_abort()` ran: the stream is closed
  closeCode : Option Nat
  deriving Repr, BEq, DecidableEq

def observe (r : State × List Event) : Obs :=
  { delivered := messagesOf r.2, cut := r.1.status == .aborted, closeCode := closeCodeOf r.2 }

end TornadoModel.C15
