/-
C15 — WebSocket peers that violate the protocol are cut off without bad data: the property theorems.
`Spec.Violating cfg st f` (C15/Spec.lean) = the frame is illegal by itself in the reader's terms
(`frameViolation`: reserved bit without extension, fragmented / over-long control frame, continuation without a
start, new data frame inside a fragmented message, unknown opcode, over `max_message_size` on the wire), or it
completes a text message that is not UTF-8, or a message too large after decompression.
-/
import TornadoModel.C15.Lemmas
import TornadoModel.C15.Refine
import TornadoModel.C14.Props
namespace TornadoModel.C15
open TornadoModel.C14 Spec

/-- every listed violation, in every reachable receive state, aborts the connection at that very frame, and
that frame delivers nothing -/
theorem violation_aborts (cfg : Cfg) (st : State) (hinv : Inv cfg st) (f : Frame) (hv : Violating cfg st f) :
    (stepFrame cfg st f).1.status = .aborted ∧ messagesOf (stepFrame cfg st f).2 = [] := by
  rcases hv with ⟨k, hk⟩ | ⟨hnone, op, z, w, hc, herr⟩
  · exact header_violation_aborts cfg st f k hk
  · exact content_violation_aborts cfg st hinv f hnone op z w hc herr

/-- the invariant used above holds in every state the machine can reach -/
theorem reachable_inv (cfg : Cfg) (fs : List Frame) : Inv cfg (runFrames cfg init fs).1 :=
  inv_run cfg fs init (inv_init cfg)

/-- aborted is absorbing: whatever frames follow, nothing happens any more -/
theorem nothing_after_abort (cfg : Cfg) (st : State) (h : st.status = .aborted) (fs : List Frame) :
    runFrames cfg st fs = (st, []) :=
  runFrames_not_open cfg st fs (by rw [h]; rfl)

/-- CUT OFF WITHOUT BAD DATA.  For an arbitrary prefix `pre` that leaves the connection open, a violating
frame `f`, and an arbitrary suffix `post`: the connection ends aborted, and the messages delivered are exactly
the messages the prefix alone delivers — nothing from `f` or from any later frame (`nothing_after`), every
message completed before `f` unchanged (`prefix_intact`). -/
theorem cut_off (cfg : Cfg) (pre : List Frame) (f : Frame) (post : List Frame)
    (hopen : (runFrames cfg init pre).1.status = .open)
    (hv : Violating cfg (runFrames cfg init pre).1 f) :
    (runFrames cfg init (pre ++ f :: post)).1.status = .aborted
    ∧ messagesOf (runFrames cfg init (pre ++ f :: post)).2 = messagesOf (runFrames cfg init pre).2 := by
  obtain ⟨ha, hm⟩ := violation_aborts cfg _ (reachable_inv cfg pre) f hv
  rw [runFrames_append, runFrames_cons_open cfg _ hopen, nothing_after_abort cfg _ ha post]
  simp [messagesOf_append, hm, ha]

/-- `prefix_intact` in the form of the property text: when the prefix is a well-formed script (C14), what is
delivered in the end is exactly the script's messages, in order -/
theorem prefix_intact (cfg : Cfg) (comp : C14.Spec.Comp) (hc : C14.Spec.Codec cfg comp) (ms : List C14.Spec.SMsg)
    (hok : C14.Spec.scriptOk cfg comp [] ms) (f : Frame) (post : List Frame)
    (hv : Violating cfg (runFrames cfg init (C14.Spec.scriptFrames ms)).1 f) :
    (runFrames cfg init (C14.Spec.scriptFrames ms ++ f :: post)).1.status = .aborted
    ∧ messagesOf (runFrames cfg init (C14.Spec.scriptFrames ms ++ f :: post)).2 = C14.Spec.expected ms := by
  obtain ⟨ho, hm⟩ := messages_intact cfg comp hc ms hok
  obtain ⟨h1, h2⟩ := cut_off cfg _ f post ho hv
  exact ⟨h1, by rw [h2, hm]⟩

/-- the same on the wire bytes -/
theorem cut_off_bytes (cfg : Cfg) (pre : List Frame) (f : Frame) (post : List Frame)
    (hwf : ∀ g ∈ pre ++ f :: post, g.wf)
    (hopen : (runFrames cfg init pre).1.status = .open)
    (hv : Violating cfg (runFrames cfg init pre).1 f) (fuel : Nat)
    (hfuel : ((pre ++ f :: post).flatMap encodeFrame).length < fuel) :
    (runBytes cfg fuel init ((pre ++ f :: post).flatMap encodeFrame)).1.status = .aborted
    ∧ messagesOf (runBytes cfg fuel init ((pre ++ f :: post).flatMap encodeFrame)).2.1
        = messagesOf (runFrames cfg init pre).2 := by
  obtain ⟨b1, b2⟩ := runBytes_flatMap cfg _ hwf fuel init hfuel
  obtain ⟨h1, h2⟩ := cut_off cfg pre f post hopen hv
  rw [b1, b2]; exact ⟨h1, h2⟩

/-- THE MACHINE REFINES THE STRICT READER.  On every frame list (any frames at all, legal or not, in any order)
the receive machine delivers exactly the messages the strict RFC 6455 / RFC 7692 batch reader `Spec.spec`
delivers, and it ends aborted exactly when the reader reports a violation.  (The only proviso: the reader's
verdict is not `corrupt` — a compressed payload that is no deflate stream, where `zlib.error` escapes the loop;
see docs/C15.md.) -/
theorem model_refines_strict :
  ∀ (cfg : Cfg) (fs : List Frame),
    (Spec.spec cfg fs).violation.all (fun v => v.2 != .corrupt) →
    messagesOf (runFrames cfg init fs).2 = (Spec.spec cfg fs).delivered
    ∧ ((Spec.spec cfg fs).violation.isSome ↔ (runFrames cfg init fs).1.status = .aborted) := by
  intro cfg fs hnc
  obtain ⟨h1, h2, _⟩ := refine_gen cfg fs 0 init rfl (inv_init cfg) hnc
  exact ⟨h1, h2⟩

/-- SAME ABORT POINT.  When the strict reader names frame `n` as the first violation, the machine is still open
after the `n` frames before it and aborted once frame `n` itself has been read: it cuts the peer off at the very
frame the RFC reader objects to — not earlier, not later. -/
theorem same_abort_point (cfg : Cfg) (fs : List Frame) (n : Nat) (k : Spec.Kind)
    (h : (Spec.spec cfg fs).violation = some (n, k)) (hk : k ≠ .corrupt) :
    (runFrames cfg init (fs.take n)).1.status = .open
    ∧ (runFrames cfg init (fs.take (n + 1))).1.status = .aborted := by
  have hk' : (k != Spec.Kind.corrupt) = true := by cases k <;> first | rfl | exact absurd rfl hk
  have hnc : (Spec.spec cfg fs).violation.all (fun v => v.2 != .corrupt) = true := by rw [h]; exact hk'
  obtain ⟨_, _, h3⟩ := refine_gen cfg fs 0 init rfl (inv_init cfg) hnc
  have h3' : (Spec.spec cfg fs).violation.map (·.1) = abortAt cfg 0 init fs := h3
  rw [h] at h3'
  obtain ⟨_, a, b⟩ := abortAt_spec cfg fs 0 init n h3'.symm
  exact ⟨a, b⟩

/-! ## non-vacuity: each listed violation is an instance of `Violating`, after a non-trivial valid prefix -/

def exCfg : Cfg := { deflate := true, maxSize := 10, decomp := fun _ z => if z.length < 3 then .ok (z ++ z) else .tooLarge }
/-- a complete binary message, a ping, then the first fragment of a text message -/
def exPre : List Frame :=
  [⟨true, 0, 2, 0, none, [1, 2]⟩, ⟨true, 0, 9, 0, none, [7]⟩, ⟨false, 0, 1, 0, some ⟨1, 2, 3, 4⟩, [104]⟩]

example : (runFrames exCfg init exPre).1.status = .open := by decide
example : messagesOf (runFrames exCfg init exPre).2 = [(false, [1, 2])] := by decide

/-- reserved bit on a continuation frame (RSV1 has no meaning there even with the extension) -/
example : Violating exCfg (runFrames exCfg init exPre).1 ⟨true, 4, 0, 0, none, []⟩ := Or.inl ⟨.rsv, by decide⟩
/-- fragmented control frame -/
example : Violating exCfg (runFrames exCfg init exPre).1 ⟨false, 0, 9, 0, none, []⟩ := Or.inl ⟨.ctlFragmented, by decide⟩
/-- control frame with a 16-bit length -/
example : Violating exCfg (runFrames exCfg init exPre).1 ⟨true, 0, 9, 1, none, []⟩ := Or.inl ⟨.ctlTooLong, by decide⟩
/-- new data frame inside the fragmented message -/
example : Violating exCfg (runFrames exCfg init exPre).1 ⟨true, 0, 2, 0, none, [1]⟩ := Or.inl ⟨.dataInFrag, by decide⟩
/-- unknown control opcode -/
example : Violating exCfg (runFrames exCfg init exPre).1 ⟨true, 0, 11, 0, none, []⟩ := Or.inl ⟨.unknownOpcode, by decide⟩
/-- the fragmented message grows above max_message_size -/
example : Violating exCfg (runFrames exCfg init exPre).1 ⟨false, 0, 0, 0, none, List.replicate 10 0⟩ :=
  Or.inl ⟨.tooBig, by decide⟩
/-- the completed text message is not UTF-8 -/
example : Violating exCfg (runFrames exCfg init exPre).1 ⟨true, 0, 0, 0, none, [255]⟩ :=
  Or.inr ⟨by decide, 1, false, [104, 255], by decide, Or.inl rfl⟩
/-- continuation without a start; unknown data opcode; too large after decompression (fresh connection) -/
example : Violating exCfg init ⟨true, 0, 0, 0, none, []⟩ := Or.inl ⟨.contNoStart, by decide⟩
example : Violating exCfg init ⟨false, 0, 5, 0, none, []⟩ := Or.inl ⟨.unknownOpcode, by decide⟩
example : Violating exCfg init ⟨true, 4, 2, 0, none, [1, 2, 3]⟩ :=
  Or.inr ⟨by decide, 2, true, [1, 2, 3], by decide, Or.inr rfl⟩
/-- and `cut_off` applies: prefix message kept, nothing else, aborted -/
example : messagesOf (runFrames exCfg init (exPre ++ ⟨true, 0, 0, 0, none, [255]⟩ :: [⟨true, 0, 2, 0, none, [9]⟩])).2
    = [(false, [1, 2])] := by decide

/-- prefix (message, ping, first fragment), a final fragment making the text invalid UTF-8, a suffix -/
def exRun : List Frame := exPre ++ [⟨true, 0, 0, 0, none, [255]⟩, ⟨true, 0, 2, 0, none, [9]⟩]

/-- `model_refines_strict` is not vacuous: its hypothesis holds on a run with a prefix, a violation and a suffix
(reader: one message, violation `badUtf8` at frame 3), and on a run without violation -/
example : (Spec.spec exCfg exRun).violation.all (fun v => v.2 != .corrupt) = true := by decide
example : Spec.spec exCfg exRun = ⟨[(false, [1, 2])], some (3, .badUtf8)⟩ := by decide
/-- ... and `same_abort_point` on it: open after frames 0–2, aborted by frame 3 -/
example : (runFrames exCfg init (exRun.take 3)).1.status = .open
    ∧ (runFrames exCfg init (exRun.take 4)).1.status = .aborted :=
  same_abort_point exCfg exRun 3 .badUtf8 (by decide) (by decide)
example : Spec.spec exCfg (exPre ++ [⟨true, 0, 0, 0, none, [105]⟩]) = ⟨[(false, [1, 2]), (true, [104, 105])], none⟩ := by
  decide

end TornadoModel.C15
