/- C15 driver.
   C15 strict [deflate,max] [frame,…] table   → [[text,x<data>],…] ~|[index,KIND]     (Spec.spec, the oracle)
   C15 observe [deflate,max] [frame,…] table  → [[text,x<data>],…] cut closeCode|~     (Model: runFrames + observe)
   (frames and table as in the C14 driver; the receive machine itself is driven through `C14 recv`)
-/
import TornadoModel.Base.Wire
import TornadoModel.C14.Drv
import TornadoModel.C15.Spec
namespace TornadoModel.C15.Drv
open TornadoModel TornadoModel.Wire TornadoModel.C14 TornadoModel.C15

def encKind : Spec.Kind → V
  | .rsv => .atom "rsv"
  | .ctlFragmented => .atom "ctlFragmented"
  | .ctlTooLong => .atom "ctlTooLong"
  | .contNoStart => .atom "contNoStart"
  | .dataInFrag => .atom "dataInFrag"
  | .unknownOpcode => .atom "unknownOpcode"
  | .tooBig => .atom "tooBig"
  | .badUtf8 => .atom "badUtf8"
  | .tooBigAfter => .atom "tooBigAfter"
  | .corrupt => .atom "corrupt"

def encMsgs (ms : List (Bool × Bytes)) : V := .list (ms.map (fun (t, d) => .list [V.ofBool t, V.ofByteNats d]))

def handle (toks : List String) : String :=
  match parseArgs (toks.drop 1) with
  | none => err "bad-arg"
  | some args =>
    match toks.head?, args with
    | some cmd, [c, fs, t] =>
      match C14.Drv.decTable t with
      | none => err "bad-table"
      | some tbl =>
        match C14.Drv.decCfg c tbl, fs.list? >>= (·.mapM C14.Drv.decFrame) with
        | some cfg, some l =>
          if cmd == "strict" then
            let r := Spec.spec cfg l
            ok [encMsgs r.delivered, V.ofOpt (fun (i, k) => .list [V.ofNat i, encKind k]) r.violation]
          else if cmd == "observe" then
            let o := observe (runFrames cfg init l)
            ok [encMsgs o.delivered, V.ofBool o.cut, V.ofOpt V.ofNat o.closeCode]
          else err "bad-cmd"
        | _, _ => err "bad-arg"
    | _, _ => err "bad-cmd"

end TornadoModel.C15.Drv
