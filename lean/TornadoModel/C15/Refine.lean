/- C15 — the receive machine refines the strict batch reader: step lemmas for legal frames and the simulation. -/
import TornadoModel.C15.Lemmas
namespace TornadoModel.C15
open TornadoModel.C14 Spec

/-! ### what the machine does on a frame the reader finds legal -/

/-- a legal control frame is a final close / ping / pong and goes straight to `deliver` -/
theorem step_legal_ctl (cfg : Cfg) (st : State) (f : Frame) (hc : isCtl f.opcode = true)
    (hv : frameViolation cfg (st.fragBuf.map (·.length)) f = none) :
    (f.opcode = 8 ∨ f.opcode = 9 ∨ f.opcode = 10) ∧ stepFrame cfg st f = deliver st f.opcode f.payload := by
  unfold frameViolation at hv
  simp only [hc, if_true] at hv
  by_cases hr : f.rsv = 0
  · simp only [hr, ne_eq, not_true_eq_false, if_false] at hv
    by_cases he : 1 ≤ f.ext
    · simp [he] at hv
    · simp only [he, if_false] at hv
      by_cases hb : cfg.maxSize < f.payload.length
      · simp [hb] at hv
      · simp only [hb, if_false] at hv
        cases hf : f.fin with
        | false => simp [hf] at hv
        | true =>
          simp only [hf, Bool.true_eq_false, if_false] at hv
          by_cases hop : f.opcode ≠ 8 ∧ f.opcode ≠ 9 ∧ f.opcode ≠ 10
          · simp [hop] at hv
          · have hrsv : rsvCheck cfg st f.rsv f.opcode = some st.compressed := by simp [rsvCheck, hc, hr]
            have hbig : tooBig cfg { st with compressed := st.compressed } f.opcode f.payload.length = false := by
              unfold tooBig; cases st.fragBuf <;> simp [hc] <;> omega
            refine ⟨by omega, ?_⟩
            simp only [stepFrame, hrsv, hc, Bool.true_and, he, decide_false, Bool.false_eq_true, if_false, hbig,
              dispatch, if_true, hf, Bool.not_true, handle, Bool.and_false]
  · simp [hr] at hv

/-- a legal data frame while a fragmented message is open is a continuation within the size limit -/
theorem step_legal_cont (cfg : Cfg) (st : State) (f : Frame) (buf : Bytes) (hc : isCtl f.opcode = false)
    (hfb : st.fragBuf = some buf)
    (hv : frameViolation cfg (st.fragBuf.map (·.length)) f = none) :
    stepFrame cfg st f = if f.fin then handle cfg { st with fragBuf := none } st.fragOp (buf ++ f.payload)
                         else ({ st with fragBuf := some (buf ++ f.payload) }, []) := by
  unfold frameViolation at hv
  simp only [hc, Bool.false_eq_true, if_false, hfb, Option.map_some] at hv
  by_cases h0 : f.opcode = 0
  · simp only [h0, if_true] at hv
    by_cases hr : f.rsv = 0
    · simp only [hr, ne_eq, not_true_eq_false, if_false] at hv
      by_cases hb : cfg.maxSize < f.payload.length + buf.length
      · simp [hb] at hv
      · have hf : f = { fin := f.fin, rsv := 0, opcode := 0, ext := f.ext, mask := f.mask, payload := f.payload } := by
          cases f; simp_all
        rw [hf, cont_step cfg st buf f.payload f.fin f.mask f.ext hfb (by omega)]
    · simp [hr] at hv
  · simp only [h0, if_false] at hv
    by_cases hrz : (if cfg.deflate then f.rsv % 4 else f.rsv) = 0
    · simp only [hrz, ne_eq, not_true_eq_false, if_false] at hv
      split at hv <;> contradiction
    · simp [hrz] at hv

/-- a legal data frame with no message open starts a text or binary message -/
theorem step_legal_first (cfg : Cfg) (st : State) (hinv : Inv cfg st) (f : Frame) (hc : isCtl f.opcode = false)
    (hfb : st.fragBuf = none)
    (hv : frameViolation cfg (st.fragBuf.map (·.length)) f = none) :
    (f.opcode = 1 ∨ f.opcode = 2) ∧
    stepFrame cfg st f =
      if f.fin then handle cfg { st with compressed := (cfg.deflate && f.rsv / 4 % 2 == 1) } f.opcode f.payload
      else ({ st with compressed := (cfg.deflate && f.rsv / 4 % 2 == 1), fragBuf := some f.payload,
                      fragOp := f.opcode }, []) := by
  unfold frameViolation at hv
  simp only [hc, Bool.false_eq_true, if_false, hfb, Option.map_none] at hv
  by_cases h0 : f.opcode = 0
  · simp only [h0, if_true] at hv
    split at hv
    · contradiction
    · split at hv <;> contradiction
  · simp only [h0, if_false] at hv
    by_cases hrz : (if cfg.deflate then f.rsv % 4 else f.rsv) = 0
    · simp only [hrz, ne_eq, not_true_eq_false, if_false] at hv
      by_cases hb : cfg.maxSize < f.payload.length
      · simp [hb] at hv
      · simp only [hb, if_false] at hv
        by_cases hop : f.opcode ≠ 1 ∧ f.opcode ≠ 2
        · simp [hop] at hv
        · have hrc : rsvCheck cfg st f.rsv f.opcode = some (cfg.deflate && f.rsv / 4 % 2 == 1) := by
            unfold rsvCheck
            cases hd : cfg.deflate with
            | true => simp [hd, hc, h0] at hrz ⊢; exact hrz
            | false => simp [hd] at hrz ⊢; exact ⟨hrz, hinv.1 hd⟩
          have hop12 : f.opcode = 1 ∨ f.opcode = 2 := by omega
          have hop' : (f.opcode != 1 && f.opcode != 2) = false := by
            rcases hop12 with h | h <;> simp [h]
          refine ⟨hop12, ?_⟩
          simp only [stepFrame, hrc, hc, Bool.false_and, Bool.false_eq_true, if_false, tooBig, hfb,
            decide_eq_true_eq, hb, dispatch, h0, hop']
          cases f.fin <;> simp
    · simp [hrz] at hv

/-- a completed data message the reader accepts is delivered as is, and the decompressor history advances alike -/
theorem handle_complete_ok (cfg : Cfg) (st : State) (op : Nat) (w : Bytes) (hop : op = 1 ∨ op = 2)
    (m : Bool × Bytes) (h' : List Bytes)
    (h : complete cfg st.dhist op st.compressed w = .ok (m, h')) :
    handle cfg st op w = ({ st with dhist := h' }, [.message m.1 m.2]) := by
  have hc : isCtl op = false := by rcases hop with h | h <;> rw [h] <;> rfl
  have h21 : ¬ ((2 : Nat) = 1) := by decide
  obtain ⟨s, fb, fo, c, dh⟩ := st
  unfold complete at h
  unfold handle
  simp only at h ⊢
  cases c with
  | true =>
    simp only [if_true, hc, Bool.not_false, Bool.and_self] at h ⊢
    cases hd : cfg.decomp dh w with
    | ok d =>
      simp only [hd] at h ⊢
      rcases hop with h1 | h2
      · by_cases hv : validUtf8 d = true
        · simp only [h1, if_true, hv, Except.ok.injEq, Prod.mk.injEq] at h
          obtain ⟨rfl, rfl⟩ := h
          simp [deliver, h1, hv]
        · simp [h1, hv] at h
      · simp only [h2, h21, if_false, Except.ok.injEq, Prod.mk.injEq] at h
        obtain ⟨rfl, rfl⟩ := h
        simp [deliver, h2]
    | tooLarge => simp [hd] at h
    | error => simp [hd] at h
  | false =>
    simp only [Bool.false_eq_true, if_false, Bool.false_and] at h ⊢
    rcases hop with h1 | h2
    · by_cases hv : validUtf8 w = true
      · simp only [h1, if_true, hv, Except.ok.injEq, Prod.mk.injEq] at h
        obtain ⟨rfl, rfl⟩ := h
        simp [deliver, h1, hv]
      · simp [h1, hv] at h
    · simp only [h2, h21, if_false, Except.ok.injEq, Prod.mk.injEq] at h
      obtain ⟨rfl, rfl⟩ := h
      simp [deliver, h2]

/-- `complete` only ever fails with one of its three kinds -/
theorem complete_error_kind (cfg : Cfg) (hist : List Bytes) (op : Nat) (z : Bool) (w : Bytes) (k : Kind)
    (h : complete cfg hist op z w = .error k) : k = .badUtf8 ∨ k = .tooBigAfter ∨ k = .corrupt := by
  unfold complete at h
  cases z with
  | true =>
    simp only [if_true] at h
    cases hd : cfg.decomp hist w with
    | ok d =>
      simp only [hd] at h
      split at h
      · split at h
        · contradiction
        · simp only [Except.error.injEq] at h; exact Or.inl h.symm
      · contradiction
    | tooLarge => simp only [hd, Except.error.injEq] at h; exact Or.inr (Or.inl h.symm)
    | error => simp only [hd, Except.error.injEq] at h; exact Or.inr (Or.inr h.symm)
  | false =>
    simp only [Bool.false_eq_true, if_false] at h
    split at h
    · split at h
      · contradiction
      · simp only [Except.error.injEq] at h; exact Or.inl h.symm
    · contradiction

/-! ### one-step equations of the strict reader -/

theorem strict_viol (cfg : Cfg) (i : Nat) (ctx : Ctx) (f : Frame) (fs : List Frame) (k : Kind)
    (h : frameViolation cfg (ctx.part.map (fun p => p.2.2.length)) f = some k) :
    strict cfg i ctx (f :: fs) = ⟨[], some (i, k)⟩ := by
  simp [strict, h]

theorem strict_close (cfg : Cfg) (i : Nat) (ctx : Ctx) (f : Frame) (fs : List Frame)
    (h : frameViolation cfg (ctx.part.map (fun p => p.2.2.length)) f = none) (h8 : f.opcode = 8) :
    strict cfg i ctx (f :: fs) = ⟨[], none⟩ := by
  have hc : isCtl f.opcode = true := by rw [h8]; rfl
  have hc8 : isCtl 8 = true := rfl
  simp [strict, h, h8, hc8]

theorem strict_ctl (cfg : Cfg) (i : Nat) (ctx : Ctx) (f : Frame) (fs : List Frame)
    (h : frameViolation cfg (ctx.part.map (fun p => p.2.2.length)) f = none) (hc : isCtl f.opcode = true)
    (h8 : f.opcode ≠ 8) :
    strict cfg i ctx (f :: fs) = strict cfg (i + 1) ctx fs := by
  simp [strict, h, hc, h8]

theorem strict_nonfin_some (cfg : Cfg) (i op : Nat) (z : Bool) (buf : Bytes) (hist : List Bytes) (f : Frame)
    (fs : List Frame) (h : frameViolation cfg (some buf.length) f = none) (hc : isCtl f.opcode = false)
    (hf : f.fin = false) :
    strict cfg i ⟨some (op, z, buf), hist⟩ (f :: fs) = strict cfg (i + 1) ⟨some (op, z, buf ++ f.payload), hist⟩ fs := by
  simp [strict, h, hc, hf]

theorem strict_nonfin_none (cfg : Cfg) (i : Nat) (hist : List Bytes) (f : Frame)
    (fs : List Frame) (h : frameViolation cfg none f = none) (hc : isCtl f.opcode = false)
    (hf : f.fin = false) :
    strict cfg i ⟨none, hist⟩ (f :: fs)
      = strict cfg (i + 1) ⟨some (f.opcode, cfg.deflate && f.rsv / 4 % 2 == 1, f.payload), hist⟩ fs := by
  simp [strict, h, hc, hf]

theorem strict_fin_some (cfg : Cfg) (i op : Nat) (z : Bool) (buf : Bytes) (hist : List Bytes) (f : Frame)
    (fs : List Frame) (h : frameViolation cfg (some buf.length) f = none) (hc : isCtl f.opcode = false)
    (hf : f.fin = true) :
    strict cfg i ⟨some (op, z, buf), hist⟩ (f :: fs) =
      match complete cfg hist op z (buf ++ f.payload) with
      | .error k => ⟨[], some (i, k)⟩
      | .ok (m, hist') => ⟨m :: (strict cfg (i + 1) ⟨none, hist'⟩ fs).delivered,
                           (strict cfg (i + 1) ⟨none, hist'⟩ fs).violation⟩ := by
  cases hcm : complete cfg hist op z (buf ++ f.payload) with
  | error k => simp [strict, h, hc, hf, hcm]
  | ok p => obtain ⟨m, h'⟩ := p; simp [strict, h, hc, hf, hcm]

theorem strict_fin_none (cfg : Cfg) (i : Nat) (hist : List Bytes) (f : Frame)
    (fs : List Frame) (h : frameViolation cfg none f = none) (hc : isCtl f.opcode = false)
    (hf : f.fin = true) :
    strict cfg i ⟨none, hist⟩ (f :: fs) =
      match complete cfg hist f.opcode (cfg.deflate && f.rsv / 4 % 2 == 1) f.payload with
      | .error k => ⟨[], some (i, k)⟩
      | .ok (m, hist') => ⟨m :: (strict cfg (i + 1) ⟨none, hist'⟩ fs).delivered,
                           (strict cfg (i + 1) ⟨none, hist'⟩ fs).violation⟩ := by
  cases hcm : complete cfg hist f.opcode (cfg.deflate && f.rsv / 4 % 2 == 1) f.payload with
  | error k => simp [strict, h, hc, hf, hcm]
  | ok p => obtain ⟨m, h'⟩ := p; simp [strict, h, hc, hf, hcm]

/-! ### the simulation -/

/-- the reader's context = the machine's state seen through `partOf` / `dhist` -/
def ctxOf (st : State) : Ctx := { part := partOf st, hist := st.dhist }

theorem ctxOf_init : ctxOf init = {} := rfl

theorem ctxOf_len (st : State) : (ctxOf st).part.map (fun p => p.2.2.length) = st.fragBuf.map (·.length) := by
  simp only [ctxOf, partOf]; cases st.fragBuf <;> rfl

/-- the index (counted from `i`) of the frame at which the machine aborts, if it does -/
def abortAt (cfg : Cfg) : Nat → State → List Frame → Option Nat
  | _, _, [] => none
  | i, st, f :: fs =>
    if st.status != .open then none
    else if (stepFrame cfg st f).1.status == .aborted then some i
    else abortAt cfg (i + 1) (stepFrame cfg st f).1 fs

theorem abortAt_not_open (cfg : Cfg) (i : Nat) (st : State) (fs : List Frame) (h : (st.status != .open) = true) :
    abortAt cfg i st fs = none := by
  cases fs <;> simp [abortAt, h]

theorem abortAt_cons (cfg : Cfg) (i : Nat) (st : State) (f : Frame) (fs : List Frame) (hop : st.status = .open) :
    abortAt cfg i st (f :: fs)
      = if (stepFrame cfg st f).1.status == .aborted then some i else abortAt cfg (i + 1) (stepFrame cfg st f).1 fs := by
  have : (st.status != .open) = false := by rw [hop]; rfl
  simp [abortAt, this]

theorem status_open_of (s : Status) (h : ¬ (s != .open) = true) : s = .open := by
  cases s <;> first | rfl | exact absurd (by decide) h

theorem status_aborted_of (s : Status) (h : (s == .aborted) = true) : s = .aborted := by
  cases s <;> first | rfl | exact absurd h (by decide)

/-- what `abortAt` means: open after the frames before that index, aborted after the frame at it -/
theorem abortAt_spec (cfg : Cfg) (fs : List Frame) : ∀ (i : Nat) (st : State) (n : Nat),
    abortAt cfg i st fs = some n →
    i ≤ n ∧ (runFrames cfg st (fs.take (n - i))).1.status = .open
      ∧ (runFrames cfg st (fs.take (n - i + 1))).1.status = .aborted := by
  induction fs with
  | nil => intro i st n h; simp [abortAt] at h
  | cons f fs ih =>
    intro i st n h
    by_cases ho : (st.status != .open) = true
    · rw [abortAt_not_open cfg i st _ ho] at h; contradiction
    · have hop : st.status = .open := status_open_of _ ho
      rw [abortAt_cons cfg i st f fs hop] at h
      by_cases ha : ((stepFrame cfg st f).1.status == .aborted) = true
      · simp only [ha, if_true, Option.some.injEq] at h
        subst h
        refine ⟨Nat.le_refl _, ?_, ?_⟩
        · simp [runFrames, hop]
        · have e : (stepFrame cfg st f).1.status = .aborted := status_aborted_of _ ha
          simp [runFrames, ho, e]
      · simp only [ha, Bool.false_eq_true, if_false] at h
        obtain ⟨h1, h2, h3⟩ := ih (i + 1) _ n h
        have e : n - i = (n - (i + 1)) + 1 := by omega
        refine ⟨by omega, ?_, ?_⟩
        · rw [e, List.take_succ_cons, runFrames_cons_open cfg st hop]; exact h2
        · rw [e, List.take_succ_cons, runFrames_cons_open cfg st hop]; exact h3

/-- a step that cuts the connection: nothing more is delivered, the run ends aborted, at this frame -/
theorem run_cutOff (cfg : Cfg) (i : Nat) (st : State) (hop : st.status = .open) (f : Frame) (fs : List Frame)
    (h : CutOff (stepFrame cfg st f)) :
    messagesOf (runFrames cfg st (f :: fs)).2 = [] ∧ (runFrames cfg st (f :: fs)).1.status = .aborted
    ∧ abortAt cfg i st (f :: fs) = some i := by
  obtain ⟨ha, hm⟩ := h
  rw [runFrames_cons_open cfg st hop, runFrames_not_open cfg _ fs (by rw [ha]; rfl), abortAt_cons cfg i st f fs hop]
  simp [hm, ha, aborted_beq]

/-- a step that leaves the loop without `_abort()` (close received, or an exception escaped) -/
theorem run_left (cfg : Cfg) (i : Nat) (st : State) (hop : st.status = .open) (f : Frame) (fs : List Frame)
    (hs : (stepFrame cfg st f).1.status = .closed ∨ (stepFrame cfg st f).1.status = .crashed)
    (hm : messagesOf (stepFrame cfg st f).2 = []) :
    messagesOf (runFrames cfg st (f :: fs)).2 = [] ∧ (runFrames cfg st (f :: fs)).1.status ≠ .aborted
    ∧ abortAt cfg i st (f :: fs) = none := by
  have hno : ((stepFrame cfg st f).1.status != .open) = true := by rcases hs with h | h <;> rw [h] <;> rfl
  have hna : ((stepFrame cfg st f).1.status == .aborted) = false := by rcases hs with h | h <;> rw [h] <;> rfl
  rw [runFrames_cons_open cfg st hop, runFrames_not_open cfg _ fs hno, abortAt_cons cfg i st f fs hop,
    abortAt_not_open cfg _ _ fs hno]
  refine ⟨by simp [hm], ?_, by simp [hna]⟩
  rcases hs with h | h <;> simp [h]

/-- the statement proved by induction, for the run from any open reachable state: same messages, aborted iff the
reader reports a violation, and aborted at the very frame the reader names -/
def Refines (cfg : Cfg) (fs : List Frame) : Prop :=
  ∀ (i : Nat) (st : State), st.status = .open → Inv cfg st →
    (strict cfg i (ctxOf st) fs).violation.all (fun v => v.2 != .corrupt) = true →
    messagesOf (runFrames cfg st fs).2 = (strict cfg i (ctxOf st) fs).delivered
    ∧ ((strict cfg i (ctxOf st) fs).violation.isSome = true ↔ (runFrames cfg st fs).1.status = .aborted)
    ∧ (strict cfg i (ctxOf st) fs).violation.map (·.1) = abortAt cfg i st fs

/-- the part shared by both completion cases (`st'` = the state `handle` runs in) -/
theorem refine_complete (cfg : Cfg) (st st' : State) (hop : st.status = .open) (f : Frame) (fs : List Frame)
    (op : Nat) (w : Bytes) (hop12 : op = 1 ∨ op = 2)
    (hstep : stepFrame cfg st f = handle cfg st' op w)
    (hst' : st'.status = .open) (hinv' : Inv cfg st') (hfb' : st'.fragBuf = none) (i : Nat) (R : Result)
    (hR : R = match complete cfg st'.dhist op st'.compressed w with
      | .error k => ⟨[], some (i, k)⟩
      | .ok (m, hist') => ⟨m :: (strict cfg (i + 1) ⟨none, hist'⟩ fs).delivered,
                           (strict cfg (i + 1) ⟨none, hist'⟩ fs).violation⟩)
    (hnc : R.violation.all (fun v => v.2 != .corrupt) = true)
    (ih : Refines cfg fs) :
    messagesOf (runFrames cfg st (f :: fs)).2 = R.delivered
    ∧ (R.violation.isSome = true ↔ (runFrames cfg st (f :: fs)).1.status = .aborted)
    ∧ R.violation.map (·.1) = abortAt cfg i st (f :: fs) := by
  have hc : isCtl op = false := by rcases hop12 with h | h <;> rw [h] <;> rfl
  cases hcomp : complete cfg st'.dhist op st'.compressed w with
  | error k =>
    simp only [hcomp] at hR
    rw [hR] at hnc ⊢
    rcases complete_error_kind cfg _ _ _ _ k hcomp with hk | hk | hk
    · obtain ⟨h1, h2, h3⟩ := run_cutOff cfg i st hop f fs
        (by rw [hstep]; exact handle_complete_error cfg st' op w hc (Or.inl (hk ▸ hcomp)))
      simp [h1, h2, h3]
    · obtain ⟨h1, h2, h3⟩ := run_cutOff cfg i st hop f fs
        (by rw [hstep]; exact handle_complete_error cfg st' op w hc (Or.inr (hk ▸ hcomp)))
      simp [h1, h2, h3]
    · subst hk; simp at hnc; exact absurd hnc (by decide)
  | ok mh =>
    obtain ⟨m, h'⟩ := mh
    simp only [hcomp] at hR
    rw [hR] at hnc ⊢
    have hh := handle_complete_ok cfg st' op w hop12 m h' hcomp
    have hctx : ctxOf { st' with dhist := h' } = ⟨none, h'⟩ := by simp [ctxOf, partOf, hfb']
    have hna : (st'.status == .aborted) = false := by rw [hst']; rfl
    obtain ⟨i1, i2, i3⟩ := ih (i + 1) { st' with dhist := h' } hst' ⟨hinv'.1, hinv'.2⟩ (by rw [hctx]; exact hnc)
    rw [hctx] at i1 i2 i3
    rw [runFrames_cons_open cfg st hop, abortAt_cons cfg i st f fs hop, hstep, hh]
    simp only [List.singleton_append, messagesOf, hna, Bool.false_eq_true, if_false]
    exact ⟨by rw [i1], i2, i3⟩

theorem refine_gen (cfg : Cfg) (fs : List Frame) : Refines cfg fs := by
  induction fs with
  | nil =>
    intro i st hop _ _
    simp [runFrames, strict, messagesOf, hop, abortAt]
  | cons f fs ih =>
    intro i st hop hinv hnc
    have hlen := ctxOf_len st
    have hna : (st.status == .aborted) = false := by rw [hop]; rfl
    cases hv : frameViolation cfg ((ctxOf st).part.map (fun p => p.2.2.length)) f with
    | some k =>
      rw [strict_viol cfg i _ f fs k hv]
      obtain ⟨h1, h2, h3⟩ := run_cutOff cfg i st hop f fs (header_violation_aborts cfg st f k (hlen ▸ hv))
      simp [h1, h2, h3]
    | none =>
      have hv' : frameViolation cfg (st.fragBuf.map (·.length)) f = none := hlen ▸ hv
      cases hc : isCtl f.opcode with
      | true =>
        obtain ⟨hops, hstep⟩ := step_legal_ctl cfg st f hc hv'
        by_cases h8 : f.opcode = 8
        · rw [strict_close cfg i _ f fs hv h8]
          have hd : ((deliver st f.opcode f.payload).1.status = .closed ∨ (deliver st f.opcode f.payload).1.status = .crashed)
              ∧ messagesOf (deliver st f.opcode f.payload).2 = [] := by
            simp only [deliver, h8]
            cases validUtf8 (List.drop 2 f.payload) <;> simp [messagesOf]
          obtain ⟨h1, h2, h3⟩ := run_left cfg i st hop f fs (by rw [hstep]; exact hd.1) (by rw [hstep]; exact hd.2)
          simp [h1, h2, h3]
        · rw [strict_ctl cfg i _ f fs hv hc h8] at hnc ⊢
          have hd : deliver st f.opcode f.payload = (st, [.ping f.payload]) ∨ deliver st f.opcode f.payload = (st, [.pong f.payload]) := by
            rcases hops with h | h | h
            · exact absurd h h8
            · left; simp [deliver, h]
            · right; simp [deliver, h]
          obtain ⟨i1, i2, i3⟩ := ih (i + 1) st hop hinv hnc
          rw [runFrames_cons_open cfg st hop, abortAt_cons cfg i st f fs hop, hstep]
          rcases hd with hd | hd <;> rw [hd] <;>
            simp only [List.singleton_append, messagesOf, hna, Bool.false_eq_true, if_false] <;> exact ⟨i1, i2, i3⟩
      | false =>
        cases hfb : st.fragBuf with
        | some buf =>
          have hctx : ctxOf st = ⟨some (st.fragOp, st.compressed, buf), st.dhist⟩ := by simp [ctxOf, partOf, hfb]
          have hvs : frameViolation cfg (some buf.length) f = none := by rw [hfb] at hv'; exact hv'
          have hstep := step_legal_cont cfg st f buf hc hfb hv'
          have hop12 : st.fragOp = 1 ∨ st.fragOp = 2 := hinv.2 (by rw [hfb]; simp)
          rw [hctx] at hnc ⊢
          cases hf : f.fin with
          | false =>
            rw [strict_nonfin_some cfg i _ _ _ _ f fs hvs hc hf] at hnc ⊢
            simp only [hf, Bool.false_eq_true, if_false] at hstep
            have hctx' : ctxOf { st with fragBuf := some (buf ++ f.payload) }
                = ⟨some (st.fragOp, st.compressed, buf ++ f.payload), st.dhist⟩ := by simp [ctxOf, partOf]
            obtain ⟨i1, i2, i3⟩ := ih (i + 1) { st with fragBuf := some (buf ++ f.payload) } hop
              ⟨hinv.1, fun _ => hop12⟩ (by rw [hctx']; exact hnc)
            rw [hctx'] at i1 i2 i3
            rw [runFrames_cons_open cfg st hop, abortAt_cons cfg i st f fs hop, hstep]
            simp only [hna, Bool.false_eq_true, if_false]
            exact ⟨by simpa using i1, i2, i3⟩
          | true =>
            simp only [hf, if_true] at hstep
            exact refine_complete cfg st { st with fragBuf := none } hop f fs st.fragOp (buf ++ f.payload) hop12
              hstep hop ⟨hinv.1, fun h => absurd rfl h⟩ rfl i _
              (strict_fin_some cfg i _ _ _ _ f fs hvs hc hf) hnc ih
        | none =>
          have hctx : ctxOf st = ⟨none, st.dhist⟩ := by simp [ctxOf, partOf, hfb]
          have hvs : frameViolation cfg none f = none := by rw [hfb] at hv'; exact hv'
          obtain ⟨hop12, hstep⟩ := step_legal_first cfg st hinv f hc hfb hv'
          rw [hctx] at hnc ⊢
          cases hf : f.fin with
          | false =>
            rw [strict_nonfin_none cfg i _ f fs hvs hc hf] at hnc ⊢
            simp only [hf, Bool.false_eq_true, if_false] at hstep
            have hctx' : ctxOf { st with compressed := (cfg.deflate && f.rsv / 4 % 2 == 1),
                                         fragBuf := some f.payload, fragOp := f.opcode }
                = ⟨some (f.opcode, cfg.deflate && f.rsv / 4 % 2 == 1, f.payload), st.dhist⟩ := by simp [ctxOf, partOf]
            obtain ⟨i1, i2, i3⟩ := ih (i + 1)
              { st with compressed := (cfg.deflate && f.rsv / 4 % 2 == 1), fragBuf := some f.payload, fragOp := f.opcode }
              hop ⟨fun hd => by simp [hd], fun _ => hop12⟩ (by rw [hctx']; exact hnc)
            rw [hctx'] at i1 i2 i3
            rw [runFrames_cons_open cfg st hop, abortAt_cons cfg i st f fs hop, hstep]
            simp only [hna, Bool.false_eq_true, if_false]
            exact ⟨by simpa using i1, i2, i3⟩
          | true =>
            simp only [hf, if_true] at hstep
            exact refine_complete cfg st { st with compressed := (cfg.deflate && f.rsv / 4 % 2 == 1) } hop f fs
              f.opcode f.payload hop12 hstep hop ⟨fun hd => by simp [hd], fun h => absurd hfb h⟩ hfb i _
              (strict_fin_none cfg i _ f fs hvs hc hf) hnc ih

end TornadoModel.C15
