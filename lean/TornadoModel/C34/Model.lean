/-
C34 — model of `tornado.locks.Condition` and `tornado.locks.Event` (core Lean only).

Anchors: `Condition.wait` (inner `on_timeout`, `remove_timeout` done-callback), `Condition.notify`,
`Condition.notify_all`, `_TimeoutGarbageCollector._garbage_collect`; `Event.set / clear / wait`
(`gen.with_timeout`, `chain_future`, the cancel-on-timeout callback, the `_waiters.remove` callback).

Granularity and conventions are those of `C33/Model.lean` (one step = one call + full drain of the loop;
`fire` = jump to the earliest live timer; `race…` = the call is made in the loop iteration in which that
timer expires, just before its callback).  A Condition waiter resolves to `result 1` (True, notified) or
`result 0` (False, timed out).  For an Event, `futs[i]` is the future handed to the caller of the i-th
`wait` (the `with_timeout` wrapper for a timed wait); `waiters` is the `_waiters` set (ids of the waits whose
inner future is still in it).  At op boundaries the inner future of a timed wait is pending iff the wrapper is.
-/
import TornadoModel.C33.Model
namespace TornadoModel.C34
open TornadoModel.C33 (FState Ev Timer isPend dueTimers minTimer)

inductive Res where
  | unit
  | bool (b : Bool)
  | fired (d : Option Nat)
  deriving Repr, DecidableEq

def advanceT (now : Nat) (ts : List Timer) : Nat × Option Nat :=
  match minTimer ts with
  | none => (now, none)
  | some t => (max now t.1, some t.1)

/-! ## Condition -/
namespace Cond

structure St where
  waiters : List Nat       -- `_waiters` deque
  futs : List FState
  timers : List Timer
  timeouts : Nat           -- `_timeouts`
  now : Nat
  deriving Repr, DecidableEq

def init (t0 : Nat) : St := { waiters := [], futs := [], timers := [], timeouts := t0, now := 0 }

inductive Op where
  | wait (deadline : Option Nat)
  | notify (n : Nat)
  | notifyAll
  | fire
  | cancel (w : Nat)
  | raceNotify (n : Nat)
  | raceCancel (w : Nat)
  deriving Repr, DecidableEq

structure Out where
  res : Res
  evs : List Ev
  nwaiters : Nat
  timeouts : Nat
  ntimers : Nat
  deriving Repr, DecidableEq

/-- `_garbage_collect` -/
def gc (s : St) : St :=
  if s.timeouts + 1 > 100 then { s with timeouts := 0, waiters := s.waiters.filter (isPend s.futs) }
  else { s with timeouts := s.timeouts + 1 }

/-- `on_timeout`: resolve to `False` unless already done; always count -/
def onTimeout (s : St) (w : Nat) : St × List Ev :=
  if isPend s.futs w then (gc { s with futs := s.futs.set w (.result 0) }, [(w, .result 0)])
  else (gc s, [])

/-- the `while n and self._waiters` loop of `notify`: (waiters to wake, what is left of the deque) -/
def popN (futs : List FState) : List Nat → Nat → List Nat × List Nat
  | [], _ => ([], [])
  | w :: ws, n =>
    match n with
    | 0 => ([], w :: ws)
    | k + 1 => if isPend futs w then
                 let (a, r) := popN futs ws k
                 (w :: a, r)
               else popN futs ws (k + 1)

def setAll (futs : List FState) (v : FState) : List Nat → List FState
  | [] => futs
  | w :: ws => setAll (futs.set w v) v ws

def notify (s : St) (n : Nat) : St × List Ev :=
  let (woken, rest) := popN s.futs s.waiters n
  ({ s with waiters := rest, futs := setAll s.futs (.result 1) woken }, woken.map (fun w => (w, .result 1)))

def wait (s : St) (d : Option Nat) : St :=
  let w := s.futs.length
  { s with waiters := s.waiters ++ [w], futs := s.futs ++ [.pending],
           timers := match d with | some d => s.timers ++ [(d, w)] | none => s.timers }

def cancel (s : St) (w : Nat) : St × List Ev × Bool :=
  if isPend s.futs w then ({ s with futs := s.futs.set w .cancelled }, [(w, .cancelled)], true)
  else (s, [], false)

def purge (s : St) : St := { s with timers := s.timers.filter (fun t => isPend s.futs t.2) }

def fireList (s : St) : List Timer → St × List Ev
  | [] => (s, [])
  | t :: ts =>
    let (s1, e1) := onTimeout s t.2
    let (s2, e2) := fireList s1 ts
    (s2, e1 ++ e2)

def fireDue (s : St) : St × List Ev :=
  let (s1, e) := fireList s (dueTimers s.now s.timers)
  ({ s1 with timers := s1.timers.filter (fun t => ¬ (t.1 ≤ s1.now)) }, e)

def settle (s : St) : St × List Ev :=
  let (s1, e) := fireDue (purge s)
  (purge s1, e)

def settleRace (s : St) : St × List Ev :=
  let (s1, e) := fireDue s
  (purge s1, e)

def mkOut (s : St) (r : Res) (e : List Ev) : Out :=
  { res := r, evs := e, nwaiters := s.waiters.length, timeouts := s.timeouts, ntimers := s.timers.length }

def advance (s : St) : St × Option Nat :=
  let (n, d) := advanceT s.now s.timers
  ({ s with now := n }, d)

def step (s : St) : Op → St × Out
  | .wait d =>
    let (s2, e2) := settle (wait s d)
    (s2, mkOut s2 .unit e2)
  | .notify n =>
    let (s1, e1) := notify s n
    let (s2, e2) := settle s1
    (s2, mkOut s2 .unit (e1 ++ e2))
  | .notifyAll =>
    let (s1, e1) := notify s s.waiters.length
    let (s2, e2) := settle s1
    (s2, mkOut s2 .unit (e1 ++ e2))
  | .fire =>
    let (s1, d) := advance s
    let (s2, e2) := settle s1
    (s2, mkOut s2 (.fired d) e2)
  | .cancel w =>
    let (s1, e1, b) := cancel s w
    let (s2, e2) := settle s1
    (s2, mkOut s2 (.bool b) (e1 ++ e2))
  | .raceNotify n =>
    let (s0, _) := advance s
    let (s1, e1) := notify s0 n
    let (s2, e2) := settleRace s1
    (s2, mkOut s2 .unit (e1 ++ e2))
  | .raceCancel w =>
    let (s0, _) := advance s
    let (s1, e1, b) := cancel s0 w
    let (s2, e2) := settleRace s1
    (s2, mkOut s2 (.bool b) (e1 ++ e2))

def run (s : St) : List Op → St × List Out
  | [] => (s, [])
  | op :: ops =>
    let (s1, o) := step s op
    let (s2, os) := run s1 ops
    (s2, o :: os)

end Cond

/-! ## Event -/
namespace Event

structure St where
  flag : Bool              -- `_value`
  waiters : List Nat       -- `_waiters` (a set; kept in insertion order here, the order is never observed)
  futs : List FState       -- the future returned by the i-th `wait`
  timers : List Timer      -- `with_timeout` timers (deadline, wait id)
  now : Nat
  deriving Repr, DecidableEq

def init : St := { flag := false, waiters := [], futs := [], timers := [], now := 0 }

inductive Op where
  | wait (deadline : Option Nat)
  | set
  | clear
  | fire
  | cancel (w : Nat)
  | raceSet
  | raceCancel (w : Nat)
  deriving Repr, DecidableEq

structure Out where
  res : Res
  evs : List Ev            -- resolutions of this op, sorted by future id (set iteration order is not modelled)
  isSet : Bool
  nwaiters : Nat
  ntimers : Nat
  deriving Repr, DecidableEq

def insNat (x : Nat) : List Nat → List Nat
  | [] => [x]
  | y :: ys => if x ≤ y then x :: y :: ys else y :: insNat x ys
def sortNat (l : List Nat) : List Nat := l.foldl (fun acc x => insNat x acc) []

/-- resolve each listed wait that is still pending; returns the events -/
def resolveAll (futs : List FState) (v : FState) : List Nat → List FState × List Ev
  | [] => (futs, [])
  | w :: ws =>
    if isPend futs w then
      let (f2, e2) := resolveAll (futs.set w v) v ws
      (f2, (w, v) :: e2)
    else resolveAll futs v ws

/-- the drain: `_waiters.remove` callbacks and `remove_timeout` of every wait that is no longer pending -/
def purge (s : St) : St :=
  { s with waiters := s.waiters.filter (isPend s.futs), timers := s.timers.filter (fun t => isPend s.futs t.2) }

/-- timers due at `now` expire: `with_timeout` sets `TimeoutError` on the wrapper unless it is done -/
def fireDue (s : St) : St × List Ev :=
  let due := sortNat ((s.timers.filter (fun t => t.1 ≤ s.now)).map (·.2))
  let (f, e) := resolveAll s.futs .timeout due
  ({ s with futs := f, timers := s.timers.filter (fun t => ¬ (t.1 ≤ s.now)) }, e)

def settle (s : St) : St × List Ev :=
  let (s1, e) := fireDue (purge s)
  (purge s1, e)

/-- `Event.set`: wake every waiter in the set (the inner futures); `raced` lists the waits whose timer
callback runs in the same iteration after this call: their wrapper gets `TimeoutError` first and the
late copy of the inner result is dropped (`if b.done(): return` in `chain_future`). -/
def set (s : St) (raced : List Nat) : St × List Ev :=
  if s.flag then (s, [])
  else
    let ws := sortNat s.waiters
    let (f1, e1) := resolveAll s.futs .timeout (ws.filter (raced.contains ·))
    let (f2, e2) := resolveAll f1 (.result 0) ws
    ({ s with flag := true, futs := f2 }, e1 ++ e2)

def wait (s : St) (d : Option Nat) : St × List Ev :=
  let w := s.futs.length
  if s.flag then ({ s with futs := s.futs ++ [.result 0] }, [(w, .result 0)])
  else ({ s with waiters := s.waiters ++ [w], futs := s.futs ++ [.pending],
                 timers := match d with | some d => s.timers ++ [(d, w)] | none => s.timers }, [])

def cancel (s : St) (w : Nat) : St × List Ev × Bool :=
  if isPend s.futs w then ({ s with futs := s.futs.set w .cancelled }, [(w, .cancelled)], true)
  else (s, [], false)

def sortEvs (e : List Ev) : List Ev :=
  (sortNat (e.map (·.1))).filterMap (fun i => e.find? (fun x => x.1 == i))

def mkOut (s : St) (r : Res) (e : List Ev) : Out :=
  { res := r, evs := sortEvs e, isSet := s.flag, nwaiters := s.waiters.length, ntimers := s.timers.length }

def advance (s : St) : St × Option Nat :=
  let (n, d) := advanceT s.now s.timers
  ({ s with now := n }, d)

def step (s : St) : Op → St × Out
  | .wait d =>
    let (s1, e1) := wait s d
    let (s2, e2) := settle s1
    (s2, mkOut s2 .unit (e1 ++ e2))
  | .set =>
    let (s1, e1) := set s []
    let (s2, e2) := settle s1
    (s2, mkOut s2 .unit (e1 ++ e2))
  | .clear =>
    let (s2, e2) := settle { s with flag := false }
    (s2, mkOut s2 .unit e2)
  | .fire =>
    let (s1, d) := advance s
    let (s2, e2) := settle s1
    (s2, mkOut s2 (.fired d) e2)
  | .cancel w =>
    let (s1, e1, b) := cancel s w
    let (s2, e2) := settle s1
    (s2, mkOut s2 (.bool b) (e1 ++ e2))
  | .raceSet =>
    let (s0, _) := advance s
    let raced := (s0.timers.filter (fun t => t.1 ≤ s0.now)).map (·.2)
    let (s1, e1) := set s0 raced
    let (s2, e2) := fireDue s1
    let s3 := purge s2
    (s3, mkOut s3 .unit (e1 ++ e2))
  | .raceCancel w =>
    let (s0, _) := advance s
    let (s1, e1, b) := cancel s0 w
    let (s2, e2) := fireDue s1
    let s3 := purge s2
    (s3, mkOut s3 (.bool b) (e1 ++ e2))

def run (s : St) : List Op → St × List Out
  | [] => (s, [])
  | op :: ops =>
    let (s1, o) := step s op
    let (s2, os) := run s1 ops
    (s2, o :: os)

end Event
end TornadoModel.C34
