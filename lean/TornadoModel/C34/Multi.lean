/-
C34 — compound ops: several calls made back-to-back inside ONE event-loop iteration, then one drain.

`Model.step` is "one call + full drain".  Between two calls of the same loop iteration nothing of the drain has
happened yet: done-callbacks have not run, so `Event._waiters` still holds futures that are already finished
(woken by an earlier `set()` of this iteration, or cancelled by the caller), the timer handles of finished futures
are still scheduled, and timers that are already due have not fired.  The primitives of `Model.lean` (`wait`,
`notify`, `cancel`, `set`, …) are the *call* effects alone, `settle` is the loop's part; a compound op is their plain
sequential composition followed by ONE `settle`:

    multi [c₁,…,cₙ]  =  call c₁ ; … ; call cₙ ; settle

This is the only way `Event.set` meets a waiter that is in `_waiters` but already done (`wait; set; clear; wait; set`
or `cancel w; set` before the loop runs): `resolveAll` skips it (`if not fut.done()`).

Event additionally has `fireMulti [c₁,…,cₙ]`: jump to the earliest live timer, let it expire, and make the calls from
a done-callback of the wait that just failed with `TimeoutError` (a coroutine that catches the TimeoutError of
`wait(timeout)` and goes on at once; when there is no timer the calls are simply made right away).  At that moment
the inner future of the timed-out wait has been cancelled by the wrapper's callback but its `_waiters.remove`
callback has not run: the state is `fireDue` *without* the final `purge`.  (For a Condition the corresponding state is the boundary state after `fire` — the deque keeps dead
entries anyway — so `fire` followed by `multi` covers it.)

Observed (and modelled) per call: its result and the observers right after it (`len(_waiters)` with its stale
entries, `is_set()` / `_timeouts`, scheduled timers with the stale ones); after the drain: every future resolved
during the op (Condition: in resolution order; Event: sorted by id) and the observers.

The specification side (`Spec.….call`, `stepMulti`, `stepFireMulti`) is the same composition over the sequential
objects: the calls one after the other, no waiter expires in between (no loop iteration passes), then `expire`.
-/
import TornadoModel.C34.Spec
namespace TornadoModel.C34
open TornadoModel.C33 (FState Ev Timer isPend dueTimers minTimer)

/-! ## Condition -/
namespace Cond

/-- a call the application can make in the middle of a loop iteration -/
inductive Call where
  | wait (deadline : Option Nat)
  | notify (n : Nat)
  | notifyAll
  | cancel (w : Nat)
  deriving Repr, DecidableEq

/-- the effect of the call alone (no loop iteration): new state, result, futures resolved synchronously -/
def call (s : St) : Call → St × Res × List Ev
  | .wait d => (wait s d, .unit, [])
  | .notify n => let (s1, e) := notify s n; (s1, .unit, e)
  | .notifyAll => let (s1, e) := notify s s.waiters.length; (s1, .unit, e)
  | .cancel w => let (s1, e, b) := cancel s w; (s1, .bool b, e)

/-- result of one call and the observers right after it -/
structure COut where
  res : Res
  nwaiters : Nat
  timeouts : Nat
  ntimers : Nat
  deriving Repr, DecidableEq

def mkCOut (s : St) (r : Res) : COut :=
  { res := r, nwaiters := s.waiters.length, timeouts := s.timeouts, ntimers := s.timers.length }

def calls (s : St) : List Call → St × List COut × List Ev
  | [] => (s, [], [])
  | c :: cs =>
    let (s1, r, e1) := call s c
    let (s2, os, e2) := calls s1 cs
    (s2, mkCOut s1 r :: os, e1 ++ e2)

structure MOut where
  calls : List COut         -- one per call
  evs : List Ev             -- every resolution of the op, in resolution order
  nwaiters : Nat
  timeouts : Nat
  ntimers : Nat
  deriving Repr, DecidableEq

def stepMulti (s : St) (cs : List Call) : St × MOut :=
  let (s1, os, e1) := calls s cs
  let (s2, e2) := settle s1
  (s2, { calls := os, evs := e1 ++ e2, nwaiters := s2.waiters.length, timeouts := s2.timeouts,
         ntimers := s2.timers.length })

/-- ops of the extended history language: the primitive ops of `Model.lean` (unchanged) and compound ops -/
inductive Op2 where
  | prim (op : Op)
  | multi (cs : List Call)
  deriving Repr, DecidableEq

inductive Out2 where
  | prim (o : Out)
  | multi (o : MOut)
  deriving Repr, DecidableEq

def step2 (s : St) : Op2 → St × Out2
  | .prim op => let (s1, o) := step s op; (s1, .prim o)
  | .multi cs => let (s1, o) := stepMulti s cs; (s1, .multi o)

def run2 (s : St) : List Op2 → St × List Out2
  | [] => (s, [])
  | op :: ops =>
    let (s1, o) := step2 s op
    let (s2, os) := run2 s1 ops
    (s2, o :: os)

/-- what the specification speaks about: the op's result, the results of its calls, the resolutions -/
def Out2.view : Out2 → Res × List Res × List Ev
  | .prim o => (o.res, [], o.evs)
  | .multi o => (.unit, o.calls.map (·.res), o.evs)

end Cond

/-! ## Event -/
namespace Event

inductive Call where
  | wait (deadline : Option Nat)
  | set
  | clear
  | isSet
  | cancel (w : Nat)
  deriving Repr, DecidableEq

def call (s : St) : Call → St × Res × List Ev
  | .wait d => let (s1, e) := wait s d; (s1, .unit, e)
  | .set => let (s1, e) := set s []; (s1, .unit, e)
  | .clear => ({ s with flag := false }, .unit, [])
  | .isSet => (s, .bool s.flag, [])
  | .cancel w => let (s1, e, b) := cancel s w; (s1, .bool b, e)

structure COut where
  res : Res
  isSet : Bool
  nwaiters : Nat
  ntimers : Nat
  deriving Repr, DecidableEq

def mkCOut (s : St) (r : Res) : COut :=
  { res := r, isSet := s.flag, nwaiters := s.waiters.length, ntimers := s.timers.length }

def calls (s : St) : List Call → St × List COut × List Ev
  | [] => (s, [], [])
  | c :: cs =>
    let (s1, r, e1) := call s c
    let (s2, os, e2) := calls s1 cs
    (s2, mkCOut s1 r :: os, e1 ++ e2)

structure MOut where
  res : Res                 -- `unit` (multi) or `fired d` (fireMulti)
  calls : List COut         -- one per call that was made
  evs : List Ev             -- every resolution of the op, sorted by future id
  isSet : Bool
  nwaiters : Nat
  ntimers : Nat
  deriving Repr, DecidableEq

def mkMOut (s : St) (r : Res) (os : List COut) (e : List Ev) : MOut :=
  { res := r, calls := os, evs := sortEvs e, isSet := s.flag, nwaiters := s.waiters.length,
    ntimers := s.timers.length }

def stepMulti (s : St) (cs : List Call) : St × MOut :=
  let (s1, os, e1) := calls s cs
  let (s2, e2) := settle s1
  (s2, mkMOut s2 .unit os (e1 ++ e2))

/-- `fire`, and the calls made from a done-callback of the wait that timed out (right away if there was no timer):
the timer callbacks have run (`fireDue`), the `_waiters.remove` callbacks of the expired waits have not -/
def stepFireMulti (s : St) (cs : List Call) : St × MOut :=
  let (s0, d) := advance s
  let (s1, e1) := fireDue (purge s0)
  let (s2, os, e2) := calls s1 cs
  let (s3, e3) := settle s2
  (s3, mkMOut s3 (.fired d) os (e1 ++ (e2 ++ e3)))

inductive Op2 where
  | prim (op : Op)
  | multi (cs : List Call)
  | fireMulti (cs : List Call)
  deriving Repr, DecidableEq

inductive Out2 where
  | prim (o : Out)
  | multi (o : MOut)
  deriving Repr, DecidableEq

def step2 (s : St) : Op2 → St × Out2
  | .prim op => let (s1, o) := step s op; (s1, .prim o)
  | .multi cs => let (s1, o) := stepMulti s cs; (s1, .multi o)
  | .fireMulti cs => let (s1, o) := stepFireMulti s cs; (s1, .multi o)

def run2 (s : St) : List Op2 → St × List Out2
  | [] => (s, [])
  | op :: ops =>
    let (s1, o) := step2 s op
    let (s2, os) := run2 s1 ops
    (s2, o :: os)

def Out2.view : Out2 → Res × List Res × List Ev
  | .prim o => (o.res, [], o.evs)
  | .multi o => (o.res, o.calls.map (·.res), o.evs)

end Event

/-! ## the specification of compound ops -/
namespace Spec

namespace Cond
open TornadoModel.C34.Cond (Call Op2)

def call (s : St) : Call → St × Res × List Ev
  | .wait d => (wait s d, .unit, [])
  | .notify n => let (s1, e) := notify s n; (s1, .unit, e)
  | .notifyAll => let (s1, e) := notify s s.queue.length; (s1, .unit, e)
  | .cancel w => let (s1, e, b) := cancel s w; (s1, .bool b, e)

def calls (s : St) : List Call → St × List Res × List Ev
  | [] => (s, [], [])
  | c :: cs =>
    let (s1, r, e1) := call s c
    let (s2, rs, e2) := calls s1 cs
    (s2, r :: rs, e1 ++ e2)

/-- the calls one after the other — no waiter expires in between, no loop iteration passes — then the loop runs -/
def stepMulti (s : St) (cs : List Call) : St × Res × List Res × List Ev :=
  let (s1, rs, e1) := calls s cs
  let (s2, e2) := expire s1
  (s2, .unit, rs, e1 ++ e2)

def step2 (s : St) : Op2 → St × Res × List Res × List Ev
  | .prim op => let (s1, o) := step s op; (s1, o.res, [], o.evs)
  | .multi cs => stepMulti s cs

def run2 (s : St) : List Op2 → St × List (Res × List Res × List Ev)
  | [] => (s, [])
  | op :: ops =>
    let (s1, o) := step2 s op
    let (s2, os) := run2 s1 ops
    (s2, o :: os)

end Cond

namespace Event
open TornadoModel.C34.Event (Call Op2 sortEvs)

def call (s : St) : Call → St × Res × List Ev
  | .wait d => let (s1, e) := wait s d; (s1, .unit, e)
  | .set => let (s1, e) := set s; (s1, .unit, e)
  | .clear => ({ s with flag := false }, .unit, [])
  | .isSet => (s, .bool s.flag, [])
  | .cancel w => let (s1, e, b) := cancel s w; (s1, .bool b, e)

def calls (s : St) : List Call → St × List Res × List Ev
  | [] => (s, [], [])
  | c :: cs =>
    let (s1, r, e1) := call s c
    let (s2, rs, e2) := calls s1 cs
    (s2, r :: rs, e1 ++ e2)

def stepMulti (s : St) (cs : List Call) : St × Res × List Res × List Ev :=
  let (s1, rs, e1) := calls s cs
  let (s2, e2) := expire s1
  (s2, .unit, rs, sortEvs (e1 ++ e2))

/-- reach the earliest deadline, expire; the waiter that just got its TimeoutError makes the calls at once -/
def stepFireMulti (s : St) (cs : List Call) : St × Res × List Res × List Ev :=
  let (s0, d) := advance s
  let (s1, e1) := expire s0
  let (s2, rs, e2) := calls s1 cs
  let (s3, e3) := expire s2
  (s3, .fired d, rs, sortEvs (e1 ++ (e2 ++ e3)))

def step2 (s : St) : Op2 → St × Res × List Res × List Ev
  | .prim op => let (s1, o) := step s op; (s1, o.res, [], o.evs)
  | .multi cs => stepMulti s cs
  | .fireMulti cs => stepFireMulti s cs

def run2 (s : St) : List Op2 → St × List (Res × List Res × List Ev)
  | [] => (s, [])
  | op :: ops =>
    let (s1, o) := step2 s op
    let (s2, os) := run2 s1 ops
    (s2, o :: os)

end Event
end Spec
end TornadoModel.C34
