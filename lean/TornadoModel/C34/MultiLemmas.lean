/-
C34 — compound ops (`Multi.lean`): the invariants hold after every call *inside* a loop iteration, and the forward
simulation Model → Spec extends to compound ops.

Every per-call lemma of `Lemmas.lean` / `RefineCond.lean` / `RefineEvent.lean` is about the call effect alone (no
drain) and needs `Inv` (+ `WS` for Event) and the range invariant `TR` only — not the boundary invariants `TInv` /
`NotDue` — so the calls of one iteration chain; the single drain at the end is `settle_sim`.
-/
import TornadoModel.C34.RefineCond
import TornadoModel.C34.RefineEvent
import TornadoModel.C34.Multi
namespace TornadoModel.C34
open TornadoModel.C33 (FState Ev Timer isPend minTimer isPend_lt)

/-! ## Condition -/
namespace Cond

theorem call_wait_eq (s : St) (d : Option Nat) : call s (.wait d) = (wait s d, .unit, []) := rfl
theorem call_notify_eq (s : St) (n : Nat) : call s (.notify n) = ((notify s n).1, .unit, (notify s n).2) := rfl
theorem call_notifyAll_eq (s : St) :
    call s .notifyAll = ((notify s s.waiters.length).1, .unit, (notify s s.waiters.length).2) := rfl
theorem call_cancel_eq (s : St) (w : Nat) :
    call s (.cancel w) = ((cancel s w).1, .bool (cancel s w).2.2, (cancel s w).2.1) := rfl

theorem calls_cons_eq (s : St) (c : Call) (cs : List Call) :
    calls s (c :: cs) = ((calls (call s c).1 cs).1, mkCOut (call s c).1 (call s c).2.1 :: (calls (call s c).1 cs).2.1,
      (call s c).2.2 ++ (calls (call s c).1 cs).2.2) := rfl

theorem stepMulti_eq (s : St) (cs : List Call) :
    stepMulti s cs = ((settle (calls s cs).1).1,
      { calls := (calls s cs).2.1, evs := (calls s cs).2.2 ++ (settle (calls s cs).1).2,
        nwaiters := (settle (calls s cs).1).1.waiters.length, timeouts := (settle (calls s cs).1).1.timeouts,
        ntimers := (settle (calls s cs).1).1.timers.length }) := rfl

theorem tr_wait {s : St} (ht : TR s) (d : Option Nat) : TR (wait s d) := by
  intro t hm
  unfold wait at hm ⊢
  simp only [List.length_append, List.length_singleton]
  cases d with
  | none => have := ht t hm; omega
  | some d =>
    simp only [List.mem_append, List.mem_singleton] at hm
    rcases hm with hm | rfl
    · have := ht t hm; omega
    · simp

theorem tr_notify {s : St} (ht : TR s) (n : Nat) : TR (notify s n).1 := by
  intro t hm
  unfold notify at hm ⊢
  simp only [setAll_length]
  exact ht t hm

theorem tr_cancel {s : St} (ht : TR s) (w : Nat) : TR (cancel s w).1 := by
  unfold cancel; split
  · intro t hm; simp only [List.length_set]; exact ht t hm
  · exact ht

theorem call_inv {s : St} (h : Inv s) (ht : TR s) (c : Call) : Inv (call s c).1 ∧ TR (call s c).1 := by
  cases c with
  | wait d => rw [call_wait_eq]; exact ⟨inv_wait h d, tr_wait ht d⟩
  | notify n => rw [call_notify_eq]; exact ⟨inv_notify h n, tr_notify ht n⟩
  | notifyAll => rw [call_notifyAll_eq]; exact ⟨inv_notify h _, tr_notify ht _⟩
  | cancel w => rw [call_cancel_eq]; exact ⟨inv_cancel h w, tr_cancel ht w⟩

theorem calls_inv {s : St} (h : Inv s) (ht : TR s) (cs : List Call) : Inv (calls s cs).1 ∧ TR (calls s cs).1 := by
  induction cs generalizing s with
  | nil => exact ⟨h, ht⟩
  | cons c cs ih =>
    rw [calls_cons_eq]
    exact ih (call_inv h ht c).1 (call_inv h ht c).2

theorem stepMulti_inv {s : St} (h : Inv s) (ht : TR s) (cs : List Call) :
    Inv (stepMulti s cs).1 ∧ TInv (stepMulti s cs).1 := by
  rw [stepMulti_eq]
  exact ⟨inv_settle (calls_inv h ht cs).1, TInv_settle _⟩

theorem step2_inv {s : St} (h : Inv s) (ht : TInv s) (op : Op2) : Inv (step2 s op).1 ∧ TInv (step2 s op).1 := by
  cases op with
  | prim op => exact ⟨inv_step h op, TInv_step s op⟩
  | multi cs => exact stepMulti_inv h (TR_of_TInv ht) cs

theorem run2_inv {s : St} (h : Inv s) (ht : TInv s) (ops : List Op2) : Inv (run2 s ops).1 ∧ TInv (run2 s ops).1 := by
  induction ops generalizing s with
  | nil => exact ⟨h, ht⟩
  | cons op ops ih => simp only [run2]; exact ih (step2_inv h ht op).1 (step2_inv h ht op).2

/-- histories without compound ops are the histories of `Model.run` -/
theorem run2_prim (s : St) (ops : List Op) :
    run2 s (ops.map .prim) = ((run s ops).1, (run s ops).2.map .prim) := by
  induction ops generalizing s with
  | nil => rfl
  | cons op ops ih => simp only [List.map_cons, run2, step2, run, ih]

/-! ### forward simulation -/

theorem call_sim {s : St} (h : Inv s) (ht : TR s) (c : Call) :
    Spec.Cond.call (absF s) c = (absF (call s c).1, (call s c).2.1, (call s c).2.2) := by
  cases c with
  | wait d => rw [call_wait_eq]; simp only [Spec.Cond.call, wait_sim h ht]
  | notify n => rw [call_notify_eq]; simp only [Spec.Cond.call, notify_sim h]
  | notifyAll =>
    have hn : Spec.Cond.notify (absF s) (absF s).queue.length = Spec.Cond.notify (absF s) s.waiters.length :=
      (spec_notify_ge (absF s) (List.length_filter_le _ _)).symm
    rw [call_notifyAll_eq]; simp only [Spec.Cond.call, hn, notify_sim h]
  | cancel w => rw [call_cancel_eq]; simp only [Spec.Cond.call, cancel_sim h]

theorem calls_sim {s : St} (h : Inv s) (ht : TR s) (cs : List Call) :
    Spec.Cond.calls (absF s) cs = (absF (calls s cs).1, (calls s cs).2.1.map (·.res), (calls s cs).2.2) := by
  induction cs generalizing s with
  | nil => rfl
  | cons c cs ih =>
    have h1 := call_sim h ht c
    have h2 := ih (call_inv h ht c).1 (call_inv h ht c).2
    rw [calls_cons_eq]
    simp only [Spec.Cond.calls, h1, h2, List.map_cons, mkCOut]

theorem stepMulti_sim {s : St} (h : Inv s) (ht : TR s) (cs : List Call) :
    Spec.Cond.stepMulti (absF s) cs = (absF (stepMulti s cs).1, (Out2.multi (stepMulti s cs).2).view) := by
  rw [stepMulti_eq]
  simp only [Spec.Cond.stepMulti, calls_sim h ht cs, settle_sim (calls_inv h ht cs).1, Out2.view]

theorem step2_sim {s : St} (h : Inv s) (ht : TInv s) (op : Op2) :
    Spec.Cond.step2 (absF s) op = (absF (step2 s op).1, (step2 s op).2.view) := by
  cases op with
  | prim op =>
    obtain ⟨h1, h2⟩ := step_sim h ht op
    simp only [specVis, outVis, Prod.mk.injEq] at h2
    simp only [Spec.Cond.step2, step2, Out2.view, h1, h2.1, h2.2]
  | multi cs =>
    simp only [Spec.Cond.step2, step2]
    exact stepMulti_sim h (TR_of_TInv ht) cs

theorem run2_sim {s : St} (h : Inv s) (ht : TInv s) (ops : List Op2) :
    Spec.Cond.run2 (absF s) ops = (absF (run2 s ops).1, (run2 s ops).2.map Out2.view) := by
  induction ops generalizing s with
  | nil => rfl
  | cons op ops ih =>
    simp only [run2, Spec.Cond.run2, step2_sim h ht op, ih (step2_inv h ht op).1 (step2_inv h ht op).2,
      List.map_cons]

end Cond

/-! ## Event -/
namespace Event

theorem call_wait_eq (s : St) (d : Option Nat) : call s (.wait d) = ((wait s d).1, .unit, (wait s d).2) := rfl
theorem call_set_eq (s : St) : call s .set = ((set s []).1, .unit, (set s []).2) := rfl
theorem call_clear_eq (s : St) : call s .clear = ({ s with flag := false }, .unit, []) := rfl
theorem call_isSet_eq (s : St) : call s .isSet = (s, .bool s.flag, []) := rfl
theorem call_cancel_eq (s : St) (w : Nat) :
    call s (.cancel w) = ((cancel s w).1, .bool (cancel s w).2.2, (cancel s w).2.1) := rfl

theorem calls_cons_eq (s : St) (c : Call) (cs : List Call) :
    calls s (c :: cs) = ((calls (call s c).1 cs).1, mkCOut (call s c).1 (call s c).2.1 :: (calls (call s c).1 cs).2.1,
      (call s c).2.2 ++ (calls (call s c).1 cs).2.2) := rfl

theorem stepMulti_eq (s : St) (cs : List Call) :
    stepMulti s cs = ((settle (calls s cs).1).1,
      mkMOut (settle (calls s cs).1).1 .unit (calls s cs).2.1 ((calls s cs).2.2 ++ (settle (calls s cs).1).2)) := rfl

/-- the state in which the calls of `fireMulti` are made: the timer callbacks have run, `_waiters` not yet cleaned -/
def fired (s : St) : St := (fireDue (purge (advance s).1)).1

theorem stepFireMulti_eq (s : St) (cs : List Call) :
    stepFireMulti s cs = ((settle (calls (fired s) cs).1).1,
      mkMOut (settle (calls (fired s) cs).1).1 (.fired (advance s).2) (calls (fired s) cs).2.1
        ((fireDue (purge (advance s).1)).2 ++ ((calls (fired s) cs).2.2 ++ (settle (calls (fired s) cs).1).2))) := rfl

theorem tr_wait {s : St} (ht : TR s) (d : Option Nat) : TR (wait s d).1 := by
  by_cases hf : s.flag = true
  · have e : (wait s d).1 = { s with futs := s.futs ++ [.result 0] } := by simp [wait, hf]
    rw [e]
    intro t hm
    simp only [List.length_append, List.length_singleton]
    have := ht t hm; omega
  · have e : (wait s d).1 =
        { s with
          waiters := s.waiters ++ [s.futs.length]
          futs := s.futs ++ [.pending]
          timers := (match d with | some d => s.timers ++ [(d, s.futs.length)] | none => s.timers) } := by
      cases d <;> simp [wait, hf]
    rw [e]
    intro t hm
    simp only [List.length_append, List.length_singleton]
    cases d with
    | none => have := ht t hm; omega
    | some d =>
      simp only [List.mem_append, List.mem_singleton] at hm
      rcases hm with hm | rfl
      · have := ht t hm; omega
      · simp

theorem tr_set {s : St} (ht : TR s) (raced : List Nat) : TR (set s raced).1 := by
  obtain ⟨h1, _, _, h4⟩ := set_frame s raced
  intro t hm
  rw [h1] at hm; rw [h4]; exact ht t hm

theorem tr_cancel {s : St} (ht : TR s) (w : Nat) : TR (cancel s w).1 := by
  unfold cancel; split
  · intro t hm; simp only [List.length_set]; exact ht t hm
  · exact ht

theorem tr_clear {s : St} (ht : TR s) : TR { s with flag := false } := ht

/-- the three invariants that hold at every point of a loop iteration -/
structure Mid (s : St) : Prop where
  inv : Inv s
  ws : WS s
  tr : TR s

theorem call_mid {s : St} (h : Mid s) (c : Call) : Mid (call s c).1 := by
  cases c with
  | wait d => rw [call_wait_eq]; exact ⟨inv_wait h.inv d, ws_wait h.ws d, tr_wait h.tr d⟩
  | set => rw [call_set_eq]; exact ⟨inv_set h.inv [], ws_set h.ws [], tr_set h.tr []⟩
  | clear => rw [call_clear_eq]; exact ⟨inv_clear h.inv, ws_clear h.ws, tr_clear h.tr⟩
  | isSet => rw [call_isSet_eq]; exact h
  | cancel w => rw [call_cancel_eq]; exact ⟨inv_cancel h.inv w, ws_cancel h.ws w, tr_cancel h.tr w⟩

theorem calls_mid {s : St} (h : Mid s) (cs : List Call) : Mid (calls s cs).1 := by
  induction cs generalizing s with
  | nil => exact h
  | cons c cs ih => rw [calls_cons_eq]; exact ih (call_mid h c)

/-- the invariants at op boundaries -/
structure Bd (s : St) : Prop where
  inv : Inv s
  ws : WS s
  tinv : TInv s
  notDue : NotDue s

theorem Bd.mid {s : St} (h : Bd s) : Mid s := ⟨h.inv, h.ws, TR_of_TInv h.tinv⟩

theorem bd_init : Bd init := ⟨inv_init, ws_init, TInv_init, notDue_init⟩

theorem bd_settle {s : St} (h : Mid s) : Bd (settle s).1 :=
  ⟨inv_settle h.inv, ws_settle h.ws, TInv_settle s, notDue_settle s⟩

theorem TInv_advance {s : St} (ht : TInv s) : TInv (advance s).1 := by
  unfold advance; exact ht

theorem fired_mid {s : St} (h : Bd s) : Mid (fired s) := by
  have h0 : Inv (purge (advance s).1) := inv_purge (inv_advance h.inv)
  have w0 : WS (purge (advance s).1) := ws_purge (ws_advance h.ws)
  refine ⟨inv_fireDue h0, inv_ws_fireDue w0, ?_⟩
  intro t hm
  unfold fired at hm ⊢
  rw [fireDue_eq] at hm ⊢
  simp only [resolveAll_length]
  have hm' : t ∈ (purge (advance s).1).timers := (List.mem_filter.mp hm).1
  exact isPend_lt (TInv_purge _ t hm')

theorem step2_bd {s : St} (h : Bd s) (op : Op2) : Bd (step2 s op).1 := by
  cases op with
  | prim op => exact ⟨inv_step h.inv op, ws_step h.ws op, TInv_step s op, notDue_step s op⟩
  | multi cs =>
    simp only [step2]; rw [stepMulti_eq]
    exact bd_settle (calls_mid h.mid cs)
  | fireMulti cs =>
    simp only [step2]; rw [stepFireMulti_eq]
    exact bd_settle (calls_mid (fired_mid h) cs)

theorem run2_bd {s : St} (h : Bd s) (ops : List Op2) : Bd (run2 s ops).1 := by
  induction ops generalizing s with
  | nil => exact h
  | cons op ops ih => simp only [run2]; exact ih (step2_bd h op)

theorem run2_prim (s : St) (ops : List Op) :
    run2 s (ops.map .prim) = ((run s ops).1, (run s ops).2.map .prim) := by
  induction ops generalizing s with
  | nil => rfl
  | cons op ops ih => simp only [List.map_cons, run2, step2, run, ih]

/-- every compound op ends with the drain, after which `_waiters` holds pending futures only -/
theorem step2_no_residue (s : St) (op : Op2) :
    ∀ w ∈ (step2 s op).1.waiters, isPend (step2 s op).1.futs w = true := by
  have key : ∀ t : St, ∀ w ∈ (purge t).waiters, isPend (purge t).futs w = true := by
    intro t w hw; exact (List.mem_filter.mp hw).2
  cases op with
  | prim op => exact step_no_residue s op
  | multi cs => simp only [step2]; rw [stepMulti_eq]; simp only [settle]; exact key _
  | fireMulti cs => simp only [step2]; rw [stepFireMulti_eq]; simp only [settle]; exact key _

/-! ### what the calls do to the futures, at any point of an iteration -/

/-- `set()` with the flag clear completes every pending wait, whatever finished futures `_waiters` still holds -/
theorem set_completes_mid {s : St} (h : Inv s) (w : Nat) (hp : isPend s.futs w = true) :
    (call s .set).1.futs[w]? = some (.result 0) := by
  have hflag : s.flag = false := by
    by_cases hf : s.flag = true
    · have := h.setNone hf w; rw [this] at hp; simp at hp
    · simpa using hf
  rw [call_set_eq]
  simp only [set, hflag]
  have hnil : List.filter (fun x => ([] : List Nat).contains x) (sortNat s.waiters) = [] := by simp
  simp only [Bool.false_eq_true, if_false, hnil, resolveAll]
  exact resolveAll_sets (by simp) (mem_sortNat.mpr (h.mem w hp)) hp

/-- no call changes a wait that is finished (woken, timed out or cancelled) — the `if not fut.done()` guard -/
theorem call_settled_final (s : St) (c : Call) (w : Nat) (f : FState) (hw : s.futs[w]? = some f)
    (hf : f ≠ .pending) : (call s c).1.futs[w]? = some f := by
  have hlt : w < s.futs.length := by
    by_cases hlt : w < s.futs.length
    · exact hlt
    · simp [List.getElem?_eq_none (Nat.le_of_not_lt hlt)] at hw
  cases c with
  | wait d =>
    rw [call_wait_eq]
    unfold wait
    split <;> (simp only; rw [List.getElem?_append_left hlt]; exact hw)
  | set =>
    rw [call_set_eq]
    unfold set
    split
    · exact hw
    · exact resolveAll_stable (resolveAll_stable hw hf) hf
  | clear => rw [call_clear_eq]; exact hw
  | isSet => rw [call_isSet_eq]; exact hw
  | cancel x =>
    rw [call_cancel_eq]
    unfold cancel
    split
    · rename_i hp
      simp only
      rw [List.getElem?_set]
      split
      · rename_i e; subst e
        unfold isPend at hp; rw [hw] at hp; simp at hp; exact absurd hp hf
      · exact hw
    · exact hw

theorem wait_when_set_mid (s : St) (d : Option Nat) (h : s.flag = true) :
    (call s (.wait d)).1.futs[s.futs.length]? = some (.result 0) := by
  rw [call_wait_eq]
  simp [wait, h]

/-! ### forward simulation -/

theorem call_sim {s : St} (h : Mid s) (c : Call) :
    Spec.Event.call (absF s) c = (absF (call s c).1, (call s c).2.1, (call s c).2.2) := by
  cases c with
  | wait d => rw [call_wait_eq]; simp only [Spec.Event.call, wait_sim h.ws h.tr]
  | set => rw [call_set_eq]; simp only [Spec.Event.call, set_sim h.inv h.ws]
  | clear => rw [call_clear_eq]; rfl
  | isSet => rw [call_isSet_eq]; rfl
  | cancel w => rw [call_cancel_eq]; simp only [Spec.Event.call, cancel_sim h.inv]

theorem calls_sim {s : St} (h : Mid s) (cs : List Call) :
    Spec.Event.calls (absF s) cs = (absF (calls s cs).1, (calls s cs).2.1.map (·.res), (calls s cs).2.2) := by
  induction cs generalizing s with
  | nil => rfl
  | cons c cs ih =>
    have h1 := call_sim h c
    have h2 := ih (call_mid h c)
    rw [calls_cons_eq]
    simp only [Spec.Event.calls, h1, h2, List.map_cons, mkCOut]

theorem stepMulti_sim {s : St} (h : Mid s) (cs : List Call) :
    Spec.Event.stepMulti (absF s) cs = (absF (stepMulti s cs).1, (Out2.multi (stepMulti s cs).2).view) := by
  have hm := calls_mid h cs
  rw [stepMulti_eq]
  simp only [Spec.Event.stepMulti, calls_sim h cs, settle_sim hm.inv hm.ws, Out2.view, mkMOut]

theorem fired_sim {s : St} (h : Bd s) :
    Spec.Event.expire (Spec.Event.advance (absF s)).1
      = (absF (fired s), (fireDue (purge (advance s).1)).2) := by
  rw [advance_sim h.tinv]
  simp only
  rw [← absF_purge (advance s).1, fireDue_sim (inv_purge (inv_advance h.inv)) (ws_purge (ws_advance h.ws))]
  rfl

theorem stepFireMulti_sim {s : St} (h : Bd s) (cs : List Call) :
    Spec.Event.stepFireMulti (absF s) cs
      = (absF (stepFireMulti s cs).1, (Out2.multi (stepFireMulti s cs).2).view) := by
  have hf := fired_mid h
  have hm := calls_mid hf cs
  have h1 := fired_sim h
  have h0 : (Spec.Event.advance (absF s)).2 = (advance s).2 := by rw [advance_sim h.tinv]
  rw [stepFireMulti_eq]
  simp only [Spec.Event.stepFireMulti, h1, h0, calls_sim hf cs, settle_sim hm.inv hm.ws, Out2.view, mkMOut]

theorem step2_sim {s : St} (h : Bd s) (op : Op2) :
    Spec.Event.step2 (absF s) op = (absF (step2 s op).1, (step2 s op).2.view) := by
  cases op with
  | prim op =>
    obtain ⟨h1, h2⟩ := step_sim h.inv h.ws h.tinv h.notDue op
    simp only [specVis, outVis, Prod.mk.injEq] at h2
    simp only [Spec.Event.step2, step2, Out2.view, h1, h2.1, h2.2]
  | multi cs =>
    simp only [Spec.Event.step2, step2]
    exact stepMulti_sim h.mid cs
  | fireMulti cs =>
    simp only [Spec.Event.step2, step2]
    exact stepFireMulti_sim h cs

theorem run2_sim {s : St} (h : Bd s) (ops : List Op2) :
    Spec.Event.run2 (absF s) ops = (absF (run2 s ops).1, (run2 s ops).2.map Out2.view) := by
  induction ops generalizing s with
  | nil => rfl
  | cons op ops ih =>
    simp only [run2, Spec.Event.run2, step2_sim h op, ih (step2_bd h op), List.map_cons]

end Event
end TornadoModel.C34
