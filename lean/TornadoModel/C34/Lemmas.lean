/-
C34 — lemmas: the `notify` loop as take/drop over the live waiters, invariants of Condition and Event.
-/
import TornadoModel.C33.Lemmas
import TornadoModel.C34.Spec
namespace TornadoModel.C34
open TornadoModel.C33 (FState Ev Timer isPend dueTimers minTimer isPend_set isPend_set_ne isPend_set_self
  isPend_lt isPend_append_lt isPend_append_self isPend_append)

/-! ## Condition -/
namespace Cond

/-- the `notify` loop pops exactly the first `n` live waiters, and leaves the live waiters after them -/
theorem popN_spec (futs : List FState) (ws : List Nat) (n : Nat) :
    (popN futs ws n).1 = (ws.filter (isPend futs)).take n ∧
    (popN futs ws n).2.filter (isPend futs) = (ws.filter (isPend futs)).drop n := by
  induction ws generalizing n with
  | nil => simp [popN]
  | cons w ws ih =>
    cases n with
    | zero => simp [popN]
    | succ k =>
      simp only [popN]
      by_cases hw : isPend futs w = true
      · simp only [hw, if_true, List.filter_cons_of_pos, List.take_succ_cons, List.drop_succ_cons]
        exact ⟨by rw [(ih k).1], (ih k).2⟩
      · have hw' : isPend futs w = false := by simpa using hw
        simp [hw']
        exact ih (k + 1)

theorem setAll_length (futs : List FState) (v : FState) (ws : List Nat) :
    (setAll futs v ws).length = futs.length := by
  induction ws generalizing futs with
  | nil => rfl
  | cons w ws ih => simp [setAll, ih]

theorem setAll_get_not_mem (futs : List FState) (v : FState) (ws : List Nat) (x : Nat) (hx : x ∉ ws) :
    (setAll futs v ws)[x]? = futs[x]? := by
  induction ws generalizing futs with
  | nil => rfl
  | cons w ws ih =>
    simp only [setAll]
    rw [ih _ (fun h => hx (List.mem_cons_of_mem _ h)), List.getElem?_set]
    have : w ≠ x := fun h => hx (by simp [h])
    simp [this]

theorem setAll_get_mem (futs : List FState) (v : FState) (ws : List Nat) (x : Nat) (hx : x ∈ ws)
    (hlt : x < futs.length) : (setAll futs v ws)[x]? = some v := by
  induction ws generalizing futs with
  | nil => simp at hx
  | cons w ws ih =>
    simp only [setAll]
    by_cases hmem : x ∈ ws
    · exact ih _ hmem (by simpa using hlt)
    · rw [setAll_get_not_mem _ _ _ _ hmem]
      have : x = w := by
        rcases List.mem_cons.mp hx with h | h
        · exact h
        · exact absurd h hmem
      subst this
      simp [hlt]

theorem isPend_setAll {futs : List FState} {v : FState} {ws : List Nat} {x : Nat} (hv : v ≠ .pending)
    (h : isPend (setAll futs v ws) x = true) : isPend futs x = true ∧ x ∉ ws := by
  induction ws generalizing futs with
  | nil => exact ⟨h, by simp⟩
  | cons w ws ih =>
    simp only [setAll] at h
    obtain ⟨h1, h2⟩ := ih h
    obtain ⟨h3, h4⟩ := isPend_set hv h1
    exact ⟨h3, by simp [h4, h2]⟩

structure Inv (s : St) : Prop where
  lt : ∀ w ∈ s.waiters, w < s.futs.length
  sorted : s.waiters.Pairwise (· < ·)
  pend_mem : ∀ w, isPend s.futs w = true → w ∈ s.waiters

theorem inv_init (t0 : Nat) : Inv (init t0) := by
  constructor <;> simp [init, isPend]

theorem inv_resolve {s : St} (h : Inv s) (w : Nat) (v : FState) (hv : v ≠ .pending) :
    Inv { s with futs := s.futs.set w v } := by
  constructor
  · intro x hx; simpa using h.lt x hx
  · exact h.sorted
  · intro x hx; exact h.pend_mem x (isPend_set hv hx).1

theorem inv_gc {s : St} (h : Inv s) : Inv (gc s) := by
  unfold gc
  split
  · constructor
    · intro x hx; exact h.lt x (List.mem_filter.mp hx).1
    · exact h.sorted.sublist List.filter_sublist
    · intro x hx; exact List.mem_filter.mpr ⟨h.pend_mem x hx, hx⟩
  · exact ⟨h.lt, h.sorted, h.pend_mem⟩

theorem inv_onTimeout {s : St} (h : Inv s) (w : Nat) : Inv (onTimeout s w).1 := by
  unfold onTimeout
  split
  · exact inv_gc (inv_resolve h w (.result 0) (by simp))
  · exact inv_gc h

theorem inv_fireList {s : St} (h : Inv s) (ts : List Timer) : Inv (fireList s ts).1 := by
  induction ts generalizing s with
  | nil => exact h
  | cons t ts ih => simp only [fireList]; exact ih (inv_onTimeout h t.2)

theorem inv_timers {s : St} (h : Inv s) (ts : List Timer) : Inv { s with timers := ts } :=
  ⟨h.lt, h.sorted, h.pend_mem⟩

theorem inv_fireDue {s : St} (h : Inv s) : Inv (fireDue s).1 := by
  unfold fireDue; exact inv_timers (inv_fireList h _) _
theorem inv_settle {s : St} (h : Inv s) : Inv (settle s).1 := by
  unfold settle purge; exact inv_timers (inv_fireDue (inv_timers h _)) _
theorem inv_settleRace {s : St} (h : Inv s) : Inv (settleRace s).1 := by
  unfold settleRace purge; exact inv_timers (inv_fireDue h) _
theorem inv_advance {s : St} (h : Inv s) : Inv (advance s).1 := by
  unfold advance; exact ⟨h.lt, h.sorted, h.pend_mem⟩
theorem inv_cancel {s : St} (h : Inv s) (w : Nat) : Inv (cancel s w).1 := by
  unfold cancel; split
  · exact inv_resolve h w .cancelled (by simp)
  · exact h

theorem inv_wait {s : St} (h : Inv s) (d : Option Nat) : Inv (wait s d) := by
  unfold wait
  constructor
  · intro x hx
    simp at hx ⊢
    rcases hx with hx | rfl
    · have := h.lt x hx; omega
    · omega
  · simp only
    rw [List.pairwise_append]
    refine ⟨h.sorted, by simp, ?_⟩
    intro a ha b hb
    simp at hb; subst hb
    exact h.lt a ha
  · intro x hx
    simp only at hx ⊢
    have hl := isPend_lt hx
    simp at hl
    by_cases hw : x < s.futs.length
    · rw [isPend_append_lt hw] at hx
      exact List.mem_append_left _ (h.pend_mem x hx)
    · have : x = s.futs.length := by omega
      simp [this]

theorem popN_sublist (futs : List FState) (ws : List Nat) (n : Nat) : (popN futs ws n).2.Sublist ws := by
  induction ws generalizing n with
  | nil => simp [popN]
  | cons w ws ih =>
    cases n with
    | zero => simp [popN]
    | succ k =>
      simp only [popN]
      split
      · exact (ih k).cons _
      · exact (ih (k + 1)).cons _

theorem inv_notify {s : St} (h : Inv s) (n : Nat) : Inv (notify s n).1 := by
  unfold notify
  have hsub := popN_sublist s.futs s.waiters n
  have hspec := popN_spec s.futs s.waiters n
  constructor
  · intro x hx
    simp only [setAll_length]
    exact h.lt x (hsub.subset hx)
  · exact h.sorted.sublist hsub
  · intro x hx
    simp only at hx ⊢
    obtain ⟨hp, hn⟩ := isPend_setAll (by simp) hx
    have hm : x ∈ s.waiters.filter (isPend s.futs) := List.mem_filter.mpr ⟨h.pend_mem x hp, hp⟩
    rw [← List.take_append_drop n (s.waiters.filter (isPend s.futs))] at hm
    rcases List.mem_append.mp hm with hm | hm
    · rw [← hspec.1] at hm; exact absurd hm hn
    · rw [← hspec.2] at hm; exact (List.mem_filter.mp hm).1

theorem inv_step {s : St} (h : Inv s) (op : Op) : Inv (step s op).1 := by
  cases op with
  | wait d => simp only [step]; exact inv_settle (inv_wait h d)
  | notify n => simp only [step]; exact inv_settle (inv_notify h n)
  | notifyAll => simp only [step]; exact inv_settle (inv_notify h _)
  | fire => simp only [step]; exact inv_settle (inv_advance h)
  | cancel w => simp only [step]; exact inv_settle (inv_cancel h w)
  | raceNotify n => simp only [step]; exact inv_settleRace (inv_notify (inv_advance h) n)
  | raceCancel w => simp only [step]; exact inv_settleRace (inv_cancel (inv_advance h) w)

theorem inv_run {s : St} (h : Inv s) (ops : List Op) : Inv (run s ops).1 := by
  induction ops generalizing s with
  | nil => exact h
  | cons op ops ih => simp only [run]; exact ih (inv_step h op)

/-! settled futures are final -/
def Stable (s s' : St) : Prop :=
  s.futs.length ≤ s'.futs.length ∧
    ∀ (w : Nat) (f : FState), s.futs[w]? = some f → f ≠ FState.pending → s'.futs[w]? = some f

theorem Stable.refl (s : St) : Stable s s := ⟨Nat.le_refl _, fun _ _ h _ => h⟩
theorem Stable.trans {a b c : St} (h1 : Stable a b) (h2 : Stable b c) : Stable a c :=
  ⟨Nat.le_trans h1.1 h2.1, fun w f h hf => h2.2 w f (h1.2 w f h hf) hf⟩
theorem stable_of_futs {s s' : St} (h : s'.futs = s.futs) : Stable s s' := by
  unfold Stable; rw [h]; exact ⟨Nat.le_refl _, fun _ _ h _ => h⟩

theorem stable_set {s s' : St} {w : Nat} {v : FState} (hp : isPend s.futs w = true)
    (h : s'.futs = s.futs.set w v) : Stable s s' := by
  unfold Stable; rw [h]
  refine ⟨by simp, ?_⟩
  intro x f hx hf
  rw [List.getElem?_set]
  split
  · rename_i hwx
    subst hwx
    unfold isPend at hp
    rw [hx] at hp
    simp at hp
    exact absurd hp hf
  · exact hx

theorem stable_gc (s : St) : Stable s (gc s) := by
  apply stable_of_futs; unfold gc; split <;> rfl
theorem stable_onTimeout (s : St) (w : Nat) : Stable s (onTimeout s w).1 := by
  unfold onTimeout; split
  · rename_i hp
    exact Stable.trans (stable_set (s' := { s with futs := s.futs.set w (.result 0) }) hp rfl) (stable_gc _)
  · exact stable_gc _
theorem stable_fireList (s : St) (ts : List Timer) : Stable s (fireList s ts).1 := by
  induction ts generalizing s with
  | nil => exact Stable.refl s
  | cons t ts ih => simp only [fireList]; exact Stable.trans (stable_onTimeout s t.2) (ih _)
theorem stable_fireDue (s : St) : Stable s (fireDue s).1 := by
  unfold fireDue; exact Stable.trans (stable_fireList s _) (stable_of_futs rfl)
theorem stable_settle (s : St) : Stable s (settle s).1 := by
  unfold settle
  exact Stable.trans (Stable.trans (stable_of_futs (s' := purge s) rfl) (stable_fireDue _)) (stable_of_futs rfl)
theorem stable_settleRace (s : St) : Stable s (settleRace s).1 := by
  unfold settleRace
  exact Stable.trans (stable_fireDue _) (stable_of_futs rfl)
theorem stable_cancel (s : St) (w : Nat) : Stable s (cancel s w).1 := by
  unfold cancel; split
  · rename_i hp; exact stable_set hp rfl
  · exact Stable.refl s
theorem stable_wait (s : St) (d : Option Nat) : Stable s (wait s d) := by
  unfold wait Stable
  refine ⟨by simp, ?_⟩
  intro w f hw _
  have : w < s.futs.length := by
    by_cases hlt : w < s.futs.length
    · exact hlt
    · simp [List.getElem?_eq_none (Nat.le_of_not_lt hlt)] at hw
  simp only
  rw [List.getElem?_append_left this]; exact hw

theorem popN_woken_pending (futs : List FState) (ws : List Nat) (n : Nat) :
    ∀ w ∈ (popN futs ws n).1, isPend futs w = true := by
  intro w hw
  rw [(popN_spec futs ws n).1] at hw
  exact (List.mem_filter.mp (List.mem_of_mem_take hw)).2

theorem stable_notify (s : St) (n : Nat) : Stable s (notify s n).1 := by
  unfold notify Stable
  refine ⟨by simp [setAll_length], ?_⟩
  intro w f hw hf
  simp only
  rw [setAll_get_not_mem]
  · exact hw
  · intro hm
    have := popN_woken_pending s.futs s.waiters n w hm
    unfold isPend at this
    rw [hw] at this
    simp at this
    exact hf this

theorem stable_step (s : St) (op : Op) : Stable s (step s op).1 := by
  cases op with
  | wait d => simp only [step]; exact Stable.trans (stable_wait s d) (stable_settle _)
  | notify n => simp only [step]; exact Stable.trans (stable_notify s n) (stable_settle _)
  | notifyAll => simp only [step]; exact Stable.trans (stable_notify s _) (stable_settle _)
  | fire => simp only [step]; exact Stable.trans (stable_of_futs (s' := (advance s).1) rfl) (stable_settle _)
  | cancel w => simp only [step]; exact Stable.trans (stable_cancel s w) (stable_settle _)
  | raceNotify n =>
    simp only [step]
    exact Stable.trans (Stable.trans (stable_of_futs (s' := (advance s).1) rfl) (stable_notify _ n))
      (stable_settleRace _)
  | raceCancel w =>
    simp only [step]
    exact Stable.trans (Stable.trans (stable_of_futs (s' := (advance s).1) rfl) (stable_cancel _ w))
      (stable_settleRace _)

theorem stable_run (s : St) (ops : List Op) : Stable s (run s ops).1 := by
  induction ops generalizing s with
  | nil => exact Stable.refl s
  | cons op ops ih => simp only [run]; exact Stable.trans (stable_step s op) (ih _)

theorem run_append (s : St) (a b : List Op) : (run s (a ++ b)).1 = (run (run s a).1 b).1 := by
  induction a generalizing s with
  | nil => rfl
  | cons op a ih => simp only [List.cons_append, run]; exact ih _

end Cond
/-! ## Event -/
namespace Event

theorem mem_insNat {x y : Nat} {l : List Nat} : x ∈ insNat y l ↔ x = y ∨ x ∈ l := by
  induction l with
  | nil => simp [insNat]
  | cons a l ih =>
    simp only [insNat]
    split
    · simp
    · simp [ih]; constructor
      · rintro (h | h | h) <;> simp [h]
      · rintro (h | h | h) <;> simp [h]

theorem mem_foldl_insNat {x : Nat} {l acc : List Nat} :
    x ∈ l.foldl (fun acc x => insNat x acc) acc ↔ x ∈ acc ∨ x ∈ l := by
  induction l generalizing acc with
  | nil => simp
  | cons a l ih =>
    simp only [List.foldl_cons, ih, mem_insNat, List.mem_cons]
    constructor
    · rintro ((h | h) | h) <;> simp [h]
    · rintro (h | h | h) <;> simp [h]

theorem mem_sortNat {x : Nat} {l : List Nat} : x ∈ sortNat l ↔ x ∈ l := by
  unfold sortNat; rw [mem_foldl_insNat]; simp

theorem resolveAll_pos {futs : List FState} {v : FState} {a : Nat} {ws : List Nat}
    (h : isPend futs a = true) :
    (resolveAll futs v (a :: ws)).1 = (resolveAll (futs.set a v) v ws).1 := by
  simp [resolveAll, h]
theorem resolveAll_neg {futs : List FState} {v : FState} {a : Nat} {ws : List Nat}
    (h : isPend futs a = false) :
    (resolveAll futs v (a :: ws)) = (resolveAll futs v ws) := by
  simp [resolveAll, h]

theorem resolveAll_length (futs : List FState) (v : FState) (ws : List Nat) :
    (resolveAll futs v ws).1.length = futs.length := by
  induction ws generalizing futs with
  | nil => rfl
  | cons a ws ih =>
    by_cases h : isPend futs a = true
    · rw [resolveAll_pos h, ih]; simp
    · rw [resolveAll_neg (by simpa using h), ih]

theorem resolveAll_mono {futs : List FState} {v : FState} {ws : List Nat} {w : Nat} (hv : v ≠ .pending)
    (h : isPend (resolveAll futs v ws).1 w = true) : isPend futs w = true ∧ w ∉ ws := by
  induction ws generalizing futs with
  | nil => exact ⟨h, by simp⟩
  | cons a ws ih =>
    by_cases ha : isPend futs a = true
    · rw [resolveAll_pos ha] at h
      obtain ⟨h1, h2⟩ := ih h
      obtain ⟨h3, h4⟩ := isPend_set hv h1
      exact ⟨h3, by simp [h4, h2]⟩
    · have ha' : isPend futs a = false := by simpa using ha
      rw [resolveAll_neg ha'] at h
      obtain ⟨h1, h2⟩ := ih h
      refine ⟨h1, ?_⟩
      have : w ≠ a := fun e => by subst e; rw [ha'] at h1; simp at h1
      simp [this, h2]

theorem resolveAll_stable {futs : List FState} {v : FState} {ws : List Nat} {w : Nat} {f : FState}
    (hw : futs[w]? = some f) (hf : f ≠ .pending) : (resolveAll futs v ws).1[w]? = some f := by
  induction ws generalizing futs with
  | nil => exact hw
  | cons a ws ih =>
    by_cases ha : isPend futs a = true
    · rw [resolveAll_pos ha]
      apply ih
      rw [List.getElem?_set]
      split
      · rename_i e; subst e
        unfold isPend at ha; rw [hw] at ha; simp at ha; exact absurd ha hf
      · exact hw
    · rw [resolveAll_neg (by simpa using ha)]; exact ih hw

theorem resolveAll_sets {futs : List FState} {v : FState} {ws : List Nat} {w : Nat} (hv : v ≠ .pending)
    (hm : w ∈ ws) (hp : isPend futs w = true) : (resolveAll futs v ws).1[w]? = some v := by
  induction ws generalizing futs with
  | nil => simp at hm
  | cons a ws ih =>
    by_cases ha : isPend futs a = true
    · rw [resolveAll_pos ha]
      by_cases e : w = a
      · subst e
        apply resolveAll_stable _ hv
        simp [isPend_lt ha]
      · have hm' : w ∈ ws := by
          rcases List.mem_cons.mp hm with h | h
          · exact absurd h e
          · exact h
        exact ih hm' (by rw [isPend_set_ne e]; exact hp)
    · have ha' : isPend futs a = false := by simpa using ha
      rw [resolveAll_neg ha']
      have e : w ≠ a := fun e => by subst e; rw [ha'] at hp; simp at hp
      have hm' : w ∈ ws := by
        rcases List.mem_cons.mp hm with h | h
        · exact absurd h e
        · exact h
      exact ih hm' hp

/-- the invariant that every primitive keeps -/
structure Inv (s : St) : Prop where
  mem : ∀ w, isPend s.futs w = true → w ∈ s.waiters
  setNone : s.flag = true → ∀ w, isPend s.futs w = false

theorem inv_init : Inv init := by constructor <;> simp [init, isPend]

theorem inv_purge {s : St} (h : Inv s) : Inv (purge s) := by
  constructor
  · intro w hw; exact List.mem_filter.mpr ⟨h.mem w hw, hw⟩
  · exact h.setNone

theorem inv_fireDue {s : St} (h : Inv s) : Inv (fireDue s).1 := by
  unfold fireDue
  constructor
  · intro w hw; exact h.mem w (resolveAll_mono (by simp) hw).1
  · intro hf w
    have := h.setNone hf w
    by_cases hp : isPend (resolveAll s.futs .timeout
        (sortNat ((s.timers.filter (fun t => t.1 ≤ s.now)).map (·.2)))).1 w = true
    · rw [(resolveAll_mono (by simp) hp).1] at this; simp at this
    · simpa using hp

theorem inv_settle {s : St} (h : Inv s) : Inv (settle s).1 := by
  unfold settle; exact inv_purge (inv_fireDue (inv_purge h))

theorem inv_advance {s : St} (h : Inv s) : Inv (advance s).1 := by
  unfold advance; exact ⟨h.mem, h.setNone⟩

theorem inv_cancel {s : St} (h : Inv s) (w : Nat) : Inv (cancel s w).1 := by
  unfold cancel
  split
  · constructor
    · intro x hx; exact h.mem x (isPend_set (by simp) hx).1
    · intro hf x
      have := h.setNone hf x
      by_cases hp : isPend (s.futs.set w .cancelled) x = true
      · rw [(isPend_set (by simp) hp).1] at this; simp at this
      · simpa using hp
  · exact h

theorem inv_clear {s : St} (h : Inv s) : Inv { s with flag := false } := by
  constructor
  · exact h.mem
  · intro hf; simp at hf

theorem inv_wait {s : St} (h : Inv s) (d : Option Nat) : Inv (wait s d).1 := by
  unfold wait
  split
  · rename_i hf
    constructor
    · intro w hw; exact h.mem w (isPend_append (by simp) hw)
    · intro _ w
      by_cases hp : isPend (s.futs ++ [FState.result 0]) w = true
      · have := h.setNone hf w
        rw [isPend_append (by simp) hp] at this; simp at this
      · simpa using hp
  · rename_i hf
    constructor
    · intro x hx
      simp only at hx ⊢
      have hl := isPend_lt hx
      simp at hl
      by_cases hw : x < s.futs.length
      · rw [isPend_append_lt hw] at hx
        exact List.mem_append_left _ (h.mem x hx)
      · have : x = s.futs.length := by omega
        simp [this]
    · intro hf'; simp only at hf'; exact absurd hf' hf

theorem inv_set {s : St} (h : Inv s) (raced : List Nat) : Inv (set s raced).1 := by
  unfold set
  split
  · exact h
  · constructor
    · intro w hw
      simp only at hw ⊢
      exact h.mem w (resolveAll_mono (by simp) (resolveAll_mono (by simp) hw).1).1
    · intro _ w
      simp only
      generalize hf1 : (resolveAll s.futs FState.timeout
        (List.filter (fun x => raced.contains x) (sortNat s.waiters))).1 = f1
      by_cases hp : isPend (resolveAll f1 (.result 0) (sortNat s.waiters)).1 w = true
      · obtain ⟨h1, h2⟩ := resolveAll_mono (by simp) hp
        rw [← hf1] at h1
        have := h.mem w (resolveAll_mono (by simp) h1).1
        exact absurd (mem_sortNat.mpr this) h2
      · simpa using hp

theorem inv_step {s : St} (h : Inv s) (op : Op) : Inv (step s op).1 := by
  cases op with
  | wait d => simp only [step]; exact inv_settle (inv_wait h d)
  | set => simp only [step]; exact inv_settle (inv_set h [])
  | clear => simp only [step]; exact inv_settle (inv_clear h)
  | fire => simp only [step]; exact inv_settle (inv_advance h)
  | cancel w => simp only [step]; exact inv_settle (inv_cancel h w)
  | raceSet => simp only [step]; exact inv_purge (inv_fireDue (inv_set (inv_advance h) _))
  | raceCancel w => simp only [step]; exact inv_purge (inv_fireDue (inv_cancel (inv_advance h) w))

theorem inv_run {s : St} (h : Inv s) (ops : List Op) : Inv (run s ops).1 := by
  induction ops generalizing s with
  | nil => exact h
  | cons op ops ih => simp only [run]; exact ih (inv_step h op)

/-- every step ends with the drain, after which `_waiters` holds pending futures only -/
theorem step_no_residue (s : St) (op : Op) : ∀ w ∈ (step s op).1.waiters, isPend (step s op).1.futs w = true := by
  have key : ∀ t : St, ∀ w ∈ (purge t).waiters, isPend (purge t).futs w = true := by
    intro t w hw; exact (List.mem_filter.mp hw).2
  cases op <;> simp only [step, settle] <;> exact key _

end Event
end TornadoModel.C34
