/- C34 driver: `C34 cond <t0> [op,…]`, `C34 condspec [op,…]`, `C34 event [op,…]`, `C34 eventspec [op,…]`.
An op is a primitive op of `Model.lean`, `[multi,[call,…]]` or (Event) `[fireMulti,[call,…]]` (`Multi.lean`). -/
import TornadoModel.Base.Wire
import TornadoModel.C33.Drv
import TornadoModel.C34.Multi
namespace TornadoModel.C34.Drv
open TornadoModel TornadoModel.Wire TornadoModel.C34
open TornadoModel.C33.Drv (encF encEv decDeadline)

def decCOp (v : V) : Option Cond.Op := do
  let l ← v.list?
  match l with
  | [.atom "wait", d] => pure (.wait (← decDeadline d))
  | [.atom "notify", n] => pure (.notify (← n.nat?))
  | [.atom "notifyAll"] => pure .notifyAll
  | [.atom "fire"] => pure .fire
  | [.atom "cancel", w] => pure (.cancel (← w.nat?))
  | [.atom "raceNotify", n] => pure (.raceNotify (← n.nat?))
  | [.atom "raceCancel", w] => pure (.raceCancel (← w.nat?))
  | _ => none

def decEOp (v : V) : Option Event.Op := do
  let l ← v.list?
  match l with
  | [.atom "wait", d] => pure (.wait (← decDeadline d))
  | [.atom "set"] => pure .set
  | [.atom "clear"] => pure .clear
  | [.atom "fire"] => pure .fire
  | [.atom "cancel", w] => pure (.cancel (← w.nat?))
  | [.atom "raceSet"] => pure .raceSet
  | [.atom "raceCancel", w] => pure (.raceCancel (← w.nat?))
  | _ => none

def decCCall (v : V) : Option Cond.Call := do
  let l ← v.list?
  match l with
  | [.atom "wait", d] => pure (.wait (← decDeadline d))
  | [.atom "notify", n] => pure (.notify (← n.nat?))
  | [.atom "notifyAll"] => pure .notifyAll
  | [.atom "cancel", w] => pure (.cancel (← w.nat?))
  | _ => none

def decECall (v : V) : Option Event.Call := do
  let l ← v.list?
  match l with
  | [.atom "wait", d] => pure (.wait (← decDeadline d))
  | [.atom "set"] => pure .set
  | [.atom "clear"] => pure .clear
  | [.atom "isSet"] => pure .isSet
  | [.atom "cancel", w] => pure (.cancel (← w.nat?))
  | _ => none

def decCOp2 (v : V) : Option Cond.Op2 :=
  match v with
  | .list [.atom "multi", cs] => (cs.list? >>= (·.mapM decCCall)).map .multi
  | _ => (decCOp v).map .prim

def decEOp2 (v : V) : Option Event.Op2 :=
  match v with
  | .list [.atom "multi", cs] => (cs.list? >>= (·.mapM decECall)).map .multi
  | .list [.atom "fireMulti", cs] => (cs.list? >>= (·.mapM decECall)).map .fireMulti
  | _ => (decEOp v).map .prim

def encRes : Res → V
  | .unit => .atom "U"
  | .bool b => V.ofBool b
  | .fired d => V.ofOpt (fun n => V.int (Int.ofNat n)) d

def encCOut (o : Cond.Out) : V :=
  .list [encRes o.res, .list (o.evs.map encEv), .int o.nwaiters, .int o.timeouts, .int o.ntimers]
def encEOut (o : Event.Out) : V :=
  .list [encRes o.res, .list (o.evs.map encEv), V.ofBool o.isSet, .int o.nwaiters, .int o.ntimers]
def encSOut (o : Spec.Out) : V := .list [encRes o.res, .list (o.evs.map encEv)]

/-- per call of a compound op: result and the observers right after the call -/
def encCCall (o : Cond.COut) : V := .list [encRes o.res, .int o.nwaiters, .int o.timeouts, .int o.ntimers]
def encECall (o : Event.COut) : V := .list [encRes o.res, V.ofBool o.isSet, .int o.nwaiters, .int o.ntimers]

/-- a compound op answers `[[M, op result, call…], evs, observers…]` -/
def encCOut2 : Cond.Out2 → V
  | .prim o => encCOut o
  | .multi o =>
    .list [.list (.atom "M" :: encRes .unit :: o.calls.map encCCall), .list (o.evs.map encEv), .int o.nwaiters,
           .int o.timeouts, .int o.ntimers]
def encEOut2 : Event.Out2 → V
  | .prim o => encEOut o
  | .multi o =>
    .list [.list (.atom "M" :: encRes o.res :: o.calls.map encECall), .list (o.evs.map encEv), V.ofBool o.isSet,
           .int o.nwaiters, .int o.ntimers]

/-- Spec side: a primitive op answers `[res, evs]`, a compound op `[[M, op result, res…], evs]` -/
def encSOut2 (isPrim : Bool) (o : Res × List Res × List TornadoModel.C33.Ev) : V :=
  if isPrim then .list [encRes o.1, .list (o.2.2.map encEv)]
  else .list [.list (.atom "M" :: encRes o.1 :: o.2.1.map encRes), .list (o.2.2.map encEv)]

def cIsPrim : Cond.Op2 → Bool
  | .prim _ => true
  | _ => false
def eIsPrim : Event.Op2 → Bool
  | .prim _ => true
  | _ => false

def handle (toks : List String) : String :=
  match toks.mapM V.parse with
  | none => err "bad-arg"
  | some args =>
    match args with
    | [.atom "cond", t0, ops] =>
      match t0.nat?, ops.list? >>= (·.mapM decCOp2) with
      | some t0, some ops =>
        let (s, outs) := Cond.run2 (Cond.init t0) ops
        ok [.list (outs.map encCOut2), .list (s.futs.map encF)]
      | _, _ => err "bad-op"
    | [.atom "condspec", ops] =>
      match ops.list? >>= (·.mapM decCOp2) with
      | some ops =>
        ok [.list (List.zipWith (fun op o => encSOut2 (cIsPrim op) o) ops (Spec.Cond.run2 Spec.Cond.init ops).2)]
      | _ => err "bad-op"
    | [.atom "event", ops] =>
      match ops.list? >>= (·.mapM decEOp2) with
      | some ops =>
        let (s, outs) := Event.run2 Event.init ops
        ok [.list (outs.map encEOut2), .list (s.futs.map encF)]
      | _ => err "bad-op"
    | [.atom "eventspec", ops] =>
      match ops.list? >>= (·.mapM decEOp2) with
      | some ops =>
        ok [.list (List.zipWith (fun op o => encSOut2 (eIsPrim op) o) ops (Spec.Event.run2 Spec.Event.init ops).2)]
      | _ => err "bad-op"
    | _ => err "bad-cmd"

end TornadoModel.C34.Drv
