/- C34 driver: `C34 cond <t0> [op,…]`, `C34 condspec [op,…]`, `C34 event [op,…]`, `C34 eventspec [op,…]` -/
import TornadoModel.Base.Wire
import TornadoModel.C33.Drv
import TornadoModel.C34.Spec
namespace TornadoModel.C34.Drv
open TornadoModel TornadoModel.Wire TornadoModel.C34
open TornadoModel.C33.Drv (encF encEv decDeadline)

def decCOp (v : V) : Option Cond.Op := do
  let l ← v.list?
  match l with
  | [.atom "wait", d] => pure (.wait (← decDeadline d))
  | [.atom "notify", n] => pure (.notify (← n.nat?))
  | [.atom "notifyAll"] => pure .notifyAll
  | [.atom "fire"] => pure .fire
  | [.atom "cancel", w] => pure (.cancel (← w.nat?))
  | [.atom "raceNotify", n] => pure (.raceNotify (← n.nat?))
  | [.atom "raceCancel", w] => pure (.raceCancel (← w.nat?))
  | _ => none

def decEOp (v : V) : Option Event.Op := do
  let l ← v.list?
  match l with
  | [.atom "wait", d] => pure (.wait (← decDeadline d))
  | [.atom "set"] => pure .set
  | [.atom "clear"] => pure .clear
  | [.atom "fire"] => pure .fire
  | [.atom "cancel", w] => pure (.cancel (← w.nat?))
  | [.atom "raceSet"] => pure .raceSet
  | [.atom "raceCancel", w] => pure (.raceCancel (← w.nat?))
  | _ => none

def encRes : Res → V
  | .unit => .atom "U"
  | .bool b => V.ofBool b
  | .fired d => V.ofOpt (fun n => V.int (Int.ofNat n)) d

def encCOut (o : Cond.Out) : V :=
  .list [encRes o.res, .list (o.evs.map encEv), .int o.nwaiters, .int o.timeouts, .int o.ntimers]
def encEOut (o : Event.Out) : V :=
  .list [encRes o.res, .list (o.evs.map encEv), V.ofBool o.isSet, .int o.nwaiters, .int o.ntimers]
def encSOut (o : Spec.Out) : V := .list [encRes o.res, .list (o.evs.map encEv)]

def handle (toks : List String) : String :=
  match toks.mapM V.parse with
  | none => err "bad-arg"
  | some args =>
    match args with
    | [.atom "cond", t0, ops] =>
      match t0.nat?, ops.list? >>= (·.mapM decCOp) with
      | some t0, some ops =>
        let (s, outs) := Cond.run (Cond.init t0) ops
        ok [.list (outs.map encCOut), .list (s.futs.map encF)]
      | _, _ => err "bad-op"
    | [.atom "condspec", ops] =>
      match ops.list? >>= (·.mapM decCOp) with
      | some ops => ok [.list ((Spec.Cond.run Spec.Cond.init ops).2.map encSOut)]
      | _ => err "bad-op"
    | [.atom "event", ops] =>
      match ops.list? >>= (·.mapM decEOp) with
      | some ops =>
        let (s, outs) := Event.run Event.init ops
        ok [.list (outs.map encEOut), .list (s.futs.map encF)]
      | _ => err "bad-op"
    | [.atom "eventspec", ops] =>
      match ops.list? >>= (·.mapM decEOp) with
      | some ops => ok [.list ((Spec.Event.run Spec.Event.init ops).2.map encSOut)]
      | _ => err "bad-op"
    | _ => err "bad-cmd"

end TornadoModel.C34.Drv
